"""C01 — stream-level check (see DESIGN.md section 6)."""
from lib import kv
PID = "C01"
LEVEL = "proof"
CMD = "c01"
RULE = 'random pipelines: data shape (text, UTF-8 with large code-point sets, DNA, ELF/x86-like, WAV-like, runs, skewed histograms, base64, zeros, random) x transform chain (single, <=3, <=8 incl. NONE fillers) x 9 entropy codecs x block size x jobs 1..64 x checksum x hint {absent, exact, smaller, larger} x {header, headerless} x Write partition, read back with an independent job count and Read size; plus every single transform x every entropy codec on its matching data shape (1/3 per quick run, all in thorough) and a regression corpus. Non-trivial = distinct (configuration, shape, size) with more than one block or a chain of >= 2 stages. Violation: an error after the configuration was accepted, a mismatch, or anything but (0, EOF) after the end.'

def check(run):
    from props import _stream
    _stream.check(run, PID, CMD, RULE, extra_cmds=('wrm', 'rdm', 'hdm', 'ctm', 'xxm'))

def replay(path):
    import json
    print(json.dumps(json.load(open(path)), indent=1)[:4000])
    return 0
