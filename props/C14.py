"""C14 — bitstream writer and reader are exact mirrors for every operation sequence."""
from lib import kv
PID = "C14"
LEVEL = "proof"

def check(run):
    run.assumptions += [
        "healthy sink and full-length source reads (faults belong to C08, short reads to C06)",
        "models coq/Model/OutBS.v and InBS.v are line-by-line restatements of DefaultOutputBitStream.go / DefaultInputBitStream.go; agreement checked differentially on this run's programs (values, Written()/Read() after every operation, sink bytes, sink call count)",
    ]
    kv.standard_check(run, PID, ["c14"],
        rule="random programs over WriteBit / WriteBits(1..64, clean or dirty upper bits) / WriteArray(k bits: tiny, around the "
             "flush threshold 8*(buf-8), around the buffer size, multi-buffer) with buffer sizes 1024..4096, then Close, "
             "optionally operations on the closed stream; read back by the mirrored program or by a random regrouping "
             "(ReadBit/ReadBits/ReadArray), optionally reading past the end or after Close. Every step is compared with a "
             "bit-vector reference in the harness and with the extracted Coq model. Non-trivial = distinct program in which "
             "an array write crosses a flush boundary or starts unaligned with >= 64 bits.")

def replay(path):
    import json
    print(json.dumps(json.load(open(path)), indent=1)[:4000])
    return 0
