"""C09 — stream-level check (see DESIGN.md section 6)."""
from lib import kv
PID = "C09"
LEVEL = "proof"
CMD = "c09"
RULE = 'every strict prefix of small streams (<= 4.2 KB; <= 20 KB in thorough) and boundary-focused + random cuts of larger ones, all configurations incl. headerless and checksums, jobs 1..3: the read must end with an error, never EOF, bytes returned must be a prefix of the original, later Reads must not return data or EOF. Non-trivial = distinct stream.'

def check(run):
    from props import _stream
    _stream.check(run, PID, CMD, RULE, extra_cmds=('rdm', 'c09bs'))

def replay(path):
    import json
    print(json.dumps(json.load(open(path)), indent=1)[:4000])
    return 0
