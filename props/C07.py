"""C07 — block hand-off protocol: exclusive, ordered, always terminating."""
from lib import kv
PID = "C07"
LEVEL = "proof"

def check(run):
    run.assumptions += [
        "atomic operations of sync/atomic are sequentially consistent single steps (the Go memory model for atomics); a goroutine that is runnable is eventually scheduled (weak fairness) — needed to turn 'progress + decreasing measure' into termination",
        "the model coq/Model/Handoff.v is tied to encodingTask.encode / decodingTask.decode by replaying controlled executions of the real tasks (verif hooks park every task at every step boundary; the scheduler releases one task at a time, optionally failing the released step) through the extracted step function: every observed (task, next program point, counter value) must be explained by one model step, and the API result by the model's result scan",
    ]
    stats = kv.standard_check(run, PID, ["c07"],
        rule="controlled executions of the real encode/decode tasks through the verif hooks: exhaustive DFS over all "
             "schedules x at most one injected step failure for 2-task batches (encode; decode plain / end-of-stream / "
             "skipped-first / skipped-last), random schedules for 3..5 tasks. Checked directly: one owner of the shared "
             "stream at a time, owners in id order, no deadlock, failure reported by the enclosing Write/Read. Each "
             "serialized trace is replayed through the extracted Coq step function. Free-running: a corrupted block in every position of an "
             "8-block stream x jobs 1..4 x caller buffers 100..65536: the task failure must be returned by a Read call (not only when "
             "the failing batch is the first one that call starts) and nothing hangs. Non-trivial = distinct trace with >= 2 tasks.")
    run.coverage["traces_validated_against_impl"] = run.coverage.get("correspondence_cases", 0)
    run.coverage["dfs_exhaustive_for_2_tasks"] = bool(stats.get("dfs_exhaustive"))

def replay(path):
    import json
    print(json.dumps(json.load(open(path)), indent=1)[:4000])
    return 0
