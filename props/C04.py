"""C04 — stream-level check (see DESIGN.md section 6)."""
from lib import kv
PID = "C04"
LEVEL = "proof"
CMD = "c04"
RULE = 'for each (data, configuration, hint): reference stream from jobs=1 and one Write, compared byte for byte with jobs {2,3,4,5..16,17..64}, a repeated run, random / block-aligned / 1-byte / empty Write partitions, and three runs under a perturbed schedule (random yields and sleeps at the hand-off hook points); heterogeneous data (ELF-like first block then text) every fifth case. Non-trivial = multi-block case.'

def check(run):
    from props import _stream
    _stream.check(run, PID, CMD, RULE, extra_cmds=('wrm',))

def replay(path):
    import json
    print(json.dumps(json.load(open(path)), indent=1)[:4000])
    return 0
