"""C03 — the decoder is total: arbitrary input never crashes or hangs the process."""
from lib import kv
PID = "C03"
LEVEL = "other"
RULE = ("structure-aware mutants of valid streams (each transform with entropy NONE so that transform headers are exposed, each entropy codec, "
        "three long chains; 8 MiB BWT block in thorough): truncation at any length, flips in the first 512 bits of a block payload (tables, primary "
        "indexes, offsets), in the payload prefix (mode, skip flags, length, checksum), in the frame length field, forged headers with a recomputed "
        "checksum (illegal block sizes, unknown codec ids, size hints), random flips, splices, garbage; jobs 1..8, random Read sizes, three more "
        "Reads after an error. Each mutant is decoded in a child process: exit status and a 25 s watchdog decide. Non-trivial = mutant that the reader rejects with an error.")

def check(run):
    run.assumptions += [
        "termination and panic-freedom inside the codec inverses on forged data is searched, not proved; memory exhaustion and Go runtime aborts are outside any model",
    ]
    kv.standard_check(run, PID, ["c03"], RULE, use_model=False,
        explanation="Partial by nature. Proved (coq/Properties/C03.v, Closed under the global context): every goroutine spawned by the library packages has a deferred recover "
                    "(fact regenerated from the AST of the current sources by tools/gotrans on every run); on the decode side of the hand-off protocol every non-final reachable "
                    "state has a non-spin step enabled and a measure decreases, for every number of tasks, interleaving and failure point (no deadlock, finite work). "
                    "Searched (this run): child-process decoding of structure-aware mutants with a watchdog. Not expressible: behaviour inside unmodelled codec inverses, OOM.")

def replay(path):
    import json
    print(json.dumps(json.load(open(path)), indent=1)[:4000])
    return 0
