"""C08 — I/O failures are never swallowed."""
from lib import kv
PID = "C08"
LEVEL = "proof"
RULE = ("scenarios (NONE/NONE 1 MiB blocks with the end marker on the flush boundary, multi-flush single block, LZ/HUFFMAN 3 jobs, "
        "random configurations with 64..512 KiB blocks): the sink fails at its k-th Write for EVERY k of the fault-free run "
        "(transient and permanent) and at its Close; Write..., Close, Close, Close are issued: no panic, an error must be returned, "
        "and whenever a Close returns nil the sink must decode to the data. The source fails at its k-th Read for every k, jobs 1 and 3: "
        "no panic, an error must be reported unless the stream was already complete, no data or EOF after the error. "
        "Sub-runs: bit stream fault programs (c08bs) and Writer call sequences with an injected task failure (wrm) against the extracted Coq models. "
        "Non-trivial = distinct scenario.")

def check(run):
    from props import _stream
    _stream.check(run, PID, "c08", RULE, extra_cmds=("c08bs", "wrm"))
    run.coverage["exhaustive"] = True

def replay(path):
    import json
    print(json.dumps(json.load(open(path)), indent=1)[:4000])
    return 0
