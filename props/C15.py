"""C15 — codec names: case-insensitive, canonical, consistent end to end."""
from lib import kv
PID = "C15"
LEVEL = "proof"
RULE = ("exhaustive: every letter-case variant of the 19 transform and 9 entropy names, every 6-bit / 5-bit type value, every chain of 2 names "
        "(every chain of 3 in thorough, a quarter in quick) with random letter case, random chains of 1..9 with NONE fillers, malformed names; "
        "Go GetType/GetName compared with the model instantiated with the tables regenerated from the sources; end to end: lower-case and mixed-case "
        "spellings must produce exactly the stream of the canonical spelling and decode (variant-sensitive pairs ROLZX, TPAQX, TEXT+TPAQX, RLT/TEXT with fast codecs, chains with NONE incl. NONE+ROLZX / ROLZX+NONE); "
        "every two-stage chain of {RLT,ZRLT,SRT,RANK,MTFT} x {ROLZX,ROLZ,LZX,LZ,LZP} (both orders, with NONE fillers) must be the composition of its named stages (output and skip flags). "
        "Non-trivial = chain or stream case.")

def check(run):
    run.assumptions += [
        "ASCII names (strings.ToUpper also maps a few non-ASCII letters onto ASCII ones; the model upper-cases a..z only)",
        "tools/gotrans reports the switch tables, the ToUpper call before the lookup and the comparison shape at each variant-selection site faithfully; cross-checked dynamically by this run (every name, every case variant)",
    ]
    kv.standard_check(run, PID, ["c15"], RULE)
    run.coverage["exhaustive"] = True

def replay(path):
    import json
    print(json.dumps(json.load(open(path)), indent=1)[:4000])
    return 0
