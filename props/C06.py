"""C06 — stream-level check (see DESIGN.md section 6)."""
from lib import kv
PID = "C06"
LEVEL = "proof"
CMD = "c06"
RULE = 'stream level: Write partitions (tiny, empty, block+1) must give the same stream; decoding from a source that delivers chunks of {1,2,3,5,7,8,9,10,13,100,1021,4093,4096} bytes (constant or mixed) with Read buffer sizes incl. 0 and jobs 1..5 must give the original. Bit stream level (c06bs): random read programs over short-read schedules compared with the extracted Coq model. Non-trivial = distinct stream.'

def check(run):
    from props import _stream
    _stream.check(run, PID, CMD, RULE, extra_cmds=('c06bs',))

def replay(path):
    import json
    print(json.dumps(json.load(open(path)), indent=1)[:4000])
    return 0
