"""C11 — stream-level check (see DESIGN.md section 6)."""
from lib import kv
PID = "C11"
LEVEL = "proof"
CMD = "c11"
RULE = 'streams of 1..12 blocks: all ranges 1 <= from <= to <= blocks+2 x jobs 1..8 (one third per quick run, all in thorough): output must equal the exact slice, then EOF; a listener checks that no entropy/transform event is emitted for a block outside the range. Non-trivial = every (stream, range, jobs) case.'

def check(run):
    from props import _stream
    _stream.check(run, PID, CMD, RULE, extra_cmds=('rdm',))

def replay(path):
    import json
    print(json.dumps(json.load(open(path)), indent=1)[:4000])
    return 0
