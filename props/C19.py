"""C19 — command-line tool: tree round trip and file safety."""
import os
from lib import kv
PID = "C19"
LEVEL = "other"
RULE = ("the binary built from /repo/v2/app: random trees (empty files, sub-directories, names with spaces/dots) x levels 0..9 or explicit -t/-e/-b/-x x jobs, "
        "compress then decompress in place (with --rm on both sides, or sources removed by hand): exit status 0 twice, tree restored byte for byte, inputs untouched; "
        "stdin/stdout round trips; existing outputs never overwritten without --force (compress and decompress); the tool refuses to write to its own input "
        "(same path, ./path, input symlink to the output, output symlink to the input, hard link) even with --force; --rm with an output that fails (/dev/full) keeps the source; "
        "SIGKILL at random times during --rm compressions of trees: every source still exists intact or its output decodes to it. Non-trivial = tree / link / kill case.")

def check(run):
    run.assumptions += [
        "durability across power loss (page cache), permissions and ownership, Windows paths are not modelled or tested",
        "kill points are sampled in time (a SIGKILL lands where the scheduler puts it), not enumerated over the syscall trace",
    ]
    with kv.Lock("go"):
        binp = os.path.join(kv.BUILD, "kanzi")
        rc, out = kv.sh([kv.GO, "build", "-o", binp, "./app"], cwd=os.path.join(kv.REPO, "v2"), env=kv.GOENV, timeout=900)
    if rc != 0:
        raise RuntimeError("cannot build the command-line tool:\n" + out[-3000:])
    os.environ["KANZI_BIN"] = binp
    kv.GOENV["KANZI_BIN"] = binp
    kv.standard_check(run, PID, ["c19"], RULE, use_model=False,
        explanation="Partial by nature. Proved (coq/Properties/C19.v, Closed under the global context): the level table regenerated from the current sources only names "
                    "codecs the factories know and has the 10 levels 0..9, so every level is a configuration the writer accepts (with C15 for the names and C01 for the per-file round trip). "
                    "Searched on the real binary: tree round trips, no-clobber, input protection through links, --rm under failing outputs and at sampled kill points. "
                    "Not modelled: the file system itself, durability, the exact syscall interleaving at a kill.")

def replay(path):
    import json
    print(json.dumps(json.load(open(path)), indent=1)[:4000])
    return 0
