"""C13 — codec-level check (see DESIGN.md section 6)."""
from lib import kv
PID = "C13"
LEVEL = "exploration"
RULE = ("each of the 19 transforms through a one-stage sequence: Forward into a buffer of exactly MaxEncodedLen bytes guarded by canaries; if applied, output <= MaxEncodedLen and Inverse into buffers sized as the decompressor sizes them (canaries) gives the block back; if declined, the input is untouched and passed through. Sizes 1 B .. 100 KB (multi-MiB and the 4 MiB BWT threshold in thorough), shapes matched to the transform plus random, data type hints (none 50%, else TEXT/DNA/EXE/MULTIMEDIA/BIN/UTF8/BASE64/NUMERIC/SMALL_ALPHABET), entropy names that select variants. Non-trivial = case where the transform applied to more than 64 bytes.")

def check(run):
    from props import _stream
    _stream.check(run, PID, "c13", RULE, extra_cmds=("seqm", "zrm", "sbm"))

def replay(path):
    import json
    print(json.dumps(json.load(open(path)), indent=1)[:4000])
    return 0
