"""C05 — stream-level check (see DESIGN.md section 6)."""
from lib import kv
PID = "C05"
LEVEL = "proof"
CMD = "c05"
RULE = 'valid multi-block streams (2..12 blocks, partial last batch, with/without hint) decoded with jobs {1,2,3,4,5,8,9..64} under perturbed schedules: identical bytes; then one block damaged (payload bit flip located by the independent container parser) at every block position, decoded with jobs {1..4, 5..9}, reading on after the error: an error must be reported, the bytes returned must be a prefix of the original that stops before the failed block, every later Read must return (0, error). Non-trivial = stream with >= 2 blocks.'

def check(run):
    from props import _stream
    _stream.check(run, PID, CMD, RULE, extra_cmds=('rdm',))

def replay(path):
    import json
    print(json.dumps(json.load(open(path)), indent=1)[:4000])
    return 0
