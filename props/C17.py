"""C17 — stream object lifecycle behaves like the documented state machine."""
from lib import kv
PID = "C17"
LEVEL = "proof"
RULE = ("random call programs on a Writer (Write with lengths 0 / block / jobs*block / random, Close repeated, GetWritten) then on a Reader "
        "over the produced stream (Read lengths 0/1/block/random, Close repeated, GetRead), jobs 1..4, all codecs: Close idempotent, "
        "use-after-close is an error without side effects (counter and sink unchanged), full length on success, monotone counters, "
        "GetWritten = sink bytes after Close, empty writer decodes to empty. Sub-runs: the same kind of programs against the extracted "
        "Coq Writer/Reader state machines (wrm, rdm), result by result. Non-trivial = program that writes more than one block.")

def check(run):
    from props import _stream
    _stream.check(run, PID, "c17", RULE, extra_cmds=("wrm", "rdm", "ctm"))

def replay(path):
    import json
    print(json.dumps(json.load(open(path)), indent=1)[:4000])
    return 0
