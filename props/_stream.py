"""shared driver of the stream-level checks"""
import os
from lib import kv

def check(run, pid, cmd, rule, extra_cmds=()):
    run.assumptions += [
        "the stream-layer theorems (coq/Properties/%s.v) are about the Gallina models of Writer/Reader/container; the models are tied to /repo by the differential runs named in the coverage and by the implementation-side search of this run" % pid,
        "codec contracts (decode(encode b) = b, bit-exact consumption) are assumptions of the stream theorems where a codec is not modelled; they are exercised, not proved, by C12/C13",
    ]
    has_model_cases = os.path.exists(os.path.join(kv.ROOT, "harness", "model_" + cmd + ".flag"))
    stats = kv.standard_check(run, pid, [cmd], rule, use_model=has_model_cases)
    for ec in extra_cmds:
        sub = kv.Run(pid, run.tier, run.seed, run.level)
        sub.workdir = run.workdir + "_" + ec
        os.makedirs(sub.workdir, exist_ok=True)
        exe, _ = kv.build_harness()
        rc, out, st = kv.run_harness(sub, exe, [ec])
        if rc != 0:
            raise RuntimeError("harness %s failed: %s" % (ec, out[-2000:]))
        for v in (st.get("violations") or []):
            d = dict(v)
            d["check_kind"] = "implementation"
            run.violation(v.get("key", "impl:" + v.get("what", "")[:80]), d, True)
        drv, _ = kv.build_driver()
        kv.run_driver(sub, drv)
        n, mism = kv.compare_lines(os.path.join(sub.workdir, "go.txt"), os.path.join(sub.workdir, "model.txt"), os.path.join(sub.workdir, "cases.txt"))
        if mism:
            m = [x for x in mism if x][:3]
            run.violation("correspondence:" + ec, dict(kind="correspondence", sub=ec, mismatches=len(mism),
                          first=[dict(index=i, case=c[:1500], go=a[:500], model=b[:500]) for i, c, a, b in m]), False)
        run.coverage["evaluations"] += int(st.get("evaluations", 0))
        run.coverage["distinct_nontrivial"] += int(st.get("distinct_nontrivial", 0))
        run.coverage["correspondence_cases"] = run.coverage.get("correspondence_cases", 0) + n
        run.coverage.setdefault("sub_runs", {})[ec] = dict(evaluations=st.get("evaluations"), correspondence_cases=n, mismatches=len(mism))
    return stats
