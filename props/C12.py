"""C12 — codec-level check (see DESIGN.md section 6)."""
from lib import kv
PID = "C12"
LEVEL = "exploration"
RULE = ("each of the 9 entropy codecs: encode a block after 7 leading bits, append a 64-bit sentinel, decode: bytes equal, decoder consumed exactly the bits the encoder wrote, sentinel read back. Lengths 0, 1..33 (raw thresholds), powers of two +-1, around the 16 KiB chunk boundary, several chunks (and > 4 MiB in thorough); histogram kinds: k rare + m dominant symbols, Fibonacci-like counts (over-long Huffman codes, the 2048-byte chunk case), flat 1..256 symbols, single symbol, geometric, the 250x3+6x708 family, text, random, runs, skewed, DNA. Non-trivial = distinct case longer than 32 bytes.")

def check(run):
    from props import _stream
    _stream.check(run, PID, "c12", RULE, extra_cmds=("bcm", "fpm", "alm", "rgm"))

def replay(path):
    import json
    print(json.dumps(json.load(open(path)), indent=1)[:4000])
    return 0
