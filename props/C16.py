"""C16 — frequency scaling always yields a valid table."""
from lib import kv
PID = "C16"
LEVEL = "proof"

def check(run):
    run.assumptions += [
        "histogram counts are non-negative and total = their sum (callers compute total that way); ints are modelled as unbounded Z (legal domain keeps values < 2^44)",
        "the model coq/Model/Normalize.v matches entropy.NormalizeFrequencies: checked differentially on this run's cases only",
    ]
    kv.standard_check(run, PID, ["c16"],
        rule="histograms from: regression corpus, exhaustive 2/3-symbol counts 1..12, directed (k rare + m dominant), "
             "near-threshold totals, random shapes; scales 2^8..2^16. Non-trivial = distinct histogram that leaves the "
             "shortcut/exact paths (fast or slow redistribution). Go output compared for exact table equality with the "
             "extracted Coq model; the property (sum, support, order) is also evaluated directly on the Go output.")

def replay(path):
    import json
    r = json.load(open(path))
    print(json.dumps(r, indent=1))
    return 0
