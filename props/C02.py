"""C02 — stream-level check (see DESIGN.md section 6)."""
from lib import kv
PID = "C02"
LEVEL = "proof"
CMD = "c02"
RULE = 'checksummed streams (32/64 bit, 1..5 blocks, short raw final blocks every fourth case); payload bit positions from the independent container parser; single-bit flips (150 per stream incl. 40 in the last bytes of a block; exhaustive in thorough for the first streams, up to 60 000 positions in total), multi-flips, byte substitution, byte swaps; in-pipeline damage through the verif corruption hook after entropy decoding and after the inverse transforms; Read is called 4 more times after an error. Violation: different bytes as success in any call, data or EOF after an error. Non-trivial = distinct stream.'

def check(run):
    from props import _stream
    _stream.check(run, PID, CMD, RULE, extra_cmds=('rdm', 'xxm'))

def replay(path):
    import json
    print(json.dumps(json.load(open(path)), indent=1)[:4000])
    return 0
