"""C10 — streams written by the reference encoder keep decoding (format stability)."""
import os
from lib import kv
PID = "C10"
LEVEL = "translation_validation"

def check(run):
    run.assumptions += [
        "the vendored snapshot /verif/refsrc/v2 is the pinned reference version (upstream ba60b1f); it is built offline at check time",
        "pairs on which the reference encoder + decoder do not round-trip (defects of the pinned version that were repaired in /repo) are excluded, as the property states",
        "generated-fact obligations: constants and static tables extracted by tools/gotrans from the current sources equal the pinned extraction of the reference (coq/Golden/Consts.v)",
    ]
    ok, info = kv.proof_phase(run, PID)
    exe, hout = kv.build_harness()
    if exe is None:
        raise RuntimeError("harness build failed:\n" + hout[-3000:])
    with kv.Lock("goref"):
        ref = os.path.join(kv.BUILD, "kvref")
        rc, out = kv.sh([kv.GO, "build", "-o", ref, "."], cwd=os.path.join(kv.ROOT, "harness_ref"), env=kv.GOENV, timeout=900)
    if rc != 0:
        raise RuntimeError("reference build failed:\n" + out[-3000:])
    rc, out, _ = kv.run_harness(run, exe, ["c10gen"])
    if rc != 0:
        raise RuntimeError("c10gen failed: " + out[-2000:])
    rc, out = kv.sh([ref, run.workdir], timeout=3000)
    if rc != 0:
        raise RuntimeError("reference run failed: " + out[-2000:])
    run.notes.append(out.strip()[-200:])
    rc, out, stats = kv.run_harness(run, exe, ["c10cmp"])
    if rc != 0:
        raise RuntimeError("c10cmp failed: " + out[-2000:])
    for v in (stats.get("violations") or []):
        d = dict(v); d["check_kind"] = "implementation"
        run.violation(v.get("key", "impl:" + v.get("what", "")[:80]), d, True)
    if not ok:
        kv.report_proof_failure(run, PID, info)
    run.coverage.update(
        programs=int(stats.get("programs", 0)),
        disagreements_checked=int(stats.get("disagreements_checked", 0)),
        samples=stats.get("samples") or [],
        golden_streams=stats.get("golden_streams"),
        reference_outcomes=stats.get("reference"),
        evaluations=int(stats.get("evaluations", 0)),
        distinct_nontrivial=int(stats.get("distinct_nontrivial", 0)),
        rule="(input, configuration) pairs: every transform, every entropy codec, every checksum width, text with e-mail addresses, block lengths 4 mod 8 with the 64-bit checksum, short raw blocks, plus random pipelines; encoded AND decoded by the vendored reference build; where the reference round-trips, the current tree must decode the reference stream to the reference decoder's output with 1 and 3 jobs; plus the archived golden corpus (one stream per transform / entropy codec / checksum width) against its recorded originals.",
    )
    import shutil
    for d in ("in", "out", "ref"):
        shutil.rmtree(os.path.join(run.workdir, d), ignore_errors=True)

def replay(path):
    import json
    print(json.dumps(json.load(open(path)), indent=1)[:4000])
    return 0
