"""C18 — independent streams do not interfere and internals are race-free."""
import os, re
from lib import kv
PID = "C18"
LEVEL = "other"

def check(run):
    run.assumptions += [
        "the Go race detector reports every race of the executions it observes (happens-before based, no false positives); schedules are widened by yields/sleeps at the hand-off hook points but not enumerated",
    ]
    ok, info = kv.proof_phase(run, PID)
    exe, hout = kv.build_harness(race=True)
    if exe is None:
        raise RuntimeError("race-enabled harness build failed:\n" + hout[-3000:])
    rc, out, stats = kv.run_harness(run, exe, ["c18"], timeout=3000)
    races = re.findall(r"WARNING: DATA RACE.*?(?:==================|\Z)", out, flags=re.S)
    for v in (stats.get("violations") or []):
        d = dict(v); d["check_kind"] = "implementation"
        run.violation("impl:" + v.get("what", "")[:60], d, True)
    for i, r in enumerate(races[:3]):
        where = re.findall(r"\n\s+(\S+\(\))\n\s+(\S+:\d+)", r)
        key = "race:" + (where[0][0] if where else str(i))
        run.violation(key, dict(kind="data-race", report=r[:3000]), True)
    if rc not in (0, 66) and not races and not stats:
        raise RuntimeError("harness failed rc=%d:\n%s" % (rc, out[-3000:]))
    if not ok:
        kv.report_proof_failure(run, PID, info)
    run.coverage.update(
        evaluations=int(stats.get("evaluations", 0)),
        distinct_nontrivial=int(stats.get("distinct_nontrivial", 0)),
        samples=stats.get("samples") or [],
        race_reports=len(races),
        rule="13 pipelines over all codec families (TEXT static dictionary, BWT incl. one block above the 4 MiB inverse threshold decoded with more jobs than blocks, "
             "TPAQ/TPAQX/CM tables, ROLZ/ROLZX, LZ family, MM/PACK/UTF/EXE/DNA) run concurrently FIRST in a fresh process (first use of every package-level table is concurrent), "
             "jobs 1..8 when writing and 2..16 when reading, perturbed hand-off schedules, then each alone: streams and decoded bytes must be identical; the binary is built with -race.",
        explanation="Partial by nature. Proved (coq/Properties/C18.v, Closed under the global context): no package-level variable of the library is assigned outside init functions and the "
                    "shared hashers do not write their state (facts regenerated from the AST on every run); mutual exclusion on the shared bit stream for every n and interleaving (C07). "
                    "Searched: race detector + concurrent-vs-isolated byte comparison. Not expressible in the model: the Go memory model, aliasing inside codecs.",
    )

def replay(path):
    import json
    print(json.dumps(json.load(open(path)), indent=1)[:6000])
    return 0
