(* Correspondence driver: reads one case per line on stdin, runs the extracted Coq model,
   prints one observable line per case. Zarith (module Z below) is used only to convert
   between decimal text and the extracted Coq numbers. *)
module K = Kvmodel

let rec pos_of_zar (n : Z.t) : K.positive =
  if Z.equal n Z.one then K.XH
  else if Z.is_even n then K.XO (pos_of_zar (Z.shift_right n 1))
  else K.XI (pos_of_zar (Z.shift_right n 1))
let z_of_zar (n : Z.t) : K.z =
  if Z.sign n = 0 then K.Z0 else if Z.sign n > 0 then K.Zpos (pos_of_zar n) else K.Zneg (pos_of_zar (Z.neg n))
let n_of_zar (n : Z.t) : K.n = if Z.sign n = 0 then K.N0 else K.Npos (pos_of_zar n)
let rec zar_of_pos (p : K.positive) : Z.t = match p with
  | K.XH -> Z.one
  | K.XO q -> Z.shift_left (zar_of_pos q) 1
  | K.XI q -> Z.succ (Z.shift_left (zar_of_pos q) 1)
let zar_of_z = function K.Z0 -> Z.zero | K.Zpos p -> zar_of_pos p | K.Zneg p -> Z.neg (zar_of_pos p)
let zar_of_n = function K.N0 -> Z.zero | K.Npos p -> zar_of_pos p
let rec nat_of_int (i : int) : K.nat = if i <= 0 then K.O else K.S (nat_of_int (i - 1))
let rec int_of_nat = function K.O -> 0 | K.S m -> 1 + int_of_nat m

let zs s = z_of_zar (Z.of_string s)
let ns s = n_of_zar (Z.of_string s)
let sz z = Z.to_string (zar_of_z z)
let sn n = Z.to_string (zar_of_n n)
let words l = List.filter (fun s -> s <> "") (String.split_on_char ' ' l)

let do_norm args =
  match args with
  | total :: scale :: fs ->
    (match K.normalize (List.map zs fs) (zs total) (zs scale) with
     | None -> "err"
     | Some (fr, al) ->
       "ok " ^ String.concat " " (List.map sz fr) ^ " | " ^
       String.concat " " (List.map (fun a -> string_of_int (int_of_nat a)) al))
  | _ -> "badcase"


(* ---- bit stream programs (C14, C06, C08) ----
   case:  bs <wbuf> <rbuf> <sched: a,b,c or -> <wfail: k or 0> <rfail: k or 0> ; op ; op ; ...
   ops :  wb <bit> | ws <value> <count> | wa <count> <hex> | wc (close) |
          rb | rs <count> | ra <count> | rc (close)
   output tokens: per write op W<written> or P ; then S<sink hex> C<sink calls> ;
                  per read op v<val>:<read> | a<hex>:<read> | p:<read> | c:<read>          *)
let hex_of_bytes (l : K.n list) =
  let b = Buffer.create 64 in
  List.iter (fun x -> Buffer.add_string b (Printf.sprintf "%02x" (Z.to_int (zar_of_n x)))) l;
  Buffer.contents b
let bytes_of_hex (h : string) : K.n list =
  let n = String.length h / 2 in
  List.init n (fun i -> n_of_zar (Z.of_int (int_of_string ("0x" ^ String.sub h (2 * i) 2))))
let split_on_semis line =
  List.map words (String.split_on_char ';' line)

let do_bs line =
  match split_on_semis line with
  | ("bs" :: wbuf :: rbuf :: sched :: wfail :: rfail :: more) :: ops ->
    let out = Buffer.create 256 in
    let add s = Buffer.add_string out s; Buffer.add_char out ' ' in
    let wf = Z.of_string wfail in
    let fail (k : K.n) = (Z.sign wf > 0) && Z.equal (zar_of_n k) wf in
    let fail_perm (k : K.n) = (Z.sign wf < 0) && Z.geq (zar_of_n k) (Z.neg wf) in
    let failf k = fail k || fail_perm k in
    let w = ref (K.new_obs (ns wbuf)) in
    let wops = List.filter (fun o -> match o with (("wb"|"ws"|"wa"|"wc") :: _) -> true | _ -> false) ops in
    let rops = List.filter (fun o -> match o with (("rb"|"rs"|"ra"|"rc") :: _) -> true | _ -> false) ops in
    List.iter (fun o ->
      let (s', p) = match o with
        | ["wb"; b] -> K.write_bit failf !w (ns b)
        | ["ws"; v; c] -> K.write_bits failf !w (ns v) (ns c)
        | ["wa"; c; h] -> K.write_array failf !w (bytes_of_hex h) (ns c)
        | ["wa"; c] -> K.write_array failf !w [] (ns c)
        | ["wc"] -> K.close failf !w
        | _ -> (!w, true) in
      w := s';
      add ((if p then "P" else "W") ^ sz (K.written !w))) wops;
    let sink = K.o_out !w in
    add ("S" ^ hex_of_bytes sink);
    add ("C" ^ sn (K.o_calls !w));
    let sched = if sched = "-" then [] else List.map ns (String.split_on_char ',' sched) in
    let rfz = Z.of_string rfail in
    let cut = match more with c :: _ -> int_of_string c | [] -> -1 in
    let rec take k l = if k <= 0 then [] else match l with [] -> [] | x :: t -> x :: take (k - 1) t in
    let sink = if cut >= 0 then take cut sink else sink in
    let src = { K.src_data = sink; K.src_sched = sched; K.src_failat = (if Z.sign rfz > 0 then Some (n_of_zar rfz) else None); K.src_calls = K.N0 } in
    let r = ref (K.new_ibs (ns rbuf) src) in
    List.iter (fun o ->
      let tok = match o with
        | ["rb"] -> (match K.read_bit !r with (s', K.Val v) -> r := s'; "v" ^ sn v | (s', K.Pan _) -> r := s'; "p")
        | ["rs"; c] -> (match K.read_bits !r (ns c) with (s', K.Val v) -> r := s'; "v" ^ sn v | (s', K.Pan _) -> r := s'; "p")
        | ["ra"; c] -> (match K.read_array !r (ns c) with (s', K.Val l) -> r := s'; "a" ^ hex_of_bytes l | (s', K.Pan _) -> r := s'; "p")
        | ["rc"] -> r := K.iclose !r; "c"
        | _ -> "?" in
      add (tok ^ ":" ^ sz (K.bits_read !r))) rops;
    Buffer.contents out
  | _ -> "badcase"

(* ---- hand-off protocol traces (C07) ----
   case: ho <side 0|1> <cas 0|1> <first> <n> ; <task> <site> <cnt> ; ...   (arrivals in order;
   the first n are the initial arrivals).  Each later arrival must be explained by ONE model
   step of that task (some environment outcome) ending in the pc of the site with the observed
   counter.  output: ok <final cnt> <E|->  or  reject <index> <why> *)
let pc_num = function
  | K.Compute -> 0 | K.Wait -> 1 | K.Hold -> 2 | K.Publish -> 3 | K.Local -> 4
  | K.Defer1 -> 5 | K.Defer2 -> 6 | K.Done -> 7
let do_ho line =
  match split_on_semis line with
  | ("ho" :: side :: cas :: first :: n :: apierr :: _) :: evs ->
    let sd = if side = "0" then K.Enc else K.Dec in
    let casb = cas = "1" in
    let fz = zs first in
    let n = int_of_string n in
    let st = ref (K.init sd fz (nat_of_int n)) in
    let evs = List.filter (fun e -> e <> []) evs in
    let rec drop k l = if k = 0 then l else match l with [] -> [] | _ :: t -> drop (k - 1) t in
    (* initial arrivals: must match the initial pcs *)
    let init_ok = List.for_all (fun e -> match e with
        | [t; site; _] -> (match List.nth_opt (!st).K.ts (int_of_string t) with
            | Some tk -> pc_num tk.K.t_pc = int_of_string site | None -> false)
        | _ -> false) (List.filteri (fun i _ -> i < n) evs) in
    if not init_ok then "reject 0 initial-state" else begin
      (* backtracking search over the environment outcomes (they are not observable at once) *)
      let deepest = ref 0 and why = ref "" in
      let budget = ref 30000000 in   (* nodes of the search: a trace that no run of the model explains can make it exponential *)
      let rec explain k st evs = if !budget <= 0 then None else begin decr budget; match evs with
        | [] -> if (K.first_error st <> None) = (apierr = "E") then Some st
                else begin (if k >= !deepest then (deepest := k; why := "api-result-not-explained")); None end
        | [t; site; c] :: rest ->
          let ti = int_of_string t and site = int_of_string site and c = Z.of_string c in
          let try_o o = match K.step sd casb fz st (nat_of_int ti) o with
            | Some s' ->
              (match List.nth_opt s'.K.ts ti with
               | Some tk when pc_num tk.K.t_pc = site && Z.equal (zar_of_z s'.K.cnt) c -> explain (k + 1) s' rest
               | _ -> None)
            | None -> None in
          let rec first_some = function [] -> None | o :: r -> (match try_o o with Some s -> Some s | None -> first_some r) in
          (match first_some [K.Good; K.Fail; K.EndOfStream; K.Skipped] with
           | Some s -> Some s
           | None ->
             if k >= !deepest then begin deepest := k;
               why := Printf.sprintf "task=%d site=%d cnt=%s model_cnt=%s" ti site (Z.to_string c) (sz st.K.cnt) end;
             None)
        | _ -> None end in
      (match explain n !st (drop n evs) with
       | Some s -> Printf.sprintf "ok %s %s" (sz s.K.cnt) (match K.first_error s with Some _ -> "E" | None -> "-")
       | None -> if !budget <= 0 then Printf.sprintf "reject %d search-budget-exhausted %s" !deepest !why
                 else Printf.sprintf "reject %d %s" !deepest !why)
    end
  | _ -> "badcase"

(* ---- Writer / Reader state machines (C01 C04 C05 C08 C09 C11 C17) ----
   data byte i of the plain stream is (i*7 + i/256) mod 256 on both sides.
   wr <B> <jobs> <hintBlocks> <failid or 0> ; w <len> | c <marker_fails 0/1> <flush_fails 0/1> ; ...
      -> per op  W<n>:<ok|err>  /  C:<ok|err> ; then one  [id:len:sum]  per emitted block
   rd <B> <jobs> <hintBlocks> <from> <to> <nblocks> <lastlen> <badblock or 0> <endmarker 0/1> ; r <len> | c ; ...
      -> per op  R<n>:<nil|eof|err>:<sum> *)
let data_byte i = (i * 7 + i / 256) land 255
let nlist_of_ints l = List.map (fun x -> n_of_zar (Z.of_int x)) l
let sum_n (l : K.n list) = List.fold_left (fun a x -> (a * 31 + Z.to_int (zar_of_n x)) land 0xFFFFFFF) 7 l
let do_wr line =
  match split_on_semis line with
  | ("wr" :: b :: jobs :: hint :: failid :: _) :: ops ->
    let bn = ns b and jn = ns jobs and hn = ns hint in
    let fid = Z.of_string failid in
    let fails (id : K.n) = Z.sign fid > 0 && Z.equal (zar_of_n id) fid in
    let st = ref (K.init_w jn) in
    let closed_ok = ref false in
    let pos = ref 0 in
    let out = Buffer.create 256 in
    List.iter (fun o -> match o with
      | ["w"; len] ->
        let len = int_of_string len in
        let block = nlist_of_ints (List.init len (fun k -> data_byte (!pos + k))) in
        pos := !pos + len;
        let ((s', n), err) = K.w_write bn jn hn fails !st block in
        st := s';
        Buffer.add_string out (Printf.sprintf "W%s:%s " (sn n) (if err then "err" else "ok"))
      | ["c"; mf; ff] ->
        let (s', err) = K.w_close bn jn hn fails !st (mf = "1") (ff = "1") in
        st := s';
        closed_ok := not err;
        Buffer.add_string out (Printf.sprintf "C:%s " (if err then "err" else "ok"))
      | _ -> ()) ops;
    (* blocks are only observable in the sink once a Close succeeded *)
    if !closed_ok then List.iter (fun (id, bs) -> Buffer.add_string out (Printf.sprintf "[%s:%d:%d] " (sn id) (List.length bs) (sum_n bs))) (!st).K.w_out;
    Buffer.contents out
  | _ -> "badcase"

let do_rd line =
  match split_on_semis line with
  | ("rd" :: b :: jobs :: hint :: from :: to_ :: nblocks :: lastlen :: bad :: endm :: _) :: ops ->
    let bi = int_of_string b in
    let nb = int_of_string nblocks and ll = int_of_string lastlen and bad = int_of_string bad in
    let frames = List.init nb (fun k ->
        if k + 1 = bad then K.FFail
        else let len = if k = nb - 1 then ll else bi in
          K.FData (nlist_of_ints (List.init len (fun j -> data_byte (k * bi + j))))) in
    let frames = if endm = "1" then frames @ [K.FEnd] else frames in
    let bn = ns b and jn = ns jobs and hn = ns hint and fr = ns from and tn = ns to_ in
    let st = ref (K.init_r frames) in
    let out = Buffer.create 256 in
    List.iter (fun o -> match o with
      | ["r"; len] ->
        let ((s', bs), res) = K.r_read bn jn hn fr tn !st (ns len) in
        st := s';
        Buffer.add_string out (Printf.sprintf "R%d:%s:%d " (List.length bs)
          (match res with K.RNil -> "nil" | K.REOF -> "eof" | K.RErr -> "err") (sum_n bs))
      | ["c"] -> st := K.close_r !st; Buffer.add_string out "C "
      | _ -> ()) ops;
    Buffer.contents out
  | _ -> "badcase"

(* ---- codec names (C15) ----  nm t <name> | nm e <name> | nm T <type> | nm E <type> *)
let ascii_of_char c =
  let n = Char.code c in let b i = (n lsr i) land 1 = 1 in
  K.Ascii (b 0, b 1, b 2, b 3, b 4, b 5, b 6, b 7)
let char_of_ascii (K.Ascii (b0, b1, b2, b3, b4, b5, b6, b7)) =
  let v b i = if b then 1 lsl i else 0 in
  Char.chr (v b0 0 + v b1 1 + v b2 2 + v b3 3 + v b4 4 + v b5 5 + v b6 6 + v b7 7)
let coq_string_of (s : string) : K.string =
  let rec go i = if i >= String.length s then K.EmptyString else K.String (ascii_of_char s.[i], go (i + 1)) in go 0
let string_of_coq (l : K.string) : string =
  let b = Buffer.create 16 in
  let rec go = function K.EmptyString -> () | K.String (c, r) -> Buffer.add_char b (char_of_ascii c); go r in
  go l; Buffer.contents b
let do_nm args = match args with
  | ["t"; name] -> (match K.tr_get_type (coq_string_of name) with Some z -> "ok " ^ sz z | None -> "err")
  | ["t"] -> (match K.tr_get_type K.EmptyString with Some z -> "ok " ^ sz z | None -> "err")
  | ["e"; name] -> (match K.en_get_type (coq_string_of name) with Some z -> "ok " ^ sz z | None -> "err")
  | ["e"] -> (match K.en_get_type K.EmptyString with Some z -> "ok " ^ sz z | None -> "err")
  | ["T"; t] -> (match K.tr_get_name (zs t) with Some n -> "ok " ^ string_of_coq n | None -> "err")
  | ["E"; t] -> (match K.en_get_name (zs t) with Some n -> "ok " ^ string_of_coq n | None -> "err")
  | _ -> "badcase"

(* ---- transform sequence (C13):  sq <dcap> <dcap2> ; K:k:m ... ; b1 b2 ...  ---- *)
let csv_of (l : K.n list) =
  if l = [] then "-" else String.concat "," (List.map sn l)
let do_sq line =
  match split_on_semis line with
  | ["sq"; dcap; dcap2] :: stages :: data :: _ ->
    let kind s = match String.split_on_char ':' s with
      | [k; a; m] ->
        let a = nat_of_int (int_of_string a) and m = ns m in
        (match k with "T" -> K.KTag (a, m) | "S" -> K.KStrip (a, m) | "R" -> K.KRev | "L" -> K.KLie (a, m) | _ -> K.KDecline)
      | _ -> K.KDecline in
    let ts = List.map (fun s -> K.mk_stage (kind s)) stages in
    let src = List.map ns (List.filter (fun s -> s <> "-") data) in
    (match K.seq_forward ts src (nat_of_int (int_of_string dcap)) with
     | K.FNothing -> "F:nothing"
     | K.FTooSmall -> "F:small"
     | K.FLost (skip, len) -> Printf.sprintf "F:lost:%s:%d" (sn skip) (int_of_nat len)
     | K.FOk (skip, out) ->
       let f = Printf.sprintf "F:ok:%s:%s" (sn skip) (csv_of out) in
       if out = [] then f else
       (match K.seq_inverse ts out (nat_of_int (int_of_string dcap2)) skip with
        | K.INothing -> f ^ " I:nothing"
        | K.IErr -> f ^ " I:err"
        | K.ITrunc len -> f ^ Printf.sprintf " I:trunc:%d" (int_of_nat len)
        | K.IOk o -> f ^ " I:ok:" ^ csv_of o))
  | _ -> "badcase"

(* ---- binary arithmetic coder (C12):  bc <hex data> ; p1 p2 ... ; <hex stream or -> ---- *)
let do_bc line =
  match split_on_semis line with
  | ["bc"; data] :: preds :: [stream] :: _ ->
    let data = if data = "-" then [] else bytes_of_hex data in
    let ps = List.map ns preds in
    let e = match K.bc_encode ps data with None -> "E:P" | Some out -> "E:" ^ (if out = [] then "-" else hex_of_bytes out) in
    if stream = "-" then e else
    (match K.bc_decode ps (n_of_zar (Z.of_int (List.length data))) (bytes_of_hex stream @ bytes_of_hex "a5c3f00f") with
     | K.DOk (b, rest) -> e ^ " D:" ^ (if b = [] then "-" else hex_of_bytes b) ^ " R:" ^ hex_of_bytes rest
     | K.DInvalid -> e ^ " D:invalid"
     | K.DEos -> e ^ " D:eos")
  | _ -> "badcase"

(* ---- stream header (C01/C10):  hd <ck> <etype> <ttype> <bsize> <isize> ; <hex of the stream given to the reader> ---- *)
let do_hd line =
  match split_on_semis line with
  | ["hd"; ck; et; tt; bs; isz] :: [stream] :: _ ->
    let cfg = { K.h_ck = ns ck; K.h_etype = ns et; K.h_ttype = ns tt; K.h_bsize = ns bs; K.h_isize = ns isz } in
    (* writer side: the fields through the output bit stream model *)
    let healthy _ = false in
    let st = ref (K.new_obs (ns "1024")) in
    List.iter (fun (v, w) -> let (s', _) = K.write_bits healthy !st v w in st := s') (K.header_fields cfg);
    let (s2, _) = K.close healthy !st in
    let h = "H:" ^ hex_of_bytes s2.K.o_out in
    (* reader side *)
    let bytes = if stream = "-" then [] else bytes_of_hex stream in
    let src = { K.src_data = bytes; K.src_sched = [ns "3"; ns "1"; ns "0"]; K.src_failat = None; K.src_calls = K.N0 } in
    let evalid e = (K.en_get_name (z_of_zar (zar_of_n e))) <> None in
    let tvalid t = (K.tr_get_name (z_of_zar (zar_of_n t))) <> None in
    let (_, res) = K.read_header evalid tvalid (K.new_ibs (ns "64") src) in
    let p = match res with
      | K.HOk c -> Printf.sprintf "ok:%s:%s:%s:%s:%s" (sn c.K.h_ck) (sn c.K.h_etype) (sn c.K.h_ttype) (sn c.K.h_bsize) (sn c.K.h_isize)
      | K.HErr K.HBadType -> "err:type" | K.HErr K.HBadVersion -> "err:version"
      | K.HErr K.HBadCk | K.HErr K.HBadEntropy | K.HErr K.HBadTransform -> "err:codec"
      | K.HErr K.HBadBlockSize -> "err:bsize" | K.HErr K.HBadCrc -> "err:crc"
      | K.HErr K.HEos -> "err:eos" | K.HErr K.HOldVersion -> "err:old" in
    h ^ " P:" ^ p
  | _ -> "badcase"

(* ---- ZRLT (C13):  zr f <dcap> <dcap2> ; bytes   |   zr i <dcap2> 0 ; symbols ---- *)
let dec_of (l : K.n list) = if l = [] then "-" else String.concat " " (List.map sn l)
let do_zr line =
  match split_on_semis line with
  | ["zr"; mode; c1; c2] :: data :: _ ->
    let src = List.map ns (List.filter (fun s -> s <> "-") data) in
    if mode = "f" then
      (match K.zfwd src (ns c1) with
       | None -> "F:err"
       | Some enc ->
         let f = "F:" ^ dec_of enc in
         (match K.zinv enc (ns c2) with None -> f ^ " I:err" | Some d -> f ^ " I:" ^ dec_of d))
    else
      (match K.zinv src (ns c1) with None -> "I:err" | Some d -> "I:" ^ dec_of d)
  | _ -> "badcase"

(* ---- SBRT (C13):  sb <mode> <f|i> <cap> <cap2> ; <bytes> ---- *)
let do_sb line =
  match split_on_semis line with
  | ["sb"; mode; dir; c1; c2] :: data :: _ ->
    let src = List.map ns (List.filter (fun s -> s <> "-") data) in
    let m = ns mode in
    if dir = "f" then
      (match K.sbrt_fwd m src (nat_of_int (int_of_string c1)) with
       | None -> "F:err"
       | Some enc ->
         let f = "F:" ^ dec_of enc in
         (match K.sbrt_inv m enc (nat_of_int (int_of_string c2)) with None -> f ^ " I:err" | Some d -> f ^ " I:" ^ dec_of d))
    else
      (match K.sbrt_inv m src (nat_of_int (int_of_string c1)) with None -> "I:err" | Some d -> "I:" ^ dec_of d)
  | _ -> "badcase"

(* ---- alphabet header (C12):  al e <symbols>  |  al d <cap> <hex bytes> ---- *)
let do_al args =
  let show = function
    | K.AOk a -> "D:" ^ dec_of a
    | K.AErrSize -> "D:size"
    | K.APanic -> "D:panic" in
  match args with
  | "e" :: syms ->
    let a = List.map ns (List.filter (fun s -> s <> "-") syms) in
    (match K.alphabet_image a with
     | None -> if List.length a > 256 then "E:err" else "E:panic"
     | Some b -> "E:" ^ hex_of_bytes b)
  | ["d"; cap; hx] -> show (K.alphabet_parse (nat_of_int (int_of_string cap)) (if hx = "-" then [] else bytes_of_hex hx))
  | _ -> "badcase"

(* ---- range codec (C12):  rg <hex block>  |  rgd <n> <hex stream> ---- *)
let show_rd = function
  | K.ROk d -> "D:" ^ (if d = [] then "-" else hex_of_bytes d)
  | K.RInvalid -> "D:invalid"
  | K.RPanic -> "D:panic"
let do_rg args =
  match args with
  | [hx] ->
    let blk = bytes_of_hex hx in
    (match K.range_encode blk with
     | None -> "E:err"
     | Some out -> "E:" ^ (if out = [] then "-" else hex_of_bytes out) ^ " " ^ show_rd (K.range_decode (nat_of_int (List.length blk)) out))
  | _ -> "badcase"
let do_rgd args =
  match args with
  | [n; hx] -> show_rd (K.range_decode (nat_of_int (int_of_string n)) (if hx = "-" then [] else bytes_of_hex hx))
  | _ -> "badcase"

(* ---- FPAQ (C12):  fp <hex data> ; <hex stream or -> ---- *)
let do_fp line =
  match split_on_semis line with
  | ["fp"; data] :: [stream] :: _ ->
    let data = if data = "-" then [] else bytes_of_hex data in
    let e = match K.fpaq_encode data with None -> "E:P" | Some out -> "E:" ^ (if out = [] then "-" else hex_of_bytes out) in
    if stream = "-" then e else
    (match K.fpaq_decode (n_of_zar (Z.of_int (List.length data))) (bytes_of_hex stream @ bytes_of_hex "a5c3f00f") with
     | K.DOk (b, rest) -> e ^ " D:" ^ (if b = [] then "-" else hex_of_bytes b) ^ " R:" ^ hex_of_bytes rest
     | K.DInvalid -> e ^ " D:invalid"
     | K.DEos -> e ^ " D:eos")
  | _ -> "badcase"

(* ---- NONE/NONE container (C01/C10):  ct <ck> <bsize> <isize> ; h1 h2 .. ; <hex data> ; <hex stream> ---- *)
let rec chunks_of n l = if l = [] then [] else
  let rec take k l acc = if k = 0 then (List.rev acc, l) else match l with [] -> (List.rev acc, []) | x :: t -> take (k - 1) t (x :: acc) in
  let (a, b) = take n l [] in a :: chunks_of n b
let do_ct line =
  match split_on_semis line with
  | ("ct" :: ck :: bs :: isz :: entw) :: hashes :: [data] :: [stream] :: _ ->
    let ent = (match entw with [e] -> e | _ -> "0") in
    let data = if data = "-" then [] else bytes_of_hex data in
    let blocks = chunks_of (int_of_string bs) data in
    ignore hashes; (* the block hashes the Go hashers returned: kept in the case line for the replay, the model computes its own *)
    let hash = K.block_hash (ns ck) in
    let cfg = { K.h_ck = ns ck; K.h_etype = ns ent; K.h_ttype = K.N0; K.h_bsize = ns bs; K.h_isize = ns isz } in
    (* entropy NONE: the functions of Model/Container.v; entropy RANGE (4): those of Model/ContainerG.v *)
    let out = if ent = "0" then K.write_stream hash cfg blocks else K.write_stream_e hash cfg blocks in
    let evalid e = (K.en_get_name (z_of_zar (zar_of_n e))) <> None in
    let tvalid t = (K.tr_get_name (z_of_zar (zar_of_n t))) <> None in
    let parse = if ent = "0" then K.parse_stream else K.parse_stream_e in
    let p = match parse hash evalid tvalid (nat_of_int (List.length blocks + 2)) (ns "64") [ns "5"; ns "3"; ns "0"] (bytes_of_hex stream) with
      | None -> "P:header"
      | Some (_, frames) ->
        let rec go fs nb len sum = match fs with
          | [K.PEnd] -> Printf.sprintf "P:ok:%d:%d:%d" nb len sum
          | K.PData b :: t -> go t (nb + 1) (len + List.length b) (List.fold_left (fun a x -> a + Z.to_int (zar_of_n x)) sum b)
          | _ -> "P:fail" in
        go frames 0 0 0 in
    "S:" ^ hex_of_bytes out ^ " " ^ p
  | _ -> "badcase"

(* ---- a truncated stream:  ctt <ck> <bs> <isz> <ent> ; <hex of the cut stream>  ->  T:<bytes in the frames parsed before the failure> ---- *)
let do_ctt line =
  match split_on_semis line with
  | ["ctt"; ck; _bs; _isz; ent] :: [stream] :: _ ->
    let hash = K.block_hash (ns ck) in
    let evalid e = (K.en_get_name (z_of_zar (zar_of_n e))) <> None in
    let tvalid t = (K.tr_get_name (z_of_zar (zar_of_n t))) <> None in
    let parse = if ent = "0" then K.parse_stream else K.parse_stream_e in
    (match parse hash evalid tvalid (nat_of_int 300) (ns "64") [ns "7"; ns "1"; ns "0"] (bytes_of_hex stream) with
     | None -> "T:0"
     | Some (_, frames) ->
       let rec go fs len = match fs with
         | [K.PFail] -> Printf.sprintf "T:%d" len
         | K.PData b :: t -> go t (len + List.length b)
         | _ -> "T:complete" in
       go frames 0)
  | _ -> "badcase"

(* ---- block checksums:  xx <ck> <hex data>  ->  decimal hash (Model/XXHash.v) ---- *)
let do_xx args =
  match args with
  | [ck; data] -> let d = if data = "-" then [] else bytes_of_hex data in Z.to_string (zar_of_n (K.block_hash (ns ck) d))
  | _ -> "badcase"

let dispatch line =
  match words line with
  | [] -> ""
  | "norm" :: args -> do_norm args
  | "bs" :: _ -> do_bs line
  | "ho" :: _ -> do_ho line
  | "wr" :: _ -> do_wr line
  | "rd" :: _ -> do_rd line
  | "nm" :: args -> do_nm args
  | "sq" :: _ -> do_sq line
  | "bc" :: _ -> do_bc line
  | "hd" :: _ -> do_hd line
  | "zr" :: _ -> do_zr line
  | "sb" :: _ -> do_sb line
  | "al" :: args -> do_al args
  | "rg" :: args -> do_rg args
  | "rgd" :: args -> do_rgd args
  | "fp" :: _ -> do_fp line
  | "ct" :: _ -> do_ct line
  | "ctt" :: _ -> do_ctt line
  | "xx" :: args -> do_xx args
  | k :: _ -> "unknown " ^ k

let () =
  try
    while true do
      let line = input_line stdin in
      print_string (dispatch line); print_char '\n'
    done
  with End_of_file -> ()
