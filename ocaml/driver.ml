(* Correspondence driver: reads one case per line on stdin, runs the extracted Coq model,
   prints one observable line per case. Zarith (module Z below) is used only to convert
   between decimal text and the extracted Coq numbers. *)
module K = Kvmodel

let rec pos_of_zar (n : Z.t) : K.positive =
  if Z.equal n Z.one then K.XH
  else if Z.is_even n then K.XO (pos_of_zar (Z.shift_right n 1))
  else K.XI (pos_of_zar (Z.shift_right n 1))
let z_of_zar (n : Z.t) : K.z =
  if Z.sign n = 0 then K.Z0 else if Z.sign n > 0 then K.Zpos (pos_of_zar n) else K.Zneg (pos_of_zar (Z.neg n))
let n_of_zar (n : Z.t) : K.n = if Z.sign n = 0 then K.N0 else K.Npos (pos_of_zar n)
let rec zar_of_pos (p : K.positive) : Z.t = match p with
  | K.XH -> Z.one
  | K.XO q -> Z.shift_left (zar_of_pos q) 1
  | K.XI q -> Z.succ (Z.shift_left (zar_of_pos q) 1)
let zar_of_z = function K.Z0 -> Z.zero | K.Zpos p -> zar_of_pos p | K.Zneg p -> Z.neg (zar_of_pos p)
let zar_of_n = function K.N0 -> Z.zero | K.Npos p -> zar_of_pos p
let rec nat_of_int (i : int) : K.nat = if i <= 0 then K.O else K.S (nat_of_int (i - 1))
let rec int_of_nat = function K.O -> 0 | K.S m -> 1 + int_of_nat m

let zs s = z_of_zar (Z.of_string s)
let ns s = n_of_zar (Z.of_string s)
let sz z = Z.to_string (zar_of_z z)
let sn n = Z.to_string (zar_of_n n)
let words l = List.filter (fun s -> s <> "") (String.split_on_char ' ' l)

let do_norm args =
  match args with
  | total :: scale :: fs ->
    (match K.normalize (List.map zs fs) (zs total) (zs scale) with
     | None -> "err"
     | Some (fr, al) ->
       "ok " ^ String.concat " " (List.map sz fr) ^ " | " ^
       String.concat " " (List.map (fun a -> string_of_int (int_of_nat a)) al))
  | _ -> "badcase"

let dispatch line =
  match words line with
  | [] -> ""
  | "norm" :: args -> do_norm args
  | k :: _ -> "unknown " ^ k

let () =
  try
    while true do
      let line = input_line stdin in
      print_string (dispatch line); print_char '\n'
    done
  with End_of_file -> ()
