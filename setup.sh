#!/bin/bash
# Build the framework from files on disk only (offline).
set -e
cd "$(dirname "$0")"
export GOFLAGS=-mod=mod GOPROXY=off GOSUMDB=off GOTOOLCHAIN=local
python3 - <<'PY'
import sys
sys.path.insert(0, '.')
from lib import kv
ok, out = kv.run_gotrans(); print("gotrans", ok); 
if not ok: print(out[-3000:]); sys.exit(1)
ok, out = kv.build_coq(); print("coq", ok)
if not ok: print(out[-3000:]); sys.exit(1)
drv, out = kv.build_driver(); print("driver", drv)
if not drv: print(out[-3000:]); sys.exit(1)
exe, out = kv.build_harness(); print("harness", exe)
if not exe: print(out[-3000:]); sys.exit(1)
PY
