module kvref

go 1.24

require github.com/flanglet/kanzi-go/v2 v2.0.0

replace github.com/flanglet/kanzi-go/v2 => /verif/refsrc/v2
