// kvref: the vendored REFERENCE version of kanzi-go (refsrc/v2, the pinned snapshot) as an
// encoder/decoder for the format-stability check C10.
//   kvref <dir> : for every line "<idx> <transform> <entropy> <block> <jobs> <checksum> <hint> <headerless>"
//   of <dir>/cases.txt encodes <dir>/in/<idx>.bin into <dir>/out/<idx>.knz with the reference Writer and
//   decodes it again with the reference Reader into <dir>/ref/<idx>.bin (or <dir>/ref/<idx>.err).
package main

import (
	"bufio"
	"bytes"
	"fmt"
	stdio "io"
	"os"
	"path/filepath"
	"strings"

	kio "github.com/flanglet/kanzi-go/v2/io"
)

type sink struct{ bytes.Buffer }

func (s *sink) Close() error { return nil }

func encode(tr, en string, block, jobs, ck uint, hint int64, hl bool, data []byte) (out []byte, err error) {
	defer func() {
		if r := recover(); r != nil {
			err = fmt.Errorf("panic: %v", r)
		}
	}()
	s := &sink{}
	w, err := kio.NewWriter(s, tr, en, block, jobs, ck, hint, hl)
	if err != nil {
		return nil, err
	}
	if _, err = w.Write(data); err != nil {
		return nil, err
	}
	if err = w.Close(); err != nil {
		return nil, err
	}
	return s.Bytes(), nil
}

func decode(stream []byte, tr, en string, block, ck uint, hint int64, hl bool) (out []byte, err error) {
	defer func() {
		if r := recover(); r != nil {
			err = fmt.Errorf("panic: %v", r)
		}
	}()
	ctx := map[string]any{"jobs": uint(1)}
	if hl {
		ctx["transform"], ctx["entropy"], ctx["blockSize"], ctx["checksum"] = tr, en, block, ck
		ctx["outputSize"], ctx["bsVersion"], ctx["headerless"] = hint, uint(6), true
	}
	r, err := kio.NewReaderWithCtx(stdio.NopCloser(bytes.NewReader(stream)), ctx)
	if err != nil {
		return nil, err
	}
	return stdio.ReadAll(r)
}

func main() {
	dir := os.Args[1]
	os.MkdirAll(filepath.Join(dir, "out"), 0755)
	os.MkdirAll(filepath.Join(dir, "ref"), 0755)
	f, err := os.Open(filepath.Join(dir, "cases.txt"))
	if err != nil {
		fmt.Println(err)
		os.Exit(1)
	}
	sc := bufio.NewScanner(f)
	n, ok := 0, 0
	for sc.Scan() {
		var idx int
		var tr, en string
		var block, jobs, ck uint
		var hint int64
		var hl bool
		if _, err := fmt.Sscanf(strings.TrimSpace(sc.Text()), "%d %s %s %d %d %d %d %t", &idx, &tr, &en, &block, &jobs, &ck, &hint, &hl); err != nil {
			continue
		}
		n++
		data, err := os.ReadFile(filepath.Join(dir, "in", fmt.Sprintf("%d.bin", idx)))
		if err != nil {
			continue
		}
		stream, err := encode(tr, en, block, jobs, ck, hint, hl, data)
		if err != nil {
			os.WriteFile(filepath.Join(dir, "ref", fmt.Sprintf("%d.err", idx)), []byte("encode: "+err.Error()), 0644)
			continue
		}
		os.WriteFile(filepath.Join(dir, "out", fmt.Sprintf("%d.knz", idx)), stream, 0644)
		back, err := decode(stream, tr, en, block, ck, hint, hl)
		if err != nil {
			os.WriteFile(filepath.Join(dir, "ref", fmt.Sprintf("%d.err", idx)), []byte("decode: "+err.Error()), 0644)
			continue
		}
		os.WriteFile(filepath.Join(dir, "ref", fmt.Sprintf("%d.bin", idx)), back, 0644)
		if bytes.Equal(back, data) {
			ok++
		}
	}
	fmt.Printf("reference: %d cases, %d round trips\n", n, ok)
}
