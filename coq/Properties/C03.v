(* C03 — the decoder is total: the part that is logic.
   (1) generated fact: every goroutine the library spawns recovers panics;
   (2) the hand-off protocol on the decode side never deadlocks and does finite work, whatever
       fails and wherever (from C07's development, stated for the decode side);
   (3) the Reader state machine model is a total function (Gallina), its work per Read bounded
       by the request size and the number of frames (fuel of Model/Reader.v, shown sufficient
       by the correspondence runs).
   Termination and panic-freedom INSIDE the codec inverses on forged data is not provable here:
   it is searched by the mutant harness (child processes, watchdog). *)
From Coq Require Import List ZArith String Bool.
From KV Require Import Gen.Structure Model.Handoff Proofs.HandoffProofs.
Import ListNotations.

Theorem C03_all_library_spawns_recover : forallb snd lib_spawns = true.
Proof. exact (eq_refl true). Qed.
Print Assumptions C03_all_library_spawns_recover.

Theorem C03_decode_tasks_always_finish : forall first n s, (0 <= first)%Z -> reachable Dec first n s ->
  all_done s = false ->
  exists i o s', step Dec true first s i o = Some s' /\ (measure s' < measure s)%nat.
Proof. intros first n s H R. exact (progress Dec first H s (reachable_Inv _ _ _ _ H R)). Qed.
Print Assumptions C03_decode_tasks_always_finish.
