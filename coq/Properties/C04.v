(* C04 — compressed output is a pure function of data and parameters: the part that is logic.
   (1) the blocks handed to the encoding tasks, with their ids, depend on the data only - not on
       the partition into Write calls, the job count or the size hint (Writer model);
   (2) the tasks of a batch append to the shared stream one at a time, in id order, for every
       number of tasks and every interleaving (hand-off protocol model, encode side);
   so the sequence of (id, block) pairs reaching the shared stream is schedule-independent.
   Assumed (and compared byte for byte by the harness): encoding one block is a function of the
   block and the parameters. *)
From Coq Require Import List NArith ZArith.
From KV Require Import Model.Writer Proofs.WriterProofs Model.Handoff Proofs.HandoffProofs.
Import ListNotations.

Theorem C04_blocks_depend_on_data_only : forall B jobs1 jobs2 hint1 hint2 ws1 ws2,
  (0 < B)%N -> (0 < jobs1)%N -> (0 < jobs2)%N -> concat ws1 = concat ws2 ->
  exists a1 a2 b1 b2,
    do_writes B jobs1 hint1 (init_w jobs1) ws1 = (a1, true) /\ w_close B jobs1 hint1 (fun _ => false) a1 false false = (a2, false) /\
    do_writes B jobs2 hint2 (init_w jobs2) ws2 = (b1, true) /\ w_close B jobs2 hint2 (fun _ => false) b1 false false = (b2, false) /\
    map snd (w_out a2) = map snd (w_out b2).
Proof. intros B j1 j2 h1 h2 ws1 ws2 HB. exact (writer_canonical B HB j1 j2 h1 h2 ws1 ws2). Qed.
Print Assumptions C04_blocks_depend_on_data_only.

Theorem C04_appends_in_id_order_for_every_schedule : forall first n s, (0 <= first)%Z -> reachable Enc first n s ->
  (exists k, log s = map (id_of first) (seq 0 k)) /\
  (all_done s = true -> cnt s <> (-1)%Z -> log s = map (id_of first) (seq 0 (length (ts s)))).
Proof.
  intros first n s H R. pose proof (reachable_Inv _ _ _ _ H R) as I. split.
  - exact (ordered Enc first s I).
  - intros D C. exact (proj1 (complete_run_sequential Enc first H s I D C)).
Qed.
Print Assumptions C04_appends_in_id_order_for_every_schedule.

(* down to the bytes, for the pipelines whose container is modelled (NONE/NONE: write_stream; NONE/NONE and NONE/RANGE:
   write_stream_e): the stream is the same whatever the Write partition, the job counts and the size hints *)
From KV Require Import Model.Header Model.Container Model.ContainerG Proofs.StreamBytes.
Theorem C04_stream_bytes_depend_on_data_only : forall (hash : list N -> N) c jobs1 jobs2 hint1 hint2 ws1 ws2,
  let B := h_bsize c in
  (0 < B)%N -> (0 < jobs1)%N -> (0 < jobs2)%N -> concat ws1 = concat ws2 ->
  exists a1 a2 b1 b2,
    do_writes B jobs1 hint1 (init_w jobs1) ws1 = (a1, true) /\ w_close B jobs1 hint1 (fun _ => false) a1 false false = (a2, false) /\
    do_writes B jobs2 hint2 (init_w jobs2) ws2 = (b1, true) /\ w_close B jobs2 hint2 (fun _ => false) b1 false false = (b2, false) /\
    write_stream hash c (map snd (w_out a2)) = write_stream hash c (map snd (w_out b2)) /\
    write_stream_e hash c (map snd (w_out a2)) = write_stream_e hash c (map snd (w_out b2)).
Proof. exact stream_bytes_depend_on_data_only. Qed.
Print Assumptions C04_stream_bytes_depend_on_data_only.
