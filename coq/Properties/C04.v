(* C04 — theorems: see stream model (work in progress) *)
