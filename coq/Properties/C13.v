(* C13 — transforms: exact inverse pairs, in bounds, clean decline: the part proved so far.
   The transform SEQUENCE (transform/Sequence.go, Model/Seq.v): for EVERY list of 1..8 stages
   that keep the per-stage contract [good] (a successful Forward stays within MaxEncodedLen, is
   undone by Inverse whenever the output slice can hold the original, MaxEncodedLen monotone),
   every non-empty block and every destination size:
   (1) if Forward succeeds, its output fits in MaxEncodedLen(len(block)) and in the destination;
       the "result does not fit" branch of the code is unreachable;
   (2) Inverse, given the skip flags Forward computed and a destination that can hold the block,
       returns the block - whichever stages applied or declined (a declined stage hands its input
       on unchanged) and however much a stage expanded its input: the working buffers of Inverse
       are large enough for every intermediate result (the defect repaired in 8934ab2).
   The per-transform contracts (19 transforms) are decided by search with canary-guarded buffers
   on the real code, not proved. *)
From Coq Require Import List NArith Arith.
From KV Require Import Model.Seq Proofs.SeqProofs.
Import ListNotations.

Theorem C13_sequence_roundtrip : forall ts x dcap skip y, Forall good ts -> length ts <= 8 ->
  seq_forward ts x dcap = FOk skip y ->
  forall dcap2, length x <= dcap2 -> seq_inverse ts y dcap2 skip = IOk x.
Proof. exact seq_roundtrip. Qed.
Print Assumptions C13_sequence_roundtrip.

Theorem C13_sequence_forward_in_bounds : forall ts x dcap, Forall good ts ->
  match seq_forward ts x dcap with
  | FOk _ y => length y <= max_enc ts (length x) /\ length y <= dcap
  | FLost _ _ => False
  | _ => True
  end.
Proof. exact seq_forward_in_bounds. Qed.
Print Assumptions C13_sequence_forward_in_bounds.

(* the contract is satisfiable (the scripted stages of the correspondence harness keep it), and a
   chain with an expanding stage in the middle round-trips *)
Theorem C13_scripted_stages_keep_the_contract : forall kd, match kd with KLie _ _ => True | _ => good (mk_stage kd) end.
Proof. exact mk_stage_good. Qed.
Print Assumptions C13_scripted_stages_keep_the_contract.

Example C13_instance :
  let ts := map mk_stage [KStrip 2 160; KTag 3 161; KRev; KDecline; KTag 2 160]%N in
  match seq_forward ts [160; 160; 7; 8; 9]%N 10 with
  | FOk skip y => skip = 23%N /\ seq_inverse ts y 5 skip = IOk [160; 160; 7; 8; 9]%N
  | _ => False
  end.
Proof. vm_compute. split; reflexivity. Qed.

(* ---------- one transform proved end to end: ZRLT (transform/ZRLT.go, Model/ZRLT.v) ---------- *)
From KV Require Import Model.ZRLT Proofs.ZRLTProofs.
Open Scope N_scope.

(* for EVERY non-empty block of bytes: if Forward succeeds its output is not longer than the block
   (it never expands) and not empty, and Inverse into any destination that can hold the block
   returns the block exactly *)
Theorem C13_zrlt_exact_inverse : forall src dcap enc, bytes256 src -> src <> [] -> 0 < dcap -> zfwd src dcap = Some enc ->
  (length enc <= length src)%nat /\ enc <> [] /\
  forall dcap2, N.of_nat (length src) <= dcap2 -> zinv enc dcap2 = Some src.
Proof. exact zrlt_roundtrip. Qed.
Print Assumptions C13_zrlt_exact_inverse.

(* hence ZRLT keeps the stage contract of the sequence theorem: any chain of ZRLT and other
   contract-keeping stages round-trips *)
Theorem C13_zrlt_keeps_the_stage_contract : good zrlt_stage.
Proof. exact zrlt_stage_good. Qed.
Print Assumptions C13_zrlt_keeps_the_stage_contract.

Example C13_zrlt_instance :
  zfwd [7; 0; 0; 0; 0; 0; 255; 0; 254; 3; 0; 0; 0] 13 = Some [8; 1; 0; 255; 1; 0; 255; 0; 4; 0; 0] /\
  zinv [8; 1; 0; 255; 1; 0; 255; 0; 4; 0; 0] 13 = Some [7; 0; 0; 0; 0; 0; 255; 0; 254; 3; 0; 0; 0] /\
  zfwd [1; 2; 3; 255] 4 = None.
Proof. vm_compute. repeat split; reflexivity. Qed.

(* ---------- SBRT: the MTFT and RANK transforms and the time-stamp mode (transform/SBRT.go, Model/SBRT.v) ---------- *)
From KV Require Import Model.SBRT Proofs.BinCoderProofs Proofs.SBRTProofs.

(* for EVERY block of bytes and every mode: Forward keeps the length, produces bytes, and Inverse into any
   destination that can hold the block returns the block exactly *)
Theorem C13_sbrt_exact_inverse : forall mode x cap y, bytes_ok x -> sbrt_fwd mode x cap = Some y ->
  length y = length x /\ bytes_ok y /\ forall cap', (length x <= cap')%nat -> sbrt_inv mode y cap' = Some x.
Proof. exact sbrt_roundtrip. Qed.
Print Assumptions C13_sbrt_exact_inverse.

Theorem C13_sbrt_keeps_the_stage_contract : forall mode, good (sbrt_stage mode).
Proof. exact sbrt_stage_good. Qed.
Print Assumptions C13_sbrt_keeps_the_stage_contract.

(* chains of the proved stages round-trip through the sequence glue (skip flags, buffer swaps, final copy) *)
Theorem C13_proved_stages_compose : forall ts src dcap skip out,
  Forall (fun t => t = zrlt_stage \/ exists mode, t = sbrt_stage mode) ts -> (length ts <= 8)%nat ->
  seq_forward ts src dcap = FOk skip out -> seq_inverse ts out (length src) skip = IOk src.
Proof.
  intros ts src dcap skip out Hts Hl H. apply (seq_roundtrip ts src dcap skip out); [|exact Hl|exact H|apply le_n].
  eapply Forall_impl; [|exact Hts]. intros t [->|[mode ->]]; [exact zrlt_stage_good|exact (sbrt_stage_good mode)].
Qed.
Print Assumptions C13_proved_stages_compose.

Example C13_sbrt_instance :
  sbrt_fwd 1 [3; 3; 1; 3; 0; 255; 1] 40 = Some [3; 0; 2; 1; 2; 255; 3] /\
  sbrt_fwd 2 [3; 3; 1; 3; 0; 255; 1; 3; 3; 1] 43 = Some [3; 0; 2; 1; 2; 255; 3; 3; 0; 1] /\
  sbrt_inv 2 [3; 0; 2; 1; 2; 255; 3; 3; 0; 1] 10 = Some [3; 3; 1; 3; 0; 255; 1; 3; 3; 1] /\
  sbrt_fwd 1 [3; 3; 1] 35 = None.
Proof. vm_compute. repeat split; reflexivity. Qed.
