(* C13 — transforms: exact inverse pairs, in bounds, clean decline: the part proved so far.
   The transform SEQUENCE (transform/Sequence.go, Model/Seq.v): for EVERY list of 1..8 stages
   that keep the per-stage contract [good] (a successful Forward stays within MaxEncodedLen, is
   undone by Inverse whenever the output slice can hold the original, MaxEncodedLen monotone),
   every non-empty block and every destination size:
   (1) if Forward succeeds, its output fits in MaxEncodedLen(len(block)) and in the destination;
       the "result does not fit" branch of the code is unreachable;
   (2) Inverse, given the skip flags Forward computed and a destination that can hold the block,
       returns the block - whichever stages applied or declined (a declined stage hands its input
       on unchanged) and however much a stage expanded its input: the working buffers of Inverse
       are large enough for every intermediate result (the defect repaired in 8934ab2).
   The per-transform contracts (19 transforms) are decided by search with canary-guarded buffers
   on the real code, not proved. *)
From Coq Require Import List NArith Arith.
From KV Require Import Model.Seq Proofs.SeqProofs.
Import ListNotations.

Theorem C13_sequence_roundtrip : forall ts x dcap skip y, Forall good ts -> length ts <= 8 ->
  seq_forward ts x dcap = FOk skip y ->
  forall dcap2, length x <= dcap2 -> seq_inverse ts y dcap2 skip = IOk x.
Proof. exact seq_roundtrip. Qed.
Print Assumptions C13_sequence_roundtrip.

Theorem C13_sequence_forward_in_bounds : forall ts x dcap, Forall good ts ->
  match seq_forward ts x dcap with
  | FOk _ y => length y <= max_enc ts (length x) /\ length y <= dcap
  | FLost _ _ => False
  | _ => True
  end.
Proof. exact seq_forward_in_bounds. Qed.
Print Assumptions C13_sequence_forward_in_bounds.

(* the contract is satisfiable (the scripted stages of the correspondence harness keep it), and a
   chain with an expanding stage in the middle round-trips *)
Theorem C13_scripted_stages_keep_the_contract : forall kd, match kd with KLie _ _ => True | _ => good (mk_stage kd) end.
Proof. exact mk_stage_good. Qed.
Print Assumptions C13_scripted_stages_keep_the_contract.

Example C13_instance :
  let ts := map mk_stage [KStrip 2 160; KTag 3 161; KRev; KDecline; KTag 2 160]%N in
  match seq_forward ts [160; 160; 7; 8; 9]%N 10 with
  | FOk skip y => skip = 23%N /\ seq_inverse ts y 5 skip = IOk [160; 160; 7; 8; 9]%N
  | _ => False
  end.
Proof. vm_compute. split; reflexivity. Qed.

(* ---------- one transform proved end to end: ZRLT (transform/ZRLT.go, Model/ZRLT.v) ---------- *)
From KV Require Import Model.ZRLT Proofs.ZRLTProofs.
Open Scope N_scope.

(* for EVERY non-empty block of bytes: if Forward succeeds its output is not longer than the block
   (it never expands) and not empty, and Inverse into any destination that can hold the block
   returns the block exactly *)
Theorem C13_zrlt_exact_inverse : forall src dcap enc, bytes256 src -> src <> [] -> 0 < dcap -> zfwd src dcap = Some enc ->
  (length enc <= length src)%nat /\ enc <> [] /\
  forall dcap2, N.of_nat (length src) <= dcap2 -> zinv enc dcap2 = Some src.
Proof. exact zrlt_roundtrip. Qed.
Print Assumptions C13_zrlt_exact_inverse.

(* hence ZRLT keeps the stage contract of the sequence theorem: any chain of ZRLT and other
   contract-keeping stages round-trips *)
Theorem C13_zrlt_keeps_the_stage_contract : good zrlt_stage.
Proof. exact zrlt_stage_good. Qed.
Print Assumptions C13_zrlt_keeps_the_stage_contract.

Example C13_zrlt_instance :
  zfwd [7; 0; 0; 0; 0; 0; 255; 0; 254; 3; 0; 0; 0] 13 = Some [8; 1; 0; 255; 1; 0; 255; 0; 4; 0; 0] /\
  zinv [8; 1; 0; 255; 1; 0; 255; 0; 4; 0; 0] 13 = Some [7; 0; 0; 0; 0; 0; 255; 0; 254; 3; 0; 0; 0] /\
  zfwd [1; 2; 3; 255] 4 = None.
Proof. vm_compute. repeat split; reflexivity. Qed.
