(* C11 — theorems: see stream model (work in progress) *)
