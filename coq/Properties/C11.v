(* C11 — block-range decoding returns exactly the requested slice.
   Reader model (Model/Reader.v: Read / processBlock / the batch of decoding tasks with from/to),
   for EVERY data, block size, job count, size hint, range and sequence of Read lengths:
   (1) the caller receives exactly the bytes of blocks from..to-1 (block k = bytes (k-1)*B .. k*B-1),
       each Read filled completely, then end-of-stream - empty ranges, ranges beyond the last block,
       absent bounds (0) and batches made only of skipped blocks included;
   (2) what the blocks outside the range would decode to is never looked at: a stream whose
       out-of-range blocks are undecodable gives the same result. *)
From Coq Require Import List NArith ZArith Lia.
From KV Require Import Model.Writer Model.Reader Proofs.ReaderProofs Proofs.ReaderGen.
Import ListNotations.
Open Scope N_scope.

(* the slice, spelled out: bytes (from-1)*B .. (to-1)*B-1 of the data (to = 0: up to the end) *)
Definition slice_of (B from to : N) (data : list N) : list N :=
  let lo := ((N.to_nat from - 1) * N.to_nat B)%nat in
  let hi := if to =? 0 then length data else ((N.to_nat to - 1) * N.to_nat B)%nat in
  firstn (hi - lo) (skipn lo data).

Lemma slice_of_range B from to data : range_bytes B from to data = slice_of B from to data.
Proof. unfold range_bytes, range_bytes_at, slice_of. rewrite !Nat.sub_0_r. reflexivity. Qed.
Print Assumptions slice_of_range.

Theorem C11_range_exact : forall B jobs hint from to data ns, 0 < B -> 0 < jobs ->
  fst (do_reads_g B jobs hint from to (init_r (map FData (chunks B data) ++ [FEnd])) ns) =
  spec_reads (slice_of B from to data) ns.
Proof.
  intros B jobs hint from to data ns HB HJ. rewrite <- slice_of_range.
  apply (reader_range B jobs hint from to HB HJ data (map FData (chunks B data)) [] ns).
  - apply dmg_same.
  - apply clean_valid. apply (chunks_wsz B jobs HB HJ (length data)). lia.
Qed.
Print Assumptions C11_range_exact.

Theorem C11_blocks_outside_the_range_are_not_looked_at : forall B jobs hint from to data dfr rest ns, 0 < B -> 0 < jobs ->
  dmg dfr (chunks B data) -> clean B from to 0 dfr ->
  fst (do_reads_g B jobs hint from to (init_r (dfr ++ FEnd :: rest)) ns) = spec_reads (slice_of B from to data) ns.
Proof.
  intros B jobs hint from to data dfr rest ns HB HJ Hd Hc. rewrite <- slice_of_range.
  apply (reader_range B jobs hint from to HB HJ data dfr rest ns Hd Hc).
Qed.
Print Assumptions C11_blocks_outside_the_range_are_not_looked_at.

(* the premises are satisfiable and the statement is not trivial: 10 bytes, B = 4, range [2,3), a damaged block 3 *)
Example C11_instance :
  fst (do_reads_g 4 3 0 2 3 (init_r ([FData [1;2;3;4]; FData [5;6;7;8]; FFail] ++ [FEnd])) [3; 5; 1]) =
  [([5;6;7], RNil); ([8], RNil); ([], REOF)].
Proof. vm_compute. reflexivity. Qed.
