(* C10 — format stability: generated-fact obligations.  Every package-level integer / string
   constant and every static table of the library (as extracted from the CURRENT sources by
   tools/gotrans) equals the pinned copy extracted from the vendored reference snapshot.
   The behavioural half of C10 (reference encoder vs current decoder, golden corpus) is run
   by the harness. *)
From Coq Require Import List ZArith String.
From KV Require Gen.Consts Golden.Consts.

Theorem C10_int_constants_unchanged : Gen.Consts.int_consts = Golden.Consts.int_consts.
Proof. exact (eq_refl Golden.Consts.int_consts). Qed.
Print Assumptions C10_int_constants_unchanged.

Theorem C10_string_constants_unchanged : Gen.Consts.string_consts = Golden.Consts.string_consts.
Proof. exact (eq_refl Golden.Consts.string_consts). Qed.
Print Assumptions C10_string_constants_unchanged.

Theorem C10_static_tables_unchanged : Gen.Consts.tables = Golden.Consts.tables.
Proof. exact (eq_refl Golden.Consts.tables). Qed.
Print Assumptions C10_static_tables_unchanged.

(* ---------- the container model writes what the reference encoder wrote ---------- *)
(* Golden/Streams.v holds streams produced by the vendored reference build for the NONE / NONE pipeline (no
   checksum, 32-bit, 64-bit; one block, two blocks, a 15-byte raw block; with and without the size in the header).
   The model of the container (Model/Container.v with the checksums of Model/XXHash.v) - which every run compares
   with the current code (ctm, xxm) - reproduces them bit for bit and parses them back: a change of the format
   that is made consistently in the writer, the reader and the model still fails here. *)
From KV Require Import Model.Header Model.Container Model.XXHash Model.Writer Golden.Streams.
From Coq Require Import NArith.
Import ListNotations.
Open Scope N_scope.

Definition gold_ok (cfg : N * N * N) (data stream : list N) : bool :=
  let '(ck, bs, hint) := cfg in
  let c := mkH ck 0 0 bs hint in
  let blocks := chunks bs data in
  if list_eq_dec N.eq_dec (write_stream (block_hash ck) c blocks) stream then
    match parse_stream (block_hash ck) (fun _ => true) (fun _ => true) (S (S (List.length blocks))) 1024 [] stream with
    | Some (c', frames) => if list_eq_dec N.eq_dec (List.concat (List.map (fun f => match f with PData b => b | _ => [] end) frames)) data
                           then (h_bsize c' =? bs) && (h_ck c' =? ck) else false
    | None => false
    end
  else false.

Theorem C10_model_reproduces_reference_streams :
  gold_ok gold0_cfg gold0_data gold0_stream = true /\ gold_ok gold1_cfg gold1_data gold1_stream = true /\
  gold_ok gold2_cfg gold2_data gold2_stream = true /\ gold_ok gold3_cfg gold3_data gold3_stream = true /\
  gold_ok gold4_cfg gold4_data gold4_stream = true /\ gold_ok gold5_cfg gold5_data gold5_stream = true.
Proof. vm_compute. repeat split; reflexivity. Qed.
Print Assumptions C10_model_reproduces_reference_streams.

(* ---------- the same for the NONE transform / RANGE entropy pipeline: six streams of the reference encoder ---------- *)
From KV Require Import Model.ContainerG Golden.StreamsRange.
Definition gold_ok_r (cfg : N * N * N) (data stream : list N) : bool :=
  let '(ck, bs, hint) := cfg in
  let c := mkH ck 4 0 bs hint in
  let blocks := chunks bs data in
  if list_eq_dec N.eq_dec (write_stream_e (block_hash ck) c blocks) stream then
    match parse_stream_e (block_hash ck) (fun _ => true) (fun _ => true) (S (S (List.length blocks))) 1024 [] stream with
    | Some (c', frames) => if list_eq_dec N.eq_dec (List.concat (List.map (fun f => match f with PData b => b | _ => [] end) frames)) data
                           then (h_bsize c' =? bs) && (h_ck c' =? ck) && (h_etype c' =? 4) else false
    | None => false
    end
  else false.

Theorem C10_model_reproduces_reference_range_streams :
  gold_ok_r goldr0_cfg goldr0_data goldr0_stream = true /\ gold_ok_r goldr1_cfg goldr1_data goldr1_stream = true /\
  gold_ok_r goldr2_cfg goldr2_data goldr2_stream = true /\ gold_ok_r goldr3_cfg goldr3_data goldr3_stream = true /\
  gold_ok_r goldr4_cfg goldr4_data goldr4_stream = true /\ gold_ok_r goldr5_cfg goldr5_data goldr5_stream = true.
Proof. vm_compute. repeat split; reflexivity. Qed.
Print Assumptions C10_model_reproduces_reference_range_streams.
