(* C10 — format stability: generated-fact obligations.  Every package-level integer / string
   constant and every static table of the library (as extracted from the CURRENT sources by
   tools/gotrans) equals the pinned copy extracted from the vendored reference snapshot.
   The behavioural half of C10 (reference encoder vs current decoder, golden corpus) is run
   by the harness. *)
From Coq Require Import List ZArith String.
From KV Require Gen.Consts Golden.Consts.

Theorem C10_int_constants_unchanged : Gen.Consts.int_consts = Golden.Consts.int_consts.
Proof. exact (eq_refl Golden.Consts.int_consts). Qed.
Print Assumptions C10_int_constants_unchanged.

Theorem C10_string_constants_unchanged : Gen.Consts.string_consts = Golden.Consts.string_consts.
Proof. exact (eq_refl Golden.Consts.string_consts). Qed.
Print Assumptions C10_string_constants_unchanged.

Theorem C10_static_tables_unchanged : Gen.Consts.tables = Golden.Consts.tables.
Proof. exact (eq_refl Golden.Consts.tables). Qed.
Print Assumptions C10_static_tables_unchanged.
