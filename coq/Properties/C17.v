(* C17 — stream object lifecycle: the Writer / Reader state machine models (compared with the Go
   objects on random call programs at every run) satisfy the lifecycle rules for every state. *)
From Coq Require Import List NArith.
From KV Require Import Model.Writer Model.Reader Proofs.WriterProofs Proofs.ReaderProofs.
Import ListNotations.
Open Scope N_scope.

(* successful Writes return their full length, Close succeeds, a writer closed without data emits no block *)
Theorem C17_writes_return_full_length_and_close_succeeds : forall B jobs hint (ws : list (list N)), 0 < B -> 0 < jobs ->
  exists s1 s2, do_writes B jobs hint (init_w jobs) ws = (s1, true) /\
    w_close B jobs hint (fun _ => false) s1 false false = (s2, false) /\ w_closed s2 = true /\
    map snd (w_out s2) = chunks B (concat ws).
Proof.
  intros B jobs hint ws HB HJ. destruct (writer_chunking B jobs hint HB HJ ws) as (s1 & s2 & E1 & E2 & C & O & _).
  exists s1, s2. auto.
Qed.
Print Assumptions C17_writes_return_full_length_and_close_succeeds.

Theorem C17_writer_use_after_close : forall B jobs hint fails s blk mf ff, w_closed s = true ->
  w_write B jobs hint fails s blk = (s, 0, true) /\ w_close B jobs hint fails s mf ff = (s, false).
Proof. intros. split; [apply write_after_close|apply close_after_close]; assumption. Qed.
Print Assumptions C17_writer_use_after_close.

Theorem C17_reader_use_after_close : forall B jobs hint from to s n,
  r_read B jobs hint from to (close_r s) n = (close_r s, [], RErr) /\ close_r (close_r s) = close_r s.
Proof.
  intros. split; [|apply close_r_idempotent]. apply read_after_close. unfold close_r. destruct (r_closed s) eqn:E; [exact E|reflexivity].
Qed.
Print Assumptions C17_reader_use_after_close.

(* a writer closed without any Write yields a stream that reads back empty: (0, EOF) *)
Theorem C17_empty_stream : forall B jobs hint jr hr n, 0 < B -> 0 < jobs -> 0 < jr -> 0 < n ->
  exists s1 s2, do_writes B jobs hint (init_w jobs) [] = (s1, true) /\
    w_close B jobs hint (fun _ => false) s1 false false = (s2, false) /\
    fst (do_reads B jr hr (init_r (map FData (map snd (w_out s2)) ++ [FEnd])) [n]) = [([], REOF)].
Proof.
  intros B jobs hint jr hr n HB HJ HR Hn.
  destruct (stream_roundtrip_model B HB jobs hint jr hr [] [n] HJ HR) as (s1 & s2 & E1 & E2 & R).
  exists s1, s2. split; [exact E1|]. split; [exact E2|]. rewrite R. cbn [concat spec_reads].
  rewrite firstn_nil. unfold eof_result. rewrite N.eqb_refl. replace (0 <? n) with true by (symmetry; apply N.ltb_lt; exact Hn). reflexivity.
Qed.
Print Assumptions C17_empty_stream.
