(* C18 — independent streams do not interfere: the part that is logic.
   Generated facts about the current sources: no package-level variable of the library is
   assigned outside init functions, the hashers shared by all tasks of a stream do not write
   their own state while hashing; plus mutual exclusion on the shared bit stream (C07).
   The Go memory model and aliasing inside the codecs are outside the model: the race detector
   run of the harness covers them by search. *)
From Coq Require Import List ZArith String Bool.
From KV Require Import Gen.Structure Model.Handoff Proofs.HandoffProofs.
Import ListNotations.

Theorem C18_no_shared_mutation : shared_var_writes = [].
Proof. exact (eq_refl []). Qed.
Print Assumptions C18_no_shared_mutation.

Theorem C18_hashers_stateless : hasher_state_writes = [].
Proof. exact (eq_refl []). Qed.
Print Assumptions C18_hashers_stateless.

Theorem C18_shared_stream_mutex : forall sd first n s i j ti tj, (0 <= first)%Z -> reachable sd first n s ->
  nth_error (ts s) i = Some ti -> nth_error (ts s) j = Some tj ->
  t_pc ti = Hold -> t_pc tj = Hold -> i = j.
Proof. intros sd first n s i j ti tj H R. exact (mutex sd first s i j ti tj (reachable_Inv _ _ _ _ H R)). Qed.
Print Assumptions C18_shared_stream_mutex.
