(* C12 — entropy codecs: exact inverse pairs with bit-exact consumption: the part proved so far.
   The binary arithmetic coder of entropy/BinaryEntropyCodec.go (Model/BinCoder.v, uint64 wrap-around
   and the junk bits the encoder keeps above bit 55 included), which is the coder of CM, TPAQ and
   TPAQX: for EVERY predictor (any state machine, Get in [0, 4095], the same on both sides), every
   block of bytes of every length (empty, below 64 bytes, across the internal chunk boundaries) and
   whatever follows the block in the stream: if the encoder did not run out of its buffer (the Go
   code panics there, the model returns None), the decoder returns exactly the block and leaves
   exactly what follows - the next reader of the bit stream starts at the right bit.
   The same holds for every pair of shifts with sb <= 8 and Get < 2^(sa+sb) (FPAQ: 8/8, 16 bits).
   Not proved: the predictors themselves keep Get in range (observed on every run), the encoder never
   runs out of its buffer with the real predictors, and the other codecs (HUFFMAN, ANS0/1, RANGE,
   NONE): decided by search with a sentinel on the real code.  FPAQ is proved as a whole (its predictor is
   modelled, see C12_fpaq_roundtrip). *)
From Coq Require Import List NArith ZArith.
From KV Require Import Model.OutBS Model.BinCoder Model.FPAQ Proofs.BinCoderProofs.
Import ListNotations.
Open Scope N_scope.

Theorem C12_binary_coder_roundtrip : forall (PS : Type) (pget : PS -> N) (pupd : PS -> bool -> PS),
  (forall ps, pget ps < 4096) ->
  forall ps0 block out, bytes_ok block ->
  bin_encode 4 8 PS pget pupd ps0 block = Some out ->
  forall rest, bin_decode 4 8 PS pget pupd ps0 (N.of_nat (length block)) (out ++ rest) = DOk block rest.
Proof.
  intros PS pget pupd Hp ps0 block out Hok He rest.
  apply (coder_roundtrip 4 8 ltac:(discriminate) PS pget pupd Hp ps0 block out Hok He rest).
Qed.
Print Assumptions C12_binary_coder_roundtrip.

Theorem C12_binary_coder_roundtrip_any_precision : forall sa sb (PS : Type) (pget : PS -> N) (pupd : PS -> bool -> PS),
  sb <= 8 -> (forall ps, pget ps < 2 ^ (sa + sb)) ->
  forall ps0 block out, bytes_ok block ->
  bin_encode sa sb PS pget pupd ps0 block = Some out ->
  forall rest, bin_decode sa sb PS pget pupd ps0 (N.of_nat (length block)) (out ++ rest) = DOk block rest.
Proof. intros sa sb PS pget pupd Hsb Hp. apply (coder_roundtrip sa sb Hsb PS pget pupd Hp). Qed.
Print Assumptions C12_binary_coder_roundtrip_any_precision.

(* FPAQ as a whole (entropy/FPAQCodec.go, Model/FPAQ.v: its adaptive predictor, 4 MiB chunks, its own
   buffer and acceptance rules, around the same coder with shifts 8/8): for EVERY block, if the encoder
   did not run out of its buffer, the decoder returns the block and leaves exactly what follows *)
Theorem C12_fpaq_roundtrip : forall block out, bytes_ok block -> fpaq_encode block = Some out ->
  forall rest, fpaq_decode (N.of_nat (length block)) (out ++ rest) = DOk block rest.
Proof.
  intros block out Hok He rest. unfold fpaq_encode, fpaq_decode in *.
  apply (fpaq_framing_roundtrip fps fpaq_get fpaq_upd fpaq_reset); [|exact Hok|exact He].
  intros ps. unfold fpaq_get. apply N.min_lt_iff. right. reflexivity.
Qed.
Print Assumptions C12_fpaq_roundtrip.

Example C12_fpaq_instance :
  match fpaq_encode [104; 101; 108; 108; 111; 32; 104; 101; 108; 108; 111; 0; 255; 255] with
  | Some out => fpaq_decode 14 (out ++ [9; 9]) = DOk [104; 101; 108; 108; 111; 32; 104; 101; 108; 108; 111; 0; 255; 255] [9; 9]
  | None => False
  end.
Proof. vm_compute. reflexivity. Qed.

(* VarInt, as used for the chunk sizes *)
Theorem C12_varint_roundtrip : forall v r, v < 268435456 -> read_varint (varint v ++ r) = Some (v, r).
Proof. exact varint_roundtrip. Qed.
Print Assumptions C12_varint_roundtrip.

(* an instance: a predictor that replays a fixed list of probabilities; 5 bytes, 4 bytes of tail *)
Example C12_instance :
  let pget := fun ps : list N => hd 2048 ps in
  let pupd := fun (ps : list N) (_ : bool) => tl ps in
  let ps0 := [100; 4000; 2048; 7; 4095; 0; 300; 2000; 1000; 3000; 50; 4000; 2048; 2048; 1; 4094] in
  match bin_encode 4 8 (list N) pget pupd ps0 [200; 3; 255; 0; 77] with
  | Some out => bin_decode 4 8 (list N) pget pupd ps0 5 (out ++ [1; 2; 3; 4]) = DOk [200; 3; 255; 0; 77] [1; 2; 3; 4] /\ (7 < length out)%nat
  | None => False
  end.
Proof. vm_compute. split; [reflexivity|repeat constructor]. Qed.

(* ---------- the alphabet header of the Huffman, ANS and range codecs (EncodeAlphabet / DecodeAlphabet) ---------- *)
From Coq Require Import Sorted.
From KV Require Import Model.InBS Model.Container Model.Alphabet Proofs.OutBSProofs Proofs.ArrayProofs Proofs.ReadArrayProofs
  Proofs.MirrorArrayProofs Proofs.ContainerProofs Proofs.AlphabetProofs.
(* for EVERY strictly increasing list of byte values (none, all 256, or any subset), written first in a bit stream
   with any program of further writes behind it, any buffer sizes on both sides and any short-read schedule of the
   source: DecodeAlphabet returns exactly the alphabet and consumes exactly the header - what follows is read as written *)
Theorem C12_alphabet_header_roundtrip : forall wbuf rbuf sched alpha ops rest cap,
  StronglySorted N.lt alpha -> Forall (fun x => x < 256) alpha -> encode_alphabet alpha = Some ops -> (length alpha <= cap)%nat ->
  40 <= wbuf -> wbuf mod 8 = 0 -> 0 < rbuf -> rbuf mod 8 = 0 -> Forall aop_ok rest ->
  exists s1 s2 s', run_aops (new_obs wbuf) (map conv ops ++ rest) = (s1, false) /\ close healthy s1 = (s2, false) /\
    decode_alphabet (new_ibs rbuf (mkSrc (o_out s2) sched None 0)) cap = (s', AOk alpha) /\
    run_arops s' (arops_of rest) = avals_of rest.
Proof. exact alphabet_stream_roundtrip. Qed.
Print Assumptions C12_alphabet_header_roundtrip.

Example C12_alphabet_instance :
  alphabet_image [1; 2; 65; 66; 200] = Some [228; 24; 0; 0; 0; 0; 0; 0; 0; 24; 0; 0; 0; 0; 0; 0; 0; 0; 0; 0; 0; 0; 0; 0; 0; 0; 4] /\
  alphabet_parse 256 [228; 24; 0; 0; 0; 0; 0; 0; 0; 24; 0; 0; 0; 0; 0; 0; 0; 0; 0; 0; 0; 0; 0; 0; 0; 0; 4] = AOk [1; 2; 65; 66; 200] /\
  alphabet_parse 4 [228; 24; 0; 0; 0; 0; 0; 0; 0; 24; 0; 0; 0; 0; 0; 0; 0; 0; 0; 0; 0; 0; 0; 0; 0; 0; 4] = AErrSize /\
  alphabet_parse 256 [228; 24; 0] = APanic.
Proof. vm_compute. repeat split; reflexivity. Qed.

(* ---------- the NONE codec (NullEntropyCodec.go) ---------- *)
From KV Require Import Proofs.NoneCodecProofs.
(* every block of bytes of any length (arrays of at most 2^23 bytes), written anywhere in a stream with anything behind it,
   comes back exactly, and exactly its bits are consumed *)
Theorem C12_none_codec_roundtrip : forall wbuf rbuf sched b rest,
  bytes_ok b -> 40 <= wbuf -> wbuf mod 8 = 0 -> 0 < rbuf -> rbuf mod 8 = 0 -> Forall aop_ok rest ->
  let ops := map conv (null_chunks (nfuel b) b) in
  exists s1 s2 s', run_aops (new_obs wbuf) (ops ++ rest) = (s1, false) /\ close healthy s1 = (s2, false) /\
    null_read (nfuel b) (new_ibs rbuf (mkSrc (o_out s2) sched None 0)) (N.of_nat (length b)) [] = (s', Some b) /\
    run_arops s' (arops_of rest) = avals_of rest.
Proof. exact none_codec_roundtrip. Qed.
Print Assumptions C12_none_codec_roundtrip.

(* ---------- the range codec: model of the whole codec, theorem for its chunk header ---------- *)
From KV Require Import Model.RangeCodec Proofs.RangeHeaderProofs.
(* entropy/RangeCodec.go is modelled as a whole (Model/RangeCodec.v: histogram, NormalizeFrequencies, header, the
   carry-less range coder with its uint64 wrap-around, the decoder) and compared with the Go codec through its public
   API on every run (rgm: stream bytes, decoded bytes, truncated streams).  Proved here: the chunk header - alphabet,
   log range, frequencies of all symbols but the first by chunks of 6 or 8 with a per-chunk bit width, first frequency
   inferred from the sum - for EVERY normalized table (sorted non-empty alphabet of byte values, every frequency in
   [1, 2^lr), sum 2^lr, zero elsewhere; lr in 8..15 - lr = 16 is accepted by the constructor but does not fit the
   3-bit field), written anywhere in a stream, any buffers and source schedule: decodeHeader returns the table and the log
   range and consumes exactly the header.  The coder itself (interval arithmetic) is proved further down
   (C12_range_codec_roundtrip). *)
Theorem C12_range_header_roundtrip : forall wbuf rbuf sched lr alpha fr hops fr0 rest,
  8 <= lr <= 15 -> StronglySorted N.lt alpha -> alpha <> [] -> table_ok lr alpha fr -> length fr0 = 256%nat ->
  header_ops lr alpha fr = Some hops ->
  40 <= wbuf -> wbuf mod 8 = 0 -> 0 < rbuf -> rbuf mod 8 = 0 -> Forall aop_ok rest ->
  exists s1 s2 s', run_aops (new_obs wbuf) (map conv hops ++ rest) = (s1, false) /\ close healthy s1 = (s2, false) /\
    decode_header (new_ibs rbuf (mkSrc (o_out s2) sched None 0)) fr0 = (s', HFreqs alpha fr lr) /\
    run_arops s' (arops_of rest) = avals_of rest.
Proof. exact range_header_stream_roundtrip. Qed.
Print Assumptions C12_range_header_roundtrip.

Example C12_range_instance :
  let blk := [104; 101; 108; 108; 111; 32; 104; 101; 108; 108; 111; 32; 119; 111; 114; 108; 100; 33; 33; 33; 0; 255; 104; 104; 101; 101] in
  match range_encode blk with
  | Some out => range_decode 26 out = ROk blk /\ length out = 56%nat /\ range_decode 26 (firstn 40 out) = RPanic
  | None => False
  end.
Proof. vm_compute. repeat split; reflexivity. Qed.

(* ... and every chunk gets such a table: the table is NormalizeFrequencies (C16) of the chunk's histogram, so for EVERY
   non-empty chunk of bytes what RangeEncoder writes in front of it is decoded by RangeDecoder to exactly the table the
   encoder codes with (C16's theorem composed with the header theorem) *)
From KV Require Import Model.Normalize Proofs.RangeChunkProofs.
Theorem C12_range_chunk_header_roundtrip : forall (wbuf rbuf : N) sched (buf fr0 : list N) rest,
  buf <> [] -> bytes_ok buf -> length fr0 = 256%nat ->
  (40 <= wbuf)%N -> (wbuf mod 8 = 0)%N -> (0 < rbuf)%N -> (rbuf mod 8 = 0)%N -> Forall aop_ok rest ->
  let lr := lower_lr 8 LOG_RANGE (N.of_nat (length buf)) in
  exists frz al hops s1 s2 s',
    normalize (histogram buf) (Z.of_N (N.of_nat (length buf))) (2 ^ Z.of_N lr)%Z = Some (frz, al) /\
    header_ops lr (alpha_of al) (tab_of frz) = Some hops /\
    run_aops (new_obs wbuf) (map conv hops ++ rest) = (s1, false) /\ close healthy s1 = (s2, false) /\
    decode_header (new_ibs rbuf (mkSrc (o_out s2) sched None 0%N)) fr0 = (s', HFreqs (alpha_of al) (tab_of frz) lr) /\
    run_arops s' (arops_of rest) = avals_of rest.
Proof. exact range_chunk_header_roundtrip. Qed.
Print Assumptions C12_range_chunk_header_roundtrip.

(* ... and the coder itself, hence the whole codec: for EVERY block of bytes, of any length (any number of 32768-byte
   chunks, chunks of one distinct symbol included), RangeDecoder.Read on the bytes RangeEncoder.Write + Close produced
   returns the block.  Inside (Proofs/RangeCoreProofs.v): the encoder's normalisation loop ends within three tests and
   keeps low + range within 60 bits (with the junk its shifts leave in bits 60..63 of the uint64); the number formed by
   everything written from a state on lies in that state's interval; the decoder, whose 60-bit window is not aligned
   with the 28-bit writes, therefore finds its count in the slot of the encoded symbol and follows the encoder state for
   state.  The premise is only that the block is made of byte values. *)
From KV Require Import Proofs.InBSProofs Proofs.ReadArrayProofs Proofs.MirrorArrayProofs Proofs.ContainerProofs Proofs.RangeCoreProofs Proofs.RangeCodecProofs.
Theorem C12_range_codec_roundtrip : forall block : list N, bytes_ok block ->
  exists bytes, range_encode block = Some bytes /\ range_decode (length block) bytes = ROk block.
Proof. exact range_codec_roundtrip. Qed.
Print Assumptions C12_range_codec_roundtrip.

(* the core alone, for any table the header can carry (not only normalized histograms), from the initial state, anywhere
   in a stream: the decoder returns the symbols and consumes exactly what the encoder wrote *)
Theorem C12_range_core_roundtrip : forall lr fr bs, (lr <= 16)%N -> length fr = 256%nat -> tot fr = (2 ^ lr)%N -> Forall (sym_in fr) bs ->
  exists lowf ops, enc_bytes lr (cum_of fr) (0%N, TOP_RANGE) bs [] = Some (lowf, ops) /\ cops_ok (ops ++ [finalop lowf]) /\
    forall s t P p, RA s -> Forall aop_ok t -> (p < 2 ^ P)%N ->
      uval s = (fst (abvs (map conv (ops ++ [finalop lowf]) ++ t)) * 2 ^ P + p)%N ->
      total s = (snd (abvs (map conv (ops ++ [finalop lowf]) ++ t)) + P)%N ->
      exists s1 code s', read_bits s 60 = (s1, Val code) /\
        dec_bytes (length bs) s1 lr (cum_of fr) 0 TOP_RANGE code [] = (s', Some bs) /\ RA s' /\
        uval s' = (fst (abvs t) * 2 ^ P + p)%N /\ total s' = (snd (abvs t) + P)%N.
Proof. exact range_core_roundtrip. Qed.
Print Assumptions C12_range_core_roundtrip.

(* how much the encoder can write: at most two 28-bit digits per byte and fewer than 4677 bits of header and final word per
   chunk (so the codec never expands a block by more than 7 + a small constant per chunk) *)
From KV Require Import Proofs.RangeSizeProofs.
Theorem C12_range_output_bound : forall f block allops, bytes_ok block -> enc_chunks f block = Some allops ->
  (Wd allops <= 4677 * N.of_nat f + 56 * N.of_nat (length block))%N.
Proof. exact enc_chunks_width. Qed.
Print Assumptions C12_range_output_bound.

(* bit-exact consumption, chunk by chunk: wherever a chunk stands in a stream (any reader state that holds its operations
   followed by anything), one round of the decoder's loop returns the chunk's bytes and leaves the reader exactly at what
   follows - the next chunk, or whatever comes after the codec's output *)
Theorem C12_range_chunk_exact_consumption : forall buf, buf <> [] -> bytes_ok buf ->
  exists cops fr, enc_chunk buf = Some cops /\ cops_ok cops /\ length fr = 256%nat /\
    forall f s remaining fr0 acc t P p, RA s -> length fr0 = 256%nat -> Forall aop_ok t -> (p < 2 ^ P)%N ->
      length buf = Nat.min CHUNK remaining ->
      uval s = (fst (abvs (map conv cops ++ t)) * 2 ^ P + p)%N -> total s = (snd (abvs (map conv cops ++ t)) + P)%N ->
      exists s', dec_chunks (S f) s remaining fr0 acc = dec_chunks f s' (remaining - length buf) fr (acc ++ buf) /\ RA s' /\
        uval s' = (fst (abvs t) * 2 ^ P + p)%N /\ total s' = (snd (abvs t) + P)%N.
Proof. exact chunk_step. Qed.
Print Assumptions C12_range_chunk_exact_consumption.
