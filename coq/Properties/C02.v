(* C02 — checksummed streams never yield wrong bytes: the part that is logic.
   The decoding task compares the stored hash with the hash of the block it rebuilt and reports
   the block as failed when they differ (a 32/64-bit hash cannot exclude collisions, so "every
   modification is noticed" is not a theorem about any implementation; that the comparison is
   made on every block and gates the hand-over is exercised by search over payload damage).
   What is proved, for the Reader model and EVERY set of failing blocks, data, range, job count
   and sequence of Reads: the bytes handed out are always a prefix of the original data - never
   other bytes; they all come from before the first failing block; no call reports end-of-stream;
   every call after the one that reported the error returns the error and no byte. *)
From Coq Require Import List NArith ZArith Lia.
From KV Require Import Model.Writer Model.Reader Proofs.ReaderProofs Proofs.ReaderGen.
Import ListNotations.
Open Scope N_scope.

Theorem C02_reported_block_never_yields_wrong_bytes : forall B jobs hint from to data dfr rest ns, 0 < B -> 0 < jobs ->
  dmg dfr (chunks B data) ->
  let out := fst (do_reads_g B jobs hint from to (init_r (dfr ++ FEnd :: rest)) ns) in
  (exists m, concat (map fst out) = firstn m (range_bytes B from to data)) /\
  (clean B from to 0 dfr -> out = spec_reads (range_bytes B from to data) ns) /\
  (~ clean B from to 0 dfr ->
     ~ In REOF (map snd out) /\
     (forall l1 x l2, out = l1 ++ x :: l2 -> snd x = RErr -> Forall (fun y => y = ([], RErr)) l2) /\
     exists pre q k, dfr = pre ++ FFail :: q /\ clean B from to 0 pre /\ (k <= length pre)%nat /\
       concat (map fst out) = firstn (length (concat (map fst out))) (range_bytes B from to (firstn (k * N.to_nat B) data))).
Proof.
  intros B jobs hint from to data dfr rest ns HB HJ Hd out.
  assert (Hgood : clean B from to 0 dfr -> out = spec_reads (range_bytes B from to data) ns).
  { intros Hc. apply (reader_range B jobs hint from to HB HJ data dfr rest ns Hd Hc). }
  assert (Hbad : ~ clean B from to 0 dfr -> exists pre q k, dfr = pre ++ FFail :: q /\ clean B from to 0 pre /\ (k <= length pre)%nat /\
            out = spec_reads_g (range_bytes B from to (firstn (k * N.to_nat B) data)) true ns).
  { intros Hn. destruct (reader_damaged B jobs hint from to HB HJ data dfr rest ns Hd Hn) as (pre & q & k & E & Hc & _ & Hk & Hr).
    exists pre, q, k. auto. }
  split; [|split; [exact Hgood|]].
  - destruct (dmg_split B jobs from to HB HJ dfr _ Hd (chunks_wsz B jobs HB HJ (length data) data (le_n _)) 0) as [Hc|(pre & q & E & Hc & Hs)].
    + rewrite (Hgood Hc). rewrite <- spec_reads_g_noerr. apply (spec_reads_g_prefix B jobs HB HJ).
    + assert (Hn : ~ clean B from to 0 dfr).
      { intros Hc'. rewrite E in Hc'. apply (clean_app B jobs from to HB HJ) in Hc'. destruct Hc' as [_ Hc']. cbn [clean] in Hc'.
        destruct Hc' as [Hc' _]. cbn [N.add] in Hs, Hc'. rewrite Hs in Hc'. discriminate. }
      destruct (Hbad Hn) as (pre' & q' & k & _ & _ & _ & Hr). rewrite Hr.
      destruct (spec_reads_g_prefix B jobs HB HJ ns (range_bytes B from to (firstn (k * N.to_nat B) data)) true) as [m1 H1].
      destruct (range_bytes_prefix B jobs from to HB HJ data (k * N.to_nat B)) as [m2 H2].
      rewrite H1, H2, firstn_firstn. eexists. reflexivity.
  - intros Hn. destruct (Hbad Hn) as (pre & q & k & E & Hc & Hk & Hr). split; [rewrite Hr; apply (spec_reads_g_never_eof B jobs HB HJ)|]. split.
    + rewrite Hr. intros l1 x l2. apply spec_reads_g_sticky.
    + exists pre, q, k. split; [exact E|]. split; [exact Hc|]. split; [exact Hk|].
      rewrite Hr. destruct (spec_reads_g_prefix B jobs HB HJ ns (range_bytes B from to (firstn (k * N.to_nat B) data)) true) as [m1 H1].
      rewrite H1, firstn_length. set (R := range_bytes B from to (firstn (k * N.to_nat B) data)).
      destruct (Nat.le_gt_cases m1 (length R)) as [Hle|Hgt].
      * replace (Nat.min m1 (length R)) with m1 by lia. reflexivity.
      * replace (Nat.min m1 (length R)) with (length R) by lia. rewrite firstn_all, firstn_all2 by lia. reflexivity.
Qed.
Print Assumptions C02_reported_block_never_yields_wrong_bytes.

Example C02_instance :
  fst (do_reads_g 4 2 0 0 0 (init_r ([FData [1;2;3;4]; FData [5;6;7;8]; FFail; FData [13]] ++ [FEnd])) [6; 4; 1]) =
  [([1;2;3;4;5;6], RNil); ([7;8], RErr); ([], RErr)].
Proof. vm_compute. reflexivity. Qed.
