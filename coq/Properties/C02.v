(* C02 — theorems: see stream model (work in progress) *)
