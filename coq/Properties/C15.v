(* C15 — Codec names: case-insensitive, canonical, consistent end to end.
   The tables and the facts about the comparison sites are regenerated from the Go sources
   on every run (Gen/Names.v); the model of GetType/GetName is Model/Names.v. *)
From Coq Require Import List ZArith String Bool.
From KV Require Import Model.Names Proofs.NamesProofs Gen.Names.
Import ListNotations.
Open Scope Z_scope.

(* generated facts about the current sources *)
Theorem C15_transform_tables_inverse : tables_ok transform_type_of_name transform_name_of_type = true.
Proof. exact (eq_refl true). Qed.
Print Assumptions C15_transform_tables_inverse.

Theorem C15_entropy_tables_inverse : tables_ok entropy_type_of_name entropy_name_of_type = true.
Proof. exact (eq_refl true). Qed.
Print Assumptions C15_entropy_tables_inverse.

Theorem C15_lookups_uppercase : transform_lookup_uppercases && entropy_lookup_uppercases = true.
Proof. exact (eq_refl true). Qed.
Print Assumptions C15_lookups_uppercase.

(* every place that selects a codec variant from a context string upper-cases it first *)
Theorem C15_variant_sites_uppercase : forallb (fun s => snd (snd s)) variant_sites = true.
Proof. exact (eq_refl true). Qed.
Print Assumptions C15_variant_sites_uppercase.

(* names are accepted in any letter case: for EVERY string *)
Theorem C15_case_insensitive : forall name,
  get_type transform_type_of_name true (upper name) = get_type transform_type_of_name true name /\
  get_etype entropy_type_of_name true (upper name) = get_etype entropy_type_of_name true name.
Proof.
  intros name. split; [apply get_type_case_insensitive|].
  unfold get_etype. apply token_type_upper.
Qed.
Print Assumptions C15_case_insensitive.

(* name -> type -> name is the canonical chain (upper case, NONE elements removed), for EVERY
   chain of at most 8 known tokens in any letter case *)
Theorem C15_name_type_name : forall toks t,
  get_type_toks transform_type_of_name true toks = Some t ->
  get_name_toks transform_name_of_type t =
    Some (match canonical transform_type_of_name toks with [] => ["NONE"%string] | c => c end).
Proof. exact (name_type_name transform_type_of_name transform_name_of_type C15_transform_tables_inverse). Qed.
Print Assumptions C15_name_type_name.

(* a site that upper-cases its operand picks the same variant for every spelling of the name,
   in particular for the spelling given to the writer and the canonical one rebuilt by the reader *)
Theorem C15_variant_agrees : forall lit s, site_selects true lit (upper s) = site_selects true lit s.
Proof. exact site_case_insensitive. Qed.
Print Assumptions C15_variant_agrees.

Example C15_witness :
  get_type transform_type_of_name true "none+lz+None+rolzx" = Some (3 * 2 ^ 42 + 12 * 2 ^ 36) /\
  get_name transform_name_of_type (3 * 2 ^ 42 + 12 * 2 ^ 36) = Some "LZ+ROLZX"%string.
Proof. split; reflexivity. Qed.
