(* C05 — theorems: see stream model (work in progress) *)
