(* C05 — decoded output independent of parallelism, block order preserved: the part that is logic.
   (1) Reader model: on a valid stream the bytes returned by any sequence of Reads are the data in
       order, for every job count and size hint (the specification side does not mention them);
   (2) hand-off protocol, decode side: blocks are pulled from the shared stream one task at a time
       in id order for every interleaving; once a task failed no later task touches the stream and
       the in-order result scan reports the smallest failed block;
   (3) after a block decoding error every later Read returns the error and no data;
   (4) a block whose decoding fails (any position, any job count, any Read lengths): the Reads are
       served, completely and in order, from whole blocks that precede the failed one ([spec_reads_g]:
       the first Read that wants more gets what is left together with the error, every later Read
       gets the error and no byte); nothing from beyond the failed block is ever handed out. *)
From Coq Require Import List NArith ZArith.
From KV Require Import Model.Writer Model.Reader Proofs.ReaderProofs Proofs.ReaderGen Model.Handoff Proofs.HandoffProofs.
Import ListNotations.

Theorem C05_output_independent_of_jobs : forall B jobs1 hint1 jobs2 hint2 data ns,
  (0 < B)%N -> (0 < jobs1)%N -> (0 < jobs2)%N ->
  fst (do_reads B jobs1 hint1 (init_r (map FData (chunks B data) ++ [FEnd])) ns) =
  fst (do_reads B jobs2 hint2 (init_r (map FData (chunks B data) ++ [FEnd])) ns) /\
  fst (do_reads B jobs1 hint1 (init_r (map FData (chunks B data) ++ [FEnd])) ns) = spec_reads data ns.
Proof.
  intros B j1 h1 j2 h2 data ns HB H1 H2.
  rewrite (reader_valid_stream B j1 h1 HB H1), (reader_valid_stream B j2 h2 HB H2). auto.
Qed.
Print Assumptions C05_output_independent_of_jobs.

Theorem C05_blocks_pulled_in_order_and_cancel_respected : forall first n s sched, (0 <= first)%Z -> reachable Dec first n s ->
  (exists k, log s = map (id_of first) (seq 0 k)) /\
  (cnt s = (-1)%Z -> cnt (exec Dec true first s sched) = (-1)%Z /\ log (exec Dec true first s sched) = log s).
Proof.
  intros first n s sched H R. pose proof (reachable_Inv _ _ _ _ H R) as I. split.
  - exact (ordered Dec first s I).
  - intros C. exact (cancel_respected_exec Dec first H sched s I C).
Qed.
Print Assumptions C05_blocks_pulled_in_order_and_cancel_respected.

Theorem C05_error_is_sticky : forall B jobs hint from to s n, r_closed s = false -> r_err s = true ->
  r_read B jobs hint from to s n = (s, [], RErr).
Proof. exact read_after_error. Qed.
Print Assumptions C05_error_is_sticky.

Theorem C05_failed_block_reported_nothing_beyond_it : forall B jobs hint data bad_frames rest ns, (0 < B)%N -> (0 < jobs)%N ->
  dmg bad_frames (chunks B data) -> ~ clean B 0 0 0 bad_frames ->
  exists pre q k, bad_frames = pre ++ FFail :: q /\ clean B 0 0 0 pre /\ (k <= length pre)%nat /\
    fst (do_reads_g B jobs hint 0 0 (init_r (bad_frames ++ FEnd :: rest)) ns) =
      spec_reads_g (firstn (k * N.to_nat B) data) true ns.
Proof.
  intros B jobs hint data dfr rest ns HB HJ Hd Hn.
  destruct (reader_damaged B jobs hint 0 0 HB HJ data dfr rest ns Hd Hn) as (pre & q & k & E & Hc & _ & Hk & Hr).
  exists pre, q, k. split; [exact E|]. split; [exact Hc|]. split; [exact Hk|]. rewrite Hr. f_equal.
  unfold range_bytes, range_bytes_at. cbn [N.eqb N.to_nat Nat.sub Nat.mul skipn]. rewrite Nat.sub_0_r. apply firstn_all.
Qed.
Print Assumptions C05_failed_block_reported_nothing_beyond_it.

Example C05_failed_block_instance :
  (fst (do_reads_g 4 3 0 0 0 (init_r ([FData [1;2;3;4]; FData [5;6;7;8]; FData [9;10;11;12]; FFail; FData [17]] ++ [FEnd])) [5; 8; 1]) =
  [([1;2;3;4;5], RNil); ([6;7;8;9;10;11;12], RErr); ([], RErr)])%N.
Proof. vm_compute. reflexivity. Qed.
