(* C06 — theorems: see stream model (work in progress) *)
