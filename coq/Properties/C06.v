(* C06 — transparent to I/O granularity: the stream layer.
   Write side: any partition of the data into Write calls yields the same blocks.
   Read side: any sequence of Read lengths (0 included) returns the same byte sequence: the k-th
   Read returns the next min(len, remaining) bytes.
   The source side (short reads of the underlying io.Reader) is the bit stream layer: modelled
   (Model/InBS.v, refill loop) and compared with the Go code over short-read schedules on every run. *)
From Coq Require Import List NArith.
From KV Require Import Model.Writer Model.Reader Proofs.WriterProofs Proofs.ReaderProofs.
Import ListNotations.
Open Scope N_scope.

Theorem C06_write_partition_irrelevant : forall B jobs hint ws1 ws2, 0 < B -> 0 < jobs -> concat ws1 = concat ws2 ->
  exists a1 a2 b1 b2,
    do_writes B jobs hint (init_w jobs) ws1 = (a1, true) /\ w_close B jobs hint (fun _ => false) a1 false false = (a2, false) /\
    do_writes B jobs hint (init_w jobs) ws2 = (b1, true) /\ w_close B jobs hint (fun _ => false) b1 false false = (b2, false) /\
    map snd (w_out a2) = map snd (w_out b2).
Proof. intros B jobs hint ws1 ws2 HB HJ. exact (writer_canonical B HB jobs jobs hint hint ws1 ws2 HJ HJ). Qed.
Print Assumptions C06_write_partition_irrelevant.

Theorem C06_read_sizes_irrelevant : forall B jobs hint data ns, 0 < B -> 0 < jobs ->
  fst (do_reads B jobs hint (init_r (map FData (chunks B data) ++ [FEnd])) ns) = spec_reads data ns.
Proof. intros B jobs hint data ns HB HJ. exact (reader_valid_stream B jobs hint HB HJ data ns). Qed.
Print Assumptions C06_read_sizes_irrelevant.

(* the concatenation of what the Reads return is a prefix of the data, whatever the lengths *)
Theorem C06_reads_concatenate_to_data : forall data ns,
  concat (map fst (spec_reads data ns)) = firstn (N.to_nat (fold_right N.add 0 ns)) data.
Proof. intros data ns. exact (spec_reads_concat ns data). Qed.
Print Assumptions C06_reads_concatenate_to_data.
