(* C06 — transparent to I/O granularity: the stream layer.
   Write side: any partition of the data into Write calls yields the same blocks.
   Read side: any sequence of Read lengths (0 included) returns the same byte sequence: the k-th
   Read returns the next min(len, remaining) bytes.
   The source side (short reads of the underlying io.Reader) is the bit stream layer: modelled
   (Model/InBS.v, refill loop) and compared with the Go code over short-read schedules on every run. *)
From Coq Require Import List NArith.
From KV Require Import Model.Writer Model.Reader Proofs.WriterProofs Proofs.ReaderProofs.
Import ListNotations.
Open Scope N_scope.

Theorem C06_write_partition_irrelevant : forall B jobs hint ws1 ws2, 0 < B -> 0 < jobs -> concat ws1 = concat ws2 ->
  exists a1 a2 b1 b2,
    do_writes B jobs hint (init_w jobs) ws1 = (a1, true) /\ w_close B jobs hint (fun _ => false) a1 false false = (a2, false) /\
    do_writes B jobs hint (init_w jobs) ws2 = (b1, true) /\ w_close B jobs hint (fun _ => false) b1 false false = (b2, false) /\
    map snd (w_out a2) = map snd (w_out b2).
Proof. intros B jobs hint ws1 ws2 HB HJ. exact (writer_canonical B HB jobs jobs hint hint ws1 ws2 HJ HJ). Qed.
Print Assumptions C06_write_partition_irrelevant.

Theorem C06_read_sizes_irrelevant : forall B jobs hint data ns, 0 < B -> 0 < jobs ->
  fst (do_reads B jobs hint (init_r (map FData (chunks B data) ++ [FEnd])) ns) = spec_reads data ns.
Proof. intros B jobs hint data ns HB HJ. exact (reader_valid_stream B jobs hint HB HJ data ns). Qed.
Print Assumptions C06_read_sizes_irrelevant.

(* the concatenation of what the Reads return is a prefix of the data, whatever the lengths *)
Theorem C06_reads_concatenate_to_data : forall data ns,
  concat (map fst (spec_reads data ns)) = firstn (N.to_nat (fold_right N.add 0 ns)) data.
Proof. intros data ns. exact (spec_reads_concat ns data). Qed.
Print Assumptions C06_reads_concatenate_to_data.

(* source side: the bit stream returns the same values whatever sizes the underlying io.Reader
   delivers (any schedule, down to one byte per call) and whatever the buffer size; they are the
   next bits of the byte string; a read past the end raises *)
From KV Require Import Model.OutBS Model.InBS Proofs.BinCoderProofs Proofs.InBSProofs.
Theorem C06_short_reads_of_the_source_are_invisible : forall bufsize1 bufsize2 sched1 sched2 data ops,
  (0 < bufsize1)%N -> (0 < bufsize2)%N -> bytes_ok data -> Forall rop_ok ops ->
  run_rops (new_ibs bufsize1 (mkSrc data sched1 None 0)) ops = run_rops (new_ibs bufsize2 (mkSrc data sched2 None 0)) ops /\
  run_rops (new_ibs bufsize1 (mkSrc data sched1 None 0)) ops = spec_rops (be_val data) (8 * N.of_nat (length data)) ops.
Proof. exact reader_schedule_independent. Qed.
Print Assumptions C06_short_reads_of_the_source_are_invisible.

Example C06_source_instance :
  run_rops (new_ibs 8 (mkSrc [165; 90; 255; 1; 2; 3; 4; 5; 6; 7]%N [1; 2; 1; 3; 1; 1; 1]%N None 0)) [RBits 4; RBit; RBits 11; RBits 64; RBits 1]%N =
  [Some 10; Some 0; Some 1370; Some 18374970166623929863; None]%N.
Proof. vm_compute. reflexivity. Qed.

(* ---------- a whole NONE / NONE stream: decoding does not depend on how the source delivers the bytes ---------- *)
From KV Require Import Model.Header Model.Container Proofs.HeaderProofs Proofs.ContainerProofs.
(* two readers with different buffer sizes, fed the same stream in different pieces (any short-read
   schedules), parse the same header and the same blocks - here for every stream the writer model produces *)
Theorem C06_whole_stream_source_chunking_is_invisible : forall (hash : list N -> N) (evalid tvalid : N -> bool) c,
  cfg_ok evalid tvalid c ->
  (h_ck c = 1%N -> forall l, (hash l < 2 ^ 32)%N) -> (h_ck c = 2%N -> forall l, (hash l < 2 ^ 64)%N) ->
  forall blocks nframes rbuf1 sched1 rbuf2 sched2,
  Forall (blk_ok (h_bsize c)) blocks -> (length blocks < nframes)%nat ->
  (0 < rbuf1)%N -> (rbuf1 mod 8 = 0)%N -> (0 < rbuf2)%N -> (rbuf2 mod 8 = 0)%N ->
  parse_stream hash evalid tvalid nframes rbuf1 sched1 (write_stream hash c blocks) =
  parse_stream hash evalid tvalid nframes rbuf2 sched2 (write_stream hash c blocks).
Proof.
  intros hash evalid tvalid c Hc H32 H64 blocks nframes rbuf1 sched1 rbuf2 sched2 Hb Hf Hr1 Hr18 Hr2 Hr28.
  rewrite (container_roundtrip hash evalid tvalid c Hc H32 H64 blocks nframes rbuf1 sched1 Hb Hf Hr1 Hr18).
  rewrite (container_roundtrip hash evalid tvalid c Hc H32 H64 blocks nframes rbuf2 sched2 Hb Hf Hr2 Hr28). reflexivity.
Qed.
Print Assumptions C06_whole_stream_source_chunking_is_invisible.

(* ... and the same for a stream with RANGE-coded blocks (block sizes up to 128 MiB) *)
From KV Require Import Model.ContainerG Proofs.ContainerGProofs Proofs.EndToEndRangeFits.
Theorem C06_range_stream_source_chunking_is_invisible : forall (hash : list N -> N) (evalid tvalid : N -> bool) c,
  cfg_ok evalid tvalid c -> h_etype c = RANGE_TYPE -> (h_bsize c <= 134217728)%N ->
  (h_ck c = 1%N -> forall l, (hash l < 2 ^ 32)%N) -> (h_ck c = 2%N -> forall l, (hash l < 2 ^ 64)%N) ->
  forall blocks nframes rbuf1 sched1 rbuf2 sched2,
  Forall (blk_ok (h_bsize c)) blocks -> (length blocks < nframes)%nat ->
  (0 < rbuf1)%N -> (rbuf1 mod 8 = 0)%N -> (0 < rbuf2)%N -> (rbuf2 mod 8 = 0)%N ->
  parse_stream_e hash evalid tvalid nframes rbuf1 sched1 (write_stream_e hash c blocks) =
  parse_stream_e hash evalid tvalid nframes rbuf2 sched2 (write_stream_e hash c blocks).
Proof.
  intros hash evalid tvalid c Hc Het Hbs H32 H64 blocks nframes rbuf1 sched1 rbuf2 sched2 Hb Hf Hr1 Hr18 Hr2 Hr28.
  rewrite (container_range_roundtrip_128 hash evalid tvalid c blocks nframes rbuf1 sched1 Hc Het Hbs H32 H64 Hb Hf Hr1 Hr18).
  rewrite (container_range_roundtrip_128 hash evalid tvalid c blocks nframes rbuf2 sched2 Hc Het Hbs H32 H64 Hb Hf Hr2 Hr28). reflexivity.
Qed.
Print Assumptions C06_range_stream_source_chunking_is_invisible.
