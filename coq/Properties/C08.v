(* C08 — I/O failures are never swallowed: the part that is logic.
   (1) output bit stream model, for EVERY fault function of the sink (which Write calls it rejects),
       every buffer size and every program of WriteBit/WriteBits: a call during which the sink rejected
       a write reports the error; if every call and the final Close reported success, the sink holds
       the complete byte image of the written bits (so Close never reports success for a stream
       whose bytes did not all reach the sink);
   (2) Writer model, for EVERY set of failing encoding tasks (a task fails when its write to the shared
       stream fails), failing end marker and failing final flush, every Write partition, job count
       and hint: if every Write returned its full length without error and Close returned nil, then
       every block of the data was written once, in order; hence a failing task of any block of the
       data makes some Write or the Close return the error;
   (3) Reader model: a block whose task met an error (source failure, damaged data) or the physical
       end of the source never becomes a clean end-of-stream, for any jobs / Read lengths.
   Panics: the Go code converts bit stream panics into errors with deferred recovers; that every
   entry point has one is checked structurally (C03) and by fault injection at every call index. *)
From Coq Require Import List NArith ZArith Lia.
From KV Require Import Model.OutBS Proofs.OutBSProofs Model.Writer Model.Reader Proofs.WriterProofs
  Proofs.ReaderProofs Proofs.ReaderGen Proofs.FaultProofs.
Import ListNotations.
Open Scope N_scope.

Theorem C08_sink_faults_never_swallowed : forall (fail : N -> bool) bufsize ops s1 s2,
  16 <= bufsize -> Forall wop_ok ops ->
  run_wops_f fail (new_obs bufsize) ops = (s1, false) -> close fail s1 = (s2, false) ->
  exists pad V L, (V, L) = fold_left bv_app ops (0, 0) /\
    o_closed s2 = true /\ pad < 8 /\
    8 * N.of_nat (length (o_out s2)) = L + pad /\
    be_val (o_out s2) = V * 2 ^ pad /\
    written s2 = Z.of_N L.
Proof. exact sink_faults_never_swallowed. Qed.
Print Assumptions C08_sink_faults_never_swallowed.

Theorem C08_rejected_write_is_reported : forall (fail : N -> bool) s s' e,
  (forall b, write_bit fail s b = (s', e) -> rejected fail s s' -> e = true) /\
  (forall v c, write_bits fail s v c = (s', e) -> rejected fail s s' -> e = true) /\
  (close fail s = (s', e) -> rejected fail s s' -> e = true).
Proof.
  intros fail s s' e. split; [|split].
  - intros b. apply write_bit_reports.
  - intros v c. apply write_bits_reports.
  - apply close_reports.
Qed.
Print Assumptions C08_rejected_write_is_reported.

Theorem C08_writer_success_means_complete : forall B jobs hint (fails : N -> bool) ws mf ff s1 s2,
  0 < B -> 0 < jobs ->
  do_writes_f B jobs hint fails (init_w jobs) ws = (s1, true) -> w_close B jobs hint fails s1 mf ff = (s2, false) ->
  w_closed s2 = true /\
  map snd (w_out s2) = chunks B (concat ws) /\
  map fst (w_out s2) = map (fun i => 1 + N.of_nat i) (seq 0 (length (w_out s2))).
Proof. intros B jobs hint fails ws mf ff s1 s2 HB HJ. apply writer_success_means_complete; assumption. Qed.
Print Assumptions C08_writer_success_means_complete.

Theorem C08_task_failure_reported : forall B jobs hint (fails : N -> bool) ws mf ff s1 s2 r e id,
  0 < B -> 0 < jobs ->
  do_writes_f B jobs hint fails (init_w jobs) ws = (s1, r) -> w_close B jobs hint fails s1 mf ff = (s2, e) ->
  fails id = true -> 1 <= id <= N.of_nat (length (chunks B (concat ws))) ->
  r = false \/ e = true.
Proof. intros B jobs hint fails ws mf ff s1 s2 r e id HB HJ. apply task_failure_reported; assumption. Qed.
Print Assumptions C08_task_failure_reported.

Theorem C08_read_error_never_clean_eof : forall B jobs hint data dfr cut ns, 0 < B -> 0 < jobs ->
  dmg dfr (chunks B data) ->
  ~ In REOF (map snd (fst (do_reads_g B jobs hint 0 0 (init_r (firstn cut dfr)) ns))) /\
  (~ clean B 0 0 0 dfr -> forall rest,
     ~ In REOF (map snd (fst (do_reads_g B jobs hint 0 0 (init_r (dfr ++ FEnd :: rest)) ns)))).
Proof.
  intros B jobs hint data dfr cut ns HB HJ Hd. split.
  - destruct (reader_truncated B jobs hint 0 0 HB HJ data dfr cut ns Hd) as (k & _ & Hr). rewrite Hr.
    apply (spec_reads_g_never_eof B jobs HB HJ).
  - intros Hn rest. destruct (reader_damaged B jobs hint 0 0 HB HJ data dfr rest ns Hd Hn) as (pre & q & k & _ & _ & _ & _ & Hr).
    rewrite Hr. apply (spec_reads_g_never_eof B jobs HB HJ).
Qed.
Print Assumptions C08_read_error_never_clean_eof.

(* a failing run exists and is reported: the sink rejects its first Write call *)
Example C08_instance_bitstream :
  snd (run_wops_f (fun k => k =? 1) (new_obs 16) [WBits 1 64; WBits 2 64]) = true /\
  snd (run_wops_f (fun k => k =? 3) (new_obs 16) [WBits 1 64; WBits 2 64]) = false.
Proof. vm_compute. split; reflexivity. Qed.

Example C08_instance_writer :
  let '(s1, r) := do_writes_f 4 2 0 (fun id => id =? 2) (init_w 2) [[1;2;3;4;5]; [6;7;8;9;10;11]] in
  r = false \/ snd (w_close 4 2 0 (fun id => id =? 2) s1 false false) = true.
Proof. vm_compute. left. reflexivity. Qed.
