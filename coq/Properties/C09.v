(* C09 — theorems: see stream model (work in progress) *)
