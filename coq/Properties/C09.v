(* C09 — truncated streams are always detected: the part that is logic.
   Reader model: a stream that stops before its end marker - cut at a block boundary or inside a
   block (that block then fails to decode), whatever happened to the blocks before, with or
   without a block range - never makes any Read report end-of-stream; the bytes handed out are a
   prefix of the true data; and every Read sequence that asks for more than that receives the error.
   (That a cut inside a block makes its decoding task fail, for every cut position, is the
   end-of-stream behaviour of the bit stream: Model/InBS.v, correspondence + search.) *)
From Coq Require Import List NArith ZArith Lia.
From KV Require Import Model.Writer Model.Reader Proofs.ReaderProofs Proofs.ReaderGen.
Import ListNotations.
Open Scope N_scope.

Theorem C09_truncated_never_complete : forall B jobs hint from to data dfr cut ns, 0 < B -> 0 < jobs ->
  dmg dfr (chunks B data) ->
  let out := fst (do_reads_g B jobs hint from to (init_r (firstn cut dfr)) ns) in
  ~ In REOF (map snd out) /\
  (exists m, concat (map fst out) = firstn m (range_bytes B from to data)) /\
  (forall l1 x l2, out = l1 ++ x :: l2 -> snd x = RErr -> Forall (fun y => y = ([], RErr)) l2).
Proof.
  intros B jobs hint from to data dfr cut ns HB HJ Hd out.
  destruct (reader_truncated B jobs hint from to HB HJ data dfr cut ns Hd) as (k & _ & Hr).
  unfold out. rewrite Hr. split; [apply (spec_reads_g_never_eof B jobs HB HJ)|]. split.
  - destruct (spec_reads_g_prefix B jobs HB HJ ns (range_bytes B from to (firstn (k * N.to_nat B) data)) true) as [m1 H1].
    destruct (range_bytes_prefix B jobs from to HB HJ data (k * N.to_nat B)) as [m2 H2].
    rewrite H1, H2, firstn_firstn. eexists. reflexivity.
  - intros l1 x l2. apply spec_reads_g_sticky.
Qed.
Print Assumptions C09_truncated_never_complete.

Theorem C09_error_reported : forall B jobs hint from to data dfr cut ns k, 0 < B -> 0 < jobs ->
  dmg dfr (chunks B data) -> 0 < k -> (length data < N.to_nat (fold_right N.add 0%N ns) + N.to_nat k)%nat ->
  In RErr (map snd (fst (do_reads_g B jobs hint from to (init_r (firstn cut dfr)) (ns ++ [k])))).
Proof.
  intros B jobs hint from to data dfr cut ns k HB HJ Hd Hk Hl.
  destruct (reader_truncated B jobs hint from to HB HJ data dfr cut (ns ++ [k]) Hd) as (k0 & _ & Hr).
  rewrite Hr. apply (spec_reads_g_error_reported B jobs HB HJ); [exact Hk|].
  pose proof (range_bytes_length B jobs from to HB HJ (firstn (k0 * N.to_nat B) data)) as H1. rewrite firstn_length in H1. lia.
Qed.
Print Assumptions C09_error_reported.

Example C09_instance :
  fst (do_reads_g 4 2 0 0 0 (init_r (firstn 2 [FData [1;2;3;4]; FData [5;6;7;8]; FData [9]])) [3; 3; 9; 1]) =
  [([1;2;3], RNil); ([4;5;6], RNil); ([7;8], RErr); ([], RErr)].
Proof. vm_compute. reflexivity. Qed.
