(* C09 — truncated streams are always detected: the part that is logic.
   Reader model: a stream that stops before its end marker - cut at a block boundary or inside a
   block (that block then fails to decode), whatever happened to the blocks before, with or
   without a block range - never makes any Read report end-of-stream; the bytes handed out are a
   prefix of the true data; and every Read sequence that asks for more than that receives the error.
   (That a cut inside a block makes its decoding task fail, for every cut position, is the
   end-of-stream behaviour of the bit stream: Model/InBS.v, correspondence + search.) *)
From Coq Require Import List NArith ZArith Lia.
From KV Require Import Model.Writer Model.Reader Proofs.ReaderProofs Proofs.ReaderGen.
Import ListNotations.
Open Scope N_scope.

Theorem C09_truncated_never_complete : forall B jobs hint from to data dfr cut ns, 0 < B -> 0 < jobs ->
  dmg dfr (chunks B data) ->
  let out := fst (do_reads_g B jobs hint from to (init_r (firstn cut dfr)) ns) in
  ~ In REOF (map snd out) /\
  (exists m, concat (map fst out) = firstn m (range_bytes B from to data)) /\
  (forall l1 x l2, out = l1 ++ x :: l2 -> snd x = RErr -> Forall (fun y => y = ([], RErr)) l2).
Proof.
  intros B jobs hint from to data dfr cut ns HB HJ Hd out.
  destruct (reader_truncated B jobs hint from to HB HJ data dfr cut ns Hd) as (k & _ & Hr).
  unfold out. rewrite Hr. split; [apply (spec_reads_g_never_eof B jobs HB HJ)|]. split.
  - destruct (spec_reads_g_prefix B jobs HB HJ ns (range_bytes B from to (firstn (k * N.to_nat B) data)) true) as [m1 H1].
    destruct (range_bytes_prefix B jobs from to HB HJ data (k * N.to_nat B)) as [m2 H2].
    rewrite H1, H2, firstn_firstn. eexists. reflexivity.
  - intros l1 x l2. apply spec_reads_g_sticky.
Qed.
Print Assumptions C09_truncated_never_complete.

Theorem C09_error_reported : forall B jobs hint from to data dfr cut ns k, 0 < B -> 0 < jobs ->
  dmg dfr (chunks B data) -> 0 < k -> (length data < N.to_nat (fold_right N.add 0%N ns) + N.to_nat k)%nat ->
  In RErr (map snd (fst (do_reads_g B jobs hint from to (init_r (firstn cut dfr)) (ns ++ [k])))).
Proof.
  intros B jobs hint from to data dfr cut ns k HB HJ Hd Hk Hl.
  destruct (reader_truncated B jobs hint from to HB HJ data dfr cut (ns ++ [k]) Hd) as (k0 & _ & Hr).
  rewrite Hr. apply (spec_reads_g_error_reported B jobs HB HJ); [exact Hk|].
  pose proof (range_bytes_length B jobs from to HB HJ (firstn (k0 * N.to_nat B) data)) as H1. rewrite firstn_length in H1. lia.
Qed.
Print Assumptions C09_error_reported.

Example C09_instance :
  fst (do_reads_g 4 2 0 0 0 (init_r (firstn 2 [FData [1;2;3;4]; FData [5;6;7;8]; FData [9]])) [3; 3; 9; 1]) =
  [([1;2;3], RNil); ([4;5;6], RNil); ([7;8], RErr); ([], RErr)].
Proof. vm_compute. reflexivity. Qed.

(* ---------- down to the bytes ---------- *)
From KV Require Import Model.InBS Model.Header Model.Container Model.XXHash Proofs.BinCoderProofs Proofs.InBSProofs Proofs.ReadArrayProofs
  Proofs.HeaderProofs Proofs.ContainerProofs Proofs.XXHashProofs Proofs.EosProofs Proofs.TruncProofs Proofs.EndToEnd Proofs.TruncEndToEnd.

(* the input bit stream never makes bits up: ReadBits / ReadArray of more bits than the data holds panic, on every
   path of the reader (aligned bulk copies, unaligned 64-bit and 256-bit loops, refills with any schedule) *)
Theorem C09_reads_past_the_end_panic : forall s count, RA s -> total s < count ->
  (exists s' e, read_array s count = (s', Pan e)) /\ (1 <= count <= 64 -> exists s' e, read_bits s count = (s', Pan e)).
Proof.
  intros s count HR Ht. split; [exact (read_array_eos s count HR Ht)|].
  intros Hc. exact (read_bits_eos 66 s count (ra_a s HR) Hc Ht).
Qed.
Print Assumptions C09_reads_past_the_end_panic.

(* a whole NONE / NONE stream cut anywhere before its end (any number of bytes missing): the parse is a header error, or
   the configuration, some of the blocks - intact and in order - and then a failure; never the end marker *)
Theorem C09_truncated_stream_is_never_complete : forall (hash : list N -> N) (evalid tvalid : N -> bool) c,
  cfg_ok evalid tvalid c ->
  (h_ck c = 1 -> forall l, hash l < 2 ^ 32) -> (h_ck c = 2 -> forall l, hash l < 2 ^ 64) ->
  forall blocks nframes rbuf sched (k : nat),
  Forall (blk_ok (h_bsize c)) blocks -> (length blocks < nframes)%nat -> 0 < rbuf -> rbuf mod 8 = 0 ->
  (k < length (write_stream hash c blocks))%nat ->
  let cut := firstn k (write_stream hash c blocks) in
  parse_stream hash evalid tvalid nframes rbuf sched cut = None \/
  exists j, (j <= length blocks)%nat /\
    parse_stream hash evalid tvalid nframes rbuf sched cut = Some (norm_cfg c, map PData (firstn j blocks) ++ [PFail]).
Proof. exact container_truncated. Qed.
Print Assumptions C09_truncated_stream_is_never_complete.

(* ... and up to the caller: whatever was written, however the truncated stream is delivered and read (buffer sizes,
   short reads, job count, Read lengths), no Read reports end of stream, the bytes handed out are a prefix of the
   data, and once the error has been reported it stays.  Checksums of the code (XXHash32/64). *)
Theorem C09_truncated_stream_end_to_end : forall (evalid tvalid : N -> bool) c jr hr (data : list N) (ns : list N) nframes rbuf sched (k : nat),
  cfg_ok evalid tvalid c -> bytes_ok data -> (length data < nframes)%nat -> 0 < jr -> 0 < rbuf -> rbuf mod 8 = 0 ->
  let B := h_bsize c in let hash := block_hash (h_ck c) in
  let stream := write_stream hash c (chunks B data) in
  (k < length stream)%nat ->
  parse_stream hash evalid tvalid nframes rbuf sched (firstn k stream) = None \/
  exists frames, parse_stream hash evalid tvalid nframes rbuf sched (firstn k stream) = Some (norm_cfg c, frames) /\
    let out := fst (do_reads_g B jr hr 0 0 (init_r (map frame_of frames)) ns) in
    ~ In REOF (map snd out) /\
    (exists m, concat (map fst out) = firstn m (range_bytes B 0 0 data)) /\
    (forall l1 x l2, out = l1 ++ x :: l2 -> snd x = RErr -> Forall (fun y => y = ([], RErr)) l2).
Proof.
  intros evalid tvalid c jr hr data ns nframes rbuf sched k Hc.
  exact (truncated_end_to_end (block_hash (h_ck c)) evalid tvalid c jr hr data ns nframes rbuf sched k Hc
           (block_hash_32 (h_ck c)) (block_hash_64 (h_ck c))).
Qed.
Print Assumptions C09_truncated_stream_end_to_end.

Example C09_truncated_instance :
  let hash := block_hash 1 in let c := mkH 1 0 0 1024 0 in
  let blocks := [[1; 2; 3]; [255; 0; 254; 9; 8; 7; 6; 5; 4; 3; 2; 1; 0; 11; 12; 13; 14; 15; 16; 17]; [42]] in
  let S := write_stream hash c blocks in
  map (fun k => match parse_stream hash (fun _ => true) (fun _ => true) 10 16 [3; 1; 5] (firstn k S) with
                | None => 0 | Some (_, fr) => N.of_nat (length fr) end) [0; 10; 19; 20; 27; 28; 40; 60; 66; 67]%nat
  = [0; 0; 0; 1; 1; 1; 2; 3; 3; 4] /\ length S = 68%nat.
Proof. vm_compute. split; reflexivity. Qed.

(* ---------- the same for streams with RANGE-coded blocks (Model/ContainerG.v; block sizes up to 128 MiB) ---------- *)
From KV Require Import Model.ContainerG Proofs.ContainerProofs Proofs.ContainerGProofs Proofs.TruncGProofs Proofs.TruncEndToEndRange.
Theorem C09_truncated_range_stream : forall (hash : list N -> N) (evalid tvalid : N -> bool) c blocks nframes rbuf sched (k : nat),
  cfg_ok evalid tvalid c -> h_etype c = RANGE_TYPE -> h_bsize c <= 134217728 ->
  (h_ck c = 1 -> forall l, hash l < 2 ^ 32) -> (h_ck c = 2 -> forall l, hash l < 2 ^ 64) ->
  Forall (blk_ok (h_bsize c)) blocks -> (length blocks < nframes)%nat -> 0 < rbuf -> rbuf mod 8 = 0 ->
  (k < length (write_stream_e hash c blocks))%nat ->
  let cut := firstn k (write_stream_e hash c blocks) in
  parse_stream_e hash evalid tvalid nframes rbuf sched cut = None \/
  exists j, (j <= length blocks)%nat /\
    parse_stream_e hash evalid tvalid nframes rbuf sched cut = Some (norm_cfg c, map PData (firstn j blocks) ++ [PFail]).
Proof. exact range_stream_truncated. Qed.
Print Assumptions C09_truncated_range_stream.

Theorem C09_truncated_range_stream_end_to_end : forall (evalid tvalid : N -> bool) c jr hr (data : list N) (ns : list N) nframes rbuf sched (k : nat),
  cfg_ok evalid tvalid c -> h_etype c = RANGE_TYPE -> h_bsize c <= 134217728 ->
  bytes_ok data -> (length data < nframes)%nat -> 0 < jr -> 0 < rbuf -> rbuf mod 8 = 0 ->
  let B := h_bsize c in let hash := block_hash (h_ck c) in
  let stream := write_stream_e hash c (chunks B data) in
  (k < length stream)%nat ->
  parse_stream_e hash evalid tvalid nframes rbuf sched (firstn k stream) = None \/
  exists frames, parse_stream_e hash evalid tvalid nframes rbuf sched (firstn k stream) = Some (norm_cfg c, frames) /\
    let out := fst (do_reads_g B jr hr 0 0 (init_r (map frame_of frames)) ns) in
    ~ In REOF (map snd out) /\
    (exists m, concat (map fst out) = firstn m (range_bytes B 0 0 data)) /\
    (forall l1 x l2, out = l1 ++ x :: l2 -> snd x = RErr -> Forall (fun y => y = ([], RErr)) l2).
Proof.
  intros evalid tvalid c jr hr data ns nframes rbuf sched k Hc Het Hbs.
  exact (truncated_end_to_end_range (block_hash (h_ck c)) evalid tvalid c jr hr data ns nframes rbuf sched k Hc Het Hbs
           (block_hash_32 (h_ck c)) (block_hash_64 (h_ck c))).
Qed.
Print Assumptions C09_truncated_range_stream_end_to_end.

Example C09_truncated_range_instance :
  let hash := block_hash 1 in let c := mkH 1 4 0 1024 0 in
  let blocks := [[1; 2; 3]; [255; 0; 254; 9; 8; 7; 6; 5; 4; 3; 2; 1; 0; 11; 12; 13; 14; 15; 16; 17]; [42]] in
  let S := write_stream_e hash c blocks in
  forallb (fun k => match parse_stream_e hash (fun _ => true) (fun _ => true) 10 16 [3; 1; 5] (firstn k S) with
                    | None => true | Some (_, fr) => match last fr PEnd with PFail => true | _ => false end end)
          (seq 0 (length S)) = true /\
  parse_stream_e hash (fun _ => true) (fun _ => true) 10 16 [3; 1; 5] S = Some (norm_cfg c, map PData blocks ++ [PEnd]).
Proof. vm_compute. split; reflexivity. Qed.
