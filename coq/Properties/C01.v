(* C01 — theorems: see stream model (work in progress) *)
