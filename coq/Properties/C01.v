(* C01 — lossless round trip through the stream API: the stream layer.
   Models: Model/Writer.v (Write / processBlock / Close buffering) and Model/Reader.v
   (Read / processBlock cursor and batch logic), both compared with the Go objects on random call
   sequences at every run.  Block encoding/decoding is abstract here: the theorems assume the codec
   contract "the block handed to the encoder is what the decoder returns" (exercised per codec by
   C12 / C13 and end to end by the round trip search of this check). *)
From Coq Require Import List NArith.
From KV Require Import Model.Writer Model.Reader Proofs.WriterProofs Proofs.ReaderProofs.
Import ListNotations.
Open Scope N_scope.

(* every byte written is handed to the encoding tasks exactly once, in order, in blocks of
   blockSize bytes with ids 1,2,3,... — for EVERY partition into Write calls, job count 1.., and
   EVERY value of the advisory size hint (absent, exact, smaller, larger) *)
Theorem C01_writer_chunking : forall B jobs hint (ws : list (list N)), 0 < B -> 0 < jobs ->
  exists s1 s2, do_writes B jobs hint (init_w jobs) ws = (s1, true) /\
    w_close B jobs hint (fun _ => false) s1 false false = (s2, false) /\
    w_closed s2 = true /\
    map snd (w_out s2) = chunks B (concat ws) /\
    map fst (w_out s2) = map (fun i => 1 + N.of_nat i) (seq 0 (length (w_out s2))).
Proof. intros B jobs hint ws HB HJ. exact (writer_chunking B jobs hint HB HJ ws). Qed.
Print Assumptions C01_writer_chunking.

(* Writer then Reader: whatever the Write partition, the job counts and hints on both sides and
   the sequence of Read lengths (0 included), the caller reads back exactly the data, then
   end-of-stream *)
Theorem C01_stream_roundtrip : forall B jw hw jr hr (ws : list (list N)) (ns : list N),
  0 < B -> 0 < jw -> 0 < jr ->
  exists s1 s2, do_writes B jw hw (init_w jw) ws = (s1, true) /\
    w_close B jw hw (fun _ => false) s1 false false = (s2, false) /\
    fst (do_reads B jr hr (init_r (map FData (map snd (w_out s2)) ++ [FEnd])) ns) = spec_reads (concat ws) ns.
Proof. intros B jw hw jr hr ws ns HB. exact (stream_roundtrip_model B HB jw hw jr hr ws ns). Qed.
Print Assumptions C01_stream_roundtrip.

Example C01_witness :
  let ws := [[1;2;3]; []; [4;5;6;7;8;9;10]; [11]] in
  match do_writes 4 3 1 (init_w 3) ws with
  | (s1, true) => map snd (w_out (fst (w_close 4 3 1 (fun _ => false) s1 false false))) = [[1;2;3;4];[5;6;7;8];[9;10;11]]
  | _ => False
  end.
Proof. vm_compute. reflexivity. Qed.

(* ---------- the stream header ---------- *)
From KV Require Import Model.OutBS Model.InBS Model.Header Proofs.OutBSProofs Proofs.InBSProofs Proofs.MirrorProofs Proofs.HeaderProofs.

(* writeHeader then readHeader (format version 6), for every valid configuration (checksum kind,
   entropy and transform types accepted by GetName, block size, size hint), whatever the Writer
   writes after the header, every buffer size on both sides and chunk schedule of the source: the
   header is accepted with the same fields (a hint of 0 or >= 2^48 reads back as absent) and the
   rest of the stream is read exactly as written *)
Theorem C01_header_roundtrip : forall (evalid tvalid : N -> bool) wbuf rbuf sched c rest_ops,
  cfg_ok evalid tvalid c -> (16 <= wbuf)%N -> (0 < rbuf)%N -> Forall wop_ok rest_ops ->
  exists s1 s2 s', run_wops (new_obs wbuf) (field_ops (header_fields c) ++ rest_ops) = (s1, false) /\
    close healthy s1 = (s2, false) /\
    read_header evalid tvalid (new_ibs rbuf (mkSrc (o_out s2) sched None 0)) = (s', HOk (norm_cfg c)) /\
    run_rops s' (rops_of rest_ops) = vals_of rest_ops.
Proof. exact header_roundtrip. Qed.
Print Assumptions C01_header_roundtrip.

Example C01_header_instance :
  let c := mkH 1 3 (2 * 2 ^ 42 + 5 * 2 ^ 36)%N 4194304 100000 in
  match run_wops (new_obs 64) (field_ops (header_fields c) ++ [WBits 1 1; WBits 0 5]) with
  | (s1, false) => match close healthy s1 with
     | (s2, false) => length (o_out s2) = 25%nat /\
         snd (read_header (fun _ => true) (fun _ => true) (new_ibs 16 (mkSrc (o_out s2) [1; 7; 2]%N None 0))) = HOk c
     | _ => False end
  | _ => False
  end.
Proof. vm_compute. split; reflexivity. Qed.

(* ---------- a whole stream of the NONE / NONE pipeline, down to the bits ---------- *)
From KV Require Import Model.Container Proofs.ContainerProofs.
From Coq Require Import Lia.

(* header, one frame per block (5-bit width, bit length, the block's own closed bit stream: mode byte,
   length, optional checksum, the bytes), end marker - written through the bit-stream model and parsed
   back by the reader model: for every valid configuration, every list of non-empty blocks of at most
   the block size (up to its maximum of 1 GiB: blocks above 8 MiB go through several arrays of the NONE coder, block streams above 2^30 bits through several arrays of the frame), any checksum function of the right width, any read-buffer size
   (multiple of 8) and chunk schedule of the source, the reader gets the same configuration and exactly
   the blocks, in order, then the end marker.  Nothing is assumed about a codec here: the stages are the
   identity and everything else is modelled. *)
Theorem C01_container_roundtrip : forall (hash : list N -> N) (evalid tvalid : N -> bool) c,
  cfg_ok evalid tvalid c ->
  (h_ck c = 1%N -> forall l, (hash l < 2 ^ 32)%N) -> (h_ck c = 2%N -> forall l, (hash l < 2 ^ 64)%N) ->
  forall blocks nframes rbuf sched,
  Forall (blk_ok (h_bsize c)) blocks -> (length blocks < nframes)%nat -> (0 < rbuf)%N -> (rbuf mod 8 = 0)%N ->
  parse_stream hash evalid tvalid nframes rbuf sched (write_stream hash c blocks) = Some (norm_cfg c, map PData blocks ++ [PEnd]).
Proof. exact container_roundtrip. Qed.
Print Assumptions C01_container_roundtrip.

(* the hypotheses are met, and the statement is not about an empty stream: a concrete run *)
Example C01_container_instance :
  let hash := fun l : list N => (fold_left N.add l 7 mod 2 ^ 32)%N in
  let c := mkH 1 0 0 1024 0 in
  let blocks := [[1; 2; 3]; [255; 0; 254; 9; 8; 7; 6; 5; 4; 3; 2; 1; 0; 11; 12; 13; 14; 15; 16; 17]; [42]]%N in
  cfg_ok (fun _ => true) (fun _ => true) c /\ Forall (blk_ok 1024) blocks /\
  length (write_stream hash c blocks) = 68%nat /\
  parse_stream hash (fun _ => true) (fun _ => true) 10 16 [3; 1; 5]%N (write_stream hash c blocks) = Some (c, map PData blocks ++ [PEnd]).
Proof.
  cbv zeta. split; [constructor; cbn; repeat split; try reflexivity; try lia; discriminate|].
  split; [repeat constructor; cbn; try discriminate; try lia|].
  vm_compute. split; reflexivity.
Qed.

(* ---------- Write calls -> bytes of the stream -> Read calls, composed ---------- *)
From KV Require Import Proofs.BinCoderProofs Proofs.EndToEnd.
(* The Writer state machine cuts the data of any sequence of Write calls into blocks; the container
   model turns them into the bytes of the compressed stream; the reader models parse those bytes (any
   buffer size, any short-read schedule of the source) and the Reader state machine serves any sequence
   of Read calls from the frames: the caller gets back exactly what was written, then end of stream.
   NONE / NONE pipeline, every block size, every job count and size hint on both sides. *)
Theorem C01_end_to_end_none : forall (hash : list N -> N) (evalid tvalid : N -> bool) c jw hw jr hr
    (ws : list (list N)) (ns : list N) nframes rbuf sched,
  cfg_ok evalid tvalid c ->
  (h_ck c = 1%N -> forall l, (hash l < 2 ^ 32)%N) -> (h_ck c = 2%N -> forall l, (hash l < 2 ^ 64)%N) ->
  bytes_ok (concat ws) -> (length (concat ws) < nframes)%nat ->
  (0 < jw)%N -> (0 < jr)%N -> (0 < rbuf)%N -> (rbuf mod 8 = 0)%N ->
  let B := h_bsize c in
  exists s1 s2 frames,
    do_writes B jw hw (init_w jw) ws = (s1, true) /\
    w_close B jw hw (fun _ => false) s1 false false = (s2, false) /\
    parse_stream hash evalid tvalid nframes rbuf sched (write_stream hash c (map snd (w_out s2))) = Some (norm_cfg c, frames) /\
    fst (do_reads B jr hr (init_r (map frame_of frames)) ns) = spec_reads (concat ws) ns.
Proof. exact end_to_end_none. Qed.
Print Assumptions C01_end_to_end_none.

(* ---------- with the checksums of the code (XXHash32 / XXHash64, Model/XXHash.v): no hypothesis on the hash left ---------- *)
From KV Require Import Model.XXHash Proofs.XXHashProofs.
Theorem C01_end_to_end_none_xxhash : forall (evalid tvalid : N -> bool) c jw hw jr hr
    (ws : list (list N)) (ns : list N) nframes rbuf sched,
  cfg_ok evalid tvalid c ->
  bytes_ok (concat ws) -> (length (concat ws) < nframes)%nat ->
  (0 < jw)%N -> (0 < jr)%N -> (0 < rbuf)%N -> (rbuf mod 8 = 0)%N ->
  let B := h_bsize c in let hash := block_hash (h_ck c) in
  exists s1 s2 frames,
    do_writes B jw hw (init_w jw) ws = (s1, true) /\
    w_close B jw hw (fun _ => false) s1 false false = (s2, false) /\
    parse_stream hash evalid tvalid nframes rbuf sched (write_stream hash c (map snd (w_out s2))) = Some (norm_cfg c, frames) /\
    fst (do_reads B jr hr (init_r (map frame_of frames)) ns) = spec_reads (concat ws) ns.
Proof.
  intros evalid tvalid c jw hw jr hr ws ns nframes rbuf sched Hc.
  exact (end_to_end_none (block_hash (h_ck c)) evalid tvalid c jw hw jr hr ws ns nframes rbuf sched Hc
           (block_hash_32 (h_ck c)) (block_hash_64 (h_ck c))).
Qed.
Print Assumptions C01_end_to_end_none_xxhash.

(* ---------- entropy RANGE: a stream whose blocks are coded by the range codec (C12_range_codec_roundtrip inside) ---------- *)
(* Model/ContainerG.v: the frames and the stream for any inner image / parser, and the inner pair of the NONE transform +
   RANGE entropy pipeline (blocks of at most 15 bytes take the copy path).  For every valid configuration whose entropy
   field says RANGE, every list of blocks (non-empty, within the block size, byte values) whose frames fit the frame size
   the reader accepts, any checksum mode, any buffer size and source schedule on the reading side: parsing what the writer
   model produced returns the configuration and exactly the blocks.  The frame-size premise is the one thing not proved
   about the range coder here (it never expands data by the factor that would be needed; the bound is a premise). *)
From KV Require Import Model.RangeCodec Model.ContainerG Proofs.ContainerGProofs Proofs.EndToEndRange.
Theorem C01_container_range_roundtrip : forall (hash : list N -> N) (evalid tvalid : N -> bool) c,
  cfg_ok evalid tvalid c ->
  (h_ck c = 1%N -> forall l, (hash l < 2 ^ 32)%N) -> (h_ck c = 2%N -> forall l, (hash l < 2 ^ 64)%N) ->
  h_etype c = RANGE_TYPE ->
  forall blocks nframes rbuf sched,
  Forall (good_r hash (h_ck c) (h_bsize c)) blocks -> (length blocks < nframes)%nat -> (0 < rbuf)%N -> (rbuf mod 8 = 0)%N ->
  parse_stream_e hash evalid tvalid nframes rbuf sched (write_stream_e hash c blocks) = Some (norm_cfg c, map PData blocks ++ [PEnd]).
Proof. exact container_range_roundtrip. Qed.
Print Assumptions C01_container_range_roundtrip.

(* ... and from the caller's Write calls to the caller's Read calls, with the checksums of the code *)
Theorem C01_end_to_end_range_xxhash : forall (evalid tvalid : N -> bool) c jw hw jr hr
    (ws : list (list N)) (ns : list N) nframes rbuf sched,
  cfg_ok evalid tvalid c -> h_etype c = RANGE_TYPE ->
  bytes_ok (concat ws) -> (length (concat ws) < nframes)%nat ->
  (0 < jw)%N -> (0 < jr)%N -> (0 < rbuf)%N -> (rbuf mod 8 = 0)%N ->
  let B := h_bsize c in let hash := block_hash (h_ck c) in
  Forall (fun b => (snd (inner_image_r hash (h_ck c) b) <= 8589934696)%N) (chunks B (concat ws)) ->
  exists s1 s2 frames,
    do_writes B jw hw (init_w jw) ws = (s1, true) /\
    w_close B jw hw (fun _ => false) s1 false false = (s2, false) /\
    parse_stream_e hash evalid tvalid nframes rbuf sched (write_stream_e hash c (map snd (w_out s2))) = Some (norm_cfg c, frames) /\
    fst (do_reads B jr hr (init_r (map frame_of frames)) ns) = spec_reads (concat ws) ns.
Proof.
  intros evalid tvalid c jw hw jr hr ws ns nframes rbuf sched Hc Het.
  exact (end_to_end_range (block_hash (h_ck c)) evalid tvalid c jw hw jr hr ws ns nframes rbuf sched Hc Het
           (block_hash_32 (h_ck c)) (block_hash_64 (h_ck c))).
Qed.
Print Assumptions C01_end_to_end_range_xxhash.

(* ... and for block sizes up to 128 MiB the frame-size premise is a theorem (Proofs/RangeSizeProofs.v: the normalisation loop
   shifts at most twice per byte, a chunk header has fewer than 4617 bits), so nothing is left but the configuration *)
From KV Require Import Proofs.RangeSizeProofs Proofs.EndToEndRangeFits.
Theorem C01_end_to_end_range_128M_xxhash : forall (evalid tvalid : N -> bool) c jw hw jr hr
    (ws : list (list N)) (ns : list N) nframes rbuf sched,
  cfg_ok evalid tvalid c -> h_etype c = RANGE_TYPE -> (h_bsize c <= 134217728)%N ->
  bytes_ok (concat ws) -> (length (concat ws) < nframes)%nat ->
  (0 < jw)%N -> (0 < jr)%N -> (0 < rbuf)%N -> (rbuf mod 8 = 0)%N ->
  let B := h_bsize c in let hash := block_hash (h_ck c) in
  exists s1 s2 frames,
    do_writes B jw hw (init_w jw) ws = (s1, true) /\
    w_close B jw hw (fun _ => false) s1 false false = (s2, false) /\
    parse_stream_e hash evalid tvalid nframes rbuf sched (write_stream_e hash c (map snd (w_out s2))) = Some (norm_cfg c, frames) /\
    fst (do_reads B jr hr (init_r (map frame_of frames)) ns) = spec_reads (concat ws) ns.
Proof.
  intros evalid tvalid c jw hw jr hr ws ns nframes rbuf sched Hc Het Hbs.
  exact (end_to_end_range_128 (block_hash (h_ck c)) evalid tvalid c jw hw jr hr ws ns nframes rbuf sched Hc Het Hbs
           (block_hash_32 (h_ck c)) (block_hash_64 (h_ck c))).
Qed.
Print Assumptions C01_end_to_end_range_128M_xxhash.

Theorem C01_container_range_roundtrip_128M : forall (hash : list N -> N) (evalid tvalid : N -> bool) c blocks nframes rbuf sched,
  cfg_ok evalid tvalid c -> h_etype c = RANGE_TYPE -> (h_bsize c <= 134217728)%N ->
  (h_ck c = 1%N -> forall l, (hash l < 2 ^ 32)%N) -> (h_ck c = 2%N -> forall l, (hash l < 2 ^ 64)%N) ->
  Forall (blk_ok (h_bsize c)) blocks -> (length blocks < nframes)%nat -> (0 < rbuf)%N -> (rbuf mod 8 = 0)%N ->
  parse_stream_e hash evalid tvalid nframes rbuf sched (write_stream_e hash c blocks) = Some (norm_cfg c, map PData blocks ++ [PEnd]).
Proof. exact container_range_roundtrip_128. Qed.
Print Assumptions C01_container_range_roundtrip_128M.

(* the premises are satisfiable, and the model runs: one checksummed RANGE stream of one 26-byte block *)
Example C01_range_stream_instance :
  let blk := [104; 101; 108; 108; 111; 32; 104; 101; 108; 108; 111; 32; 119; 111; 114; 108; 100; 33; 33; 33; 0; 255; 104; 104; 101; 101]%N in
  let c := mkH 1 4 0 1024 26 in
  (snd (inner_image_r (block_hash 1) 1 blk) <=? 8589934696)%N = true /\
  parse_stream_e (block_hash 1) (fun _ => true) (fun _ => true) 3 64 [5; 3; 0]%N (write_stream_e (block_hash 1) c [blk])
    = Some (norm_cfg c, [PData blk; PEnd]).
Proof. vm_compute. split; reflexivity. Qed.

(* one statement for both modelled pipelines (entropy NONE or RANGE; RANGE with block sizes up to 128 MiB): for entropy NONE
   write_stream_e / parse_stream_e are the functions of Model/Container.v *)
From KV Require Import Proofs.ContainerEProofs.
Theorem C01_container_e_roundtrip : forall (hash : list N -> N) (evalid tvalid : N -> bool) c blocks nframes rbuf sched,
  cfg_ok evalid tvalid c -> (h_etype c = RANGE_TYPE -> (h_bsize c <= 134217728)%N) ->
  (h_ck c = 1%N -> forall l, (hash l < 2 ^ 32)%N) -> (h_ck c = 2%N -> forall l, (hash l < 2 ^ 64)%N) ->
  Forall (blk_ok (h_bsize c)) blocks -> (length blocks < nframes)%nat -> (0 < rbuf)%N -> (rbuf mod 8 = 0)%N ->
  parse_stream_e hash evalid tvalid nframes rbuf sched (write_stream_e hash c blocks) = Some (norm_cfg c, map PData blocks ++ [PEnd]).
Proof. exact container_e_roundtrip. Qed.
Print Assumptions C01_container_e_roundtrip.
