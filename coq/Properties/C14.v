(* C14 — Bitstream writer and reader are exact mirrors for every operation sequence.
   Statements only; each closed by [exact] and audited.  The bit vector is represented
   numerically: a stream of L bits with big-endian value V.  [oval]/[onbits] are the value
   and length of everything written so far (delivered bytes, buffered bytes, accumulator). *)
From Coq Require Import List NArith ZArith.
From KV Require Import Model.OutBS Proofs.OutBSProofs.
Import ListNotations.
Open Scope N_scope.

(* WriteBits appends exactly the [c] low-order bits of [v], for every reachable state *)
Theorem C14_write_bits : forall s v c, WF s -> c <= 64 ->
  exists s', write_bits healthy s v c = (s', false) /\ WF s' /\
    oval s' = oval s * 2 ^ c + v mod 2 ^ c /\ onbits s' = onbits s + c /\
    o_out s' ++ o_buf s' = obytes s'.
Proof. exact write_bits_spec. Qed.
Print Assumptions C14_write_bits.

Theorem C14_write_bit : forall s b, WF s ->
  exists s', write_bit healthy s b = (s', false) /\ WF s' /\
    oval s' = oval s * 2 + b mod 2 /\ onbits s' = onbits s + 1.
Proof. exact write_bit_spec. Qed.
Print Assumptions C14_write_bit.

(* every finite program over WriteBit/WriteBits, any buffer size >= 16, then Close:
   the counter equals the sum of the operation sizes, the byte image is the big-endian
   concatenation of the written bits padded with fewer than 8 zero bits *)
Theorem C14_writer_image : forall bufsize ops, 16 <= bufsize -> Forall wop_ok ops ->
  exists s1 s2 pad V L,
    run_wops (new_obs bufsize) ops = (s1, false) /\ close healthy s1 = (s2, false) /\
    (V, L) = fold_left bv_app ops (0, 0) /\
    o_closed s2 = true /\ pad < 8 /\
    8 * N.of_nat (length (o_out s2)) = L + pad /\
    be_val (o_out s2) = V * 2 ^ pad /\
    written s2 = Z.of_N L.
Proof. exact writer_image. Qed.
Print Assumptions C14_writer_image.

(* the counter equals the number of bits written at every step of every program *)
Theorem C14_counter_every_step : forall ops s, WF s -> Forall wop_ok ops ->
  exists s', run_wops s ops = (s', false) /\ WF s' /\
    (oval s', onbits s') = fold_left bv_app ops (oval s, onbits s) /\
    written s' = Z.of_N (onbits s').
Proof. exact writer_program. Qed.
Print Assumptions C14_counter_every_step.

(* closed streams refuse every operation (whatever the sink does) and Written() does not move *)
Theorem C14_closed_refuses : forall f s, closed_state s ->
  (forall b, exists s', write_bit f s b = (s', true) /\ closed_state s' /\ written s' = written s) /\
  (forall v c, exists s', write_bits f s v c = (s', true) /\ closed_state s' /\ written s' = written s) /\
  (forall bits c, write_array f s bits c = (s, true)) /\
  close f s = (s, false).
Proof. exact closed_refuses. Qed.
Print Assumptions C14_closed_refuses.

(* non-vacuity: a concrete program reaches the interesting branches (push with split word) *)
Example C14_witness :
  let ops := [WBits 5 3; WBit 1; WBits 18446744073709551615 64; WBits 123456789 40] in
  fold_left bv_app ops (0, 0) = (11 * 2 ^ 104 + (2 ^ 64 - 1) * 2 ^ 40 + 123456789, 108).
Proof. vm_compute. reflexivity. Qed.

(* ---------- the read side and the mirror ---------- *)
From KV Require Import Model.InBS Proofs.BinCoderProofs Proofs.InBSProofs Proofs.MirrorProofs.

(* every program of ReadBit / ReadBits, from every reachable state of the input stream: the values
   are the next bits of the unread bit vector (accumulator bits, buffered bytes, bytes still in the
   source - whatever chunk sizes the source delivers); a read past the end raises *)
Theorem C14_reader_program : forall ops s, AInv s -> Forall rop_ok ops ->
  run_rops s ops = spec_rops (uval s) (total s) ops.
Proof. exact reader_program. Qed.
Print Assumptions C14_reader_program.

(* what WriteBit / WriteBits wrote and Close flushed is what ReadBit / ReadBits return, for every
   program, buffer sizes on both sides and chunk schedule of the source *)
Theorem C14_mirror : forall wbuf rbuf sched ops, 16 <= wbuf -> 0 < rbuf -> Forall wop_ok ops ->
  exists s1 s2, run_wops (new_obs wbuf) ops = (s1, false) /\ close healthy s1 = (s2, false) /\
    run_rops (new_ibs rbuf (mkSrc (o_out s2) sched None 0)) (rops_of ops) = vals_of ops.
Proof. exact bitstream_mirror. Qed.
Print Assumptions C14_mirror.

Example C14_mirror_instance :
  let ops := [WBits 5 3; WBit 1; WBits 0 0; WBits 123456789 31; WBits 18446744073709551615 64; WBit 0] in
  match run_wops (new_obs 16) ops with
  | (s1, false) => match close healthy s1 with
                   | (s2, false) => run_rops (new_ibs 8 (mkSrc (o_out s2) [3; 1; 2] None 0)) (rops_of ops) =
                                    [Some 5; Some 1; Some 123456789; Some 18446744073709551615; Some 0]
                   | _ => False end
  | _ => False
  end.
Proof. vm_compute. reflexivity. Qed.

(* ---------- WriteArray ---------- *)
From KV Require Import Proofs.ArrayProofs.

(* every path of WriteArray (byte loop, bulk copies into the buffer, 256-bit and 64-bit combining
   loops, tail) appends exactly the first [count] bits of the byte string, in every reachable state *)
Theorem C14_write_array : forall s bits count, AWF s -> bytes_ok bits -> 0 < count -> count <= 8 * N.of_nat (length bits) ->
  exists s', write_array healthy s bits count = (s', false) /\ AWF s' /\
    oval s' = oval s * 2 ^ count + topbits bits count /\ onbits s' = onbits s + count.
Proof. exact write_array_spec. Qed.
Print Assumptions C14_write_array.

(* every program over WriteBit / WriteBits / WriteArray, any buffer size (multiple of 8, at least
   40), then Close: the byte image is the concatenation of what was written, padded with < 8 zero bits,
   and Written() is the number of bits written *)
Theorem C14_array_image : forall bufsize ops, 40 <= bufsize -> bufsize mod 8 = 0 -> Forall aop_ok ops ->
  exists s1 s2 pad V L,
    run_aops (new_obs bufsize) ops = (s1, false) /\ close healthy s1 = (s2, false) /\
    (V, L) = fold_left abv_app ops (0, 0) /\
    o_closed s2 = true /\ pad < 8 /\
    8 * N.of_nat (length (o_out s2)) = L + pad /\
    be_val (o_out s2) = V * 2 ^ pad /\
    written s2 = Z.of_N L.
Proof. exact array_image. Qed.
Print Assumptions C14_array_image.

Example C14_array_instance :
  let ops := [AOp (WBits 5 3); AArr [171; 205; 239; 1; 35; 69; 103; 137; 154; 188; 222; 240] 93; AOp (WBit 1); AArr [255; 0; 255] 24] in
  match run_aops (new_obs 40) ops with
  | (s1, false) => match close healthy s1 with
                   | (s2, false) => o_out s2 = [181; 121; 189; 224; 36; 104; 172; 241; 51; 87; 155; 222; 255; 128; 127; 128] /\ written s2 = 121%Z
                   | _ => False end
  | _ => False
  end.
Proof. vm_compute. split; reflexivity. Qed.

(* ---------- ReadArray and the full mirror ---------- *)
From KV Require Import Proofs.ReadArrayProofs Proofs.MirrorArrayProofs.

(* every path of ReadArray (byte loop, bulk copies out of the buffer with refills, 256-bit and 64-bit
   combining loops, tail), in every reachable state of a stream whose buffer holds whole words, for
   every chunk schedule of the source: exactly the next [count] bits, packed in bytes *)
Theorem C14_read_array : forall s count, RA s -> 0 < count -> count <= total s ->
  exists s', read_array s count = (s', Val (bytes_of (uval s) (total s) count)) /\ RA s' /\
    total s' = total s - count /\ uval s' = uval s mod 2 ^ (total s - count).
Proof. exact read_array_spec. Qed.
Print Assumptions C14_read_array.

(* the whole property: any program over WriteBit / WriteBits / WriteArray, closed, read back with
   ReadBit / ReadBits / ReadArray of the same sizes, through any chunk schedule of the source and any
   buffer sizes (multiples of 8; at least 40 for the writer) returns what was written *)
Theorem C14_mirror_all_operations : forall wbuf rbuf sched ops,
  40 <= wbuf -> wbuf mod 8 = 0 -> 0 < rbuf -> rbuf mod 8 = 0 -> Forall aop_ok ops ->
  exists s1 s2, run_aops (new_obs wbuf) ops = (s1, false) /\ close healthy s1 = (s2, false) /\
    run_arops (new_ibs rbuf (mkSrc (o_out s2) sched None 0)) (arops_of ops) = avals_of ops.
Proof. exact bitstream_mirror_arrays. Qed.
Print Assumptions C14_mirror_all_operations.

Example C14_mirror_all_instance :
  let ops := [AOp (WBits 5 3); AArr [171; 205; 239; 1; 35; 69; 103; 137; 154; 188; 222; 240] 93; AOp (WBit 1); AArr [255; 0; 255] 24] in
  match run_aops (new_obs 40) ops with
  | (s1, false) => match close healthy s1 with
                   | (s2, false) => run_arops (new_ibs 8 (mkSrc (o_out s2) [3; 1; 2; 5] None 0)) (arops_of ops) =
                       [Some (AVal 5); Some (ABytes [171; 205; 239; 1; 35; 69; 103; 137; 154; 188; 222; 240]); Some (AVal 1); Some (ABytes [255; 0; 255])]
                   | _ => False end
  | _ => False
  end.
Proof. vm_compute. reflexivity. Qed.

(* ---------- the reader never makes bits up ---------- *)
From KV Require Import Proofs.EosProofs.
(* a ReadBits / ReadArray that succeeds has consumed exactly its number of bits of the data that was there (so the
   counter of unread bits goes down by the size of the operation at every step), and one that asks for more than
   what is left panics - on every path, for every buffer size and short-read schedule *)
Theorem C14_successful_reads_consume_real_bits : forall s count,
  RA s ->
  (forall s' l, 0 < count -> read_array s count = (s', Val l) -> count <= total s /\ RA s' /\ total s = total s' + count) /\
  (forall s' v, 1 <= count <= 64 -> read_bits s count = (s', Val v) -> count <= total s /\ RA s' /\ total s = total s' + count) /\
  (total s < count -> exists s' e, read_array s count = (s', Pan e)).
Proof.
  intros s count HR. split; [intros s' l Hc E; exact (read_array_acc s count s' l HR Hc E)|].
  split; [intros s' v Hc E; exact (read_bits_acc s count s' v HR Hc E)|]. intros Ht. exact (read_array_eos s count HR Ht).
Qed.
Print Assumptions C14_successful_reads_consume_real_bits.
