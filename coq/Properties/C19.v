(* C19 — command-line tool: the part that is logic.  The level table of the current sources
   (Gen/Levels.v) only names codecs the factories know (Gen/Names.v), with chains of at most 8
   transforms: every level yields a configuration the writer accepts. The file-system behaviour
   (no clobber, no write to the input, removal only after a complete output, kill points) is
   exercised on the built binary by the harness. *)
From Coq Require Import List ZArith String Bool.
From KV Require Import Model.Names Gen.Names Gen.Levels.
Import ListNotations.

Definition level_ok (l : Z * (string * string)) : bool :=
  match get_type transform_type_of_name true (fst (snd l)), get_etype entropy_type_of_name true (snd (snd l)) with
  | Some _, Some _ => true
  | _, _ => false
  end.

Theorem C19_levels_wellformed : forallb level_ok levels = true /\ List.length levels = 10%nat.
Proof. split; exact (eq_refl _). Qed.
Print Assumptions C19_levels_wellformed.
