(* C16 — Frequency scaling always yields a valid table.
   This file contains only the property statements, closed by [exact], and their
   assumption audit. *)
From Coq Require Import List ZArith Bool Sorted.
From KV Require Import Lib.ListX Model.Normalize Proofs.NormalizeProofs.
Import ListNotations.
Open Scope Z_scope.

Theorem C16_normalize_valid : forall freqs total scale,
  length freqs = 256%nat -> Forall (fun x => 0 <= x) freqs ->
  total = sumz freqs -> 0 < total -> 256 <= scale <= 65536 ->
  exists fr al, normalize freqs total scale = Some (fr, al) /\
    sumz fr = scale /\
    length fr = 256%nat /\
    (forall j, (j < 256)%nat ->
       (getz freqs j = 0 -> getz fr j = 0) /\ (0 < getz freqs j -> 1 <= getz fr j)) /\
    al = filter (fun i => negb (getz freqs i =? 0)) (seq 0 256) /\
    StronglySorted lt al.
Proof. exact normalize_valid. Qed.
Print Assumptions C16_normalize_valid.

(* non-vacuity: the histogram that broke the unrepaired code (212 x 1 + 44 x 2, scale 256) *)
Example C16_witness :
  let freqs := repeat 1 212 ++ repeat 2 44 in
  match normalize freqs 300 256 with
  | Some (fr, al) => sumz fr = 256 /\ length al = 256%nat
  | None => False
  end.
Proof. exact normalize_witness. Qed.
