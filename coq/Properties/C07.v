(* C07 — Block hand-off protocol: exclusive, ordered, always terminating.
   The theorems hold for BOTH sides (sd = Enc, Dec), EVERY number of tasks n, EVERY schedule
   (list of (task, environment outcome) pairs), hence for a failure at any step of any task,
   end-of-stream and skipped outcomes included.  [reachable] = any state the protocol can reach
   from the initial state of a batch whose first id is first+1 (first >= 0 as in the Go code). *)
From Coq Require Import List ZArith Bool.
From KV Require Import Lib.ListX Model.Handoff Proofs.HandoffProofs.
Import ListNotations.
Open Scope Z_scope.

(* exclusive: at most one task owns the shared stream *)
Theorem C07_mutex : forall sd first n s i j ti tj, 0 <= first -> reachable sd first n s ->
  nth_error (ts s) i = Some ti -> nth_error (ts s) j = Some tj ->
  t_pc ti = Hold -> t_pc tj = Hold -> i = j.
Proof. intros sd first n s i j ti tj H R. exact (mutex sd first s i j ti tj (reachable_Inv _ _ _ _ H R)). Qed.
Print Assumptions C07_mutex.

(* ordered: the shared accesses are first+1, first+2, ... without gap or repeat *)
Theorem C07_ordered : forall sd first n s, 0 <= first -> reachable sd first n s ->
  exists k, log s = map (id_of first) (seq 0 k).
Proof. intros sd first n s H R. exact (ordered sd first s (reachable_Inv _ _ _ _ H R)). Qed.
Print Assumptions C07_ordered.

(* every task finishes: a natural-number measure never increases, strictly decreases on every
   step that is not a spin iteration, and in every non-final reachable state some task has a
   non-spin step enabled (no deadlock, no lost wake-up) *)
Theorem C07_no_infinite_work : forall sd first s i o s', step sd true first s i o = Some s' ->
  s' = s \/ (measure s' < measure s)%nat.
Proof. exact stutter_or_decrease. Qed.
Print Assumptions C07_no_infinite_work.

Theorem C07_progress : forall sd first n s, 0 <= first -> reachable sd first n s -> all_done s = false ->
  exists i o s', step sd true first s i o = Some s' /\ (measure s' < measure s)%nat.
Proof. intros sd first n s H R. exact (progress sd first H s (reachable_Inv _ _ _ _ H R)). Qed.
Print Assumptions C07_progress.

(* when any task fails all others stop: once the cancel value is stored, no schedule makes the
   counter leave it and nobody accesses the shared stream again *)
Theorem C07_cancel_respected : forall sd first n s sched, 0 <= first -> reachable sd first n s -> cnt s = -1 ->
  cnt (exec sd true first s sched) = -1 /\ log (exec sd true first s sched) = log s.
Proof. intros sd first n s sched H R. exact (cancel_respected_exec sd first H sched s (reachable_Inv _ _ _ _ H R)). Qed.
Print Assumptions C07_cancel_respected.

(* the failure is reported: the in-order result scan of processBlock returns an error as soon
   as some task recorded one — that of the smallest failed id *)
Theorem C07_failure_reported : forall s j t, nth_error (ts s) j = Some t -> t_err t = true ->
  exists k tk, first_error s = Some k /\ (k <= j)%nat /\ nth_error (ts s) k = Some tk /\ t_err tk = true /\
    forall m tm, (m < k)%nat -> nth_error (ts s) m = Some tm -> t_err tm = false.
Proof. exact failure_reported. Qed.
Print Assumptions C07_failure_reported.

(* concurrent = sequential: a completed, uncancelled run accessed the stream once per task in id order *)
Theorem C07_complete_run_sequential : forall sd first n s, 0 <= first -> reachable sd first n s ->
  all_done s = true -> cnt s <> -1 ->
  log s = map (id_of first) (seq 0 (length (ts s))) /\ cnt s = first + Z.of_nat (length (ts s)).
Proof. intros sd first n s H R. exact (complete_run_sequential sd first H s (reachable_Inv _ _ _ _ H R)). Qed.
Print Assumptions C07_complete_run_sequential.

(* REFUTED variant (the code before fix 0645480): with a plain store at the publish step the
   cancel can be overwritten: t0 reads, publishes and fails locally (cancel), t1 - already
   holding the stream - publishes over the cancel, t2 then accesses the stream. *)
Theorem C07_store_publish_refuted : exists sched,
  let s := exec Dec false 0 (init Dec 0 3) sched in
  exists s0 r, exec Dec false 0 (init Dec 0 3) (firstn r sched) = s0 /\ cnt s0 = -1 /\
               cnt s <> -1 /\ length (log s) = 3%nat.
Proof. exact store_publish_refuted. Qed.
Print Assumptions C07_store_publish_refuted.

(* non-vacuity: a 3-task decode batch where the middle task fails locally is reachable,
   ends with the counter cancelled and reports task 1 *)
Example C07_witness :
  let s := exec Dec true 0 (init Dec 0 3)
     [(0%nat,Good);(0%nat,Good);(0%nat,Good);(1%nat,Good);(1%nat,Good);(1%nat,Good);(1%nat,Fail);(1%nat,Good);
      (2%nat,Good);(2%nat,Good);(0%nat,Good);(0%nat,Good);(2%nat,Good);(2%nat,Good);(2%nat,Good);(2%nat,Good)] in
  cnt s = -1 /\ first_error s = Some 1%nat /\ all_done s = true.
Proof. vm_compute. repeat split. Qed.
