(* Arithmetic view of the 64-bit word operations used by the bit stream models. *)
From Coq Require Import List NArith ZArith Lia ZifyN ZifyNat.
From KV Require Import Model.OutBS.
Import ListNotations.
Open Scope N_scope.

Lemma mask64_eq : mask64 = N.ones 64.
Proof. reflexivity. Qed.

Lemma pow2_pos n : 0 < 2 ^ n.
Proof. apply N.neq_0_lt_0, N.pow_nonzero. discriminate. Qed.

Lemma pow2_split a b : b <= a -> 2 ^ a = 2 ^ (a - b) * 2 ^ b.
Proof. intros H. rewrite <- N.pow_add_r. f_equal. lia. Qed.

Lemma shl64_spec x n : n < 64 -> shl64 x n = (x * 2 ^ n) mod 2 ^ 64.
Proof.
  intros H. unfold shl64. replace (64 <=? n) with false by (symmetry; apply N.leb_gt; exact H).
  rewrite mask64_eq, N.land_ones, N.shiftl_mul_pow2. reflexivity.
Qed.

Lemma shl64_64 x n : 64 <= n -> shl64 x n = 0.
Proof. intros H. unfold shl64. replace (64 <=? n) with true by (symmetry; apply N.leb_le; exact H). reflexivity. Qed.

Lemma shr64_spec x n : n < 64 -> shr64 x n = x / 2 ^ n.
Proof.
  intros H. unfold shr64. replace (64 <=? n) with false by (symmetry; apply N.leb_gt; exact H).
  apply N.shiftr_div_pow2.
Qed.

Lemma shr64_64 x n : 64 <= n -> shr64 x n = 0.
Proof. intros H. unfold shr64. replace (64 <=? n) with true by (symmetry; apply N.leb_le; exact H). reflexivity. Qed.

(* (x * 2^n) mod 2^64 keeps the low (64-n) bits of x, shifted *)
Lemma mul_pow_mod x n : n <= 64 -> (x * 2 ^ n) mod 2 ^ 64 = (x mod 2 ^ (64 - n)) * 2 ^ n.
Proof.
  intros H. rewrite (pow2_split 64 n H).
  rewrite N.mul_mod_distr_r; [reflexivity| |]; apply N.pow_nonzero; discriminate.
Qed.

(* disjoint or = plus *)
Lemma lor_disjoint a b k : a mod 2 ^ k = 0 -> b < 2 ^ k -> N.lor a b = a + b.
Proof.
  intros Ha Hb.
  assert (Hand : N.land a b = 0).
  { apply N.bits_inj_0. intros i. rewrite N.land_spec.
    destruct (N.lt_ge_cases i k) as [Hi|Hi].
    - assert (N.testbit a i = false).
      { rewrite <- (N.mod_pow2_bits_low a k i Hi), Ha. apply N.bits_0. }
      rewrite H. reflexivity.
    - assert (N.testbit b i = false).
      { destruct (N.eq_dec b 0) as [->|Hb0]; [apply N.bits_0|].
        apply N.bits_above_log2. apply N.log2_lt_pow2; [lia|].
        eapply N.lt_le_trans; [exact Hb|]. apply N.pow_le_mono_r; lia. }
      rewrite H. apply Bool.andb_false_r. }
  rewrite <- N.lxor_lor by exact Hand. symmetry. apply N.add_nocarry_lxor. exact Hand.
Qed.

Lemma be8_length v : length (be8 v) = 8%nat.
Proof. reflexivity. Qed.

Lemma be_val_app a b : be_val (a ++ b) = be_val a * 2 ^ (8 * N.of_nat (length b)) + be_val b.
Proof.
  induction a as [|x t IH]; [cbn [app be_val]; lia|].
  change ((x :: t) ++ b) with (x :: (t ++ b)). cbn [be_val].
  rewrite IH, app_length, Nat2N.inj_add.
  replace (8 * (N.of_nat (length t) + N.of_nat (length b))) with (8 * N.of_nat (length t) + 8 * N.of_nat (length b)) by lia.
  rewrite N.pow_add_r. lia.
Qed.

(* the big-endian bytes of a word carry its value *)
Lemma be_bytes_length k v : length (be_bytes k v) = k.
Proof. revert v; induction k as [|k IH]; intros v; simpl; [reflexivity|]. rewrite app_length, IH. simpl. lia. Qed.

Lemma be_val_be_bytes k v : v < 256 ^ N.of_nat k -> be_val (be_bytes k v) = v.
Proof.
  revert v; induction k as [|k IH]; intros v H.
  - simpl in *. lia.
  - cbn [be_bytes]. rewrite be_val_app. cbn [length be_val N.of_nat].
    rewrite Nat2N.inj_succ, N.pow_succ_r' in H.
    rewrite IH by (apply N.div_lt_upper_bound; lia).
    change (2 ^ (8 * 1)) with 256. change (2 ^ (8 * 0)) with 1.
    pose proof (N.div_mod v 256 ltac:(discriminate)). lia.
Qed.

Lemma be_val_be8 v : v < 2 ^ 64 -> be_val (be8 v) = v.
Proof. intros H. apply (be_val_be_bytes 8). exact H. Qed.
