(* Small list/array library: Go slices of ints as [list Z] with index get/update. *)
From Coq Require Import List ZArith Lia.
Import ListNotations.
Open Scope Z_scope.

Definition getz (l : list Z) (i : nat) : Z := nth i l 0.

Fixpoint upd {A} (l : list A) (i : nat) (v : A) : list A :=
  match l, i with
  | [], _ => []
  | _ :: t, O => v :: t
  | x :: t, S j => x :: upd t j v
  end.

Fixpoint sumz (l : list Z) : Z :=
  match l with [] => 0 | x :: t => x + sumz t end.

Lemma upd_length {A} (l : list A) i v : length (upd l i v) = length l.
Proof. revert i; induction l as [|x t IH]; intros [|j]; simpl; auto. Qed.

Lemma getz_upd_same l i v : (i < length l)%nat -> getz (upd l i v) i = v.
Proof.
  unfold getz. revert i; induction l as [|x t IH]; intros [|j] H; simpl in *; try lia; auto.
  apply IH; lia.
Qed.

Lemma getz_upd_other l i j v : i <> j -> getz (upd l i v) j = getz l j.
Proof.
  unfold getz. revert i j; induction l as [|x t IH]; intros [|i] [|j] H; simpl; auto; try congruence.
Qed.

Lemma sumz_upd l i v : (i < length l)%nat -> sumz (upd l i v) = sumz l - getz l i + v.
Proof.
  unfold getz. revert i; induction l as [|x t IH]; intros [|j] H; simpl in *; try lia.
  rewrite IH by lia. lia.
Qed.

Lemma sumz_app a b : sumz (a ++ b) = sumz a + sumz b.
Proof. induction a as [|x t IH]; simpl; lia. Qed.

Lemma sumz_nonneg l : Forall (fun x => 0 <= x) l -> 0 <= sumz l.
Proof. induction 1; simpl; lia. Qed.

Lemma getz_nonneg l i : Forall (fun x => 0 <= x) l -> 0 <= getz l i.
Proof.
  unfold getz. intros H. destruct (Nat.lt_ge_cases i (length l)) as [Hi|Hi].
  - rewrite Forall_forall in H. apply H. apply nth_In; auto.
  - rewrite nth_overflow by lia. lia.
Qed.

Lemma getz_le_sumz l i : Forall (fun x => 0 <= x) l -> getz l i <= sumz l.
Proof.
  unfold getz. revert i. induction l as [|x t IH]; intros i H; simpl.
  - destruct i; lia.
  - inversion H as [|? ? Hx Ht]; subst. pose proof (sumz_nonneg t Ht).
    destruct i as [|j]; [lia|]. specialize (IH j Ht). lia.
Qed.

Lemma getz_skipn l k j : getz (skipn k l) j = getz l (k + j).
Proof.
  unfold getz. revert l; induction k as [|k IH]; intros l; [reflexivity|].
  destruct l as [|x t]; [destruct j; reflexivity|]. simpl. apply IH.
Qed.
