(* Model of transform/ZRLT.go (zero run length transform), index loops turned into recursion over
   the remaining input; the output buffer is the list built so far plus its capacity.
   Forward: a run of zeros of length r becomes the binary digits of r+1 below its leading 1, as bytes
   0/1, most significant first; 0xFE/0xFF become 0xFF 0/1; any other byte b becomes b+1; the
   transform gives up (error, i.e. declines) as soon as the output would not be smaller than allowed.
   internal.Log2NoCheck is taken to be floor(log2): modelled, compared with the Go code on every run. *)
From Coq Require Import List NArith Bool.
Import ListNotations.
Open Scope N_scope.

Fixpoint count_zeros (l : list N) : nat :=
  match l with v :: t => if v =? 0 then S (count_zeros t) else O | [] => O end.

Definition run_bits (rl : N) (lg : nat) : list N :=
  map (fun k => N.land (N.shiftr rl (N.of_nat k)) 1) (rev (seq 0 lg)).

(* the loop of Forward: [dst_end] = len(src) of the whole block, [out] = dst[0:dstIdx] *)
Fixpoint zfwd_loop (fuel : nat) (src : list N) (dst_end : N) (out : list N) : option (list N) :=
  match fuel with
  | O => None
  | S f =>
    match src with
    | [] => Some out
    | v :: t =>
      let pos := N.of_nat (length out) in
      if v =? 0 then
        let run := count_zeros src in
        let rl := N.of_nat run + 1 in
        let lg := N.log2 rl in
        if dst_end - lg <=? pos then None
        else zfwd_loop f (skipn run src) dst_end (out ++ run_bits rl (N.to_nat lg))
      else if 254 <=? v then
        if dst_end - 1 <=? pos then None else zfwd_loop f t dst_end (out ++ [255; v - 254])
      else
        if dst_end <=? pos then None else zfwd_loop f t dst_end (out ++ [v + 1])
    end
  end.

(* Forward(src, dst): None = error (empty input is "nothing to do", reported as Some []) *)
Definition zfwd (src : list N) (dcap : N) : option (list N) :=
  match src with
  | [] => Some []
  | _ => if dcap =? 0 then Some [] else
         if dcap <? N.of_nat (length src) then None
         else zfwd_loop (S (length src)) src (N.of_nat (length src)) []
  end.

(* inner loop of Inverse: accumulate the run length while the symbols are 0/1 *)
Fixpoint read_run (rl : N) (src : list N) : N * list N :=
  match src with
  | v :: t => if v <=? 1 then read_run (2 * rl + v) t else (rl, src)
  | [] => (rl, [])
  end.

Definition zeros (n : N) : list N := repeat 0 (N.to_nat n).

(* the optional run at the head of an iteration of Inverse: finished (inl result, None = error) or
   go on with the regular symbol (inr (src, out)) *)
Definition run_part (src out : list N) (dcap : N) : option (list N) + (list N * list N) :=
  match src with
  | [] => inr (src, out)
  | v :: _ =>
    let room := dcap - N.of_nat (length out) in
    if v <=? 1 then
      let '(rl, rest) := read_run 1 src in
      let z := rl - 1 in
      match rest with
      | [] => (* goto End with runLength = rl *)
          if 0 <? rl then (if room <? z then inl None else inl (Some (out ++ zeros z))) else inl (Some out)
      | _ => if room <=? z then inl None          (* break with input left: error *)
             else inr (rest, out ++ zeros z)
      end
    else inr (src, out)
  end.

(* the regular symbol; None: 0xFF was the last symbol (break, nothing left, no error) *)
Definition lit_part (src out : list N) : option (list N * list N) :=
  match src with
  | [] => None
  | w :: t =>
    if w =? 255 then match t with [] => None | x :: t' => Some (t', out ++ [(254 + x) mod 256]) end
    else Some (t, out ++ [w - 1])
  end.

(* the loop of Inverse from its head; [src] is never empty there and dstIdx < dstEnd *)
Fixpoint zinv_loop (fuel : nat) (src : list N) (dcap : N) (out : list N) : option (list N) :=
  match fuel with
  | O => None
  | S f =>
    match src with
    | [] => Some out
    | _ =>
      match run_part src out dcap with
      | inl r => r
      | inr (src1, out1) =>
        match src1 with
        | [] => None
        | _ =>
          match lit_part src1 out1 with
          | None => Some out1
          | Some (src2, out2) =>
              match src2 with
              | [] => Some out2
              | _ => if dcap <=? N.of_nat (length out2) then None else zinv_loop f src2 dcap out2
              end
          end
        end
      end
    end
  end.

Definition zinv (src : list N) (dcap : N) : option (list N) :=
  match src with
  | [] => Some []
  | _ => if dcap =? 0 then Some [] else zinv_loop (S (length src)) src dcap []
  end.
