(* Model of the cursor / batch logic of io.Reader (Read / processBlock / Close) in
   v2/io/CompressedStream.go.  The compressed stream is abstracted as the list of frames the
   decoding tasks will meet, each with the result of decoding it in isolation:
     FData bs  : the block decodes to bs
     FFail     : the block is read from the stream but decoding it fails (damaged payload,
                 checksum mismatch); a physically truncated stream is a frame list without FEnd
     FEnd      : the terminating empty block
   Tasks of a batch take effect in id order (Model/Handoff.v). *)
From Coq Require Import List NArith ZArith Bool.
Import ListNotations.
Open Scope N_scope.

Inductive frame := FData (bs : list N) | FFail | FEnd.

Inductive rres := RNil | REOF | RErr.

Record rst := mkR {
  r_bufs : list (list N);   (* buffers[0..]: decoded blocks of the current batch, compacted *)
  r_avail : N;              (* this.available *)
  r_consumed : N;           (* this.consumed *)
  r_frames : list frame;    (* frames not yet pulled from the shared bit stream *)
  r_blockid : N;            (* id of the last block pulled *)
  r_cancel : bool;          (* this.blockID == -1 *)
  r_err : bool;             (* sticky block decoding error *)
  r_closed : bool
}.

Section R.
Variables (B jobs hintBlocks : N).
Variables (from to : N).          (* block range; from = 0 / to = 0 mean "absent" *)

Definition init_r (frames : list frame) : rst := mkR [] 0 0 frames 0 false false false.

Inductive tres := TData (bs : list N) | TSkip | TErr | TNone.   (* TNone: decoded = 0, no error *)

Definition skipped (bid : N) : bool := ((0 <? from) && (bid <? from)) || ((0 <? to) && (to <=? bid)).

(* one batch: returns the task results in id order and the new stream state *)
Fixpoint batch (n : nat) (frames : list frame) (id : N) (cancel : bool)
  : list tres * list frame * N * bool :=
  match n with
  | O => ([], frames, id, cancel)
  | S m =>
    if cancel then
      let '(rs, fr, id', c) := batch m frames (id + 1) true in (TNone :: rs, fr, id', c)
    else
      match frames with
      | [] => (* reading past the physical end of the stream *)
          let '(rs, fr, id', c) := batch m [] (id + 1) true in (TErr :: rs, fr, id', c)
      | FEnd :: rest =>
          let '(rs, fr, id', c) := batch m rest (id + 1) true in (TNone :: rs, fr, id', c)
      | FFail :: rest =>
          (* the block is pulled from the stream and the token passed on before the range test
             and the local decoding: a damaged block outside the range is simply skipped *)
          let bid := id + 1 in
          if skipped bid
          then let '(rs, fr, id', c) := batch m rest bid false in (TSkip :: rs, fr, id', c)
          else let '(rs, fr, id', c) := batch m rest bid true in (TErr :: rs, fr, id', c)
      | FData bs :: rest =>
          let bid := id + 1 in
          let '(rs, fr, id', c) := batch m rest bid false in
          ((if skipped bid then TSkip else TData bs) :: rs, fr, id', c)
      end
  end.

(* result scan of processBlock: (buffers, decoded, skipped count, error?) *)
Fixpoint scan (rs : list tres) (bufs : list (list N)) (decoded : N) (skipped : nat)
  : list (list N) * N * nat * bool :=
  match rs with
  | [] => (bufs, decoded, skipped, false)
  | TSkip :: t => scan t bufs decoded (S skipped)
  | TErr :: _ => (bufs, decoded, skipped, true)
  | TNone :: t => scan t (bufs ++ [[]]) decoded skipped
  | TData bs :: t =>
      if B <? N.of_nat (length bs) then (bufs, decoded, skipped, true)   (* "incorrectly decompressed" *)
      else scan t (bufs ++ [bs]) (decoded + N.of_nat (length bs)) skipped
  end.

(* processBlock(): loops while every task of the batch was skipped *)
Fixpoint process_block (fuel : nat) (s : rst) : rst * N * bool :=
  match fuel with
  | O => (s, 0, false)
  | S f =>
    if r_cancel s then (s, 0, false) else
    let nbTasks := if (1 <? jobs) && (0 <? hintBlocks) then N.min jobs hintBlocks else jobs in
    let '(rs, frames', id', cancel') := batch (N.to_nat nbTasks) (r_frames s) (r_blockid s) false in
    let '(bufs, decoded, skipped, err) := scan rs [] 0 O in
    let s1 := mkR bufs (r_avail s) (r_consumed s) frames' id' cancel' (r_err s) (r_closed s) in
    if err then (s1, decoded, true)
    else if Nat.eqb skipped (N.to_nat nbTasks) then process_block f s1
    else (mkR bufs (r_avail s) 0 frames' id' cancel' (r_err s) (r_closed s), decoded, false)
  end.

Definition slice (l : list N) (off len : N) : list N :=
  firstn (N.to_nat len) (skipn (N.to_nat off) l).

(* the loop of Read: [want] bytes still wanted, [got] bytes copied so far (reversed chunks) *)
Fixpoint read_loop (fuel : nat) (s : rst) (want : N) (got : list N) (total : N) : rst * list N * rres :=
  match fuel with
  | O => (s, got, RNil)
  | S f =>
    if want =? 0 then (s, got, RNil) else
    let bufOff := r_consumed s mod B in
    let lenChunk := N.min want (N.min (r_avail s) (B - bufOff)) in
    let bufID := N.to_nat (r_consumed s / B) in
    let chunk := slice (nth bufID (r_bufs s) []) bufOff lenChunk in
    let s1 := if 0 <? lenChunk
              then mkR (r_bufs s) (r_avail s - lenChunk) (r_consumed s + lenChunk) (r_frames s)
                       (r_blockid s) (r_cancel s) (r_err s) (r_closed s)
              else s in
    let got1 := got ++ chunk in
    let want1 := want - lenChunk in
    if (0 <? lenChunk) && ((0 <? r_avail s1) && (B <=? bufOff + lenChunk)) then read_loop f s1 want1 got1 total
    else if (0 <? lenChunk) && (want1 =? 0) then (s1, got1, RNil)
    else if r_avail s1 =? 0 then
      match process_block (S (length (r_frames s1))) s1 with
      | (s2, _, true) =>
          (mkR (r_bufs s2) 0 0 (r_frames s2) (r_blockid s2) (r_cancel s2) true (r_closed s2), got1, RErr)
      | (s2, decoded, false) =>
          let s3 := mkR (r_bufs s2) decoded (r_consumed s2) (r_frames s2) (r_blockid s2) (r_cancel s2) (r_err s2) (r_closed s2) in
          if decoded =? 0 then (s3, got1, if want1 =? total then REOF else RNil)
          else read_loop f s3 want1 got1 total
      end
    else read_loop f s1 want1 got1 total
  end.

(* Read(len): returns (state, bytes, result) *)
Definition r_read (s : rst) (len : N) : rst * list N * rres :=
  if r_closed s then (s, [], RErr) else
  if r_err s then (s, [], RErr) else
  read_loop (S (N.to_nat len) + S (length (r_frames s)) * 2) s len [] len.

Definition close_r (s : rst) : rst :=
  if r_closed s then s else mkR [] 0 (r_consumed s) (r_frames s) (r_blockid s) (r_cancel s) (r_err s) true.

End R.
