(* Model of the container for the NONE / NONE pipeline (no transform, no entropy coding): what
   io/CompressedStream.go writes and reads around the blocks - stream header (Model/Header.v), one
   frame per block (outer: 5-bit width, bit length, the block's own closed bit stream as an array;
   inner: mode byte, post-transform length, optional block checksum, the bytes), end marker - over
   the bit stream models (Model/OutBS.v, Model/InBS.v).  The block hash is a parameter (XXHash32/64
   in the code); the correspondence driver instantiates it with the values the Go hashers returned. *)
From Coq Require Import List NArith ZArith Bool.
From KV Require Import Model.OutBS Model.InBS Model.Header.
Import ListNotations.
Open Scope N_scope.

(* what a writer does to a bit stream *)
Inductive cop := CBit (b : N) | CBits (v c : N) | CArr (bits : list N) (count : N).

Definition healthy_sink : N -> bool := fun _ => false.

Definition run_cop (s : obs) (o : cop) : obs * bool :=
  match o with
  | CBit b => write_bit healthy_sink s b
  | CBits v c => write_bits healthy_sink s v c
  | CArr bits c => write_array healthy_sink s bits c
  end.

Fixpoint run_cops (s : obs) (ops : list cop) : obs * bool :=
  match ops with
  | [] => (s, false)
  | o :: t => match run_cop s o with (s1, true) => (s1, true) | (s1, false) => run_cops s1 t end
  end.

Section C.
Variable hash : list N -> N.          (* block checksum: XXHash32 (ck = 1) or XXHash64 (ck = 2) *)

(* ---------- one block, inside its own bit stream (encodingTask.encode, NONE / NONE) ---------- *)
Definition data_size (n : N) : N := if n <? 256 then 1 else N.log2 n / 8 + 1.

(* NullEntropyEncoder.Write: arrays of at most 2^23 bytes *)
Fixpoint null_chunks (fuel : nat) (b : list N) : list cop :=
  match fuel with
  | O => []
  | S f => match b with
           | [] => []
           | _ => let k := N.to_nat (N.min (N.of_nat (length b)) 8388608) in
                  CArr (firstn k b) (8 * N.of_nat k) :: null_chunks f (skipn k b)
           end
  end.

Definition block_mode (n : N) : N := (if n <=? 15 then 128 else 0) + (data_size n - 1) * 32 + 7.

Definition inner_ops (ck : N) (b : list N) : list cop :=
  let n := N.of_nat (length b) in
  [CBits (block_mode n) 8; CBits n (8 * data_size n)] ++
  (if ck =? 1 then [CBits (hash b) 32] else if ck =? 2 then [CBits (hash b) 64] else []) ++
  null_chunks (S (N.to_nat (N.of_nat (length b) / 8388608))) b.

(* the block's own bit stream, closed: its bytes and the number of bits written *)
Definition inner_image (ck : N) (b : list N) : list N * N :=
  match run_cops (new_obs 16384) (inner_ops ck b) with
  | (s1, _) => match close healthy_sink s1 with
               | (s2, _) => (o_out s2, Z.to_N (written s2))
               end
  end.

(* ---------- the frame in the shared bit stream ---------- *)
Fixpoint arr_chunks (fuel : nat) (img : list N) (w : N) : list cop :=
  match fuel with
  | O => []
  | S f => if w =? 0 then [] else
           let c := N.min w 1073741824 in
           CArr img c :: arr_chunks f (skipn (N.to_nat ((c + 7) / 8)) img) (w - c)
  end.

Definition frame_ops (ck : N) (b : list N) : list cop :=
  let '(img, w) := inner_image ck b in
  let lw := if 8 <=? w then N.log2 (w / 8) + 4 else 3 in
  [CBits (lw - 3) 5; CBits w lw] ++ arr_chunks (S (N.to_nat (w / 1073741824))) img w.

Definition end_marker : list cop := [CBits 0 5; CBits 0 3].

Definition stream_ops (c : hcfg) (blocks : list (list N)) : list cop :=
  map (fun f => CBits (fst f) (snd f)) (header_fields c) ++ flat_map (frame_ops (h_ck c)) blocks ++ end_marker.

(* the compressed stream: what reaches the sink when the Writer is closed *)
Definition write_stream (c : hcfg) (blocks : list (list N)) : list N :=
  match run_cops (new_obs 65536) (stream_ops c blocks) with
  | (s1, _) => match close healthy_sink s1 with (s2, _) => o_out s2 end
  end.

(* ---------- reading ---------- *)
Inductive pframe := PData (b : list N) | PFail | PEnd.

(* NullEntropyDecoder.Read *)
Fixpoint null_read (fuel : nat) (s : ibs) (n : N) (acc : list N) : ibs * option (list N) :=
  match fuel with
  | O => (s, Some acc)
  | S f => if n =? 0 then (s, Some acc) else
           let k := N.min n 8388608 in
           match read_array s (8 * k) with
           | (s1, Pan _) => (s1, None)
           | (s1, Val l) => null_read f s1 (n - k) (acc ++ l)
           end
  end.

(* decodingTask.decode on the block's own bytes (NONE / NONE) *)
Definition parse_inner (ck bsize : N) (img : list N) : pframe :=
  let s := new_ibs 16384 (mkSrc img [] None 0) in
  match read_bits s 8 with
  | (_, Pan _) => PFail
  | (s1, Val mode) =>
    let '(s2, okskip) :=
      if (N.land mode 128 =? 0) && negb (N.land mode 16 =? 0)
      then match read_bits s1 8 with (s', Val _) => (s', true) | (s', Pan _) => (s', false) end
      else (s1, true) in
    if negb okskip then PFail else
    let dsz := 1 + N.land (N.shiftr mode 5) 3 in
    match read_bits s2 (8 * dsz) with
    | (_, Pan _) => PFail
    | (s3, Val len) =>
      let maxlen := N.min (N.max (bsize + bsize / 2) 2048) MAX_BLOCK in
      if (len =? 0) || (maxlen <? len) then PFail else
      let '(s4, stored) :=
        if ck =? 1 then match read_bits s3 32 with (s', Val v) => (s', Some v) | (s', Pan _) => (s', None) end
        else if ck =? 2 then match read_bits s3 64 with (s', Val v) => (s', Some v) | (s', Pan _) => (s', None) end
        else (s3, Some 0) in
      match stored with
      | None => PFail
      | Some h =>
        match null_read (S (N.to_nat (len / 8388608))) s4 len [] with
        | (_, None) => PFail
        | (_, Some data) =>
            if (ck =? 0) || (hash data =? h) then PData data else PFail
        end
      end
    end
  end.

(* the frames of a stream, after the header: ReadBits(5), ReadBits(lr), ReadArray, then the block *)
Fixpoint read_img (fuel : nat) (s : ibs) (w : N) (acc : list N) : ibs * option (list N) :=
  match fuel with
  | O => (s, Some acc)
  | S f => if w =? 0 then (s, Some acc) else
           let c := N.min w 1073741824 in
           match read_array s c with
           | (s1, Pan _) => (s1, None)
           | (s1, Val l) => read_img f s1 (w - c) (acc ++ l)
           end
  end.

Fixpoint parse_frames (fuel : nat) (ck bsize : N) (s : ibs) : list pframe :=
  match fuel with
  | O => []
  | S f =>
    match read_bits s 5 with
    | (_, Pan _) => [PFail]
    | (s1, Val l3) =>
      match read_bits s1 (l3 + 3) with
      | (_, Pan _) => [PFail]
      | (s2, Val w) =>
        if w =? 0 then [PEnd] else
        if 17179869184 <? w then [PFail] else
        match read_img (S (N.to_nat (w / 1073741824))) s2 w [] with
        | (_, None) => [PFail]
        | (s3, Some img) => parse_inner ck bsize img :: parse_frames f ck bsize s3
        end
      end
    end
  end.

End C.

(* a whole stream: header, then frames until the end marker *)
Definition parse_stream (hash : list N -> N) (evalid tvalid : N -> bool) (nframes : nat) (rbuf : N) (sched : list N) (bytes : list N)
  : option (hcfg * list pframe) :=
  match read_header evalid tvalid (new_ibs rbuf (mkSrc bytes sched None 0)) with
  | (s, HOk c) => Some (c, parse_frames hash nframes (h_ck c) (h_bsize c) s)
  | (_, HErr _) => None
  end.
