(* Model of transform/Sequence.go: ByteTransformSequence.Forward / Inverse / MaxEncodedLen.
   The stages are abstract ([tr]): what a stage does to a block depends on the block and on the
   length of the output slice it is given (stages decline when it is too small).  What is modelled
   line by line is the glue: skip flags, which of the two working buffers holds the data, their
   lengths (resized to requiredSize when shorter), the final copy into the destination.
   Buffers are tracked by identity (is it the caller's dst?) and length only. *)
From Coq Require Import List NArith Bool Arith.
Import ListNotations.

Record tr := mkT {
  t_fwd : list N -> nat -> option (list N);   (* Forward(in, out): None = error (declined) *)
  t_inv : list N -> nat -> option (list N);   (* Inverse(in, out) *)
  t_max : nat -> nat                          (* MaxEncodedLen *)
}.

Definition SKIP_MASK : N := 255.

(* MaxEncodedLen of the sequence *)
Fixpoint max_enc (ts : list tr) (req : nat) : nat :=
  match ts with
  | [] => req
  | t :: r => max_enc r (Nat.max req (t_max t req))
  end.

Inductive fres := FNothing | FTooSmall | FLost (skip : N) (len : nat) | FOk (skip : N) (out : list N).

(* the loop of Forward: [i] index of the stage, [cur] = in[0:length], lengths of in/out *)
Fixpoint fwd_loop (ts : list tr) (i : N) (req : nat) (cur : list N) (inlen outlen : nat) (skip : N) (swaps : nat)
  : list N * N * nat :=
  match ts with
  | [] => (cur, skip, swaps)
  | t :: r =>
      let outlen' := if outlen <? req then req else outlen in
      match t_fwd t cur outlen' with
      | None => fwd_loop r (i + 1) req cur inlen outlen' skip swaps
      | Some y => fwd_loop r (i + 1) req y outlen' inlen (N.clearbit skip (7 - i)) (S swaps)
      end
  end.

Definition seq_forward (ts : list tr) (src : list N) (dcap : nat) : fres :=
  match src with
  | [] => FNothing
  | _ =>
    if dcap =? 0 then FNothing else
    let req := max_enc ts (length src) in
    if dcap <? req then FTooSmall else
    let '(cur, skip, swaps) := fwd_loop ts 0 req src (length src) dcap SKIP_MASK 0 in
    if Nat.even swaps then
      (* the result is not in dst: copy it there, if it fits *)
      if dcap <? length cur then FLost SKIP_MASK (length cur) else FOk skip cur
    else FOk skip cur
  end.

Inductive ires := INothing | IErr | IOk (out : list N) | ITrunc (len : nat).

Record ist := mkIS { is_cur : list N; is_in_dst : bool; is_out_dst : bool; is_inlen : nat; is_outlen : nat }.

(* the loop of Inverse, last stage first *)
Fixpoint inv_loop (ts : list tr) (i : N) (req : nat) (skip : N) (st : ist) : option ist :=
  match ts with
  | [] => Some st
  | t :: r =>
      match inv_loop r (i + 1) req skip st with
      | None => None
      | Some s =>
          if N.testbit skip (7 - i) then Some s else
          let resized := is_outlen s <? req in
          let outlen' := if resized then req else is_outlen s in
          let out_dst' := if resized then false else is_out_dst s in
          match t_inv t (is_cur s) outlen' with
          | None => None
          | Some y => Some (mkIS y out_dst' (is_in_dst s) outlen' (is_inlen s))
          end
      end
  end.

Definition seq_inverse (ts : list tr) (src : list N) (dcap : nat) (skip : N) : ires :=
  match src with
  | [] => INothing
  | _ =>
    if dcap =? 0 then INothing else
    if N.eqb skip SKIP_MASK then (if dcap <? length src then ITrunc (length src) else IOk src) else
    let req := Nat.max dcap (max_enc ts dcap) in
    match inv_loop ts 0 req skip (mkIS src false true (length src) dcap) with
    | None => IErr
    | Some s =>
        if (length (is_cur s) =? 0) || negb (is_in_dst s) then
          if dcap <? length (is_cur s) then IErr else IOk (is_cur s)
        else IOk (is_cur s)
    end
  end.

(* ---------- scripted stages used by the correspondence harness (harness/seqm.go) ---------- *)
(* Tag k m: prepend k bytes m (expands by k); Strip k m: remove k leading bytes m when present,
   decline otherwise or when the output slice is too short - possible only behind a Lie stage - (shrinks); Rev: reverse; Decline: never applies *)
Inductive kind := KTag (k : nat) (m : N) | KStrip (k : nat) (m : N) | KRev | KDecline
  | KLie (k : nat) (m : N).   (* like KTag but MaxEncodedLen claims n: breaks the contract, exercises the error paths *)

Definition all_eq (m : N) (l : list N) : bool := forallb (N.eqb m) l.

Definition mk_stage (kd : kind) : tr :=
  match kd with
  | KTag k m => mkT (fun x cap => if cap <? length x + k then None else Some (repeat m k ++ x))
                    (fun y cap => if (length y <? k) || negb (all_eq m (firstn k y)) || (cap <? length y - k) then None
                                  else Some (skipn k y))
                    (fun n => n + k)
  | KStrip k m => mkT (fun x cap => if (length x <=? k) || negb (all_eq m (firstn k x)) || (cap <? length x - k) then None else Some (skipn k x))
                      (fun y cap => if cap <? length y + k then None else Some (repeat m k ++ y))
                      (fun n => n)
  | KRev => mkT (fun x cap => if cap <? length x then None else Some (rev x))
                (fun y cap => if cap <? length y then None else Some (rev y))
                (fun n => n)
  | KDecline => mkT (fun _ _ => None) (fun _ _ => None) (fun n => n)
  | KLie k m => mkT (fun x cap => if cap <? length x + k then None else Some (repeat m k ++ x))
                    (fun y cap => if (length y <? k) || negb (all_eq m (firstn k y)) || (cap <? length y - k) then None
                                  else Some (skipn k y))
                    (fun n => n)
  end.
