(* Model of bitstream/DefaultInputBitStream.go, operation by operation.
   The source (io.ReadCloser) is a byte string delivered according to a chunk schedule:
   the k-th underlying Read returns at most [nth k sched] bytes (missing entries: as many as
   requested); when the data is exhausted it returns (0, EOF); [failat] makes one call
   return an error (with no data).  Operations return the new state and an outcome:
   the state at a panic is kept, as in OutBS. *)
From Coq Require Import List NArith ZArith Bool.
From KV Require Import Model.OutBS.
Import ListNotations.
Open Scope N_scope.

Inductive rerr := EEOF | EIO | ENoProgress | ENoMoreData | EClosed.

Record source := mkSrc {
  src_data : list N;          (* bytes not yet delivered *)
  src_sched : list N;         (* sizes of the next underlying reads (0 = "as requested") *)
  src_failat : option N;      (* 1-based index of the underlying Read call that fails *)
  src_calls : N
}.

(* is.Read(buf[0:count]) *)
Definition src_read (s : source) (count : N) : source * list N * option rerr :=
  let c := src_calls s + 1 in
  let sched' := tl (src_sched s) in
  if match src_failat s with Some k => k =? c | None => false end
  then (mkSrc (src_data s) sched' (src_failat s) c, [], Some EIO)
  else match src_data s with
  | [] => (mkSrc [] sched' (src_failat s) c, [], Some EEOF)
  | _ =>
    let want := match src_sched s with
                | [] => count
                | k :: _ => if k =? 0 then count else N.min k count
                end in
    let n := N.to_nat want in
    (mkSrc (skipn n (src_data s)) sched' (src_failat s) c, firstn n (src_data s), None)
  end.

Record ibs := mkI {
  i_closed : bool;
  i_read : Z;              (* this.read *)
  i_buf : list N;          (* buffer[0 : maxPosition+1] *)
  i_pos : N;               (* position *)
  i_size : N;              (* len(buffer) *)
  i_avail : N;             (* availBits *)
  i_cur : N;               (* current *)
  i_pending : option rerr; (* pendingErr *)
  i_src : source
}.

Definition new_ibs (bufsize : N) (src : source) : ibs := mkI false 0 [] 0 bufsize 0 0 None src.

Definition i_max1 (s : ibs) : N := N.of_nat (length (i_buf s)).   (* maxPosition + 1 *)

Definition set_iacc s a c := mkI (i_closed s) (i_read s) (i_buf s) (i_pos s) (i_size s) a c (i_pending s) (i_src s).
Definition set_ipos s p := mkI (i_closed s) (i_read s) (i_buf s) p (i_size s) (i_avail s) (i_cur s) (i_pending s) (i_src s).

(* the refill loop of readFromInputStream after the first Read (repaired code):
   keep reading while no error, size > 0, size not a multiple of 8 and size < count *)
Fixpoint refill_more (fuel : nat) (src : source) (got : list N) (count : N)
  : source * list N * option rerr :=
  match fuel with
  | O => (src, got, None)
  | S f =>
      let size := N.of_nat (length got) in
      if (0 <? size) && negb (N.land size 7 =? 0) && (size <? count) then
        match src_read src (count - size) with
        | (src', [], None) => (src', got, Some ENoProgress)
        | (src', [], Some e) => (src', got, Some e)
        | (src', more, Some e) => (src', got ++ more, Some e)
        | (src', more, None) => refill_more f src' (got ++ more) count
        end
      else (src, got, None)
  end.

(* readFromInputStream(count): returns (state, error?) *)
Definition read_from_source (s : ibs) (count : N) : ibs * option rerr :=
  if i_closed s then (s, Some EClosed) else
  if count =? 0 then (s, None) else
  match i_pending s with
  | Some e => (mkI (i_closed s) (i_read s) [] (i_pos s) (i_size s) (i_avail s) (i_cur s) (i_pending s) (i_src s), Some e)
  | None =>
    let read' := (i_read s + 8 * Z.of_N (i_pos s))%Z in
    let '(src1, got1, err1) := src_read (i_src s) count in
    let '(src2, got, err) :=
      match err1 with
      | None => refill_more (N.to_nat count) src1 got1 count
      | Some e => (src1, got1, Some e)
      end in
    match got with
    | [] =>
        (mkI (i_closed s) read' [] 0 (i_size s) (i_avail s) (i_cur s) None src2,
         Some (match err with Some e => e | None => ENoMoreData end))
    | _ => (mkI (i_closed s) read' got 0 (i_size s) (i_avail s) (i_cur s) err src2, None)
    end
  end.

Inductive outcome (A : Type) := Val (a : A) | Pan (e : rerr).
Arguments Val {A}. Arguments Pan {A}.

(* pull(): returns state and (value, avail) or a panic *)
Definition pull (s : ibs) : ibs * outcome (N * N) :=
  let '(s1, err) := if i_max1 s <=? i_pos s then read_from_source s (i_size s) else (s, None) in
  match err with
  | Some e => (s1, Pan e)
  | None =>
    if i_max1 s1 <? i_pos s1 + 8 then
      (* fewer than 8 bytes left in the buffer: partial word *)
      let rest := skipn (N.to_nat (i_pos s1)) (i_buf s1) in
      let k := N.of_nat (length rest) in
      (set_ipos s1 (i_max1 s1), Val (be_val rest, 8 * k))
    else
      let w := word_of (skipn (N.to_nat (i_pos s1)) (i_buf s1)) in
      (set_ipos s1 (i_pos s1 + 8), Val (w, 64))
  end.

Definition read_bit (s : ibs) : ibs * outcome N :=
  let '(s1, r) := if i_avail s =? 0
                  then match pull s with
                       | (s', Val (c, a)) => (set_iacc s' a c, None)
                       | (s', Pan e) => (s', Some e)
                       end
                  else (s, None) in
  match r with
  | Some e => (s1, Pan e)
  | None =>
    (* availBits-- on a uint: pull never returns 0 available bits *)
    let a := i_avail s1 - 1 in
    (set_iacc s1 a (i_cur s1), Val (N.land (N.shiftr (i_cur s1) a) 1))
  end.

(* ReadBits recurses once to finish a word; fuel bounds the recursion (partial words at EOS) *)
Fixpoint read_bits_f (fuel : nat) (s : ibs) (count : N) : ibs * outcome N :=
  if (count =? 0) || (64 <? count) then (s, Pan EIO) else
  if count <=? i_avail s then
    let a := i_avail s - count in
    (set_iacc s a (i_cur s), Val (N.land (N.shiftr (i_cur s) a) (shr64 mask64 (64 - count))))
  else
    match fuel with
    | O => (s, Pan ENoProgress)
    | S f =>
      let count' := count - i_avail s in
      let res := N.land (i_cur s) (shr64 mask64 (64 - i_avail s)) in
      match pull s with
      | (s1, Pan e) => (s1, Pan e)
      | (s1, Val (c, a)) =>
          match read_bits_f f (set_iacc s1 a c) count' with
          | (s2, Pan e) => (s2, Pan e)
          | (s2, Val v) => (s2, Val (N.lor (shl64 res count') v))
          end
      end
    end.

Definition read_bits (s : ibs) (count : N) : ibs * outcome N := read_bits_f 66 s count.

(* --- ReadArray: returns the bytes stored into bits[] --- *)

Fixpoint read_bytes_while (stop_at_0 : bool) (fuel : nat) (s : ibs) (remaining : N) (acc : list N)
  : ibs * option rerr * list N * N :=
  match fuel with
  | O => (s, None, acc, remaining)
  | S f =>
    if (stop_at_0 && (i_avail s =? 0)) || (remaining <? 8) then (s, None, acc, remaining)
    else match read_bits s 8 with
         | (s1, Pan e) => (s1, Some e, acc, remaining)
         | (s1, Val v) => read_bytes_while stop_at_0 f s1 (remaining - 8) (acc ++ [v])
         end
  end.

(* aligned: `for (remaining >> 3) > availBytes { copy all; refill }` *)
Fixpoint bulk_read (fuel : nat) (s : ibs) (remaining : N) (acc : list N) : ibs * option rerr * list N * N :=
  match fuel with
  | O => (s, None, acc, remaining)
  | S f =>
    let availBytes := i_max1 s - i_pos s in
    if availBytes <? N.shiftr remaining 3 then
      let chunk := skipn (N.to_nat (i_pos s)) (i_buf s) in
      let s1 := set_ipos s (i_max1 s) in
      match read_from_source s1 (i_size s1) with
      | (s2, Some e) => (s2, Some e, acc ++ chunk, remaining - 8 * availBytes)
      | (s2, None) => bulk_read f s2 (remaining - 8 * availBytes) (acc ++ chunk)
      end
    else (s, None, acc, remaining)
  end.

(* unaligned 64-bit step shared by both loops: pull, check, combine *)
Definition step64 (r : N) (s : ibs) : ibs * outcome N :=
  let v0 := i_cur s in
  match pull s with
  | (s1, Pan e) => (s1, Pan e)
  | (s1, Val (c, a)) =>
      let s2 := set_iacc s1 a c in
      if a <? r then (s2, Pan ENoMoreData)
      else (set_iacc s1 (a - r) c, Val (N.lor (shl64 v0 r) (shr64 c (a - r))))
  end.

Fixpoint uloop256 (fuel : nat) (r a : N) (s : ibs) (remaining : N) (acc : list N)
  : ibs * option rerr * list N * N :=
  match fuel with
  | O => (s, None, acc, remaining)
  | S f =>
    if 256 <=? remaining then
      (* Go compares position+32 > maxPosition, i.e. position + 32 >= maxPosition + 1 *)
      if i_max1 s <=? i_pos s + 32 then
        match step64 r s with
        | (s1, Pan e) => (s1, Some e, acc, remaining)
        | (s1, Val w) => uloop256 f r a s1 (remaining - 64) (acc ++ be8 w)
        end
      else
        let v0 := i_cur s in
        let b := skipn (N.to_nat (i_pos s)) (i_buf s) in
        let v1 := word_of b in let v2 := word_of (skipn 8 b) in
        let v3 := word_of (skipn 16 b) in let v4 := word_of (skipn 24 b) in
        let out := be8 (N.lor (shl64 v0 r) (shr64 v1 a)) ++ be8 (N.lor (shl64 v1 r) (shr64 v2 a)) ++
                   be8 (N.lor (shl64 v2 r) (shr64 v3 a)) ++ be8 (N.lor (shl64 v3 r) (shr64 v4 a)) in
        let s1 := set_iacc (set_ipos s (i_pos s + 32)) (i_avail s) v4 in
        uloop256 f r a s1 (remaining - 256) (acc ++ out)
    else (s, None, acc, remaining)
  end.

Fixpoint uloop64 (fuel : nat) (r : N) (s : ibs) (remaining : N) (acc : list N)
  : ibs * option rerr * list N * N :=
  match fuel with
  | O => (s, None, acc, remaining)
  | S f =>
    if 64 <=? remaining then
      match step64 r s with
      | (s1, Pan e) => (s1, Some e, acc, remaining)
      | (s1, Val w) => uloop64 f r s1 (remaining - 64) (acc ++ be8 w)
      end
    else (s, None, acc, remaining)
  end.

Definition read_array (s : ibs) (count : N) : ibs * outcome (list N) :=
  if i_closed s then (s, Pan EClosed) else
  if count =? 0 then (s, Val []) else
  let fuel := S (S (N.to_nat (count / 8))) in
  let '(s1, e1, acc1, rem1) :=
    if N.land (i_avail s) 7 =? 0 then
      let '(s0, e0) := if i_avail s =? 0
                       then match pull s with
                            | (s', Val (c, a)) => (set_iacc s' a c, None)
                            | (s', Pan e) => (s', Some e)
                            end
                       else (s, None) in
      match e0 with
      | Some e => (s0, Some e, [], count)
      | None =>
        match read_bytes_while true 9 s0 count [] with
        | (sa, Some e, acc, r) => (sa, Some e, acc, r)
        | (sa, None, acc, r) =>
          match bulk_read fuel sa r acc with
          | (sb, Some e, acc2, r2) => (sb, Some e, acc2, r2)
          | (sb, None, acc2, r2) =>
              let k := 8 * N.shiftr r2 6 in
              if 0 <? k then
                let chunk := firstn (N.to_nat k) (skipn (N.to_nat (i_pos sb)) (i_buf sb)) in
                (set_ipos sb (i_pos sb + k), None, acc2 ++ chunk, r2 - 8 * k)
              else (sb, None, acc2, r2)
          end
        end
      end
    else
      let r := 64 - i_avail s in
      let a := i_avail s in
      match uloop256 fuel r a s count [] with
      | (sa, Some e, acc, rm) => (sa, Some e, acc, rm)
      | (sa, None, acc, rm) => uloop64 fuel r sa rm acc
      end in
  match e1 with
  | Some e => (s1, Pan e)
  | None =>
    match read_bytes_while false fuel s1 rem1 acc1 with
    | (s2, Some e, _, _) => (s2, Pan e)
    | (s2, None, acc2, rem2) =>
        if 0 <? rem2 then
          match read_bits s2 rem2 with
          | (s3, Pan e) => (s3, Pan e)
          | (s3, Val v) => (s3, Val (acc2 ++ [N.land (N.shiftl v (8 - rem2)) 255]))
          end
        else (s2, Val acc2)
    end
  end.

Definition iclose (s : ibs) : ibs :=
  if i_closed s then s else
  mkI true (i_read s - Z.of_N (i_avail s))%Z [] (i_pos s) (i_size s) 0 (i_cur s) None (i_src s).

Definition bits_read (s : ibs) : Z := (i_read s + 8 * Z.of_N (i_pos s) - Z.of_N (i_avail s))%Z.
