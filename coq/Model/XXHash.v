(* Model of hash/XXHash32.go and hash/XXHash64.go (the block checksums of the container), with the
   wrap-around of uint32 / uint64 arithmetic written out.  XXHash64.Hash combines its four lanes with
   the shift amounts of the 32-bit variant ((v << 1) | (v >> 31), 7/25, 12/20, 18/14) - not rotations
   of a 64-bit word; that is what the code computes and therefore part of the stream format (C10). *)
From Coq Require Import List NArith.
Import ListNotations.
Open Scope N_scope.

Definition M32 : N := 4294967296.
Definition M64 : N := 18446744073709551616.
Definition SEED : N := 1262571098.        (* _BITSTREAM_TYPE "KANZ" *)

(* (x << a) | (x >> b) on a W-bit unsigned value *)
Definition shlor (W x a b : N) : N := N.lor (N.shiftl x a mod W) (N.shiftr x b).

Definition le4 (b0 b1 b2 b3 : N) : N := b0 + 256 * b1 + 65536 * b2 + 16777216 * b3.
Definition le8 (b0 b1 b2 b3 b4 b5 b6 b7 : N) : N := le4 b0 b1 b2 b3 + M32 * le4 b4 b5 b6 b7.

(* ---------- XXHash32 ---------- *)
Definition P32_1 : N := 2654435761.
Definition P32_2 : N := 2246822519.
Definition P32_3 : N := 3266489917.
Definition P32_4 : N := 668265263.
Definition P32_5 : N := 374761393.

Definition round32 (acc v : N) : N := (shlor M32 ((acc + v * P32_2) mod M32) 13 19 * P32_1) mod M32.

Fixpoint stripes32 (l : list N) (v : N * N * N * N) : list N * (N * N * N * N) :=
  match l with
  | a0 :: a1 :: a2 :: a3 :: b0 :: b1 :: b2 :: b3 :: c0 :: c1 :: c2 :: c3 :: d0 :: d1 :: d2 :: d3 :: r =>
      let '(v1, v2, v3, v4) := v in
      stripes32 r (round32 v1 (le4 a0 a1 a2 a3), round32 v2 (le4 b0 b1 b2 b3), round32 v3 (le4 c0 c1 c2 c3), round32 v4 (le4 d0 d1 d2 d3))
  | _ => (l, v)
  end.

Fixpoint words32 (l : list N) (h : N) : list N * N :=
  match l with
  | b0 :: b1 :: b2 :: b3 :: r => words32 r ((shlor M32 ((h + le4 b0 b1 b2 b3 * P32_3) mod M32) 17 15 * P32_4) mod M32)
  | _ => (l, h)
  end.

Fixpoint bytes32 (l : list N) (h : N) : N :=
  match l with
  | b :: r => bytes32 r ((shlor M32 ((h + b * P32_5) mod M32) 11 21 * P32_1) mod M32)
  | [] => h
  end.

Definition avalanche32 (h : N) : N :=
  let h1 := (N.lxor h (N.shiftr h 15) * P32_2) mod M32 in
  let h2 := (N.lxor h1 (N.shiftr h1 13) * P32_3) mod M32 in
  N.lxor h2 (N.shiftr h2 16).

Definition xxh32 (seed : N) (data : list N) : N :=
  let n := N.of_nat (length data) in
  let '(rest, h0) :=
    if 16 <=? n then
      let '(r, (v1, v2, v3, v4)) := stripes32 data ((seed + P32_1 + P32_2) mod M32, (seed + P32_2) mod M32, seed mod M32, (seed + M32 - P32_1) mod M32) in
      (r, (shlor M32 v1 1 31 + shlor M32 v2 7 25 + shlor M32 v3 12 20 + shlor M32 v4 18 14) mod M32)
    else (data, (seed + P32_5) mod M32) in
  let '(rest2, h1) := words32 rest ((h0 + n) mod M32) in
  avalanche32 (bytes32 rest2 h1).

(* ---------- XXHash64 ---------- *)
Definition P64_1 : N := 11400714785074694791.
Definition P64_2 : N := 14029467366897019727.
Definition P64_3 : N := 1609587929392839161.
Definition P64_4 : N := 9650029242287828579.
Definition P64_5 : N := 2870177450012600261.

Definition round64 (acc v : N) : N := (shlor M64 ((acc + v * P64_2) mod M64) 31 33 * P64_1) mod M64.
Definition merge64 (acc v : N) : N := (N.lxor acc (round64 0 v) * P64_1 + P64_4) mod M64.

Fixpoint stripes64 (l : list N) (v : N * N * N * N) : list N * (N * N * N * N) :=
  match l with
  | a0 :: a1 :: a2 :: a3 :: a4 :: a5 :: a6 :: a7 :: b0 :: b1 :: b2 :: b3 :: b4 :: b5 :: b6 :: b7 ::
    c0 :: c1 :: c2 :: c3 :: c4 :: c5 :: c6 :: c7 :: d0 :: d1 :: d2 :: d3 :: d4 :: d5 :: d6 :: d7 :: r =>
      let '(v1, v2, v3, v4) := v in
      stripes64 r (round64 v1 (le8 a0 a1 a2 a3 a4 a5 a6 a7), round64 v2 (le8 b0 b1 b2 b3 b4 b5 b6 b7),
                   round64 v3 (le8 c0 c1 c2 c3 c4 c5 c6 c7), round64 v4 (le8 d0 d1 d2 d3 d4 d5 d6 d7))
  | _ => (l, v)
  end.

Fixpoint words64 (l : list N) (h : N) : list N * N :=
  match l with
  | b0 :: b1 :: b2 :: b3 :: b4 :: b5 :: b6 :: b7 :: r =>
      words64 r ((shlor M64 (N.lxor h (round64 0 (le8 b0 b1 b2 b3 b4 b5 b6 b7))) 27 37 * P64_1 + P64_4) mod M64)
  | _ => (l, h)
  end.

Fixpoint half64 (l : list N) (h : N) : list N * N :=
  match l with
  | b0 :: b1 :: b2 :: b3 :: r => half64 r ((shlor M64 (N.lxor h ((le4 b0 b1 b2 b3 * P64_1) mod M64)) 23 41 * P64_2 + P64_3) mod M64)
  | _ => (l, h)
  end.

Fixpoint bytes64 (l : list N) (h : N) : N :=
  match l with
  | b :: r => bytes64 r ((shlor M64 ((h + b * P64_5) mod M64) 11 53 * P64_1) mod M64)
  | [] => h
  end.

Definition avalanche64 (h : N) : N :=
  let h1 := (N.lxor h (N.shiftr h 33) * P64_2) mod M64 in
  let h2 := (N.lxor h1 (N.shiftr h1 29) * P64_3) mod M64 in
  N.lxor h2 (N.shiftr h2 32).

Definition xxh64 (seed : N) (data : list N) : N :=
  let n := N.of_nat (length data) in
  let '(rest, h0) :=
    if 32 <=? n then
      let '(r, (v1, v2, v3, v4)) := stripes64 data ((seed + P64_1 + P64_2) mod M64, (seed + P64_2) mod M64, seed mod M64, (seed + M64 - P64_1) mod M64) in
      let h := (shlor M64 v1 1 31 + shlor M64 v2 7 25 + shlor M64 v3 12 20 + shlor M64 v4 18 14) mod M64 in
      (r, merge64 (merge64 (merge64 (merge64 h v1) v2) v3) v4)
    else (data, (seed + P64_5) mod M64) in
  let '(rest2, h1) := words64 rest ((h0 + n) mod M64) in
  let '(rest3, h2) := half64 rest2 h1 in
  avalanche64 (bytes64 rest3 h2).

(* the checksum of a block, by the header's checksum kind (1: 32 bits, 2: 64 bits) *)
Definition block_hash (ck : N) (data : list N) : N := if ck =? 2 then xxh64 SEED data else xxh32 SEED data.
