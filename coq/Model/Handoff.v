(* Model of the block hand-off protocol of io/CompressedStream.go
   (encodingTask.encode / decodingTask.decode): n tasks with ids first+1 .. first+n share a
   bit stream; an atomic counter [cnt] holds the id of the last task that released the stream
   (-1 = cancelled).  A scheduler picks any task for each step; the environment picks the
   outcome of the fallible actions.  A spin iteration that changes nothing is a stutter.

   Ghost fields (acc/pub/pp) only record history; no transition reads them. *)
From Coq Require Import List ZArith Bool.
From KV Require Import Lib.ListX.
Import ListNotations.
Open Scope Z_scope.

Inductive side := Enc | Dec.

Inductive pc_t :=
  | Compute     (* Enc: transform + entropy coding into the task-local stream *)
  | Wait        (* spin on the counter *)
  | Hold        (* owns the shared stream: append (Enc) / read the block (Dec) *)
  | Publish     (* Dec: pass the token right after the shared read *)
  | Local       (* Dec: entropy decoding + inverse transform, concurrent *)
  | Defer1      (* deferred handler: cancel, or (Enc) CAS / (Dec) load *)
  | Defer2      (* Dec: the store that follows the load *)
  | Done.

Inductive outcome := Good | Fail | EndOfStream | Skipped.

Record task := mkT {
  t_pc : pc_t;
  t_err : bool;     (* res.err != nil *)
  t_ok : bool;      (* Dec: decoded > 0 *)
  t_skp : bool;     (* Dec: skipped *)
  t_acc : bool;     (* ghost: has entered Hold *)
  t_pub : bool;     (* ghost: has set the counter to its id *)
  t_pp : bool       (* ghost: Dec: has executed the publish instruction *)
}.

Record st := mkSt { cnt : Z; ts : list task; log : list Z }.

Definition init_task (sd : side) : task :=
  mkT (match sd with Enc => Compute | Dec => Wait end) false false false false false false.

Definition init (sd : side) (first : Z) (n : nat) : st := mkSt first (repeat (init_task sd) n) [].

Definition set_pc t p := mkT p (t_err t) (t_ok t) (t_skp t) (t_acc t) (t_pub t) (t_pp t).

Section Step.
Variable sd : side.
Variable cas : bool.       (* Dec: the publish after the shared read is a compare-and-swap *)
Variable first : Z.

Definition id_of (i : nat) : Z := first + 1 + Z.of_nat i.

(* one step of task i; None when there is no such task or it is Done *)
Definition step (s : st) (i : nat) (o : outcome) : option st :=
  match nth_error (ts s) i with
  | None => None
  | Some t =>
    let id := id_of i in
    let put t' := upd (ts s) i t' in
    match t_pc t with
    | Done => None
    | Compute =>
        Some (match o with
              | Fail => mkSt (cnt s) (put (mkT Defer1 true false false false false false)) (log s)
              | _ => mkSt (cnt s) (put (set_pc t Wait)) (log s)
              end)
    | Wait =>
        Some (if cnt s =? -1 then mkSt (cnt s) (put (set_pc t Defer1)) (log s)
              else if cnt s =? id - 1
                   then mkSt (cnt s) (put (mkT Hold (t_err t) false false true false false)) (log s ++ [id])
                   else s)
    | Hold =>
        Some (match sd, o with
              | _, Fail => mkSt (cnt s) (put (mkT Defer1 true false false true false false)) (log s)
              | Dec, EndOfStream => mkSt (cnt s) (put (mkT Defer1 (t_err t) false false true false false)) (log s)
              | Dec, _ => mkSt (cnt s) (put (set_pc t Publish)) (log s)
              | Enc, _ => mkSt (cnt s) (put (set_pc t Defer1)) (log s)
              end)
    | Publish =>
        let won := if cas then cnt s =? id - 1 else true in
        let c' := if won then id else cnt s in
        Some (match o with
              | Skipped => mkSt c' (put (mkT Defer1 (t_err t) false true true won true)) (log s)
              | _ => mkSt c' (put (mkT Local (t_err t) false false true won true)) (log s)
              end)
    | Local =>
        Some (match o with
              | Fail => mkSt (cnt s) (put (mkT Defer1 true false false (t_acc t) (t_pub t) true)) (log s)
              | EndOfStream => mkSt (cnt s) (put (mkT Defer1 (t_err t) false false (t_acc t) (t_pub t) true)) (log s)
              | _ => mkSt (cnt s) (put (mkT Defer1 (t_err t) true false (t_acc t) (t_pub t) true)) (log s)
              end)
    | Defer1 =>
        Some (match sd with
              | Enc =>
                  if t_err t then mkSt (-1) (put (set_pc t Done)) (log s)
                  else if cnt s =? id - 1
                       then mkSt id (put (mkT Done (t_err t) false false (t_acc t) true false)) (log s)
                       else mkSt (cnt s) (put (set_pc t Done)) (log s)
              | Dec =>
                  if t_err t || (negb (t_ok t) && negb (t_skp t))
                  then mkSt (-1) (put (set_pc t Done)) (log s)
                  else if cnt s =? id - 1 then mkSt (cnt s) (put (set_pc t Defer2)) (log s)
                       else mkSt (cnt s) (put (set_pc t Done)) (log s)
              end)
    | Defer2 => Some (mkSt id (put (mkT Done (t_err t) (t_ok t) (t_skp t) (t_acc t) true (t_pp t))) (log s))
    end
  end.

Fixpoint exec (s : st) (sched : list (nat * outcome)) : st :=
  match sched with
  | [] => s
  | (i, o) :: r => match step s i o with Some s' => exec s' r | None => exec s r end
  end.

End Step.

(* rank of a program counter: every non-stutter step lowers it *)
Definition rank (p : pc_t) : nat :=
  match p with Compute => 7 | Wait => 6 | Hold => 5 | Publish => 4 | Local => 3 | Defer1 => 2 | Defer2 => 1 | Done => 0 end.

Definition measure (s : st) : nat := fold_right (fun t a => (rank (t_pc t) + a)%nat) O (ts s).

Definition all_done (s : st) : bool := forallb (fun t => match t_pc t with Done => true | _ => false end) (ts s).

(* result scan of processBlock: first error in task order *)
Definition first_error (s : st) : option nat :=
  (fix go (l : list task) (i : nat) := match l with [] => None | t :: r => if t_err t then Some i else go r (S i) end) (ts s) O.
