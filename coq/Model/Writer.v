(* Model of the buffering logic of io.Writer (Write / processBlock / Close) in
   v2/io/CompressedStream.go.  Block encoding is abstract: the model records which byte
   strings are handed to the encoding tasks, with which ids, in which order (the hand-off
   protocol, Model/Handoff.v, shows that the tasks of a batch take effect in id order).
   [fails id] tells whether the task of block [id] fails (sink error, codec fault).

   slots: the [jobs] input buffers; Write copies into slot available/B at offset
   available mod B; stale content of a slot is kept, exactly as in the Go code. *)
From Coq Require Import List NArith Bool.
Import ListNotations.
Open Scope N_scope.

Record wst := mkW {
  w_slots : list (list N);     (* buffers[0 .. jobs-1] (input side) *)
  w_avail : N;                 (* this.available *)
  w_blockid : N;               (* number of blocks emitted so far (this.blockID when not cancelled) *)
  w_cancel : bool;             (* this.blockID == -1 *)
  w_out : list (N * list N);   (* (id, bytes) handed to encoding tasks that wrote their block *)
  w_header : bool;             (* header written *)
  w_closing : bool; w_finalized : bool; w_closed : bool
}.

Section W.
Variables (B jobs hintBlocks : N).     (* block size, jobs, nbInputBlocks (0 = unknown) *)
Variable fails : N -> bool.

Definition init_w : wst := mkW (repeat [] (N.to_nat jobs)) 0 0 false [] false false false false.

(* copy(dst[off:], src) on a buffer that is conceptually long enough *)
Definition overwrite (dst : list N) (off : N) (src : list N) : list N :=
  firstn (N.to_nat off) (dst ++ repeat 0 (N.to_nat off)) ++ src ++
  skipn (N.to_nat off + length src) dst.

Fixpoint set_nth {A} (l : list A) (i : nat) (v : A) : list A :=
  match l, i with
  | [], _ => []
  | _ :: t, O => v :: t
  | x :: t, S j => x :: set_nth t j v
  end.

(* tasks of one batch, in id order; stops at the first empty slot *)
Fixpoint run_tasks (n : nat) (task : nat) (s : wst) : wst * bool :=
  match n with
  | O => (s, false)
  | S m =>
      let len := N.min (w_avail s) B in
      if len =? 0 then (s, false) else
      let id := w_blockid s + 1 in
      let data := firstn (N.to_nat len) (nth task (w_slots s) []) in
      if w_cancel s then
        (* an earlier task of the batch failed: this one sees the cancel value and exits *)
        run_tasks m (S task) (mkW (w_slots s) (w_avail s - len) (w_blockid s + 1) true (w_out s)
                                  (w_header s) (w_closing s) (w_finalized s) (w_closed s))
      else if fails id then
        run_tasks m (S task) (mkW (w_slots s) (w_avail s - len) (w_blockid s + 1) true (w_out s)
                                  (w_header s) (w_closing s) (w_finalized s) (w_closed s))
      else
        run_tasks m (S task) (mkW (w_slots s) (w_avail s - len) (w_blockid s + 1) false
                                  (w_out s ++ [(id, data)]) (w_header s) (w_closing s) (w_finalized s) (w_closed s))
  end.

(* processBlock(): returns (state, error?) *)
Definition process_block (s : wst) : wst * bool :=
  if w_cancel s then (s, true) else
  let s := mkW (w_slots s) (w_avail s) (w_blockid s) false (w_out s) true
               (w_closing s) (w_finalized s) (w_closed s) in
  if w_avail s =? 0 then (s, false) else
  let nbBlocks := (w_avail s + B - 1) / B in
  let nbTasks := if (1 <? jobs) && (0 <? hintBlocks)
                 then N.min jobs (N.max hintBlocks nbBlocks) else jobs in
  match run_tasks (N.to_nat nbTasks) O s with
  | (s', _) => (s', w_cancel s')
  end.

(* the loop of Write: returns (state, bytes accepted, error?) *)
Fixpoint write_loop (fuel : nat) (s : wst) (block : list N) (done : N) : wst * N * bool :=
  match fuel with
  | O => (s, done, false)
  | S f =>
    match block with
    | [] => (s, done, false)
    | _ =>
      let bufOff := w_avail s mod B in
      let lenChunk := N.min (N.of_nat (length block)) (B - bufOff) in
      let bufID := N.to_nat (w_avail s / B) in
      let chunk := firstn (N.to_nat lenChunk) block in
      let rest := skipn (N.to_nat lenChunk) block in
      let slot' := overwrite (nth bufID (w_slots s) []) bufOff chunk in
      let s1 := mkW (set_nth (w_slots s) bufID slot') (w_avail s + lenChunk) (w_blockid s) (w_cancel s)
                    (w_out s) (w_header s) (w_closing s) (w_finalized s) (w_closed s) in
      if B <=? bufOff + lenChunk then
        if N.of_nat bufID + 1 <? jobs then write_loop f s1 rest (done + lenChunk)
        else match process_block s1 with
             | (s2, true) => (s2, done + lenChunk, true)
             | (s2, false) => write_loop f s2 rest (done + lenChunk)
             end
      else write_loop f s1 rest (done + lenChunk)
    end
  end.

Definition w_write (s : wst) (block : list N) : wst * N * bool :=
  if w_closed s || w_closing s || w_cancel s then (s, 0, true)
  else write_loop (S (length block)) s block 0.

(* Close(): returns (state, error?); [marker_fails]: the end-marker write hits a failing sink;
   [flush_fails]: the final flush of the bit stream fails *)
Definition w_close (s : wst) (marker_fails flush_fails : bool) : wst * bool :=
  if w_closed s then (s, false) else
  let '(s1, err) :=
    if w_finalized s then (s, false)
    else if w_closing s then (s, true)     (* CAS failed and not finalized: "Stream closed" *)
    else
      let s0 := mkW (w_slots s) (w_avail s) (w_blockid s) (w_cancel s) (w_out s) (w_header s) true false false in
      match process_block s0 with
      | (s', true) => (mkW (w_slots s') (w_avail s') (w_blockid s') (w_cancel s') (w_out s') (w_header s') false false false, true)
      | (s', false) =>
          if marker_fails
          then (mkW (w_slots s') (w_avail s') (w_blockid s') true (w_out s') (w_header s') false false false, true)
          else (mkW (w_slots s') (w_avail s') (w_blockid s') (w_cancel s') (w_out s') (w_header s') true true false, false)
      end in
  if err then (s1, true) else
  if flush_fails then (s1, true) else
  (mkW (w_slots s1) (w_avail s1) (w_blockid s1) (w_cancel s1) (w_out s1) (w_header s1) (w_closing s1) (w_finalized s1) true, false).

End W.

(* chunks of size B of a byte string: what the stream must contain, in order *)
Fixpoint chunks_f (fuel : nat) (B : N) (l : list N) : list (list N) :=
  match fuel with
  | O => []
  | S f => match l with
           | [] => []
           | _ => firstn (N.to_nat B) l :: chunks_f f B (skipn (N.to_nat B) l)
           end
  end.
Definition chunks (B : N) (l : list N) : list (list N) := chunks_f (length l) B l.
