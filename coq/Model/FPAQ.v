(* Model of entropy/FPAQCodec.go: the adaptive order-0 predictor (4 rows of 256 16-bit probabilities,
   row selected by the two top bits of the previous byte, node = the bits of the current byte seen
   so far with a leading 1) around the binary arithmetic coder of Model/BinCoder.v (shifts 8/8). *)
From Coq Require Import List NArith ZArith Bool.
From KV Require Import Model.OutBS Model.BinCoder.
Import ListNotations.
Open Scope N_scope.

Record fps := mkF { f_probs : list (list N); f_row : nat; f_node : N }.

Definition fpaq_init : fps := mkF (repeat (repeat 32768 256) 4) O 1.

Definition f_entry (ps : fps) : N := nth (N.to_nat (f_node ps)) (nth (f_row ps) (f_probs ps) []) 32768.

(* the value handed to the coder: the probability pointed to (an int that stays below 2^16; the cap makes that a fact of the model) *)
Definition fpaq_get (ps : fps) : N := N.min (f_entry ps) 65535.

Fixpoint set_nth {A} (l : list A) (i : nat) (v : A) : list A :=
  match l, i with
  | [], _ => []
  | _ :: t, O => v :: t
  | x :: t, S j => x :: set_nth t j v
  end.

(* bit 0:  p -= p >> 6 ;  bit 1:  p -= (p - 65536 + 64) >> 6  (arithmetic shift of a possibly negative int) *)
Definition fpaq_adapt (p : N) (bit : bool) : N :=
  if bit then Z.to_N (Z.of_N p - Z.shiftr (Z.of_N p - 65472) 6)%Z else p - N.shiftr p 6.

Definition fpaq_upd (ps : fps) (bit : bool) : fps :=
  let rowl := nth (f_row ps) (f_probs ps) [] in
  let rowl' := set_nth rowl (N.to_nat (f_node ps)) (fpaq_adapt (f_entry ps) bit) in
  let probs' := set_nth (f_probs ps) (f_row ps) rowl' in
  let node' := 2 * f_node ps + (if bit then 1 else 0) in
  if 256 <=? node' then mkF probs' (N.to_nat (N.shiftr (node' - 256) 6)) 1     (* byte complete: next row = byte >> 6 *)
  else mkF probs' (f_row ps) node'.

(* `p := this.probs[0]` at the start of every chunk *)
Definition fpaq_reset (ps : fps) : fps := mkF (f_probs ps) O 1.

Definition fpaq_encode (block : list N) : option (list N) :=
  encode 8 8 fps fpaq_get fpaq_upd fpaq_reset fpaq_chunk_len fpaq_buf_cap fpaq_init block.
Definition fpaq_decode (count : N) (s : list N) : dres :=
  decode 8 8 fps fpaq_get fpaq_upd fpaq_reset fpaq_chunk_len fpaq_accepts fpaq_init count s.
