(* Model of entropy/RangeCodec.go (order-0 range coder, carry-less, 28-bit digits) on top of the models of
   NormalizeFrequencies (Model/Normalize.v), EncodeAlphabet / DecodeAlphabet (Model/Alphabet.v) and the bit
   streams.  uint64 arithmetic is written with its wrap-around.  The encoder produces the list of bit stream
   operations of RangeEncoder.Write; the decoder runs on the input bit stream model. *)
From Coq Require Import List NArith ZArith Bool.
From KV Require Import Model.OutBS Model.InBS Model.Container Model.Normalize Model.Alphabet.
Import ListNotations.
Open Scope N_scope.

Definition W64 : N := 18446744073709551616.
Definition TOP_RANGE : N := 1152921504606846975.      (* 0x0FFFFFFFFFFFFFFF *)
Definition BOTTOM_RANGE : N := 65535.
Definition RANGE_MASK : N := 1152921500311879680.     (* 0x0FFFFFFF00000000 *)
Definition CHUNK : nat := 32768.
Definition LOG_RANGE : N := 12.

Definition histogram (block : list N) : list Z :=
  map (fun s => Z.of_nat (length (filter (N.eqb s) block))) (iota 256).

(* lr: lowered while 2^lr exceeds the chunk length, not below 8 *)
Fixpoint lower_lr (fuel : nat) (lr len : N) : N :=
  match fuel with O => lr | S f => if (8 <? lr) && (len <? 2 ^ lr) then lower_lr f (lr - 1) len else lr end.

Definition llr_of (lr : N) : N := if 16 <=? lr then 5 else if 8 <=? lr then 4 else 3.   (* 3, then ++ while 1<<llr <= lr *)
Definition bits_for (m : N) : N := if m =? 0 then 0 else N.log2 m + 1.                   (* smallest k with 2^k > m *)

Fixpoint chunks_of (fuel : nat) (k : nat) (l : list N) : list (list N) :=
  match fuel with O => [] | S f => match l with [] => [] | _ => firstn k l :: chunks_of f k (skipn k l) end end.

(* the frequencies (all but the first symbol of the alphabet), by chunks of 6 or 8 *)
Definition freq_ops (lr : N) (alpha : list N) (fr : list N) : list cop :=
  let chk := if Nat.ltb (length alpha) 64 then 6%nat else 8%nat in
  flat_map (fun ch =>
    let vals := map (fun a => nth (N.to_nat a) fr 0 - 1) ch in
    let lm := bits_for (fold_right N.max 0 vals) in
    CBits lm (llr_of lr) :: (if lm =? 0 then [] else map (fun v => CBits v lm) vals))
  (chunks_of (length alpha) chk (tl alpha)).

Definition header_ops (lr : N) (alpha fr : list N) : option (list cop) :=
  match encode_alphabet alpha with
  | None => None
  | Some aops => if Nat.eqb (length alpha) 0 then Some aops
                 else Some (aops ++ CBits (lr - 8) 3 :: freq_ops lr alpha fr)
  end.

Definition cum_of (fr : list N) : list N := fold_left (fun acc f => acc ++ [last acc 0 + f]) fr [0].

(* encodeByte: returns the new (low, rng) and the 28-bit digits written *)
Fixpoint enc_norm (fuel : nat) (low rng : N) (acc : list cop) : option (N * N * list cop) :=
  match fuel with
  | O => None
  | S f =>
    let differ := negb (N.land (N.lxor low ((low + rng) mod W64)) RANGE_MASK =? 0) in
    if differ && (BOTTOM_RANGE <? rng) then Some (low, rng, acc) else
    let rng1 := if differ then N.land ((W64 - low) mod W64) BOTTOM_RANGE else rng in
    enc_norm f ((low * 268435456) mod W64) ((rng1 * 268435456) mod W64) (acc ++ [CBits (N.shiftr low 32) 28])
  end.

Definition enc_byte (lr : N) (cum : list N) (st : N * N) (b : N) : option (N * N * list cop) :=
  let '(low, rng) := st in
  let c0 := nth (N.to_nat b) cum 0 in let c1 := nth (S (N.to_nat b)) cum 0 in
  let rng1 := N.shiftr rng lr in
  let low1 := (low + c0 * rng1) mod W64 in
  let rng2 := (rng1 * (c1 - c0)) mod W64 in
  enc_norm 8 low1 rng2 [].

Fixpoint enc_bytes (lr : N) (cum : list N) (st : N * N) (bs : list N) (acc : list cop) : option (N * list cop) :=
  match bs with
  | [] => Some (fst st, acc)
  | b :: r => match enc_byte lr cum st b with
              | None => None
              | Some (low, rng, ops) => enc_bytes lr cum (low, rng) r (acc ++ ops)
              end
  end.

Definition enc_chunk (buf : list N) : option (list cop) :=
  let len := N.of_nat (length buf) in
  let lr := lower_lr 8 LOG_RANGE len in
  match normalize (histogram buf) (Z.of_N len) (2 ^ Z.of_N lr) with
  | None => None
  | Some (frz, al) =>
    let fr := map Z.to_N frz in let alpha := map N.of_nat al in
    match header_ops lr alpha fr with
    | None => None
    | Some hops =>
      if Nat.leb (length alpha) 1 then Some hops else
      match enc_bytes lr (cum_of fr) (0, TOP_RANGE) buf [] with
      | None => None
      | Some (low, ops) => Some (hops ++ ops ++ [CBits low 60])
      end
    end
  end.

Fixpoint enc_chunks (fuel : nat) (block : list N) : option (list cop) :=
  match fuel with
  | O => Some []
  | S f => match block with
           | [] => Some []
           | _ => match enc_chunk (firstn CHUNK block), enc_chunks f (skipn CHUNK block) with
                  | Some a, Some b => Some (a ++ b)
                  | _, _ => None
                  end
           end
  end.

(* RangeEncoder.Write on a fresh bit stream, then Close: the bytes *)
Definition range_encode (block : list N) : option (list N) :=
  match enc_chunks (S (length block / CHUNK)) block with
  | None => None
  | Some ops => match run_cops (new_obs 1024) ops with
                | (s1, _) => match close healthy_sink s1 with (s2, _) => Some (o_out s2) end
                end
  end.

(* ---------- decoder ---------- *)
Inductive rdres := ROk (data : list N) | RInvalid | RPanic.

Definition upd_nth (l : list N) (k v : N) : list N := firstn (N.to_nat k) l ++ v :: skipn (S (N.to_nat k)) l.

(* the frequencies of one chunk of symbols: Some (Some (fr, sum)) ok; Some None invalid; None panic *)
Fixpoint read_freqs (s : ibs) (lm : N) (syms : list N) (fr : list N) (sum scale : N) : ibs * option (option (list N * N)) :=
  match syms with
  | [] => (s, Some (Some (fr, sum)))
  | a :: r =>
    if lm =? 0 then read_freqs s lm r (upd_nth fr a 1) (sum + 1) scale
    else match read_bits s lm with
         | (s1, Pan _) => (s1, None)
         | (s1, Val v) => if scale <=? v + 1 then (s1, Some None)
                          else read_freqs s1 lm r (upd_nth fr a (v + 1)) (sum + v + 1) scale
         end
  end.

Fixpoint read_chunks (s : ibs) (llr scale : N) (chs : list (list N)) (fr : list N) (sum : N) : ibs * option (option (list N * N)) :=
  match chs with
  | [] => (s, Some (Some (fr, sum)))
  | ch :: r =>
    match read_bits s llr with
    | (s1, Pan _) => (s1, None)
    | (s1, Val lm) =>
      if scale <? 2 ^ lm then (s1, Some None) else
      match read_freqs s1 lm ch fr sum scale with
      | (s2, Some (Some (fr', sum'))) => read_chunks s2 llr scale r fr' sum'
      | (s2, o) => (s2, o)
      end
    end
  end.

Inductive hres := HFreqs (alpha : list N) (fr : list N) (lr : N) | HEmpty | HInvalid | HPanic.

(* RangeDecoder.decodeHeader; [fr0]: the previous content of the frequency array (kept when the alphabet is full) *)
Definition decode_header (s : ibs) (fr0 : list N) : ibs * hres :=
  match decode_alphabet s 256 with
  | (s1, APanic) => (s1, HPanic)
  | (s1, AErrSize) => (s1, HInvalid)
  | (s1, AOk alpha) =>
    if Nat.eqb (length alpha) 0 then (s1, HEmpty) else
    let fr1 := if Nat.eqb (length alpha) 256 then fr0 else repeat 0 256 in
    match read_bits s1 3 with
    | (s2, Pan _) => (s2, HPanic)
    | (s2, Val v) =>
      let lr := 8 + v in let scale := 2 ^ lr in
      let chk := if Nat.ltb (length alpha) 64 then 6%nat else 8%nat in
      match read_chunks s2 (llr_of lr) scale (chunks_of (length alpha) chk (tl alpha)) fr1 0 with
      | (s3, None) => (s3, HPanic)
      | (s3, Some None) => (s3, HInvalid)
      | (s3, Some (Some (fr, sum))) =>
          if scale <=? sum then (s3, HInvalid)
          else (s3, HFreqs alpha (upd_nth fr (hd 0 alpha) (scale - sum)) lr)
      end
    end
  end.

(* f2s[count]: the symbol whose cumulated interval holds count *)
Fixpoint sym_of (cum : list N) (count : N) (sym : N) : N :=
  match cum with
  | _ :: ((c1 :: _) as r) => if count <? c1 then sym else sym_of r count (sym + 1)
  | _ => sym
  end.

Fixpoint dec_norm (fuel : nat) (s : ibs) (low rng code : N) : ibs * option (N * N * N) :=
  match fuel with
  | O => (s, None)
  | S f =>
    let differ := negb (N.land (N.lxor low ((low + rng) mod W64)) RANGE_MASK =? 0) in
    if differ && (BOTTOM_RANGE <? rng) then (s, Some (low, rng, code)) else
    let rng1 := if differ then N.land ((W64 - low) mod W64) BOTTOM_RANGE else rng in
    match read_bits s 28 with
    | (s1, Pan _) => (s1, None)
    | (s1, Val v) => dec_norm f s1 ((low * 268435456) mod W64) ((rng1 * 268435456) mod W64) (N.lor ((code * 268435456) mod W64) v)
    end
  end.

Fixpoint dec_bytes (n : nat) (s : ibs) (lr : N) (cum : list N) (low rng code : N) (acc : list N) : ibs * option (list N) :=
  match n with
  | O => (s, Some acc)
  | S m =>
    let rng1 := N.shiftr rng lr in
    if rng1 =? 0 then (s, None) else                                   (* division by zero: panic *)
    let count := ((code + W64 - low) mod W64) / rng1 in
    if 2 ^ lr <=? count then (s, None) else                            (* outside the table (the model stops here) *)
    let sym := sym_of cum count 0 in
    let c0 := nth (N.to_nat sym) cum 0 in let c1 := nth (S (N.to_nat sym)) cum 0 in
    let low1 := (low + c0 * rng1) mod W64 in
    let rng2 := (rng1 * (c1 - c0)) mod W64 in
    match dec_norm 8 s low1 rng2 code with
    | (s1, None) => (s1, None)
    | (s1, Some (low2, rng3, code2)) => dec_bytes m s1 lr cum low2 rng3 code2 (acc ++ [sym])
    end
  end.

Fixpoint dec_chunks (fuel : nat) (s : ibs) (remaining : nat) (fr0 : list N) (acc : list N) : rdres :=
  match fuel with
  | O => ROk acc
  | S f =>
    if Nat.eqb remaining 0 then ROk acc else
    let len := Nat.min CHUNK remaining in
    match decode_header s fr0 with
    | (_, HPanic) => RPanic
    | (_, HInvalid) => RInvalid
    | (_, HEmpty) => ROk acc                                 (* Read returns startChunk, nil: the caller sees a short count *)
    | (s1, HFreqs alpha fr lr) =>
      if Nat.eqb (length alpha) 1 then dec_chunks f s1 (remaining - len) fr (acc ++ repeat (hd 0 alpha) len)
      else match read_bits s1 60 with
           | (_, Pan _) => RPanic
           | (s2, Val code) =>
             match dec_bytes len s2 lr (cum_of fr) 0 TOP_RANGE code [] with
             | (_, None) => RPanic
             | (s3, Some bytes) => dec_chunks f s3 (remaining - len) fr (acc ++ bytes)
             end
           end
    end
  end.

(* RangeDecoder.Read(block of n bytes) on a fresh bit stream over the bytes *)
Definition range_decode (n : nat) (bytes : list N) : rdres :=
  dec_chunks (S (n / CHUNK)) (new_ibs 1024 (mkSrc bytes [] None 0)) n (repeat 0 256) [].
