(* Model of entropy/BinaryEntropyCodec.go (the binary arithmetic coder behind CM, TPAQ and TPAQX;
   entropy/FPAQCodec.go has the same coder with shifts 8/8 and 16-bit probabilities).
   uint64 arithmetic is written with its wrap-around (mod 2^64): the encoder's low/high do carry
   junk above bit 55 after a flush, exactly as in the Go code.
   The predictor is abstract: a state, Get and Update (the same deterministic machine on both sides).
   The code stream is a list of bytes: every write of the codec is a whole number of bytes
   (WriteVarInt: 8 bits per group, WriteArray: 8*index bits, WriteBits(.., 56)); that the bit stream
   carries them faithfully at any bit offset is C14. *)
From Coq Require Import List NArith Bool.
From KV Require Import Model.OutBS.
Import ListNotations.
Open Scope N_scope.

Definition W64 : N := 2 ^ 64.
Definition TOP : N := 72057594037927935.        (* 0x00FFFFFFFFFFFFFF *)
Definition MASK24 : N := 16777215.
Definition MASK32 : N := 4294967295.
Definition sub64 (a b : N) : N := (a + W64 - b) mod W64.        (* uint64 a - b, for a, b < 2^64 *)
Definition add64 (a b : N) : N := (a + b) mod W64.
Definition shl32 (a : N) : N := (N.shiftl a 32) mod W64.


Section BC.
Variables (sa sb : N).                 (* split = (((high - low) >> sa) * pred) >> sb *)
Variable PS : Type.
Variable pget : PS -> N.
Variable pupd : PS -> bool -> PS.
(* what differs between BinaryEntropyCodec and FPAQCodec around the same coder: the predictor state
   change at the start of a chunk, the chunk length and scratch-buffer size chosen for a block of
   [count] bytes, the decoder's acceptance test of a chunk's payload size *)
Variable chunk_reset : PS -> PS.
Variable chunk_len_of : N -> N.
Variable buf_cap_of : N -> N.
Variable dec_accepts : N -> N -> bool.

Definition split_of (low high pred : N) : N :=
  N.shiftr ((N.shiftr (sub64 high low) sa * pred) mod W64) sb.

(* ---------- encoder ---------- *)
Record est := mkE { e_low : N; e_high : N; e_buf : list N; e_ps : PS }.    (* e_buf = buffer[0:index] *)

(* EncodeBit; [cap] = len(buffer): PutUint32 panics when fewer than 4 bytes are left *)
Definition enc_bit (cap : N) (e : est) (bit : bool) : option est :=
  let split := split_of (e_low e) (e_high e) (pget (e_ps e)) in
  let low := if bit then e_low e else add64 (e_low e) (split + 1) in
  let high := if bit then add64 (e_low e) split else e_high e in
  let ps := pupd (e_ps e) bit in
  if N.lxor low high <? 16777216 then
    if cap <? N.of_nat (length (e_buf e)) + 4 then None
    else Some (mkE (shl32 low) (N.lor (shl32 high) MASK32)
                   (e_buf e ++ be_bytes 4 (N.shiftr high 24 mod 4294967296)) ps)
  else Some (mkE low high (e_buf e) ps).

Definition bits_of_byte (v : N) : list bool :=
  map (fun k => N.testbit v k) [7; 6; 5; 4; 3; 2; 1; 0].

Fixpoint enc_bits (cap : N) (e : est) (bits : list bool) : option est :=
  match bits with
  | [] => Some e
  | b :: r => match enc_bit cap e b with None => None | Some e' => enc_bits cap e' r end
  end.

Definition enc_bytes (cap : N) (e : est) (bytes : list N) : option est :=
  enc_bits cap e (flat_map bits_of_byte bytes).

(* WriteVarInt *)
Fixpoint varint_f (fuel : nat) (v : N) : list N :=
  match fuel with
  | O => [v mod 256]
  | S f => if 128 <=? v then (N.lor 128 (N.land v 127)) :: varint_f f (N.shiftr v 7) else [v]
  end.
Definition varint (v : N) : list N := varint_f 5 v.

Definition final56 (low : N) : list N := be_bytes 7 (N.lor low MASK24 mod 2 ^ 56).

(* chunk length and buffer size chosen by Write / Read for a block of [count] bytes *)
Definition chunk_len (count : N) : N :=
  if 67108864 <=? count then (if count <? 536870912 then N.shiftr count 3 else N.shiftr count 4)
  else if count <? 64 then 64 else count.
Definition buf_size (count : N) : N := chunk_len count + N.shiftr (chunk_len count) 3.

(* the loop of Write: returns the bytes written to the bit stream *)
Fixpoint write_chunks (fuel : nat) (len cap : N) (e : est) (block : list N) (acc : list N) : option (list N * est) :=
  match fuel with
  | O => Some (acc, e)
  | S f =>
    match block with
    | [] => Some (acc, e)
    | _ =>
      let chunk := firstn (N.to_nat len) block in
      let rest := skipn (N.to_nat len) block in
      match enc_bytes cap (mkE (e_low e) (e_high e) [] (chunk_reset (e_ps e))) chunk with
      | None => None
      | Some e1 =>
          let out := acc ++ varint (N.of_nat (length (e_buf e1))) ++ e_buf e1 in
          match rest with
          | [] => Some (out, e1)
          | _ => write_chunks f len cap e1 rest (out ++ final56 (e_low e1))
          end
      end
    end
  end.

(* Write(block) then Dispose() on a fresh encoder; None = the encoder ran out of its buffer (panic),
   or the block is longer than 2^30 (error) *)
Definition encode (ps0 : PS) (block : list N) : option (list N) :=
  let count := N.of_nat (length block) in
  if count =? 0 then Some [] else
  if 1073741824 <? count then None else
  match write_chunks (length block) (chunk_len_of count) (buf_cap_of count) (mkE 0 TOP [] ps0) block [] with
  | None => None
  | Some (out, e) => Some (out ++ final56 (e_low e))
  end.

(* ---------- decoder ---------- *)
Record dst := mkD { d_low : N; d_high : N; d_cur : N; d_buf : list N; d_ps : PS }.   (* d_buf = buffer[index:] *)

Definition dec_bit (d : dst) : dst * bool :=
  let split := add64 (split_of (d_low d) (d_high d) (pget (d_ps d))) (d_low d) in
  let bit := d_cur d <=? split in
  let low := if bit then d_low d else add64 split 1 in
  let high := if bit then split else d_high d in
  let ps := pupd (d_ps d) bit in
  if N.lxor low high <? 16777216 then
    let val := be_val (firstn 4 (d_buf d ++ [0; 0; 0; 0])) in     (* bytes past the data read as they are in a zeroed buffer *)
    (mkD (N.land (shl32 low) TOP) (N.land (N.lor (shl32 high) MASK32) TOP)
         (N.land (N.lor (shl32 (d_cur d)) val) TOP) (skipn 4 (d_buf d)) ps, bit)
  else (mkD low high (d_cur d) (d_buf d) ps, bit).

Fixpoint dec_bits (n : nat) (d : dst) : dst * list bool :=
  match n with
  | O => (d, [])
  | S m => let '(d1, b) := dec_bit d in let '(d2, r) := dec_bits m d1 in (d2, b :: r)
  end.

Definition byte_of_bits (bs : list bool) : N :=
  fold_left (fun acc (b : bool) => 2 * acc + (if b then 1 else 0)) bs 0.

Fixpoint dec_bytes (n : nat) (d : dst) : dst * list N :=
  match n with
  | O => (d, [])
  | S m => let '(d1, bs) := dec_bits 8 d in let '(d2, r) := dec_bytes m d1 in (d2, byte_of_bits bs :: r)
  end.

(* ReadVarInt: returns the value and the rest of the stream *)
Fixpoint read_varint_f (fuel : nat) (shift : N) (res : N) (s : list N) : option (N * list N) :=
  match s with
  | [] => None
  | v :: r =>
    match fuel with
    | O => Some (N.lor res (N.shiftl (N.land v 15) 28), r)
    | S f =>
        let res' := N.lor res (N.shiftl (N.land v 127) shift) in
        if v <? 128 then Some (res', r) else read_varint_f f (shift + 7) res' r
    end
  end.
Definition read_varint (s : list N) : option (N * list N) := read_varint_f 4 0 0 s.

Inductive dres := DOk (block : list N) (rest : list N) | DInvalid | DEos.

(* the loop of Read *)
Fixpoint read_chunks (fuel : nat) (len count : N) (low high : N) (ps : PS) (remaining : N) (s : list N) (acc : list N) : dres :=
  match fuel with
  | O => DOk acc s
  | S f =>
    if remaining =? 0 then DOk acc s else
    let chunk := N.min len remaining in
    match read_varint s with
    | None => DEos
    | Some (sz, s1) =>
      if negb (dec_accepts count sz) then DInvalid else
      if N.of_nat (length s1) <? 7 + sz then DEos else
      let cur := be_val (firstn 7 s1) in
      let buf := firstn (N.to_nat sz) (skipn 7 s1) in
      let s2 := skipn (N.to_nat sz) (skipn 7 s1) in
      let '(d, bytes) := dec_bytes (N.to_nat chunk) (mkD low high cur buf (chunk_reset ps)) in
      read_chunks f len count (d_low d) (d_high d) (d_ps d) (remaining - chunk) s2 (acc ++ bytes)
    end
  end.

(* Read(block of [count] bytes) on a fresh decoder *)
Definition decode (ps0 : PS) (count : N) (s : list N) : dres :=
  if 1073741824 <? count then DInvalid else
  read_chunks (N.to_nat count) (chunk_len_of count) count 0 TOP ps0 count s [].

End BC.

(* BinaryEntropyCodec.go: no reset, chunk_len / buf_size above, a chunk is refused when larger than the buffer *)
Definition bin_accepts (count sz : N) : bool := negb (buf_size count <? sz).
Definition bin_encode sa sb PS pget pupd := encode sa sb PS pget pupd (fun ps => ps) chunk_len buf_size.
Definition bin_decode sa sb PS pget pupd := decode sa sb PS pget pupd (fun ps => ps) chunk_len bin_accepts.

(* FPAQCodec.go: 4 MiB chunks, buffer of chunk + chunk/8 bytes, a chunk is refused when its size is >= 2 * len(block) *)
Definition fpaq_chunk_len (count : N) : N := N.min count 4194304.
Definition fpaq_buf_cap (count : N) : N := fpaq_chunk_len count + N.shiftr (fpaq_chunk_len count) 3.
Definition fpaq_accepts (count sz : N) : bool := sz <? 2 * count.
