(* Model of transform/SBRT.go (Sort-By-Rank: the MTFT and RANK transforms, and the time-stamp mode).
   State: r2s (symbols by rank; [s_l]), p (last access time of a symbol), q (its sort key).  The encoder's
   second array s2r is the inverse permutation of r2s, kept incrementally by the code; here the rank of
   a symbol is looked up in r2s ([index_of]).  The move-up loop
       for r > 0 && q[r2s[r-1]] <= qc { r2s[r] = r2s[r-1]; r-- } ; r2s[r] = c
   is written as list surgery ([bump]): the symbols of rank r-1, r-2, .. whose key is <= qc move up by
   one rank and c is inserted below them. *)
From Coq Require Import List NArith Bool.
Import ListNotations.
Open Scope N_scope.

Definition get (l : list N) (k : N) : N := nth (N.to_nat k) l 0.
Definition upd (l : list N) (k : nat) (v : N) : list N := firstn k l ++ v :: skipn (S k) l.

(* ((i & mask1) + (p[c] & mask2)) >> shift, by mode (1 MTF, 2 RANK, 3 TIMESTAMP) *)
Definition qc_of (mode i pc : N) : N :=
  if mode =? 1 then i else if mode =? 2 then (i + pc) / 2 else pc.

Fixpoint span_le (q : list N) (qc : N) (revp : list N) : list N * list N :=
  match revp with
  | t :: rest => if get q t <=? qc then let '(a, b) := span_le q qc rest in (t :: a, b) else ([], revp)
  | [] => ([], [])
  end.

Definition bump (q : list N) (qc : N) (L : list N) (r : nat) (c : N) : list N :=
  let '(a, b) := span_le q qc (rev (firstn r L)) in
  rev b ++ c :: rev a ++ skipn (S r) L.

Fixpoint index_of (c : N) (L : list N) : nat :=
  match L with [] => O | x :: t => if x =? c then O else S (index_of c t) end.

Record sst := mkS { s_l : list N; s_p : list N; s_q : list N }.
Definition iota256 : list N := map N.of_nat (seq 0 256).
Definition init_s : sst := mkS iota256 (repeat 0 256) (repeat 0 256).

Definition sstep (mode i : N) (st : sst) (r : nat) (c : N) : sst :=
  let qc := qc_of mode i (get (s_p st) c) in
  let q' := upd (s_q st) (N.to_nat c) qc in
  mkS (bump q' qc (s_l st) r c) (upd (s_p st) (N.to_nat c) i) q'.

Fixpoint fwd_loop (mode i : N) (st : sst) (src : list N) : list N :=
  match src with
  | [] => []
  | c :: t => let r := index_of c (s_l st) in N.of_nat r :: fwd_loop mode (i + 1) (sstep mode i st r c) t
  end.

Fixpoint inv_loop (mode i : N) (st : sst) (src : list N) : list N :=
  match src with
  | [] => []
  | r :: t => let c := get (s_l st) r in c :: inv_loop mode (i + 1) (sstep mode i st (N.to_nat r) c) t
  end.

Definition MAX_HEADER : nat := 33.        (* _BWT_MAX_HEADER_SIZE: SBRT.MaxEncodedLen = n + 33 *)

(* Forward(src, dst[0:cap]) / Inverse(src, dst[0:cap]): None = error *)
Definition sbrt_fwd (mode : N) (src : list N) (cap : nat) : option (list N) :=
  if Nat.ltb cap (length src + MAX_HEADER) then None else Some (fwd_loop mode 0 init_s src).
Definition sbrt_inv (mode : N) (src : list N) (cap : nat) : option (list N) :=
  if Nat.ltb cap (length src) then None else Some (inv_loop mode 0 init_s src).
