(* Model of the codec name <-> type conversions (transform/Factory.go GetType/GetName,
   entropy/EntropyCodecFactory.go GetType/GetName), parameterised by the tables that
   tools/gotrans extracts from the switch statements of the current sources (Gen/Names.v). *)
From Coq Require Import List ZArith String Ascii Bool.
Import ListNotations.
Open Scope Z_scope.

Definition upper_ascii (c : ascii) : ascii :=
  let n := nat_of_ascii c in
  if (Nat.leb 97 n) && (Nat.leb n 122) then ascii_of_nat (n - 32) else c.

Fixpoint upper (s : string) : string :=
  match s with EmptyString => EmptyString | String c r => String (upper_ascii c) (upper r) end.

Fixpoint assoc_s (tbl : list (string * Z)) (k : string) : option Z :=
  match tbl with [] => None | (n, t) :: r => if String.eqb n k then Some t else assoc_s r k end.

Fixpoint assoc_z (tbl : list (Z * string)) (k : Z) : option string :=
  match tbl with [] => None | (t, n) :: r => if t =? k then Some n else assoc_z r k end.

(* strings.Split(name, "+") *)
Fixpoint split_plus (s : string) (cur : string) : list string :=
  match s with
  | EmptyString => [cur]
  | String c r => if Ascii.eqb c "+"%char then cur :: split_plus r EmptyString
                  else split_plus r (cur ++ String c EmptyString)
  end.

Fixpoint join_plus (l : list string) : string :=
  match l with [] => EmptyString | [x] => x | x :: r => (x ++ "+" ++ join_plus r)%string end.

Section Tables.
Variable n2t : list (string * Z).
Variable t2n : list (Z * string).
Variable uppercases : bool.

Definition token_type (tok : string) : option Z :=
  assoc_s n2t (if uppercases then upper tok else tok).

(* types of the tokens, NONE (0) elements dropped; None = unknown name *)
Fixpoint token_types (toks : list string) : option (list Z) :=
  match toks with
  | [] => Some []
  | tok :: r =>
      match token_type tok, token_types r with
      | Some t, Some ts => Some (if t =? 0 then ts else t :: ts)
      | _, _ => None
      end
  end.

(* 8 slots of 6 bits, first transform in the top slot (shift 42) *)
Definition pack_l (l : list Z) : Z := fold_left (fun a d => a * 64 + d) l 0.
Definition pad8 (l : list Z) : list Z := (l ++ repeat 0 (8 - List.length l))%list.
Definition pack (ts : list Z) : Z := pack_l (pad8 ts).

Fixpoint unpack_n (n : nat) (z : Z) : list Z :=
  match n with O => [] | S m => (unpack_n m (z / 64) ++ [z mod 64])%list end.
Definition slots (t : Z) : list Z := unpack_n 8 t.

Definition get_type_toks (toks : list string) : option Z :=
  if Nat.ltb 8 (List.length toks) then None else option_map pack (token_types toks).

Definition get_type (name : string) : option Z := get_type_toks (split_plus name EmptyString).

Fixpoint names_of (ts : list Z) : option (list string) :=
  match ts with
  | [] => Some []
  | t :: r => if t =? 0 then names_of r else
              match assoc_z t2n t, names_of r with
              | Some n, Some ns => Some (n :: ns)
              | _, _ => None
              end
  end.

Definition get_name_toks (t : Z) : option (list string) :=
  match names_of (slots t) with
  | Some [] => option_map (fun n => [n]) (assoc_z t2n 0)
  | r => r
  end.

Definition get_name (t : Z) : option string := option_map join_plus (get_name_toks t).

(* the entropy codec tables are flat *)
Definition get_etype (name : string) : option Z := token_type name.
Definition get_ename (t : Z) : option string := assoc_z t2n t.

End Tables.

(* a variant-selection site compares the context string with a literal *)
Definition site_selects (uppercased : bool) (lit ctxval : string) : bool :=
  String.eqb (if uppercased then upper ctxval else ctxval) lit.
