(* Model of bitstream/DefaultOutputBitStream.go, operation by operation.
   64-bit words are N with explicit truncation; bytes are N in 0..255.
   The sink (io.WriteCloser) is modelled as the list of delivered bytes plus a call counter;
   [fail k = true] makes the k-th Write call of the sink return an error (nothing delivered).
   Every operation returns the new state and a flag telling whether the Go code panicked:
   the state at the panic is kept because callers recover and go on using the object. *)
From Coq Require Import List NArith ZArith Bool.
Import ListNotations.
Open Scope N_scope.

Definition mask64 : N := 18446744073709551615.
Definition shl64 (x n : N) : N := if 64 <=? n then 0 else N.land (N.shiftl x n) mask64.
Definition shr64 (x n : N) : N := if 64 <=? n then 0 else N.shiftr x n.

(* binary.BigEndian.PutUint64: the k low-order bytes of v, most significant first *)
Fixpoint be_bytes (k : nat) (v : N) : list N :=
  match k with O => [] | S k' => be_bytes k' (v / 256) ++ [v mod 256] end.
Definition be8 (v : N) : list N := be_bytes 8 v.

Fixpoint be_val (l : list N) : N :=          (* big-endian value of a byte string *)
  match l with [] => 0 | b :: t => b * 2 ^ (8 * N.of_nat (length t)) + be_val t end.

Definition word_of (l : list N) : N := be_val (firstn 8 l).   (* binary.BigEndian.Uint64 *)

Record obs := mkO {
  o_closed : bool;
  o_written : Z;          (* this.written (bits flushed, with Close adjustments) *)
  o_buf : list N;         (* buffer[0:position] *)
  o_size : N;             (* len(buffer) *)
  o_avail : N;            (* availBits *)
  o_cur : N;              (* current *)
  o_out : list N;         (* bytes accepted by the sink so far *)
  o_calls : N             (* number of sink Write calls so far *)
}.

Definition o_pos (s : obs) : N := N.of_nat (length (o_buf s)).

Definition new_obs (bufsize : N) : obs := mkO false 0 [] bufsize 64 0 [] 0.

Definition set_buf s b := mkO (o_closed s) (o_written s) b (o_size s) (o_avail s) (o_cur s) (o_out s) (o_calls s).
Definition set_acc s a c := mkO (o_closed s) (o_written s) (o_buf s) (o_size s) a c (o_out s) (o_calls s).

Section Faults.
Variable fail : N -> bool.

(* flush(): returns (state, error?) *)
Definition flush (s : obs) : obs * bool :=
  if o_closed s then (set_buf s [], true)      (* rejected word dropped: position = 0 *)
  else if 0 <? o_pos s then
    let c := o_calls s + 1 in
    if fail c then (mkO (o_closed s) (o_written s) (o_buf s) (o_size s) (o_avail s) (o_cur s) (o_out s) c, true)
    else (mkO (o_closed s) (o_written s + 8 * Z.of_N (o_pos s))%Z [] (o_size s) (o_avail s) (o_cur s)
              (o_out s ++ o_buf s) c, false)
  else (s, false).

(* push(val): returns (state, panicked?) *)
Definition push (s : obs) (v : N) : obs * bool :=
  if o_size s <? o_pos s + 8 then (s, true)        (* slice bounds: only on a closed stream *)
  else
    let s1 := set_buf s (o_buf s ++ be8 v) in
    if o_size s1 - 8 <=? o_pos s1 then flush s1 else (s1, false).

Definition write_bit (s : obs) (bit : N) : obs * bool :=
  let b := N.land bit 1 in
  if o_avail s <=? 1 then
    match push s (N.lor (o_cur s) b) with
    | (s1, true) => (s1, true)
    | (s1, false) => (set_acc s1 64 0, false)
    end
  else
    let a := o_avail s - 1 in
    (set_acc s a (N.lor (o_cur s) (shl64 b a)), false).

Definition write_bits (s : obs) (value count : N) : obs * bool :=
  if 64 <? count then (s, true) else
  let cur := N.lor (o_cur s) (shr64 (shl64 value (64 - count)) (64 - o_avail s)) in
  let s0 := set_acc s (o_avail s) cur in
  if o_avail s <=? count then
    let remaining := count - o_avail s in
    match push s0 cur with
    | (s1, true) => (s1, true)
    | (s1, false) => (set_acc s1 (64 - remaining) (shl64 value (64 - remaining)), false)
    end
  else (set_acc s0 (o_avail s - count) cur, false).

(* --- WriteArray --- *)

(* `for availBits != 64 && remaining >= 8 { WriteBits(bits[start], 8) ... }` and the "last bytes" loop *)
Fixpoint write_bytes_while (stop_at_64 : bool) (s : obs) (bits : list N) (remaining : N)
  : obs * bool * list N * N :=
  match bits with
  | [] => (s, false, bits, remaining)
  | b :: t =>
      if (stop_at_64 && (o_avail s =? 64)) || (remaining <? 8) then (s, false, bits, remaining)
      else match write_bits s b 8 with
           | (s1, true) => (s1, true, t, remaining - 8)
           | (s1, false) => write_bytes_while stop_at_64 s1 t (remaining - 8)
           end
  end.

(* aligned bulk copy loop: `for remaining>>3 >= maxPos-position { copy; flush }` *)
Fixpoint bulk_copy (fuel : nat) (s : obs) (bits : list N) (remaining : N) : obs * bool * list N * N :=
  match fuel with
  | O => (s, false, bits, remaining)
  | S f =>
      let maxpos := o_size s - 8 in
      let room := maxpos - o_pos s in
      if room <=? N.shiftr remaining 3 then
        let k := N.to_nat room in
        let s1 := set_buf s (o_buf s ++ firstn k bits) in
        match flush s1 with
        | (s2, true) => (s2, true, skipn k bits, remaining - 8 * room)
        | (s2, false) => bulk_copy f s2 (skipn k bits) (remaining - 8 * room)
        end
      else (s, false, bits, remaining)
  end.

(* unaligned: 256-bit combining loop. r = 64 - a *)
Fixpoint loop256 (fuel : nat) (a : N) (s : obs) (bits : list N) (remaining : N) : obs * bool * list N * N :=
  match fuel with
  | O => (s, false, bits, remaining)
  | S f =>
      if 256 <=? remaining then
        let r := 64 - a in
        let v1 := word_of bits in
        let v2 := word_of (skipn 8 bits) in
        let v3 := word_of (skipn 16 bits) in
        let v4 := word_of (skipn 24 bits) in
        let cur := N.lor (o_cur s) (shr64 v1 r) in
        let s0 := set_acc s (o_avail s) cur in
        let '(s1, err) := if o_size s0 - 32 <=? o_pos s0 then flush s0 else (s0, false) in
        if err then (s1, true, bits, remaining) else
        let w2 := N.lor (shl64 v1 a) (shr64 v2 r) in
        let w3 := N.lor (shl64 v2 a) (shr64 v3 r) in
        let w4 := N.lor (shl64 v3 a) (shr64 v4 r) in
        let s2 := set_buf s1 (o_buf s1 ++ be8 cur ++ be8 w2 ++ be8 w3 ++ be8 w4) in
        loop256 f a (set_acc s2 64 (shl64 v4 a)) (skipn 32 bits) (remaining - 256)
      else (s, false, bits, remaining)
  end.

Fixpoint loop64 (fuel : nat) (a : N) (s : obs) (bits : list N) (remaining : N) : obs * bool * list N * N :=
  match fuel with
  | O => (s, false, bits, remaining)
  | S f =>
      if 64 <=? remaining then
        let r := 64 - a in
        let v := word_of bits in
        match push s (N.lor (o_cur s) (shr64 v r)) with
        | (s1, true) => (s1, true, bits, remaining)
        | (s1, false) => loop64 f a (set_acc s1 64 (shl64 v a)) (skipn 8 bits) (remaining - 64)
        end
      else (s, false, bits, remaining)
  end.

Definition write_array (s : obs) (bits : list N) (count : N) : obs * bool :=
  if o_closed s then (s, true) else
  if 8 * N.of_nat (length bits) <? count then (s, true) else
  let fuel := S (length bits) in
  let '(s1, p1, bits1, rem1) :=
    if N.land (o_avail s) 7 =? 0 then
      match write_bytes_while true s bits count with
      | (sa, true, b, r) => (sa, true, b, r)
      | (sa, false, b, r) =>
          match bulk_copy fuel sa b r with
          | (sb, true, b2, r2) => (sb, true, b2, r2)
          | (sb, false, b2, r2) =>
              let k := 8 * N.shiftr r2 6 in          (* (remaining >> 6) << 3 bytes *)
              if 0 <? k then
                (set_buf sb (o_buf sb ++ firstn (N.to_nat k) b2), false, skipn (N.to_nat k) b2, r2 - 8 * k)
              else (sb, false, b2, r2)
          end
      end
    else if 64 <=? count then
      let a := o_avail s in
      match loop256 fuel a s bits count with
      | (sa, true, b, r) => (sa, true, b, r)
      | (sa, false, b, r) =>
          match loop64 fuel a sa b r with
          | (sb, true, b2, r2) => (sb, true, b2, r2)
          | (sb, false, b2, r2) => (set_acc sb a (o_cur sb), false, b2, r2)
          end
      end
    else (s, false, bits, count) in
  if p1 then (s1, true) else
  match write_bytes_while false s1 bits1 rem1 with
  | (s2, true, _, _) => (s2, true)
  | (s2, false, bits2, rem2) =>
      if 0 <? rem2 then write_bits s2 (N.shiftr (hd 0 bits2) (8 - rem2)) rem2
      else (s2, false)
  end.

(* Close(): returns (state, error?) — never panics *)
Fixpoint spill (n : nat) (shift : N) (buf : list N) (cur : N) : list N :=
  match n with
  | O => buf
  | S m => spill m (shift - 8) (buf ++ [N.land (N.shiftr cur shift) 255]) cur
  end.

Definition close (s : obs) : obs * bool :=
  if o_closed s then (s, false) else
  let nbytes := (64 - o_avail s + 7) / 8 in        (* bytes pushed by the spill loop *)
  (* buffer[position] = ... panics (index out of range) when an earlier failed flush left the
     buffer full; position is a multiple of 8, so either every spilled byte fits or none *)
  if o_size s <? o_pos s + nbytes then (s, true) else
  let avail' := o_avail s + 8 * nbytes in
  let buf' := spill (N.to_nat nbytes) 56 (o_buf s) (o_cur s) in
  let written' := (o_written s - (Z.of_N avail' - 64))%Z in
  let s1 := mkO false written' buf' (o_size s) 64 (o_cur s) (o_out s) (o_calls s) in
  match flush s1 with
  | (s2, true) =>
      (* revert availBits/position/current — but not written *)
      (mkO false (o_written s2) (o_buf s) (o_size s) (o_avail s) (o_cur s) (o_out s2) (o_calls s2), true)
  | (s2, false) =>
      (mkO true (o_written s2 - 64)%Z [] 8 0 (o_cur s2) (o_out s2) (o_calls s2), false)
  end.

Definition written (s : obs) : Z :=
  (o_written s + 8 * Z.of_N (o_pos s) + (64 - Z.of_N (o_avail s)))%Z.

End Faults.
