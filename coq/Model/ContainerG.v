(* The container around blocks coded with an entropy codec: the frames of Model/Container.v with the block's inner
   image and its parser as parameters, and the inner image / parser of the NONE transform + RANGE entropy pipeline
   (encodingTask.encode / decodingTask.decode with entropy.RANGE_TYPE: mode byte, post-transform length, optional
   checksum, then RangeEncoder.Write on the block; blocks of at most 15 bytes are stored by the copy path). *)
From Coq Require Import List NArith ZArith Bool.
From KV Require Import Model.OutBS Model.InBS Model.Header Model.Container Model.RangeCodec.
Import ListNotations.
Open Scope N_scope.

Definition RANGE_TYPE : N := 4.

(* ---------- frames and stream, for any inner image and inner parser ---------- *)
Section G.
Variable img : list N -> list N * N.
Variable pin : N -> list N -> pframe.

Definition frame_ops_g (b : list N) : list cop :=
  let '(im, w) := img b in
  let lw := if 8 <=? w then N.log2 (w / 8) + 4 else 3 in
  [CBits (lw - 3) 5; CBits w lw] ++ arr_chunks (S (N.to_nat (w / 1073741824))) im w.

Definition stream_ops_g (c : hcfg) (blocks : list (list N)) : list cop :=
  map (fun f => CBits (fst f) (snd f)) (header_fields c) ++ flat_map frame_ops_g blocks ++ end_marker.

Definition write_stream_g (c : hcfg) (blocks : list (list N)) : list N :=
  match run_cops (new_obs 65536) (stream_ops_g c blocks) with
  | (s1, _) => match close healthy_sink s1 with (s2, _) => o_out s2 end
  end.

Fixpoint parse_frames_g (fuel : nat) (bsize : N) (s : ibs) : list pframe :=
  match fuel with
  | O => []
  | S f =>
    match read_bits s 5 with
    | (_, Pan _) => [PFail]
    | (s1, Val l3) =>
      match read_bits s1 (l3 + 3) with
      | (_, Pan _) => [PFail]
      | (s2, Val w) =>
        if w =? 0 then [PEnd] else
        if 17179869184 <? w then [PFail] else
        match read_img (S (N.to_nat (w / 1073741824))) s2 w [] with
        | (_, None) => [PFail]
        | (s3, Some im) => pin bsize im :: parse_frames_g f bsize s3
        end
      end
    end
  end.
End G.

(* ---------- NONE transform, RANGE entropy: one block in its own bit stream ---------- *)
Definition range_payload (b : list N) : list cop :=
  match enc_chunks (S (length b / CHUNK)) b with Some ops => ops | None => [] end.

Section R.
Variable hash : list N -> N.

Definition inner_ops_r (ck : N) (b : list N) : list cop :=
  let n := N.of_nat (length b) in
  [CBits (block_mode n) 8; CBits n (8 * data_size n)] ++
  (if ck =? 1 then [CBits (hash b) 32] else if ck =? 2 then [CBits (hash b) 64] else []) ++
  (if n <=? 15 then null_chunks (S (N.to_nat (n / 8388608))) b else range_payload b).

Definition inner_image_r (ck : N) (b : list N) : list N * N :=
  match run_cops (new_obs 16384) (inner_ops_r ck b) with
  | (s1, _) => match close healthy_sink s1 with
               | (s2, _) => (o_out s2, Z.to_N (written s2))
               end
  end.

Definition parse_inner_r (ck bsize : N) (im : list N) : pframe :=
  let s := new_ibs 16384 (mkSrc im [] None 0) in
  match read_bits s 8 with
  | (_, Pan _) => PFail
  | (s1, Val mode) =>
    let copy := negb (N.land mode 128 =? 0) in
    let '(s2, okskip) :=
      if negb copy && negb (N.land mode 16 =? 0)
      then match read_bits s1 8 with (s', Val _) => (s', true) | (s', Pan _) => (s', false) end
      else (s1, true) in
    if negb okskip then PFail else
    let dsz := 1 + N.land (N.shiftr mode 5) 3 in
    match read_bits s2 (8 * dsz) with
    | (_, Pan _) => PFail
    | (s3, Val len) =>
      let maxlen := N.min (N.max (bsize + bsize / 2) 2048) MAX_BLOCK in
      if (len =? 0) || (maxlen <? len) then PFail else
      let '(s4, stored) :=
        if ck =? 1 then match read_bits s3 32 with (s', Val v) => (s', Some v) | (s', Pan _) => (s', None) end
        else if ck =? 2 then match read_bits s3 64 with (s', Val v) => (s', Some v) | (s', Pan _) => (s', None) end
        else (s3, Some 0) in
      match stored with
      | None => PFail
      | Some h =>
        let payload :=
          if copy then snd (null_read (S (N.to_nat (len / 8388608))) s4 len [])
          else match dec_chunks (S (N.to_nat len / CHUNK)) s4 (N.to_nat len) (repeat 0 256) [] with
               | ROk data => if N.of_nat (length data) =? len then Some data else None
               | _ => None
               end in
        match payload with
        | None => PFail
        | Some data => if (ck =? 0) || (hash data =? h) then PData data else PFail
        end
      end
    end
  end.
End R.

(* ---------- a whole stream whose header says NONE transform and NONE or RANGE entropy ---------- *)
Definition img_of (hash : list N -> N) (c : hcfg) : list N -> list N * N :=
  if h_etype c =? RANGE_TYPE then inner_image_r hash (h_ck c) else inner_image hash (h_ck c).
Definition pin_of (hash : list N -> N) (c : hcfg) : N -> list N -> pframe :=
  if h_etype c =? RANGE_TYPE then parse_inner_r hash (h_ck c) else parse_inner hash (h_ck c).

Definition write_stream_e (hash : list N -> N) (c : hcfg) (blocks : list (list N)) : list N :=
  write_stream_g (img_of hash c) c blocks.

Definition parse_stream_e (hash : list N -> N) (evalid tvalid : N -> bool) (nframes : nat) (rbuf : N) (sched : list N) (bytes : list N)
  : option (hcfg * list pframe) :=
  match read_header evalid tvalid (new_ibs rbuf (mkSrc bytes sched None 0)) with
  | (s, HOk c) => Some (c, parse_frames_g (pin_of hash c) nframes (h_bsize c) s)
  | (_, HErr _) => None
  end.
