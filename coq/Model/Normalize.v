(* Model of entropy.NormalizeFrequencies (v2/entropy/EntropyUtils.go), line by line.
   Go ints are unbounded Z here: the legal domain (counts >= 0, total <= 2^27,
   scale <= 2^16) keeps every intermediate value below 2^44, far from int64 wrap.
   Go's truncating division and arithmetic shift coincide with Z.div / Z.shiftr
   on the non-negative values this function is called with. *)
From Coq Require Import List ZArith Bool.
From KV Require Import Lib.ListX.
Import ListNotations.
Open Scope Z_scope.

(* state of the scaling loop `for i := range alphabet` *)
Record sstate := mkS {
  s_fr : list Z;        (* freqs, updated in place *)
  s_al : list nat;      (* alphabet[0:alphabetSize], most recent first *)
  s_sum : Z;            (* sumScaledFreq *)
  s_sf : Z;             (* sumFreq *)
  s_im : nat;           (* idxMax *)
  s_stop : bool         (* the loop hit `break` *)
}.

Definition scaled (f total scale : Z) : Z :=
  let sf := f * scale in
  if sf <=? total then 1 else (sf + Z.shiftr total 1) / total.

Definition scale_step (total scale : Z) (s : sstate) (i : nat) : sstate :=
  if s_stop s then s else
  let f := getz (s_fr s) i in
  if f =? 0 then s else
  let sc := scaled f total scale in
  let fr' := upd (s_fr s) i sc in
  let im' := if sc >? getz fr' (s_im s) then i else s_im s in
  let sf' := s_sf s + f in
  mkS fr' (i :: s_al s) (s_sum s + sc) sf' im' (sf' >=? total).

Definition scale_loop (freqs : list Z) (total scale : Z) : sstate :=
  fold_left (scale_step total scale) (seq 0 256) (mkS freqs [] 0 0 O false).

(* one pass `for _, idx := range alphabet[0:alphabetSize]` of the spreading loops:
   entries <= thr are skipped, others get +inc; stops when delta reaches 0.
   Returns (freqs, delta, adjustments). *)
Fixpoint pass (thr inc : Z) (al : list nat) (fr : list Z) (delta adj : Z) : list Z * Z * Z :=
  match al with
  | [] => (fr, delta, adj)
  | idx :: t =>
      if getz fr idx <=? thr then pass thr inc t fr delta adj
      else
        let fr' := upd fr idx (getz fr idx + inc) in
        let delta' := delta - 1 in
        if delta' =? 0 then (fr', delta', adj + 1)
        else pass thr inc t fr' delta' (adj + 1)
  end.

(* `for round < 6 && delta > 0` : at most 5 rounds *)
Fixpoint rounds (n : nat) (inc : Z) (al : list nat) (fr : list Z) (delta : Z) : list Z * Z :=
  match n with
  | O => (fr, delta)
  | S m =>
      if delta >? 0 then
        match pass 2 inc al fr delta 0 with
        | (fr', delta', adj) =>
            if adj =? 0 then (fr', delta') else rounds m inc al fr' delta'
        end
      else (fr, delta)
  end.

(* final `for delta > 0` loop of the repaired slow path; fuel counts outer iterations *)
Fixpoint drain (fuel : nat) (al : list nat) (fr : list Z) (delta : Z) : list Z * Z :=
  match fuel with
  | O => (fr, delta)
  | S m =>
      if delta >? 0 then
        match pass 1 (-1) al fr delta 0 with
        | (fr', delta', adj) =>
            if adj =? 0 then (fr', delta') else drain m al fr' delta'
        end
      else (fr, delta)
  end.

Definition nonzero_syms (freqs : list Z) : list nat :=
  filter (fun i => negb (getz freqs i =? 0)) (seq 0 256).

(* Result: None = the Go function returns an error; Some (freqs', alphabet[0:n]). *)
Definition normalize (freqs : list Z) (total scale : Z) : option (list Z * list nat) :=
  if (scale <? 256) || (scale >? 65536) then None else
  if total =? 0 then Some (freqs, []) else
  if total =? scale then Some (freqs, nonzero_syms freqs) else
  let s := scale_loop freqs total scale in
  let al := rev (s_al s) in
  let fr := s_fr s in
  match al with
  | [] => Some (fr, [])
  | [a] => Some (upd fr a scale, al)
  | _ =>
    if s_sum s =? scale then Some (fr, al) else
    let delta := s_sum s - scale in
    let im := s_im s in
    let errThr := Z.shiftr (getz fr im) 4 in
    let absDelta := Z.abs delta in
    if absDelta <=? errThr then Some (upd fr im (getz fr im - delta), al) else
    let '(fr1, delta1, inc) :=
      if delta <? 0
      then (upd fr im (getz fr im + errThr), - (delta + errThr), 1)
      else (upd fr im (getz fr im - errThr), delta - errThr, -1) in
    let '(fr2, delta2) := rounds 5 inc al fr1 delta1 in
    if delta2 =? 0 then Some (fr2, al) else
    if inc >? 0 then Some (upd fr2 im (getz fr2 im + delta2), al) else
    if getz fr2 im >? delta2 then Some (upd fr2 im (getz fr2 im - delta2), al) else
    let '(fr3, _) := drain (Z.to_nat delta2) al fr2 delta2 in
    Some (fr3, al)
  end.
