(* Model of entropy/EntropyUtils.go EncodeAlphabet / DecodeAlphabet: the alphabet header shared by the
   Huffman, ANS and range codecs.  Two flag bits for the empty and the full alphabet; otherwise a flag,
   the index of the last non-empty presence mask on 5 bits and the presence masks (bit j of mask i:
   symbol 8i + j), written as an array. *)
From Coq Require Import List NArith Bool.
From KV Require Import Model.OutBS Model.InBS Model.Container.
Import ListNotations.
Open Scope N_scope.

Definition present (alpha : list N) (x : N) : bool := existsb (N.eqb x) alpha.

Definition mask_byte (alpha : list N) (k : N) : N :=
  fold_right (fun j acc => (if present alpha (8 * k + j) then 2 ^ j else 0) + acc) 0 [0; 1; 2; 3; 4; 5; 6; 7].

Definition iota (n : nat) : list N := map N.of_nat (seq 0 n).
Definition masks32 (alpha : list N) : list N := map (mask_byte alpha) (iota 32).

(* None: error (more than 256 entries) or panic (an entry >= 256 indexes past the 32 masks) *)
Definition encode_alphabet (alpha : list N) : option (list cop) :=
  let count := length alpha in
  if Nat.ltb 256 count then None
  else if Nat.eqb count 0 then Some [CBit 0; CBit 1]
  else if Nat.eqb count 256 then Some [CBit 0; CBit 0]
  else if negb (forallb (fun a => a <? 256) alpha) then None
  else let lastm := last alpha 0 / 8 in
       Some [CBit 1; CBits lastm 5; CArr (masks32 alpha) (8 * (lastm + 1))].

Inductive ares := AOk (alpha : list N) | AErrSize | APanic.

Definition syms_of_mask (i m : N) : list N :=
  flat_map (fun j => if N.testbit m j then [8 * i + j] else []) [0; 1; 2; 3; 4; 5; 6; 7].

(* [cap] = len(alphabet) of the caller's array *)
Definition decode_alphabet (s : ibs) (cap : nat) : ibs * ares :=
  match read_bit s with
  | (s1, Pan _) => (s1, APanic)
  | (s1, Val b) =>
    if b =? 0 then
      match read_bit s1 with
      | (s2, Pan _) => (s2, APanic)
      | (s2, Val b2) => if b2 =? 1 then (s2, AOk []) else if Nat.ltb cap 256 then (s2, AErrSize) else (s2, AOk (iota 256))
      end
    else
      match read_bits s1 5 with
      | (s2, Pan _) => (s2, APanic)
      | (s2, Val lm) =>
        match read_array s2 (8 * (lm + 1)) with
        | (s3, Pan _) => (s3, APanic)
        | (s3, Val ms) =>
            let syms := flat_map (fun im => syms_of_mask (fst im) (snd im)) (combine (iota (S (N.to_nat lm))) ms) in
            if Nat.ltb cap (length syms) then (s3, AErrSize) else (s3, AOk syms)
        end
      end
  end.

(* encode on a fresh stream, close: the bytes (for the correspondence) *)
Definition alphabet_image (alpha : list N) : option (list N) :=
  match encode_alphabet alpha with
  | None => None
  | Some ops => match run_cops (new_obs 1024) ops with
                | (s1, _) => match close healthy_sink s1 with (s2, _) => Some (o_out s2) end
                end
  end.
Definition alphabet_parse (cap : nat) (bytes : list N) : ares :=
  snd (decode_alphabet (new_ibs 1024 (mkSrc bytes [] None 0)) cap).
