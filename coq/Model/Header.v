(* Model of the stream header: io/CompressedStream.go Writer.writeHeader and Reader.readHeader
   (bitstream format version 6).  The writer side is the list of (value, width) pairs handed to
   WriteBits; the reader side runs on the input bit stream model (Model/InBS.v), with the same
   checks in the same order.  uint32 / uint64 / int64 arithmetic of the checksum is written with
   its truncations.  Name validity (entropy.GetName, transform.GetName) is a parameter, instantiated
   with the tables regenerated from the sources (Gen/Names.v) in the correspondence driver. *)
From Coq Require Import List NArith ZArith Bool.
From KV Require Import Model.OutBS Model.InBS.
Import ListNotations.
Open Scope N_scope.

Definition BS_TYPE : N := 1262571098.          (* 0x4B414E5A "KANZ" *)
Definition BS_VERSION : N := 6.
Definition P32' : N := 4294967296.
Definition P64' : N := 18446744073709551616.
Definition HASHC : N := 506832829.             (* 0x1E35A7BD *)
Definition MIN_BLOCK : N := 1024.
Definition MAX_BLOCK : N := 1073741824.

Record hcfg := mkH { h_ck : N; h_etype : N; h_ttype : N; h_bsize : N; h_isize : N }.

Definition sz_mask (isize : N) : N :=
  if isize =? 0 then 0 else if 281474976710656 <=? isize then 0
  else if 4294967296 <=? isize then 3 else if 65536 <=? isize then 2 else 1.

Definition mul32 (a b : N) : N := (a * b) mod P32'.
Definition not64 (x : N) : N := P64' - 1 - x mod P64'.          (* bit pattern of ^x for a 64-bit x *)
Definition lo32 (x : N) : N := x mod P32'.
Definition hi32 (x : N) : N := (x / P32') mod P32'.

(* the header checksum, 24 bits *)
Definition hcksum (ck etype ttype bsize : N) (with_size : bool) (isize : N) : N :=
  let seed := (16975111 * BS_VERSION) mod P32' in               (* 0x01030507 * version *)
  let c0 := mul32 HASHC seed in
  let c1 := N.lxor c0 (mul32 HASHC (lo32 (not64 ck))) in
  let c2 := N.lxor c1 (mul32 HASHC (lo32 (not64 etype))) in
  let c3 := N.lxor c2 (mul32 HASHC (hi32 (not64 ttype))) in
  let c4 := N.lxor c3 (mul32 HASHC (lo32 (not64 ttype))) in
  let c5 := N.lxor c4 (mul32 HASHC (lo32 (not64 bsize))) in
  let c6 := if with_size
            then N.lxor (N.lxor c5 (mul32 HASHC (hi32 (not64 isize)))) (mul32 HASHC (lo32 (not64 isize)))
            else c5 in
  N.lxor (N.shiftr c6 23) (N.shiftr c6 3).

(* writeHeader: the (value, width) pairs passed to WriteBits, in order *)
Definition header_fields (c : hcfg) : list (N * N) :=
  let m := sz_mask (h_isize c) in
  [(BS_TYPE, 32); (BS_VERSION, 4); (h_ck c, 2); (h_etype c, 5); (h_ttype c, 48); (N.shiftr (h_bsize c) 4, 28); (m, 2)] ++
  (if 0 <? m then [(h_isize c, 16 * m)] else []) ++
  [(0, 15); (hcksum (h_ck c) (h_etype c) (h_ttype c) (h_bsize c) (0 <? m) (h_isize c), 24)].

Inductive herr := HEos | HBadType | HBadVersion | HBadCk | HBadEntropy | HBadTransform | HBadBlockSize | HBadCrc | HOldVersion.
Inductive hres := HOk (c : hcfg) | HErr (e : herr).

Section R.
Variable evalid tvalid : N -> bool.

(* ReadBits for a list of widths; None when the stream raises *)
Fixpoint read_list (s : ibs) (ws : list N) : ibs * option (list N) :=
  match ws with
  | [] => (s, Some [])
  | w :: r => match read_bits s w with
              | (s1, Pan _) => (s1, None)
              | (s1, Val v) => match read_list s1 r with
                               | (s2, None) => (s2, None)
                               | (s2, Some vs) => (s2, Some (v :: vs))
                               end
              end
  end.

(* readHeader: same reads, same checks, same order *)
Definition read_header (s : ibs) : ibs * hres :=
  match read_list s [32; 4] with
  | (s1, Some [ft; ver]) =>
    if negb (ft =? BS_TYPE) then (s1, HErr HBadType) else
    if BS_VERSION <? ver then (s1, HErr HBadVersion) else
    if ver <? 6 then (s1, HErr HOldVersion) else        (* older layouts are not modelled *)
    match read_list s1 [2] with
    | (s2, Some [ck]) =>
      if ck =? 3 then (s2, HErr HBadCk) else
      match read_list s2 [5] with
      | (s3, Some [et]) =>
        if negb (evalid et) then (s3, HErr HBadEntropy) else
        match read_list s3 [48] with
        | (s4, Some [ttp]) =>
          if negb (tvalid ttp) then (s4, HErr HBadTransform) else
          match read_list s4 [28] with
          | (s5, Some [bs4]) =>
            let bsize := bs4 * 16 in
            if (bsize <? MIN_BLOCK) || (MAX_BLOCK <? bsize) then (s5, HErr HBadBlockSize) else
            match read_list s5 [2] with
            | (s6, Some [m]) =>
              match (if m =? 0 then (s6, Some [0]) else read_list s6 [16 * m]) with
              | (s7, Some [isize]) =>
                match read_list s7 [15; 24] with
                | (s8, Some [_; crc]) =>
                  if crc =? (hcksum ck et ttp bsize (0 <? m) isize) mod 16777216
                  then (s8, HOk (mkH ck et ttp bsize isize))
                  else (s8, HErr HBadCrc)
                | (s8, _) => (s8, HErr HEos)
                end
              | (s7, _) => (s7, HErr HEos)
              end
            | (s6, _) => (s6, HErr HEos)
            end
          | (s5, _) => (s5, HErr HEos)
          end
        | (s4, _) => (s4, HErr HEos)
        end
      | (s3, _) => (s3, HErr HEos)
      end
    | (s2, _) => (s2, HErr HEos)
    end
  | (s1, _) => (s1, HErr HEos)
  end.

End R.
