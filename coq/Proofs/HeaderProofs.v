(* Stream header (C01 / C10 / C17): for EVERY valid configuration, whatever follows the header in
   the stream, every buffer size on both sides and every chunk schedule of the source, readHeader
   applied to what writeHeader wrote accepts it, returns the same fields (the size hint as
   written: absent when 0 or >= 2^48), and leaves the input stream exactly at the first bit
   after the header: what follows is then read as it was written. *)
From Coq Require Import List NArith ZArith Lia Bool ZifyN ZifyNat ZifyBool.
From KV Require Import Model.OutBS Model.InBS Model.Header Lib.Bits Proofs.OutBSProofs Proofs.BinCoderProofs
  Proofs.InBSProofs Proofs.MirrorProofs.
Import ListNotations.
Open Scope N_scope.

Ltac Zify.zify_post_hook ::= idtac.
Local Arguments N.pow : simpl never.
Local Arguments N.div : simpl never.
Local Arguments N.modulo : simpl never.
Local Arguments N.mul : simpl never.
Local Arguments N.sub : simpl never.
Local Arguments N.add : simpl never.

(* the bit vector made of the fields [fs] followed by the vector [r] *)
Definition vec (fs : list (N * N)) (r : N * N) : N * N :=
  fold_right (fun f acc => ((fst f mod 2 ^ snd f) * 2 ^ snd acc + fst acc, snd f + snd acc)) r fs.

Lemma vec_app a b r : vec (a ++ b) r = vec a (vec b r).
Proof. unfold vec. apply fold_right_app. Qed.

Lemma vec_lt fs r : fst r < 2 ^ snd r -> fst (vec fs r) < 2 ^ snd (vec fs r).
Proof.
  intros Hr. induction fs as [|f t IH]; [exact Hr|]. cbn [vec fold_right fst snd]. fold (vec t r).
  rewrite N.pow_add_r. pose proof (N.mod_lt (fst f) (2 ^ snd f) ltac:(apply N.pow_nonzero; discriminate)).
  pose proof (pow2_pos (snd (vec t r))). nia.
Qed.

Definition field_ok (f : N * N) : Prop := 1 <= snd f <= 64.

(* reading the widths of [fs] from a stream that starts with [fs] returns their values and leaves the rest *)
Section RL.
Variables evalid tvalid : N -> bool.
(* any further property of the reader's state that successful reads preserve is carried along *)
Variable Q : ibs -> Prop.
Hypothesis Qstep : forall s c s' v, AInv s -> Q s -> read_bits s c = (s', Val v) -> Q s'.

Lemma read_fields : forall fs s r, AInv s -> Q s -> Forall field_ok fs -> fst r < 2 ^ snd r ->
  (uval s, total s) = vec fs r ->
  exists s', read_list s (map snd fs) = (s', Some (map (fun f => fst f mod 2 ^ snd f) fs)) /\ AInv s' /\
    (uval s', total s') = r /\ Q s'.
Proof.
  induction fs as [|f t IH]; intros s r HA HQ Hok Hr Hv.
  - exists s. cbn [map read_list]. cbn [vec fold_right] in Hv. auto.
  - inversion Hok as [|? ? Hf Ht]; subst. cbn [map read_list]. cbn [vec fold_right fst snd] in Hv. fold (vec t r) in Hv.
    set (vt := vec t r) in *. pose proof (vec_lt t r Hr) as Hvt. fold vt in Hvt.
    injection Hv as HU HT.
    destruct (read_bits_ok 66 s (snd f) HA Hf ltac:(unfold field_ok in Hf; clear - Hf; lia) ltac:(rewrite HT; clear; lia)) as (s1 & E & HA1 & T1 & U1).
    assert (HQ1 : Q s1) by (eapply (Qstep s (snd f) s1); [exact HA|exact HQ|exact E]).
    unfold read_bits. rewrite E.
    set (val := fst f mod 2 ^ snd f) in *.
    assert (Hval : val < 2 ^ snd f) by (apply N.mod_lt; apply N.pow_nonzero; discriminate).
    assert (Ed : total s - snd f = snd vt) by (rewrite HT; clear; lia).
    assert (Hnz : 2 ^ snd vt <> 0) by (apply N.pow_nonzero; discriminate).
    assert (Eq : uval s / 2 ^ (total s - snd f) = val).
    { rewrite Ed, HU. rewrite N.div_add_l by exact Hnz. rewrite N.div_small by exact Hvt. clear. lia. }
    assert (Em : uval s mod 2 ^ (total s - snd f) = fst vt).
    { rewrite Ed, HU. rewrite N.add_comm, N.mod_add by exact Hnz. apply N.mod_small. exact Hvt. }
    destruct (IH s1 r HA1 HQ1 Ht Hr) as (s' & E' & HA' & R').
    { rewrite U1, T1, Em, Ed. symmetry. apply surjective_pairing. }
    rewrite E'. exists s'. rewrite Eq. auto.
Qed.

(* ---------- valid configurations ---------- *)
Record cfg_ok (c : hcfg) : Prop := {
  ck_ok : h_ck c <= 2;
  et_ok : h_etype c < 32 /\ evalid (h_etype c) = true;
  tt_ok : h_ttype c < 2 ^ 48 /\ tvalid (h_ttype c) = true;
  bs_ok : MIN_BLOCK <= h_bsize c <= MAX_BLOCK /\ h_bsize c mod 16 = 0
}.

(* what the reader gets: the size hint is absent when it does not fit in 48 bits *)
Definition norm_cfg (c : hcfg) : hcfg :=
  mkH (h_ck c) (h_etype c) (h_ttype c) (h_bsize c) (if sz_mask (h_isize c) =? 0 then 0 else h_isize c).

Lemma sz_mask_cases i : (sz_mask i = 0 /\ (i = 0 \/ 281474976710656 <= i)) \/
  (sz_mask i = 1 /\ 0 < i < 65536) \/ (sz_mask i = 2 /\ 65536 <= i < 4294967296) \/
  (sz_mask i = 3 /\ 4294967296 <= i < 281474976710656).
Proof.
  clear Qstep Q evalid tvalid. unfold sz_mask. destruct (i =? 0) eqn:E0; [apply N.eqb_eq in E0; auto|]. apply N.eqb_neq in E0.
  destruct (281474976710656 <=? i) eqn:E1; [apply N.leb_le in E1; auto|]. apply N.leb_gt in E1.
  destruct (4294967296 <=? i) eqn:E2; [apply N.leb_le in E2; right; right; right; lia|]. apply N.leb_gt in E2.
  destruct (65536 <=? i) eqn:E3; [apply N.leb_le in E3; right; right; left; lia|]. apply N.leb_gt in E3.
  right; left. lia.
Qed.

Theorem header_parse c s r : cfg_ok c -> AInv s -> Q s -> fst r < 2 ^ snd r ->
  (uval s, total s) = vec (header_fields c) r ->
  exists s', read_header evalid tvalid s = (s', HOk (norm_cfg c)) /\ AInv s' /\ (uval s', total s') = r /\ Q s'.
Proof.
  intros [Hck [Het Hev] [Htt Htv] [Hbs Hbm]] HA HQ0 Hr Hv.
  unfold header_fields in Hv.
  set (m := sz_mask (h_isize c)) in *.
  set (crc := hcksum (h_ck c) (h_etype c) (h_ttype c) (h_bsize c) (0 <? m) (h_isize c)) in *.
  set (tailf := (if 0 <? m then [(h_isize c, 16 * m)] else []) ++ [(0, 15); (crc, 24)]) in *.
  (* split the field list as the reader consumes it *)
  change ([(BS_TYPE, 32); (BS_VERSION, 4); (h_ck c, 2); (h_etype c, 5); (h_ttype c, 48); (N.shiftr (h_bsize c) 4, 28); (m, 2)] ++ tailf)
    with ([(BS_TYPE, 32); (BS_VERSION, 4)] ++ [(h_ck c, 2)] ++ [(h_etype c, 5)] ++ [(h_ttype c, 48)] ++ [(N.shiftr (h_bsize c) 4, 28)] ++ [(m, 2)] ++ tailf) in Hv.
  rewrite !vec_app in Hv.
  assert (Hm3 : m <= 3) by (unfold m; destruct (sz_mask_cases (h_isize c)) as [[-> _]|[[-> _]|[[-> _]|[-> _]]]]; lia).
  assert (Htl : fst (vec tailf r) < 2 ^ snd (vec tailf r)) by (apply vec_lt; exact Hr).
  set (r7 := vec tailf r) in *.
  set (r6 := vec [(m, 2)] r7) in *. assert (H6 : fst r6 < 2 ^ snd r6) by (apply vec_lt; exact Htl).
  set (r5 := vec [(N.shiftr (h_bsize c) 4, 28)] r6) in *. assert (H5 : fst r5 < 2 ^ snd r5) by (apply vec_lt; exact H6).
  set (r4 := vec [(h_ttype c, 48)] r5) in *. assert (H4 : fst r4 < 2 ^ snd r4) by (apply vec_lt; exact H5).
  set (r3 := vec [(h_etype c, 5)] r4) in *. assert (H3 : fst r3 < 2 ^ snd r3) by (apply vec_lt; exact H4).
  set (r2 := vec [(h_ck c, 2)] r3) in *. assert (H2 : fst r2 < 2 ^ snd r2) by (apply vec_lt; exact H3).
  unfold read_header.
  destruct (read_fields [(BS_TYPE, 32); (BS_VERSION, 4)] s r2 HA HQ0 ltac:(repeat constructor; cbn; lia) H2 Hv) as (s1 & E1 & A1 & V1 & Q1).
  cbn [map fst snd] in E1. rewrite E1. change (BS_TYPE mod 2 ^ 32) with BS_TYPE. change (BS_VERSION mod 2 ^ 4) with 6.
  rewrite N.eqb_refl. cbn [negb]. change (BS_VERSION <? 6) with false. change (6 <? 6) with false. cbv iota.
  destruct (read_fields [(h_ck c, 2)] s1 r3 A1 Q1 ltac:(repeat constructor; cbn; lia) H3 V1) as (s2 & E2 & A2 & V2 & Q2).
  cbn [map fst snd] in E2. rewrite E2. change (2 ^ 2) with 4. rewrite (N.mod_small (h_ck c) 4) by (clear - Hck; lia).
  replace (h_ck c =? 3) with false by (symmetry; apply N.eqb_neq; clear - Hck; lia).
  destruct (read_fields [(h_etype c, 5)] s2 r4 A2 Q2 ltac:(repeat constructor; cbn; lia) H4 V2) as (s3 & E3 & A3 & V3 & Q3).
  cbn [map fst snd] in E3. rewrite E3. change (2 ^ 5) with 32. rewrite (N.mod_small (h_etype c) 32) by exact Het. rewrite Hev. cbn [negb].
  destruct (read_fields [(h_ttype c, 48)] s3 r5 A3 Q3 ltac:(repeat constructor; cbn; lia) H5 V3) as (s4 & E4 & A4 & V4 & Q4).
  cbn [map fst snd] in E4. rewrite E4. rewrite (N.mod_small (h_ttype c) (2 ^ 48)) by exact Htt. rewrite Htv. cbn [negb].
  destruct (read_fields [(N.shiftr (h_bsize c) 4, 28)] s4 r6 A4 Q4 ltac:(repeat constructor; cbn; lia) H6 V4) as (s5 & E5 & A5 & V5 & Q5).
  cbn [map fst snd] in E5. rewrite E5.
  assert (Hbs4 : N.shiftr (h_bsize c) 4 mod 2 ^ 28 * 16 = h_bsize c).
  { rewrite N.shiftr_div_pow2. change (2 ^ 4) with 16. change (2 ^ 28) with 268435456.
    unfold MIN_BLOCK, MAX_BLOCK in Hbs. pose proof (N.div_mod (h_bsize c) 16 ltac:(discriminate)) as X.
    rewrite N.mod_small by (apply N.div_lt_upper_bound; [discriminate|clear - Hbs; lia]). clear - X Hbm. lia. }
  rewrite Hbs4.
  replace ((h_bsize c <? MIN_BLOCK) || (MAX_BLOCK <? h_bsize c)) with false
    by (symmetry; apply orb_false_iff; split; [apply N.ltb_ge|apply N.ltb_ge]; clear - Hbs; lia).
  destruct (read_fields [(m, 2)] s5 r7 A5 Q5 ltac:(repeat constructor; cbn; lia) Htl V5) as (s6 & E6 & A6 & V6 & Q6).
  cbn [map fst snd] in E6. rewrite E6. change (2 ^ 2) with 4. rewrite (N.mod_small m 4) by (clear - Hm3; lia).
  unfold r7, tailf in V6.
  destruct (sz_mask_cases (h_isize c)) as [[Em Hi]|Hmpos].
  - (* no size hint *)
    fold m in Em. rewrite Em in *. cbn [N.eqb N.ltb N.compare app] in *.
    destruct (read_fields [(0, 15); (crc, 24)] s6 r A6 Q6 ltac:(repeat constructor; cbn; lia) Hr V6) as (s8 & E8 & A8 & V8 & Q8).
    cbn [map fst snd] in E8. rewrite E8. change (2 ^ 24) with 16777216.
    assert (Ec : crc = hcksum (h_ck c) (h_etype c) (h_ttype c) (h_bsize c) false 0) by (unfold crc; rewrite Em; reflexivity).
    rewrite <- Ec, N.eqb_refl. exists s8. split; [|auto]. f_equal. unfold norm_cfg. fold m. rewrite Em. reflexivity.
  - (* size hint of 16 * m bits *)
    assert (Hmm : 1 <= m <= 3 /\ h_isize c < 2 ^ (16 * m)).
    { fold m in Hmpos. destruct Hmpos as [[-> Hi]|[[-> Hi]|[-> Hi]]]; (split; [lia|]); [change (2 ^ (16 * 1)) with 65536|change (2 ^ (16 * 2)) with 4294967296|change (2 ^ (16 * 3)) with 281474976710656]; lia. }
    destruct Hmm as [Hm1 Hil].
    replace (0 <? m) with true in * by (symmetry; apply N.ltb_lt; clear - Hm1; lia).
    replace (m =? 0) with false by (symmetry; apply N.eqb_neq; clear - Hm1; lia).
    change ([(h_isize c, 16 * m)] ++ [(0, 15); (crc, 24)]) with ([(h_isize c, 16 * m)] ++ [(0, 15); (crc, 24)]) in V6. rewrite vec_app in V6.
    set (r8 := vec [(0, 15); (crc, 24)] r) in *. assert (H8 : fst r8 < 2 ^ snd r8) by (apply vec_lt; exact Hr).
    destruct (read_fields [(h_isize c, 16 * m)] s6 r8 A6 Q6 ltac:(repeat constructor; cbn; clear - Hm1; lia) H8 V6) as (s7 & E7 & A7 & V7 & Q7).
    cbn [map fst snd] in E7. rewrite E7. rewrite (N.mod_small (h_isize c) _ Hil).
    destruct (read_fields [(0, 15); (crc, 24)] s7 r A7 Q7 ltac:(repeat constructor; cbn; lia) Hr V7) as (s9 & E9 & A9 & V9 & Q9).
    cbn [map fst snd] in E9. rewrite E9. change (2 ^ 24) with 16777216.
    assert (Ec : crc = hcksum (h_ck c) (h_etype c) (h_ttype c) (h_bsize c) true (h_isize c)).
    { unfold crc. replace (0 <? m) with true by (symmetry; apply N.ltb_lt; clear - Hm1; lia). reflexivity. }
    rewrite <- Ec, N.eqb_refl. exists s9. split; [|auto]. f_equal. unfold norm_cfg. fold m.
    replace (m =? 0) with false by (symmetry; apply N.eqb_neq; clear - Hm1; lia). reflexivity.
Qed.

End RL.

(* ---------- from the writer's WriteBits calls to the reader ---------- *)
Definition field_ops (fs : list (N * N)) : list wop := map (fun f => WBits (fst f) (snd f)) fs.

Lemma bvs_fields fs rest : bvs (field_ops fs ++ rest) = vec fs (bvs rest).
Proof.
  induction fs as [|f t IH]; [reflexivity|]. cbn [field_ops map app bvs vec fold_right]. fold (field_ops t). rewrite IH. reflexivity.
Qed.

Lemma vec_shift fs r P : (fst (vec fs r) * 2 ^ P, snd (vec fs r) + P) = vec fs (fst r * 2 ^ P, snd r + P).
Proof.
  induction fs as [|f t IH]; [reflexivity|]. cbn [vec fold_right fst snd]. fold (vec t r). fold (vec t (fst r * 2 ^ P, snd r + P)).
  rewrite <- IH. cbn [fst snd]. rewrite N.pow_add_r. f_equal; lia.
Qed.

Lemma header_fields_ok c : h_ck c <= 2 ->
  Forall field_ok (header_fields c) /\ Forall wop_ok (field_ops (header_fields c)).
Proof.
  intros _. unfold header_fields.
  destruct (sz_mask_cases (h_isize c)) as [[-> _]|[[-> _]|[[-> _]|[-> _]]]]; cbn [N.ltb N.compare app field_ops map fst snd];
    split; repeat constructor; cbn; lia.
Qed.

Theorem header_roundtrip (evalid tvalid : N -> bool) wbuf rbuf sched c rest_ops :
  cfg_ok evalid tvalid c -> 16 <= wbuf -> 0 < rbuf -> Forall wop_ok rest_ops ->
  exists s1 s2 s', run_wops (new_obs wbuf) (field_ops (header_fields c) ++ rest_ops) = (s1, false) /\
    close healthy s1 = (s2, false) /\
    read_header evalid tvalid (new_ibs rbuf (mkSrc (o_out s2) sched None 0)) = (s', HOk (norm_cfg c)) /\
    run_rops s' (rops_of rest_ops) = vals_of rest_ops.
Proof.
  intros Hc Hw Hr Hrest.
  destruct (header_fields_ok c (ck_ok _ _ _ Hc)) as [Hfo Hwo].
  assert (Hok : Forall wop_ok (field_ops (header_fields c) ++ rest_ops)) by (apply Forall_app; split; assumption).
  destruct (writer_image wbuf _ Hw Hok) as (s1 & s2 & pad & V & L & E1 & E2 & EV & Hcl & Hpad & Hlen & Himg & _).
  exists s1, s2.
  assert (Hob : bytes_ok (o_out s2)).
  { eapply close_obok; [|exact E2]. eapply run_wops_obok; [|exact E1]. split; constructor. }
  destruct (new_ibs_inv rbuf (o_out s2) sched Hr Hob) as (A0 & U0 & T0).
  rewrite fold_bvs in EV. cbn [fst snd] in EV. rewrite N.mul_0_l, !N.add_0_l in EV. rewrite bvs_fields in EV.
  set (r := (fst (bvs rest_ops) * 2 ^ pad, snd (bvs rest_ops) + pad)).
  assert (Hrl : fst r < 2 ^ snd r).
  { unfold r. cbn [fst snd]. rewrite N.pow_add_r. pose proof (bvs_lt rest_ops). pose proof (pow2_pos pad). nia. }
  assert (Hv : (uval (new_ibs rbuf (mkSrc (o_out s2) sched None 0)), total (new_ibs rbuf (mkSrc (o_out s2) sched None 0))) = vec (header_fields c) r).
  { rewrite U0, T0, Himg, Hlen. unfold r. rewrite <- vec_shift. injection EV as -> ->. reflexivity. }
  destruct (header_parse evalid tvalid (fun _ => True) (fun _ _ _ _ _ _ _ => I) c _ r Hc A0 I Hrl Hv) as (s' & Eh & A' & R' & _).
  exists s'. split; [exact E1|]. split; [exact E2|]. split; [exact Eh|].
  rewrite (reader_program _ s' A' (rops_ok rest_ops Hrest)). injection R' as -> ->.
  replace (fst (bvs rest_ops) * 2 ^ pad) with (fst (bvs rest_ops) * 2 ^ pad + 0) by lia.
  apply spec_on_bvs. apply pow2_pos.
Qed.
