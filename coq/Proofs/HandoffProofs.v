(* Hand-off protocol: mutual exclusion, order, cancellation, progress and termination,
   for every number of tasks and every interleaving (induction over steps). *)
From Coq Require Import List ZArith Bool Lia Arith.
From KV Require Import Lib.ListX Model.Handoff.
Import ListNotations.
Open Scope Z_scope.

Lemma nth_error_upd {A} (l : list A) i j v :
  nth_error (upd l i v) j =
  if Nat.eqb i j then match nth_error l i with Some _ => Some v | None => None end
  else nth_error l j.
Proof.
  revert i j; induction l as [|x t IH]; intros [|i] [|j]; simpl; auto.
  all: try (destruct (Nat.eqb i j); destruct i; reflexivity).
Qed.

Section Proto.
Variable sd : side.
Variable first : Z.
Hypothesis first_nonneg : 0 <= first.

Notation id := (id_of first).
Notation stepc := (step sd true first).

Lemma id_inj i j : id i = id j -> i = j.
Proof. unfold id_of. lia. Qed.

(* per-task invariant, relative to the counter value *)
Definition Loc (c : Z) (i : nat) (t : task) : Prop :=
  (t_pub t = true -> t_acc t = true) /\
  (t_pc t = Compute \/ t_pc t = Wait -> t_acc t = false) /\
  (t_pc t = Hold \/ t_pc t = Publish -> t_acc t = true /\ t_pub t = false) /\
  (t_ok t = true \/ t_skp t = true \/ t_pc t = Local -> t_pp t = true) /\
  (t_pp t = true -> t_pub t = true \/ c = -1) /\
  (t_pc t = Done -> t_pub t = true \/ c = -1) /\
  (t_pc t <> Defer2) /\
  (c = -1 \/ (t_pub t = true <-> id i <= c)) /\
  (sd = Enc -> t_pc t = Defer1 -> t_err t = false -> t_acc t = true \/ c = -1) /\
  (sd = Enc -> t_pc t <> Done -> t_pub t = false) /\
  (sd = Enc -> t_pp t = false /\ t_ok t = false /\ t_skp t = false /\ t_pc t <> Publish /\ t_pc t <> Local) /\
  (sd = Dec -> t_pc t <> Compute).

Record Inv (s : st) : Prop := {
  g_cnt : cnt s = -1 \/ first <= cnt s <= first + Z.of_nat (length (ts s));
  g_loc : forall i t, nth_error (ts s) i = Some t -> Loc (cnt s) i t;
  g_ord : forall i t, nth_error (ts s) i = Some t -> t_acc t = true ->
          forall j t', (j < i)%nat -> nth_error (ts s) j = Some t' -> t_pub t' = true;
  g_log : exists k, (k <= length (ts s))%nat /\ log s = map id (seq 0 k) /\
          forall i t, nth_error (ts s) i = Some t -> (t_acc t = true <-> (i < k)%nat)
}.

Ltac loc := unfold Loc in *; cbn [t_pc t_err t_ok t_skp t_acc t_pub t_pp set_pc] in *;
            intuition (try discriminate; try congruence; try lia).

Ltac bl t := first [ solve [loc] | destruct (t_pub t) eqn:?Epub; destruct (t_acc t) eqn:?Eacc; destruct (t_pp t) eqn:?Epp; loc ].

Lemma Loc_cancel c i t : Loc c i t -> Loc (-1) i t.
Proof. loc. Qed.

Lemma Loc_publish_other c i j t : Loc c j t -> c <> -1 -> c = id i - 1 -> j <> i -> Loc (id i) j t.
Proof.
  intros H Hc Hci Hji. assert (id j <> id i) by (intros E; apply id_inj in E; auto).
  unfold Loc in *. destruct H as (L1 & L2 & L3 & L4 & L5 & L6 & L7 & L8 & L9 & L10 & L11 & L12).
  split; [exact L1|]. split; [exact L2|]. split; [exact L3|]. split; [exact L4|].
  split; [intros X; destruct (L5 X); [left; assumption|contradiction]|].
  split; [intros X; destruct (L6 X); [left; assumption|contradiction]|].
  split; [exact L7|].
  split; [destruct L8 as [|[A B]]; [contradiction|]; right; split; intros X; [apply A in X; lia|apply B; lia]|].
  split; [intros X Y Z; destruct (L9 X Y Z); [left; assumption|contradiction]|].
  split; [exact L10|]. split; [exact L11|exact L12].
Qed.

Lemma init_inv n : Inv (init sd first n).
Proof.
  unfold init. constructor; cbn [cnt ts log].
  - right; rewrite repeat_length; lia.
  - intros i t H. apply nth_error_In, repeat_spec in H. subst t. unfold init_task.
    assert (R : first = -1 \/ (false = true <-> id i <= first)) by (right; split; [discriminate|unfold id_of; lia]).
    unfold Loc; destruct sd eqn:Esd; cbn [t_pc t_err t_ok t_skp t_acc t_pub t_pp];
      repeat split; intros; auto; try discriminate; try congruence;
      repeat match goal with H : _ \/ _ |- _ => destruct H end; try discriminate; try congruence.
  - intros i t H Ha. apply nth_error_In, repeat_spec in H. subst t. discriminate Ha.
  - exists O. split; [lia|]. split; [reflexivity|]. intros i t H. apply nth_error_In, repeat_spec in H. subst t.
    cbn. split; [discriminate|lia].
Qed.

(* a step that leaves counter, log and the ghost history of the task unchanged *)
Lemma frame s i t t' : Inv s -> nth_error (ts s) i = Some t ->
  Loc (cnt s) i t' -> t_acc t' = t_acc t -> t_pub t' = t_pub t ->
  Inv (mkSt (cnt s) (upd (ts s) i t') (log s)).
Proof.
  intros [Gc Gl Go Gg] Hi HL Ha Hp. constructor; cbn [cnt ts log].
  - rewrite upd_length; exact Gc.
  - intros j u Hj. rewrite nth_error_upd in Hj. destruct (Nat.eqb_spec i j) as [<-|Hne].
    + rewrite Hi in Hj. inversion Hj; subst. exact HL.
    + apply Gl; exact Hj.
  - intros j u Hj Hacc k u' Hk Hku. rewrite nth_error_upd in Hj, Hku.
    destruct (Nat.eqb_spec i j) as [<-|Hne]; destruct (Nat.eqb_spec i k) as [<-|Hne'].
    + lia.
    + rewrite Hi in Hj. inversion Hj; subst. rewrite Ha in Hacc. exact (Go i t Hi Hacc k u' Hk Hku).
    + rewrite Hi in Hku. inversion Hku; subst. rewrite Hp. exact (Go j u Hj Hacc i t Hk Hi).
    + exact (Go j u Hj Hacc k u' Hk Hku).
  - destruct Gg as (k & Hkl & Hlog & Hk). exists k. split; [rewrite upd_length; exact Hkl|]. split; [exact Hlog|].
    intros j u Hj. rewrite nth_error_upd in Hj. destruct (Nat.eqb_spec i j) as [<-|Hne].
    + rewrite Hi in Hj. inversion Hj; subst. rewrite Ha. apply Hk; exact Hi.
    + apply Hk; exact Hj.
Qed.

(* a step that stores the cancel value *)
Lemma frame_cancel s i t t' : Inv s -> nth_error (ts s) i = Some t ->
  Loc (-1) i t' -> t_acc t' = t_acc t -> t_pub t' = t_pub t ->
  Inv (mkSt (-1) (upd (ts s) i t') (log s)).
Proof.
  intros [Gc Gl Go Gg] Hi HL Ha Hp. constructor; cbn [cnt ts log].
  - left; reflexivity.
  - intros j u Hj. rewrite nth_error_upd in Hj. destruct (Nat.eqb_spec i j) as [<-|Hne].
    + rewrite Hi in Hj. inversion Hj; subst. exact HL.
    + eapply Loc_cancel, Gl; exact Hj.
  - intros j u Hj Hacc k u' Hk Hku. rewrite nth_error_upd in Hj, Hku.
    destruct (Nat.eqb_spec i j) as [<-|Hne]; destruct (Nat.eqb_spec i k) as [<-|Hne'].
    + lia.
    + rewrite Hi in Hj. inversion Hj; subst. rewrite Ha in Hacc. exact (Go i t Hi Hacc k u' Hk Hku).
    + rewrite Hi in Hku. inversion Hku; subst. rewrite Hp. exact (Go j u Hj Hacc i t Hk Hi).
    + exact (Go j u Hj Hacc k u' Hk Hku).
  - destruct Gg as (k & Hkl & Hlog & Hk). exists k. split; [rewrite upd_length; exact Hkl|]. split; [exact Hlog|].
    intros j u Hj. rewrite nth_error_upd in Hj. destruct (Nat.eqb_spec i j) as [<-|Hne].
    + rewrite Hi in Hj. inversion Hj; subst. rewrite Ha. apply Hk; exact Hi.
    + apply Hk; exact Hj.
Qed.

(* a step in which task i sets the counter to its id (counter was id-1) *)
Lemma frame_publish s i t t' : Inv s -> nth_error (ts s) i = Some t ->
  cnt s = id i - 1 -> Loc (id i) i t' -> t_acc t' = t_acc t -> t_acc t = true -> t_pub t' = true ->
  Inv (mkSt (id i) (upd (ts s) i t') (log s)).
Proof.
  intros [Gc Gl Go Gg] Hi Hc HL Ha Hacc Hp.
  assert (Hc1 : cnt s <> -1) by (unfold id_of in Hc; lia).
  constructor; cbn [cnt ts log].
  - right. rewrite upd_length. assert ((i < length (ts s))%nat) by (apply nth_error_Some; congruence). unfold id_of. lia.
  - intros j u Hj. rewrite nth_error_upd in Hj. destruct (Nat.eqb_spec i j) as [<-|Hne].
    + rewrite Hi in Hj. inversion Hj; subst. exact HL.
    + eapply Loc_publish_other; eauto.
  - intros j u Hj Hacc' k u' Hk Hku. rewrite nth_error_upd in Hj, Hku.
    destruct (Nat.eqb_spec i j) as [<-|Hne]; destruct (Nat.eqb_spec i k) as [<-|Hne'].
    + lia.
    + rewrite Hi in Hj. inversion Hj; subst. exact (Go i t Hi Hacc k u' Hk Hku).
    + rewrite Hi in Hku. inversion Hku; subst. exact Hp.
    + exact (Go j u Hj Hacc' k u' Hk Hku).
  - destruct Gg as (k & Hkl & Hlog & Hk). exists k. split; [rewrite upd_length; exact Hkl|]. split; [exact Hlog|].
    intros j u Hj. rewrite nth_error_upd in Hj. destruct (Nat.eqb_spec i j) as [<-|Hne].
    + rewrite Hi in Hj. inversion Hj; subst. rewrite Ha. apply Hk; exact Hi.
    + apply Hk; exact Hj.
Qed.

(* Wait -> Hold: the task becomes the next element of the access log *)
Lemma frame_enter s i t t' : Inv s -> nth_error (ts s) i = Some t ->
  cnt s = id i - 1 -> t_acc t = false -> t_pub t = false ->
  Loc (cnt s) i t' -> t_acc t' = true -> t_pub t' = false ->
  Inv (mkSt (cnt s) (upd (ts s) i t') (log s ++ [id i])).
Proof.
  intros [Gc Gl Go Gg] Hi Hc Hna Hnp HL Ha Hp.
  assert (Hc1 : cnt s <> -1) by (unfold id_of in Hc; lia).
  assert (Hearlier : forall j u, (j < i)%nat -> nth_error (ts s) j = Some u -> t_pub u = true).
  { intros j u Hji Hj. pose proof (Gl j u Hj) as L. unfold Loc in L.
    destruct L as (_ & _ & _ & _ & _ & _ & _ & [E|E] & _); [contradiction|].
    apply E. unfold id_of in *. lia. }
  constructor; cbn [cnt ts log].
  - rewrite upd_length; exact Gc.
  - intros j u Hj. rewrite nth_error_upd in Hj. destruct (Nat.eqb_spec i j) as [<-|Hne].
    + rewrite Hi in Hj. inversion Hj; subst. exact HL.
    + apply Gl; exact Hj.
  - intros j u Hj Hacc k u' Hk Hku. rewrite nth_error_upd in Hj, Hku.
    destruct (Nat.eqb_spec i j) as [<-|Hne]; destruct (Nat.eqb_spec i k) as [<-|Hne'].
    + lia.
    + exact (Hearlier k u' Hk Hku).
    + (* some later task j had already accessed: then i would be published *)
      exfalso. pose proof (Go j u Hj Hacc i t Hk Hi). congruence.
    + exact (Go j u Hj Hacc k u' Hk Hku).
  - destruct Gg as (k & Hkl & Hlog & Hk).
    assert (Hik : k = i).
    { destruct (Nat.lt_trichotomy k i) as [Hlt|[Heq|Hgt]]; [|exact Heq|].
      - (* task k < i exists and is published, hence accessed, hence k < k *)
        exfalso. assert (Hlen : (i < length (ts s))%nat) by (apply nth_error_Some; congruence).
        destruct (nth_error (ts s) k) as [u|] eqn:Ek; [|apply nth_error_None in Ek; lia].
        pose proof (Hearlier k u Hlt Ek) as Hpu. pose proof (Gl k u Ek) as L. unfold Loc in L.
        destruct L as (Lpa & _). apply Lpa in Hpu. apply (Hk k u Ek) in Hpu. lia.
      - exfalso. apply (Hk i t Hi) in Hgt. congruence. }
    subst k. exists (S i). split; [rewrite upd_length; apply nth_error_Some; congruence|]. split.
    + rewrite seq_S, map_app, Hlog. reflexivity.
    + intros j u Hj. rewrite nth_error_upd in Hj. destruct (Nat.eqb_spec i j) as [<-|Hne].
      * rewrite Hi in Hj. inversion Hj; subst. split; [lia|auto].
      * rewrite (Hk j u Hj). lia.
Qed.

Lemma token_or_cancel s i t : Inv s -> nth_error (ts s) i = Some t ->
  t_acc t = true -> t_pub t = false -> cnt s <> id i - 1 -> cnt s = -1.
Proof.
  intros HI Hi Ha Hp E. pose proof (g_loc s HI i t Hi) as L.
  destruct (g_cnt s HI) as [|Hge]; [assumption|]. exfalso.
  unfold Loc in L. destruct L as (_ & _ & _ & _ & _ & _ & _ & [E8|E8] & _); [lia|].
  assert (Hlow : id i - 1 <= cnt s).
  { destruct i as [|i']; [unfold id_of; lia|].
    destruct (nth_error (ts s) i') as [u|] eqn:Eu.
    - pose proof (g_ord s HI (S i') t Hi Ha i' u ltac:(lia) Eu) as Hpu.
      pose proof (g_loc s HI i' u Eu) as Lu. unfold Loc in Lu.
      destruct Lu as (_ & _ & _ & _ & _ & _ & _ & [X|X] & _); [lia|].
      apply X in Hpu. unfold id_of in *. lia.
    - apply nth_error_None in Eu. assert ((S i' < length (ts s))%nat) by (apply nth_error_Some; congruence). lia. }
  destruct (Z.le_gt_cases (id i) (cnt s)) as [Hle|Hgt]; [apply E8 in Hle; congruence|lia].
Qed.

Lemma step_inv s i o s' : Inv s -> stepc s i o = Some s' -> Inv s'.
Proof.
  intros HI Hs. unfold step in Hs.
  destruct (nth_error (ts s) i) as [t|] eqn:Hi; [|discriminate].
  pose proof (g_loc s HI i t Hi) as L.
  destruct (t_pc t) eqn:Hpc.
  - (* Compute *)
    inversion Hs; subst; clear Hs.
    destruct o; apply (frame s i t _ HI Hi); cbn; bl t.
  - (* Wait *)
    inversion Hs; subst; clear Hs.
    destruct (cnt s =? -1) eqn:E1.
    + apply (frame s i t _ HI Hi); cbn; bl t.
    + destruct (cnt s =? id i - 1) eqn:E2; [|exact HI].
      apply Z.eqb_eq in E2. apply Z.eqb_neq in E1.
      assert (t_acc t = false) by loc.
      assert (t_pub t = false) by (destruct (t_pub t) eqn:P; [|reflexivity]; loc).
      apply (frame_enter s i t _ HI Hi); cbn; bl t.
  - (* Hold *)
    inversion Hs; subst; clear Hs.
    assert (t_acc t = true /\ t_pub t = false) as [Ha Hp] by loc.
    destruct sd eqn:Esd; destruct o; apply (frame s i t _ HI Hi); cbn; bl t.
  - (* Publish *)
    inversion Hs; subst; clear Hs.
    assert (t_acc t = true /\ t_pub t = false) as [Ha Hp] by loc.
    assert (Hsd : sd = Dec) by (destruct sd eqn:Esd; [loc|reflexivity]).
    destruct (cnt s =? id i - 1) eqn:E.
    + apply Z.eqb_eq in E.
      destruct o; apply (frame_publish s i t _ HI Hi E); cbn; bl t.
    + apply Z.eqb_neq in E.
      (* the compare-and-swap failed: the token can only be gone because of a cancel *)
      pose proof (token_or_cancel s i t HI Hi Ha Hp E) as Hc.
      destruct o; apply (frame s i t _ HI Hi); cbn; bl t.
  - (* Local *)
    inversion Hs; subst; clear Hs.
    destruct o; apply (frame s i t _ HI Hi); cbn; bl t.
  - (* Defer1 *)
    inversion Hs; subst; clear Hs. destruct sd eqn:Esd.
    + destruct (t_err t) eqn:Ee.
      * apply (frame_cancel s i t _ HI Hi); cbn; bl t.
      * destruct (cnt s =? id i - 1) eqn:E.
        -- apply Z.eqb_eq in E.
           assert (cnt s <> -1) by (unfold id_of in E; lia).
           assert (t_acc t = true) by loc.
           apply (frame_publish s i t _ HI Hi E); cbn; bl t.
        -- apply Z.eqb_neq in E.
           assert (Hp : t_pub t = false) by loc.
           assert (Hc : t_acc t = true -> cnt s = -1).
           { intros Ha. exact (token_or_cancel s i t HI Hi Ha Hp E). }
           apply (frame s i t _ HI Hi); cbn; bl t.
    + destruct (t_err t || negb (t_ok t) && negb (t_skp t)) eqn:Ec.
      * apply (frame_cancel s i t _ HI Hi); cbn; bl t.
      * apply orb_false_iff in Ec. destruct Ec as [Ee Ec].
        assert (Hpp : t_pp t = true).
        { destruct (t_ok t) eqn:Eo; [loc|]. destruct (t_skp t) eqn:Es; [loc|]. discriminate Ec. }
        destruct (cnt s =? id i - 1) eqn:E.
        -- exfalso. apply Z.eqb_eq in E. assert (cnt s <> -1) by (unfold id_of in E; lia).
           assert (Hpub : t_pub t = true) by loc.
           unfold Loc in L. destruct L as (_ & _ & _ & _ & _ & _ & _ & [E8|E8] & _); [lia|].
           apply E8 in Hpub. lia.
        -- apply (frame s i t _ HI Hi); cbn; bl t.
  - (* Defer2: unreachable *)
    exfalso. loc.
  - discriminate.
Qed.

Lemma exec_inv sched : forall s, Inv s -> Inv (exec sd true first s sched).
Proof.
  induction sched as [|[i o] r IH]; intros s HI; cbn [exec]; [exact HI|].
  destruct (stepc s i o) as [s'|] eqn:E; [apply IH; eapply step_inv; eauto|apply IH; exact HI].
Qed.

Theorem reachable_inv n sched : Inv (exec sd true first (init sd first n) sched).
Proof. apply exec_inv, init_inv. Qed.

(* ---------- the properties ---------- *)

(* at most one task owns the shared stream *)
Theorem mutex s i j ti tj : Inv s ->
  nth_error (ts s) i = Some ti -> nth_error (ts s) j = Some tj ->
  t_pc ti = Hold -> t_pc tj = Hold -> i = j.
Proof.
  intros HI Hi Hj Pi Pj.
  pose proof (g_loc s HI i ti Hi) as Li. pose proof (g_loc s HI j tj Hj) as Lj.
  destruct (Nat.lt_trichotomy i j) as [H|[H|H]]; [|exact H|]; exfalso.
  - assert (t_pub ti = true) by (eapply (g_ord s HI j tj Hj); eauto; loc). loc.
  - assert (t_pub tj = true) by (eapply (g_ord s HI i ti Hi); eauto; loc). loc.
Qed.

(* shared accesses happen in increasing block order, without gap or repeat *)
Theorem ordered s : Inv s -> exists k, log s = map id (seq 0 k).
Proof. intros HI. destruct (g_log s HI) as (k & _ & H & _). exists k; exact H. Qed.

(* once cancelled, the counter stays cancelled and nobody touches the shared stream again *)
Theorem cancel_respected s i o s' : Inv s -> cnt s = -1 -> stepc s i o = Some s' ->
  cnt s' = -1 /\ log s' = log s.
Proof.
  intros HI Hc Hs. unfold step in Hs.
  destruct (nth_error (ts s) i) as [t|] eqn:Hi; [|discriminate].
  pose proof (g_loc s HI i t Hi) as L.
  assert (Hne : (cnt s =? id i - 1) = false) by (apply Z.eqb_neq; unfold id_of; lia).
  destruct (t_pc t) eqn:Hpc; try discriminate.
  - inversion Hs; subst; destruct o; cbn; auto.
  - inversion Hs; subst. rewrite Hc. cbn. auto.
  - inversion Hs; subst; destruct sd, o; cbn; auto.
  - inversion Hs; subst. rewrite Hne. destruct o; cbn; auto.
  - inversion Hs; subst; destruct o; cbn; auto.
  - inversion Hs; subst. rewrite Hne. destruct sd.
    + destruct (t_err t); cbn; auto.
    + destruct (t_err t || negb (t_ok t) && negb (t_skp t)); cbn; auto.
  - exfalso. loc.
Qed.

Theorem cancel_respected_exec sched : forall s, Inv s -> cnt s = -1 ->
  cnt (exec sd true first s sched) = -1 /\ log (exec sd true first s sched) = log s.
Proof.
  induction sched as [|[i o] r IH]; intros s HI Hc; cbn [exec]; [auto|].
  destruct (stepc s i o) as [s'|] eqn:E; [|apply IH; auto].
  destruct (cancel_respected s i o s' HI Hc E) as [Hc' Hl'].
  destruct (IH s' (step_inv _ _ _ _ HI E) Hc') as [A B]. split; [exact A|congruence].
Qed.

(* a failed task is never forgotten: its error flag stays, and it cancels the batch *)
Lemma err_sticky s i o s' t : stepc s i o = Some s' -> forall j, nth_error (ts s) j = Some t -> t_err t = true ->
  exists t', nth_error (ts s') j = Some t' /\ t_err t' = true.
Proof.
  intros Hs j Hj He. unfold step in Hs.
  destruct (nth_error (ts s) i) as [u|] eqn:Hi; [|discriminate].
  assert (Hother : forall u', i <> j -> nth_error (upd (ts s) i u') j = Some t).
  { intros u' Hne. rewrite nth_error_upd. destruct (Nat.eqb_spec i j); [contradiction|exact Hj]. }
  assert (Hsame : forall u', i = j -> t_err u' = true ->
           exists t', nth_error (upd (ts s) i u') j = Some t' /\ t_err t' = true).
  { intros u' -> H. exists u'. rewrite nth_error_upd, Nat.eqb_refl, Hi. auto. }
  destruct (Nat.eq_dec i j) as [Eij|Nij].
  - subst j. rewrite Hi in Hj. inversion Hj; subst u.
    destruct (t_pc t) eqn:Hpc; inversion Hs; subst; clear Hs; cbn [ts].
    + destruct o; apply Hsame; auto.
    + destruct (cnt s =? -1); [apply Hsame; auto|]. destruct (cnt s =? id i - 1); [apply Hsame; auto|].
      exists t; auto.
    + destruct sd, o; apply Hsame; auto.
    + destruct o; apply Hsame; auto.
    + destruct o; apply Hsame; auto.
    + destruct sd.
      * rewrite He. apply Hsame; auto.
      * rewrite He. cbn [orb]. apply Hsame; auto.
    + apply Hsame; auto.
  - destruct (t_pc u); inversion Hs; subst; clear Hs; cbn [ts];
      repeat match goal with
             | |- context [match ?x with _ => _ end] => destruct x
             | |- context [if ?x then _ else _] => destruct x
             end; cbn [ts]; try (exists t; split; [apply Hother; exact Nij|exact He]); exists t; auto.
Qed.

(* the in-order result scan returns the error of the smallest failed task *)
Theorem failure_reported s j t : nth_error (ts s) j = Some t -> t_err t = true ->
  exists k tk, first_error s = Some k /\ (k <= j)%nat /\ nth_error (ts s) k = Some tk /\ t_err tk = true /\
    forall m tm, (m < k)%nat -> nth_error (ts s) m = Some tm -> t_err tm = false.
Proof.
  unfold first_error. generalize (ts s) as l. clear s.
  assert (G : forall l off jj tt, nth_error l jj = Some tt -> t_err tt = true ->
    exists k tk, (fix go (l : list task) (i : nat) := match l with [] => None | t :: r => if t_err t then Some i else go r (S i) end) l off = Some (off + k)%nat /\
      (k <= jj)%nat /\ nth_error l k = Some tk /\ t_err tk = true /\
      forall m tm, (m < k)%nat -> nth_error l m = Some tm -> t_err tm = false).
  { induction l as [|x r IH]; intros off jj tt Hj He; [destruct jj; discriminate|].
    destruct (t_err x) eqn:Ex.
    - exists O, x. rewrite Nat.add_0_r. split; [reflexivity|]. split; [lia|]. split; [reflexivity|].
      split; [exact Ex|]. intros m tm Hm; lia.
    - destruct jj as [|j']; [cbn in Hj; inversion Hj; subst; congruence|].
      destruct (IH (S off) j' tt Hj He) as (k & tk & E & Hk & Hn & Het & Hb).
      exists (S k), tk. rewrite <- Nat.add_succ_comm. split; [exact E|]. split; [lia|].
      split; [exact Hn|]. split; [exact Het|].
      intros m tm Hm Hnm. destruct m as [|m']; [cbn in Hnm; inversion Hnm; subst; exact Ex|].
      eapply Hb; [|exact Hnm]. lia. }
  intros l Hj He. destruct (G l O j t Hj He) as (k & tk & E & R). exists k, tk. split; [exact E|exact R].
Qed.

(* ---------- progress and termination ---------- *)

Lemma measure_upd l i t t' : nth_error l i = Some t ->
  (fold_right (fun t a => rank (t_pc t) + a) 0 (upd l i t') + rank (t_pc t) =
   fold_right (fun t a => rank (t_pc t) + a) 0 l + rank (t_pc t'))%nat.
Proof.
  revert i; induction l as [|x r IH]; intros [|i] H; cbn in *; try discriminate.
  - inversion H; subst. lia.
  - specialize (IH i H). lia.
Qed.

(* every step either changes nothing (a spin iteration) or lowers the measure *)
Theorem stutter_or_decrease s i o s' : stepc s i o = Some s' ->
  s' = s \/ (measure s' < measure s)%nat.
Proof.
  intros Hs. unfold step in Hs.
  destruct (nth_error (ts s) i) as [t|] eqn:Hi; [|discriminate].
  assert (D : forall c t' l, (rank (t_pc t') < rank (t_pc t))%nat ->
            (measure (mkSt c (upd (ts s) i t') l) < measure s)%nat).
  { intros c t' l Hr. unfold measure; cbn [ts]. pose proof (measure_upd (ts s) i t t' Hi). lia. }
  destruct (t_pc t) eqn:Hpc; inversion Hs; subst; clear Hs.
  - right. destruct o; apply D; cbn; lia.
  - destruct (cnt s =? -1); [right; apply D; cbn; lia|].
    destruct (cnt s =? id i - 1); [right; apply D; cbn; lia|left; reflexivity].
  - right. destruct sd, o; apply D; cbn; lia.
  - right. destruct o; apply D; cbn; lia.
  - right. destruct o; apply D; cbn; lia.
  - right. destruct sd.
    + destruct (t_err t); [apply D; cbn; lia|].
      destruct (cnt s =? id i - 1); apply D; cbn; lia.
    + destruct (t_err t || negb (t_ok t) && negb (t_skp t)); [apply D; cbn; lia|].
      destruct (cnt s =? id i - 1); apply D; cbn; lia.
  - right. apply D; cbn; lia.
Qed.

(* first task that is not Done *)
Fixpoint first_live (l : list task) : option nat :=
  match l with
  | [] => None
  | t :: r => match t_pc t with Done => option_map S (first_live r) | _ => Some O end
  end.

Lemma first_live_spec l : match first_live l with
  | None => forall i t, nth_error l i = Some t -> t_pc t = Done
  | Some k => exists t, nth_error l k = Some t /\ t_pc t <> Done /\
              forall j u, (j < k)%nat -> nth_error l j = Some u -> t_pc u = Done
  end.
Proof.
  induction l as [|x r IH]; cbn [first_live].
  - intros [|i] t H; discriminate.
  - destruct (t_pc x) eqn:Ex;
      try (exists x; split; [reflexivity|split; [congruence|intros j u Hj; lia]]).
    destruct (first_live r) as [k|]; cbn [option_map].
    + destruct IH as (t & Hn & Hp & Hb). exists t. split; [exact Hn|split; [exact Hp|]].
      intros [|j] u Hj Hu; [cbn in Hu; inversion Hu; subst; exact Ex|]. eapply Hb; [|exact Hu]. lia.
    + intros [|i] t H; [cbn in H; inversion H; subst; exact Ex|]. eapply IH; exact H.
Qed.

(* in every reachable state that is not final, some task can make a real (non-spin) step:
   no deadlock, for any number of tasks, whatever failed and wherever *)
Theorem progress s : Inv s -> all_done s = false ->
  exists i o s', stepc s i o = Some s' /\ (measure s' < measure s)%nat.
Proof.
  intros HI Hnd.
  pose proof (first_live_spec (ts s)) as FL.
  destruct (first_live (ts s)) as [k|].
  2:{ exfalso. unfold all_done in Hnd. assert (forallb (fun t => match t_pc t with Done => true | _ => false end) (ts s) = true); [|congruence].
      apply forallb_forall. intros t Hin. apply In_nth_error in Hin. destruct Hin as [i Hi].
      rewrite (FL i t Hi). reflexivity. }
  destruct FL as (t & Hk & Hp & Hb).
  pose proof (g_loc s HI k t Hk) as L.
  assert (Hstep : forall o, exists s', stepc s k o = Some s').
  { intros o. unfold step. rewrite Hk. destruct (t_pc t); try (eexists; reflexivity). congruence. }
  (* unless the task spins, any step lowers the measure *)
  assert (Hnospin : t_pc t <> Wait \/ cnt s = -1 \/ cnt s = id k - 1 ->
                    exists i o s', stepc s i o = Some s' /\ (measure s' < measure s)%nat).
  { intros Hc. destruct (Hstep Good) as [s' Hs']. exists k, Good, s'. split; [exact Hs'|].
    destruct (stutter_or_decrease s k Good s' Hs') as [->|H]; [|exact H].
    exfalso. unfold step in Hs'. rewrite Hk in Hs'.
    destruct (t_pc t) eqn:Hpc; try congruence.
    - (* Compute *) inversion Hs' as [E]. apply (f_equal ts) in E. cbn in E.
      assert (nth_error (upd (ts s) k (set_pc t Wait)) k = Some (set_pc t Wait)) by (rewrite nth_error_upd, Nat.eqb_refl, Hk; reflexivity).
      rewrite E, Hk in H. inversion H as [E2]. apply (f_equal t_pc) in E2. cbn in E2. congruence.
    - (* Wait *) destruct Hc as [Hc|[Hc|Hc]]; [congruence| |].
      + rewrite Hc in Hs'. cbn in Hs'. inversion Hs' as [E]. apply (f_equal ts) in E. cbn in E.
        assert (nth_error (upd (ts s) k (set_pc t Defer1)) k = Some (set_pc t Defer1)) by (rewrite nth_error_upd, Nat.eqb_refl, Hk; reflexivity).
        rewrite E, Hk in H. inversion H as [E2]. apply (f_equal t_pc) in E2. cbn in E2. congruence.
      + assert (cnt s =? -1 = false) by (apply Z.eqb_neq; unfold id_of in Hc; lia).
        rewrite H in Hs'. rewrite Hc, Z.eqb_refl in Hs'. inversion Hs' as [E]. apply (f_equal log) in E. cbn in E.
        apply (f_equal (@length Z)) in E. rewrite app_length in E. cbn in E. lia.
    - inversion Hs' as [E]. apply (f_equal ts) in E.
      assert (X : forall u, t_pc u <> Hold -> ts s <> upd (ts s) k u).
      { intros u Hu Eq. assert (nth_error (upd (ts s) k u) k = Some u) by (rewrite nth_error_upd, Nat.eqb_refl, Hk; reflexivity).
        rewrite <- Eq, Hk in H. inversion H; subst. congruence. }
      destruct sd; cbn in E; symmetry in E; eapply X in E; auto; cbn; congruence.
    - inversion Hs' as [E]. apply (f_equal ts) in E.
      assert (X : forall u, t_pc u <> Publish -> ts s <> upd (ts s) k u).
      { intros u Hu Eq. assert (nth_error (upd (ts s) k u) k = Some u) by (rewrite nth_error_upd, Nat.eqb_refl, Hk; reflexivity).
        rewrite <- Eq, Hk in H. inversion H; subst. congruence. }
      cbn in E; symmetry in E; eapply X in E; auto; cbn; congruence.
    - inversion Hs' as [E]. apply (f_equal ts) in E.
      assert (X : forall u, t_pc u <> Local -> ts s <> upd (ts s) k u).
      { intros u Hu Eq. assert (nth_error (upd (ts s) k u) k = Some u) by (rewrite nth_error_upd, Nat.eqb_refl, Hk; reflexivity).
        rewrite <- Eq, Hk in H. inversion H; subst. congruence. }
      cbn in E; symmetry in E; eapply X in E; auto; cbn; congruence.
    - assert (X : forall c u l, t_pc u <> Defer1 -> mkSt c (upd (ts s) k u) l <> s).
      { intros c u l Hu Eq. apply (f_equal ts) in Eq. cbn in Eq.
        assert (nth_error (upd (ts s) k u) k = Some u) by (rewrite nth_error_upd, Nat.eqb_refl, Hk; reflexivity).
        rewrite Eq, Hk in H. inversion H; subst. congruence. }
      inversion Hs' as [E]. destruct sd.
      + destruct (t_err t); [eapply X in E; auto; cbn; congruence|].
        destruct (cnt s =? id k - 1); eapply X in E; auto; cbn; congruence.
      + destruct (t_err t || negb (t_ok t) && negb (t_skp t)); [eapply X in E; auto; cbn; congruence|].
        destruct (cnt s =? id k - 1); eapply X in E; auto; cbn; congruence.
    - exfalso. loc. }
  destruct (t_pc t) eqn:Hpc; try (apply Hnospin; left; congruence).
  (* the first live task waits: it must hold the token unless the batch is cancelled *)
  apply Hnospin. right.
  destruct (g_cnt s HI) as [Hc|Hge]; [left; exact Hc|right].
  destruct (Z.eq_dec (cnt s) (-1)) as [|Hne]; [lia|].
  assert (Hnp : t_pub t = false).
  { destruct (t_pub t) eqn:P; [|reflexivity]. assert (t_acc t = true) by loc. assert (t_acc t = false) by loc. congruence. }
  assert (Hhi : cnt s < id k).
  { unfold Loc in L. destruct L as (_ & _ & _ & _ & _ & _ & _ & [E8|E8] & _); [lia|].
    destruct (Z.lt_ge_cases (cnt s) (id k)); [assumption|]. assert (t_pub t = true) by (apply E8; lia). congruence. }
  assert (Hlo : id k - 1 <= cnt s).
  { destruct k as [|k']; [unfold id_of; lia|].
    destruct (nth_error (ts s) k') as [u|] eqn:Eu.
    - pose proof (Hb k' u ltac:(lia) Eu) as Hd. pose proof (g_loc s HI k' u Eu) as Lu.
      unfold Loc in Lu. destruct Lu as (_ & _ & _ & _ & _ & L6 & _ & [X|X] & _); [lia|].
      destruct (L6 Hd) as [Hpu|]; [|lia]. apply X in Hpu. unfold id_of in *. lia.
    - apply nth_error_None in Eu. assert ((S k' < length (ts s))%nat) by (apply nth_error_Some; congruence). lia. }
  lia.
Qed.

(* a run in which every task has finished and nothing failed: the shared stream was accessed
   exactly in id order, once per task — the concurrent execution equals the sequential one *)
Theorem complete_run_sequential s : Inv s -> all_done s = true -> cnt s <> -1 ->
  log s = map id (seq 0 (length (ts s))) /\ cnt s = first + Z.of_nat (length (ts s)).
Proof.
  intros HI Hd Hc. destruct (g_log s HI) as (k & Hkl & Hlog & Hk).
  assert (Hall : forall i t, nth_error (ts s) i = Some t -> t_pub t = true /\ t_acc t = true).
  { intros i t Hi. unfold all_done in Hd. rewrite forallb_forall in Hd.
    pose proof (Hd t (nth_error_In _ _ Hi)) as Hp. destruct (t_pc t) eqn:Ep; try discriminate.
    pose proof (g_loc s HI i t Hi) as L. unfold Loc in L.
    destruct L as (L1 & _ & _ & _ & _ & L6 & _). destruct (L6 Ep) as [P|]; [|contradiction]. auto. }
  assert (Hk' : k = length (ts s)).
  { destruct (Nat.eq_dec k (length (ts s))) as [|Hne]; [assumption|exfalso].
    destruct (nth_error (ts s) k) as [u|] eqn:Eu; [|apply nth_error_None in Eu; lia].
    destruct (Hall k u Eu) as [_ Ha]. apply (Hk k u Eu) in Ha. lia. }
  subst k. split; [exact Hlog|].
  destruct (g_cnt s HI) as [|[Hlo Hhi]]; [contradiction|].
  destruct (length (ts s)) as [|m] eqn:El; [lia|].
  destruct (nth_error (ts s) m) as [u|] eqn:Eu; [|apply nth_error_None in Eu; lia].
  destruct (Hall m u Eu) as [Hp _]. pose proof (g_loc s HI m u Eu) as L. unfold Loc in L.
  destruct L as (_ & _ & _ & _ & _ & _ & _ & [X|X] & _); [contradiction|].
  apply X in Hp. unfold id_of in Hp. lia.
Qed.

End Proto.

(* the unrepaired decode task (plain store at the publish step) loses a cancel *)
Lemma store_publish_refuted : exists sched,
  let s := exec Dec false 0 (init Dec 0 3) sched in
  exists s0 r, exec Dec false 0 (init Dec 0 3) (firstn r sched) = s0 /\ cnt s0 = -1 /\
               cnt s <> -1 /\ length (log s) = 3%nat.
Proof.
  (* t0: Wait->Hold->Publish->Local ; t1: Wait->Hold ; t0: Local fails, Defer1 stores -1 ;
     t1: Hold->Publish, Publish stores 2 over the cancel ; t2: Wait->Hold *)
  exists [(0%nat,Good);(0%nat,Good);(0%nat,Good);(1%nat,Good);(0%nat,Fail);(0%nat,Good);
          (1%nat,Good);(1%nat,Good);(2%nat,Good)].
  cbv zeta. eexists. exists 6%nat. split; [reflexivity|]. vm_compute. repeat split; discriminate.
Qed.

Definition reachable (sd : side) (first : Z) (n : nat) (s : st) : Prop :=
  exists sched, s = exec sd true first (init sd first n) sched.

Lemma reachable_Inv sd first n s : 0 <= first -> reachable sd first n s -> Inv sd first s.
Proof. intros H [sched ->]. apply reachable_inv; exact H. Qed.
