(* A truncated stream is never reported complete, at the level of bytes (C09): the reader of a strict prefix
   of the bytes sees, read by read, what the reader of the whole stream sees - until a request exceeds
   what is left, and that request panics (Proofs/EosProofs.v).  For the NONE / NONE container: the parse of
   a strict prefix of a stream is a prefix of its blocks followed by a failure, or a header error; never
   the end marker. *)
From Coq Require Import List NArith ZArith Lia Bool ZifyN ZifyNat ZifyBool.
From KV Require Import Model.OutBS Model.InBS Model.Header Model.Container Lib.Bits Proofs.OutBSProofs Proofs.BinCoderProofs
  Proofs.InBSProofs Proofs.MirrorProofs Proofs.HeaderProofs Proofs.ArrayProofs Proofs.ReadArrayProofs Proofs.MirrorArrayProofs
  Proofs.EosProofs Proofs.ContainerProofs.
Import ListNotations.
Open Scope N_scope.
Ltac Zify.zify_post_hook ::= idtac.
Local Arguments N.pow : simpl never.
Local Arguments N.div : simpl never.
Local Arguments N.modulo : simpl never.
Local Arguments N.mul : simpl never.
Local Arguments N.sub : simpl never.
Local Arguments N.add : simpl never.

(* [s'] reads a stream that lacks the last d bits of the stream [s] reads *)
Definition Pre (d : N) (s' s : ibs) : Prop :=
  RA s' /\ RA s /\ total s = total s' + d /\ uval s' = uval s / 2 ^ d.

Lemma top_of_prefix U T d c : d + c <= T -> (U / 2 ^ d) / 2 ^ (T - d - c) = U / 2 ^ (T - c).
Proof.
  intros H. rewrite N.div_div by (apply N.pow_nonzero; discriminate). rewrite <- N.pow_add_r. f_equal. f_equal. lia.
Qed.

Lemma rest_of_prefix U T d c : d + c <= T -> (U / 2 ^ d) mod 2 ^ (T - d - c) = (U mod 2 ^ (T - c)) / 2 ^ d.
Proof.
  intros H. rewrite (mod_div_pow U (T - c) d) by lia. f_equal. f_equal. lia.
Qed.

Lemma read_bits_val_range s c s1 v : read_bits s c = (s1, Val v) -> 1 <= c <= 64.
Proof.
  unfold read_bits. cbn [read_bits_f]. destruct ((c =? 0) || (64 <? c)) eqn:E; [discriminate|]. intros _.
  apply orb_false_iff in E. destruct E as [E1 E2]. apply N.eqb_neq in E1. apply N.ltb_ge in E2. lia.
Qed.

Lemma pre_read_bits d s' s c s1 v : Pre d s' s -> read_bits s c = (s1, Val v) ->
  (exists s1' e, read_bits s' c = (s1', Pan e)) \/ (exists s1', read_bits s' c = (s1', Val v) /\ Pre d s1' s1).
Proof.
  intros (R' & R & HT & HU) E. pose proof (read_bits_val_range s c s1 v E) as Hc.
  destruct (read_bits_acc s c s1 v R Hc E) as (Hle & R1 & T1).
  destruct (rd s c R Hc Hle) as (sx & Ex & _ & Tx & Ux). rewrite Ex in E. injection E as <- <-.
  destruct (read_bits s' c) as [s1' [v'|e]] eqn:E'; [|left; eexists; eexists; reflexivity]. right.
  destruct (read_bits_acc s' c s1' v' R' Hc E') as (Hle' & R1' & T1').
  destruct (rd s' c R' Hc Hle') as (sy & Ey & _ & Ty & Uy). rewrite Ey in E'. injection E' as <- <-.
  assert (Hdc : d + c <= total s) by (clear - HT Hle'; lia).
  assert (Et : total s' - c = total s - d - c) by (clear - HT; lia).
  exists sy. split.
  { f_equal. f_equal. rewrite HU, Et. apply top_of_prefix. exact Hdc. }
  split; [exact R1'|]. split; [exact R1|]. split; [clear - HT T1 T1'; lia|].
  rewrite Uy, Ux, HU, Et. apply rest_of_prefix. exact Hdc.
Qed.

Lemma pre_read_array d s' s c s1 l : Pre d s' s -> 0 < c -> read_array s c = (s1, Val l) ->
  (exists s1' e, read_array s' c = (s1', Pan e)) \/ (exists s1', read_array s' c = (s1', Val l) /\ Pre d s1' s1).
Proof.
  intros (R' & R & HT & HU) Hc E.
  destruct (read_array_acc s c s1 l R Hc E) as (Hle & R1 & T1).
  destruct (read_array_spec s c R Hc Hle) as (sx & Ex & _ & Tx & Ux). rewrite Ex in E. injection E as <- <-.
  destruct (read_array s' c) as [s1' [l'|e]] eqn:E'; [|left; eexists; eexists; reflexivity]. right.
  destruct (read_array_acc s' c s1' l' R' Hc E') as (Hle' & R1' & T1').
  destruct (read_array_spec s' c R' Hc Hle') as (sy & Ey & _ & Ty & Uy). rewrite Ey in E'. injection E' as <- <-.
  assert (Hdc : d + c <= total s) by (clear - HT Hle'; lia).
  assert (Et : total s' - c = total s - d - c) by (clear - HT; lia).
  exists sy. split.
  - f_equal. f_equal. rewrite (bytes_of_top (uval s') (total s') c Hle'), (bytes_of_top (uval s) (total s) c Hle). f_equal.
    rewrite HU, Et. apply top_of_prefix. exact Hdc.
  - split; [exact R1'|]. split; [exact R1|]. split; [clear - HT T1 T1'; lia|].
    rewrite Uy, Ux, HU, Et. apply rest_of_prefix. exact Hdc.
Qed.

Lemma pre_read_list d : forall ws s' s s1 vs, Pre d s' s -> read_list s ws = (s1, Some vs) ->
  (exists s1', read_list s' ws = (s1', None)) \/ (exists s1', read_list s' ws = (s1', Some vs) /\ Pre d s1' s1).
Proof.
  induction ws as [|w t IH]; intros s' s s1 vs HP E; cbn [read_list] in E |- *.
  - inversion E; subst. right. exists s'. auto.
  - destruct (read_bits s w) as [sa [v|e]] eqn:Ea; [|discriminate].
    destruct (read_list sa t) as [sb [vt|]] eqn:Eb; [|discriminate]. inversion E; subst s1 vs.
    destruct (pre_read_bits d s' s w sa v HP Ea) as [(sa' & e & Ea')|(sa' & Ea' & HPa)]; rewrite Ea'; [left; eexists; reflexivity|].
    destruct (IH sa' sa sb vt HPa Eb) as [(sb' & Eb')|(sb' & Eb' & HPb)]; rewrite Eb'; [left; eexists; reflexivity|].
    right. exists sb'. auto.
Qed.

(* ---------- the header ---------- *)
Section H.
Variables evalid tvalid : N -> bool.

Lemma pre_read_header d s' s s1 c : Pre d s' s -> read_header evalid tvalid s = (s1, HOk c) ->
  (exists s1' e, read_header evalid tvalid s' = (s1', HErr e)) \/ (exists s1', read_header evalid tvalid s' = (s1', HOk c) /\ Pre d s1' s1).
Proof.
  intros HP H. unfold read_header in H |- *.
  (* type, version *)
  destruct (read_list s [32; 4]) as [sa [[|ft [|ver [|? ?]]]|]] eqn:Ea; try discriminate.
  destruct (pre_read_list d _ s' s sa _ HP Ea) as [(sa' & Ea')|(sa' & Ea' & HPa)]; rewrite Ea'; [left; eexists; eexists; reflexivity|].
  destruct (negb (ft =? BS_TYPE)); [discriminate|]. destruct (BS_VERSION <? ver); [discriminate|]. destruct (ver <? 6); [discriminate|].
  (* checksum kind *)
  destruct (read_list sa [2]) as [sb [[|ck [|? ?]]|]] eqn:Eb; try discriminate.
  destruct (pre_read_list d _ sa' sa sb _ HPa Eb) as [(sb' & Eb')|(sb' & Eb' & HPb)]; rewrite Eb'; [left; eexists; eexists; reflexivity|].
  destruct (ck =? 3); [discriminate|].
  (* entropy *)
  destruct (read_list sb [5]) as [sc [[|et [|? ?]]|]] eqn:Ec; try discriminate.
  destruct (pre_read_list d _ sb' sb sc _ HPb Ec) as [(sc' & Ec')|(sc' & Ec' & HPc)]; rewrite Ec'; [left; eexists; eexists; reflexivity|].
  destruct (negb (evalid et)); [discriminate|].
  (* transforms *)
  destruct (read_list sc [48]) as [sd [[|ttp [|? ?]]|]] eqn:Ed; try discriminate.
  destruct (pre_read_list d _ sc' sc sd _ HPc Ed) as [(sd' & Ed')|(sd' & Ed' & HPd)]; rewrite Ed'; [left; eexists; eexists; reflexivity|].
  destruct (negb (tvalid ttp)); [discriminate|].
  (* block size *)
  destruct (read_list sd [28]) as [se [[|bs4 [|? ?]]|]] eqn:Ee; try discriminate.
  destruct (pre_read_list d _ sd' sd se _ HPd Ee) as [(se' & Ee')|(se' & Ee' & HPe)]; rewrite Ee'; [left; eexists; eexists; reflexivity|].
  cbv zeta in H |- *. destruct ((bs4 * 16 <? MIN_BLOCK) || (MAX_BLOCK <? bs4 * 16)); [discriminate|].
  (* size mask, size *)
  destruct (read_list se [2]) as [sf [[|m [|? ?]]|]] eqn:Ef; try discriminate.
  destruct (pre_read_list d _ se' se sf _ HPe Ef) as [(sf' & Ef')|(sf' & Ef' & HPf)]; rewrite Ef'; [left; eexists; eexists; reflexivity|].
  assert (Hsz : forall sg isz, (if m =? 0 then (sf, Some [0]) else read_list sf [16 * m]) = (sg, Some [isz]) ->
            (exists sg', (if m =? 0 then (sf', Some [0]) else read_list sf' [16 * m]) = (sg', None)) \/
            (exists sg', (if m =? 0 then (sf', Some [0]) else read_list sf' [16 * m]) = (sg', Some [isz]) /\ Pre d sg' sg)).
  { intros sg isz Eg. destruct (m =? 0).
    - inversion Eg; subst. right. exists sf'. auto.
    - exact (pre_read_list d _ sf' sf sg _ HPf Eg). }
  destruct (if m =? 0 then (sf, Some [0]) else read_list sf [16 * m]) as [sg [[|isz [|? ?]]|]] eqn:Eg; try discriminate.
  destruct (Hsz sg isz eq_refl) as [(sg' & Eg')|(sg' & Eg' & HPg)]; rewrite Eg'; [left; eexists; eexists; reflexivity|].
  (* padding, checksum of the header *)
  destruct (read_list sg [15; 24]) as [sh [[|pd [|crc [|? ?]]]|]] eqn:Eh; try discriminate.
  destruct (pre_read_list d _ sg' sg sh _ HPg Eh) as [(sh' & Eh')|(sh' & Eh' & HPh)]; rewrite Eh'; [left; eexists; eexists; reflexivity|].
  destruct (crc =? hcksum ck et ttp (bs4 * 16) (0 <? m) isz mod 16777216); [|discriminate].
  injection H as <- <-. right. exists sh'. auto.
Qed.

End H.

(* ---------- the frames ---------- *)
Lemma pre_read_img d : forall fuel s' s w acc s3 img, Pre d s' s -> read_img fuel s w acc = (s3, Some img) ->
  (exists s3', read_img fuel s' w acc = (s3', None)) \/ (exists s3', read_img fuel s' w acc = (s3', Some img) /\ Pre d s3' s3).
Proof.
  induction fuel as [|f IH]; intros s' s w acc s3 img HP E; cbn [read_img] in E |- *.
  - inversion E; subst. right. exists s'. auto.
  - destruct (w =? 0) eqn:E0; [inversion E; subst; right; exists s'; auto|]. apply N.eqb_neq in E0.
    destruct (read_array s (N.min w 1073741824)) as [sa [l|e]] eqn:Ea; [|discriminate].
    destruct (pre_read_array d s' s (N.min w 1073741824) sa l HP ltac:(clear - E0; lia) Ea) as [(sa' & e & Ea')|(sa' & Ea' & HPa)]; rewrite Ea'; [left; eexists; reflexivity|].
    exact (IH sa' sa _ _ s3 img HPa E).
Qed.

Section T.
Variable hash : list N -> N.
Variable ck : N.
Hypothesis Hck : ck <= 2.
Hypothesis Hh32 : ck = 1 -> forall l, hash l < 2 ^ 32.
Hypothesis Hh64 : ck = 2 -> forall l, hash l < 2 ^ 64.

(* the frames of a stream that lacks its last d bits (more than the padding): some of the blocks, then a failure *)
Lemma trunc_frames bsize : bsize <= MAX_BLOCK -> forall blocks fuel s' s P p d, Pre d s' s -> Forall (blk_ok bsize) blocks -> p < 2 ^ P -> P < d ->
  (length blocks < fuel)%nat ->
  uval s = fst (abvs (flat_map (frame_aops hash ck) blocks ++ end_aops)) * 2 ^ P + p ->
  total s = snd (abvs (flat_map (frame_aops hash ck) blocks ++ end_aops)) + P ->
  exists j, (j <= length blocks)%nat /\ parse_frames hash fuel ck bsize s' = map PData (firstn j blocks) ++ [PFail].
Proof.
  intros Hmax. induction blocks as [|b t IH]; intros fuel s' s P p d HP Hok Hp HPd Hfu HU HT.
  - destruct fuel as [|f]; [cbn [length] in Hfu; lia|]. cbn [flat_map app] in HU, HT. unfold end_aops in HU, HT. exists O. split; [apply le_n|].
    cbn [parse_frames firstn map app]. pose proof HP as (_ & HR & _ & _).
    destruct (rd_abvs s 0 5 [AOp (WBits 0 3)] P p HR ltac:(lia) ltac:(repeat constructor; cbn; lia) Hp HU HT) as (s1 & E1 & R1 & U1 & T1).
    change (0 mod 2 ^ 5) with 0 in E1.
    destruct (pre_read_bits d s' s 5 s1 0 HP E1) as [(s1' & e & E1')|(s1' & E1' & HP1)]; rewrite E1'; [reflexivity|].
    change (0 + 3) with 3.
    destruct (rd_abvs s1 0 3 [] P p R1 ltac:(lia) ltac:(constructor) Hp U1 T1) as (s2 & E2 & R2 & U2 & T2).
    change (0 mod 2 ^ 3) with 0 in E2.
    destruct (pre_read_bits d s1' s1 3 s2 0 HP1 E2) as [(s2' & e & E2')|(s2' & E2' & HP2)]; rewrite E2'; [reflexivity|].
    exfalso. destruct HP2 as (_ & _ & X & _). cbn [abvs snd] in T2. clear - X T2 HPd. lia.
  - destruct fuel as [|f]; [cbn [length] in Hfu; lia|]. cbn [length] in Hfu.
    inversion Hok as [|? ? Hb Ht]; subst. cbn [flat_map] in HU, HT. rewrite <- app_assoc in HU, HT.
    pose proof HP as (_ & HR & _ & _).
    destruct (read_frame hash ck Hck Hh32 Hh64 s bsize b _ P p HR Hb Hmax (frames_ok hash ck Hck Hh32 Hh64 bsize t Ht) Hp HU HT)
      as (s1 & s2 & s3 & l3 & w & img & E1 & E2 & W0 & W1 & E3 & Epi & R3 & U3 & T3).
    cbn [parse_frames].
    destruct (pre_read_bits d s' s 5 s1 l3 HP E1) as [(s1' & e & E1')|(s1' & E1' & HP1)]; rewrite E1'; [exists O; split; [lia|reflexivity]|].
    destruct (pre_read_bits d s1' s1 _ s2 w HP1 E2) as [(s2' & e & E2')|(s2' & E2' & HP2)]; rewrite E2'; [exists O; split; [lia|reflexivity]|].
    rewrite W0, W1.
    destruct (pre_read_img d _ s2' s2 w [] s3 img HP2 E3) as [(s3' & E3')|(s3' & E3' & HP3)]; rewrite E3'; [exists O; split; [lia|reflexivity]|].
    rewrite Epi.
    destruct (IH f s3' s3 P p d HP3 Ht Hp HPd ltac:(lia) U3 T3) as (j & Hj & Ej).
    exists (S j). split; [cbn [length]; lia|]. rewrite Ej. reflexivity.
Qed.

End T.

(* ---------- a truncated stream ---------- *)
Lemma be_val_firstn l k : bytes_ok l -> (k <= length l)%nat -> be_val (firstn k l) = be_val l / 2 ^ (8 * N.of_nat (length l - k)).
Proof.
  intros Hb Hk. rewrite <- (firstn_skipn k l) at 2. rewrite be_val_app, skipn_length.
  pose proof (be_val_lt (skipn k l) (bytes_ok_skipn _ _ Hb)) as Hlt. rewrite skipn_length in Hlt.
  rewrite N.div_add_l by (apply N.pow_nonzero; discriminate). rewrite (N.div_small _ _ Hlt). lia.
Qed.

Section S.
Variable hash : list N -> N.
Variables evalid tvalid : N -> bool.
Variable c : hcfg.
Hypothesis Hc : cfg_ok evalid tvalid c.
Hypothesis H32 : h_ck c = 1 -> forall l, hash l < 2 ^ 32.
Hypothesis H64 : h_ck c = 2 -> forall l, hash l < 2 ^ 64.

Theorem container_truncated blocks nframes rbuf sched (k : nat) :
  Forall (blk_ok (h_bsize c)) blocks -> (length blocks < nframes)%nat -> 0 < rbuf -> rbuf mod 8 = 0 ->
  (k < length (write_stream hash c blocks))%nat ->
  let cut := firstn k (write_stream hash c blocks) in
  parse_stream hash evalid tvalid nframes rbuf sched cut = None \/
  exists j, (j <= length blocks)%nat /\
    parse_stream hash evalid tvalid nframes rbuf sched cut = Some (norm_cfg c, map PData (firstn j blocks) ++ [PFail]).
Proof.
  intros Hbl Hfu Hr Hr8 Hk cut.
  pose proof (ck_ok _ _ _ Hc) as Hck. destruct (bs_ok _ _ _ Hc) as [[_ Hmax] _].
  destruct (container_header hash evalid tvalid c Hc H32 H64 blocks rbuf [] Hbl Hr Hr8) as (pad & sH & Hpad & Hob & Eh & RH & UH & TH). cbv zeta in UH, TH.
  set (S := write_stream hash c blocks) in *.
  set (d := 8 * N.of_nat (length S - k)).
  assert (Hd : 8 <= d) by (unfold d; lia).
  assert (Hcb : bytes_ok cut) by (apply bytes_ok_firstn; exact Hob).
  destruct (new_ibs_ra rbuf cut sched Hr Hr8 Hcb) as (R0' & U0' & T0'). cbv zeta in R0', U0', T0'.
  destruct (new_ibs_ra rbuf S [] Hr Hr8 Hob) as (R0 & U0 & T0). cbv zeta in R0, U0, T0.
  assert (HP0 : Pre d (new_ibs rbuf (mkSrc cut sched None 0)) (new_ibs rbuf (mkSrc S [] None 0))).
  { split; [exact R0'|]. split; [exact R0|]. split.
    - rewrite T0, T0'. unfold cut. rewrite firstn_length, Nat.min_l by lia. unfold d. lia.
    - rewrite U0, U0'. unfold cut, d. apply be_val_firstn; [exact Hob|lia]. }
  unfold parse_stream.
  destruct (pre_read_header evalid tvalid d _ _ sH (norm_cfg c) HP0 Eh) as [(s1' & e & E')|(s1' & E' & HP1)]; rewrite E'; [left; reflexivity|].
  right. change (h_ck (norm_cfg c)) with (h_ck c). change (h_bsize (norm_cfg c)) with (h_bsize c).
  destruct (trunc_frames hash (h_ck c) Hck H32 H64 (h_bsize c) Hmax blocks nframes s1' sH pad 0 d HP1 Hbl (pow2_pos pad) ltac:(lia) Hfu UH TH) as (j & Hj & Ej).
  exists j. split; [exact Hj|]. rewrite Ej. reflexivity.
Qed.

End S.
