(* Input bit stream (C06 source side, C14 read side, C09 end of data): for EVERY chunk schedule of
   the underlying io.Reader (any sizes, down to one byte at a time), every buffer size and every
   reachable state, ReadBit / ReadBits return the next bits of the byte string, independently of
   how the source delivered it; asking for more bits than are left raises (panics), never
   returns.  The unread part of the stream is viewed as a number: the [i_avail] low-order bits of
   [i_cur], then the buffered bytes, then the bytes the source has not delivered yet. *)
From Coq Require Import List NArith ZArith Lia Bool ZifyN ZifyNat ZifyBool.
From KV Require Import Model.OutBS Model.InBS Lib.Bits Proofs.OutBSProofs Proofs.BinCoderProofs.
Import ListNotations.
Open Scope N_scope.

(* Proofs.BinCoderProofs turns on the div/mod pre-processing of lia; not wanted here *)
Ltac Zify.zify_post_hook ::= idtac.

Local Arguments N.pow : simpl never.
Local Arguments N.div : simpl never.
Local Arguments N.modulo : simpl never.
Local Arguments N.mul : simpl never.
Local Arguments N.sub : simpl never.
Local Arguments N.add : simpl never.

Lemma skipn_skipn_loc {A} (l : list A) : forall y x, skipn x (skipn y l) = skipn (y + x) l.
Proof.
  induction l as [|a l IH]; intros y x; [rewrite !skipn_nil; reflexivity|].
  destruct y as [|y]; [reflexivity|]. cbn [plus skipn]. apply IH.
Qed.

(* ---------- the source ---------- *)
Definition src_ok (s : source) : Prop := src_failat s = None /\ bytes_ok (src_data s).

Lemma src_read_spec s count : src_ok s -> 0 < count ->
  (src_data s = [] /\ exists s', src_read s count = (s', [], Some EEOF) /\ src_ok s' /\ src_data s' = []) \/
  (src_data s <> [] /\ exists s' n, src_read s count = (s', firstn n (src_data s), None) /\ src_ok s' /\
     src_data s' = skipn n (src_data s) /\ (1 <= n)%nat /\ N.of_nat n <= count).
Proof.
  intros [Hf Hb] Hc. unfold src_read. rewrite Hf.
  destruct (src_data s) as [|x t] eqn:Ed.
  - left. split; [reflexivity|]. eexists. split; [reflexivity|]. split; [split; [reflexivity|constructor]|reflexivity].
  - right. split; [discriminate|].
    set (want := match src_sched s with [] => count | k :: _ => if k =? 0 then count else N.min k count end).
    assert (Hw : 1 <= want <= count).
    { unfold want. destruct (src_sched s) as [|k r]; [lia|]. destruct (k =? 0) eqn:E; [lia|]. apply N.eqb_neq in E. lia. }
    eexists. exists (N.to_nat want). split; [reflexivity|]. cbn [src_data src_failat]. split.
    + split; [reflexivity|]. apply bytes_ok_skipn. exact Hb.
    + split; [reflexivity|]. lia.
Qed.

(* the refill loop: whatever the schedule, it extends [got] with the next bytes of the data *)
Lemma refill_more_spec : forall fuel src got count, src_ok src -> bytes_ok got ->
  exists src' more err, refill_more fuel src got count = (src', got ++ more, err) /\ src_ok src' /\
    src_data src = more ++ src_data src' /\
    (err = None \/ (err = Some EEOF /\ src_data src' = [])).
Proof.
  induction fuel as [|f IH]; intros src got count Hs Hg; cbn [refill_more].
  - exists src, [], None. rewrite app_nil_r. auto.
  - destruct ((0 <? N.of_nat (length got)) && negb (N.land (N.of_nat (length got)) 7 =? 0) && (N.of_nat (length got) <? count)) eqn:Ec.
    2:{ exists src, [], None. rewrite app_nil_r. auto. }
    apply andb_true_iff in Ec. destruct Ec as [_ Ec]. apply N.ltb_lt in Ec.
    destruct (src_read_spec src (count - N.of_nat (length got)) Hs ltac:(lia)) as [(Hd & s' & E & Hs' & Hd')|(Hd & s' & n & E & Hs' & Hd' & Hn & _)].
    + rewrite E. exists s', [], (Some EEOF). rewrite app_nil_r, Hd, Hd'. split; [reflexivity|]. split; [exact Hs'|]. split; [reflexivity|]. right. auto.
    + rewrite E. destruct (firstn n (src_data src)) as [|y q] eqn:Ef.
      { exfalso. destruct (src_data src); [congruence|]. destruct n; [lia|discriminate]. }
      rewrite <- Ef.
      destruct (IH s' (got ++ firstn n (src_data src)) count Hs') as (s2 & more & err & E2 & Hs2 & Hd2 & He2).
      { apply Forall_app. split; [exact Hg|]. apply bytes_ok_firstn. apply Hs. }
      exists s2, (firstn n (src_data src) ++ more), err. rewrite E2, <- app_assoc. split; [reflexivity|]. split; [exact Hs2|].
      split; [|exact He2]. rewrite <- app_assoc, <- Hd2, Hd'. symmetry. apply firstn_skipn.
Qed.

(* ---------- the stream state ---------- *)
Record IInv (s : ibs) : Prop := {
  ii_open : i_closed s = false;
  ii_src : src_ok (i_src s);
  ii_pend : i_pending s = None \/ (i_pending s = Some EEOF /\ src_data (i_src s) = []);
  ii_pos : i_pos s <= i_max1 s;
  ii_buf : bytes_ok (i_buf s);
  ii_size : 0 < i_size s
}.

(* bytes not yet moved into the accumulator *)
Definition rest_bytes (s : ibs) : list N := skipn (N.to_nat (i_pos s)) (i_buf s) ++ src_data (i_src s).

Lemma iinv_acc s a c : IInv s -> IInv (set_iacc s a c).
Proof. intros [A B C D E F]. constructor; assumption. Qed.

(* readFromInputStream when the buffer is exhausted *)
Lemma refill_spec s : IInv s -> i_pos s = i_max1 s ->
  (src_data (i_src s) = [] /\ exists s' e, read_from_source s (i_size s) = (s', Some e)) \/
  (src_data (i_src s) <> [] /\ exists s', read_from_source s (i_size s) = (s', None) /\ IInv s' /\
     i_pos s' = 0 /\ i_buf s' <> [] /\ rest_bytes s' = rest_bytes s /\ i_avail s' = i_avail s /\ i_cur s' = i_cur s).
Proof.
  intros [Ho Hs Hp Hpos Hb Hsz] Hfull. unfold read_from_source. rewrite Ho.
  replace (i_size s =? 0) with false by (symmetry; apply N.eqb_neq; lia).
  destruct Hp as [Hp|[Hp Hd]].
  2:{ rewrite Hp. left. split; [exact Hd|]. eexists. eexists. reflexivity. }
  rewrite Hp.
  destruct (src_read_spec (i_src s) (i_size s) Hs Hsz) as [(Hd & s1 & E & Hs1 & Hd1)|(Hd & s1 & n & E & Hs1 & Hd1 & Hn & _)].
  - left. split; [exact Hd|]. rewrite E. eexists. eexists. reflexivity.
  - right. split; [exact Hd|]. rewrite E.
    assert (Hg1 : bytes_ok (firstn n (src_data (i_src s)))) by (apply bytes_ok_firstn; apply Hs).
    destruct (refill_more_spec (N.to_nat (i_size s)) s1 (firstn n (src_data (i_src s))) (i_size s) Hs1 Hg1) as (s2 & more & err & E2 & Hs2 & Hd2 & He2).
    rewrite E2.
    destruct (firstn n (src_data (i_src s)) ++ more) as [|y q] eqn:Eg.
    { exfalso. apply app_eq_nil in Eg. destruct Eg as [Eg _]. destruct (src_data (i_src s)); [congruence|]. destruct n; [lia|discriminate]. }
    rewrite <- Eg. eexists. split; [reflexivity|].
    assert (Hbok : bytes_ok (firstn n (src_data (i_src s)) ++ more)).
    { apply Forall_app. split; [exact Hg1|]. destruct Hs1 as [_ Hb1]. rewrite Hd2 in Hb1. apply Forall_app in Hb1. tauto. }
    split.
    + constructor; cbn [i_closed i_src i_pending i_pos i_buf i_size];
        [reflexivity|exact Hs2|destruct He2 as [->|[-> Hd3]]; auto|unfold i_max1; cbn [i_buf]; lia|exact Hbok|exact Hsz].
    + cbn [i_pos i_buf i_avail i_cur]. split; [reflexivity|]. split; [rewrite Eg; discriminate|]. split; [|auto].
      unfold rest_bytes. cbn [i_pos i_buf i_src N.to_nat skipn].
      unfold i_max1 in Hfull. rewrite (skipn_all2 (i_buf s)) by lia. cbn [app].
      rewrite <- app_assoc, <- Hd2, Hd1. apply firstn_skipn.
Qed.

(* pull(): the next 1..8 bytes, or a panic when nothing is left *)
Lemma pull_spec s : IInv s ->
  (rest_bytes s = [] /\ exists s' e, pull s = (s', Pan e)) \/
  (rest_bytes s <> [] /\ exists s' (k : nat), (1 <= k <= 8)%nat /\ (k <= length (rest_bytes s))%nat /\
     pull s = (s', Val (be_val (firstn k (rest_bytes s)), 8 * N.of_nat k)) /\ IInv s' /\
     rest_bytes s' = skipn k (rest_bytes s) /\ i_avail s' = i_avail s /\ i_cur s' = i_cur s).
Proof.
  intros HI.
  (* after the optional refill: a state with unread bytes in its buffer *)
  assert (Htake : forall s1, IInv s1 -> i_pos s1 < i_max1 s1 ->
    exists s' (k : nat), (1 <= k <= 8)%nat /\ (k <= length (rest_bytes s1))%nat /\
     (if i_max1 s1 <? i_pos s1 + 8
      then (set_ipos s1 (i_max1 s1), Val (be_val (skipn (N.to_nat (i_pos s1)) (i_buf s1)), 8 * N.of_nat (length (skipn (N.to_nat (i_pos s1)) (i_buf s1)))))
      else (set_ipos s1 (i_pos s1 + 8), Val (word_of (skipn (N.to_nat (i_pos s1)) (i_buf s1)), 64))) =
       (s', Val (be_val (firstn k (rest_bytes s1)), 8 * N.of_nat k)) /\ IInv s' /\
     rest_bytes s' = skipn k (rest_bytes s1) /\ i_avail s' = i_avail s1 /\ i_cur s' = i_cur s1).
  { intros s1 [Ho Hs Hp Hpos Hb Hsz] Hlt. unfold i_max1 in *.
    set (rest := skipn (N.to_nat (i_pos s1)) (i_buf s1)).
    assert (Hrl : length rest = (length (i_buf s1) - N.to_nat (i_pos s1))%nat) by (unfold rest; apply skipn_length).
    destruct (N.of_nat (length (i_buf s1)) <? i_pos s1 + 8) eqn:E.
    - apply N.ltb_lt in E. exists (set_ipos s1 (N.of_nat (length (i_buf s1)))), (length rest).
      split; [lia|]. split; [unfold rest_bytes; fold rest; rewrite app_length; lia|].
      split.
      { unfold rest_bytes. fold rest. rewrite firstn_app, Nat.sub_diag, firstn_all. cbn [firstn]. rewrite app_nil_r. reflexivity. }
      split.
      { constructor; unfold i_max1, set_ipos; cbn [i_closed i_src i_pending i_pos i_buf i_size]; auto; lia. }
      split; [|auto]. unfold rest_bytes. cbn [set_ipos i_pos i_buf i_src]. fold rest.
      rewrite Nat2N.id, skipn_all, skipn_app, Nat.sub_diag, skipn_all. reflexivity.
    - apply N.ltb_ge in E. exists (set_ipos s1 (i_pos s1 + 8)), 8%nat.
      split; [lia|]. split; [unfold rest_bytes; fold rest; rewrite app_length; lia|].
      split.
      { unfold rest_bytes, word_of. fold rest. rewrite firstn_app. replace (8 - length rest)%nat with O by lia. cbn [firstn]. rewrite app_nil_r. reflexivity. }
      split.
      { constructor; unfold i_max1, set_ipos; cbn [i_closed i_src i_pending i_pos i_buf i_size]; auto; lia. }
      split; [|auto]. unfold rest_bytes. cbn [set_ipos i_pos i_buf i_src]. fold rest.
      rewrite skipn_app. replace (8 - length rest)%nat with O by lia. change (skipn 0 (src_data (i_src s1))) with (src_data (i_src s1)). f_equal.
      unfold rest. rewrite skipn_skipn_loc. f_equal. lia. }
  unfold pull. destruct (i_max1 s <=? i_pos s) eqn:Efull.
  - apply N.leb_le in Efull. assert (Hpe : i_pos s = i_max1 s) by (pose proof (ii_pos s HI); lia).
    assert (Hrb : rest_bytes s = src_data (i_src s)).
    { unfold rest_bytes. unfold i_max1 in Hpe. rewrite skipn_all2 by lia. reflexivity. }
    destruct (refill_spec s HI Hpe) as [(Hd & s' & e & E)|(Hd & s1 & E & HI1 & Hp0 & Hne & Hr & Ha & Hc)].
    + left. rewrite Hrb. split; [exact Hd|]. rewrite E. eexists. eexists. reflexivity.
    + right. rewrite Hrb. split; [exact Hd|]. rewrite E.
      assert (Hlt : i_pos s1 < i_max1 s1).
      { rewrite Hp0. unfold i_max1. destruct (i_buf s1); [congruence|cbn [length]; lia]. }
      destruct (Htake s1 HI1 Hlt) as (s' & k & Hk & Hkl & Et & HI' & Hr' & Ha' & Hc').
      rewrite Et. rewrite Hr, Hrb in *. exists s', k. rewrite Ha', Hc', Ha, Hc. auto 10.
  - apply N.leb_gt in Efull. right.
    assert (Hne : rest_bytes s <> []).
    { unfold rest_bytes. intros Hn. apply app_eq_nil in Hn. destruct Hn as [Hn _]. apply (f_equal (@length N)) in Hn.
      rewrite skipn_length in Hn. unfold i_max1 in Efull. cbn [length] in Hn. lia. }
    split; [exact Hne|]. destruct (Htake s HI Efull) as (s' & k & Hk & Hkl & Et & HI' & Hr' & Ha' & Hc').
    rewrite Et. exists s', k. auto 10.
Qed.

(* ---------- arithmetic of bit extraction ---------- *)
Lemma mask_mod cur a : a <= 64 -> N.land cur (shr64 mask64 (64 - a)) = cur mod 2 ^ a.
Proof.
  intros Ha. destruct (N.eq_dec a 0) as [->|Hn].
  - rewrite shr64_64 by lia. rewrite N.land_0_r. change (2 ^ 0) with 1. symmetry. apply N.mod_1_r.
  - rewrite shr64_spec by lia. rewrite mask64_eq, N.ones_div_pow2 by lia.
    replace (64 - (64 - a)) with a by lia. apply N.land_ones.
Qed.

Lemma mod_div_pow x a d : d <= a -> (x mod 2 ^ a) / 2 ^ d = (x / 2 ^ d) mod 2 ^ (a - d).
Proof.
  intros H. rewrite (pow2_split a d H), N.mul_comm.
  rewrite N.mod_mul_r by (apply N.pow_nonzero; discriminate).
  rewrite N.mul_comm, N.div_add by (apply N.pow_nonzero; discriminate).
  rewrite N.div_small by (apply N.mod_lt; apply N.pow_nonzero; discriminate). reflexivity.
Qed.

Lemma take_bits x a c m bv : c <= a -> bv < 2 ^ m ->
  ((x mod 2 ^ a) * 2 ^ m + bv) / 2 ^ ((a - c) + m) = (x / 2 ^ (a - c)) mod 2 ^ c /\
  ((x mod 2 ^ a) * 2 ^ m + bv) mod 2 ^ ((a - c) + m) = (x mod 2 ^ (a - c)) * 2 ^ m + bv.
Proof.
  intros Hc Hb. set (d := a - c).
  assert (Hm : 2 ^ m <> 0) by (apply N.pow_nonzero; discriminate).
  assert (Hd : 2 ^ d <> 0) by (apply N.pow_nonzero; discriminate).
  assert (E1 : (x mod 2 ^ a) = (x / 2 ^ d) mod 2 ^ c * 2 ^ d + x mod 2 ^ d).
  { rewrite (pow2_split a d ltac:(unfold d; lia)). replace (a - d) with c by (unfold d; lia).
    assert (Hc2 : 2 ^ c <> 0) by (apply N.pow_nonzero; discriminate).
    rewrite (N.mul_comm (2 ^ c)). rewrite N.mod_mul_r by assumption. lia. }
  pose proof (N.mod_lt x (2 ^ d) Hd) as Hxd.
  assert (Hlow : x mod 2 ^ d * 2 ^ m + bv < 2 ^ (d + m)).
  { rewrite N.pow_add_r. apply N.lt_le_trans with ((x mod 2 ^ d + 1) * 2 ^ m); [clear - Hb; lia|].
    apply N.mul_le_mono_r. clear - Hxd. lia. }
  rewrite E1. replace (((x / 2 ^ d) mod 2 ^ c * 2 ^ d + x mod 2 ^ d) * 2 ^ m + bv) with
    ((x mod 2 ^ d * 2 ^ m + bv) + (x / 2 ^ d) mod 2 ^ c * 2 ^ (d + m)) by (rewrite N.pow_add_r; lia).
  assert (Hdm : 2 ^ (d + m) <> 0) by (apply N.pow_nonzero; discriminate).
  split.
  - rewrite N.div_add by exact Hdm. rewrite N.div_small by exact Hlow. reflexivity.
  - rewrite N.mod_add by exact Hdm. apply N.mod_small. exact Hlow.
Qed.

Lemma join_bits res a c' T2 U2 : res < 2 ^ a -> a + c' <= 64 -> c' <= T2 -> U2 < 2 ^ T2 ->
  N.lor (shl64 res c') (U2 / 2 ^ (T2 - c')) = (res * 2 ^ T2 + U2) / 2 ^ (T2 - c') /\
  (res * 2 ^ T2 + U2) mod 2 ^ (T2 - c') = U2 mod 2 ^ (T2 - c').
Proof.
  intros Hr Ha Hc HU. set (d := T2 - c').
  assert (Hd : 2 ^ d <> 0) by (apply N.pow_nonzero; discriminate).
  assert (ET : 2 ^ T2 = 2 ^ c' * 2 ^ d) by (rewrite <- N.pow_add_r; f_equal; unfold d; lia).
  assert (Hv : U2 / 2 ^ d < 2 ^ c') by (apply N.div_lt_upper_bound; [exact Hd|rewrite N.mul_comm, <- ET; exact HU]).
  assert (Hs : shl64 res c' = res * 2 ^ c').
  { destruct (N.eq_dec c' 64) as [->|Hn].
    - assert (a = 0) by lia. subst a. change (2 ^ 0) with 1 in Hr. assert (res = 0) by lia. subst res. rewrite shl64_64 by lia. lia.
    - rewrite shl64_spec by lia. apply N.mod_small.
      assert (2 ^ a * 2 ^ c' <= 2 ^ 64) by (rewrite <- N.pow_add_r; apply N.pow_le_mono_r; [discriminate|exact Ha]).
      pose proof (pow2_pos c'). nia. }
  split.
  - rewrite Hs. rewrite (lor_disjoint (res * 2 ^ c') (U2 / 2 ^ d) c') by (try exact Hv; apply N.mod_mul; apply N.pow_nonzero; discriminate).
    rewrite ET. replace (res * (2 ^ c' * 2 ^ d) + U2) with (U2 + res * 2 ^ c' * 2 ^ d) by lia.
    rewrite N.div_add by exact Hd. lia.
  - rewrite ET. replace (res * (2 ^ c' * 2 ^ d) + U2) with (U2 + res * 2 ^ c' * 2 ^ d) by lia.
    apply N.mod_add. exact Hd.
Qed.

(* ---------- ReadBits ---------- *)
Definition nb (s : ibs) : N := N.of_nat (length (rest_bytes s)).
Definition total (s : ibs) : N := i_avail s + 8 * nb s.
Definition uval (s : ibs) : N := (i_cur s mod 2 ^ i_avail s) * 2 ^ (8 * nb s) + be_val (rest_bytes s).

Record AInv (s : ibs) : Prop := { ai_i : IInv s; ai_av : i_avail s <= 64; ai_cur : i_cur s < 2 ^ 64 }.

Lemma rest_ok s : IInv s -> bytes_ok (rest_bytes s).
Proof. intros [_ [_ Hd] _ _ Hb _]. apply Forall_app. split; [apply bytes_ok_skipn; exact Hb|exact Hd]. Qed.

(* the request fits in the accumulator *)
Lemma read_bits_direct s count : AInv s -> 1 <= count -> count <= i_avail s ->
  let s' := set_iacc s (i_avail s - count) (i_cur s) in
  N.land (N.shiftr (i_cur s) (i_avail s - count)) (shr64 mask64 (64 - count)) = uval s / 2 ^ (total s - count) /\
  AInv s' /\ total s' = total s - count /\ uval s' = uval s mod 2 ^ (total s - count).
Proof.
  intros [HI Hav Hcur] Hc1 Hc. pose proof (be_val_lt _ (rest_ok s HI)) as Hbv. fold (nb s) in Hbv.
  destruct (take_bits (i_cur s) (i_avail s) count (8 * nb s) (be_val (rest_bytes s)) Hc Hbv) as [T1 T2].
  assert (Ed : total s - count = i_avail s - count + 8 * nb s) by (unfold total; clear - Hc; lia).
  assert (Hc64 : count <= 64) by (clear - Hc Hav; lia).
  split; [|split; [|split]].
  - unfold uval. rewrite Ed, T1, N.shiftr_div_pow2. rewrite <- (N.land_ones _ count). f_equal.
    rewrite shr64_spec by (clear - Hc1; lia). rewrite mask64_eq, N.ones_div_pow2 by (clear - Hc64; lia). f_equal. clear - Hc64. lia.
  - constructor; [apply iinv_acc; exact HI|cbn [set_iacc i_avail]; clear - Hav; lia|exact Hcur].
  - unfold total, nb, rest_bytes. cbn [set_iacc i_avail i_pos i_buf i_src]. fold (rest_bytes s). fold (nb s). clear - Hc. lia.
  - unfold uval, nb, rest_bytes. cbn [set_iacc i_avail i_cur i_pos i_buf i_src]. fold (rest_bytes s). fold (nb s).
    rewrite Ed, T2. reflexivity.
Qed.

Lemma read_bits_ok : forall fuel s count, AInv s -> 1 <= count <= 64 ->
  count <= i_avail s + 8 * N.of_nat fuel -> count <= total s ->
  exists s', read_bits_f fuel s count = (s', Val (uval s / 2 ^ (total s - count))) /\ AInv s' /\
    total s' = total s - count /\ uval s' = uval s mod 2 ^ (total s - count).
Proof.
  induction fuel as [|f IH]; intros s count HA Hc Hfu Ht.
  - cbn [read_bits_f]. replace ((count =? 0) || (64 <? count)) with false by (symmetry; apply orb_false_iff; split; [apply N.eqb_neq|apply N.ltb_ge]; clear - Hc; lia).
    assert (Hca : count <= i_avail s) by (clear - Hfu; lia).
    replace (count <=? i_avail s) with true by (symmetry; apply N.leb_le; exact Hca).
    destruct (read_bits_direct s count HA ltac:(clear - Hc; lia) Hca) as (D1 & D2 & D3 & D4).
    eexists. split; [rewrite D1; reflexivity|]. split; [exact D2|]. split; [exact D3|exact D4].
  - cbn [read_bits_f]. replace ((count =? 0) || (64 <? count)) with false by (symmetry; apply orb_false_iff; split; [apply N.eqb_neq|apply N.ltb_ge]; clear - Hc; lia).
    destruct (count <=? i_avail s) eqn:Ec.
    + apply N.leb_le in Ec.
      destruct (read_bits_direct s count HA ltac:(clear - Hc; lia) Ec) as (D1 & D2 & D3 & D4).
      eexists. split; [rewrite D1; reflexivity|]. split; [exact D2|]. split; [exact D3|exact D4].
    + apply N.leb_gt in Ec. destruct HA as [HI Hav Hcur].
      rewrite (mask_mod (i_cur s) (i_avail s) Hav).
      destruct (pull_spec s HI) as [(Hr & _)|(Hr & s1 & k & Hk & Hkl & Ep & HI1 & Hr1 & Ha1 & Hc1)].
      { exfalso. unfold total, nb in Ht. rewrite Hr in Ht. cbn [length N.of_nat] in Ht. clear - Ht Ec. lia. }
      rewrite Ep. set (B := rest_bytes s) in *. set (c := be_val (firstn k B)).
      set (s2 := set_iacc s1 (8 * N.of_nat k) c).
      assert (HBok : bytes_ok B) by (apply rest_ok; exact HI).
      assert (Hcl : c < 2 ^ (8 * N.of_nat k)).
      { pose proof (be_val_lt _ (bytes_ok_firstn k _ HBok)) as X. rewrite firstn_length in X.
        replace (Nat.min k (length B)) with k in X by (clear - Hkl; lia). exact X. }
      assert (HA2 : AInv s2).
      { constructor; [apply iinv_acc; exact HI1|cbn [s2 set_iacc i_avail]; clear - Hk; lia|].
        cbn [s2 set_iacc i_cur]. eapply N.lt_le_trans; [exact Hcl|]. apply N.pow_le_mono_r; [discriminate|clear - Hk; lia]. }
      assert (Hrest2 : rest_bytes s2 = skipn k B) by (unfold s2, rest_bytes; cbn [set_iacc i_pos i_buf i_src]; exact Hr1).
      assert (Hnbk : N.of_nat k <= nb s) by (unfold nb; fold B; clear - Hkl; lia).
      assert (Hnb2 : nb s2 = nb s - N.of_nat k).
      { unfold nb. rewrite Hrest2, skipn_length. fold B. clear. lia. }
      assert (Htot2 : total s2 = 8 * nb s).
      { unfold total. rewrite Hnb2. cbn [s2 set_iacc i_avail]. clear - Hnbk. lia. }
      assert (Huv2 : uval s2 = be_val B).
      { unfold uval. rewrite Hnb2, Hrest2. cbn [s2 set_iacc i_avail i_cur]. rewrite N.mod_small by exact Hcl.
        rewrite <- (firstn_skipn k B) at 2. rewrite be_val_app, skipn_length. fold c. f_equal. f_equal. f_equal. unfold nb. fold B. clear - Hkl. lia. }
      assert (Htt : count - i_avail s <= 8 * nb s) by (unfold total in Ht; clear - Ht Ec; lia).
      destruct (IH s2 (count - i_avail s) HA2 ltac:(clear - Hc Ec; lia)) as (s' & E & HA' & Ht' & Hu').
      { cbn [s2 set_iacc i_avail]. clear - Hfu Hk Ec. lia. }
      { rewrite Htot2. exact Htt. }
      fold s2. rewrite E.
      pose proof (be_val_lt _ HBok) as HBv. fold (nb s) in HBv.
      assert (Hres : i_cur s mod 2 ^ i_avail s < 2 ^ i_avail s) by (apply N.mod_lt; apply N.pow_nonzero; discriminate).
      destruct (join_bits (i_cur s mod 2 ^ i_avail s) (i_avail s) (count - i_avail s) (8 * nb s) (be_val B) Hres ltac:(clear - Hc Ec; lia) Htt HBv) as [J1 J2].
      exists s'. rewrite Htot2, Huv2 in *.
      assert (Ed : total s - count = 8 * nb s - (count - i_avail s)) by (unfold total; clear - Ec; lia).
      split; [|split; [exact HA'|split]].
      * f_equal. f_equal. rewrite J1. unfold uval. fold B. rewrite Ed. reflexivity.
      * rewrite Ht', Ed. reflexivity.
      * rewrite Hu'. unfold uval. fold B. rewrite Ed, J2. reflexivity.
Qed.

(* after a successful pull into an empty accumulator nothing is lost *)
Lemma pull_fill s : AInv s -> i_avail s = 0 -> rest_bytes s <> [] ->
  exists s1 c a, pull s = (s1, Val (c, a)) /\ AInv (set_iacc s1 a c) /\ 8 <= a /\
    total (set_iacc s1 a c) = total s /\ uval (set_iacc s1 a c) = uval s.
Proof.
  intros [HI Hav Hcur] Ha0 Hne.
  destruct (pull_spec s HI) as [(Hr & _)|(Hr & s1 & k & Hk & Hkl & Ep & HI1 & Hr1 & Ha1 & Hc1)]; [contradiction|].
  set (B := rest_bytes s) in *. set (c := be_val (firstn k B)).
  exists s1, c, (8 * N.of_nat k). split; [exact Ep|].
  assert (HBok : bytes_ok B) by (apply rest_ok; exact HI).
  assert (Hcl : c < 2 ^ (8 * N.of_nat k)).
  { pose proof (be_val_lt _ (bytes_ok_firstn k _ HBok)) as X. rewrite firstn_length in X.
    replace (Nat.min k (length B)) with k in X by (clear - Hkl; lia). exact X. }
  set (s2 := set_iacc s1 (8 * N.of_nat k) c).
  assert (Hrest2 : rest_bytes s2 = skipn k B) by (unfold s2, rest_bytes; cbn [set_iacc i_pos i_buf i_src]; exact Hr1).
  assert (Hnb2 : nb s2 = nb s - N.of_nat k) by (unfold nb; rewrite Hrest2, skipn_length; fold B; clear; lia).
  assert (Hnbk : N.of_nat k <= nb s) by (unfold nb; fold B; clear - Hkl; lia).
  split.
  { constructor; [apply iinv_acc; exact HI1|cbn [s2 set_iacc i_avail]; clear - Hk; lia|].
    cbn [s2 set_iacc i_cur]. eapply N.lt_le_trans; [exact Hcl|]. apply N.pow_le_mono_r; [discriminate|clear - Hk; lia]. }
  split; [clear - Hk; lia|]. split.
  - unfold total. rewrite Hnb2, Ha0. cbn [s2 set_iacc i_avail]. clear - Hnbk. lia.
  - unfold uval. rewrite Hnb2, Hrest2, Ha0. cbn [s2 set_iacc i_avail i_cur]. rewrite N.mod_small by exact Hcl.
    change (2 ^ 0) with 1. rewrite N.mod_1_r, N.mul_0_l, N.add_0_l. fold B.
    rewrite <- (firstn_skipn k B) at 2. rewrite be_val_app, skipn_length. fold c. f_equal. f_equal. f_equal. unfold nb. fold B. clear - Hkl. lia.
Qed.

Lemma total_zero_rest s : total s = 0 -> rest_bytes s = [].
Proof. unfold total, nb. intros H. destruct (rest_bytes s); [reflexivity|cbn [length] in H; lia]. Qed.

(* ReadBit *)
Lemma read_bit_ok s : AInv s -> 1 <= total s ->
  exists s', read_bit s = (s', Val (uval s / 2 ^ (total s - 1))) /\ AInv s' /\
    total s' = total s - 1 /\ uval s' = uval s mod 2 ^ (total s - 1).
Proof.
  intros HA Ht. unfold read_bit.
  assert (Hone : shr64 mask64 63 = 1) by reflexivity.
  destruct (i_avail s =? 0) eqn:E0.
  - apply N.eqb_eq in E0.
    assert (Hne : rest_bytes s <> []).
    { intros Hn. unfold total, nb in Ht. rewrite Hn, E0 in Ht. cbn in Ht. lia. }
    destruct (pull_fill s HA E0 Hne) as (s1 & c & a & Ep & HA2 & Ha8 & Ht2 & Hu2).
    rewrite Ep. set (s2 := set_iacc s1 a c) in *.
    destruct (read_bits_direct s2 1 HA2 ltac:(lia) ltac:(cbn [s2 set_iacc i_avail]; clear - Ha8; lia)) as (D1 & D2 & D3 & D4).
    change (64 - 1) with 63 in D1. rewrite Hone in D1.
    eexists. split; [rewrite D1, Hu2, Ht2; reflexivity|]. rewrite <- Hu2, <- Ht2. auto.
  - apply N.eqb_neq in E0.
    destruct (read_bits_direct s 1 HA ltac:(lia) ltac:(clear - E0; lia)) as (D1 & D2 & D3 & D4).
    change (64 - 1) with 63 in D1. rewrite Hone in D1.
    eexists. split; [rewrite D1; reflexivity|]. auto.
Qed.

Lemma read_bit_eos s : AInv s -> total s = 0 -> exists s' e, read_bit s = (s', Pan e).
Proof.
  intros [HI _ _] Ht. unfold read_bit.
  assert (Ha : i_avail s = 0) by (unfold total in Ht; lia). rewrite Ha. cbn [N.eqb].
  destruct (pull_spec s HI) as [(Hr & s' & e & E)|(Hr & _)]; [|exfalso; apply Hr; apply total_zero_rest; exact Ht].
  rewrite E. eexists. eexists. reflexivity.
Qed.

(* asking for more bits than are left raises *)
Lemma read_bits_eos : forall fuel s count, AInv s -> 1 <= count <= 64 -> total s < count ->
  exists s' e, read_bits_f fuel s count = (s', Pan e).
Proof.
  induction fuel as [|f IH]; intros s count HA Hc Ht.
  - cbn [read_bits_f]. replace ((count =? 0) || (64 <? count)) with false by (symmetry; apply orb_false_iff; split; [apply N.eqb_neq|apply N.ltb_ge]; clear - Hc; lia).
    replace (count <=? i_avail s) with false by (symmetry; apply N.leb_gt; unfold total in Ht; clear - Ht; lia).
    eexists. eexists. reflexivity.
  - cbn [read_bits_f]. replace ((count =? 0) || (64 <? count)) with false by (symmetry; apply orb_false_iff; split; [apply N.eqb_neq|apply N.ltb_ge]; clear - Hc; lia).
    assert (Hca : i_avail s < count) by (unfold total in Ht; clear - Ht; lia).
    replace (count <=? i_avail s) with false by (symmetry; apply N.leb_gt; exact Hca).
    destruct HA as [HI Hav Hcur].
    destruct (pull_spec s HI) as [(Hr & s' & e & E)|(Hr & s1 & k & Hk & Hkl & Ep & HI1 & Hr1 & Ha1 & Hc1)].
    + rewrite E. eexists. eexists. reflexivity.
    + rewrite Ep. set (B := rest_bytes s) in *. set (c := be_val (firstn k B)).
      set (s2 := set_iacc s1 (8 * N.of_nat k) c).
      assert (HBok : bytes_ok B) by (apply rest_ok; exact HI).
      assert (Hcl : c < 2 ^ (8 * N.of_nat k)).
      { pose proof (be_val_lt _ (bytes_ok_firstn k _ HBok)) as X. rewrite firstn_length in X.
        replace (Nat.min k (length B)) with k in X by (clear - Hkl; lia). exact X. }
      assert (HA2 : AInv s2).
      { constructor; [apply iinv_acc; exact HI1|cbn [s2 set_iacc i_avail]; clear - Hk; lia|].
        cbn [s2 set_iacc i_cur]. eapply N.lt_le_trans; [exact Hcl|]. apply N.pow_le_mono_r; [discriminate|clear - Hk; lia]. }
      assert (Hrest2 : rest_bytes s2 = skipn k B) by (unfold s2, rest_bytes; cbn [set_iacc i_pos i_buf i_src]; exact Hr1).
      assert (Hnbk : N.of_nat k <= nb s) by (unfold nb; fold B; clear - Hkl; lia).
      assert (Htot2 : total s2 = 8 * nb s).
      { unfold total, nb. rewrite Hrest2, skipn_length. fold B. cbn [s2 set_iacc i_avail]. unfold nb in Hnbk. fold B in Hnbk. clear - Hnbk. lia. }
      destruct (IH s2 (count - i_avail s) HA2 ltac:(clear - Hc Hca; lia)) as (s' & e & E).
      { rewrite Htot2. unfold total in Ht. clear - Ht. lia. }
      fold s2. rewrite E. eexists. eexists. reflexivity.
Qed.

(* ---------- programs of reads ---------- *)
Inductive rop := RBit | RBits (c : N).
Definition rop_ok (o : rop) : Prop := match o with RBit => True | RBits c => 1 <= c <= 64 end.
Definition rop_size (o : rop) : N := match o with RBit => 1 | RBits c => c end.

Definition run_rop (s : ibs) (o : rop) : ibs * outcome N :=
  match o with RBit => read_bit s | RBits c => read_bits s c end.

(* values returned until the first panic; [None] marks the panic *)
Fixpoint run_rops (s : ibs) (ops : list rop) : list (option N) :=
  match ops with
  | [] => []
  | o :: t => match run_rop s o with
              | (s1, Val v) => Some v :: run_rops s1 t
              | (_, Pan _) => [None]
              end
  end.

(* the trivially correct reader over a bit vector (value U of T bits, big-endian) *)
Fixpoint spec_rops (U T : N) (ops : list rop) : list (option N) :=
  match ops with
  | [] => []
  | o :: t => let c := rop_size o in
              if T <? c then [None]
              else Some (U / 2 ^ (T - c)) :: spec_rops (U mod 2 ^ (T - c)) (T - c) t
  end.

Theorem reader_program : forall ops s, AInv s -> Forall rop_ok ops ->
  run_rops s ops = spec_rops (uval s) (total s) ops.
Proof.
  induction ops as [|o t IH]; intros s HA Hok; [reflexivity|].
  inversion Hok as [|? ? Ho Ht]; subst. cbn [run_rops spec_rops].
  destruct o as [|c]; cbn [run_rop rop_size rop_ok] in *.
  - destruct (total s <? 1) eqn:E.
    + apply N.ltb_lt in E. destruct (read_bit_eos s HA ltac:(clear - E; lia)) as (s' & e & Er). rewrite Er. reflexivity.
    + apply N.ltb_ge in E. destruct (read_bit_ok s HA E) as (s' & Er & HA' & T' & U'). rewrite Er, (IH s' HA' Ht), T', U'. reflexivity.
  - destruct (total s <? c) eqn:E.
    + apply N.ltb_lt in E. destruct (read_bits_eos 66 s c HA Ho E) as (s' & e & Er). unfold read_bits. rewrite Er. reflexivity.
    + apply N.ltb_ge in E. destruct (read_bits_ok 66 s c HA Ho ltac:(clear - Ho; lia) E) as (s' & Er & HA' & T' & U').
      unfold read_bits. rewrite Er, (IH s' HA' Ht), T', U'. reflexivity.
Qed.

(* a fresh stream over any source: the whole byte string, whatever the schedule and the buffer size *)
Lemma new_ibs_inv bufsize data sched : 0 < bufsize -> bytes_ok data ->
  let s := new_ibs bufsize (mkSrc data sched None 0) in
  AInv s /\ uval s = be_val data /\ total s = 8 * N.of_nat (length data).
Proof.
  intros Hb Hd. split; [|split].
  - constructor; [constructor|cbn; lia|cbn; lia]; cbn; auto; try lia; try (split; [reflexivity|exact Hd]); constructor.
  - unfold uval, nb, rest_bytes. cbn. lia.
  - unfold total, nb, rest_bytes. cbn. lia.
Qed.

Theorem reader_schedule_independent bufsize1 bufsize2 sched1 sched2 data ops :
  0 < bufsize1 -> 0 < bufsize2 -> bytes_ok data -> Forall rop_ok ops ->
  run_rops (new_ibs bufsize1 (mkSrc data sched1 None 0)) ops = run_rops (new_ibs bufsize2 (mkSrc data sched2 None 0)) ops /\
  run_rops (new_ibs bufsize1 (mkSrc data sched1 None 0)) ops = spec_rops (be_val data) (8 * N.of_nat (length data)) ops.
Proof.
  intros H1 H2 Hd Hok.
  destruct (new_ibs_inv bufsize1 data sched1 H1 Hd) as (A1 & U1 & T1).
  destruct (new_ibs_inv bufsize2 data sched2 H2 Hd) as (A2 & U2 & T2).
  rewrite (reader_program ops _ A1 Hok), (reader_program ops _ A2 Hok), U1, U2, T1, T2. auto.
Qed.
