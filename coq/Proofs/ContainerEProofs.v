(* One statement for both modelled pipelines: a stream written by write_stream_e (Model/ContainerG.v) with entropy NONE or
   RANGE is parsed back by parse_stream_e to its configuration and its blocks.  For entropy NONE the generic functions
   are the functions of Model/Container.v, so this is container_roundtrip; for RANGE it is container_range_roundtrip_128. *)
From Coq Require Import List NArith ZArith Lia Bool ZifyN ZifyNat ZifyBool.
From KV Require Import Model.OutBS Model.InBS Model.Header Model.Container Model.ContainerG
  Proofs.BinCoderProofs Proofs.HeaderProofs Proofs.ContainerProofs Proofs.ContainerGProofs Proofs.EndToEndRangeFits.
Import ListNotations.
Open Scope N_scope.
Ltac Zify.zify_post_hook ::= idtac.

Lemma frame_ops_g_none hash ck b : frame_ops_g (inner_image hash ck) b = frame_ops hash ck b.
Proof. reflexivity. Qed.

Lemma write_stream_e_none hash c blocks : h_etype c <> RANGE_TYPE -> write_stream_e hash c blocks = write_stream hash c blocks.
Proof.
  intros Hn. unfold write_stream_e, img_of. destruct (h_etype c =? RANGE_TYPE) eqn:E; [apply N.eqb_eq in E; contradiction|].
  unfold write_stream_g, write_stream, stream_ops_g, stream_ops.
  replace (flat_map (frame_ops_g (inner_image hash (h_ck c))) blocks) with (flat_map (frame_ops hash (h_ck c)) blocks); [reflexivity|].
  apply flat_map_ext. intros b. symmetry. apply frame_ops_g_none.
Qed.

Lemma parse_frames_g_none hash ck bsize : forall fuel s, parse_frames_g (parse_inner hash ck) fuel bsize s = parse_frames hash fuel ck bsize s.
Proof.
  induction fuel as [|f IH]; intros s; [reflexivity|]. cbn [parse_frames_g parse_frames].
  destruct (read_bits s 5) as [s1 [l3|e]]; [|reflexivity]. destruct (read_bits s1 (l3 + 3)) as [s2 [w|e]]; [|reflexivity].
  destruct (w =? 0); [reflexivity|]. destruct (17179869184 <? w); [reflexivity|].
  destruct (read_img _ s2 w []) as [s3 [im|]]; [|reflexivity]. rewrite IH. reflexivity.
Qed.

Lemma parse_stream_e_none hash evalid tvalid nframes rbuf sched bytes c frames :
  parse_stream hash evalid tvalid nframes rbuf sched bytes = Some (c, frames) -> h_etype c <> RANGE_TYPE ->
  parse_stream_e hash evalid tvalid nframes rbuf sched bytes = Some (c, frames).
Proof.
  unfold parse_stream, parse_stream_e. destruct (read_header evalid tvalid _) as [s [c'|e]]; [|discriminate].
  intros E Hn. injection E as -> <-. unfold pin_of. destruct (h_etype c =? RANGE_TYPE) eqn:E2; [apply N.eqb_eq in E2; contradiction|].
  rewrite parse_frames_g_none. reflexivity.
Qed.

Theorem container_e_roundtrip (hash : list N -> N) (evalid tvalid : N -> bool) c blocks nframes rbuf sched :
  cfg_ok evalid tvalid c -> (h_etype c = RANGE_TYPE -> h_bsize c <= 134217728) ->
  (h_ck c = 1 -> forall l, hash l < 2 ^ 32) -> (h_ck c = 2 -> forall l, hash l < 2 ^ 64) ->
  Forall (blk_ok (h_bsize c)) blocks -> (length blocks < nframes)%nat -> 0 < rbuf -> rbuf mod 8 = 0 ->
  parse_stream_e hash evalid tvalid nframes rbuf sched (write_stream_e hash c blocks) = Some (norm_cfg c, map PData blocks ++ [PEnd]).
Proof.
  intros Hc Hbs H32 H64 Hbl Hfu Hr Hr8. destruct (N.eq_dec (h_etype c) RANGE_TYPE) as [Het|Het].
  - exact (container_range_roundtrip_128 hash evalid tvalid c blocks nframes rbuf sched Hc Het (Hbs Het) H32 H64 Hbl Hfu Hr Hr8).
  - rewrite (write_stream_e_none hash c blocks Het). apply parse_stream_e_none; [|exact Het].
    exact (container_roundtrip hash evalid tvalid c Hc H32 H64 blocks nframes rbuf sched Hbl Hfu Hr Hr8).
Qed.
