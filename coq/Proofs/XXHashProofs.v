(* The block checksums fit their fields: XXHash32 < 2^32, XXHash64 < 2^64 (what the container theorem
   needs to know about the hash: the value written on 32 / 64 bits is the value compared on the way back). *)
From Coq Require Import List NArith Lia ZifyN.
From KV Require Import Model.XXHash Proofs.BinCoderProofs.
Import ListNotations.
Open Scope N_scope.
Ltac Zify.zify_post_hook ::= idtac.

Lemma lxor_lt a b k : a < 2 ^ k -> b < 2 ^ k -> N.lxor a b < 2 ^ k.
Proof. intros Ha Hb. apply lxor_lt_pow2. rewrite !N.div_small by assumption. reflexivity. Qed.

Lemma shiftr_le a n : N.shiftr a n <= a.
Proof. rewrite N.shiftr_div_pow2. apply N.div_le_upper_bound; [apply N.pow_nonzero; discriminate|]. pose proof (N.pow_nonzero 2 n ltac:(discriminate)). nia. Qed.

Lemma avalanche32_lt h : avalanche32 h < 2 ^ 32.
Proof.
  unfold avalanche32. cbv zeta. set (h2 := (_ * P32_3) mod M32).
  assert (H : h2 < 2 ^ 32) by (apply N.mod_lt; discriminate).
  apply lxor_lt; [exact H|]. eapply N.le_lt_trans; [apply shiftr_le|exact H].
Qed.

Lemma avalanche64_lt h : avalanche64 h < 2 ^ 64.
Proof.
  unfold avalanche64. cbv zeta. set (h2 := (_ * P64_3) mod M64).
  assert (H : h2 < 2 ^ 64) by (apply N.mod_lt; discriminate).
  apply lxor_lt; [exact H|]. eapply N.le_lt_trans; [apply shiftr_le|exact H].
Qed.

Theorem xxh32_lt seed data : xxh32 seed data < 2 ^ 32.
Proof.
  unfold xxh32. cbv zeta. destruct (16 <=? N.of_nat (length data)).
  - destruct (stripes32 data _) as [r [[[v1 v2] v3] v4]]. destruct (words32 r _) as [r2 h1]. apply avalanche32_lt.
  - destruct (words32 data _) as [r2 h1]. apply avalanche32_lt.
Qed.

Theorem xxh64_lt seed data : xxh64 seed data < 2 ^ 64.
Proof.
  unfold xxh64. cbv zeta. destruct (32 <=? N.of_nat (length data)).
  - destruct (stripes64 data _) as [r [[[v1 v2] v3] v4]]. destruct (words64 r _) as [r2 h1]. destruct (half64 r2 h1) as [r3 h2]. apply avalanche64_lt.
  - destruct (words64 data _) as [r2 h1]. destruct (half64 r2 h1) as [r3 h2]. apply avalanche64_lt.
Qed.

Lemma block_hash_32 ck : ck = 1 -> forall l, block_hash ck l < 2 ^ 32.
Proof. intros -> l. unfold block_hash. cbn [N.eqb Pos.eqb]. apply xxh32_lt. Qed.
Lemma block_hash_64 ck : ck = 2 -> forall l, block_hash ck l < 2 ^ 64.
Proof. intros -> l. unfold block_hash. cbn [N.eqb Pos.eqb]. apply xxh64_lt. Qed.
