(* Reader cursor / batch logic on ARBITRARY frame lists: block ranges (from/to), blocks whose
   decoding fails, physically truncated streams (C02, C05, C09, C11).

   Part 1  [Fut]: what the successive batches of decoding tasks deliver, batch by batch;
           [reader_follows_batches]: whatever the Read lengths, the caller receives exactly those
           bytes, in order, then end-of-stream or - if a batch failed - the error, in every later call too.
   Part 2  closed forms of [Fut]: a stream whose frames up to the end marker decode ([clean]) delivers
           exactly the in-range blocks, then end-of-stream; a stream that meets a failing in-range block
           or its physical end before the end marker delivers a prefix of the in-range blocks that
           precede it, then the error - never end-of-stream. *)
From Coq Require Import List NArith ZArith Bool Lia ZifyN ZifyNat.
From KV Require Import Model.Writer Model.Reader Proofs.WriterProofs Proofs.ReaderProofs.
Import ListNotations.
Open Scope N_scope.

Section G.
Variables (B jobs hint from to : N).
Hypothesis HB : 0 < B.
Hypothesis HJ : 0 < jobs.
Notation b := (N.to_nat B).
Notation n := (N.to_nat (nb_tasks jobs hint)).
Notation shape := (shape B).
Notation batch := (batch from to).
Notation skipped := (skipped from to).

(* ---------- the result scan, without accumulators ---------- *)
Fixpoint sres (rs : list tres) : list (list N) * nat * bool :=
  match rs with
  | [] => ([], O, false)
  | TSkip :: t => let '(l, k, e) := sres t in (l, S k, e)
  | TErr :: _ => ([], O, true)
  | TNone :: t => let '(l, k, e) := sres t in ([] :: l, k, e)
  | TData bs :: t =>
      if B <? N.of_nat (length bs) then ([], O, true)
      else let '(l, k, e) := sres t in (bs :: l, k, e)
  end.

Lemma scan_sres : forall rs bufs d k,
  let '(l, k2, e2) := sres rs in
  let '(bufs', d', k', e) := scan B rs bufs d k in
  e = e2 /\ (e2 = false -> bufs' = bufs ++ l /\ d' = d + N.of_nat (length (concat l)) /\ k' = (k + k2)%nat).
Proof.
  induction rs as [|r t IH]; intros bufs d k.
  - cbn [sres scan]. split; [reflexivity|]. intros _. rewrite app_nil_r. cbn. split; [reflexivity|]. split; [lia|lia].
  - destruct r as [bs| | |]; cbn [sres scan].
    + destruct (B <? N.of_nat (length bs)); [split; [reflexivity|discriminate]|].
      specialize (IH (bufs ++ [bs]) (d + N.of_nat (length bs)) k).
      destruct (sres t) as [[l k2] e2]. destruct (scan B t (bufs ++ [bs]) (d + N.of_nat (length bs)) k) as [[[bufs' d'] k'] e].
      destruct IH as [He IH]. split; [exact He|]. intros E. destruct (IH E) as (X & Y & Z).
      rewrite X, Y, Z, <- app_assoc. cbn [app concat]. rewrite app_length. split; [reflexivity|]. split; lia.
    + specialize (IH bufs d (S k)).
      destruct (sres t) as [[l k2] e2]. destruct (scan B t bufs d (S k)) as [[[bufs' d'] k'] e].
      destruct IH as [He IH]. split; [exact He|]. intros E. destruct (IH E) as (X & Y & Z). split; [exact X|]. split; [exact Y|lia].
    + split; [reflexivity|discriminate].
    + specialize (IH (bufs ++ [[]]) d k).
      destruct (sres t) as [[l k2] e2]. destruct (scan B t (bufs ++ [[]]) d k) as [[[bufs' d'] k'] e].
      destruct IH as [He IH]. split; [exact He|]. intros E. destruct (IH E) as (X & Y & Z).
      rewrite X, <- app_assoc. cbn [app concat]. split; [reflexivity|]. split; [exact Y|exact Z].
Qed.

Lemma sres_skip_in : forall rs l k e, sres rs = (l, k, e) -> (0 < k)%nat -> In TSkip rs.
Proof.
  induction rs as [|r t IH]; intros l k e H Hk; cbn [sres] in H.
  - inversion H; lia.
  - destruct r as [bs| | |].
    + destruct (B <? N.of_nat (length bs)); [inversion H; lia|].
      destruct (sres t) as [[l2 k2] e2]. inversion H; subst. right. eapply IH; eauto.
    + left; reflexivity.
    + inversion H; lia.
    + destruct (sres t) as [[l2 k2] e2]. inversion H; subst. right. eapply IH; eauto.
Qed.

Lemma sres_data_in : forall rs l k e, sres rs = (l, k, e) -> concat l <> [] -> exists bs, In (TData bs) rs.
Proof.
  induction rs as [|r t IH]; intros l k e H Hc; cbn [sres] in H.
  - inversion H; subst. cbn in Hc. congruence.
  - destruct r as [bs| | |].
    + exists bs. left; reflexivity.
    + destruct (sres t) as [[l2 k2] e2]. inversion H; subst. destruct (IH _ _ _ eq_refl Hc) as [bs Hb]. exists bs. right; exact Hb.
    + inversion H; subst. cbn in Hc. congruence.
    + destruct (sres t) as [[l2 k2] e2]. inversion H; subst. cbn [concat app] in Hc.
      destruct (IH _ _ _ eq_refl Hc) as [bs Hb]. exists bs. right; exact Hb.
Qed.

(* ---------- one batch: length facts ---------- *)
Lemma batch_len : forall m fr id c rs fr' id' c', batch m fr id c = (rs, fr', id', c') ->
  (length fr' <= length fr)%nat /\
  ((In TSkip rs \/ exists bs, In (TData bs) rs) -> (length fr' < length fr)%nat).
Proof.
  induction m as [|m IH]; intros fr id c rs fr' id' c' H; cbn [batch] in H.
  - inversion H; subst. split; [lia|]. intros [[]|[bs []]].
  - destruct c.
    + destruct (batch m fr (id + 1) true) as [[[rs1 fr1] id1] c1] eqn:E. inversion H; subst.
      destruct (IH _ _ _ _ _ _ _ E) as [L1 L2]. split; [exact L1|].
      intros [[X|X]|[bs [X|X]]]; try discriminate; apply L2; [left; exact X|right; exists bs; exact X].
    + destruct fr as [|f rest].
      * destruct (batch m [] (id + 1) true) as [[[rs1 fr1] id1] c1] eqn:E. inversion H; subst.
        destruct (IH _ _ _ _ _ _ _ E) as [L1 L2]. split; [exact L1|].
        intros [[X|X]|[bs [X|X]]]; try discriminate; apply L2; [left; exact X|right; exists bs; exact X].
      * destruct f as [bs| |].
        -- destruct (batch m rest (id + 1) false) as [[[rs1 fr1] id1] c1] eqn:E. inversion H; subst.
           destruct (IH _ _ _ _ _ _ _ E) as [L1 L2]. cbn [length]. split; lia.
        -- destruct (skipped (id + 1)).
           ++ destruct (batch m rest (id + 1) false) as [[[rs1 fr1] id1] c1] eqn:E. inversion H; subst.
              destruct (IH _ _ _ _ _ _ _ E) as [L1 L2]. cbn [length]. split; lia.
           ++ destruct (batch m rest (id + 1) true) as [[[rs1 fr1] id1] c1] eqn:E. inversion H; subst.
              destruct (IH _ _ _ _ _ _ _ E) as [L1 L2]. cbn [length]. split; lia.
        -- destruct (batch m rest (id + 1) true) as [[[rs1 fr1] id1] c1] eqn:E. inversion H; subst.
           destruct (IH _ _ _ _ _ _ _ E) as [L1 L2]. cbn [length]. split; lia.
Qed.

(* ---------- what the successive batches deliver ---------- *)
(* Fut frames id cancel rest e : from this state of the shared stream on, the batches deliver the
   bytes [rest] and then end-of-stream (e = false) or a block error (e = true).  A batch whose
   scan meets an error delivers nothing (the bytes of its earlier tasks are dropped with it). *)
Inductive Fut : list frame -> N -> bool -> list N -> bool -> Prop :=
| Fut_cancel : forall fr id, Fut fr id true [] false
| Fut_err : forall fr id rs fr' id' c' l k,
    batch n fr id false = (rs, fr', id', c') -> sres rs = (l, k, true) -> Fut fr id false [] true
| Fut_skip : forall fr id rs fr' id' l rest e,
    batch n fr id false = (rs, fr', id', false) -> sres rs = (l, n, false) ->
    Fut fr' id' false rest e -> Fut fr id false rest e
| Fut_eof : forall fr id rs fr' id' c' l k,
    batch n fr id false = (rs, fr', id', c') -> sres rs = (l, k, false) -> k <> n ->
    concat l = [] -> c' = true -> Fut fr id false [] false
| Fut_data : forall fr id rs fr' id' c' l k rest e,
    batch n fr id false = (rs, fr', id', c') -> sres rs = (l, k, false) -> k <> n ->
    concat l <> [] -> shape l -> Fut fr' id' c' rest e -> Fut fr id false (concat l ++ rest) e.

Definition fut (s : rst) (rest : list N) (e : bool) : Prop :=
  Fut (r_frames s) (r_blockid s) (r_cancel s) rest e.

Lemma shape_concat_nil (l : list (list N)) : concat l = [] -> shape l.
Proof.
  induction l as [|x t IH]; intros H; [exact I|]. cbn [concat] in H. apply app_eq_nil in H. destruct H as [-> Ht].
  cbn [ReaderProofs.shape]. right. split; [cbn; lia|exact Ht].
Qed.

(* processBlock when the buffers are exhausted *)
Lemma process_block_gen : forall fuel s rest e, (length (r_frames s) < fuel)%nat -> fut s rest e ->
  exists s' decoded err, process_block B jobs hint from to fuel s = (s', decoded, err) /\
    r_closed s' = r_closed s /\ r_err s' = r_err s /\
    ((err = true /\ rest = [] /\ e = true) \/
     (err = false /\ decoded = 0 /\ rest = [] /\ e = false /\ r_cancel s' = true /\
      ((s' = s /\ r_cancel s = true) \/ (r_consumed s' = 0 /\ concat (r_bufs s') = [] /\ shape (r_bufs s')))) \/
     (err = false /\ 0 < decoded /\ r_consumed s' = 0 /\ shape (r_bufs s') /\ N.to_nat decoded = length (concat (r_bufs s')) /\
      r_cancel s = false /\ (length (r_frames s') < length (r_frames s))%nat /\
      exists rest', rest = concat (r_bufs s') ++ rest' /\ fut s' rest' e)).
Proof.
  induction fuel as [|f IH]; intros s rest e Hf HF; [lia|].
  cbn [process_block]. unfold fut in HF.
  inversion HF as [fr id Ef Ei Ec Er Ee
                  |fr id rs fr' id' c' l k Hb Hs Ef Ei Ec Er Ee
                  |fr id rs fr' id' l rest0 e0 Hb Hs HF' Ef Ei Ec Er Ee
                  |fr id rs fr' id' c' l k Hb Hs Hk Hc Hc' Ef Ei Ec Er Ee
                  |fr id rs fr' id' c' l k rest0 e0 Hb Hs Hk Hc Hsh HF' Ef Ei Ec Er Ee]; subst.
  - try rewrite <- Ec. exists s, 0, false. split; [reflexivity|]. split; [reflexivity|]. split; [reflexivity|].
    right. left. repeat split; auto.
  - try rewrite <- Ec. fold (nb_tasks jobs hint). rewrite Hb.
    pose proof (scan_sres rs [] 0 O) as Hsc. rewrite Hs in Hsc.
    destruct (scan B rs [] 0 O) as [[[bufs d] k'] err]. destruct Hsc as [He _]. subst err.
    eexists. eexists. eexists. split; [reflexivity|]. cbn [r_closed r_err]. split; [reflexivity|]. split; [reflexivity|].
    left. auto.
  - try rewrite <- Ec. fold (nb_tasks jobs hint). rewrite Hb.
    pose proof (scan_sres rs [] 0 O) as Hsc. rewrite Hs in Hsc.
    destruct (scan B rs [] 0 O) as [[[bufs d] k'] err]. destruct Hsc as [He Hsc]. subst err.
    destruct (Hsc eq_refl) as (Xb & Xd & Xk). cbn [app Nat.add] in Xb, Xk. subst k'. rewrite Nat.eqb_refl.
    assert (Hn : (0 < n)%nat) by (pose proof (nb_tasks_pos B jobs hint HB HJ); lia).
    destruct (batch_len _ _ _ _ _ _ _ _ Hb) as [_ Hlt].
    specialize (Hlt (or_introl (sres_skip_in _ _ _ _ Hs Hn))).
    set (s1 := mkR bufs (r_avail s) (r_consumed s) fr' id' false (r_err s) (r_closed s)).
    destruct (IH s1 rest e) as (s' & decoded & err & E & C & Er & Hout).
    { unfold s1; cbn [r_frames]. lia. }
    { unfold fut, s1; cbn [r_frames r_blockid r_cancel]. exact HF'. }
    exists s', decoded, err. split; [exact E|]. split; [exact C|]. split; [exact Er|].
    destruct Hout as [H1|[H2|H3]].
    + left; exact H1.
    + right; left. destruct H2 as (A1 & A2 & A3 & A4 & A5 & A6). repeat split; auto.
      destruct A6 as [[_ A6]|A6]; [discriminate A6|right; exact A6].
    + right; right. destruct H3 as (A1 & A2 & A3 & A4 & A5 & A6 & A7 & A8). repeat split; auto.
      unfold s1 in A7; cbn [r_frames] in A7. lia.
  - try rewrite <- Ec. fold (nb_tasks jobs hint). rewrite Hb.
    pose proof (scan_sres rs [] 0 O) as Hsc. rewrite Hs in Hsc.
    destruct (scan B rs [] 0 O) as [[[bufs d] k'] err]. destruct Hsc as [He Hsc]. subst err.
    destruct (Hsc eq_refl) as (Xb & Xd & Xk). cbn [app Nat.add] in Xb, Xk. subst k' bufs.
    replace (Nat.eqb k n) with false by (symmetry; apply Nat.eqb_neq; exact Hk).
    eexists. eexists. eexists. split; [reflexivity|]. cbn [r_closed r_err r_cancel r_consumed r_bufs].
    split; [reflexivity|]. split; [reflexivity|]. right; left.
    rewrite Hc in Xd. cbn in Xd. repeat split; auto. right. repeat split; auto. apply shape_concat_nil; exact Hc.
  - try rewrite <- Ec. fold (nb_tasks jobs hint). rewrite Hb.
    pose proof (scan_sres rs [] 0 O) as Hsc. rewrite Hs in Hsc.
    destruct (scan B rs [] 0 O) as [[[bufs d] k'] err]. destruct Hsc as [He Hsc]. subst err.
    destruct (Hsc eq_refl) as (Xb & Xd & Xk). cbn [app Nat.add] in Xb, Xk. subst k' bufs.
    replace (Nat.eqb k n) with false by (symmetry; apply Nat.eqb_neq; exact Hk).
    destruct (batch_len _ _ _ _ _ _ _ _ Hb) as [_ Hlt].
    specialize (Hlt (or_intror (sres_data_in _ _ _ _ Hs Hc))).
    eexists. eexists. eexists. split; [reflexivity|]. cbn [r_closed r_err r_cancel r_consumed r_bufs r_frames].
    split; [reflexivity|]. split; [reflexivity|]. right; right.
    assert (Hpos : (0 < length (concat l))%nat) by (destruct (concat l); [congruence|cbn; lia]).
    split; [reflexivity|]. split; [lia|]. split; [reflexivity|]. split; [exact Hsh|]. split; [lia|].
    split; [reflexivity|]. split; [exact Hlt|].
    exists rest0. split; [reflexivity|]. exact HF'.
Qed.

(* ---------- the reader invariant ---------- *)
Record GInv (s : rst) (rem : list N) (e : bool) : Prop := {
  gi_closed : r_closed s = false;
  gi_err : r_err s = false;
  gi_shape : shape (r_bufs s);
  gi_cur : (N.to_nat (r_consumed s) + N.to_nat (r_avail s) = length (concat (r_bufs s)))%nat;
  gi_rem : exists rest, rem = unread s ++ rest /\ fut s rest e
}.

(* this Read runs into the failed batch: fewer bytes are left than it wants *)
Definition failing (e : bool) (rem : list N) (want : N) : bool := e && (length rem <? N.to_nat want)%nat.

Definition read_post (s' : rst) (res : rres) (want total : N) (rem : list N) (e : bool) : Prop :=
  if failing e rem want then res = RErr /\ r_err s' = true /\ r_closed s' = false
  else res = eof_result want total rem /\ GInv s' (skipn (N.to_nat want) rem) e.

Lemma read_loop_gen : forall fuel s want got total rem e,
  GInv s rem e -> (N.to_nat want + rmeasure s < fuel)%nat -> want <= total ->
  exists s' res, read_loop B jobs hint from to fuel s want got total = (s', got ++ firstn (N.to_nat want) rem, res) /\
                 read_post s' res want total rem e.
Proof.
  induction fuel as [|f IH]; intros s want got total rem e HI Hfu Hwt; [lia|].
  cbn [read_loop].
  destruct (want =? 0) eqn:Ew0.
  { apply N.eqb_eq in Ew0. subst want. cbn [N.to_nat firstn skipn]. rewrite app_nil_r.
    exists s, RNil. split; [reflexivity|]. unfold read_post, failing. cbn [N.to_nat].
    replace (length rem <? 0)%nat with false by (symmetry; apply Nat.ltb_ge; lia). rewrite andb_false_r.
    split; [|exact HI]. unfold eof_result. rewrite andb_false_r. reflexivity. }
  apply N.eqb_neq in Ew0.
  destruct HI as [Hcl He Hsh Hcur (rest & Hrem & Hfr)].
  pose proof (unread_length B jobs HB HJ s Hcur) as Hul.
  assert (Hremnil : rem = [] -> r_avail s = 0).
  { intros Hn. rewrite Hn in Hrem. symmetry in Hrem. apply app_eq_nil in Hrem. destruct Hrem as [Hu _].
    rewrite Hu in Hul. cbn in Hul. lia. }
  assert (Hremlen : length rem = (N.to_nat (r_avail s) + length rest)%nat) by (rewrite Hrem, app_length, Hul; reflexivity).
  set (bufOff := r_consumed s mod B). set (lenChunk := N.min want (N.min (r_avail s) (B - bufOff))).
  pose proof (N.mod_lt (r_consumed s) B ltac:(lia)) as Hml. fold bufOff in Hml.
  set (chunk := slice (nth (N.to_nat (r_consumed s / B)) (r_bufs s) []) bufOff lenChunk).
  assert (Hchunk : chunk = firstn (N.to_nat lenChunk) rem).
  { destruct (N.eq_dec lenChunk 0) as [E0|E0].
    - unfold chunk, slice. rewrite E0. reflexivity.
    - unfold chunk.
      replace (N.to_nat (r_consumed s / B)) with (N.to_nat (r_consumed s) / b)%nat by (rewrite N2Nat.inj_div; reflexivity).
      replace bufOff with (N.of_nat (N.to_nat (r_consumed s) mod b)) by (unfold bufOff; rewrite <- N2Nat.inj_mod, N2Nat.id; reflexivity).
      replace lenChunk with (N.of_nat (N.to_nat lenChunk)) at 1 by lia.
      rewrite (slice_spec B jobs HB HJ (r_bufs s) (N.to_nat (r_consumed s)) (N.to_nat lenChunk) Hsh).
      + rewrite Hrem. unfold unread. rewrite firstn_app, firstn_firstn.
        replace (Nat.min (N.to_nat lenChunk) (N.to_nat (r_avail s))) with (N.to_nat lenChunk) by (unfold lenChunk; lia).
        rewrite firstn_length, skipn_length.
        replace (N.to_nat lenChunk - Nat.min (N.to_nat (r_avail s)) (length (concat (r_bufs s)) - N.to_nat (r_consumed s)))%nat with O by (unfold lenChunk; lia).
        cbn [firstn]. rewrite app_nil_r. reflexivity.
      + unfold lenChunk. lia.
      + assert (Hm : (N.to_nat (r_consumed s) mod b = N.to_nat bufOff)%nat) by (unfold bufOff; rewrite N2Nat.inj_mod; reflexivity).
        rewrite Hm. unfold lenChunk. lia.
      + lia. }
  fold bufOff lenChunk chunk.
  set (s1 := if 0 <? lenChunk then mkR (r_bufs s) (r_avail s - lenChunk) (r_consumed s + lenChunk) (r_frames s) (r_blockid s) (r_cancel s) (r_err s) (r_closed s) else s).
  assert (Hlen : lenChunk <= r_avail s /\ lenChunk <= want) by (unfold lenChunk; lia).
  assert (Hs1 : r_bufs s1 = r_bufs s /\ r_avail s1 = r_avail s - lenChunk /\ r_consumed s1 = r_consumed s + lenChunk /\
                r_frames s1 = r_frames s /\ r_cancel s1 = r_cancel s /\ r_err s1 = false /\ r_closed s1 = false /\ r_blockid s1 = r_blockid s).
  { unfold s1. destruct (0 <? lenChunk) eqn:E; cbn; repeat split; auto. all: apply N.ltb_ge in E; lia. }
  destruct Hs1 as (Sb & Sa & Sc & Sf & Scn & Se & Scl & Sid).
  assert (HI1 : GInv s1 (skipn (N.to_nat lenChunk) rem) e).
  { constructor; auto.
    - rewrite Sb; exact Hsh.
    - rewrite Sb, Sa, Sc. lia.
    - exists rest. split.
      + rewrite Hrem. unfold unread. rewrite Sb, Sa, Sc. rewrite skipn_app, firstn_length, skipn_length.
        replace (N.to_nat lenChunk - Nat.min (N.to_nat (r_avail s)) (length (concat (r_bufs s)) - N.to_nat (r_consumed s)))%nat with O by lia.
        cbn [skipn]. f_equal. rewrite skipn_firstn_comm. f_equal; [lia|]. rewrite skipn_skipn'. f_equal. lia.
      + unfold fut. rewrite Scn, Sf, Sid. exact Hfr. }
  assert (Hm1 : rmeasure s1 = rmeasure s) by (unfold rmeasure; rewrite Scn, Sf; reflexivity).
  set (want1 := want - lenChunk).
  assert (Hsplit : got ++ firstn (N.to_nat want) rem = (got ++ chunk) ++ firstn (N.to_nat want1) (skipn (N.to_nat lenChunk) rem)).
  { rewrite Hchunk, <- app_assoc. f_equal. replace (N.to_nat want) with (N.to_nat lenChunk + N.to_nat want1)%nat by (unfold want1; lia).
    apply firstn_add. }
  assert (Hskip : skipn (N.to_nat want) rem = skipn (N.to_nat want1) (skipn (N.to_nat lenChunk) rem)).
  { rewrite skipn_skipn'. f_equal. unfold want1. lia. }
  assert (Hfail1 : failing e (skipn (N.to_nat lenChunk) rem) want1 = failing e rem want).
  { unfold failing. f_equal. rewrite skipn_length. unfold want1.
    destruct (length rem <? N.to_nat want)%nat eqn:E1; [apply Nat.ltb_lt in E1; apply Nat.ltb_lt; lia|apply Nat.ltb_ge in E1; apply Nat.ltb_ge; lia]. }
  (* result of the recursive call when at least one byte has been copied *)
  assert (Hrec : 0 < lenChunk -> forall s2, GInv s2 (skipn (N.to_nat lenChunk) rem) e -> (rmeasure s2 <= rmeasure s)%nat ->
     exists s' res, read_loop B jobs hint from to f s2 want1 (got ++ chunk) total =
       (s', got ++ firstn (N.to_nat want) rem, res) /\ read_post s' res want total rem e).
  { intros Hpos s2 HI2 Hms. destruct (IH s2 want1 (got ++ chunk) total _ e HI2 ltac:(unfold want1; lia) ltac:(unfold want1; lia)) as (s' & res & E & P).
    exists s', res. rewrite E, Hsplit. split; [reflexivity|]. unfold read_post in *. rewrite Hfail1 in P.
    destruct (failing e rem want); [exact P|]. rewrite Hskip. destruct P as [P1 P2]. split; [|exact P2]. rewrite P1.
    unfold eof_result. replace (want1 =? total) with false by (symmetry; apply N.eqb_neq; unfold want1; lia).
    cbn [andb]. destruct ((want =? total) && (0 <? want)) eqn:Ec; [|reflexivity]. cbn [andb].
    destruct rem as [|y q]; [|reflexivity].
    exfalso. pose proof (Hremnil eq_refl). lia. }
  destruct ((0 <? lenChunk) && ((0 <? r_avail s1) && (B <=? bufOff + lenChunk))) eqn:Eb1.
  { apply andb_true_iff in Eb1. destruct Eb1 as [Ep _]. apply N.ltb_lt in Ep.
    apply (Hrec Ep s1 HI1). lia. }
  destruct ((0 <? lenChunk) && (want1 =? 0)) eqn:Eb2.
  { apply andb_true_iff in Eb2. destruct Eb2 as [Ep Ew]. apply N.ltb_lt in Ep. apply N.eqb_eq in Ew.
    exists s1, RNil. rewrite Hsplit, Ew. cbn [N.to_nat firstn]. rewrite app_nil_r. split; [reflexivity|].
    unfold read_post. rewrite <- Hfail1, Ew. unfold failing at 1. cbn [N.to_nat].
    replace (length (skipn (N.to_nat lenChunk) rem) <? 0)%nat with false by (symmetry; apply Nat.ltb_ge; lia). rewrite andb_false_r.
    rewrite Hskip, Ew. cbn [N.to_nat skipn]. split; [|exact HI1]. unfold eof_result.
    destruct rem as [|y q]; [|rewrite andb_false_r; reflexivity].
    exfalso. pose proof (Hremnil eq_refl). lia. }
  destruct (r_avail s1 =? 0) eqn:Ea1.
  2:{ apply N.eqb_neq in Ea1. destruct (N.eq_dec lenChunk 0) as [E0|E0].
      - exfalso. unfold lenChunk in E0. lia.
      - apply (Hrec ltac:(lia) s1 HI1). lia. }
  apply N.eqb_eq in Ea1.
  (* the buffers are exhausted: decode the next batch *)
  assert (Hrest1 : skipn (N.to_nat lenChunk) rem = rest).
  { rewrite Hrem, skipn_app. rewrite skipn_all2 by lia. rewrite Hul. replace (N.to_nat lenChunk - N.to_nat (r_avail s))%nat with O by lia. reflexivity. }
  assert (Hw1pos : 0 < want1).
  { destruct (N.eq_dec lenChunk 0) as [E0|E0]; [unfold want1; lia|].
    apply andb_false_iff in Eb2. destruct Eb2 as [X|X]; [apply N.ltb_ge in X; lia|apply N.eqb_neq in X; lia]. }
  destruct (process_block_gen (S (length (r_frames s1))) s1 rest e ltac:(lia) ltac:(unfold fut; rewrite Scn, Sf, Sid; exact Hfr))
    as (s2 & decoded & err & E2 & C2 & Er2 & Hout).
  rewrite E2.
  destruct Hout as [(Herr & Hr0 & He1)|[(Herr & Hd0 & Hr0 & He0 & Hc2 & Hs2)|(Herr & Hdp & Hc0 & Hsh2 & Hdl & Hcs & Hms & rest' & Hr' & Hfr')]]; subst err.
  - (* the batch failed *)
    eexists. exists RErr. rewrite Hr0 in Hrest1.
    assert (Hfw : firstn (N.to_nat want1) (skipn (N.to_nat lenChunk) rem) = []) by (rewrite Hrest1; apply firstn_nil).
    rewrite Hsplit, Hfw, app_nil_r. split; [reflexivity|].
    unfold read_post. rewrite <- Hfail1. unfold failing. rewrite He1, Hrest1. cbn [length andb].
    replace (0 <? N.to_nat want1)%nat with true by (symmetry; apply Nat.ltb_lt; lia).
    cbn [r_err r_closed]. rewrite C2. auto.
  - (* end of stream *)
    rewrite Hd0. cbn [N.eqb]. rewrite Hr0 in Hrest1.
    set (s3 := mkR (r_bufs s2) 0 (r_consumed s2) (r_frames s2) (r_blockid s2) (r_cancel s2) (r_err s2) (r_closed s2)).
    exists s3. eexists.
    assert (Hrem1 : skipn (N.to_nat lenChunk) rem = []) by exact Hrest1.
    assert (Hfw : firstn (N.to_nat want1) (skipn (N.to_nat lenChunk) rem) = []) by (rewrite Hrem1; apply firstn_nil).
    rewrite Hsplit, Hfw, app_nil_r. split; [reflexivity|].
    unfold read_post. rewrite <- Hfail1. unfold failing. rewrite He0. cbn [andb].
    rewrite Hskip, Hrem1, skipn_nil. split.
    + unfold eof_result.
      destruct (N.eq_dec lenChunk 0) as [E0|E0].
      * unfold want1. rewrite E0, N.sub_0_r.
        assert (Hrn : rem = []) by (rewrite E0 in Hrem1; exact Hrem1). rewrite Hrn.
        replace (0 <? want) with true by (symmetry; apply N.ltb_lt; lia). rewrite !andb_true_r. reflexivity.
      * replace (want1 =? total) with false by (symmetry; apply N.eqb_neq; unfold want1; lia).
        destruct rem as [|y q].
        -- exfalso. pose proof (Hremnil eq_refl). lia.
        -- rewrite andb_false_r. reflexivity.
    + constructor; unfold s3; cbn [r_closed r_err r_bufs r_consumed r_avail r_cancel r_frames].
      * rewrite C2. exact Scl.
      * rewrite Er2. exact Se.
      * destruct Hs2 as [[-> _]|(_ & _ & Hs)]; [rewrite Sb; exact Hsh|exact Hs].
      * destruct Hs2 as [[-> _]|(Hc0 & Hcc & _)]; [rewrite Sb, Sc; lia|rewrite Hc0, Hcc; reflexivity].
      * exists []. unfold unread. cbn [r_avail N.to_nat firstn app]. split; [reflexivity|].
        unfold fut. cbn [r_frames r_blockid r_cancel]. rewrite Hc2, <- He0. rewrite He0. apply Fut_cancel.
  - (* a new batch was decoded *)
    replace (decoded =? 0) with false by (symmetry; apply N.eqb_neq; lia).
    set (s3 := mkR (r_bufs s2) decoded (r_consumed s2) (r_frames s2) (r_blockid s2) (r_cancel s2) (r_err s2) (r_closed s2)).
    assert (HI3 : GInv s3 (skipn (N.to_nat lenChunk) rem) e).
    { constructor; unfold s3; cbn [r_closed r_err r_bufs r_consumed r_avail r_cancel r_frames].
      - rewrite C2; exact Scl.
      - rewrite Er2; exact Se.
      - exact Hsh2.
      - rewrite Hc0. lia.
      - exists rest'. unfold unread. cbn [r_avail r_consumed r_bufs]. rewrite Hc0. cbn [N.to_nat skipn].
        rewrite firstn_all2 by lia. split; [rewrite Hrest1; exact Hr'|exact Hfr']. }
    assert (Hms3 : (rmeasure s3 < rmeasure s)%nat).
    { unfold rmeasure. unfold s3; cbn [r_cancel r_frames]. rewrite Scn in Hcs. rewrite Hcs. rewrite Sf in Hms.
      destruct (r_cancel s2); lia. }
    destruct (N.eq_dec lenChunk 0) as [E0|E0].
    + assert (Hw1 : want1 = want) by (unfold want1; lia).
      assert (Hchk : chunk = []) by (rewrite Hchunk, E0; reflexivity).
      assert (Hrm : skipn (N.to_nat lenChunk) rem = rem) by (rewrite E0; reflexivity).
      rewrite Hrm in HI3. rewrite Hw1, Hchk, app_nil_r.
      destruct (IH s3 want got total rem e HI3 ltac:(lia) Hwt) as (s' & res & E & P).
      exists s', res. split; [exact E|exact P].
    + apply (Hrec ltac:(lia) s3 HI3). lia.
Qed.

(* ---------- whole life of a Reader ---------- *)
Fixpoint do_reads_g (s : rst) (ns : list N) : list (list N * rres) * rst :=
  match ns with
  | [] => ([], s)
  | k :: r =>
      match r_read B jobs hint from to s k with
      | (s', bs, res) => let '(l, sf) := do_reads_g s' r in ((bs, res) :: l, sf)
      end
  end.

(* what a caller must observe when the batches deliver [data] and then end-of-stream (e = false) or
   a block error (e = true): Reads are filled with the next bytes; the Read that wants more than is
   left before a failed batch gets the bytes that are left together with the error, and every later
   Read gets no byte and the error; without failure, as in [spec_reads] *)
Fixpoint spec_reads_g (data : list N) (e : bool) (ns : list N) : list (list N * rres) :=
  match ns with
  | [] => []
  | k :: r =>
      if failing e data k then (data, RErr) :: map (fun _ => ([], RErr)) r
      else (firstn (N.to_nat k) data, eof_result k k data) :: spec_reads_g (skipn (N.to_nat k) data) e r
  end.

Lemma do_reads_failed : forall ns s, r_closed s = false -> r_err s = true ->
  fst (do_reads_g s ns) = map (fun _ => ([], RErr)) ns.
Proof.
  induction ns as [|k r IH]; intros s Hc He; cbn [do_reads_g map]; [reflexivity|].
  rewrite (read_after_error B jobs hint from to s k Hc He).
  specialize (IH s Hc He). destruct (do_reads_g s r) as [l sf]. cbn [fst] in *. rewrite IH. reflexivity.
Qed.

Lemma do_reads_g_spec : forall ns s rem e, GInv s rem e -> fst (do_reads_g s ns) = spec_reads_g rem e ns.
Proof.
  induction ns as [|k r IH]; intros s rem e HI; cbn [do_reads_g spec_reads_g]; [reflexivity|].
  unfold r_read. rewrite (gi_closed s rem e HI), (gi_err s rem e HI).
  destruct (read_loop_gen (S (N.to_nat k) + S (length (r_frames s)) * 2) s k [] k rem e HI) as (s' & res & E & P).
  { unfold rmeasure. destruct (r_cancel s); lia. }
  { lia. }
  rewrite E. cbn [app]. unfold read_post in P. destruct (failing e rem k) eqn:Ef.
  - destruct P as (-> & Pe & Pc). pose proof (do_reads_failed r s' Pc Pe) as Hd.
    destruct (do_reads_g s' r) as [l sf]. cbn [fst] in *. rewrite Hd.
    unfold failing in Ef. apply andb_true_iff in Ef. destruct Ef as [_ Ef]. apply Nat.ltb_lt in Ef.
    rewrite firstn_all2 by lia. reflexivity.
  - destruct P as (-> & I'). specialize (IH s' _ _ I'). destruct (do_reads_g s' r) as [l sf]. cbn [fst] in *. rewrite IH. reflexivity.
Qed.

Lemma ginv_init frames data e : Fut frames 0 false data e -> GInv (init_r frames) data e.
Proof. intros H. constructor; cbn; auto. exists data. split; [reflexivity|exact H]. Qed.

Theorem reader_follows_batches frames data e ns : Fut frames 0 false data e ->
  fst (do_reads_g (init_r frames) ns) = spec_reads_g data e ns.
Proof. intros H. apply do_reads_g_spec, ginv_init, H. Qed.

Lemma spec_reads_g_noerr : forall ns data, spec_reads_g data false ns = spec_reads data ns.
Proof. induction ns as [|k r IH]; intros data; cbn [spec_reads_g spec_reads failing andb]; [reflexivity|]. rewrite IH. reflexivity. Qed.

(* whatever the Reads, the bytes handed out are a prefix of what the batches deliver, and an error,
   once returned, is returned by every later call, with no byte *)
Lemma spec_reads_g_prefix : forall ns data e, exists k, concat (map fst (spec_reads_g data e ns)) = firstn k data.
Proof.
  induction ns as [|k r IH]; intros data e; cbn [spec_reads_g map concat].
  - exists O. reflexivity.
  - destruct (failing e data k).
    + exists (length data). cbn [map fst concat]. rewrite firstn_all.
      assert (X : concat (map fst (map (fun _ : N => (@nil N, RErr)) r)) = []) by (clear; induction r; cbn; auto).
      rewrite X, app_nil_r. reflexivity.
    + destruct (IH (skipn (N.to_nat k) data) e) as [k2 Hk]. cbn [map fst concat]. rewrite Hk.
      destruct (Nat.le_gt_cases (N.to_nat k) (length data)) as [Hle|Hgt].
      * exists (N.to_nat k + k2)%nat. rewrite firstn_add. reflexivity.
      * exists (length data). rewrite skipn_all2 by lia. rewrite firstn_nil, app_nil_r, firstn_all, firstn_all2 by lia. reflexivity.
Qed.

(* a stream that ends in a failed batch never reports end-of-stream *)
Lemma spec_reads_g_never_eof : forall ns data, ~ In REOF (map snd (spec_reads_g data true ns)).
Proof.
  induction ns as [|k r IH]; intros data; cbn [spec_reads_g map]; [intros []|].
  destruct (failing true data k) eqn:Ef.
  - cbn [map snd]. intros [X|X]; [discriminate|]. rewrite map_map in X. cbn [snd] in X.
    apply in_map_iff in X. destruct X as (? & X & _). discriminate.
  - cbn [map snd]. intros [X|X]; [|exact (IH _ X)].
    unfold failing in Ef. cbn [andb] in Ef. apply Nat.ltb_ge in Ef. unfold eof_result in X.
    destruct ((k =? k) && (0 <? k)) eqn:E1; [|discriminate]. cbn [andb] in X.
    destruct data as [|y q]; [|discriminate]. apply andb_true_iff in E1. destruct E1 as [_ E1]. apply N.ltb_lt in E1.
    cbn [length] in Ef. lia.
Qed.

(* once the data before a failed batch is used up, every Read of positive length reports the error *)
Lemma spec_reads_g_error_reported : forall ns data k, 0 < k ->
  (length data < N.to_nat (fold_right N.add 0%N ns) + N.to_nat k)%nat ->
  In RErr (map snd (spec_reads_g data true (ns ++ [k]))).
Proof.
  induction ns as [|m r IH]; intros data k Hk Hl; cbn [app spec_reads_g].
  - cbn [fold_right] in Hl. unfold failing. cbn [andb].
    replace (length data <? N.to_nat k)%nat with true by (symmetry; apply Nat.ltb_lt; lia). left. reflexivity.
  - destruct (failing true data m) eqn:Ef; [left; reflexivity|].
    cbn [map snd]. right. apply IH; [exact Hk|]. rewrite skipn_length. cbn [fold_right] in Hl. lia.
Qed.

(* ====================== Part 2: closed forms of [Fut] ====================== *)

(* payloads of the in-range data frames; the first frame of [fr] has id [id]+1 *)
Fixpoint sel (id : N) (fr : list frame) : list (list N) :=
  match fr with
  | [] => []
  | FData bs :: t => if skipped (id + 1) then sel (id + 1) t else bs :: sel (id + 1) t
  | _ :: t => sel (id + 1) t
  end.

(* frames whose tasks all succeed: data blocks of 1..B bytes, damaged blocks only outside the range *)
Fixpoint clean (id : N) (fr : list frame) : Prop :=
  match fr with
  | [] => True
  | FData bs :: t => (0 < length bs <= b)%nat /\ clean (id + 1) t
  | FFail :: t => skipped (id + 1) = true /\ clean (id + 1) t
  | FEnd :: _ => False
  end.

Definition nodata (fr : list frame) : Prop := Forall (fun f => match f with FData _ => False | _ => True end) fr.

(* block sizes as the Writer produces them: full blocks, then at most one shorter block *)
Fixpoint chunky (fr : list frame) : Prop :=
  match fr with
  | [] => True
  | FData bs :: t => (length bs = b /\ chunky t) \/ nodata t
  | _ :: t => chunky t
  end.

Fixpoint res (id : N) (fr : list frame) : list tres :=
  match fr with
  | [] => []
  | FData bs :: t => (if skipped (id + 1) then TSkip else TData bs) :: res (id + 1) t
  | _ :: t => TSkip :: res (id + 1) t
  end.

Lemma batch_cancelled_g : forall m frames id, batch m frames id true = (repeat TNone m, frames, id + N.of_nat m, true).
Proof.
  induction m as [|m IH]; intros frames id; cbn [Reader.batch repeat].
  - replace (id + N.of_nat 0) with id by lia. reflexivity.
  - rewrite IH. replace (id + N.of_nat (S m)) with (id + 1 + N.of_nat m) by lia. reflexivity.
Qed.

Lemma batch_clean : forall pre rest id, clean id pre ->
  batch (length pre) (pre ++ rest) id false = (res id pre, rest, id + N.of_nat (length pre), false).
Proof.
  induction pre as [|f t IH]; intros rest id Hc; cbn [length Reader.batch app res].
  - replace (id + N.of_nat 0) with id by lia. reflexivity.
  - replace (id + N.of_nat (S (length t))) with (id + 1 + N.of_nat (length t)) by lia.
    destruct f as [bs| |]; cbn [clean] in Hc.
    + destruct Hc as [_ Hc]. rewrite (IH rest (id + 1) Hc). reflexivity.
    + destruct Hc as [Hs Hc]. rewrite Hs. rewrite (IH rest (id + 1) Hc). reflexivity.
    + destruct Hc.
Qed.

Lemma batch_app : forall a m fr id c,
  batch (a + m) fr id c =
    let '(rs1, fr1, id1, c1) := batch a fr id c in
    let '(rs2, fr2, id2, c2) := batch m fr1 id1 c1 in (rs1 ++ rs2, fr2, id2, c2).
Proof.
  induction a as [|a IH]; intros m fr id c.
  - cbn [Nat.add Reader.batch]. destruct (batch m fr id c) as [[[rs2 fr2] id2] c2]. reflexivity.
  - cbn [Nat.add Reader.batch]. destruct c.
    + rewrite IH. destruct (batch a fr (id + 1) true) as [[[rs1 fr1] id1] c1].
      destruct (batch m fr1 id1 c1) as [[[rs2 fr2] id2] c2]. reflexivity.
    + destruct fr as [|f rest].
      * rewrite IH. destruct (batch a [] (id + 1) true) as [[[rs1 fr1] id1] c1].
        destruct (batch m fr1 id1 c1) as [[[rs2 fr2] id2] c2]. reflexivity.
      * destruct f as [bs| |].
        -- rewrite IH. destruct (batch a rest (id + 1) false) as [[[rs1 fr1] id1] c1].
           destruct (batch m fr1 id1 c1) as [[[rs2 fr2] id2] c2]. reflexivity.
        -- destruct (skipped (id + 1)).
           ++ rewrite IH. destruct (batch a rest (id + 1) false) as [[[rs1 fr1] id1] c1].
              destruct (batch m fr1 id1 c1) as [[[rs2 fr2] id2] c2]. reflexivity.
           ++ rewrite IH. destruct (batch a rest (id + 1) true) as [[[rs1 fr1] id1] c1].
              destruct (batch m fr1 id1 c1) as [[[rs2 fr2] id2] c2]. reflexivity.
        -- rewrite IH. destruct (batch a rest (id + 1) true) as [[[rs1 fr1] id1] c1].
           destruct (batch m fr1 id1 c1) as [[[rs2 fr2] id2] c2]. reflexivity.
Qed.

Lemma sel_length : forall fr id, (length (sel id fr) <= length fr)%nat.
Proof.
  induction fr as [|f t IH]; intros id; cbn [sel length]; [lia|].
  destruct f as [bs| |]; try (specialize (IH (id + 1)); lia).
  destruct (skipped (id + 1)); cbn [length]; specialize (IH (id + 1)); lia.
Qed.

Lemma sres_res : forall pre id rs2, clean id pre ->
  sres (res id pre ++ rs2) =
    let '(l2, k2, e2) := sres rs2 in (sel id pre ++ l2, (length pre - length (sel id pre) + k2)%nat, e2).
Proof.
  induction pre as [|f t IH]; intros id rs2 Hc; cbn [res app sel length].
  - destruct (sres rs2) as [[l2 k2] e2]. reflexivity.
  - pose proof (sel_length t (id + 1)) as Hl.
    destruct f as [bs| |]; cbn [clean] in Hc.
    + destruct Hc as [Hb Hc]. destruct (skipped (id + 1)); cbn [sres app].
      * rewrite (IH _ rs2 Hc). destruct (sres rs2) as [[l2 k2] e2]. f_equal. f_equal. lia.
      * replace (B <? N.of_nat (length bs)) with false by (symmetry; apply N.ltb_ge; lia).
        rewrite (IH _ rs2 Hc). destruct (sres rs2) as [[l2 k2] e2]. cbn [length app]. reflexivity.
    + destruct Hc as [_ Hc]. cbn [sres app]. rewrite (IH _ rs2 Hc). destruct (sres rs2) as [[l2 k2] e2]. f_equal. f_equal. lia.
    + destruct Hc.
Qed.

Lemma sel_app : forall p1 p2 id, sel id (p1 ++ p2) = sel id p1 ++ sel (id + N.of_nat (length p1)) p2.
Proof.
  induction p1 as [|f t IH]; intros p2 id; cbn [app sel length].
  - replace (id + N.of_nat 0) with id by lia. reflexivity.
  - replace (id + N.of_nat (S (length t))) with (id + 1 + N.of_nat (length t)) by lia.
    destruct f as [bs| |]; try apply IH. destruct (skipped (id + 1)); cbn [app]; rewrite IH; reflexivity.
Qed.

Lemma clean_app : forall p1 p2 id, clean id (p1 ++ p2) <-> clean id p1 /\ clean (id + N.of_nat (length p1)) p2.
Proof.
  induction p1 as [|f t IH]; intros p2 id; cbn [app clean length].
  - replace (id + N.of_nat 0) with id by lia. tauto.
  - replace (id + N.of_nat (S (length t))) with (id + 1 + N.of_nat (length t)) by lia.
    destruct f as [bs| |]; rewrite ?IH; tauto.
Qed.

Lemma nodata_chunky fr : nodata fr -> chunky fr.
Proof. induction fr as [|f t IH]; intros H; [exact I|]. inversion H; subst. destruct f; cbn [chunky]; try contradiction; apply IH; assumption. Qed.

Lemma chunky_app : forall p1 p2, chunky (p1 ++ p2) -> chunky p1 /\ chunky p2.
Proof.
  induction p1 as [|f t IH]; intros p2 H; cbn [app chunky] in *; [tauto|].
  destruct f as [bs| |]; try (apply IH; exact H).
  destruct H as [[Hl H]|H].
  - destruct (IH _ H) as [H1 H2]. split; [left; auto|exact H2].
  - apply Forall_app in H. destruct H as [H1 H2]. split; [right; exact H1|apply nodata_chunky; exact H2].
Qed.

Lemma nodata_sel : forall fr id, nodata fr -> sel id fr = [].
Proof. induction fr as [|f t IH]; intros id H; [reflexivity|]. inversion H; subst. destruct f; cbn [sel]; try contradiction; apply IH; assumption. Qed.

Lemma sel_shape : forall fr id, clean id fr -> chunky fr -> shape (sel id fr).
Proof.
  induction fr as [|f t IH]; intros id Hc Hk; cbn [sel]; [exact I|].
  destruct f as [bs| |]; cbn [clean chunky] in *.
  - destruct Hc as [Hb Hc]. destruct (skipped (id + 1)).
    + apply IH; [exact Hc|]. destruct Hk as [[_ Hk]|Hk]; [exact Hk|apply nodata_chunky; exact Hk].
    + cbn [ReaderProofs.shape]. destruct Hk as [[Hl Hk]|Hk].
      * left. split; [exact Hl|apply IH; assumption].
      * right. split; [lia|]. rewrite (nodata_sel _ _ Hk). reflexivity.
  - destruct Hc as [_ Hc]. apply IH; assumption.
  - destruct Hc.
Qed.

Lemma sel_concat_nonempty : forall fr id, clean id fr -> sel id fr <> [] -> concat (sel id fr) <> [].
Proof.
  induction fr as [|f t IH]; intros id Hc Hn; cbn [sel] in *; [congruence|].
  destruct f as [bs| |]; cbn [clean] in Hc.
  - destruct Hc as [Hb Hc]. destruct (skipped (id + 1)); [apply IH; assumption|].
    cbn [concat]. destruct bs; [cbn in Hb; lia|discriminate].
  - destruct Hc as [_ Hc]. apply IH; assumption.
  - destruct Hc.
Qed.

Lemma n_pos : (0 < n)%nat.
Proof. pose proof (nb_tasks_pos B jobs hint HB HJ). lia. Qed.

(* one batch inside a clean stretch of the stream *)
Lemma batch_inside p1 rest id : length p1 = n -> clean id p1 ->
  batch n (p1 ++ rest) id false = (res id p1, rest, id + N.of_nat n, false) /\
  sres (res id p1) = (sel id p1, (n - length (sel id p1))%nat, false).
Proof.
  intros Hl Hc. split.
  - rewrite <- Hl. apply batch_clean; exact Hc.
  - pose proof (sres_res p1 id [] Hc) as H. rewrite app_nil_r in H. cbn [sres] in H. rewrite H, app_nil_r, Hl. f_equal. f_equal. lia.
Qed.

(* the batch that runs over the end of a clean stretch *)
Lemma batch_over pre tail id : (length pre < n)%nat -> clean id pre ->
  exists rs2 fr2 id2 c2, batch (n - length pre) tail (id + N.of_nat (length pre)) false = (rs2, fr2, id2, c2) /\
    batch n (pre ++ tail) id false = (res id pre ++ rs2, fr2, id2, c2) /\
    sres (res id pre ++ rs2) = let '(l2, k2, e2) := sres rs2 in (sel id pre ++ l2, (length pre - length (sel id pre) + k2)%nat, e2).
Proof.
  intros Hl Hc.
  destruct (batch (n - length pre) tail (id + N.of_nat (length pre)) false) as [[[rs2 fr2] id2] c2] eqn:E.
  exists rs2, fr2, id2, c2. split; [reflexivity|]. split.
  - replace n with (length pre + (n - length pre))%nat at 1 by lia.
    rewrite batch_app, (batch_clean pre tail id Hc), E. reflexivity.
  - apply sres_res; exact Hc.
Qed.

(* (A) every frame before the end marker decodes: the in-range blocks, then end-of-stream *)
Lemma fut_good : forall m pre t id, (length pre <= m)%nat -> clean id pre -> chunky pre ->
  Fut (pre ++ FEnd :: t) id false (concat (sel id pre)) false.
Proof.
  pose proof n_pos as Hn.
  induction m as [|m IH]; intros pre t id Hm Hc Hk.
  - destruct pre; [|cbn in Hm; lia]. cbn [app sel concat].
    destruct (batch_over [] (FEnd :: t) id ltac:(cbn; lia) I) as (rs2 & fr2 & id2 & c2 & E & Eb & Es).
    cbn [length app res] in *. replace (n - 0)%nat with (S (n - 1)) in E by lia. cbn [Reader.batch] in E.
    rewrite batch_cancelled_g in E. inversion E; subst. clear E.
    eapply Fut_eof with (l := [] :: repeat [] (n - 1)) (k := O); [exact Eb| | lia | | reflexivity].
    + cbn [sres]. clear. induction (n - 1)%nat as [|q IHq]; cbn [repeat sres]; [reflexivity|].
      cbn [sres] in IHq. destruct (sres (repeat TNone q)) as [[l k] e]. inversion IHq; subst. reflexivity.
    + cbn [concat app]. clear. induction (n - 1)%nat; cbn; auto.
  - destruct (Nat.le_gt_cases n (length pre)) as [Hle|Hgt].
    + (* a full batch inside the clean stretch *)
      rewrite <- (firstn_skipn n pre) in Hc, Hk |- *. set (p1 := firstn n pre) in *. set (p2 := skipn n pre) in *.
      assert (Hl1 : length p1 = n) by (unfold p1; rewrite firstn_length; lia).
      apply clean_app in Hc. destruct Hc as [Hc1 Hc2]. rewrite Hl1 in Hc2.
      apply chunky_app in Hk. destruct Hk as [Hk1 Hk2].
      destruct (batch_inside p1 (p2 ++ FEnd :: t) id Hl1 Hc1) as [Eb Es].
      rewrite sel_app, concat_app, Hl1, <- app_assoc.
      assert (IH2 : Fut (p2 ++ FEnd :: t) (id + N.of_nat n) false (concat (sel (id + N.of_nat n) p2)) false).
      { apply IH; [unfold p2; rewrite skipn_length; lia|exact Hc2|exact Hk2]. }
      destruct (sel id p1) as [|x q] eqn:Esel.
      * cbn [concat app]. eapply Fut_skip; [exact Eb| |exact IH2]. rewrite Es. cbn [length]. f_equal. f_equal. lia.
      * eapply Fut_data; [exact Eb|exact Es| | | |exact IH2].
        -- cbn [length]. lia.
        -- rewrite <- Esel. apply sel_concat_nonempty; [exact Hc1|rewrite Esel; discriminate].
        -- rewrite <- Esel. apply sel_shape; assumption.
    + (* the batch reaches the end marker *)
      destruct (batch_over pre (FEnd :: t) id Hgt Hc) as (rs2 & fr2 & id2 & c2 & E & Eb & Es).
      replace (n - length pre)%nat with (S (n - length pre - 1)) in E by lia. cbn [Reader.batch] in E.
      rewrite batch_cancelled_g in E. inversion E; subst. clear E.
      assert (Hsn : sres (TNone :: repeat TNone (n - length pre - 1)) = ([] :: repeat [] (n - length pre - 1), O, false)).
      { cbn [sres]. clear. induction (n - length pre - 1)%nat as [|q IHq]; cbn [repeat sres]; [reflexivity|].
        cbn [sres] in IHq. destruct (sres (repeat TNone q)) as [[l k] e]. inversion IHq; subst. reflexivity. }
      rewrite Hsn in Es.
      assert (Hcn : concat (sel id pre ++ [] :: repeat [] (n - length pre - 1)) = concat (sel id pre)).
      { change ([] :: repeat [] (n - length pre - 1)) with (repeat (@nil N) (S (n - length pre - 1))). apply concat_app_nils. }
      pose proof (sel_length pre id) as Hsl.
      destruct (sel id pre) as [|x q] eqn:Esel.
      * cbn [concat]. eapply Fut_eof; [exact Eb|exact Es| | |reflexivity].
        -- cbn [length]. lia.
        -- exact Hcn.
      * rewrite <- (app_nil_r (concat (x :: q))), <- Hcn.
        eapply Fut_data; [exact Eb|exact Es| | | |apply Fut_cancel].
        -- lia.
        -- rewrite Hcn, <- Esel. apply sel_concat_nonempty; [exact Hc|rewrite Esel; discriminate].
        -- change ([] :: repeat [] (n - length pre - 1)) with (repeat (@nil N) (S (n - length pre - 1))).
           apply (shape_app_nils B jobs HB HJ). rewrite <- Esel. apply sel_shape; assumption.
Qed.

(* the stream breaks here: its physical end, or a block in the range whose decoding fails *)
Definition breaks (id : N) (tail : list frame) : Prop :=
  tail = [] \/ exists t, tail = FFail :: t /\ skipped (id + 1) = false.

(* (B) the stream breaks before any end marker: a prefix (by whole blocks) of the in-range blocks
   that precede the break, then the error *)
Lemma fut_bad : forall m pre tail id, (length pre <= m)%nat -> clean id pre -> chunky pre ->
  breaks (id + N.of_nat (length pre)) tail ->
  exists k, Fut (pre ++ tail) id false (concat (sel id (firstn k pre))) true.
Proof.
  pose proof n_pos as Hn.
  induction m as [|m IH]; intros pre tail id Hm Hc Hk Hbr.
  - destruct pre; [|cbn in Hm; lia]. exists O. cbn [firstn sel concat app].
    destruct (batch_over [] tail id ltac:(cbn; lia) I) as (rs2 & fr2 & id2 & c2 & E & Eb & Es).
    cbn [length app res sel] in *. replace (id + 0) with id in * by lia. replace (n - 0)%nat with (S (n - 1)) in E by lia.
    destruct Hbr as [->|(t & -> & Hs)]; cbn [Reader.batch] in E; rewrite ?Hs in E;
      rewrite batch_cancelled_g in E; inversion E; subst;
      (eapply Fut_err; [exact Eb|cbn [sres]; reflexivity]).
  - destruct (Nat.le_gt_cases n (length pre)) as [Hle|Hgt].
    + pose proof (firstn_skipn n pre) as Hsplit. set (p1 := firstn n pre) in *. set (p2 := skipn n pre) in *.
      assert (Hl1 : length p1 = n) by (unfold p1; rewrite firstn_length; lia).
      rewrite <- Hsplit in Hc, Hk. apply clean_app in Hc. destruct Hc as [Hc1 Hc2]. rewrite Hl1 in Hc2.
      apply chunky_app in Hk. destruct Hk as [Hk1 Hk2].
      destruct (batch_inside p1 (p2 ++ tail) id Hl1 Hc1) as [Eb Es].
      destruct (IH p2 tail (id + N.of_nat n)) as [k2 IH2]; [unfold p2; rewrite skipn_length; lia|exact Hc2|exact Hk2| |].
      { replace (id + N.of_nat n + N.of_nat (length p2)) with (id + N.of_nat (length pre)); [exact Hbr|].
        rewrite <- Hsplit, app_length, Hl1. lia. }
      exists (n + k2)%nat. rewrite <- Hsplit at 1. rewrite <- app_assoc.
      replace (firstn (n + k2) pre) with (p1 ++ firstn k2 p2).
      2:{ rewrite <- Hsplit. rewrite firstn_app, Hl1. replace (n + k2 - n)%nat with k2 by lia. rewrite (firstn_all2 p1) by lia. reflexivity. }
      rewrite sel_app, concat_app, Hl1.
      destruct (sel id p1) as [|x q] eqn:Esel.
      * cbn [concat app]. eapply Fut_skip; [exact Eb| |exact IH2]. rewrite Es. cbn [length]. f_equal. f_equal. lia.
      * eapply Fut_data; [exact Eb|exact Es| | | |exact IH2].
        -- cbn [length]. lia.
        -- rewrite <- Esel. apply sel_concat_nonempty; [exact Hc1|rewrite Esel; discriminate].
        -- rewrite <- Esel. apply sel_shape; assumption.
    + exists O. cbn [firstn sel concat].
      destruct (batch_over pre tail id Hgt Hc) as (rs2 & fr2 & id2 & c2 & E & Eb & Es).
      replace (n - length pre)%nat with (S (n - length pre - 1)) in E by lia.
      destruct Hbr as [->|(t & -> & Hs)]; cbn [Reader.batch] in E; rewrite ?Hs in E;
        rewrite batch_cancelled_g in E; inversion E; subst;
        (eapply Fut_err; [exact Eb|rewrite Es; cbn [sres]; reflexivity]).
Qed.

(* ---------- streams derived from a valid one ---------- *)
(* the frames of a stream some of whose blocks do not decode any more *)
Inductive dmg : list frame -> list (list N) -> Prop :=
| dmg_nil : dmg [] []
| dmg_ok : forall x fr bl, dmg fr bl -> dmg (FData x :: fr) (x :: bl)
| dmg_bad : forall x fr bl, dmg fr bl -> dmg (FFail :: fr) (x :: bl).

Definition wsz (bl : list (list N)) : Prop := Forall (fun x => (0 < length x <= b)%nat) bl.
Fixpoint cshape (bl : list (list N)) : Prop :=
  match bl with [] => True | x :: t => (length x = b /\ cshape t) \/ t = [] end.

Lemma dmg_same bl : dmg (map FData bl) bl.
Proof. induction bl; cbn [map]; constructor; assumption. Qed.

Lemma dmg_length fr bl : dmg fr bl -> length fr = length bl.
Proof. induction 1; cbn [length]; congruence. Qed.

Lemma dmg_chunky fr bl : dmg fr bl -> cshape bl -> chunky fr.
Proof.
  induction 1 as [|x fr bl H IH|x fr bl H IH]; intros Hs; cbn [chunky cshape] in *; [exact I| |].
  - destruct Hs as [[Hl Hs]| ->]; [left; auto|right]. inversion H; subst. constructor.
  - destruct Hs as [[Hl Hs]| ->]; [auto|]. inversion H; subst. exact I.
Qed.

Lemma dmg_firstn : forall j fr bl, dmg fr bl -> dmg (firstn j fr) (firstn j bl).
Proof.
  induction j as [|j IH]; intros fr bl H; [constructor|].
  destruct H; cbn [firstn]; constructor; apply IH; assumption.
Qed.

Lemma dmg_clean_sel fr bl : dmg fr bl -> forall id, clean id fr -> sel id fr = sel id (map FData bl).
Proof.
  induction 1 as [|x fr bl H IH|x fr bl H IH]; intros id Hc; cbn [map sel clean] in *; [reflexivity| |].
  - destruct Hc as [_ Hc]. rewrite (IH _ Hc). reflexivity.
  - destruct Hc as [Hs Hc]. rewrite Hs. apply IH; exact Hc.
Qed.

(* either every in-range block decodes, or there is a first in-range block that does not *)
Lemma dmg_split fr bl : dmg fr bl -> wsz bl -> forall id,
  clean id fr \/ exists pre t, fr = pre ++ FFail :: t /\ clean id pre /\ skipped (id + N.of_nat (length pre) + 1) = false.
Proof.
  induction 1 as [|x fr bl H IH|x fr bl H IH]; intros Hw id; [left; exact I| |]; inversion Hw as [|? ? Hx Hw']; subst.
  - destruct (IH Hw' (id + 1)) as [Hc|(pre & t & E & Hc & Hs)].
    + left. cbn [clean]. auto.
    + right. exists (FData x :: pre), t. rewrite E. split; [reflexivity|]. cbn [clean length]. split; [auto|].
      replace (id + N.of_nat (S (length pre)) + 1) with (id + 1 + N.of_nat (length pre) + 1) by lia. exact Hs.
  - destruct (skipped (id + 1)) eqn:Es.
    + destruct (IH Hw' (id + 1)) as [Hc|(pre & t & E & Hc & Hs)].
      * left. cbn [clean]. auto.
      * right. exists (FFail :: pre), t. rewrite E. split; [reflexivity|]. cbn [clean length]. split; [auto|].
        replace (id + N.of_nat (S (length pre)) + 1) with (id + 1 + N.of_nat (length pre) + 1) by lia. exact Hs.
    + right. exists [], fr. split; [reflexivity|]. split; [exact I|]. cbn [length]. replace (id + N.of_nat 0 + 1) with (id + 1) by lia. exact Es.
Qed.

Lemma clean_firstn : forall k fr id, clean id fr -> clean id (firstn k fr).
Proof. intros k fr id H. rewrite <- (firstn_skipn k fr) in H. apply clean_app in H. tauto. Qed.

Lemma chunks_wsz : forall m d, (length d <= m)%nat -> wsz (chunks B d).
Proof.
  induction m as [|m IH]; intros d Hl.
  - destruct d; [constructor|cbn in Hl; lia].
  - destruct d as [|x t]; [constructor|]. rewrite (chunks_unfold B jobs HB HJ) by discriminate. constructor.
    + rewrite firstn_length. cbn [length]. lia.
    + apply IH. rewrite skipn_length. cbn [length] in *. lia.
Qed.

Lemma chunks_cshape : forall m d, (length d <= m)%nat -> cshape (chunks B d).
Proof.
  induction m as [|m IH]; intros d Hl.
  - destruct d; [exact I|cbn in Hl; lia].
  - destruct d as [|x t]; [exact I|]. rewrite (chunks_unfold B jobs HB HJ) by discriminate. cbn [cshape].
    destruct (Nat.le_gt_cases (length (x :: t)) b) as [Hle|Hgt].
    + right. rewrite skipn_all2 by lia. reflexivity.
    + left. split; [rewrite firstn_length; lia|]. apply IH. rewrite skipn_length. cbn [length] in *. lia.
Qed.

Lemma chunks_firstn : forall k d, firstn k (chunks B d) = chunks B (firstn (k * b) d).
Proof.
  induction k as [|k IH]; intros d; [reflexivity|].
  destruct d as [|x t]; [rewrite !firstn_nil; reflexivity|].
  rewrite (chunks_unfold B jobs HB HJ (x :: t)) by discriminate. cbn [firstn]. rewrite IH.
  assert (Hb : (0 < b)%nat) by lia.
  rewrite (chunks_unfold B jobs HB HJ (firstn (S k * b) (x :: t))).
  2:{ cbn [Nat.mul]. destruct (b + k * b)%nat eqn:E; [lia|discriminate]. }
  f_equal.
  - rewrite firstn_firstn. f_equal. cbn [Nat.mul]. lia.
  - f_equal. rewrite skipn_firstn_comm. f_equal. cbn [Nat.mul]. lia.
Qed.

(* the bytes of [d] that lie in the blocks of the range, when the first block of [d] has id [id]+1 *)
Definition range_bytes_at (id : nat) (d : list N) : list N :=
  let lo := ((N.to_nat from - 1 - id) * b)%nat in
  let hi := if to =? 0 then length d else ((N.to_nat to - 1 - id) * b)%nat in
  firstn (hi - lo) (skipn lo d).

Lemma sel_range : forall m d id, (length d <= m)%nat ->
  concat (sel (N.of_nat id) (map FData (chunks B d))) = range_bytes_at id d.
Proof.
  assert (Hb : (0 < b)%nat) by lia.
  induction m as [|m IH]; intros d id Hl.
  { destruct d; [|cbn in Hl; lia]. unfold range_bytes_at. cbn [chunks chunks_f length map sel concat]. rewrite skipn_nil, firstn_nil. reflexivity. }
  destruct d as [|x t].
  { unfold range_bytes_at. cbn [chunks chunks_f length map sel concat]. rewrite skipn_nil, firstn_nil. reflexivity. }
  rewrite (chunks_unfold B jobs HB HJ (x :: t)) by discriminate. set (d := x :: t) in *.
  cbn [map sel]. replace (N.of_nat id + 1) with (N.of_nat (S id)) by lia.
  assert (IH' := IH (skipn b d) (S id) ltac:(rewrite skipn_length; unfold d in *; cbn [length] in *; lia)).
  unfold range_bytes_at in *.
  set (qf := (N.to_nat from - 1 - id)%nat) in *. set (qt := (N.to_nat to - 1 - id)%nat) in *.
  replace (N.to_nat from - 1 - S id)%nat with (qf - 1)%nat in IH' by lia.
  replace (N.to_nat to - 1 - S id)%nat with (qt - 1)%nat in IH' by lia.
  rewrite skipn_length in IH'.
  unfold Reader.skipped.
  destruct ((0 <? from) && (N.of_nat (S id) <? from)) eqn:E1; cbn [orb].
  - (* before the range *)
    apply andb_true_iff in E1. destruct E1 as [_ E1]. apply N.ltb_lt in E1.
    destruct qf as [|qf'] eqn:Eq; [lia|]. rewrite IH'. cbn [Nat.mul]. replace (S qf' - 1)%nat with qf' by lia.
    rewrite skipn_skipn'. destruct (to =? 0).
    + f_equal. lia.
    + destruct qt as [|qt']; [reflexivity|]. cbn [Nat.mul]. replace (S qt' - 1)%nat with qt' by lia. f_equal. lia.
  - destruct ((0 <? to) && (to <=? N.of_nat (S id))) eqn:E2.
    + (* after the range *)
      apply andb_true_iff in E2. destruct E2 as [E2a E2]. apply N.leb_le in E2. apply N.ltb_lt in E2a.
      rewrite IH'. replace (to =? 0) with false by (symmetry; apply N.eqb_neq; lia).
      replace qt with O by lia. reflexivity.
    + (* in the range *)
      assert (Hqf : qf = O).
      { apply andb_false_iff in E1. destruct E1 as [E1|E1]; [apply N.ltb_ge in E1|apply N.ltb_ge in E1]; lia. }
      rewrite Hqf in *. cbn [Nat.mul skipn Nat.sub] in *. cbn [concat]. rewrite IH'. rewrite !Nat.sub_0_r.
      destruct (to =? 0) eqn:Et.
      * rewrite <- firstn_add. rewrite firstn_all2 by lia. symmetry. apply firstn_all.
      * apply N.eqb_neq in Et. apply andb_false_iff in E2. destruct E2 as [E2|E2]; [apply N.ltb_ge in E2; lia|]. apply N.leb_gt in E2.
        assert (Hqt : (1 <= qt)%nat) by lia. clearbody qt. destruct qt as [|qt']; [lia|]. cbn [Nat.mul]. replace (S qt' - 1)%nat with qt' by lia. rewrite <- firstn_add. reflexivity.
Qed.

Definition range_bytes (d : list N) : list N := range_bytes_at 0 d.

(* --- the theorems --- *)
(* C11 (and C02/C05 when the damage lies outside the range): the blocks of the range, exactly *)
Theorem reader_range data dfr t ns : dmg dfr (chunks B data) -> clean 0 dfr ->
  fst (do_reads_g (init_r (dfr ++ FEnd :: t)) ns) = spec_reads (range_bytes data) ns.
Proof.
  intros Hd Hc. rewrite <- spec_reads_g_noerr. apply reader_follows_batches.
  unfold range_bytes. rewrite <- (sel_range (length data) data 0 (le_n _)). cbn [N.of_nat].
  rewrite <- (dmg_clean_sel dfr _ Hd 0 Hc).
  apply (fut_good (length dfr)); [lia|exact Hc|].
  apply (dmg_chunky dfr _ Hd). apply (chunks_cshape (length data)). lia.
Qed.

(* the stream breaks after the clean frames [pre]: only whole blocks that precede the break are handed out *)
Lemma reader_breaks data dfr j tail ns : dmg dfr (chunks B data) -> clean 0 (firstn j dfr) ->
  breaks (N.of_nat (length (firstn j dfr))) tail ->
  exists k, (k <= j)%nat /\
    fst (do_reads_g (init_r (firstn j dfr ++ tail)) ns) = spec_reads_g (range_bytes (firstn (k * b) data)) true ns.
Proof.
  intros Hd Hc Hbr. set (pre := firstn j dfr) in *.
  assert (Hk : chunky pre).
  { pose proof (dmg_chunky dfr _ Hd (chunks_cshape (length data) data (le_n _))) as H.
    rewrite <- (firstn_skipn j dfr) in H. apply chunky_app in H. tauto. }
  destruct (fut_bad (length pre) pre tail 0 (le_n _) Hc Hk) as [k HF]; [cbn [N.add]; exact Hbr|].
  exists (Nat.min k j). split; [lia|].
  rewrite (reader_follows_batches _ _ _ ns HF). f_equal.
  unfold pre. rewrite firstn_firstn.
  pose proof (dmg_firstn (Nat.min k j) dfr _ Hd) as Hd2.
  assert (Hc2 : clean 0 (firstn (Nat.min k j) dfr)).
  { rewrite <- firstn_firstn. apply clean_firstn. exact Hc. }
  rewrite (dmg_clean_sel _ _ Hd2 0 Hc2), chunks_firstn.
  unfold range_bytes. rewrite <- (sel_range (length (firstn (Nat.min k j * b) data)) _ 0 (le_n _)). reflexivity.
Qed.

(* C02/C05: a block of the range does not decode *)
Theorem reader_damaged data dfr t ns : dmg dfr (chunks B data) -> ~ clean 0 dfr ->
  exists pre q k, dfr = pre ++ FFail :: q /\ clean 0 pre /\ skipped (N.of_nat (length pre) + 1) = false /\ (k <= length pre)%nat /\
    fst (do_reads_g (init_r (dfr ++ FEnd :: t)) ns) = spec_reads_g (range_bytes (firstn (k * b) data)) true ns.
Proof.
  intros Hd Hn.
  destruct (dmg_split dfr _ Hd (chunks_wsz (length data) data (le_n _)) 0) as [Hc|(pre & q & E & Hc & Hs)]; [contradiction|].
  assert (Hpre : pre = firstn (length pre) dfr) by (rewrite E, firstn_app, Nat.sub_diag, firstn_all; cbn [firstn]; rewrite app_nil_r; reflexivity).
  pose proof Hc as Hc0. rewrite Hpre in Hc.
  destruct (reader_breaks data dfr (length pre) (FFail :: q ++ FEnd :: t) ns Hd Hc) as (k & Hk & Hr).
  { right. exists (q ++ FEnd :: t). split; [reflexivity|]. rewrite <- Hpre. exact Hs. }
  exists pre, q, k. split; [exact E|]. split; [exact Hc0|]. split; [exact Hs|]. split; [exact Hk|].
  rewrite <- Hpre in Hr. rewrite E, <- app_assoc. exact Hr.
Qed.

(* C09: the stream stops before its end marker (whatever happened to its blocks before) *)
Theorem reader_truncated data dfr cut ns : dmg dfr (chunks B data) ->
  exists k, (k <= cut)%nat /\
    fst (do_reads_g (init_r (firstn cut dfr)) ns) = spec_reads_g (range_bytes (firstn (k * b) data)) true ns.
Proof.
  intros Hd.
  pose proof (dmg_firstn cut dfr _ Hd) as Hd2.
  assert (Hw : wsz (firstn cut (chunks B data))).
  { pose proof (chunks_wsz (length data) data (le_n _)) as H. rewrite <- (firstn_skipn cut (chunks B data)) in H. apply Forall_app in H. tauto. }
  destruct (dmg_split _ _ Hd2 Hw 0) as [Hc|(pre & q & E & Hc & Hs)].
  - destruct (reader_breaks data dfr cut [] ns Hd Hc (or_introl eq_refl)) as (k & Hk & Hr).
    exists k. split; [exact Hk|]. rewrite app_nil_r in Hr. exact Hr.
  - assert (Hpre : pre = firstn (length pre) dfr).
    { assert (X : pre = firstn (length pre) (firstn cut dfr)) by (rewrite E, firstn_app, Nat.sub_diag, firstn_all; cbn [firstn]; rewrite app_nil_r; reflexivity).
      rewrite firstn_firstn in X. assert (Y : (length pre <= cut)%nat).
      { assert (Z : (length (firstn cut dfr) <= cut)%nat) by (rewrite firstn_length; lia). rewrite E, app_length in Z. lia. }
      replace (Nat.min (length pre) cut) with (length pre) in X by lia. exact X. }
    assert (Y : (length pre < cut)%nat).
    { assert (Z : (length (firstn cut dfr) <= cut)%nat) by (rewrite firstn_length; lia). rewrite E, app_length in Z. cbn [length] in Z. lia. }
    rewrite Hpre in Hc.
    destruct (reader_breaks data dfr (length pre) (FFail :: q) ns Hd Hc) as (k & Hk & Hr).
    { right. exists q. split; [reflexivity|]. rewrite <- Hpre. exact Hs. }
    exists k. split; [lia|]. rewrite <- Hpre in Hr. rewrite E. exact Hr.
Qed.

Lemma clean_valid : forall bl id, wsz bl -> clean id (map FData bl).
Proof. induction bl as [|x t IH]; intros id H; [exact I|]. inversion H; subst. cbn [map clean]. split; [assumption|apply IH; assumption]. Qed.

(* what is handed out before a break is a prefix of what the intact stream would give *)
Lemma range_bytes_prefix data p : exists m, range_bytes (firstn p data) = firstn m (range_bytes data).
Proof.
  unfold range_bytes, range_bytes_at. set (lo := ((N.to_nat from - 1 - 0) * b)%nat).
  rewrite skipn_firstn_comm, firstn_firstn, firstn_length.
  destruct (to =? 0).
  - exists (Nat.min (Nat.min p (length data) - lo) (p - lo)). rewrite firstn_firstn. f_equal. lia.
  - set (hi := ((N.to_nat to - 1 - 0) * b)%nat). exists (Nat.min (hi - lo) (p - lo)). rewrite firstn_firstn. f_equal. lia.
Qed.

Lemma range_bytes_length data : (length (range_bytes data) <= length data)%nat.
Proof. unfold range_bytes, range_bytes_at. rewrite firstn_length, skipn_length. lia. Qed.

(* an error, once returned, is returned by every later call, with no byte *)
Lemma spec_reads_g_sticky : forall ns data e l1 x l2, spec_reads_g data e ns = l1 ++ x :: l2 -> snd x = RErr ->
  Forall (fun y => y = ([], RErr)) l2.
Proof.
  induction ns as [|k r IH]; intros data e l1 x l2 H Hx; cbn [spec_reads_g] in H.
  - destruct l1; discriminate.
  - destruct (failing e data k) eqn:Ef.
    + assert (HF : Forall (fun y : list N * rres => y = ([], RErr)) (map (fun _ : N => (@nil N, RErr)) r)).
      { clear. induction r; cbn [map]; constructor; auto. }
      destruct l1 as [|y l1]; cbn [app] in H; inversion H as [[H1 H2]]; subst.
      * exact HF.
      * rewrite H2 in HF. apply Forall_app in HF. destruct HF as [_ HF]. inversion HF; assumption.
    + destruct l1 as [|y l1]; cbn [app] in H; inversion H as [[H1 H2]].
      * subst x. cbn [snd] in Hx. unfold eof_result in Hx. destruct ((k =? k) && (0 <? k) && match data with [] => true | _ :: _ => false end); discriminate.
      * eapply IH; eauto.
Qed.

End G.
