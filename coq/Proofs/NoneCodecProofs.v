(* The NONE entropy codec (entropy/NullEntropyCodec.go: the block written as arrays of at most 2^23 bytes, read
   back the same way), at any position of a stream. *)
From Coq Require Import List NArith ZArith Lia Bool ZifyN ZifyNat ZifyBool.
From KV Require Import Model.OutBS Model.InBS Model.Container Lib.Bits Proofs.OutBSProofs Proofs.BinCoderProofs
  Proofs.InBSProofs Proofs.MirrorProofs Proofs.ArrayProofs Proofs.ReadArrayProofs Proofs.MirrorArrayProofs Proofs.ContainerProofs.
Import ListNotations.
Open Scope N_scope.
Ltac Zify.zify_post_hook ::= idtac.

Definition h0 : list N -> N := fun _ => 0.
Lemma h0a : 0 <= 2. Proof. lia. Qed.
Lemma h0b : 0 = 1 -> forall l, h0 l < 2 ^ 32. Proof. discriminate. Qed.
Lemma h0c : 0 = 2 -> forall l, h0 l < 2 ^ 64. Proof. discriminate. Qed.

Theorem none_codec_roundtrip wbuf rbuf sched b rest :
  bytes_ok b -> 40 <= wbuf -> wbuf mod 8 = 0 -> 0 < rbuf -> rbuf mod 8 = 0 -> Forall aop_ok rest ->
  let ops := map conv (null_chunks (nfuel b) b) in
  exists s1 s2 s', run_aops (new_obs wbuf) (ops ++ rest) = (s1, false) /\ close healthy s1 = (s2, false) /\
    null_read (nfuel b) (new_ibs rbuf (mkSrc (o_out s2) sched None 0)) (N.of_nat (length b)) [] = (s', Some b) /\
    run_arops s' (arops_of rest) = avals_of rest.
Proof.
  intros Hb Hw Hw8 Hr Hr8 Hrest ops.
  destruct (null_chunks_ok h0 0 h0a h0b h0c (nfuel b) b Hb (nfuel_enough h0 0 h0a h0b h0c b)) as [Hops _]. fold ops in Hops.
  assert (Hall : Forall aop_ok (ops ++ rest)) by (apply Forall_app; split; assumption).
  destruct (array_image wbuf _ Hw Hw8 Hall) as (s1 & s2 & pad & V & L & E1 & E2 & EV & Hcl & Hpad & Hlen & Himg & _).
  exists s1, s2.
  assert (Hob : bytes_ok (o_out s2)).
  { eapply close_obok; [|exact E2]. eapply run_aops_obok; [|exact Hall|exact E1]. split; constructor. }
  destruct (new_ibs_ra rbuf (o_out s2) sched Hr Hr8 Hob) as (R0 & U0 & T0). cbv zeta in R0, U0, T0.
  rewrite fold_abvs in EV. cbn [fst snd] in EV. rewrite N.mul_0_l, !N.add_0_l in EV. injection EV as EV1 EV2.
  destruct (null_rw h0 0 h0a h0b h0c (nfuel b) b _ [] rest pad 0 (nfuel_enough h0 0 h0a h0b h0c b) R0 Hb Hrest (pow2_pos pad)
              ltac:(rewrite U0, Himg, EV1; fold ops; lia) ltac:(rewrite T0, Hlen, EV2; fold ops; reflexivity)) as (s' & Ed & R' & U' & T').
  exists s'. split; [exact E1|]. split; [exact E2|]. split; [exact Ed|].
  destruct (arops_ok rest Hrest) as [Haok Hsz].
  rewrite (array_reader_program _ _ R' Haok) by (rewrite Hsz, T'; lia).
  rewrite U', T'. apply spec_on_abvs; [exact Hrest|apply pow2_pos].
Qed.
