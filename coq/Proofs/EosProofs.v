(* Accounting for the reader: an operation that succeeds has consumed exactly its number of bits of real
   data, so a request that exceeds what is left never succeeds - ReadBit, ReadBits and ReadArray past the
   end of the data panic on every path (C09, C14); nothing is ever made up. *)
From Coq Require Import List NArith ZArith Lia Bool Arith ZifyN ZifyNat ZifyBool.
From KV Require Import Model.OutBS Model.InBS Lib.Bits Proofs.BinCoderProofs Proofs.InBSProofs Proofs.ReadArrayProofs.
Import ListNotations.
Open Scope N_scope.
Ltac Zify.zify_post_hook ::= idtac.
Local Arguments N.pow : simpl never.
Local Arguments N.mul : simpl never.
Local Arguments N.add : simpl never.
Local Arguments N.sub : simpl never.
Local Arguments N.div : simpl never.
Local Arguments N.shiftr : simpl never.

Lemma read_bits_acc s c s' v : RA s -> 1 <= c <= 64 -> read_bits s c = (s', Val v) ->
  c <= total s /\ RA s' /\ total s = total s' + c.
Proof.
  intros HR Hc E. destruct (N.le_gt_cases c (total s)) as [Hle|Hgt].
  - destruct (rd s c HR Hc Hle) as (s1 & E1 & R1 & T1 & _). rewrite E1 in E. inversion E; subst. split; [exact Hle|]. split; [exact R1|lia].
  - destruct (read_bits_eos 66 s c (ra_a s HR) Hc Hgt) as (s1 & e & E1). unfold read_bits in E. rewrite E1 in E. discriminate.
Qed.

(* ---------- the byte loops ---------- *)
Lemma rbw_false_acc : forall fuel s rem acc s' acc' rem', RA s -> rem < 8 * N.of_nat fuel ->
  read_bytes_while false fuel s rem acc = (s', None, acc', rem') ->
  RA s' /\ rem' <= rem /\ total s = total s' + (rem - rem') /\ rem' < 8.
Proof.
  induction fuel as [|f IH]; intros s rem acc s' acc' rem' HR Hf E; [lia|].
  cbn [read_bytes_while] in E. cbn [andb orb] in E. destruct (rem <? 8) eqn:E8.
  - apply N.ltb_lt in E8. inversion E; subst. split; [exact HR|]. split; [lia|]. split; [lia|exact E8].
  - apply N.ltb_ge in E8. destruct (read_bits s 8) as [s1 [v|e]] eqn:E1; [|discriminate].
    destruct (read_bits_acc s 8 s1 v HR ltac:(lia) E1) as (_ & R1 & T1).
    destruct (IH s1 (rem - 8) (acc ++ [v]) s' acc' rem' R1 ltac:(lia) E) as (R' & L' & T' & X'). split; [exact R'|]. split; [lia|]. split; [lia|exact X'].
Qed.

Lemma rbw_true_acc : forall fuel s rem acc s' acc' rem', RA s -> i_avail s mod 8 = 0 -> i_avail s < 8 * N.of_nat fuel ->
  read_bytes_while true fuel s rem acc = (s', None, acc', rem') ->
  RA s' /\ rem' <= rem /\ total s = total s' + (rem - rem') /\ (i_avail s' = 0 \/ rem' < 8).
Proof.
  induction fuel as [|f IH]; intros s rem acc s' acc' rem' HR Ha8 Hf E; [lia|].
  cbn [read_bytes_while] in E. cbn [andb] in E. destruct ((i_avail s =? 0) || (rem <? 8)) eqn:Ec.
  - inversion E; subst. split; [exact HR|]. split; [lia|]. split; [lia|].
    apply orb_true_iff in Ec. destruct Ec as [X|X]; [left; apply N.eqb_eq; exact X|right; apply N.ltb_lt; exact X].
  - apply orb_false_iff in Ec. destruct Ec as [Ea Er]. apply N.eqb_neq in Ea. apply N.ltb_ge in Er.
    assert (Ha : 8 <= i_avail s).
    { pose proof (N.div_mod (i_avail s) 8 ltac:(discriminate)) as X. rewrite Ha8 in X. lia. }
    destruct (read_bits s 8) as [s1 [v|e]] eqn:E1; [|discriminate].
    destruct (read_bits_acc s 8 s1 v HR ltac:(lia) E1) as (_ & R1 & T1).
    assert (Hav1 : i_avail s1 = i_avail s - 8).
    { unfold read_bits in E1. cbn [read_bits_f] in E1. change ((8 =? 0) || (64 <? 8)) with false in E1. cbv iota in E1.
      replace (8 <=? i_avail s) with true in E1 by (symmetry; apply N.leb_le; exact Ha). inversion E1; subst. reflexivity. }
    destruct (IH s1 (rem - 8) (acc ++ [v]) s' acc' rem' R1) as (R' & L' & T' & X').
    { rewrite Hav1. pose proof (N.div_mod (i_avail s) 8 ltac:(discriminate)) as X. rewrite Ha8 in X.
      replace (i_avail s - 8) with (8 * (i_avail s / 8 - 1)) by (clear - X Ha; lia). rewrite N.mul_comm. apply N.mod_mul. discriminate. }
    { rewrite Hav1. clear - Hf Ha. lia. }
    { exact E. }
    split; [exact R'|]. split; [lia|]. split; [lia|]. destruct X' as [X|X]; [left; exact X|right; exact X].
Qed.

(* ---------- unaligned cursor ---------- *)
Definition J (r : N) (s : ibs) : Prop := i_avail s = 64 - r \/ rest_bytes s = [].

Lemma step64_acc s r s' w : RA s -> 1 <= r <= 63 -> J r s -> step64 r s = (s', Val w) ->
  RA s' /\ J r s' /\ total s = total s' + 64.
Proof.
  intros HR Hr HJ E. pose proof HR as [HA HAL Hs8]. pose proof HA as [HI Hav Hcur].
  destruct (pull_spec s HI) as [(Hre & s9 & e9 & E9)|(Hre & s9 & k & Hk & Hkl & E9 & HI9 & Hr9 & Ha9 & Hc9)].
  - unfold step64 in E. rewrite E9 in E. discriminate.
  - destruct HJ as [Hav64|Hemp]; [|contradiction].
    assert (Hsucc : r <= 8 * N.of_nat k).
    { unfold step64 in E. rewrite E9 in E. destruct (8 * N.of_nat k <? r) eqn:X; [discriminate|]. apply N.ltb_ge in X. exact X. }
    assert (Ht : 64 <= total s) by (unfold total, nb; rewrite Hav64; lia).
    rewrite (step64_eq s r HR Hr Hav64 Ht) in E.
    destruct (read_bits_acc s 64 s' w HR ltac:(lia) E) as (_ & R' & T'). split; [exact R'|]. split; [|exact T'].
    (* the accumulator after the step *)
    rewrite <- (step64_eq s r HR Hr Hav64 Ht) in E. unfold step64 in E. rewrite E9 in E.
    destruct (8 * N.of_nat k <? r); [discriminate|]. inversion E; subst s'.
    destruct (pull_both s s9 _ _ HI HAL Hs8 E9) as (_ & _ & _ & Hpart).
    destruct Hpart as [X|X]; [left; cbn [set_iacc i_avail]; rewrite X; reflexivity|right; exact X].
Qed.

Lemma steps_acc r : 1 <= r <= 63 -> forall n s acc s' acc', RA s -> J r s -> steps r n s acc = (s', None, acc') ->
  RA s' /\ J r s' /\ total s = total s' + 64 * N.of_nat n.
Proof.
  intros Hr. induction n as [|n IH]; intros s acc s' acc' HR HJ E; cbn [steps] in E.
  - inversion E; subst. split; [exact HR|]. split; [exact HJ|]. lia.
  - destruct (step64 r s) as [s1 [w|e]] eqn:E1; [|discriminate].
    destruct (step64_acc s r s1 w HR Hr HJ E1) as (R1 & J1 & T1).
    destruct (IH s1 _ s' acc' R1 J1 E) as (R' & J' & T'). split; [exact R'|]. split; [exact J'|]. lia.
Qed.

Lemma uloop64_acc r : 1 <= r <= 63 -> forall fuel s rem acc s' acc' rem', RA s -> J r s ->
  uloop64 fuel r s rem acc = (s', None, acc', rem') ->
  RA s' /\ rem' <= rem /\ total s = total s' + (rem - rem') /\ (rem < 64 * N.of_nat fuel -> rem' < 64).
Proof.
  intros Hr. induction fuel as [|f IH]; intros s rem acc s' acc' rem' HR HJ E; cbn [uloop64] in E.
  - inversion E; subst. split; [exact HR|]. split; [lia|]. split; [lia|]. cbn [N.of_nat]. lia.
  - destruct (64 <=? rem) eqn:E64.
    2:{ apply N.leb_gt in E64. inversion E; subst. split; [exact HR|]. split; [lia|]. split; [lia|]. intros _. exact E64. }
    apply N.leb_le in E64. destruct (step64 r s) as [s1 [w|e]] eqn:E1; [|discriminate].
    destruct (step64_acc s r s1 w HR Hr HJ E1) as (R1 & J1 & T1).
    destruct (IH s1 (rem - 64) _ s' acc' rem' R1 J1 E) as (R' & L' & T' & X'). split; [exact R'|]. split; [lia|]. split; [lia|].
    intros Hf. apply X'. lia.
Qed.

Lemma uloop256_acc r : 1 <= r <= 63 -> forall fuel s rem acc s' acc' rem', RA s -> J r s ->
  uloop256 fuel r (64 - r) s rem acc = (s', None, acc', rem') ->
  RA s' /\ J r s' /\ rem' <= rem /\ total s = total s' + (rem - rem').
Proof.
  intros Hr. induction fuel as [|f IH]; intros s rem acc s' acc' rem' HR HJ E; cbn [uloop256] in E.
  - inversion E; subst. split; [exact HR|]. split; [exact HJ|]. lia.
  - destruct (256 <=? rem) eqn:E256.
    2:{ inversion E; subst. split; [exact HR|]. split; [exact HJ|]. lia. }
    apply N.leb_le in E256. destruct (i_max1 s <=? i_pos s + 32) eqn:Eb.
    + destruct (step64 r s) as [s1 [w|e]] eqn:E1; [|discriminate].
      destruct (step64_acc s r s1 w HR Hr HJ E1) as (R1 & J1 & T1).
      destruct (IH s1 (rem - 64) _ s' acc' rem' R1 J1 E) as (R' & J' & L' & T'). split; [exact R'|]. split; [exact J'|]. lia.
    + apply N.leb_gt in Eb.
      assert (Hav : i_avail s = 64 - r).
      { destruct HJ as [X|X]; [exact X|]. exfalso. unfold rest_bytes in X. apply app_eq_nil in X. destruct X as [X _].
        apply (f_equal (@length N)) in X. rewrite skipn_length in X. cbn [length] in X. unfold i_max1 in Eb. lia. }
      pose proof (direct4 s r acc Eb Hr Hav) as Hd. cbv zeta in Hd. cbv zeta in E.
      match type of Hd with steps r 4 s acc = (?sx, None, ?ax) =>
        destruct (steps_acc r Hr 4 s acc sx ax HR HJ Hd) as (R1 & J1 & T1) end.
      change (64 * N.of_nat 4) with 256 in T1.
      destruct (IH _ (rem - 256) _ s' acc' rem' R1 J1 E) as (R' & J' & L' & T').
      split; [exact R'|]. split; [exact J'|]. split; [lia|]. lia.
Qed.

(* ---------- aligned cursor ---------- *)
Lemma total_set_pos s (k : nat) : N.of_nat k <= i_max1 s - i_pos s ->
  total s = total (set_ipos s (i_pos s + N.of_nat k)) + 8 * N.of_nat k.
Proof.
  intros Hk. destruct (rest_set_pos s k Hk) as [Hr _]. unfold total, nb. rewrite Hr, skipn_length.
  change (i_avail (set_ipos s (i_pos s + N.of_nat k))) with (i_avail s).
  assert (k <= length (rest_bytes s))%nat.
  { unfold rest_bytes. rewrite app_length, skipn_length. unfold i_max1 in Hk. lia. }
  lia.
Qed.

Lemma bulk_acc : forall fuel s rem acc s' acc' rem', RA s -> i_avail s = 0 ->
  N.shiftr rem 3 + (if i_max1 s - i_pos s =? 0 then 1 else 0) < N.of_nat fuel ->
  bulk_read fuel s rem acc = (s', None, acc', rem') ->
  RA s' /\ i_avail s' = 0 /\ rem' <= rem /\ total s = total s' + (rem - rem') /\ N.shiftr rem' 3 <= i_max1 s' - i_pos s'.
Proof.
  induction fuel as [|f IH]; intros s rem acc s' acc' rem' HR Ha Hfu E; [lia|].
  cbn [bulk_read] in E. set (ab := i_max1 s - i_pos s) in *.
  destruct (ab <? N.shiftr rem 3) eqn:Ec.
  2:{ apply N.ltb_ge in Ec. inversion E; subst. split; [exact HR|]. split; [exact Ha|]. split; [lia|]. split; [lia|exact Ec]. }
  apply N.ltb_lt in Ec. pose proof HR as [HA HAL Hs8]. pose proof HA as [HI Hav Hcur].
  assert (Hsh : N.shiftr rem 3 = rem / 8) by (rewrite N.shiftr_div_pow2; reflexivity).
  set (chunk := skipn (N.to_nat (i_pos s)) (i_buf s)) in *.
  assert (Hpos : i_pos s <= i_max1 s) by apply HI.
  assert (Hcl : N.of_nat (length chunk) = ab) by (unfold chunk, ab, i_max1 in *; rewrite skipn_length; lia).
  set (s1 := set_ipos s (i_max1 s)) in *.
  assert (Hs1e : s1 = set_ipos s (i_pos s + N.of_nat (length chunk))) by (unfold s1; f_equal; rewrite Hcl; unfold ab; lia).
  (* the refill succeeded, so the source was not exhausted and the buffer held whole words *)
  assert (HI1 : IInv s1).
  { destruct HI as [Ho Hs Hp Hpp Hb Hsz]. unfold s1. constructor; cbn [set_ipos i_closed i_src i_pending i_pos i_buf i_size]; try assumption.
    unfold i_max1. cbn [set_ipos i_buf]. apply N.le_refl. }
  assert (Hp1 : i_pos s1 = i_max1 s1) by reflexivity.
  change (i_size s1) with (i_size s) in E.
  destruct (refill_spec s1 HI1 Hp1) as [(Hd & s9 & e9 & E9)|(Hsrc & s2 & E2 & HI2 & Hp0 & Hne & Hr2 & Ha2 & Hc2)].
  { change (i_size s1) with (i_size s) in E9. rewrite E9 in E. discriminate. }
  change (i_size s1) with (i_size s) in E2. rewrite E2 in E.
  assert (Hal8 : ab mod 8 = 0) by (destruct HAL as [H|H]; [exact H|contradiction]).
  assert (HR1 : RA s1) by (apply ra_set_pos; [exact HR|lia|exact Hal8]).
  pose proof (refill_aligned s1 s2 HI1 Hp1 Hs8 E2) as Hal2.
  pose proof (refill_size s1 s2 None E2) as Hsz2.
  assert (HR2 : RA s2).
  { constructor; [constructor; [exact HI2|rewrite Ha2; exact Hav|rewrite Hc2; exact Hcur]| |rewrite Hsz2; exact Hs8].
    unfold AL. rewrite Hp0, N.sub_0_r. unfold i_max1. exact Hal2. }
  destruct (same_rest s1 s2 Hr2 Ha2 Hc2) as [_ ET2].
  pose proof (total_set_pos s (length chunk) ltac:(rewrite Hcl; fold ab; lia)) as Ht1. rewrite <- Hs1e, Hcl in Ht1.
  assert (Ha20 : i_avail s2 = 0) by (rewrite Ha2; exact Ha).
  pose proof (N.div_mod rem 8 ltac:(discriminate)) as Yr. pose proof (N.mod_lt rem 8 ltac:(discriminate)) as Zr.
  destruct (IH s2 (rem - 8 * ab) (acc ++ chunk) s' acc' rem' HR2 Ha20) as (R' & A' & L' & T' & X').
  { rewrite Hp0, N.sub_0_r. assert (Hm2 : 1 <= i_max1 s2) by (unfold i_max1; destruct (i_buf s2); [congruence|cbn [length]; lia]).
    replace (i_max1 s2 =? 0) with false by (symmetry; apply N.eqb_neq; lia). rewrite N.shiftr_div_pow2. change (2 ^ 3) with 8. rewrite Hsh in Hfu, Ec.
    destruct (ab =? 0) eqn:E0.
    - apply N.eqb_eq in E0. rewrite E0, N.mul_0_r, N.sub_0_r. clear - Hfu. lia.
    - apply N.eqb_neq in E0.
      assert (H : (rem - 8 * ab) / 8 = rem / 8 - ab).
      { symmetry. apply (N.div_unique (rem - 8 * ab) 8 (rem / 8 - ab) (rem mod 8)); [exact Zr|]. clear - Yr Ec. lia. }
      rewrite H. clear - Hfu E0 Ec. lia. }
  { exact E. }
  rewrite Hsh in Ec.
  split; [exact R'|]. split; [exact A'|]. split; [lia|]. split; [|exact X']. rewrite ET2 in T'. lia.
Qed.

(* the tail: whole bytes, then the last bits *)
Lemma tail_acc fuel s rem acc s' l : RA s -> rem < 8 * N.of_nat fuel ->
  (match read_bytes_while false fuel s rem acc with
   | (s2, Some e, _, _) => (s2, Pan e)
   | (s2, None, acc2, rem2) =>
       if 0 <? rem2 then
         match read_bits s2 rem2 with
         | (s3, Pan e) => (s3, Pan e)
         | (s3, Val v) => (s3, Val (acc2 ++ [N.land (N.shiftl v (8 - rem2)) 255]))
         end
       else (s2, Val acc2)
   end) = (s', Val l) ->
  RA s' /\ total s = total s' + rem.
Proof.
  intros HR Hf E. destruct (read_bytes_while false fuel s rem acc) as [[[s2 [e|]] acc2] rem2] eqn:E2; [discriminate|].
  destruct (rbw_false_acc fuel s rem acc s2 acc2 rem2 HR Hf E2) as (R2 & L2 & T2 & X2).
  destruct (0 <? rem2) eqn:E0.
  - apply N.ltb_lt in E0. destruct (read_bits s2 rem2) as [s3 [v|e]] eqn:E3; [|discriminate]. inversion E; subst s3.
    destruct (read_bits_acc s2 rem2 s' v R2 ltac:(lia) E3) as (_ & R3 & T3). split; [exact R3|lia].
  - apply N.ltb_ge in E0. inversion E; subst. split; [exact R2|lia].
Qed.

Theorem read_array_acc s count s' l : RA s -> 0 < count -> read_array s count = (s', Val l) ->
  count <= total s /\ RA s' /\ total s = total s' + count.
Proof.
  intros HR Hc0 E. pose proof HR as [HA HAL Hs8]. pose proof HA as [HI Hav Hcur].
  unfold read_array in E. rewrite (ii_open s HI) in E. replace (count =? 0) with false in E by (symmetry; apply N.eqb_neq; lia).
  set (fuel := S (S (N.to_nat (count / 8)))) in *.
  assert (Hfuel : count < 8 * N.of_nat fuel).
  { unfold fuel. rewrite !Nat2N.inj_succ, N2Nat.id. pose proof (N.div_mod count 8 ltac:(discriminate)). pose proof (N.mod_lt count 8 ltac:(discriminate)). lia. }
  cut (RA s' /\ total s = total s' + count); [intros [A B]; split; [lia|split; assumption]|].
  destruct (N.land (i_avail s) 7 =? 0) eqn:Eal.
  - apply N.eqb_eq in Eal. rewrite land7 in Eal.
    (* the optional pull *)
    assert (Hstart : forall s0 e0, (if i_avail s =? 0
                                 then match pull s with (s', Val (c, a)) => (set_iacc s' a c, None) | (s', Pan e) => (s', Some e) end
                                 else (s, None)) = (s0, e0) -> e0 = None -> RA s0 /\ total s0 = total s /\ i_avail s0 mod 8 = 0 /\ i_avail s0 < 72).
    { intros s0 e0 Es En. destruct (i_avail s =? 0) eqn:E0.
      - apply N.eqb_eq in E0. destruct (pull_spec s HI) as [(_ & s9 & e9 & E9)|(Hne & s9 & k & Hk & _ & E9 & _)]; rewrite E9 in Es; [inversion Es; subst; discriminate|].
        destruct (pull_fill s HA E0 Hne) as (s1 & c & a & Ep & HA2 & Ha8 & Ht2 & Hu2). rewrite E9 in Ep. injection Ep as <- <- <-.
        destruct (pull_both s s9 _ _ HI HAL Hs8 E9) as (_ & HAL1 & Hsz1 & _). inversion Es; subst s0.
        split; [constructor; [exact HA2|exact HAL1|change (i_size (set_iacc s9 (8 * N.of_nat k) (be_val (firstn k (rest_bytes s))))) with (i_size s9); rewrite Hsz1; exact Hs8]|].
        split; [exact Ht2|]. cbn [set_iacc i_avail]. split; [rewrite N.mul_comm; apply N.mod_mul; discriminate|clear - Hk; lia].
      - inversion Es; subst. split; [exact HR|]. split; [reflexivity|]. split; [exact Eal|lia]. }
    destruct (if i_avail s =? 0 then match pull s with (s', Val (c, a)) => (set_iacc s' a c, None) | (s', Pan e) => (s', Some e) end else (s, None)) as [s0 e0] eqn:Es0.
    destruct e0 as [e|]; [discriminate|].
    destruct (Hstart s0 None eq_refl eq_refl) as (R0 & T0 & A80 & A72).
    destruct (read_bytes_while true 9 s0 count []) as [[[sa [e|]] acca] rem1] eqn:Ea; [discriminate|].
    destruct (rbw_true_acc 9 s0 count [] sa acca rem1 R0 A80 ltac:(exact A72) Ea) as (Ra & La & Ta & Xa).
    destruct (N.eq_dec (i_avail sa) 0) as [Eva|Eva].
    + destruct (bulk_read fuel sa rem1 acca) as [[[sb [e|]] accb] rem2] eqn:Eb; [discriminate|].
      destruct (bulk_acc fuel sa rem1 acca sb accb rem2 Ra Eva) as (Rb & Avb & Lb & Tb & Xb).
      { unfold fuel. rewrite !Nat2N.inj_succ, N2Nat.id, N.shiftr_div_pow2. change (2 ^ 3) with 8.
        assert (rem1 / 8 <= count / 8) by (apply N.div_le_mono; [discriminate|lia]).
        destruct (i_max1 sa - i_pos sa =? 0); lia. }
      { exact Eb. }
      set (kN := 8 * N.shiftr rem2 6) in *.
      assert (Hk3 : kN <= N.shiftr rem2 3 /\ kN mod 8 = 0 /\ 8 * kN <= rem2).
      { unfold kN. rewrite !N.shiftr_div_pow2. change (2 ^ 6) with 64. change (2 ^ 3) with 8.
        pose proof (N.div_mod rem2 64 ltac:(discriminate)). pose proof (N.mod_lt rem2 64 ltac:(discriminate)).
        split; [|split; [rewrite N.mul_comm; apply N.mod_mul; discriminate|lia]].
        apply N.div_le_lower_bound; [discriminate|]. lia. }
      destruct Hk3 as (Hk3a & Hk3b & Hk3c).
      destruct (0 <? kN) eqn:Ek.
      * set (k := N.to_nat kN).
        assert (Hkk : N.of_nat k <= i_max1 sb - i_pos sb) by (unfold k; rewrite N2Nat.id; clear - Hk3a Xb; lia).
        replace (i_pos sb + kN) with (i_pos sb + N.of_nat k) in E by (unfold k; rewrite N2Nat.id; reflexivity).
        set (sc := set_ipos sb (i_pos sb + N.of_nat k)) in *.
        assert (HRc : RA sc).
        { apply ra_set_pos; [exact Rb| |].
          - pose proof (ii_pos sb (ai_i sb (ra_a sb Rb))) as H. clear - Hkk H. lia.
          - replace (i_pos sb + N.of_nat k - i_pos sb) with kN by (unfold k; rewrite N2Nat.id; clear; lia). exact Hk3b. }
        pose proof (total_set_pos sb k Hkk) as Tc. fold sc in Tc.
        destruct (tail_acc fuel sc (rem2 - 8 * kN) _ s' l HRc ltac:(clear - Hfuel La Lb; lia) E) as (R' & T').
        split; [exact R'|]. unfold k in Tc. rewrite N2Nat.id in Tc. lia.
      * apply N.ltb_ge in Ek.
        destruct (tail_acc fuel sb rem2 _ s' l Rb ltac:(clear - Hfuel La Lb; lia) E) as (R' & T').
        split; [exact R'|]. lia.
    + assert (Hr8 : rem1 < 8) by (destruct Xa as [X|X]; [congruence|exact X]).
      unfold fuel at 1 in E. rewrite (bulk_read_small _ sa rem1 acca Hr8) in E.
      assert (Hk0 : 8 * N.shiftr rem1 6 = 0) by (rewrite N.shiftr_div_pow2; change (2 ^ 6) with 64; rewrite N.div_small by lia; reflexivity).
      rewrite Hk0 in E. cbn [N.ltb N.compare] in E.
      destruct (tail_acc fuel sa rem1 _ s' l Ra ltac:(clear - Hfuel La; lia) E) as (R' & T').
      split; [exact R'|]. lia.
  - apply N.eqb_neq in Eal. rewrite land7 in Eal.
    set (r := 64 - i_avail s) in *.
    assert (Hr : 1 <= r <= 63).
    { unfold r. assert (i_avail s <> 0) by (intros X; rewrite X in Eal; apply Eal; reflexivity).
      assert (i_avail s <> 64) by (intros X; rewrite X in Eal; apply Eal; reflexivity). lia. }
    assert (Hav' : i_avail s = 64 - r) by (unfold r; clear - Hav; lia).
    cbv zeta in E. fold r in E.
    replace (uloop256 fuel r (i_avail s) s count []) with (uloop256 fuel r (64 - r) s count []) in E by (rewrite <- Hav'; reflexivity).
    destruct (uloop256 fuel r (64 - r) s count []) as [[[sa [e|]] acca] rem1] eqn:Ea; [discriminate|].
    destruct (uloop256_acc r Hr fuel s count [] sa acca rem1 HR (or_introl Hav') Ea) as (Ra & Ja & La & Ta).
    destruct (uloop64 fuel r sa rem1 acca) as [[[sb [e|]] accb] rem2] eqn:Eb; [discriminate|].
    destruct (uloop64_acc r Hr fuel sa rem1 acca sb accb rem2 Ra Ja Eb) as (Rb & Lb & Tb & _).
    destruct (tail_acc fuel sb rem2 _ s' l Rb ltac:(clear - Hfuel La Lb; lia) E) as (R' & T').
    split; [exact R'|]. lia.
Qed.

(* past the end: every read panics *)
Corollary read_array_eos s count : RA s -> total s < count -> exists s' e, read_array s count = (s', Pan e).
Proof.
  intros HR Ht. destruct (read_array s count) as [s' [l|e]] eqn:E; [|eexists; eexists; reflexivity].
  destruct (read_array_acc s count s' l HR ltac:(lia) E) as (H & _). lia.
Qed.
