(* I/O failures are never swallowed (C08): the part that is logic.

   Part A (output bit stream, ANY fault function of the sink):
     - a call during which the sink rejected a write returns the error ([*_reports]);
     - a run in which no call reported an error took exactly the path of the fault-free run
       ([*_agree]), hence [sink_faults_never_swallowed]: whatever the sink does, if every
       WriteBit/WriteBits and the final Close reported success, the sink holds the complete
       byte image of the written bits.
   Part B (Writer, ANY set of failing encoding tasks, failing end marker, failing final flush):
     the same two facts at the level of Write/Close ([writer_success_means_complete],
     [task_failure_reported]). *)
From Coq Require Import List NArith ZArith Lia Bool ZifyN ZifyNat.
From KV Require Import Model.OutBS Lib.Bits Proofs.OutBSProofs Model.Writer Proofs.WriterProofs.
Import ListNotations.
Open Scope N_scope.

Ltac pj := cbn [o_closed o_written o_buf o_size o_avail o_cur o_out o_calls set_buf set_acc].

(* ====================== Part A: DefaultOutputBitStream ====================== *)
Section A.
Variable fail : N -> bool.

(* some sink call made between the two states was rejected *)
Definition rejected (s s' : obs) : Prop := exists k, o_calls s < k <= o_calls s' /\ fail k = true.

Lemma flush_agree s s' : flush fail s = (s', false) -> flush healthy s = (s', false).
Proof.
  unfold flush, healthy. destruct (o_closed s); [discriminate|]. destruct (0 <? o_pos s); [|auto].
  destruct (fail (o_calls s + 1)); [discriminate|auto].
Qed.

Lemma flush_reports s s' e : flush fail s = (s', e) -> rejected s s' -> e = true.
Proof.
  unfold flush. destruct (o_closed s); [intros H; inversion H; reflexivity|].
  destruct (0 <? o_pos s).
  - destruct (fail (o_calls s + 1)) eqn:Ef; intros H; inversion H; subst; [reflexivity|].
    intros (k & Hk & Hf). pj. cbn [o_calls] in Hk. assert (k = o_calls s + 1) by lia. subst k. congruence.
  - intros H; inversion H; subst. intros (k & Hk & _). lia.
Qed.

Lemma push_agree s v s' : push fail s v = (s', false) -> push healthy s v = (s', false).
Proof.
  unfold push. destruct (o_size s <? o_pos s + 8); [discriminate|].
  destruct (o_size (set_buf s (o_buf s ++ be8 v)) - 8 <=? o_pos (set_buf s (o_buf s ++ be8 v))); [apply flush_agree|auto].
Qed.

Lemma push_reports s v s' e : push fail s v = (s', e) -> rejected s s' -> e = true.
Proof.
  unfold push. destruct (o_size s <? o_pos s + 8); [intros H; inversion H; reflexivity|].
  destruct (o_size (set_buf s (o_buf s ++ be8 v)) - 8 <=? o_pos (set_buf s (o_buf s ++ be8 v))).
  - intros H R. eapply flush_reports; [exact H|]. exact R.
  - intros H; inversion H; subst. intros (k & Hk & _). pj. cbn [set_buf o_calls] in Hk. lia.
Qed.

Lemma write_bit_agree s b s' : write_bit fail s b = (s', false) -> write_bit healthy s b = (s', false).
Proof.
  unfold write_bit. destruct (o_avail s <=? 1); [|auto].
  destruct (push fail s (N.lor (o_cur s) (N.land b 1))) as [s1 [|]] eqn:E; [discriminate|].
  rewrite (push_agree _ _ _ E). auto.
Qed.

Lemma write_bit_reports s b s' e : write_bit fail s b = (s', e) -> rejected s s' -> e = true.
Proof.
  unfold write_bit. destruct (o_avail s <=? 1).
  - destruct (push fail s (N.lor (o_cur s) (N.land b 1))) as [s1 [|]] eqn:E; intros H; inversion H; subst; [reflexivity|].
    intros R. eapply push_reports; [exact E|]. exact R.
  - intros H; inversion H; subst. intros (k & Hk & _). cbn [set_acc o_calls] in Hk. lia.
Qed.

Lemma write_bits_agree s v c s' : write_bits fail s v c = (s', false) -> write_bits healthy s v c = (s', false).
Proof.
  unfold write_bits. destruct (64 <? c); [discriminate|]. destruct (o_avail s <=? c); [|auto].
  match goal with |- context [push fail ?a ?b] => destruct (push fail a b) as [s1 [|]] eqn:E end; [discriminate|].
  rewrite (push_agree _ _ _ E). auto.
Qed.

Lemma write_bits_reports s v c s' e : write_bits fail s v c = (s', e) -> rejected s s' -> e = true.
Proof.
  unfold write_bits. destruct (64 <? c); [intros H; inversion H; reflexivity|]. destruct (o_avail s <=? c).
  - match goal with |- context [push fail ?a ?b] => destruct (push fail a b) as [s1 [|]] eqn:E end;
      intros H; inversion H; subst; [reflexivity|].
    intros R. eapply push_reports; [exact E|]. exact R.
  - intros H; inversion H; subst. intros (k & Hk & _). cbn [set_acc o_calls] in Hk. lia.
Qed.

Lemma close_agree s s' : close fail s = (s', false) -> close healthy s = (s', false).
Proof.
  unfold close. destruct (o_closed s); [auto|].
  destruct (o_size s <? o_pos s + (64 - o_avail s + 7) / 8); [discriminate|].
  match goal with |- context [flush fail ?a] => destruct (flush fail a) as [s2 [|]] eqn:E end; [discriminate|].
  rewrite (flush_agree _ _ E). auto.
Qed.

Lemma close_reports s s' e : close fail s = (s', e) -> rejected s s' -> e = true.
Proof.
  unfold close. destruct (o_closed s); [intros H; inversion H; subst; intros (k & Hk & _); lia|].
  destruct (o_size s <? o_pos s + (64 - o_avail s + 7) / 8); [intros H; inversion H; reflexivity|].
  match goal with |- context [flush fail ?a] => destruct (flush fail a) as [s2 [|]] eqn:E end;
    intros H; inversion H; subst; [reflexivity|].
  intros (k & Hk & Hf). eapply flush_reports; [exact E|]. exists k. split; [|exact Hf]. cbn [o_calls] in Hk |- *. exact Hk.
Qed.

Definition run_wop_f (s : obs) (o : wop) : obs * bool :=
  match o with WBit b => write_bit fail s b | WBits v c => write_bits fail s v c end.

Fixpoint run_wops_f (s : obs) (ops : list wop) : obs * bool :=
  match ops with
  | [] => (s, false)
  | o :: t => match run_wop_f s o with (s1, true) => (s1, true) | (s1, false) => run_wops_f s1 t end
  end.

Lemma run_wops_agree : forall ops s s', run_wops_f s ops = (s', false) -> run_wops s ops = (s', false).
Proof.
  induction ops as [|o t IH]; intros s s' H; cbn [run_wops_f run_wops] in *; [exact H|].
  destruct (run_wop_f s o) as [s1 [|]] eqn:E; [discriminate|].
  assert (E' : run_wop s o = (s1, false)).
  { destruct o; cbn [run_wop_f run_wop] in *; [apply write_bit_agree|apply write_bits_agree]; exact E. }
  rewrite E'. apply IH; exact H.
Qed.

(* whatever the sink does: if no call reported an error, nothing is missing *)
Theorem sink_faults_never_swallowed bufsize ops s1 s2 : 16 <= bufsize -> Forall wop_ok ops ->
  run_wops_f (new_obs bufsize) ops = (s1, false) -> close fail s1 = (s2, false) ->
  exists pad V L, (V, L) = fold_left bv_app ops (0, 0) /\
    o_closed s2 = true /\ pad < 8 /\
    8 * N.of_nat (length (o_out s2)) = L + pad /\
    be_val (o_out s2) = V * 2 ^ pad /\
    written s2 = Z.of_N L.
Proof.
  intros Hb Hok H1 H2.
  destruct (writer_image bufsize ops Hb Hok) as (t1 & t2 & pad & V & L & E1 & E2 & R).
  rewrite (run_wops_agree _ _ _ H1) in E1. inversion E1; subst t1.
  rewrite (close_agree _ _ H2) in E2. inversion E2; subst t2.
  exists pad, V, L. exact R.
Qed.

End A.

(* ====================== Part B: Writer ====================== *)
Section B.
Variables (B jobs hint : N).
Hypothesis HB : 0 < B.
Hypothesis HJ : 0 < jobs.
Variable fails : N -> bool.
Notation nofail := (fun _ : N => false).

Lemma run_tasks_sticky : forall m t s s' x, w_cancel s = true -> run_tasks B fails m t s = (s', x) -> w_cancel s' = true.
Proof.
  induction m as [|m IH]; intros t s s' x Hc H; cbn [run_tasks] in H; [inversion H; subst; exact Hc|].
  destruct (N.min (w_avail s) B =? 0); [inversion H; subst; exact Hc|].
  rewrite Hc in H. eapply IH; [|exact H]. reflexivity.
Qed.

Lemma run_tasks_agree : forall m t s s' x, run_tasks B fails m t s = (s', x) -> w_cancel s' = false ->
  run_tasks B nofail m t s = (s', x).
Proof.
  induction m as [|m IH]; intros t s s' x H Hc; cbn [run_tasks] in *; [exact H|].
  destruct (N.min (w_avail s) B =? 0); [exact H|].
  destruct (w_cancel s) eqn:Ecs.
  - assert (X : w_cancel s' = true) by (eapply run_tasks_sticky; [|exact H]; reflexivity). congruence.
  - destruct (fails (w_blockid s + 1)).
    + assert (X : w_cancel s' = true) by (eapply run_tasks_sticky; [|exact H]; reflexivity). congruence.
    + apply IH; assumption.
Qed.

Lemma process_block_agree s s' : process_block B jobs hint fails s = (s', false) -> process_block B jobs hint nofail s = (s', false).
Proof.
  unfold process_block. destruct (w_cancel s); [discriminate|]. cbn [w_avail].
  destruct (w_avail s =? 0); [auto|].
  match goal with |- context [run_tasks B fails ?a ?b ?c] => destruct (run_tasks B fails a b c) as [s1 x] eqn:E end.
  intros H. injection H as H1 H2. subst s1. rewrite (run_tasks_agree _ _ _ _ _ E H2). rewrite H2. reflexivity.
Qed.

Lemma write_loop_agree : forall fuel s block done s' k,
  write_loop B jobs hint fails fuel s block done = (s', k, false) -> write_loop B jobs hint nofail fuel s block done = (s', k, false).
Proof.
  induction fuel as [|f IH]; intros s block done s' k H; cbn [write_loop] in *; [exact H|].
  destruct block as [|y q]; [exact H|].
  match goal with |- context [if ?c then _ else _] => destruct c end.
  - match goal with |- context [if ?c then _ else _] => destruct c end; [apply IH; exact H|].
    match type of H with context [process_block B jobs hint fails ?a] => destruct (process_block B jobs hint fails a) as [s2 [|]] eqn:E end; [discriminate|].
    rewrite (process_block_agree _ _ E). apply IH; exact H.
  - apply IH; exact H.
Qed.

Lemma w_write_agree s blk s' k : w_write B jobs hint fails s blk = (s', k, false) -> w_write B jobs hint nofail s blk = (s', k, false).
Proof. unfold w_write. destruct (w_closed s || w_closing s || w_cancel s); [discriminate|apply write_loop_agree]. Qed.

Lemma w_close_agree s mf ff s' : w_close B jobs hint fails s mf ff = (s', false) -> w_close B jobs hint nofail s false false = (s', false).
Proof.
  unfold w_close. destruct (w_closed s); [auto|]. destruct (w_finalized s).
  - destruct ff; [discriminate|auto].
  - destruct (w_closing s); [discriminate|].
    match goal with |- context [process_block B jobs hint fails ?a] => destruct (process_block B jobs hint fails a) as [s2 [|]] eqn:E end; [discriminate|].
    rewrite (process_block_agree _ _ E). destruct mf; [discriminate|]. destruct ff; [discriminate|auto].
Qed.

Fixpoint do_writes_f (s : wst) (ws : list (list N)) : wst * bool :=
  match ws with
  | [] => (s, true)
  | w :: r =>
      match w_write B jobs hint fails s w with
      | (s', k, err) => if err || negb (k =? N.of_nat (length w)) then (s', false) else do_writes_f s' r
      end
  end.

Lemma do_writes_agree : forall ws s s', do_writes_f s ws = (s', true) -> do_writes B jobs hint s ws = (s', true).
Proof.
  induction ws as [|w r IH]; intros s s' H; cbn [do_writes_f do_writes] in *; [exact H|].
  destruct (w_write B jobs hint fails s w) as [[s1 k] [|]] eqn:E; [discriminate|].
  rewrite (w_write_agree _ _ _ _ E). cbn [orb] in *. destruct (negb (k =? N.of_nat (length w))); [discriminate|].
  apply IH; exact H.
Qed.

(* whatever fails: if every Write returned its full length without error and Close returned nil,
   every block of the data was written, once, in order *)
Theorem writer_success_means_complete ws mf ff s1 s2 :
  do_writes_f (init_w jobs) ws = (s1, true) -> w_close B jobs hint fails s1 mf ff = (s2, false) ->
  w_closed s2 = true /\
  map snd (w_out s2) = chunks B (concat ws) /\
  map fst (w_out s2) = map (fun i => 1 + N.of_nat i) (seq 0 (length (w_out s2))).
Proof.
  intros H1 H2.
  destruct (writer_chunking B jobs hint HB HJ ws) as (t1 & t2 & E1 & E2 & R).
  rewrite (do_writes_agree _ _ _ H1) in E1. inversion E1; subst t1.
  rewrite (w_close_agree _ _ _ _ H2) in E2. inversion E2; subst t2. exact R.
Qed.

(* blocks are recorded as written only for tasks that did not fail *)
Definition out_ok (s : wst) : Prop := Forall (fun p => fails (fst p) = false) (w_out s).

Lemma run_tasks_out_ok : forall m t s s' x, out_ok s -> run_tasks B fails m t s = (s', x) -> out_ok s'.
Proof.
  induction m as [|m IH]; intros t s s' x Ho H; cbn [run_tasks] in H; [inversion H; subst; exact Ho|].
  destruct (N.min (w_avail s) B =? 0); [inversion H; subst; exact Ho|].
  destruct (w_cancel s).
  - eapply IH; [|exact H]. exact Ho.
  - destruct (fails (w_blockid s + 1)) eqn:Ef.
    + eapply IH; [|exact H]. exact Ho.
    + eapply IH; [|exact H]. unfold out_ok in *. cbn [w_out]. apply Forall_app. split; [exact Ho|]. constructor; [exact Ef|constructor].
Qed.

Lemma process_block_out_ok s s' e : out_ok s -> process_block B jobs hint fails s = (s', e) -> out_ok s'.
Proof.
  unfold process_block. intros Ho. destruct (w_cancel s); [intros H; inversion H; subst; exact Ho|]. cbn [w_avail].
  destruct (w_avail s =? 0); [intros H; inversion H; subst; exact Ho|].
  match goal with |- context [run_tasks B fails ?a ?b ?c] => destruct (run_tasks B fails a b c) as [s1 x] eqn:E end.
  intros H. inversion H; subst. eapply run_tasks_out_ok; [|exact E]. exact Ho.
Qed.

Lemma write_loop_out_ok : forall fuel s block done s' k e, out_ok s ->
  write_loop B jobs hint fails fuel s block done = (s', k, e) -> out_ok s'.
Proof.
  induction fuel as [|f IH]; intros s block done s' k e Ho H; cbn [write_loop] in H; [inversion H; subst; exact Ho|].
  destruct block as [|y q]; [inversion H; subst; exact Ho|].
  match type of H with context [if ?c then _ else _] => destruct c end.
  - match type of H with context [if ?c then _ else _] => destruct c end; [eapply IH; [|exact H]; exact Ho|].
    match type of H with context [process_block B jobs hint fails ?a] => destruct (process_block B jobs hint fails a) as [s2 [|]] eqn:E end.
    + inversion H; subst. eapply process_block_out_ok; [|exact E]. exact Ho.
    + eapply IH; [|exact H]. eapply process_block_out_ok; [|exact E]. exact Ho.
  - eapply IH; [|exact H]. exact Ho.
Qed.

Lemma do_writes_out_ok : forall ws s s' r, out_ok s -> do_writes_f s ws = (s', r) -> out_ok s'.
Proof.
  induction ws as [|w q IH]; intros s s' r Ho H; cbn [do_writes_f] in H; [inversion H; subst; exact Ho|].
  destruct (w_write B jobs hint fails s w) as [[s1 k] e] eqn:E.
  assert (Ho1 : out_ok s1).
  { unfold w_write in E. destruct (w_closed s || w_closing s || w_cancel s); [inversion E; subst; exact Ho|].
    eapply write_loop_out_ok; [|exact E]. exact Ho. }
  destruct (e || negb (k =? N.of_nat (length w))); [inversion H; subst; exact Ho1|]. eapply IH; [|exact H]. exact Ho1.
Qed.

Lemma w_close_out_ok s mf ff s' e : out_ok s -> w_close B jobs hint fails s mf ff = (s', e) -> out_ok s'.
Proof.
  unfold w_close. intros Ho. destruct (w_closed s); [intros H; inversion H; subst; exact Ho|]. destruct (w_finalized s).
  - destruct ff; intros H; inversion H; subst; exact Ho.
  - destruct (w_closing s); [intros H; inversion H; subst; exact Ho|].
    match goal with |- context [process_block B jobs hint fails ?a] => destruct (process_block B jobs hint fails a) as [s2 e2] eqn:E end.
    assert (Ho2 : out_ok s2) by (eapply process_block_out_ok; [|exact E]; exact Ho).
    destruct e2; [intros H; inversion H; subst; exact Ho2|].
    destruct mf; [intros H; inversion H; subst; exact Ho2|]. destruct ff; intros H; inversion H; subst; exact Ho2.
Qed.

(* a failing task of any block of the data is reported: not every call can have claimed success *)
Theorem task_failure_reported ws mf ff s1 s2 r e id :
  do_writes_f (init_w jobs) ws = (s1, r) -> w_close B jobs hint fails s1 mf ff = (s2, e) ->
  fails id = true -> (1 <= id <= N.of_nat (length (chunks B (concat ws)))) ->
  r = false \/ e = true.
Proof.
  intros H1 H2 Hf Hid. destruct r; [|left; reflexivity]. destruct e; [right; reflexivity|]. exfalso.
  destruct (writer_success_means_complete ws mf ff s1 s2 H1 H2) as (_ & Hd & Hi).
  assert (Ho : out_ok s2).
  { eapply w_close_out_ok; [|exact H2]. eapply do_writes_out_ok; [|exact H1]. constructor. }
  assert (Hl : length (w_out s2) = length (chunks B (concat ws))) by (rewrite <- Hd, map_length; reflexivity).
  assert (Hin : In id (map fst (w_out s2))).
  { rewrite Hi. apply in_map_iff. exists (N.to_nat id - 1)%nat. split; [lia|]. apply in_seq. lia. }
  apply in_map_iff in Hin. destruct Hin as (p & Hp & Hpin). unfold out_ok in Ho. rewrite Forall_forall in Ho.
  specialize (Ho p Hpin). congruence.
Qed.

End B.
