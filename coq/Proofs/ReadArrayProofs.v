(* ReadArray (C14): for every reachable state of the input bit stream, every chunk schedule of the
   source and every bit count, the fast paths of DefaultInputBitStream.ReadArray (byte loop, bulk
   copies out of the buffer with refills, the 256-bit and 64-bit combining loops, the tail) return
   exactly the next [count] bits of the stream, packed in bytes (the last one left-aligned). *)
From Coq Require Import List NArith ZArith Lia Bool ZifyN ZifyNat ZifyBool Ring.
From KV Require Import Model.OutBS Model.InBS Lib.Bits Proofs.OutBSProofs Proofs.BinCoderProofs Proofs.InBSProofs.
Import ListNotations.
Open Scope N_scope.

Ltac Zify.zify_post_hook ::= idtac.
Local Arguments N.pow : simpl never.
Local Arguments N.div : simpl never.
Local Arguments N.modulo : simpl never.
Local Arguments N.mul : simpl never.
Local Arguments N.sub : simpl never.
Local Arguments N.add : simpl never.
Local Arguments N.shiftr : simpl never.
Local Arguments N.shiftl : simpl never.
Local Arguments N.land : simpl never.
Local Arguments N.lor : simpl never.

(* ---------- partial words only at the end of the data ---------- *)
(* the unread part of the buffer is a whole number of words, or the source has nothing left *)
Definition AL (s : ibs) : Prop := (i_max1 s - i_pos s) mod 8 = 0 \/ src_data (i_src s) = [].

Lemma land7 x : N.land x 7 = x mod 8.
Proof. change 7 with (N.ones 3). apply N.land_ones. Qed.

Lemma refill_more_size : forall fuel src got count, src_ok src ->
  N.of_nat (length got) <= count -> (N.to_nat count <= fuel + length got)%nat ->
  let '(src', got', err) := refill_more fuel src got count in
  N.of_nat (length got') <= count /\
  (length got' = 0%nat \/ N.of_nat (length got') mod 8 = 0 \/ N.of_nat (length got') = count \/ src_data src' = []).
Proof.
  induction fuel as [|f IH]; intros src got count Hs Hle Hfu; cbn [refill_more].
  - split; [exact Hle|]. right. right. left. lia.
  - destruct ((0 <? N.of_nat (length got)) && negb (N.land (N.of_nat (length got)) 7 =? 0) && (N.of_nat (length got) <? count)) eqn:Ec.
    2:{ split; [exact Hle|]. apply andb_false_iff in Ec. destruct Ec as [Ec|Ec]; [apply andb_false_iff in Ec; destruct Ec as [Ec|Ec]|].
        - apply N.ltb_ge in Ec. left. lia.
        - apply negb_false_iff in Ec. apply N.eqb_eq in Ec. rewrite land7 in Ec. right. left. exact Ec.
        - apply N.ltb_ge in Ec. right. right. left. lia. }
    apply andb_true_iff in Ec. destruct Ec as [_ Ec]. apply N.ltb_lt in Ec.
    destruct (src_read_spec src (count - N.of_nat (length got)) Hs ltac:(lia)) as [(Hd & s' & E & Hs' & Hd')|(Hd & s' & n & E & Hs' & Hd' & Hn & Hnc)].
    + rewrite E. split; [exact Hle|]. right. right. right. exact Hd'.
    + rewrite E. destruct (firstn n (src_data src)) as [|y q] eqn:Ef.
      { exfalso. destruct (src_data src); [congruence|]. destruct n; [lia|discriminate]. }
      rewrite <- Ef.
      assert (Hfl : (1 <= length (firstn n (src_data src)) <= n)%nat).
      { rewrite firstn_length. destruct (src_data src) as [|d0 dt]; [congruence|]. cbn [length]. lia. }
      specialize (IH s' (got ++ firstn n (src_data src)) count Hs').
      rewrite app_length in IH. specialize (IH ltac:(lia) ltac:(lia)). exact IH.
Qed.

Lemma refill_aligned s s' : IInv s -> i_pos s = i_max1 s -> i_size s mod 8 = 0 ->
  read_from_source s (i_size s) = (s', None) -> N.of_nat (length (i_buf s')) mod 8 = 0 \/ src_data (i_src s') = [].
Proof.
  intros [Ho Hs Hp Hpos Hb Hsz] Hfull Hs8. unfold read_from_source. rewrite Ho.
  replace (i_size s =? 0) with false by (symmetry; apply N.eqb_neq; lia).
  destruct Hp as [Hp|[Hp Hd]]; rewrite Hp; [|discriminate].
  destruct (src_read_spec (i_src s) (i_size s) Hs Hsz) as [(Hd & s1 & E & Hs1 & Hd1)|(Hd & s1 & n & E & Hs1 & Hd1 & Hn & Hnc)]; rewrite E; [discriminate|].
  assert (Hfl : (1 <= length (firstn n (src_data (i_src s))) <= n)%nat).
  { rewrite firstn_length. destruct (src_data (i_src s)) as [|d0 dt]; [congruence|]. cbn [length]. lia. }
  pose proof (refill_more_size (N.to_nat (i_size s)) s1 (firstn n (src_data (i_src s))) (i_size s) Hs1 ltac:(lia) ltac:(lia)) as Hsize.
  destruct (refill_more (N.to_nat (i_size s)) s1 (firstn n (src_data (i_src s))) (i_size s)) as [[s2 got] err].
  destruct Hsize as [Hle Hcases]. destruct got as [|g0 gt] eqn:Eg; [discriminate|]. rewrite <- Eg in *.
  intros H. inversion H; subst s'. cbn [i_buf i_src].
  destruct Hcases as [H0|[H8|[Hc|He]]]; [rewrite Eg in H0; discriminate|left; exact H8|left; rewrite Hc; exact Hs8|right; exact He].
Qed.

(* pull keeps the alignment, and hands out a partial word only when the source is exhausted *)
Lemma pull_aligned s s' c a : IInv s -> AL s -> i_size s mod 8 = 0 -> pull s = (s', Val (c, a)) ->
  AL s' /\ (a = 64 \/ (src_data (i_src s') = [] /\ i_pos s' = i_max1 s')) /\ i_size s' = i_size s.
Proof.
  intros HI HAL Hs8. unfold pull.
  assert (Htake : forall s1, AL s1 -> i_pos s1 < i_max1 s1 -> i_size s1 = i_size s ->
    (if i_max1 s1 <? i_pos s1 + 8
      then (set_ipos s1 (i_max1 s1), Val (be_val (skipn (N.to_nat (i_pos s1)) (i_buf s1)), 8 * N.of_nat (length (skipn (N.to_nat (i_pos s1)) (i_buf s1)))))
      else (set_ipos s1 (i_pos s1 + 8), Val (word_of (skipn (N.to_nat (i_pos s1)) (i_buf s1)), 64))) = (s', Val (c, a)) ->
    AL s' /\ (a = 64 \/ (src_data (i_src s') = [] /\ i_pos s' = i_max1 s')) /\ i_size s' = i_size s).
  { intros s1 HAL1 Hlt Hsz1. destruct (i_max1 s1 <? i_pos s1 + 8) eqn:E; intros H; inversion H; subst.
    - apply N.ltb_lt in E. assert (Hsrc : src_data (i_src s1) = []).
      { destruct HAL1 as [H8|He]; [|exact He]. exfalso.
        pose proof (N.div_mod (i_max1 s1 - i_pos s1) 8 ltac:(discriminate)) as X. rewrite H8 in X. lia. }
      split; [left; unfold AL, i_max1; cbn [set_ipos i_pos i_buf]; rewrite N.sub_diag; reflexivity|].
      split; [right; split; [exact Hsrc|reflexivity]|exact Hsz1].
    - apply N.ltb_ge in E. split; [|split; [left; reflexivity|exact Hsz1]].
      destruct HAL1 as [H8|He]; [left|right; exact He]. unfold i_max1 in *. cbn [set_ipos i_pos i_buf].
      pose proof (N.div_mod (N.of_nat (length (i_buf s1)) - i_pos s1) 8 ltac:(discriminate)) as X. rewrite H8 in X.
      replace (N.of_nat (length (i_buf s1)) - (i_pos s1 + 8)) with (8 * ((N.of_nat (length (i_buf s1)) - i_pos s1) / 8 - 1)) by lia.
      rewrite N.mul_comm. apply N.mod_mul. discriminate. }
  destruct (i_max1 s <=? i_pos s) eqn:Efull.
  - apply N.leb_le in Efull. assert (Hpe : i_pos s = i_max1 s) by (pose proof (ii_pos s HI); lia).
    destruct (read_from_source s (i_size s)) as [s1 [e|]] eqn:Er; [discriminate|].
    pose proof (refill_aligned s s1 HI Hpe Hs8 Er) as Hal1.
    destruct (refill_spec s HI Hpe) as [(Hd & s2 & e & E2)|(Hd & s2 & E2 & HI2 & Hp0 & Hne & _)]; [rewrite E2 in Er; discriminate|].
    rewrite E2 in Er. inversion Er; subst s2.
    assert (Hsz1 : i_size s1 = i_size s).
    { clear - E2 HI. unfold read_from_source in E2. destruct (i_closed s); [discriminate|]. destruct (i_size s =? 0); [inversion E2; reflexivity|].
      destruct (i_pending s); [discriminate|]. destruct (src_read (i_src s) (i_size s)) as [[a1 b1] c1].
      destruct (match c1 with None => refill_more (N.to_nat (i_size s)) a1 b1 (i_size s) | Some e => (a1, b1, Some e) end) as [[a2 b2] c2].
      destruct b2; inversion E2; reflexivity. }
    apply Htake; [|rewrite Hp0; unfold i_max1; destruct (i_buf s1); [congruence|cbn [length]; lia]|exact Hsz1].
    unfold AL. rewrite Hp0, N.sub_0_r. unfold i_max1. exact Hal1.
  - apply N.leb_gt in Efull. apply Htake; [exact HAL|exact Efull|reflexivity].
Qed.

(* ---------- bytes of a number ---------- *)
Lemma be_bytes_mod : forall k v, be_bytes k (v mod 256 ^ N.of_nat k) = be_bytes k v.
Proof.
  induction k as [|k IH]; intros v; [reflexivity|]. cbn [be_bytes].
  rewrite Nat2N.inj_succ, N.pow_succ_r'.
  assert (Hp : 256 ^ N.of_nat k <> 0) by (apply N.pow_nonzero; discriminate).
  rewrite N.mod_mul_r by (try discriminate; exact Hp).
  rewrite N.mul_comm, N.div_add by discriminate. rewrite N.mod_add by discriminate.
  rewrite N.mod_mod by discriminate.
  rewrite (N.div_small (v mod 256) 256) by (apply N.mod_lt; discriminate). rewrite N.add_0_l. rewrite IH. reflexivity.
Qed.

Lemma be_bytes_add : forall k m v, be_bytes (m + k) v = be_bytes m (v / 256 ^ N.of_nat k) ++ be_bytes k v.
Proof.
  induction k as [|k IH]; intros m v.
  - rewrite Nat.add_0_r. cbn [be_bytes N.of_nat]. change (256 ^ 0) with 1. rewrite N.div_1_r, app_nil_r. reflexivity.
  - replace (m + S k)%nat with (S (m + k)) by lia. cbn [be_bytes]. rewrite IH, <- app_assoc. f_equal.
    rewrite Nat2N.inj_succ, N.pow_succ_r'. rewrite N.div_div by (try discriminate; apply N.pow_nonzero; discriminate). reflexivity.
Qed.

Lemma be_bytes_be_val : forall l, bytes_ok l -> be_bytes (length l) (be_val l) = l.
Proof.
  intros l. induction l as [|x t IH] using rev_ind; intros Hb; [reflexivity|].
  apply Forall_app in Hb. destruct Hb as [Ht Hx]. inversion Hx as [|? ? Hx1 _]; subst.
  rewrite app_length. cbn [length]. replace (length t + 1)%nat with (S (length t)) by lia. cbn [be_bytes].
  rewrite be_val_app. cbn [be_val length]. change (N.of_nat 1) with 1. change (N.of_nat 0) with 0. change (2 ^ (8 * 1)) with 256. change (2 ^ (8 * 0)) with 1.
  replace (be_val t * 256 + (x * 1 + 0)) with (x + be_val t * 256) by lia.
  rewrite N.div_add by discriminate. rewrite N.mod_add by discriminate.
  rewrite (N.div_small x 256 Hx1), (N.mod_small x 256 Hx1), N.add_0_l, IH by exact Ht. reflexivity.
Qed.

Lemma pow256 k : 256 ^ N.of_nat k = 2 ^ (8 * N.of_nat k).
Proof. change 256 with (2 ^ 8). rewrite <- N.pow_mul_r. reflexivity. Qed.

(* the first k bytes of a byte string are the top 8k bits of its value *)
Lemma be_bytes_firstn l k : bytes_ok l -> (k <= length l)%nat ->
  be_bytes k (be_val l / 2 ^ (8 * N.of_nat (length l - k))) = firstn k l.
Proof.
  intros Hb Hk. rewrite <- (firstn_skipn k l) at 1. rewrite be_val_app, skipn_length.
  pose proof (be_val_lt _ (bytes_ok_skipn k _ Hb)) as Hlt. rewrite skipn_length in Hlt.
  rewrite N.div_add_l by (apply N.pow_nonzero; discriminate). rewrite (N.div_small _ _ Hlt), N.add_0_r.
  pose proof (be_bytes_be_val (firstn k l) (bytes_ok_firstn k _ Hb)) as X. rewrite firstn_length in X.
  replace (Nat.min k (length l)) with k in X by lia. exact X.
Qed.

(* extending what has been read so far: m bytes of (U0, T0), then k bytes of what is left *)
Lemma ext_bytes U0 T0 m k : 8 * (N.of_nat m + N.of_nat k) <= T0 ->
  let Um := U0 mod 2 ^ (T0 - 8 * N.of_nat m) in
  let Tm := T0 - 8 * N.of_nat m in
  be_bytes m (U0 / 2 ^ (T0 - 8 * N.of_nat m)) ++ be_bytes k (Um / 2 ^ (Tm - 8 * N.of_nat k)) =
    be_bytes (m + k) (U0 / 2 ^ (T0 - 8 * N.of_nat (m + k))) /\
  Um mod 2 ^ (Tm - 8 * N.of_nat k) = U0 mod 2 ^ (T0 - 8 * N.of_nat (m + k)) /\
  Tm - 8 * N.of_nat k = T0 - 8 * N.of_nat (m + k).
Proof.
  intros Hle Um Tm. set (d := T0 - 8 * N.of_nat (m + k)).
  assert (Ed : Tm - 8 * N.of_nat k = d) by (unfold Tm, d; lia).
  assert (ETm : Tm = 8 * N.of_nat k + d) by (unfold Tm, d; lia).
  split; [|split; [|exact Ed]].
  - rewrite be_bytes_add. f_equal.
    + f_equal. rewrite pow256. rewrite N.div_div by (apply N.pow_nonzero; discriminate). rewrite <- N.pow_add_r. f_equal. f_equal. unfold d. lia.
    + rewrite <- (be_bytes_mod k (U0 / 2 ^ d)). f_equal. rewrite Ed. unfold Um. fold Tm. rewrite ETm.
      rewrite N.add_comm. rewrite (mod_div_pow U0 (d + 8 * N.of_nat k) d) by lia. rewrite pow256. f_equal. f_equal. lia.
  - rewrite Ed. unfold Um. fold Tm. rewrite ETm. apply mod_mod_pow2. lia.
Qed.

(* ---------- the invariant of the array paths ---------- *)
Record RA (s : ibs) : Prop := { ra_a : AInv s; ra_al : AL s; ra_sz : i_size s mod 8 = 0 }.

Lemma pull_both s s' c a : IInv s -> AL s -> i_size s mod 8 = 0 -> pull s = (s', Val (c, a)) ->
  IInv s' /\ AL s' /\ i_size s' = i_size s /\ (a = 64 \/ rest_bytes s' = []).
Proof.
  intros HI HAL Hs8 E. destruct (pull_aligned s s' c a HI HAL Hs8 E) as (A1 & A2 & A3).
  destruct (pull_spec s HI) as [(_ & s2 & e & E2)|(_ & s2 & k & _ & _ & E2 & HI2 & _)]; rewrite E2 in E; [discriminate|].
  inversion E; subst. split; [exact HI2|]. split; [exact A1|]. split; [exact A3|].
  destruct A2 as [A2|[A2 A2']]; [left; exact A2|right]. unfold rest_bytes. rewrite A2, A2'. unfold i_max1. rewrite Nat2N.id, skipn_all. reflexivity.
Qed.

Lemma al_acc s a c : AL s -> AL (set_iacc s a c).
Proof. intros H; exact H. Qed.

Lemma read_bits_al : forall fuel s c s' v, IInv s -> AL s -> i_size s mod 8 = 0 ->
  read_bits_f fuel s c = (s', Val v) -> AL s' /\ i_size s' = i_size s.
Proof.
  induction fuel as [|f IH]; intros s c s' v HI HAL Hs8 E; cbn [read_bits_f] in E.
  - destruct ((c =? 0) || (64 <? c)); [discriminate|]. destruct (c <=? i_avail s); [|discriminate].
    inversion E; subst. split; [exact HAL|reflexivity].
  - destruct ((c =? 0) || (64 <? c)); [discriminate|]. destruct (c <=? i_avail s).
    + inversion E; subst. split; [exact HAL|reflexivity].
    + destruct (pull s) as [s1 [[c0 a0]|e]] eqn:Ep; [|discriminate].
      destruct (pull_both s s1 c0 a0 HI HAL Hs8 Ep) as (HI1 & HAL1 & Hsz1 & _).
      destruct (read_bits_f f (set_iacc s1 a0 c0) (c - i_avail s)) as [s2 [v2|e]] eqn:Er; [|discriminate].
      inversion E; subst.
      assert (Hs81 : i_size (set_iacc s1 a0 c0) mod 8 = 0) by (change (i_size (set_iacc s1 a0 c0)) with (i_size s1); rewrite Hsz1; exact Hs8).
      destruct (IH _ _ _ _ (iinv_acc s1 a0 c0 HI1) (al_acc s1 a0 c0 HAL1) Hs81 Er) as [A B].
      split; [exact A|]. rewrite B. exact Hsz1.
Qed.

(* one ReadBits in the invariant *)
Lemma rd s c : RA s -> 1 <= c <= 64 -> c <= total s ->
  exists s', read_bits s c = (s', Val (uval s / 2 ^ (total s - c))) /\ RA s' /\
    total s' = total s - c /\ uval s' = uval s mod 2 ^ (total s - c).
Proof.
  intros [HA HAL Hs8] Hc Ht.
  destruct (read_bits_ok 66 s c HA Hc ltac:(lia) Ht) as (s' & E & HA' & T' & U').
  exists s'. unfold read_bits. split; [exact E|]. split; [|auto].
  destruct (read_bits_al 66 s c s' _ (ai_i s HA) HAL Hs8 E) as [A B].
  constructor; [exact HA'|exact A|rewrite B; exact Hs8].
Qed.

(* [m] whole bytes of the vector (U0, T0) have been read into [acc]; [s] holds what is left *)
Definition Ph (U0 T0 : N) (m : nat) (s : ibs) (acc : list N) : Prop :=
  acc = be_bytes m (U0 / 2 ^ (T0 - 8 * N.of_nat m)) /\ uval s = U0 mod 2 ^ (T0 - 8 * N.of_nat m) /\
  total s = T0 - 8 * N.of_nat m /\ 8 * N.of_nat m <= T0.

Lemma uval_lt s : AInv s -> uval s < 2 ^ total s.
Proof.
  intros [HI Hav Hcur]. unfold uval, total. pose proof (be_val_lt _ (rest_ok s HI)) as Hb. fold (nb s) in Hb.
  pose proof (N.mod_lt (i_cur s) (2 ^ i_avail s) ltac:(apply N.pow_nonzero; discriminate)) as Hm.
  rewrite N.pow_add_r. pose proof (pow2_pos (8 * nb s)). nia.
Qed.

Lemma ph_init s : AInv s -> Ph (uval s) (total s) 0 s [].
Proof.
  intros HA. unfold Ph. cbn [be_bytes N.of_nat]. rewrite N.mul_0_r, N.sub_0_r. split; [reflexivity|].
  split; [symmetry; apply N.mod_small; apply uval_lt; exact HA|]. split; lia.
Qed.

(* reading 8k bits (k = 1 or 8) as one ReadBits extends the phase by k bytes *)
Lemma ph_read U0 T0 m s acc (k : nat) : Ph U0 T0 m s acc -> RA s -> (1 <= k <= 8)%nat -> 8 * N.of_nat k <= total s ->
  exists s' v, read_bits s (8 * N.of_nat k) = (s', Val v) /\ RA s' /\ Ph U0 T0 (m + k) s' (acc ++ be_bytes k v) /\ v < 2 ^ (8 * N.of_nat k).
Proof.
  intros (Hacc & HU & HT & Hle) HR Hk Ht.
  destruct (rd s (8 * N.of_nat k) HR ltac:(clear - Hk; lia) Ht) as (s' & E & HR' & T' & U').
  exists s', (uval s / 2 ^ (total s - 8 * N.of_nat k)). split; [exact E|]. split; [exact HR'|].
  assert (Hle2 : 8 * (N.of_nat m + N.of_nat k) <= T0) by (rewrite HT in Ht; clear - Ht Hk; lia).
  destruct (ext_bytes U0 T0 m k Hle2) as (X1 & X2 & X3). cbv zeta in X1, X2, X3.
  split.
  - unfold Ph. rewrite Hacc, HU, HT, X1. split; [reflexivity|]. rewrite U', T', HU, HT, X2, X3. split; [reflexivity|]. split; [reflexivity|].
    rewrite HT in Ht. clear - Ht Hk. lia.
  - apply N.div_lt_upper_bound; [apply N.pow_nonzero; discriminate|]. rewrite <- N.pow_add_r.
    replace (total s - 8 * N.of_nat k + 8 * N.of_nat k) with (total s) by (clear - Ht; lia). apply uval_lt. apply HR.
Qed.

(* ---------- the byte loops ---------- *)
Lemma be_bytes_1 v : v < 256 -> be_bytes 1 v = [v].
Proof. intros H. cbn [be_bytes app]. rewrite N.mod_small by exact H. reflexivity. Qed.

(* the tail loop (stop = false): whole bytes until fewer than 8 bits are wanted *)
Lemma rbw_false U0 T0 : forall fuel m s rem acc, Ph U0 T0 m s acc -> RA s -> rem <= total s -> rem < 8 * N.of_nat fuel ->
  exists (j : nat) s' acc', read_bytes_while false fuel s rem acc = (s', None, acc', rem - 8 * N.of_nat j) /\
    Ph U0 T0 (m + j) s' acc' /\ RA s' /\ 8 * N.of_nat j <= rem /\ rem - 8 * N.of_nat j < 8.
Proof.
  induction fuel as [|f IH]; intros m s rem acc HP HR Ht Hf; [lia|].
  cbn [read_bytes_while]. cbn [andb orb]. destruct (rem <? 8) eqn:E.
  - apply N.ltb_lt in E. exists O, s, acc. rewrite Nat.add_0_r. cbn [N.of_nat]. rewrite N.mul_0_r, N.sub_0_r.
    split; [reflexivity|]. split; [exact HP|]. split; [exact HR|]. split; [lia|exact E].
  - apply N.ltb_ge in E.
    destruct (ph_read U0 T0 m s acc 1 HP HR ltac:(lia) ltac:(cbn [N.of_nat]; lia)) as (s1 & v & E1 & HR1 & HP1 & Hv).
    change (8 * N.of_nat 1) with 8 in E1, Hv. rewrite E1. change (2 ^ 8) with 256 in Hv. rewrite (be_bytes_1 v Hv) in HP1.
    destruct HP1 as (A1 & A2 & A3 & A4).
    destruct (IH (m + 1)%nat s1 (rem - 8) (acc ++ [v]) (conj A1 (conj A2 (conj A3 A4))) HR1) as (j & s' & acc' & E' & HP' & HR' & Hj & Hex).
    { destruct HP as (_ & _ & B3 & _). rewrite A3. rewrite B3 in Ht. clear - Ht E. lia. }
    { clear - Hf E. lia. }
    exists (S j), s', acc'. rewrite E'. replace (rem - 8 - 8 * N.of_nat j) with (rem - 8 * N.of_nat (S j)) by (clear; lia).
    replace (m + S j)%nat with (m + 1 + j)%nat by lia. split; [reflexivity|]. split; [exact HP'|]. split; [exact HR'|]. split; clear - Hj Hex E; lia.
Qed.

(* the first loop of the aligned path (stop = true): empties the accumulator byte by byte *)
Lemma rbw_true U0 T0 : forall fuel m s rem acc, Ph U0 T0 m s acc -> RA s -> rem <= total s ->
  i_avail s mod 8 = 0 -> i_avail s < 8 * N.of_nat fuel ->
  exists (j : nat) s' acc', read_bytes_while true fuel s rem acc = (s', None, acc', rem - 8 * N.of_nat j) /\
    Ph U0 T0 (m + j) s' acc' /\ RA s' /\ 8 * N.of_nat j <= rem /\ (i_avail s' = 0 \/ rem - 8 * N.of_nat j < 8) /\ i_avail s' mod 8 = 0.
Proof.
  induction fuel as [|f IH]; intros m s rem acc HP HR Ht Ha8 Hf; [lia|].
  cbn [read_bytes_while]. cbn [andb]. destruct ((i_avail s =? 0) || (rem <? 8)) eqn:E.
  - exists O, s, acc. rewrite Nat.add_0_r. cbn [N.of_nat]. rewrite N.mul_0_r, N.sub_0_r.
    split; [reflexivity|]. split; [exact HP|]. split; [exact HR|]. split; [lia|]. split; [|exact Ha8].
    apply orb_true_iff in E. destruct E as [E|E]; [left; apply N.eqb_eq; exact E|right; apply N.ltb_lt; exact E].
  - apply orb_false_iff in E. destruct E as [Ea Er]. apply N.eqb_neq in Ea. apply N.ltb_ge in Er.
    assert (Ha : 8 <= i_avail s).
    { pose proof (N.div_mod (i_avail s) 8 ltac:(discriminate)) as X. rewrite Ha8 in X. lia. }
    (* served from the accumulator *)
    pose proof HR as [HA _ _].
    destruct (read_bits_direct s 8 HA ltac:(lia) Ha) as (D1 & D2 & D3 & D4).
    destruct (ph_read U0 T0 m s acc 1 HP HR ltac:(lia) ltac:(cbn [N.of_nat]; lia)) as (s1 & v & E1 & HR1 & HP1 & Hv).
    change (8 * N.of_nat 1) with 8 in E1, Hv. rewrite E1. change (2 ^ 8) with 256 in Hv. rewrite (be_bytes_1 v Hv) in HP1.
    assert (Hav1 : i_avail s1 = i_avail s - 8).
    { unfold read_bits in E1. cbn [read_bits_f] in E1. change ((8 =? 0) || (64 <? 8)) with false in E1. cbv iota in E1.
      replace (8 <=? i_avail s) with true in E1 by (symmetry; apply N.leb_le; exact Ha). inversion E1; subst. reflexivity. }
    destruct HP1 as (A1 & A2 & A3 & A4).
    destruct (IH (m + 1)%nat s1 (rem - 8) (acc ++ [v]) (conj A1 (conj A2 (conj A3 A4))) HR1) as (j & s' & acc' & E' & HP' & HR' & Hj & Hex & Ha').
    { destruct HP as (_ & _ & B3 & _). rewrite A3. rewrite B3 in Ht. clear - Ht Er. lia. }
    { rewrite Hav1. pose proof (N.div_mod (i_avail s) 8 ltac:(discriminate)) as X. rewrite Ha8 in X.
      replace (i_avail s - 8) with (8 * (i_avail s / 8 - 1)) by (clear - X Ha; lia). rewrite N.mul_comm. apply N.mod_mul. discriminate. }
    { rewrite Hav1. clear - Hf Ha. lia. }
    exists (S j), s', acc'. rewrite E'. replace (rem - 8 - 8 * N.of_nat j) with (rem - 8 * N.of_nat (S j)) by (clear; lia).
    replace (m + S j)%nat with (m + 1 + j)%nat by lia. split; [reflexivity|]. split; [exact HP'|]. split; [exact HR'|]. split; [clear - Hj Er; lia|]. split; [|exact Ha'].
    destruct Hex as [X|X]; [left; exact X|right; clear - X; lia].
Qed.

(* ---------- aligned cursor, empty accumulator: bytes straight out of the buffer ---------- *)
Lemma empty_acc s : AInv s -> i_avail s = 0 -> uval s = be_val (rest_bytes s) /\ total s = 8 * nb s.
Proof. intros _ Ha. unfold uval, total. rewrite Ha. change (2 ^ 0) with 1. rewrite N.mod_1_r. split; lia. Qed.

(* taking the next k bytes of the unread bytes, when the accumulator is empty *)
Lemma ph_bytes U0 T0 m s s' acc (k : nat) : Ph U0 T0 m s acc -> AInv s -> i_avail s = 0 -> AInv s' -> i_avail s' = 0 ->
  (k <= length (rest_bytes s))%nat -> rest_bytes s' = skipn k (rest_bytes s) ->
  Ph U0 T0 (m + k) s' (acc ++ firstn k (rest_bytes s)).
Proof.
  intros (Hacc & HU & HT & Hle) HA Ha HA' Ha' Hk Hr.
  destruct (empty_acc s HA Ha) as [EU ET]. destruct (empty_acc s' HA' Ha') as [EU' ET'].
  set (B := rest_bytes s) in *. assert (HB : bytes_ok B) by (apply rest_ok; apply HA).
  assert (Hnb : nb s = N.of_nat (length B)) by reflexivity.
  assert (Hle2 : 8 * (N.of_nat m + N.of_nat k) <= T0) by (rewrite ET, Hnb in HT; clear - HT Hk Hle; lia).
  destruct (ext_bytes U0 T0 m k Hle2) as (X1 & X2 & X3). cbv zeta in X1, X2, X3.
  assert (Hfirst : firstn k B = be_bytes k ((U0 mod 2 ^ (T0 - 8 * N.of_nat m)) / 2 ^ (T0 - 8 * N.of_nat m - 8 * N.of_nat k))).
  { rewrite <- HU, EU, <- HT, ET, Hnb. fold B. rewrite <- (be_bytes_firstn B k HB Hk). f_equal. f_equal. f_equal. clear - Hk. lia. }
  unfold Ph. rewrite Hacc, Hfirst, X1. split; [reflexivity|].
  split.
  - rewrite EU', Hr. fold B. rewrite <- X2, <- HU, EU, <- HT, ET, Hnb. fold B.
    rewrite <- (firstn_skipn k B) at 2. rewrite be_val_app, skipn_length.
    replace (8 * N.of_nat (length B) - 8 * N.of_nat k) with (8 * N.of_nat (length B - k)) by (clear - Hk; lia).
    rewrite N.add_comm, N.mod_add by (apply N.pow_nonzero; discriminate). symmetry. apply N.mod_small.
    pose proof (be_val_lt _ (bytes_ok_skipn k _ HB)) as X. rewrite skipn_length in X. exact X.
  - split; [|clear - Hle2; lia]. rewrite ET'. unfold nb. rewrite Hr. fold B. rewrite skipn_length, <- X3, <- HT, ET, Hnb. clear - Hk. lia.
Qed.

Lemma ra_set_pos s p : RA s -> i_pos s <= p <= i_max1 s -> (p - i_pos s) mod 8 = 0 -> RA (set_ipos s p).
Proof.
  intros [[[Ho Hs Hp Hpos Hb Hsz] Hav Hcur] HAL Hs8] Hpp Hm8. constructor; [constructor; [constructor|..]|..]; cbn [set_ipos i_closed i_src i_pending i_pos i_buf i_size i_avail i_cur]; try assumption.
  - unfold i_max1, set_ipos in *. cbn [i_buf]. clear - Hpp. lia.
  - destruct HAL as [H8|He]; [left|right; exact He]. unfold i_max1, set_ipos in *. cbn [i_pos i_buf].
    pose proof (N.div_mod (N.of_nat (length (i_buf s)) - i_pos s) 8 ltac:(discriminate)) as X. rewrite H8 in X.
    pose proof (N.div_mod (p - i_pos s) 8 ltac:(discriminate)) as Y. rewrite Hm8 in Y.
    replace (N.of_nat (length (i_buf s)) - p) with (8 * ((N.of_nat (length (i_buf s)) - i_pos s) / 8 - (p - i_pos s) / 8)) by lia.
    rewrite N.mul_comm. apply N.mod_mul. discriminate.
Qed.

Lemma rest_set_pos s (k : nat) : N.of_nat k <= i_max1 s - i_pos s ->
  rest_bytes (set_ipos s (i_pos s + N.of_nat k)) = skipn k (rest_bytes s) /\
  firstn k (rest_bytes s) = firstn k (skipn (N.to_nat (i_pos s)) (i_buf s)).
Proof.
  intros Hk. unfold rest_bytes, i_max1 in *. cbn [set_ipos i_pos i_buf i_src].
  set (rest := skipn (N.to_nat (i_pos s)) (i_buf s)).
  assert (Hrl : length rest = (length (i_buf s) - N.to_nat (i_pos s))%nat) by (unfold rest; apply skipn_length).
  split.
  - rewrite skipn_app. replace (k - length rest)%nat with O by lia. change (skipn 0 (src_data (i_src s))) with (src_data (i_src s)). f_equal.
    unfold rest. rewrite skipn_skipn_loc. f_equal. lia.
  - rewrite firstn_app. replace (k - length rest)%nat with O by lia. cbn [firstn]. apply app_nil_r.
Qed.

Lemma refill_size s s' e : read_from_source s (i_size s) = (s', e) -> i_size s' = i_size s.
Proof.
  unfold read_from_source. destruct (i_closed s); [intros H; inversion H; reflexivity|]. destruct (i_size s =? 0); [intros H; inversion H; reflexivity|].
  destruct (i_pending s); [intros H; inversion H; reflexivity|]. destruct (src_read (i_src s) (i_size s)) as [[a1 b1] c1].
  destruct (match c1 with None => refill_more (N.to_nat (i_size s)) a1 b1 (i_size s) | Some e0 => (a1, b1, Some e0) end) as [[a2 b2] c2].
  destruct b2; intros H; inversion H; reflexivity.
Qed.

Lemma ph_transfer U0 T0 m s s' acc : Ph U0 T0 m s acc -> uval s' = uval s -> total s' = total s -> Ph U0 T0 m s' acc.
Proof. intros (A & B & C & D) EU ET. unfold Ph. rewrite EU, ET. auto. Qed.

Lemma same_rest s s' : rest_bytes s' = rest_bytes s -> i_avail s' = i_avail s -> i_cur s' = i_cur s ->
  uval s' = uval s /\ total s' = total s.
Proof. intros R A C. unfold uval, total, nb. rewrite R, A, C. auto. Qed.

Lemma bulk_read_spec U0 T0 : forall fuel m s rem acc, Ph U0 T0 m s acc -> RA s -> i_avail s = 0 -> rem <= total s ->
  N.shiftr rem 3 + (if i_max1 s - i_pos s =? 0 then 1 else 0) < N.of_nat fuel ->
  exists (j : nat) s' acc', bulk_read fuel s rem acc = (s', None, acc', rem - 8 * N.of_nat j) /\
    Ph U0 T0 (m + j) s' acc' /\ RA s' /\ i_avail s' = 0 /\ 8 * N.of_nat j <= rem /\
    N.shiftr (rem - 8 * N.of_nat j) 3 <= i_max1 s' - i_pos s'.
Proof.
  induction fuel as [|f IH]; intros m s rem acc HP HR Ha Ht Hfu; [lia|].
  cbn [bulk_read]. set (ab := i_max1 s - i_pos s) in *.
  destruct (ab <? N.shiftr rem 3) eqn:Ec.
  2:{ apply N.ltb_ge in Ec. exists O, s, acc. rewrite Nat.add_0_r. cbn [N.of_nat]. rewrite N.mul_0_r, N.sub_0_r.
      split; [reflexivity|]. split; [exact HP|]. split; [exact HR|]. split; [exact Ha|]. split; [lia|exact Ec]. }
  apply N.ltb_lt in Ec. pose proof HR as [HA HAL Hs8]. pose proof HA as [HI Hav Hcur].
  assert (Hsh : N.shiftr rem 3 = rem / 8) by (rewrite N.shiftr_div_pow2; reflexivity).
  destruct (empty_acc s HA Ha) as [EU ET].
  set (chunk := skipn (N.to_nat (i_pos s)) (i_buf s)).
  assert (Hpos : i_pos s <= i_max1 s) by apply HI.
  assert (Hcl : N.of_nat (length chunk) = ab) by (unfold chunk, ab, i_max1 in *; rewrite skipn_length; lia).
  assert (Hrb : rest_bytes s = chunk ++ src_data (i_src s)) by reflexivity.
  assert (Hsrc : src_data (i_src s) <> []).
  { intros Hn. unfold nb in ET. rewrite Hrb, Hn, app_nil_r in ET.
    rewrite Hsh in Ec. pose proof (N.div_mod rem 8 ltac:(discriminate)). rewrite ET in Ht. lia. }
  assert (Hal8 : ab mod 8 = 0) by (destruct HAL as [H|H]; [exact H|contradiction]).
  set (s1 := set_ipos s (i_max1 s)).
  assert (HR1 : RA s1) by (apply ra_set_pos; [exact HR|lia|exact Hal8]).
  assert (Hs1e : s1 = set_ipos s (i_pos s + N.of_nat (length chunk))) by (unfold s1; f_equal; rewrite Hcl; unfold ab; lia).
  destruct (rest_set_pos s (length chunk) ltac:(rewrite Hcl; fold ab; lia)) as [Hr1 Hf1]. rewrite <- Hs1e in Hr1.
  assert (Hfc : firstn (length chunk) (rest_bytes s) = chunk) by (rewrite Hf1; apply firstn_all).
  assert (HP1 : Ph U0 T0 (m + length chunk) s1 (acc ++ chunk)).
  { rewrite <- Hfc at 2. apply (ph_bytes U0 T0 m s s1 acc (length chunk) HP HA Ha (ra_a s1 HR1) Ha); [|exact Hr1].
    rewrite Hrb, app_length. lia. }
  assert (Hp1 : i_pos s1 = i_max1 s1) by reflexivity.
  assert (Hsrc1 : src_data (i_src s1) <> []) by exact Hsrc.
  destruct (refill_spec s1 (ai_i s1 (ra_a s1 HR1)) Hp1) as [(Hd & _)|(_ & s2 & E2 & HI2 & Hp0 & Hne & Hr2 & Ha2 & Hc2)]; [contradiction|].
  change (i_size s1) with (i_size s) in *. fold chunk. fold s1. rewrite E2.
  pose proof (refill_aligned s1 s2 (ai_i s1 (ra_a s1 HR1)) Hp1 Hs8 E2) as Hal2.
  pose proof (refill_size s1 s2 None E2) as Hsz2.
  assert (HR2 : RA s2).
  { constructor; [constructor; [exact HI2|rewrite Ha2; exact Hav|rewrite Hc2; exact Hcur]| |rewrite Hsz2; exact Hs8].
    unfold AL. rewrite Hp0, N.sub_0_r. unfold i_max1. exact Hal2. }
  destruct (same_rest s1 s2 Hr2 Ha2 Hc2) as [EU2 ET2].
  assert (HP2 : Ph U0 T0 (m + length chunk) s2 (acc ++ chunk)) by (apply (ph_transfer U0 T0 _ s1 s2 _ HP1 EU2 ET2)).
  assert (Ha20 : i_avail s2 = 0) by (rewrite Ha2; exact Ha).
  assert (Ht2 : rem - 8 * ab <= total s2).
  { rewrite ET2. destruct HP1 as (_ & _ & T1 & _). destruct HP as (_ & _ & T0' & _). rewrite T1. rewrite T0' in Ht. rewrite Nat2N.inj_add, Hcl. clear - Ht. lia. }
  destruct (IH (m + length chunk)%nat s2 (rem - 8 * ab) (acc ++ chunk) HP2 HR2 Ha20 Ht2) as (j & s' & acc' & E' & HP' & HR' & Ha' & Hj & Hex).
  { rewrite Hp0, N.sub_0_r. assert (Hm2 : 1 <= i_max1 s2) by (unfold i_max1; destruct (i_buf s2); [congruence|cbn [length]; lia]).
    replace (i_max1 s2 =? 0) with false by (symmetry; apply N.eqb_neq; lia). rewrite N.shiftr_div_pow2. change (2 ^ 3) with 8. rewrite Hsh in Hfu, Ec.
    destruct (ab =? 0) eqn:E0.
    - apply N.eqb_eq in E0. rewrite E0, N.mul_0_r, N.sub_0_r. clear - Hfu. lia.
    - apply N.eqb_neq in E0. pose proof (N.div_mod ab 8 ltac:(discriminate)) as X. rewrite Hal8 in X.
      assert ((rem - 8 * ab) / 8 = rem / 8 - ab).
      { pose proof (N.div_mod rem 8 ltac:(discriminate)) as Y. pose proof (N.mod_lt rem 8 ltac:(discriminate)) as Z.
        symmetry. apply (N.div_unique (rem - 8 * ab) 8 (rem / 8 - ab) (rem mod 8)); [exact Z|]. clear - Y Ec. lia. }
      rewrite H. clear - Hfu E0 Ec. lia. }
  exists (length chunk + j)%nat, s', acc'. rewrite E'.
  replace (rem - 8 * ab - 8 * N.of_nat j) with (rem - 8 * N.of_nat (length chunk + j)) by (rewrite Nat2N.inj_add, Hcl; clear; lia).
  rewrite Nat.add_assoc. split; [reflexivity|]. split; [exact HP'|]. split; [exact HR'|]. split; [exact Ha'|].
  rewrite Hsh in Ec. pose proof (N.div_mod rem 8 ltac:(discriminate)) as Y.
  split; [rewrite Nat2N.inj_add, Hcl; clear - Hj Ec Y; lia|].
  replace (rem - 8 * N.of_nat (length chunk + j)) with (rem - 8 * ab - 8 * N.of_nat j) by (rewrite Nat2N.inj_add, Hcl; clear; lia). exact Hex.
Qed.

(* ---------- unaligned cursor: whole words ---------- *)
(* one 64-bit step of the combining loops is ReadBits(64) *)
Lemma step64_eq s r : RA s -> 1 <= r <= 63 -> i_avail s = 64 - r -> 64 <= total s -> step64 r s = read_bits s 64.
Proof.
  intros [HA HAL Hs8] Hr Hav Ht. pose proof HA as [HI Havle Hcur].
  unfold step64, read_bits. cbn [read_bits_f]. change ((64 =? 0) || (64 <? 64)) with false. cbv iota.
  replace (64 <=? i_avail s) with false by (symmetry; apply N.leb_gt; lia).
  destruct (pull_spec s HI) as [(Hn & _)|(Hne & s1 & k & Hk & Hkl & Ep & HI1 & Hr1 & Ha1 & Hc1)].
  { exfalso. unfold total, nb in Ht. rewrite Hn in Ht. cbn [length N.of_nat] in Ht. lia. }
  rewrite Ep. set (B := rest_bytes s) in *. set (c := be_val (firstn k B)). set (a' := 8 * N.of_nat k).
  destruct (pull_both s s1 c a' HI HAL Hs8 Ep) as (_ & _ & _ & Hpart).
  assert (HBok : bytes_ok B) by (apply rest_ok; exact HI).
  assert (Hcl : c < 2 ^ a').
  { pose proof (be_val_lt _ (bytes_ok_firstn k _ HBok)) as X. rewrite firstn_length in X.
    replace (Nat.min k (length B)) with k in X by (clear - Hkl; lia). exact X. }
  assert (Har : r <= a').
  { destruct Hpart as [E|E]; [rewrite E; lia|]. rewrite Hr1 in E. apply (f_equal (@length N)) in E. rewrite skipn_length in E. cbn [length] in E.
    unfold total, nb in Ht. fold B in Ht. unfold a'. clear - E Ht Hav Hkl Hr. lia. }
  replace (a' <? r) with false by (symmetry; apply N.ltb_ge; exact Har).
  replace (64 - i_avail s) with r by (clear - Hav Hr; lia).
  cbn [read_bits_f]. replace ((r =? 0) || (64 <? r)) with false by (symmetry; apply orb_false_iff; split; [apply N.eqb_neq|apply N.ltb_ge]; clear - Hr; lia).
  cbn [set_iacc i_avail i_cur]. replace (r <=? a') with true by (symmetry; apply N.leb_le; exact Har).
  assert (Ha'64 : a' <= 64) by (unfold a'; clear - Hk; lia).
  f_equal. f_equal.
  assert (E1 : shl64 (N.land (i_cur s) (shr64 mask64 r)) r = shl64 (i_cur s) r).
  { replace r with (64 - i_avail s) at 1 by (clear - Hav Hr; lia). rewrite (mask_mod (i_cur s) (i_avail s) Havle).
    rewrite !shl64_spec by (clear - Hr; lia). rewrite !mul_pow_mod by (clear - Hr; lia).
    replace (64 - r) with (i_avail s) by (clear - Hav Hr; lia). rewrite N.mod_mod by (apply N.pow_nonzero; discriminate). reflexivity. }
  assert (E2 : N.land (N.shiftr c (a' - r)) (shr64 mask64 (64 - r)) = shr64 c (a' - r)).
  { rewrite (mask_mod _ r ltac:(clear - Hr; lia)). rewrite shr64_spec by (clear - Ha'64 Hr; lia). rewrite N.shiftr_div_pow2.
    apply N.mod_small. apply N.div_lt_upper_bound; [apply N.pow_nonzero; discriminate|]. rewrite <- N.pow_add_r.
    replace (a' - r + r) with a' by (clear - Har; lia). exact Hcl. }
  rewrite E1, E2. reflexivity.
Qed.

Fixpoint steps (r : N) (n : nat) (s : ibs) (acc : list N) : ibs * option rerr * list N :=
  match n with
  | O => (s, None, acc)
  | S k => match step64 r s with
           | (s1, Pan e) => (s1, Some e, acc)
           | (s1, Val w) => steps r k s1 (acc ++ be8 w)
           end
  end.

Lemma steps_spec U0 T0 r : 1 <= r <= 63 -> forall n m s acc, Ph U0 T0 m s acc -> RA s -> i_avail s = 64 - r ->
  64 * N.of_nat n <= total s ->
  exists s' acc', steps r n s acc = (s', None, acc') /\ Ph U0 T0 (m + 8 * n) s' acc' /\ RA s' /\
    (n = O \/ total s' < 64 \/ i_avail s' = 64 - r) /\ total s' = total s - 64 * N.of_nat n.
Proof.
  intros Hr. induction n as [|n IH]; intros m s acc HP HR Hav Ht.
  - exists s, acc. cbn [steps N.of_nat]. rewrite Nat.mul_0_r, Nat.add_0_r, N.mul_0_r, N.sub_0_r. auto 6.
  - cbn [steps]. assert (Ht64 : 64 <= total s) by (clear - Ht; lia).
    rewrite (step64_eq s r HR Hr Hav Ht64).
    destruct (ph_read U0 T0 m s acc 8 HP HR ltac:(lia) ltac:(change (8 * N.of_nat 8) with 64; exact Ht64)) as (s1 & w & E1 & HR1 & HP1 & Hw).
    change (8 * N.of_nat 8) with 64 in E1. rewrite E1.
    assert (Ht1 : total s1 = total s - 64).
    { destruct HP1 as (_ & _ & T1 & _). destruct HP as (_ & _ & T0' & _). rewrite T1, T0'. rewrite Nat2N.inj_add. change (N.of_nat 8) with 8. clear. lia. }
    (* the accumulator after the step *)
    assert (Hav1 : total s1 < 64 \/ i_avail s1 = 64 - r).
    { pose proof HR as [HA HAL Hs8]. pose proof HA as [HI _ _].
      rewrite <- (step64_eq s r HR Hr Hav Ht64) in E1. unfold step64 in E1.
      destruct (pull s) as [s0 [[c0 a0]|e]] eqn:Ep; [|discriminate].
      destruct (pull_both s s0 c0 a0 HI HAL Hs8 Ep) as (_ & _ & _ & Hpart).
      destruct (a0 <? r); [discriminate|]. inversion E1; subst s1.
      destruct Hpart as [E|E]; [right; cbn [set_iacc i_avail]; rewrite E; reflexivity|left].
      unfold total, nb. change (rest_bytes (set_iacc s0 (a0 - r) c0)) with (rest_bytes s0). rewrite E. cbn [length N.of_nat set_iacc i_avail].
      destruct (pull_spec s HI) as [(_ & s9 & e9 & E9)|(_ & s9 & k & Hk & _ & E9 & _)]; rewrite E9 in Ep; [discriminate|].
      injection Ep as _ _ Ea0. rewrite <- Ea0. clear - Hk Hr. lia. }
    destruct n as [|n'].
    + exists s1, (acc ++ be8 w). cbn [steps]. split; [reflexivity|]. split; [replace (m + 8 * 1)%nat with (m + 8)%nat by lia; exact HP1|].
      split; [exact HR1|]. split; [right; exact Hav1|]. rewrite Ht1. reflexivity.
    + assert (Hav1' : i_avail s1 = 64 - r).
      { destruct Hav1 as [X|X]; [|exact X]. exfalso. rewrite Ht1 in X. clear - X Ht. lia. }
      destruct (IH (m + 8)%nat s1 (acc ++ be8 w) HP1 HR1 Hav1') as (s' & acc' & E' & HP' & HR' & Hx & Ht').
      { rewrite Ht1. clear - Ht. lia. }
      exists s', acc'. split; [exact E'|]. split; [replace (m + 8 * S (S n'))%nat with (m + 8 + 8 * S n')%nat by lia; exact HP'|].
      split; [exact HR'|]. split; [right; destruct Hx as [X|X]; [discriminate|exact X]|]. rewrite Ht', Ht1. clear. lia.
Qed.

(* a full word straight from the buffer *)
Lemma step64_buf s r : i_pos s + 8 <= i_max1 s -> 1 <= r <= 63 ->
  step64 r s = (set_iacc (set_ipos s (i_pos s + 8)) (64 - r) (word_of (skipn (N.to_nat (i_pos s)) (i_buf s))),
                Val (N.lor (shl64 (i_cur s) r) (shr64 (word_of (skipn (N.to_nat (i_pos s)) (i_buf s))) (64 - r)))).
Proof.
  intros Hp Hr. unfold step64, pull.
  replace (i_max1 s <=? i_pos s) with false by (symmetry; apply N.leb_gt; lia).
  replace (i_max1 s <? i_pos s + 8) with false by (symmetry; apply N.ltb_ge; exact Hp).
  replace (64 <? r) with false by (symmetry; apply N.ltb_ge; lia). reflexivity.
Qed.

Lemma direct4 s r acc : i_pos s + 32 < i_max1 s -> 1 <= r <= 63 -> i_avail s = 64 - r ->
  let b := skipn (N.to_nat (i_pos s)) (i_buf s) in
  let v0 := i_cur s in let v1 := word_of b in let v2 := word_of (skipn 8 b) in
  let v3 := word_of (skipn 16 b) in let v4 := word_of (skipn 24 b) in
  let a := i_avail s in
  steps r 4 s acc =
    (set_iacc (set_ipos s (i_pos s + 32)) (i_avail s) v4, None,
     acc ++ (be8 (N.lor (shl64 v0 r) (shr64 v1 a)) ++ be8 (N.lor (shl64 v1 r) (shr64 v2 a)) ++
             be8 (N.lor (shl64 v2 r) (shr64 v3 a)) ++ be8 (N.lor (shl64 v3 r) (shr64 v4 a)))).
Proof.
  intros Hp Hr Hav b v0 v1 v2 v3 v4 a.
  assert (Ea : a = 64 - r) by exact Hav.
  cbn [steps]. rewrite (step64_buf s r ltac:(lia) Hr). fold b v1.
  set (s1 := set_iacc (set_ipos s (i_pos s + 8)) (64 - r) v1).
  assert (Hb1 : skipn (N.to_nat (i_pos s1)) (i_buf s1) = skipn 8 b).
  { unfold s1, b. cbn [set_iacc set_ipos i_pos i_buf]. rewrite skipn_skipn_loc. f_equal. lia. }
  rewrite (step64_buf s1 r ltac:(unfold s1, i_max1 in *; cbn [set_iacc set_ipos i_pos i_buf]; lia) Hr). rewrite Hb1. fold v2.
  set (s2 := set_iacc (set_ipos s1 (i_pos s1 + 8)) (64 - r) v2).
  assert (Hb2 : skipn (N.to_nat (i_pos s2)) (i_buf s2) = skipn 16 b).
  { unfold s2, s1, b. cbn [set_iacc set_ipos i_pos i_buf]. rewrite skipn_skipn_loc. f_equal. lia. }
  rewrite (step64_buf s2 r ltac:(unfold s2, s1, i_max1 in *; cbn [set_iacc set_ipos i_pos i_buf]; lia) Hr). rewrite Hb2. fold v3.
  set (s3 := set_iacc (set_ipos s2 (i_pos s2 + 8)) (64 - r) v3).
  assert (Hb3 : skipn (N.to_nat (i_pos s3)) (i_buf s3) = skipn 24 b).
  { unfold s3, s2, s1, b. cbn [set_iacc set_ipos i_pos i_buf]. rewrite skipn_skipn_loc. f_equal. lia. }
  rewrite (step64_buf s3 r ltac:(unfold s3, s2, s1, i_max1 in *; cbn [set_iacc set_ipos i_pos i_buf]; lia) Hr). rewrite Hb3. fold v4.
  unfold s3, s2, s1. cbn [set_iacc set_ipos i_pos i_buf i_cur i_closed i_read i_size i_avail i_pending i_src].
  rewrite <- Ea. rewrite <- !app_assoc.
  replace (i_pos s + 8 + 8 + 8 + 8) with (i_pos s + 32) by lia.
  reflexivity.
Qed.

Lemma uloop64_spec U0 T0 r : 1 <= r <= 63 -> forall fuel m s rem acc, Ph U0 T0 m s acc -> RA s ->
  (i_avail s = 64 - r \/ rem < 64) -> rem <= total s ->
  exists (n : nat) s' acc', uloop64 fuel r s rem acc = (s', None, acc', rem - 64 * N.of_nat n) /\
    Ph U0 T0 (m + 8 * n) s' acc' /\ RA s' /\ 64 * N.of_nat n <= rem /\ rem - 64 * N.of_nat n <= total s'.
Proof.
  intros Hr. induction fuel as [|f IH]; intros m s rem acc HP HR Hav Ht.
  - exists O, s, acc. cbn [uloop64 N.of_nat]. rewrite Nat.mul_0_r, Nat.add_0_r, N.mul_0_r, N.sub_0_r. split; [reflexivity|]. split; [exact HP|]. split; [exact HR|]. split; [lia|exact Ht].
  - cbn [uloop64]. destruct (64 <=? rem) eqn:E.
    2:{ exists O, s, acc. cbn [N.of_nat]. rewrite Nat.mul_0_r, Nat.add_0_r, N.mul_0_r, N.sub_0_r. split; [reflexivity|]. split; [exact HP|]. split; [exact HR|]. split; [lia|exact Ht]. }
    apply N.leb_le in E. assert (Hav' : i_avail s = 64 - r) by (destruct Hav as [X|X]; [exact X|exfalso; clear - X E; lia]).
    destruct (steps_spec U0 T0 r Hr 1 m s acc HP HR Hav' ltac:(cbn [N.of_nat]; clear - E Ht; lia)) as (s1 & acc1 & E1 & HP1 & HR1 & Hx & Ht1).
    cbn [steps] in E1. destruct (step64 r s) as [s9 [w|e]]; [|discriminate]. inversion E1; subst s9 acc1. clear E1.
    change (64 * N.of_nat 1) with 64 in Ht1.
    destruct (IH (m + 8 * 1)%nat s1 (rem - 64) (acc ++ be8 w) HP1 HR1) as (n & s' & acc' & E' & HP' & HR' & Hn & Ht').
    { destruct Hx as [X|[X|X]]; [discriminate|right; rewrite Ht1 in X; clear - X Ht; lia|left; exact X]. }
    { rewrite Ht1. clear - Ht. lia. }
    exists (S n), s', acc'. rewrite E'. replace (rem - 64 - 64 * N.of_nat n) with (rem - 64 * N.of_nat (S n)) by (clear; lia).
    replace (m + 8 * S n)%nat with (m + 8 * 1 + 8 * n)%nat by lia.
    split; [reflexivity|]. split; [exact HP'|]. split; [exact HR'|]. split; [clear - Hn E; lia|].
    replace (rem - 64 * N.of_nat (S n)) with (rem - 64 - 64 * N.of_nat n) by (clear; lia). exact Ht'.
Qed.

Lemma uloop256_spec U0 T0 r : 1 <= r <= 63 -> forall fuel m s rem acc, Ph U0 T0 m s acc -> RA s ->
  (i_avail s = 64 - r \/ rem < 64) -> rem <= total s ->
  exists (n : nat) s' acc', uloop256 fuel r (64 - r) s rem acc = (s', None, acc', rem - 64 * N.of_nat n) /\
    Ph U0 T0 (m + 8 * n) s' acc' /\ RA s' /\ 64 * N.of_nat n <= rem /\ rem - 64 * N.of_nat n <= total s' /\
    (i_avail s' = 64 - r \/ rem - 64 * N.of_nat n < 64).
Proof.
  intros Hr. induction fuel as [|f IH]; intros m s rem acc HP HR Hav Ht.
  - exists O, s, acc. cbn [uloop256 N.of_nat]. rewrite Nat.mul_0_r, Nat.add_0_r, N.mul_0_r, N.sub_0_r. split; [reflexivity|]. split; [exact HP|]. split; [exact HR|]. split; [lia|]. split; [exact Ht|exact Hav].
  - cbn [uloop256]. destruct (256 <=? rem) eqn:E.
    2:{ exists O, s, acc. cbn [N.of_nat]. rewrite Nat.mul_0_r, Nat.add_0_r, N.mul_0_r, N.sub_0_r. split; [reflexivity|]. split; [exact HP|]. split; [exact HR|]. split; [lia|]. split; [exact Ht|exact Hav]. }
    apply N.leb_le in E. assert (Hav' : i_avail s = 64 - r) by (destruct Hav as [X|X]; [exact X|exfalso; clear - X E; lia]).
    destruct (i_max1 s <=? i_pos s + 32) eqn:Eb.
    + (* close to the end of the buffer: one word through pull *)
      destruct (steps_spec U0 T0 r Hr 1 m s acc HP HR Hav' ltac:(cbn [N.of_nat]; clear - E Ht; lia)) as (s1 & acc1 & E1 & HP1 & HR1 & Hx & Ht1).
      cbn [steps] in E1. destruct (step64 r s) as [s9 [w|e]]; [|discriminate]. inversion E1; subst s9 acc1. clear E1.
      change (64 * N.of_nat 1) with 64 in Ht1.
      destruct (IH (m + 8 * 1)%nat s1 (rem - 64) (acc ++ be8 w) HP1 HR1) as (n & s' & acc' & E' & HP' & HR' & Hn & Ht' & Ha').
      { destruct Hx as [X|[X|X]]; [discriminate|right; rewrite Ht1 in X; clear - X Ht; lia|left; exact X]. }
      { rewrite Ht1. clear - Ht. lia. }
      exists (S n), s', acc'. rewrite E'. replace (rem - 64 - 64 * N.of_nat n) with (rem - 64 * N.of_nat (S n)) by (clear; lia).
      replace (m + 8 * S n)%nat with (m + 8 * 1 + 8 * n)%nat by lia.
      split; [reflexivity|]. split; [exact HP'|]. split; [exact HR'|]. split; [clear - Hn E; lia|].
      replace (rem - 64 * N.of_nat (S n)) with (rem - 64 - 64 * N.of_nat n) by (clear; lia). split; [exact Ht'|exact Ha'].
    + (* four words straight from the buffer *)
      apply N.leb_gt in Eb.
      pose proof (direct4 s r acc Eb Hr Hav') as Hd. cbv zeta in Hd.
      destruct (steps_spec U0 T0 r Hr 4 m s acc HP HR Hav' ltac:(cbn [N.of_nat]; clear - E Ht; lia)) as (s1 & acc1 & E1 & HP1 & HR1 & Hx & Ht1).
      change (64 * N.of_nat 4) with 256 in Ht1.
      pose proof (f_equal (fun t => fst (fst t)) Hd) as Hs. pose proof (f_equal snd Hd) as Hacc. cbn [fst snd] in Hs, Hacc.
      rewrite E1 in Hs, Hacc. cbn [fst snd] in Hs, Hacc.
      cbv zeta. rewrite Hav' in Hacc. rewrite <- Hs, <- Hacc.
      destruct (IH (m + 8 * 4)%nat s1 (rem - 256) acc1 HP1 HR1) as (n & s' & acc' & E' & HP' & HR' & Hn & Ht' & Ha').
      { destruct Hx as [X|[X|X]]; [discriminate|right; rewrite Ht1 in X; clear - X Ht; lia|left; exact X]. }
      { rewrite Ht1. clear - Ht. lia. }
      exists (4 + n)%nat, s', acc'. rewrite E'. replace (rem - 256 - 64 * N.of_nat n) with (rem - 64 * N.of_nat (4 + n)) by (clear; lia).
      replace (m + 8 * (4 + n))%nat with (m + 8 * 4 + 8 * n)%nat by lia.
      split; [reflexivity|]. split; [exact HP'|]. split; [exact HR'|]. split; [clear - Hn E; lia|].
      replace (rem - 64 * N.of_nat (4 + n)) with (rem - 256 - 64 * N.of_nat n) by (clear; lia). split; [exact Ht'|exact Ha'].
Qed.

(* ---------- the result of ReadArray ---------- *)
(* [c] bits of the vector (U, T) packed in bytes: whole bytes, then the remaining bits left-aligned *)
Definition bytes_of (U T c : N) : list N :=
  let m := N.to_nat (c / 8) in
  let t := c mod 8 in
  be_bytes m (U / 2 ^ (T - 8 * N.of_nat m)) ++
  (if t =? 0 then [] else [((U / 2 ^ (T - c)) mod 2 ^ t) * 2 ^ (8 - t)]).

Lemma bulk_read_small f s rem acc : rem < 8 -> bulk_read (S f) s rem acc = (s, None, acc, rem).
Proof.
  intros H. cbn [bulk_read]. rewrite N.shiftr_div_pow2. change (2 ^ 3) with 8. rewrite (N.div_small rem 8 H).
  replace (i_max1 s - i_pos s <? 0) with false by (symmetry; apply N.ltb_ge; lia). reflexivity.
Qed.

(* the tail of ReadArray from a phase state *)
Lemma tail_read U0 T0 count fuel m s rem acc : Ph U0 T0 m s acc -> RA s -> rem = count - 8 * N.of_nat m ->
  8 * N.of_nat m <= count -> count <= T0 -> rem < 8 * N.of_nat fuel ->
  exists s', (match read_bytes_while false fuel s rem acc with
              | (s2, Some e, _, _) => (s2, Pan e)
              | (s2, None, acc2, rem2) =>
                  if 0 <? rem2 then
                    match read_bits s2 rem2 with
                    | (s3, Pan e) => (s3, Pan e)
                    | (s3, Val v) => (s3, Val (acc2 ++ [N.land (N.shiftl v (8 - rem2)) 255]))
                    end
                  else (s2, Val acc2)
              end) = (s', Val (bytes_of U0 T0 count)) /\ RA s' /\
    total s' = T0 - count /\ uval s' = U0 mod 2 ^ (T0 - count).
Proof.
  intros HP HR Hrem Hm Hc Hfu.
  assert (Ht : rem <= total s) by (destruct HP as (_ & _ & T & _); rewrite T, Hrem; clear - Hc; lia).
  destruct (rbw_false U0 T0 fuel m s rem acc HP HR Ht Hfu) as (j & s2 & acc2 & E2 & HP2 & HR2 & Hj & Hr2). rewrite E2.
  set (M := (m + j)%nat) in *. set (rem2 := rem - 8 * N.of_nat j) in *.
  assert (Ecount : count = 8 * N.of_nat M + rem2) by (unfold M, rem2; rewrite Nat2N.inj_add; clear - Hrem Hm Hj; lia).
  assert (EM : N.to_nat (count / 8) = M /\ count mod 8 = rem2).
  { assert (X : count / 8 = N.of_nat M /\ count mod 8 = rem2).
    { rewrite Ecount. split; [symmetry; apply (N.div_unique _ 8 (N.of_nat M) rem2); [exact Hr2|reflexivity]|symmetry; apply (N.mod_unique _ 8 (N.of_nat M) rem2); [exact Hr2|reflexivity]]. }
    destruct X as [X1 X2]. rewrite X1, Nat2N.id. auto. }
  destruct EM as [EM1 EM2]. destruct HP2 as (A2 & U2 & T2 & L2).
  destruct (0 <? rem2) eqn:E0.
  - apply N.ltb_lt in E0.
    destruct (rd s2 rem2 HR2 ltac:(clear - E0 Hr2; lia) ltac:(rewrite T2; clear - Ecount Hc; lia)) as (s3 & E3 & HR3 & T3 & U3).
    rewrite E3. exists s3.
    assert (Ed : total s2 - rem2 = T0 - count) by (rewrite T2; clear - Ecount; lia).
    set (v := uval s2 / 2 ^ (total s2 - rem2)).
    assert (Hv : v = (U0 / 2 ^ (T0 - count)) mod 2 ^ rem2).
    { unfold v. rewrite Ed, U2. replace (T0 - 8 * N.of_nat M) with ((T0 - count) + rem2) by (clear - Ecount Hc; lia).
      rewrite N.add_comm. rewrite (mod_div_pow U0 (rem2 + (T0 - count)) (T0 - count)) by lia. f_equal. f_equal. clear. lia. }
    assert (Hvl : v < 2 ^ rem2) by (rewrite Hv; apply N.mod_lt; apply N.pow_nonzero; discriminate).
    assert (Hlast : N.land (N.shiftl v (8 - rem2)) 255 = v * 2 ^ (8 - rem2)).
    { change 255 with (N.ones 8). rewrite N.land_ones, N.shiftl_mul_pow2. apply N.mod_small.
      assert (X : 2 ^ 8 = 2 ^ rem2 * 2 ^ (8 - rem2)) by (rewrite <- N.pow_add_r; f_equal; clear - Hr2; lia).
      rewrite X. apply N.mul_lt_mono_pos_r; [apply pow2_pos|exact Hvl]. }
    split; [|split; [exact HR3|split]].
    + f_equal. f_equal. unfold bytes_of. rewrite EM1, EM2. replace (rem2 =? 0) with false by (symmetry; apply N.eqb_neq; clear - E0; lia).
      rewrite A2, Hlast, Hv. reflexivity.
    + rewrite T3. exact Ed.
    + rewrite U3, Ed, U2. apply mod_mod_pow2. clear - Ecount. lia.
  - apply N.ltb_ge in E0. assert (Ez : rem2 = 0) by (clear - E0; lia). exists s2.
    assert (Ec8 : count = 8 * N.of_nat M) by (rewrite Ecount, Ez; clear; lia).
    split; [|split; [exact HR2|split]].
    + f_equal. f_equal. unfold bytes_of. rewrite EM1, EM2, Ez. cbn [N.eqb]. rewrite app_nil_r. exact A2.
    + rewrite T2, Ec8. reflexivity.
    + rewrite U2, Ec8. reflexivity.
Qed.

Theorem read_array_spec s count : RA s -> 0 < count -> count <= total s ->
  exists s', read_array s count = (s', Val (bytes_of (uval s) (total s) count)) /\ RA s' /\
    total s' = total s - count /\ uval s' = uval s mod 2 ^ (total s - count).
Proof.
  intros HR Hc0 Hc. pose proof HR as [HA HAL Hs8]. pose proof HA as [HI Hav Hcur].
  unfold read_array. rewrite (ii_open s HI). replace (count =? 0) with false by (symmetry; apply N.eqb_neq; lia).
  set (U0 := uval s) in *. set (T0 := total s) in *.
  set (fuel := S (S (N.to_nat (count / 8)))).
  assert (Hfuel : count < 8 * N.of_nat fuel).
  { unfold fuel. rewrite !Nat2N.inj_succ, N2Nat.id. pose proof (N.div_mod count 8 ltac:(discriminate)). pose proof (N.mod_lt count 8 ltac:(discriminate)). lia. }
  pose proof (ph_init s HA) as HP0. fold U0 T0 in HP0.
  destruct (N.land (i_avail s) 7 =? 0) eqn:Eal.
  - (* byte-aligned cursor *)
    apply N.eqb_eq in Eal. rewrite land7 in Eal.
    (* the optional pull *)
    assert (Hstart : exists s0, (if i_avail s =? 0
                                 then match pull s with (s', Val (c, a)) => (set_iacc s' a c, None) | (s', Pan e) => (s', Some e) end
                                 else (s, None)) = (s0, None) /\ Ph U0 T0 0 s0 [] /\ RA s0 /\ i_avail s0 mod 8 = 0 /\ i_avail s0 < 72).
    { destruct (i_avail s =? 0) eqn:E0.
      - apply N.eqb_eq in E0.
        assert (Hne : rest_bytes s <> []).
        { intros Hn. unfold T0, total, nb in Hc. rewrite Hn, E0 in Hc. cbn in Hc. lia. }
        destruct (pull_fill s HA E0 Hne) as (s1 & c & a & Ep & HA2 & Ha8 & Ht2 & Hu2). rewrite Ep.
        destruct (pull_both s s1 c a HI HAL Hs8 Ep) as (_ & HAL1 & Hsz1 & _).
        exists (set_iacc s1 a c). split; [reflexivity|].
        destruct (pull_spec s HI) as [(_ & s9 & e9 & E9)|(_ & s9 & k & Hk & _ & E9 & _)]; rewrite E9 in Ep; [discriminate|].
        injection Ep as _ _ Ea.
        split; [apply (ph_transfer U0 T0 0 s _ [] HP0 Hu2 Ht2)|]. split; [constructor; [exact HA2|exact HAL1|change (i_size (set_iacc s1 a c)) with (i_size s1); rewrite Hsz1; exact Hs8]|].
        cbn [set_iacc i_avail]. rewrite <- Ea. split; [rewrite N.mul_comm; apply N.mod_mul; discriminate|clear - Hk; lia].
      - exists s. split; [reflexivity|]. split; [exact HP0|]. split; [exact HR|]. split; [exact Eal|lia]. }
    destruct Hstart as (s0 & Es0 & HPs0 & HRs0 & Ha80 & Ha72). rewrite Es0.
    assert (Ht0 : count <= total s0) by (destruct HPs0 as (_ & _ & T & _); rewrite T; cbn [N.of_nat]; rewrite N.mul_0_r, N.sub_0_r; exact Hc).
    destruct (rbw_true U0 T0 9 0 s0 count [] HPs0 HRs0 Ht0 Ha80 ltac:(exact Ha72)) as (j1 & sa & acca & Ea & HPa & HRa & Hj1 & Hexa & Ha8a).
    rewrite Ea. cbn [plus] in HPa. set (rem1 := count - 8 * N.of_nat j1) in *.
    assert (Hta : rem1 <= total sa) by (destruct HPa as (_ & _ & T & _); rewrite T; unfold rem1; clear - Hc; lia).
    destruct (N.eq_dec (i_avail sa) 0) as [Eva|Eva].
    + (* the accumulator is empty: bulk *)
      destruct (bulk_read_spec U0 T0 fuel j1 sa rem1 acca HPa HRa Eva Hta) as (j2 & sb & accb & Eb & HPb & HRb & Evb & Hj2 & Hexb).
      { unfold fuel. rewrite !Nat2N.inj_succ, N2Nat.id, N.shiftr_div_pow2. change (2 ^ 3) with 8.
        assert (rem1 / 8 <= count / 8) by (apply N.div_le_mono; [discriminate|unfold rem1; lia]).
        destruct (i_max1 sa - i_pos sa =? 0); lia. }
      rewrite Eb. set (rem2 := rem1 - 8 * N.of_nat j2) in *.
      set (kN := 8 * N.shiftr rem2 6).
      assert (Hk3 : kN <= N.shiftr rem2 3 /\ kN mod 8 = 0 /\ 8 * kN <= rem2).
      { unfold kN. rewrite !N.shiftr_div_pow2. change (2 ^ 6) with 64. change (2 ^ 3) with 8.
        pose proof (N.div_mod rem2 64 ltac:(discriminate)). pose proof (N.mod_lt rem2 64 ltac:(discriminate)).
        split; [|split; [rewrite N.mul_comm; apply N.mod_mul; discriminate|lia]].
        apply N.div_le_lower_bound; [discriminate|]. lia. }
      destruct Hk3 as (Hk3a & Hk3b & Hk3c).
      destruct (0 <? kN) eqn:Ek.
      * set (k := N.to_nat kN).
        assert (Hkk : N.of_nat k <= i_max1 sb - i_pos sb) by (unfold k; rewrite N2Nat.id; clear - Hk3a Hexb; lia).
        destruct (rest_set_pos sb k Hkk) as [Hr1 Hf1].
        replace (i_pos sb + kN) with (i_pos sb + N.of_nat k) by (unfold k; rewrite N2Nat.id; reflexivity).
        set (sc := set_ipos sb (i_pos sb + N.of_nat k)) in *.
        assert (HRc : RA sc).
        { apply ra_set_pos; [exact HRb| |].
          - pose proof (ii_pos sb (ai_i sb (ra_a sb HRb))). clear - Hkk H. lia.
          - replace (i_pos sb + N.of_nat k - i_pos sb) with kN by (unfold k; rewrite N2Nat.id; clear; lia). exact Hk3b. }
        assert (HPc : Ph U0 T0 (j1 + j2 + k) sc (accb ++ firstn k (skipn (N.to_nat (i_pos sb)) (i_buf sb)))).
        { rewrite <- Hf1. apply (ph_bytes U0 T0 (j1 + j2) sb sc accb k HPb (ra_a sb HRb) Evb (ra_a sc HRc) Evb); [|exact Hr1].
          unfold rest_bytes. rewrite app_length, skipn_length. unfold i_max1 in Hkk. clear - Hkk. lia. }
        replace (firstn (N.to_nat kN) (skipn (N.to_nat (i_pos sb)) (i_buf sb))) with (firstn k (skipn (N.to_nat (i_pos sb)) (i_buf sb))) by reflexivity.
        destruct (tail_read U0 T0 count fuel (j1 + j2 + k) sc (rem2 - 8 * kN) _ HPc HRc) as (s' & E' & HR' & T' & U').
        { unfold rem2, rem1, k. rewrite !Nat2N.inj_add, N2Nat.id. clear. lia. }
        { unfold k. rewrite !Nat2N.inj_add, N2Nat.id. unfold rem2, rem1 in Hk3c. clear - Hk3c Hj1 Hj2. lia. }
        { exact Hc. }
        { clear - Hfuel. lia. }
        rewrite E'. exists s'. auto.
      * apply N.ltb_ge in Ek.
        destruct (tail_read U0 T0 count fuel (j1 + j2) sb rem2 accb HPb HRb) as (s' & E' & HR' & T' & U').
        { unfold rem2, rem1. rewrite Nat2N.inj_add. clear. lia. }
        { rewrite Nat2N.inj_add. unfold rem1 in Hj2. clear - Hj1 Hj2. lia. }
        { exact Hc. }
        { unfold rem2, rem1. clear - Hfuel. lia. }
        rewrite E'. exists s'. auto.
    + (* fewer than 8 bits are wanted: nothing to copy *)
      assert (Hr8 : rem1 < 8) by (destruct Hexa as [X|X]; [congruence|exact X]).
      unfold fuel at 1. rewrite (bulk_read_small _ sa rem1 acca Hr8).
      assert (Hk0 : 8 * N.shiftr rem1 6 = 0) by (rewrite N.shiftr_div_pow2; change (2 ^ 6) with 64; rewrite N.div_small by lia; reflexivity).
      rewrite Hk0. cbn [N.ltb N.compare].
      destruct (tail_read U0 T0 count fuel j1 sa rem1 acca HPa HRa eq_refl Hj1 Hc ltac:(unfold rem1; clear - Hfuel; lia)) as (s' & E' & HR' & T' & U').
      rewrite E'. exists s'. auto.
  - (* unaligned cursor *)
    apply N.eqb_neq in Eal. rewrite land7 in Eal.
    set (r := 64 - i_avail s).
    assert (Hr : 1 <= r <= 63).
    { unfold r. assert (i_avail s <> 0) by (intros E; rewrite E in Eal; apply Eal; reflexivity).
      assert (i_avail s <> 64) by (intros E; rewrite E in Eal; apply Eal; reflexivity). lia. }
    assert (Hav' : i_avail s = 64 - r) by (unfold r; clear - Hav; lia).
    cbv zeta. fold r. replace (uloop256 fuel r (i_avail s) s count []) with (uloop256 fuel r (64 - r) s count []) by (rewrite <- Hav'; reflexivity).
    destruct (uloop256_spec U0 T0 r Hr fuel 0 s count [] HP0 HR (or_introl Hav') Hc) as (n1 & sa & acca & Ea & HPa & HRa & Hn1 & Hta & Hava).
    rewrite Ea. cbn [plus] in HPa.
    destruct (uloop64_spec U0 T0 r Hr fuel (8 * n1) sa (count - 64 * N.of_nat n1) acca HPa HRa Hava Hta) as (n2 & sb & accb & Eb & HPb & HRb & Hn2 & Htb).
    rewrite Eb.
    destruct (tail_read U0 T0 count fuel (8 * n1 + 8 * n2) sb (count - 64 * N.of_nat n1 - 64 * N.of_nat n2) accb HPb HRb) as (s' & E' & HR' & T' & U').
    { rewrite Nat2N.inj_add, !Nat2N.inj_mul. change (N.of_nat 8) with 8. clear. lia. }
    { rewrite Nat2N.inj_add, !Nat2N.inj_mul. change (N.of_nat 8) with 8. clear - Hn1 Hn2. lia. }
    { exact Hc. }
    { clear - Hfuel. lia. }
    rewrite E'. exists s'. auto.
Qed.

(* a fresh stream over any source, with a buffer of whole words *)
Lemma new_ibs_ra bufsize data sched : 0 < bufsize -> bufsize mod 8 = 0 -> bytes_ok data ->
  let s := new_ibs bufsize (mkSrc data sched None 0) in
  RA s /\ uval s = be_val data /\ total s = 8 * N.of_nat (length data).
Proof.
  intros Hb H8 Hd. destruct (new_ibs_inv bufsize data sched Hb Hd) as (A & U & T).
  split; [|split; [exact U|exact T]]. constructor; [exact A|left; reflexivity|exact H8].
Qed.

(* the result only depends on the bits that are read *)
Lemma bytes_of_top U T c : c <= T -> bytes_of U T c = bytes_of (U / 2 ^ (T - c)) c c.
Proof.
  intros Hc. unfold bytes_of. set (m := N.to_nat (c / 8)). set (t := c mod 8).
  assert (Hm : 8 * N.of_nat m <= c) by (unfold m; rewrite N2Nat.id; pose proof (N.div_mod c 8 ltac:(discriminate)); lia).
  rewrite N.sub_diag. change (2 ^ 0) with 1. rewrite N.div_1_r. f_equal.
  rewrite N.div_div by (apply N.pow_nonzero; discriminate). rewrite <- N.pow_add_r. f_equal. f_equal. f_equal. lia.
Qed.

(* ---------- programs with arrays, and the full mirror ---------- *)
Inductive arop := ARop (o : rop) | ARArr (count : N).
Inductive aval := AVal (v : N) | ABytes (l : list N).

Definition arop_ok (o : arop) : Prop := match o with ARop w => rop_ok w | ARArr c => 0 < c end.
Definition arop_size (o : arop) : N := match o with ARop w => rop_size w | ARArr c => c end.

Definition run_arop (s : ibs) (o : arop) : ibs * outcome aval :=
  match o with
  | ARop w => match run_rop s w with (s1, Val v) => (s1, Val (AVal v)) | (s1, Pan e) => (s1, Pan e) end
  | ARArr c => match read_array s c with (s1, Val l) => (s1, Val (ABytes l)) | (s1, Pan e) => (s1, Pan e) end
  end.

Fixpoint run_arops (s : ibs) (ops : list arop) : list (option aval) :=
  match ops with
  | [] => []
  | o :: t => match run_arop s o with
              | (s1, Val v) => Some v :: run_arops s1 t
              | (_, Pan _) => [None]
              end
  end.

Fixpoint spec_arops (U T : N) (ops : list arop) : list (option aval) :=
  match ops with
  | [] => []
  | o :: t => let c := arop_size o in
              (match o with ARop _ => Some (AVal (U / 2 ^ (T - c))) | ARArr _ => Some (ABytes (bytes_of U T c)) end)
              :: spec_arops (U mod 2 ^ (T - c)) (T - c) t
  end.

Fixpoint sizes (ops : list arop) : N := match ops with [] => 0 | o :: t => arop_size o + sizes t end.

Lemma read_bit_ra s : RA s -> 1 <= total s ->
  exists s', read_bit s = (s', Val (uval s / 2 ^ (total s - 1))) /\ RA s' /\
    total s' = total s - 1 /\ uval s' = uval s mod 2 ^ (total s - 1).
Proof.
  intros [HA HAL Hs8] Ht. destruct (read_bit_ok s HA Ht) as (s' & E & HA' & T' & U').
  exists s'. split; [exact E|]. split; [|auto].
  assert (Hx : AL s' /\ i_size s' = i_size s).
  { unfold read_bit in E. destruct (i_avail s =? 0).
    - destruct (pull s) as [s1 [[c a]|e]] eqn:Ep; [|discriminate].
      destruct (pull_both s s1 c a (ai_i s HA) HAL Hs8 Ep) as (_ & HAL1 & Hsz1 & _).
      inversion E; subst. split; [exact HAL1|exact Hsz1].
    - inversion E; subst. split; [exact HAL|reflexivity]. }
  destruct Hx as [A B]. constructor; [exact HA'|exact A|rewrite B; exact Hs8].
Qed.

Theorem array_reader_program : forall ops s, RA s -> Forall arop_ok ops -> sizes ops <= total s ->
  run_arops s ops = spec_arops (uval s) (total s) ops.
Proof.
  induction ops as [|o t IH]; intros s HR Hok Hsz; [reflexivity|].
  inversion Hok as [|? ? Ho Ht]; subst. cbn [run_arops spec_arops sizes] in *.
  destruct o as [[|c]|c]; cbn [run_arop run_rop arop_size rop_size arop_ok rop_ok] in *.
  - destruct (read_bit_ra s HR ltac:(lia)) as (s' & E & HR' & T' & U'). rewrite E.
    rewrite (IH s' HR' Ht) by (rewrite T'; lia). rewrite T', U'. reflexivity.
  - destruct (rd s c HR Ho ltac:(lia)) as (s' & E & HR' & T' & U'). rewrite E.
    rewrite (IH s' HR' Ht) by (rewrite T'; lia). rewrite T', U'. reflexivity.
  - destruct (read_array_spec s c HR Ho ltac:(lia)) as (s' & E & HR' & T' & U'). rewrite E.
    rewrite (IH s' HR' Ht) by (rewrite T'; lia). rewrite T', U'. reflexivity.
Qed.
