(* WriteArray (C14): for every reachable state, byte string and bit count, the fast paths of
   DefaultOutputBitStream.WriteArray (byte-aligned: byte loop, bulk copies into the buffer; unaligned:
   the 256-bit and 64-bit combining loops; then the tail) append exactly the first [count] bits of the
   byte string to the stream. *)
From Coq Require Import List NArith ZArith Lia Bool ZifyN ZifyNat ZifyBool Ring.
From KV Require Import Model.OutBS Lib.Bits Proofs.OutBSProofs Proofs.BinCoderProofs.
Import ListNotations.
Open Scope N_scope.

Ltac Zify.zify_post_hook ::= idtac.
Local Opaque be8.
Local Arguments N.pow : simpl never.
Local Arguments N.div : simpl never.
Local Arguments N.modulo : simpl never.
Local Arguments N.mul : simpl never.
Local Arguments N.sub : simpl never.
Local Arguments N.add : simpl never.
Local Arguments N.shiftr : simpl never.
Local Arguments N.shiftl : simpl never.
Local Arguments N.land : simpl never.
Local Arguments N.lor : simpl never.

Ltac pj := cbn [o_closed o_written o_buf o_size o_avail o_cur o_out o_calls set_buf set_acc].

Lemma skipn_skipn_gen {A} (l : list A) : forall y x, skipn x (skipn y l) = skipn (y + x) l.
Proof.
  induction l as [|a l IH]; intros y x; [rewrite !skipn_nil; reflexivity|].
  destruct y as [|y]; [reflexivity|]. cbn [plus skipn]. apply IH.
Qed.

(* the state invariant of the array paths: positions are whole words, the buffer holds at least 5 words *)
Record AWF (s : obs) : Prop := {
  aw_wf : WF s;
  aw_pos : o_pos s mod 8 = 0;
  aw_size : o_size s mod 8 = 0;
  aw_min : 40 <= o_size s
}.

(* push and flush do not look at the accumulator *)
Lemma flush_acc s x y : flush healthy (set_acc s x y) = let '(s1, e) := flush healthy s in (set_acc s1 x y, e).
Proof.
  unfold flush, healthy. pj. unfold o_pos. pj. destruct (o_closed s); [reflexivity|]. destruct (0 <? N.of_nat (length (o_buf s))); reflexivity.
Qed.

Lemma push_acc s x y v : push healthy (set_acc s x y) v = let '(s1, e) := push healthy s v in (set_acc s1 x y, e).
Proof.
  unfold push. unfold o_pos. pj. destruct (o_size s <? N.of_nat (length (o_buf s)) + 8); [reflexivity|].
  change (set_buf (set_acc s x y) (o_buf s ++ be8 v)) with (set_acc (set_buf s (o_buf s ++ be8 v)) x y).
  pj. destruct (o_size s - 8 <=? N.of_nat (length (o_buf s ++ be8 v))); [apply flush_acc|reflexivity].
Qed.

Lemma binv_acc s x y : BInv s -> BInv (set_acc s x y).
Proof. intros [A B C D]. constructor; assumption. Qed.

(* position after a push: 8 more bytes, or an empty buffer *)
Lemma push_facts s v s' : BInv s -> push healthy s v = (s', false) ->
  o_size s' = o_size s /\ (o_pos s' = o_pos s + 8 \/ o_pos s' = 0).
Proof.
  intros [Ho Hs Hp Hw]. unfold push. replace (o_size s <? o_pos s + 8) with false by (symmetry; apply N.ltb_ge; lia).
  set (s1 := set_buf s (o_buf s ++ be8 v)).
  assert (Hp1 : o_pos s1 = o_pos s + 8) by (unfold o_pos, s1; pj; rewrite app_length, be8_length; lia).
  destruct (o_size s1 - 8 <=? o_pos s1).
  - rewrite flush_healthy by (unfold s1; pj; exact Ho). destruct (0 <? o_pos s1); intros H; inversion H; subst.
    + split; [reflexivity|right; reflexivity].
    + split; [reflexivity|left; exact Hp1].
  - intros H; inversion H; subst. split; [reflexivity|left; exact Hp1].
Qed.

Lemma write_bits_pos s v c s' : WF s -> write_bits healthy s v c = (s', false) -> o_size s' = o_size s /\
  (o_pos s' = o_pos s \/ o_pos s' = o_pos s + 8 \/ o_pos s' = 0).
Proof.
  intros [HB _ _ _]. unfold write_bits. destruct (64 <? c); [discriminate|].
  destruct (o_avail s <=? c).
  - match goal with |- context [push healthy ?a ?b] => destruct (push healthy a b) as [s1 [|]] eqn:E end; [discriminate|].
    intros H; inversion H; subst.
    destruct (push_facts _ _ _ (binv_acc s _ _ HB) E) as [Hsz Hpos].
    change (o_size (set_acc s1 (64 - (c - o_avail s)) (shl64 v (64 - (c - o_avail s))))) with (o_size s1).
    change (o_pos (set_acc s1 (64 - (c - o_avail s)) (shl64 v (64 - (c - o_avail s))))) with (o_pos s1).
    split; [exact Hsz|]. destruct Hpos as [P|P]; [right; left; exact P|right; right; exact P].
  - intros H; inversion H; subst. split; [reflexivity|left; reflexivity].
Qed.

Lemma awf_write_bits s v c : AWF s -> c <= 64 ->
  exists s', write_bits healthy s v c = (s', false) /\ AWF s' /\
    oval s' = oval s * 2 ^ c + v mod 2 ^ c /\ onbits s' = onbits s + c.
Proof.
  intros [HW Hp Hs Hm] Hc. destruct (write_bits_spec s v c HW Hc) as (s' & E & HW' & V & B & _).
  exists s'. split; [exact E|]. destruct (write_bits_pos s v c s' HW E) as [Hsz Hpos].
  split; [|auto]. constructor; [exact HW'| |rewrite Hsz; exact Hs|rewrite Hsz; exact Hm].
  destruct Hpos as [Hq|[Hq|Hq]]; rewrite Hq; [exact Hp| |reflexivity].
  rewrite N.add_mod, Hp by discriminate. reflexivity.
Qed.

(* the first [c] bits of a byte string *)
Definition topbits (bits : list N) (c : N) : N := be_val bits / 2 ^ (8 * N.of_nat (length bits) - c).

(* ---------- the byte loops ---------- *)
Lemma wbw_spec stop : forall bits s rem, AWF s -> bytes_ok bits ->
  exists (k : nat) s', write_bytes_while healthy stop s bits rem = (s', false, skipn k bits, rem - 8 * N.of_nat k) /\ AWF s' /\
    (k <= length bits)%nat /\ 8 * N.of_nat k <= rem /\
    oval s' = oval s * 2 ^ (8 * N.of_nat k) + be_val (firstn k bits) /\ onbits s' = onbits s + 8 * N.of_nat k /\
    (k = length bits \/ rem - 8 * N.of_nat k < 8 \/ (stop = true /\ o_avail s' = 64)).
Proof.
  induction bits as [|b t IH]; intros s rem HA Hb.
  - exists O, s. cbn [write_bytes_while skipn firstn be_val length N.of_nat]. rewrite N.mul_0_r, N.sub_0_r, N.add_0_r.
    change (2 ^ 0) with 1. rewrite N.mul_1_r, N.add_0_r. split; [reflexivity|]. split; [exact HA|]. split; [lia|]. split; [lia|]. auto.
  - inversion Hb as [|? ? Hb1 Hbt]; subst. cbn [write_bytes_while].
    destruct ((stop && (o_avail s =? 64)) || (rem <? 8)) eqn:Ec.
    + exists O, s. cbn [skipn firstn be_val length N.of_nat]. rewrite N.mul_0_r, N.sub_0_r, N.add_0_r.
      change (2 ^ 0) with 1. rewrite N.mul_1_r, N.add_0_r. split; [reflexivity|]. split; [exact HA|]. split; [lia|]. split; [lia|].
      split; [reflexivity|]. split; [reflexivity|]. right.
      apply orb_true_iff in Ec. destruct Ec as [Ec|Ec]; [right|left].
      * apply andb_true_iff in Ec. destruct Ec as [-> Ea]. apply N.eqb_eq in Ea. auto.
      * apply N.ltb_lt in Ec. exact Ec.
    + apply orb_false_iff in Ec. destruct Ec as [_ Er]. apply N.ltb_ge in Er.
      destruct (awf_write_bits s b 8 HA ltac:(lia)) as (s1 & E1 & HA1 & V1 & B1). rewrite E1.
      destruct (IH s1 (rem - 8) HA1 Hbt) as (k & s' & E & HA' & Hk & Hr & V & B & Hex).
      exists (S k), s'. rewrite E. cbn [skipn length].
      replace (rem - 8 - 8 * N.of_nat k) with (rem - 8 * N.of_nat (S k)) by lia.
      split; [reflexivity|]. split; [exact HA'|]. split; [lia|]. split; [lia|].
      change (2 ^ 8) with 256 in V1. rewrite (N.mod_small b 256 Hb1) in V1.
      split; [|split; [lia|]].
      * rewrite V, V1. cbn [firstn be_val]. rewrite firstn_length.
        replace (Nat.min k (length t)) with k by lia.
        replace (8 * N.of_nat (S k)) with (8 + 8 * N.of_nat k) by lia. rewrite N.pow_add_r. change (2 ^ 8) with 256. lia.
      * destruct Hex as [->|[Hx|Hx]]; [left; reflexivity|right; left; lia|right; right; exact Hx].
Qed.

(* ---------- byte-aligned cursor: bulk copies straight into the buffer ---------- *)
Lemma acc_empty s : WF s -> o_avail s = 64 -> o_cur s = 0 /\ oval s = be_val (obytes s) /\ onbits s = 8 * N.of_nat (length (obytes s)).
Proof.
  intros [_ _ Hc Hl] Ha. rewrite Ha in Hl. rewrite N.mod_small in Hl by exact Hc. split; [exact Hl|].
  unfold oval, onbits. rewrite Ha, Hl. change (64 - 64) with 0. change (2 ^ 0) with 1. rewrite N.div_0_l by discriminate. lia.
Qed.

(* appending whole bytes to the buffer of a stream whose accumulator is empty *)
Lemma append_bytes s chunk : AWF s -> o_avail s = 64 -> bytes_ok chunk ->
  o_pos s + N.of_nat (length chunk) + 8 <= o_size s -> N.of_nat (length chunk) mod 8 = 0 ->
  let s' := set_buf s (o_buf s ++ chunk) in
  AWF s' /\ o_avail s' = 64 /\ obytes s' = obytes s ++ chunk.
Proof.
  intros [[[Ho Hs Hp Hw] Hav Hcur Hlow] Hp8 Hs8 Hm] Ha Hb Hroom Hk s'.
  assert (Hpos' : o_pos s' = o_pos s + N.of_nat (length chunk)) by (unfold o_pos, s'; pj; rewrite app_length; lia).
  split; [|split; [exact Ha|unfold obytes, s'; pj; apply app_assoc]].
  constructor; [constructor; [constructor|..]|..]; unfold s'; pj; try assumption.
  - fold s'. rewrite Hpos'. lia.
  - fold s'. rewrite Hpos'. rewrite N.add_mod, Hp8, Hk by discriminate. reflexivity.
Qed.

Lemma flush_awf s : AWF s ->
  exists s', flush healthy s = (s', false) /\ AWF s' /\ o_avail s' = o_avail s /\ o_cur s' = o_cur s /\
    obytes s' = obytes s /\ o_pos s' = 0 /\ o_size s' = o_size s.
Proof.
  intros [[[Ho Hs Hp Hw] Hav Hcur Hlow] Hp8 Hs8 Hm]. rewrite flush_healthy by exact Ho.
  destruct (0 <? o_pos s) eqn:E.
  - eexists. split; [reflexivity|]. split; [|split; [reflexivity|split; [reflexivity|split; [unfold obytes; pj; rewrite app_nil_r; reflexivity|split; reflexivity]]]].
    constructor; [constructor; [constructor|..]|..]; pj; try assumption; try reflexivity.
    + unfold o_pos. pj. cbn [length N.of_nat]. lia.
    + rewrite Hw, app_length. unfold o_pos. lia.
  - apply N.ltb_ge in E. exists s. split; [reflexivity|]. split; [constructor; [constructor; [constructor|..]|..]; assumption|].
    split; [reflexivity|]. split; [reflexivity|]. split; [reflexivity|]. split; [lia|reflexivity].
Qed.

Lemma bulk_copy_spec : forall fuel s bits rem, AWF s -> o_avail s = 64 -> bytes_ok bits ->
  rem <= 8 * N.of_nat (length bits) ->
  (length bits + (if (o_pos s =? 0)%N then 0 else 32) < 32 * fuel)%nat ->
  exists (k : nat) s', bulk_copy healthy fuel s bits rem = (s', false, skipn k bits, rem - 8 * N.of_nat k) /\ AWF s' /\
    o_avail s' = 64 /\ (k <= length bits)%nat /\ 8 * N.of_nat k <= rem /\ obytes s' = obytes s ++ firstn k bits /\
    N.shiftr (rem - 8 * N.of_nat k) 3 < o_size s' - 8 - o_pos s'.
Proof.
  induction fuel as [|f IH]; intros s bits rem HA Ha Hb Hrem Hfu; [lia|].
  cbn [bulk_copy]. set (room := o_size s - 8 - o_pos s).
  destruct (room <=? N.shiftr rem 3) eqn:Ec.
  - apply N.leb_le in Ec. rewrite N.shiftr_div_pow2 in Ec. change (2 ^ 3) with 8 in Ec.
    pose proof HA as [[[Ho Hs Hp Hw] Hav Hcur Hlow] Hp8 Hs8 Hm].
    assert (Hroom8 : room mod 8 = 0).
    { unfold room. pose proof (N.div_mod (o_size s) 8 ltac:(discriminate)). pose proof (N.div_mod (o_pos s) 8 ltac:(discriminate)).
      rewrite Hs8 in H. rewrite Hp8 in H0.
      replace (o_size s - 8 - o_pos s) with (8 * (o_size s / 8 - 1 - o_pos s / 8)) by lia. rewrite N.mul_comm. apply N.mod_mul. discriminate. }
    assert (Hrl : (N.to_nat room <= length bits)%nat).
    { pose proof (N.div_mod rem 8 ltac:(discriminate)). pose proof (N.mod_lt rem 8 ltac:(discriminate)). lia. }
    set (chunk := firstn (N.to_nat room) bits).
    assert (Hcl : length chunk = N.to_nat room) by (unfold chunk; rewrite firstn_length; lia).
    destruct (append_bytes s chunk HA Ha (bytes_ok_firstn _ _ Hb)) as (HA1 & Ha1 & Hby1).
    { rewrite Hcl, N2Nat.id. unfold room. lia. }
    { rewrite Hcl, N2Nat.id. exact Hroom8. }
    destruct (flush_awf _ HA1) as (s2 & E2 & HA2 & Ha2' & _ & Hby2 & Hp2 & Hs2).
    assert (Ha2 : o_avail s2 = 64) by (rewrite Ha2'; exact Ha1).
    fold chunk. rewrite E2.
    destruct (IH s2 (skipn (N.to_nat room) bits) (rem - 8 * room) HA2 Ha2 (bytes_ok_skipn _ _ Hb)) as (k & s' & E & HA' & Ha' & Hk & Hr & Hby & Hex).
    { rewrite skipn_length. pose proof (N.div_mod rem 8 ltac:(discriminate)). lia. }
    { rewrite Hp2. cbn [N.eqb]. rewrite skipn_length.
      destruct (o_pos s =? 0) eqn:E0.
      - apply N.eqb_eq in E0. unfold room in *. rewrite E0 in *. lia.
      - lia. }
    exists (N.to_nat room + k)%nat, s'. rewrite E. rewrite skipn_skipn_gen.
    replace (rem - 8 * room - 8 * N.of_nat k) with (rem - 8 * N.of_nat (N.to_nat room + k)) by lia.
    split; [reflexivity|]. split; [exact HA'|]. split; [exact Ha'|]. rewrite skipn_length in Hk.
    split; [lia|]. split; [lia|]. split.
    + rewrite Hby, Hby2, Hby1, <- app_assoc. f_equal. unfold chunk. symmetry. apply firstn_plus.
    + replace (rem - 8 * N.of_nat (N.to_nat room + k)) with (rem - 8 * room - 8 * N.of_nat k) by lia. exact Hex.
  - apply N.leb_gt in Ec. exists O, s. cbn [skipn firstn N.of_nat]. rewrite N.mul_0_r, N.sub_0_r, app_nil_r.
    split; [reflexivity|]. split; [exact HA|]. split; [exact Ha|]. split; [lia|]. split; [lia|]. split; [reflexivity|exact Ec].
Qed.

(* fewer than 8 bits left: the bulk loop can only flush (when the buffer is exactly full), it copies nothing *)
Lemma same_bits s s' : o_avail s' = o_avail s -> o_cur s' = o_cur s -> obytes s' = obytes s ->
  oval s' = oval s /\ onbits s' = onbits s.
Proof. intros A C B. unfold oval, onbits. rewrite A, C, B. auto. Qed.

Lemma bulk_copy_small : forall fuel s bits rem, AWF s -> rem < 8 ->
  exists s', bulk_copy healthy fuel s bits rem = (s', false, bits, rem) /\ AWF s' /\ o_avail s' = o_avail s /\
    oval s' = oval s /\ onbits s' = onbits s.
Proof.
  intros fuel s bits rem HA Hr.
  assert (Hsh : N.shiftr rem 3 = 0) by (rewrite N.shiftr_div_pow2; change (2 ^ 3) with 8; apply N.div_small; exact Hr).
  destruct fuel as [|f]; [exists s; cbn [bulk_copy]; auto|].
  cbn [bulk_copy]. rewrite Hsh. destruct (o_size s - 8 - o_pos s <=? 0) eqn:Ec.
  - apply N.leb_le in Ec. assert (Er : o_size s - 8 - o_pos s = 0) by lia. rewrite Er.
    cbn [N.to_nat firstn skipn]. rewrite app_nil_r, N.mul_0_r, N.sub_0_r.
    assert (Es : set_buf s (o_buf s) = s) by (destruct s; reflexivity). rewrite Es.
    destruct (flush_awf s HA) as (s2 & E2 & HA2 & Ha2 & Hc2 & Hby2 & Hp2 & Hs2). rewrite E2.
    destruct (same_bits s s2 Ha2 Hc2 Hby2) as [V2 B2].
    destruct f as [|f]; [exists s2; cbn [bulk_copy]; auto|].
    cbn [bulk_copy]. rewrite Hsh, Hp2, Hs2.
    replace (o_size s - 8 - 0 <=? 0) with false by (symmetry; apply N.leb_gt; destruct HA as [_ _ _ Hm]; lia).
    exists s2. auto.
  - exists s. auto.
Qed.

(* ---------- values of prefixes of a byte string ---------- *)
Lemma topbits_app a b c : bytes_ok b -> c <= 8 * N.of_nat (length b) ->
  topbits (a ++ b) (8 * N.of_nat (length a) + c) = be_val a * 2 ^ c + topbits b c.
Proof.
  intros Hb Hc. unfold topbits. rewrite be_val_app, app_length, Nat2N.inj_add.
  set (lb := 8 * N.of_nat (length b)) in *.
  replace (8 * (N.of_nat (length a) + N.of_nat (length b)) - (8 * N.of_nat (length a) + c)) with (lb - c) by lia.
  assert (Hp : 2 ^ lb = 2 ^ c * 2 ^ (lb - c)) by (rewrite <- N.pow_add_r; f_equal; lia).
  rewrite Hp. rewrite N.mul_assoc. rewrite N.div_add_l by (apply N.pow_nonzero; discriminate). reflexivity.
Qed.

Lemma topbits_all a : topbits a (8 * N.of_nat (length a)) = be_val a.
Proof. unfold topbits. rewrite N.sub_diag. change (2 ^ 0) with 1. apply N.div_1_r. Qed.

Lemma topbits_zero a : topbits a 0 = 0 \/ a = a.
Proof. right; reflexivity. Qed.

Lemma topbits_head x t c : x < 256 -> bytes_ok t -> c <= 8 -> topbits (x :: t) c = x / 2 ^ (8 - c).
Proof.
  intros Hx Ht Hc. unfold topbits. cbn [be_val length]. rewrite Nat2N.inj_succ.
  set (lt := 8 * N.of_nat (length t)).
  replace (8 * N.succ (N.of_nat (length t)) - c) with (lt + (8 - c)) by lia.
  pose proof (be_val_lt t Ht) as Hv. fold lt in Hv.
  rewrite N.pow_add_r. rewrite <- N.div_div by (apply N.pow_nonzero; discriminate).
  rewrite N.div_add_l by (apply N.pow_nonzero; discriminate). rewrite (N.div_small _ _ Hv). f_equal. lia.
Qed.

(* ---------- the tail: whole bytes, then the last bits ---------- *)
Lemma tail_spec s bits rem : AWF s -> bytes_ok bits -> rem <= 8 * N.of_nat (length bits) ->
  exists s', (match write_bytes_while healthy false s bits rem with
              | (s2, true, _, _) => (s2, true)
              | (s2, false, bits2, rem2) =>
                  if 0 <? rem2 then write_bits healthy s2 (N.shiftr (hd 0 bits2) (8 - rem2)) rem2 else (s2, false)
              end) = (s', false) /\ AWF s' /\
    oval s' = oval s * 2 ^ rem + topbits bits rem /\ onbits s' = onbits s + rem.
Proof.
  intros HA Hb Hr. destruct (wbw_spec false bits s rem HA Hb) as (k & s2 & E & HA2 & Hk & Hrk & V & B & Hex).
  rewrite E. set (rem2 := rem - 8 * N.of_nat k) in *.
  assert (Hr2 : rem2 < 8).
  { destruct Hex as [->|[H|[H _]]]; [unfold rem2; lia|exact H|discriminate]. }
  assert (Hsplit : bits = firstn k bits ++ skipn k bits) by (symmetry; apply firstn_skipn).
  assert (Hfl : length (firstn k bits) = k) by (rewrite firstn_length; lia).
  assert (Erem : rem = 8 * N.of_nat (length (firstn k bits)) + rem2) by (rewrite Hfl; unfold rem2; lia).
  assert (Hsl : rem2 <= 8 * N.of_nat (length (skipn k bits))) by (rewrite skipn_length; unfold rem2; lia).
  assert (Htop : topbits bits rem = be_val (firstn k bits) * 2 ^ rem2 + topbits (skipn k bits) rem2).
  { rewrite Hsplit at 1. rewrite Erem at 1. apply topbits_app; [apply bytes_ok_skipn; exact Hb|exact Hsl]. }
  destruct (0 <? rem2) eqn:E0.
  - apply N.ltb_lt in E0.
    destruct (skipn k bits) as [|x t] eqn:Es; [cbn [length N.of_nat] in Hsl; lia|].
    assert (Hxt : bytes_ok (x :: t)) by (rewrite <- Es; apply bytes_ok_skipn; exact Hb).
    pose proof (Forall_inv Hxt) as Hx. pose proof (Forall_inv_tail Hxt) as Ht. cbn beta in Hx. cbn [hd].
    destruct (awf_write_bits s2 (N.shiftr x (8 - rem2)) rem2 HA2 ltac:(lia)) as (s3 & E3 & HA3 & V3 & B3).
    rewrite E3. exists s3. split; [reflexivity|]. split; [exact HA3|].
    assert (Hxv : N.shiftr x (8 - rem2) mod 2 ^ rem2 = x / 2 ^ (8 - rem2)).
    { rewrite N.shiftr_div_pow2. apply N.mod_small. apply N.div_lt_upper_bound; [apply N.pow_nonzero; discriminate|].
      rewrite <- N.pow_add_r. replace (8 - rem2 + rem2) with 8 by lia. exact Hx. }
    split.
    + rewrite V3, V, Hxv, Htop, (topbits_head x t rem2 Hx Ht ltac:(lia)).
      replace rem with (8 * N.of_nat k + rem2) by (unfold rem2; lia). rewrite N.pow_add_r. lia.
    + rewrite B3, B. unfold rem2. lia.
  - apply N.ltb_ge in E0. assert (Ez : rem2 = 0) by lia. exists s2. split; [reflexivity|]. split; [exact HA2|].
    assert (Hrk8 : rem = 8 * N.of_nat k) by (unfold rem2 in Ez; lia).
    split.
    + rewrite V, Htop, Ez. unfold topbits at 1. rewrite N.sub_0_r.
      pose proof (be_val_lt (skipn k bits) (bytes_ok_skipn k _ Hb)) as Hv.
      rewrite (N.div_small _ _ Hv). change (2 ^ 0) with 1. rewrite Hrk8. lia.
    + rewrite B, Hrk8. reflexivity.
Qed.

(* ---------- unaligned cursor: whole words combined with shifts ---------- *)
Section U.
Variable a : N.
Hypothesis Ha : 1 <= a < 64.
Notation r := (64 - a).

(* the word pushed for the next 64 source bits [v], and the accumulator left *)
Definition app_word (st : list N * N) (v : N) : list N * N :=
  (fst st ++ be8 (N.lor (snd st) (shr64 v r)), shl64 v a).

Definition acc_ok (cur : N) : Prop := cur < 2 ^ 64 /\ cur mod 2 ^ a = 0.
Definition st_val (st : list N * N) : N := be_val (fst st) * 2 ^ r + snd st / 2 ^ a.

Lemma app_word_spec st v : acc_ok (snd st) -> v < 2 ^ 64 ->
  acc_ok (snd (app_word st v)) /\ st_val (app_word st v) = st_val st * 2 ^ 64 + v /\
  length (fst (app_word st v)) = (length (fst st) + 8)%nat.
Proof.
  intros [Hc Hl] Hv. destruct st as [B cur]. cbn [fst snd app_word] in *.
  pose proof (pow2_pos a) as Pa. pose proof (pow2_pos r) as Pr.
  assert (H64 : 2 ^ 64 = 2 ^ r * 2 ^ a) by (rewrite <- N.pow_add_r; f_equal; lia).
  pose proof (div_exact_pow cur a Hl) as Hq. set (q := cur / 2 ^ a) in *.
  assert (Hsr : shr64 v r = v / 2 ^ r) by (apply shr64_spec; lia).
  assert (Hvr : v / 2 ^ r < 2 ^ a) by (apply N.div_lt_upper_bound; [lia|rewrite <- H64; exact Hv]).
  assert (Hsl : shl64 v a = (v mod 2 ^ r) * 2 ^ a) by (rewrite shl64_spec by lia; apply mul_pow_mod; lia).
  pose proof (N.mod_lt v (2 ^ r) ltac:(lia)) as Hvm.
  rewrite Hsr, (lor_disjoint cur (v / 2 ^ r) a Hl Hvr), Hsl.
  assert (Hw : cur + v / 2 ^ r < 2 ^ 64) by (rewrite Hq, H64; assert (q + 1 <= 2 ^ r) by nia; nia).
  split; [split; [rewrite H64; nia|apply N.mod_mul; lia]|]. split.
  - unfold st_val, app_word. cbn [fst snd]. rewrite Hsr, (lor_disjoint cur (v / 2 ^ r) a Hl Hvr), Hsl.
    rewrite be_val_app, be8_length, (be_val_be8 _ Hw). change (8 * N.of_nat 8) with 64.
    rewrite N.div_mul by lia. fold q. rewrite Hq at 1. rewrite H64.
    pose proof (N.div_mod v (2 ^ r) ltac:(lia)). nia.
  - unfold app_word. cbn [fst]. rewrite app_length, be8_length. reflexivity.
Qed.

(* loop states carry availBits = 64 as a placeholder; the real cursor is [a] *)
Definition virt (s : obs) : obs := set_acc s a (o_cur s).

Lemma virt_val s : o_avail (virt s) = a /\ oval (virt s) = st_val (obytes s, o_cur s) /\
  onbits (virt s) = 8 * N.of_nat (length (obytes s)) + r.
Proof. unfold virt, oval, onbits, st_val, obytes. pj. auto. Qed.

Record LI (s : obs) : Prop := { li_b : BInv s; li_acc : acc_ok (o_cur s); li_pos : o_pos s mod 8 = 0; li_size : o_size s mod 8 = 0; li_min : 40 <= o_size s }.

Lemma li_virt s : LI s -> AWF (virt s).
Proof.
  intros [HB [Hc Hl] Hp Hs Hm]. unfold virt. constructor; [constructor|..]; pj; try assumption; try lia.
  apply binv_acc. exact HB.
Qed.

Lemma virt_li s : AWF s -> o_avail s = a -> LI s.
Proof. intros [[HB Hav Hc Hl] Hp Hs Hm] E. rewrite E in Hl. constructor; try assumption. split; assumption. Qed.

Lemma word_of_lt bits : bytes_ok bits -> word_of bits < 2 ^ 64.
Proof.
  intros Hb. unfold word_of. pose proof (be_val_lt _ (bytes_ok_firstn 8 _ Hb)) as X. rewrite firstn_length in X.
  eapply N.lt_le_trans; [exact X|]. apply N.pow_le_mono_r; [discriminate|lia].
Qed.

(* one 64-bit step *)
Lemma loop64_step s v : LI s -> v < 2 ^ 64 ->
  exists s1, push healthy s (N.lor (o_cur s) (shr64 v r)) = (s1, false) /\
    LI (set_acc s1 64 (shl64 v a)) /\ (obytes s1, shl64 v a) = app_word (obytes s, o_cur s) v.
Proof.
  intros [HB Hacc Hp Hs Hm] Hv.
  destruct (push_ok s (N.lor (o_cur s) (shr64 v r)) HB) as (s1 & E & HB1 & Hby & _ & _).
  exists s1. split; [exact E|]. destruct (app_word_spec (obytes s, o_cur s) v Hacc Hv) as (Hacc' & _ & _).
  destruct (push_facts _ _ _ HB E) as [Hsz Hpos].
  split; [|unfold app_word; cbn [fst snd]; rewrite Hby; reflexivity].
  constructor; pj.
  - apply binv_acc. exact HB1.
  - exact Hacc'.
  - change (o_pos (set_acc s1 64 (shl64 v a))) with (o_pos s1). destruct Hpos as [->| ->]; [rewrite N.add_mod, Hp by discriminate; reflexivity|reflexivity].
  - rewrite Hsz. exact Hs.
  - rewrite Hsz. exact Hm.
Qed.

(* st_val of the words of a byte string *)
Fixpoint words_of (n : nat) (bits : list N) : list N :=
  match n with O => [] | S m => word_of bits :: words_of m (skipn 8 bits) end.

Lemma fold_app_word : forall vs st, acc_ok (snd st) -> Forall (fun v => v < 2 ^ 64) vs ->
  acc_ok (snd (fold_left app_word vs st)) /\
  st_val (fold_left app_word vs st) = st_val st * 2 ^ (64 * N.of_nat (length vs)) + fold_left (fun acc v => acc * 2 ^ 64 + v) vs 0 /\
  length (fst (fold_left app_word vs st)) = (length (fst st) + 8 * length vs)%nat.
Proof.
  intros vs. induction vs as [|v t IH] using rev_ind; intros st Hacc Hvs.
  - cbn [fold_left length N.of_nat]. rewrite N.mul_0_r. change (2 ^ 0) with 1. split; [exact Hacc|]. split; lia.
  - apply Forall_app in Hvs. destruct Hvs as [Ht Hv]. inversion Hv as [|? ? Hv1 _]; subst.
    rewrite !fold_left_app. cbn [fold_left]. destruct (IH st Hacc Ht) as (A1 & A2 & A3).
    destruct (app_word_spec (fold_left app_word t st) v A1 Hv1) as (B1 & B2 & B3).
    split; [exact B1|]. split.
    + rewrite B2, A2, app_length. cbn [length]. rewrite Nat2N.inj_add. change (N.of_nat 1) with 1.
      replace (64 * (N.of_nat (length t) + 1)) with (64 * N.of_nat (length t) + 64) by lia. rewrite N.pow_add_r. lia.
    + rewrite B3, A3, app_length. cbn [length]. lia.
Qed.

Lemma fold_words : forall n bits, bytes_ok bits -> (8 * n <= length bits)%nat ->
  fold_left (fun acc v => acc * 2 ^ 64 + v) (words_of n bits) 0 = be_val (firstn (8 * n) bits) /\
  Forall (fun v => v < 2 ^ 64) (words_of n bits) /\ length (words_of n bits) = n.
Proof.
  induction n as [|n IH]; intros bits Hb Hl.
  - cbn. auto.
  - cbn [words_of]. destruct (IH (skipn 8 bits) (bytes_ok_skipn 8 _ Hb) ltac:(rewrite skipn_length; lia)) as (I1 & I2 & I3).
    split; [|split; [constructor; [apply word_of_lt; exact Hb|exact I2]|cbn [length]; rewrite I3; reflexivity]].
    cbn [fold_left].
    assert (G : forall vs x, fold_left (fun acc v => acc * 2 ^ 64 + v) vs x = x * 2 ^ (64 * N.of_nat (length vs)) + fold_left (fun acc v => acc * 2 ^ 64 + v) vs 0).
    { induction vs as [|v t IHv]; intros x; cbn [fold_left length].
      - change (N.of_nat 0) with 0. rewrite N.mul_0_r. change (2 ^ 0) with 1. lia.
      - rewrite IHv, (IHv (0 * 2 ^ 64 + v)). rewrite Nat2N.inj_succ. replace (64 * N.succ (N.of_nat (length t))) with (64 + 64 * N.of_nat (length t)) by lia.
        rewrite N.pow_add_r. lia. }
    rewrite G, I1, I3. replace (8 * S n)%nat with (8 + 8 * n)%nat by lia. rewrite firstn_plus, be_val_app.
    rewrite firstn_length, skipn_length. replace (Nat.min (8 * n) (length bits - 8)) with (8 * n)%nat by lia.
    unfold word_of. f_equal. f_equal. f_equal. lia.
Qed.

End U.

Lemma flush_b s : BInv s ->
  exists s', flush healthy s = (s', false) /\ BInv s' /\ obytes s' = obytes s /\ o_pos s' = 0 /\
    o_size s' = o_size s /\ o_cur s' = o_cur s /\ o_avail s' = o_avail s.
Proof.
  intros [Ho Hs Hp Hw]. rewrite flush_healthy by exact Ho. destruct (0 <? o_pos s) eqn:E.
  - eexists. split; [reflexivity|]. split.
    + constructor; pj; try assumption; try reflexivity. { unfold o_pos. pj. cbn [length N.of_nat]. lia. }
      rewrite Hw, app_length. unfold o_pos. lia.
    + split; [unfold obytes; pj; rewrite app_nil_r; reflexivity|]. repeat split; reflexivity.
  - apply N.ltb_ge in E. exists s. split; [reflexivity|]. split; [constructor; assumption|]. split; [reflexivity|]. split; [lia|]. auto.
Qed.

Lemma words_of_app : forall n1 n2 bits, words_of (n1 + n2) bits = words_of n1 bits ++ words_of n2 (skipn (8 * n1) bits).
Proof.
  induction n1 as [|n1 IH]; intros n2 bits; [reflexivity|].
  cbn [plus words_of app]. rewrite IH. rewrite skipn_skipn_gen. replace (8 + 8 * n1)%nat with (8 * S n1)%nat by lia. reflexivity.
Qed.

Section U2.
Variable a : N.
Hypothesis Ha : 1 <= a < 64.
Notation r := (64 - a).

Lemma loop64_spec : forall fuel s bits rem, LI a s -> bytes_ok bits -> rem <= 8 * N.of_nat (length bits) ->
  exists (n : nat) s', loop64 healthy fuel a s bits rem = (s', false, skipn (8 * n) bits, rem - 64 * N.of_nat n) /\ LI a s' /\
    64 * N.of_nat n <= rem /\
    (obytes s', o_cur s') = fold_left (app_word a) (words_of n bits) (obytes s, o_cur s).
Proof.
  induction fuel as [|f IH]; intros s bits rem HL Hb Hr.
  - exists O, s. cbn [loop64 Nat.mul skipn words_of fold_left N.of_nat]. rewrite N.mul_0_r, N.sub_0_r. split; [reflexivity|]. split; [exact HL|]. split; [lia|reflexivity].
  - cbn [loop64]. destruct (64 <=? rem) eqn:E.
    + apply N.leb_le in E.
      destruct (loop64_step a Ha s (word_of bits) HL (word_of_lt a Ha bits Hb)) as (s1 & Ep & HL1 & Hst).
      rewrite Ep.
      destruct (IH (set_acc s1 64 (shl64 (word_of bits) a)) (skipn 8 bits) (rem - 64) HL1 (bytes_ok_skipn 8 _ Hb)) as (n & s' & E' & HL' & Hn & Hfold).
      { rewrite skipn_length. lia. }
      exists (S n), s'. rewrite E'. rewrite skipn_skipn_gen. replace (8 + 8 * n)%nat with (8 * S n)%nat by lia.
      replace (rem - 64 - 64 * N.of_nat n) with (rem - 64 * N.of_nat (S n)) by lia.
      split; [reflexivity|]. split; [exact HL'|]. split; [lia|].
      cbn [words_of fold_left]. rewrite Hfold. f_equal. unfold obytes at 1. pj. fold (obytes s1). exact Hst.
    + exists O, s. cbn [Nat.mul skipn words_of fold_left N.of_nat]. rewrite N.mul_0_r, N.sub_0_r. split; [reflexivity|]. split; [exact HL|]. split; [lia|reflexivity].
Qed.

Lemma loop256_spec : forall fuel s bits rem, LI a s -> bytes_ok bits -> rem <= 8 * N.of_nat (length bits) ->
  exists (n : nat) s', loop256 healthy fuel a s bits rem = (s', false, skipn (8 * n) bits, rem - 64 * N.of_nat n) /\ LI a s' /\
    64 * N.of_nat n <= rem /\
    (obytes s', o_cur s') = fold_left (app_word a) (words_of n bits) (obytes s, o_cur s).
Proof.
  induction fuel as [|f IH]; intros s bits rem HL Hb Hr.
  - exists O, s. cbn [loop256 Nat.mul skipn words_of fold_left N.of_nat]. rewrite N.mul_0_r, N.sub_0_r. split; [reflexivity|]. split; [exact HL|]. split; [lia|reflexivity].
  - cbn [loop256]. destruct (256 <=? rem) eqn:E.
    2:{ exists O, s. cbn [Nat.mul skipn words_of fold_left N.of_nat]. rewrite N.mul_0_r, N.sub_0_r. split; [reflexivity|]. split; [exact HL|]. split; [lia|reflexivity]. }
    apply N.leb_le in E. destruct HL as [HB Hacc Hp8 Hs8 Hm].
    set (v1 := word_of bits). set (v2 := word_of (skipn 8 bits)). set (v3 := word_of (skipn 16 bits)). set (v4 := word_of (skipn 24 bits)).
    set (cur1 := N.lor (o_cur s) (shr64 v1 r)).
    set (s0 := set_acc s (o_avail s) cur1).
    assert (HB0 : BInv s0) by (apply binv_acc; exact HB).
    (* the optional flush *)
    assert (Hfl : exists s1, (if o_size s0 - 32 <=? o_pos s0 then flush healthy s0 else (s0, false)) = (s1, false) /\ BInv s1 /\
              obytes s1 = obytes s /\ o_pos s1 + 40 <= o_size s1 /\ o_pos s1 mod 8 = 0 /\ o_size s1 = o_size s).
    { destruct (o_size s0 - 32 <=? o_pos s0) eqn:Ef.
      - destruct (flush_b s0 HB0) as (s1 & E1 & HB1 & Hby1 & Hp1 & Hs1 & _ & _).
        exists s1. split; [exact E1|]. split; [exact HB1|]. split; [exact Hby1|]. rewrite Hp1, Hs1. change (o_size s0) with (o_size s). split; [lia|]. split; reflexivity.
      - apply N.leb_gt in Ef. exists s0. split; [reflexivity|]. split; [exact HB0|]. split; [reflexivity|].
        change (o_size s0) with (o_size s) in *. change (o_pos s0) with (o_pos s) in *.
        split; [|split; [exact Hp8|reflexivity]].
        pose proof (N.div_mod (o_size s) 8 ltac:(discriminate)). pose proof (N.div_mod (o_pos s) 8 ltac:(discriminate)). rewrite Hs8 in H. rewrite Hp8 in H0. lia. }
    destruct Hfl as (s1 & E1 & HB1 & Hby1 & Hp1 & Hp18 & Hs1). rewrite E1.
    set (w2 := N.lor (shl64 v1 a) (shr64 v2 r)). set (w3 := N.lor (shl64 v2 a) (shr64 v3 r)). set (w4 := N.lor (shl64 v3 a) (shr64 v4 r)).
    set (s2 := set_buf s1 (o_buf s1 ++ be8 cur1 ++ be8 w2 ++ be8 w3 ++ be8 w4)).
    set (s3 := set_acc s2 64 (shl64 v4 a)).
    assert (Hvs : Forall (fun v => v < 2 ^ 64) [v1; v2; v3; v4]).
    { repeat constructor; apply (word_of_lt a Ha); repeat apply bytes_ok_skipn; exact Hb. }
    destruct (fold_app_word a Ha [v1; v2; v3; v4] (obytes s, o_cur s) Hacc Hvs) as (Hacc' & _ & _).
    assert (Hst : (obytes s3, o_cur s3) = fold_left (app_word a) [v1; v2; v3; v4] (obytes s, o_cur s)).
    { cbn [fold_left]. unfold app_word. cbn [fst snd]. fold cur1 w2 w3 w4. unfold s3, s2, obytes. pj. f_equal.
      fold (obytes s1). rewrite app_assoc. fold (obytes s1). rewrite Hby1. unfold obytes. rewrite <- !app_assoc. reflexivity. }
    assert (HL3 : LI a s3).
    { destruct HB1 as [Ho1 Hsz1 Hpp1 Hw1]. constructor; unfold s3, s2; pj.
      - constructor; pj; try assumption. unfold o_pos. pj. rewrite !app_length, !be8_length. unfold o_pos in Hp1. lia.
      - cbn [fold_left snd] in Hacc'. exact Hacc'.
      - unfold o_pos. pj. rewrite !app_length, !be8_length. unfold o_pos in Hp18.
        replace (N.of_nat (length (o_buf s1) + (8 + (8 + (8 + 8))))) with (N.of_nat (length (o_buf s1)) + 32) by lia.
        rewrite N.add_mod, Hp18 by discriminate. reflexivity.
      - rewrite Hs1. exact Hs8.
      - rewrite Hs1. exact Hm. }
    destruct (IH s3 (skipn 32 bits) (rem - 256) HL3 (bytes_ok_skipn 32 _ Hb)) as (n & s' & E' & HL' & Hn & Hfold).
    { rewrite skipn_length. lia. }
    exists (4 + n)%nat, s'. fold s2 s3. rewrite E'. rewrite skipn_skipn_gen. replace (32 + 8 * n)%nat with (8 * (4 + n))%nat by lia.
    replace (rem - 256 - 64 * N.of_nat n) with (rem - 64 * N.of_nat (4 + n)) by lia.
    split; [reflexivity|]. split; [exact HL'|]. split; [lia|].
    rewrite words_of_app, fold_left_app. rewrite Hfold. f_equal. rewrite Hst. cbn [words_of].
    unfold v1, v2, v3, v4. rewrite !skipn_skipn_gen. reflexivity.
Qed.

End U2.

(* ---------- assembling the phases ---------- *)
(* [s'] is [s] after the first [k] bytes of [bits] have been appended *)
Definition did (s s' : obs) (bits : list N) (k : nat) : Prop :=
  oval s' = oval s * 2 ^ (8 * N.of_nat k) + be_val (firstn k bits) /\ onbits s' = onbits s + 8 * N.of_nat k /\ (k <= length bits)%nat.

Lemma did_refl s bits : did s s bits 0.
Proof. unfold did. cbn [firstn be_val N.of_nat]. rewrite N.mul_0_r. change (2 ^ 0) with 1. split; [lia|]. split; lia. Qed.

Lemma did_trans s s1 s2 bits k1 k2 : did s s1 bits k1 -> did s1 s2 (skipn k1 bits) k2 -> did s s2 bits (k1 + k2).
Proof.
  intros (V1 & B1 & L1) (V2 & B2 & L2). rewrite skipn_length in L2. unfold did. split; [|split; [rewrite B2, B1; lia|lia]].
  rewrite V2, V1, firstn_plus, be_val_app, firstn_length, skipn_length. replace (Nat.min k2 (length bits - k1)) with k2 by lia.
  rewrite Nat2N.inj_add. replace (8 * (N.of_nat k1 + N.of_nat k2)) with (8 * N.of_nat k1 + 8 * N.of_nat k2) by lia. rewrite N.pow_add_r. lia.
Qed.

(* appending bytes to the buffer of a stream whose accumulator is empty, in terms of [did] *)
Lemma did_bytes s s' bits k : WF s -> WF s' -> o_avail s = 64 -> o_avail s' = 64 -> (k <= length bits)%nat ->
  obytes s' = obytes s ++ firstn k bits -> did s s' bits k.
Proof.
  intros W W' A A' Hk Hby. destruct (acc_empty s W A) as (_ & V & B). destruct (acc_empty s' W' A') as (_ & V' & B').
  unfold did. rewrite V', B', V, B, Hby, be_val_app, app_length, firstn_length. replace (Nat.min k (length bits)) with k by lia.
  split; [reflexivity|]. split; lia.
Qed.

Lemma finish s sk s' bits k count : did s sk bits k -> bytes_ok bits -> 8 * N.of_nat k <= count -> count <= 8 * N.of_nat (length bits) ->
  oval s' = oval sk * 2 ^ (count - 8 * N.of_nat k) + topbits (skipn k bits) (count - 8 * N.of_nat k) ->
  onbits s' = onbits sk + (count - 8 * N.of_nat k) ->
  oval s' = oval s * 2 ^ count + topbits bits count /\ onbits s' = onbits s + count.
Proof.
  intros (V & B & L) Hb Hk Hc V' B'. set (rem := count - 8 * N.of_nat k) in *.
  assert (Hfl : length (firstn k bits) = k) by (rewrite firstn_length; lia).
  assert (Htop : topbits bits count = be_val (firstn k bits) * 2 ^ rem + topbits (skipn k bits) rem).
  { rewrite <- (firstn_skipn k bits) at 1. replace count with (8 * N.of_nat (length (firstn k bits)) + rem) at 1 by (rewrite Hfl; unfold rem; lia).
    apply topbits_app; [apply bytes_ok_skipn; exact Hb|rewrite skipn_length; unfold rem; lia]. }
  split.
  - assert (Ec : 2 ^ count = 2 ^ (8 * N.of_nat k) * 2 ^ rem) by (rewrite <- N.pow_add_r; f_equal; unfold rem; lia).
    rewrite V', V, Htop, Ec. ring.
  - rewrite B', B. unfold rem. lia.
Qed.

Theorem write_array_spec s bits count : AWF s -> bytes_ok bits -> 0 < count -> count <= 8 * N.of_nat (length bits) ->
  exists s', write_array healthy s bits count = (s', false) /\ AWF s' /\
    oval s' = oval s * 2 ^ count + topbits bits count /\ onbits s' = onbits s + count.
Proof.
  intros HA Hb Hc0 Hc. pose proof HA as [[[Ho Hsz Hp Hw] [Hav1 Hav2] Hcur Hlow] Hp8 Hs8 Hm].
  assert (Hbl : (1 <= length bits)%nat) by (destruct bits; [cbn in Hc; lia|cbn; lia]).
  unfold write_array. rewrite Ho. replace (8 * N.of_nat (length bits) <? count) with false by (symmetry; apply N.ltb_ge; exact Hc).
  destruct (N.land (o_avail s) 7 =? 0) eqn:Eal.
  - (* byte-aligned cursor *)
    destruct (wbw_spec true bits s count HA Hb) as (k1 & s1 & E1 & HA1 & Hk1 & Hr1 & V1 & B1 & Hex1). rewrite E1.
    assert (D1 : did s s1 bits k1) by (split; [exact V1|split; [exact B1|exact Hk1]]).
    set (b1 := skipn k1 bits) in *. set (rem1 := count - 8 * N.of_nat k1) in *.
    assert (Hb1 : bytes_ok b1) by (apply bytes_ok_skipn; exact Hb).
    assert (Hrem1 : rem1 <= 8 * N.of_nat (length b1)) by (unfold rem1, b1; rewrite skipn_length; lia).
    destruct (N.eq_dec (o_avail s1) 64) as [Ea1|Ea1].
    + (* the accumulator is empty: bulk copies *)
      destruct (bulk_copy_spec (S (length bits)) s1 b1 rem1 HA1 Ea1 Hb1 Hrem1) as (k2 & s2 & E2 & HA2 & Ea2 & Hk2 & Hr2 & Hby2 & Hex2).
      { unfold b1. rewrite skipn_length. destruct (o_pos s1 =? 0); lia. }
      rewrite E2.
      assert (D2 : did s s2 bits (k1 + k2)).
      { apply (did_trans s s1 s2 bits k1 k2 D1). apply did_bytes; [apply HA1|apply HA2|exact Ea1|exact Ea2|exact Hk2|exact Hby2]. }
      set (b2 := skipn k2 b1) in *. set (rem2 := rem1 - 8 * N.of_nat k2) in *.
      assert (Hb2 : bytes_ok b2) by (apply bytes_ok_skipn; exact Hb1).
      assert (Hrem2 : rem2 <= 8 * N.of_nat (length b2)) by (unfold rem2, b2; rewrite skipn_length; lia).
      assert (Eb2 : b2 = skipn (k1 + k2) bits) by (unfold b2, b1; apply skipn_skipn_gen).
      set (k3n := 8 * N.shiftr rem2 6).
      assert (Hk3 : k3n <= N.shiftr rem2 3 /\ k3n mod 8 = 0 /\ 8 * k3n <= rem2).
      { unfold k3n. rewrite !N.shiftr_div_pow2. change (2 ^ 6) with 64. change (2 ^ 3) with 8.
        pose proof (N.div_mod rem2 64 ltac:(discriminate)). pose proof (N.mod_lt rem2 64 ltac:(discriminate)).
        split; [|split; [rewrite N.mul_comm; apply N.mod_mul; discriminate|lia]].
        apply N.div_le_lower_bound; [discriminate|]. lia. }
      destruct Hk3 as (Hk3a & Hk3b & Hk3c).
      destruct (0 <? k3n) eqn:Ek3.
      * set (chunk := firstn (N.to_nat k3n) b2).
        assert (Hcl : length chunk = N.to_nat k3n).
        { unfold chunk. rewrite firstn_length. rewrite N.shiftr_div_pow2 in Hk3a. change (2 ^ 3) with 8 in Hk3a.
          pose proof (N.div_mod rem2 8 ltac:(discriminate)). lia. }
        destruct (append_bytes s2 chunk HA2 Ea2 (bytes_ok_firstn _ _ Hb2)) as (HA3 & Ea3 & Hby3).
        { rewrite Hcl, N2Nat.id. lia. }
        { rewrite Hcl, N2Nat.id. exact Hk3b. }
        set (s3 := set_buf s2 (o_buf s2 ++ chunk)) in *.
        assert (D3 : did s s3 bits (k1 + k2 + N.to_nat k3n)).
        { apply (did_trans s s2 s3 bits (k1 + k2) (N.to_nat k3n) D2). rewrite <- Eb2.
          apply did_bytes; [apply HA2|apply HA3|exact Ea2|exact Ea3|rewrite <- Hcl; unfold chunk; rewrite firstn_length; lia|exact Hby3]. }
        destruct (tail_spec s3 (skipn (N.to_nat k3n) b2) (rem2 - 8 * k3n) HA3 (bytes_ok_skipn _ _ Hb2)) as (s' & E' & HA' & V' & B').
        { rewrite skipn_length. clear - Hrem2. lia. }
        fold chunk. fold s3. rewrite E'. exists s'. split; [reflexivity|]. split; [exact HA'|].
        apply (finish s s3 s' bits (k1 + k2 + N.to_nat k3n) count D3 Hb); [unfold rem2, rem1 in Hk3c; lia|exact Hc| |].
        -- replace (count - 8 * N.of_nat (k1 + k2 + N.to_nat k3n)) with (rem2 - 8 * k3n) by (unfold rem2, rem1; clear; lia).
           rewrite V'. f_equal. f_equal. rewrite Eb2. apply skipn_skipn_gen.
        -- replace (count - 8 * N.of_nat (k1 + k2 + N.to_nat k3n)) with (rem2 - 8 * k3n) by (unfold rem2, rem1; clear; lia). exact B'.
      * apply N.ltb_ge in Ek3.
        destruct (tail_spec s2 b2 rem2 HA2 Hb2 Hrem2) as (s' & E' & HA' & V' & B').
        rewrite E'. exists s'. split; [reflexivity|]. split; [exact HA'|].
        apply (finish s s2 s' bits (k1 + k2) count D2 Hb); [unfold rem2, rem1 in *; lia|exact Hc| |].
        -- replace (count - 8 * N.of_nat (k1 + k2)) with rem2 by (unfold rem2, rem1; clear; lia). rewrite V', Eb2. reflexivity.
        -- replace (count - 8 * N.of_nat (k1 + k2)) with rem2 by (unfold rem2, rem1; clear; lia). exact B'.
    + (* fewer than 8 bits left: nothing to copy *)
      assert (Hr8 : rem1 < 8).
      { destruct Hex1 as [->|[H|[_ H]]]; [unfold rem1; lia|exact H|congruence]. }
      destruct (bulk_copy_small (S (length bits)) s1 b1 rem1 HA1 Hr8) as (s2 & E2 & HA2 & _ & V2 & B2). rewrite E2.
      assert (Hk0 : 8 * N.shiftr rem1 6 = 0).
      { rewrite N.shiftr_div_pow2. change (2 ^ 6) with 64. rewrite N.div_small by lia. reflexivity. }
      rewrite Hk0. cbn [N.ltb N.compare].
      destruct (tail_spec s2 b1 rem1 HA2 Hb1 Hrem1) as (s' & E' & HA' & V' & B').
      rewrite E'. exists s'. split; [reflexivity|]. split; [exact HA'|].
      apply (finish s s1 s' bits k1 count D1 Hb Hr1 Hc); [rewrite V', V2; reflexivity|rewrite B', B2; reflexivity].
  - (* unaligned cursor *)
    apply N.eqb_neq in Eal. set (a := o_avail s) in *.
    assert (Ha : 1 <= a < 64).
    { split; [exact Hav1|]. destruct (N.eq_dec a 64) as [E|E]; [rewrite E in Eal; exfalso; apply Eal; reflexivity|lia]. }
    destruct (64 <=? count) eqn:E64.
    + pose proof (virt_li a s HA eq_refl) as HL.
      destruct (loop256_spec a Ha (S (length bits)) s bits count HL Hb Hc) as (n1 & sa & Ea & HLa & Hn1 & Hfa). rewrite Ea.
      set (ba := skipn (8 * n1) bits) in *. set (rema := count - 64 * N.of_nat n1) in *.
      assert (Hba : bytes_ok ba) by (apply bytes_ok_skipn; exact Hb).
      assert (Hn1l : (8 * n1 <= length bits)%nat) by lia.
      destruct (loop64_spec a Ha (S (length bits)) sa ba rema HLa Hba) as (n2 & sb & Eb & HLb & Hn2 & Hfb).
      { unfold rema, ba. rewrite skipn_length. lia. }
      rewrite Eb.
      set (nn := (n1 + n2)%nat).
      assert (Hfold : (obytes sb, o_cur sb) = fold_left (app_word a) (words_of nn bits) (obytes s, o_cur s)).
      { unfold nn. rewrite words_of_app, fold_left_app, <- Hfa. exact Hfb. }
      assert (Hnl : (8 * nn <= length bits)%nat) by (unfold nn, rema in *; lia).
      destruct (fold_words a Ha nn bits Hb Hnl) as (W1 & W2 & W3).
      destruct (fold_app_word a Ha (words_of nn bits) (obytes s, o_cur s) (li_acc a s HL) W2) as (_ & F2 & F3).
      rewrite <- Hfold, W1, W3 in F2. rewrite <- Hfold, W3 in F3. cbn [fst] in F3.
      pose proof (li_virt a Ha sb HLb) as HAv.
      destruct (virt_val a sb) as (Av & Vv & Bv). destruct (virt_val a s) as (_ & Vs & Bs).
      assert (Evs : virt a s = s) by (unfold virt, a; destruct s; reflexivity). rewrite Evs in Vs, Bs.
      assert (D : did s (virt a sb) bits (8 * nn)).
      { unfold did. rewrite Vv, F2, Vs, Bv, Bs, F3. split; [f_equal; f_equal; f_equal; lia|]. split; lia. }
      set (bb := skipn (8 * n2) ba) in *. set (remb := rema - 64 * N.of_nat n2) in *.
      assert (Ebb : bb = skipn (8 * nn) bits) by (unfold bb, ba, nn; rewrite skipn_skipn_gen; f_equal; lia).
      destruct (tail_spec (virt a sb) bb remb HAv (bytes_ok_skipn _ _ Hba)) as (s' & E' & HA' & V' & B').
      { unfold remb, rema, bb, ba. rewrite !skipn_length. lia. }
      change (set_acc sb a (o_cur sb)) with (virt a sb). rewrite E'. exists s'. split; [reflexivity|]. split; [exact HA'|].
      apply (finish s (virt a sb) s' bits (8 * nn) count D Hb); [unfold nn, rema in *; lia|exact Hc| |].
      * replace (count - 8 * N.of_nat (8 * nn)) with remb by (unfold remb, rema, nn; clear; lia). rewrite V', Ebb. reflexivity.
      * replace (count - 8 * N.of_nat (8 * nn)) with remb by (unfold remb, rema, nn; clear; lia). exact B'.
    + destruct (tail_spec s bits count HA Hb Hc) as (s' & E' & HA' & V' & B').
      rewrite E'. exists s'. split; [reflexivity|]. split; [exact HA'|].
      apply (finish s s s' bits 0 count (did_refl s bits) Hb); [lia|exact Hc| |]; cbn [N.of_nat skipn]; rewrite N.mul_0_r, N.sub_0_r; assumption.
Qed.

(* ---------- programs with arrays ---------- *)
Inductive aop := AOp (o : wop) | AArr (bits : list N) (count : N).

Definition aop_ok (o : aop) : Prop :=
  match o with AOp w => wop_ok w | AArr bits count => bytes_ok bits /\ 0 < count <= 8 * N.of_nat (length bits) end.

Definition run_aop (s : obs) (o : aop) : obs * bool :=
  match o with AOp w => run_wop s w | AArr bits count => write_array healthy s bits count end.

Fixpoint run_aops (s : obs) (ops : list aop) : obs * bool :=
  match ops with
  | [] => (s, false)
  | o :: t => match run_aop s o with (s1, true) => (s1, true) | (s1, false) => run_aops s1 t end
  end.

Definition abv_app (acc : N * N) (o : aop) : N * N :=
  match o with
  | AOp w => bv_app acc w
  | AArr bits count => (fst acc * 2 ^ count + topbits bits count, snd acc + count)
  end.

Lemma awf_new n : 40 <= n -> n mod 8 = 0 -> AWF (new_obs n).
Proof. intros H1 H2. constructor; [apply wf_new; lia|reflexivity|exact H2|exact H1]. Qed.

Lemma awf_write_bit s b : AWF s -> exists s', write_bit healthy s b = (s', false) /\ AWF s' /\
  oval s' = oval s * 2 + b mod 2 /\ onbits s' = onbits s + 1.
Proof.
  intros [HW Hp Hs Hm]. destruct (write_bit_spec s b HW) as (s' & E & HW' & V & B). exists s'. split; [exact E|]. split; [|auto].
  (* positions: WriteBit pushes at most one word *)
  assert (Hpos : o_size s' = o_size s /\ (o_pos s' = o_pos s \/ o_pos s' = o_pos s + 8 \/ o_pos s' = 0)).
  { unfold write_bit in E. destruct (o_avail s <=? 1).
    - destruct (push healthy s (N.lor (o_cur s) (N.land b 1))) as [s1 [|]] eqn:Ep; [discriminate|]. inversion E; subst.
      destruct (push_facts _ _ _ (wf_b s HW) Ep) as [Hsz Hq]. change (o_size (set_acc s1 64 0)) with (o_size s1). change (o_pos (set_acc s1 64 0)) with (o_pos s1).
      split; [exact Hsz|]. destruct Hq as [Hq|Hq]; [right; left; exact Hq|right; right; exact Hq].
    - inversion E; subst. split; [reflexivity|left; reflexivity]. }
  destruct Hpos as [Hsz Hq]. constructor; [exact HW'| |rewrite Hsz; exact Hs|rewrite Hsz; exact Hm].
  destruct Hq as [Hq|[Hq|Hq]]; rewrite Hq; [exact Hp| |reflexivity]. rewrite N.add_mod, Hp by discriminate. reflexivity.
Qed.

Theorem array_program ops : forall s, AWF s -> Forall aop_ok ops ->
  exists s', run_aops s ops = (s', false) /\ AWF s' /\
    (oval s', onbits s') = fold_left abv_app ops (oval s, onbits s).
Proof.
  induction ops as [|o t IH]; intros s HA Hok.
  - exists s. cbn [run_aops fold_left]. auto.
  - inversion Hok as [|? ? Ho Ht]; subst. cbn [run_aops fold_left].
    assert (Hstep : exists s1, run_aop s o = (s1, false) /\ AWF s1 /\ (oval s1, onbits s1) = abv_app (oval s, onbits s) o).
    { destruct o as [[b|v c]|bits count]; cbn [run_aop run_wop abv_app bv_app fst snd aop_ok wop_ok] in *.
      - destruct (awf_write_bit s b HA) as (s1 & E & A & V & B). exists s1. rewrite V, B. auto.
      - destruct (awf_write_bits s v c HA Ho) as (s1 & E & A & V & B). exists s1. rewrite V, B. auto.
      - destruct Ho as [Hb [Hc0 Hc]]. destruct (write_array_spec s bits count HA Hb Hc0 Hc) as (s1 & E & A & V & B). exists s1. rewrite V, B. auto. }
    destruct Hstep as (s1 & E & A & V). rewrite E, <- V. apply IH; assumption.
Qed.

(* any program with arrays, then Close: the byte image *)
Theorem array_image bufsize ops : 40 <= bufsize -> bufsize mod 8 = 0 -> Forall aop_ok ops ->
  exists s1 s2 pad V L,
    run_aops (new_obs bufsize) ops = (s1, false) /\ close healthy s1 = (s2, false) /\
    (V, L) = fold_left abv_app ops (0, 0) /\
    o_closed s2 = true /\ pad < 8 /\
    8 * N.of_nat (length (o_out s2)) = L + pad /\
    be_val (o_out s2) = V * 2 ^ pad /\
    written s2 = Z.of_N L.
Proof.
  intros Hb Hm Hok.
  destruct (array_program ops (new_obs bufsize) (awf_new _ Hb Hm) Hok) as (s1 & E1 & A1 & V1).
  destruct (close_image s1 (aw_wf s1 A1)) as (s2 & pad & E2 & C & P & Len & Img & Wr).
  exists s1, s2, pad, (oval s1), (onbits s1).
  split; [exact E1|]. split; [exact E2|]. split; [exact V1|]. split; [exact C|]. split; [exact P|].
  split; [exact Len|]. split; [exact Img|exact Wr].
Qed.
