(* The RANGE stream theorems without the frame-size premise, for block sizes up to 128 MiB (Proofs/RangeSizeProofs.v). *)
From Coq Require Import List NArith ZArith Lia Bool ZifyN ZifyNat ZifyBool.
From KV Require Import Model.OutBS Model.InBS Model.Header Model.Container Model.ContainerG Model.Writer Model.Reader
  Proofs.BinCoderProofs Proofs.HeaderProofs Proofs.WriterProofs Proofs.ReaderProofs Proofs.ContainerProofs Proofs.EndToEnd
  Proofs.ContainerGProofs Proofs.EndToEndRange Proofs.RangeSizeProofs.
Import ListNotations.
Open Scope N_scope.
Ltac Zify.zify_post_hook ::= idtac.

Theorem container_range_roundtrip_128 (hash : list N -> N) (evalid tvalid : N -> bool) c blocks nframes rbuf sched :
  cfg_ok evalid tvalid c -> h_etype c = RANGE_TYPE -> h_bsize c <= 134217728 ->
  (h_ck c = 1 -> forall l, hash l < 2 ^ 32) -> (h_ck c = 2 -> forall l, hash l < 2 ^ 64) ->
  Forall (blk_ok (h_bsize c)) blocks -> (length blocks < nframes)%nat -> 0 < rbuf -> rbuf mod 8 = 0 ->
  parse_stream_e hash evalid tvalid nframes rbuf sched (write_stream_e hash c blocks) = Some (norm_cfg c, map PData blocks ++ [PEnd]).
Proof.
  intros Hc Het Hbs H32 H64 Hbl Hfu Hr Hr8. pose proof (ck_ok _ _ _ Hc) as Hck.
  apply (container_range_roundtrip hash evalid tvalid c Hc H32 H64 Het blocks nframes rbuf sched); try assumption.
  eapply Forall_impl; [|exact Hbl]. intros b (X1 & X2 & X3 & X4). unfold good_r. repeat split; try assumption.
  apply (range_frame_fits hash (h_ck c) b Hck H32 H64 X1 X3). lia.
Qed.

Theorem end_to_end_range_128 (hash : list N -> N) (evalid tvalid : N -> bool) c jw hw jr hr (ws : list (list N)) (ns : list N) nframes rbuf sched :
  cfg_ok evalid tvalid c -> h_etype c = RANGE_TYPE -> h_bsize c <= 134217728 ->
  (h_ck c = 1 -> forall l, hash l < 2 ^ 32) -> (h_ck c = 2 -> forall l, hash l < 2 ^ 64) ->
  bytes_ok (concat ws) -> (length (concat ws) < nframes)%nat ->
  0 < jw -> 0 < jr -> 0 < rbuf -> rbuf mod 8 = 0 ->
  let B := h_bsize c in
  exists s1 s2 frames,
    do_writes B jw hw (init_w jw) ws = (s1, true) /\
    w_close B jw hw (fun _ => false) s1 false false = (s2, false) /\
    parse_stream_e hash evalid tvalid nframes rbuf sched (write_stream_e hash c (map snd (w_out s2))) = Some (norm_cfg c, frames) /\
    fst (do_reads B jr hr (init_r (map frame_of frames)) ns) = spec_reads (concat ws) ns.
Proof.
  intros Hc Het Hbs H32 H64 Hd Hnf Hjw Hjr Hr Hr8 B. pose proof (ck_ok _ _ _ Hc) as Hck.
  assert (HB : 0 < B) by (destruct (bs_ok _ _ _ Hc) as [[X _] _]; unfold MIN_BLOCK in X; unfold B; lia).
  apply (end_to_end_range hash evalid tvalid c jw hw jr hr ws ns nframes rbuf sched Hc Het H32 H64 Hd Hnf Hjw Hjr Hr Hr8).
  destruct (chunks_f_ok B HB (length (concat ws)) (concat ws) Hd) as [Hok _]. fold (chunks B (concat ws)) in Hok.
  eapply Forall_impl; [|exact Hok]. intros b (X1 & X2 & X3). apply (range_frame_fits hash (h_ck c) b Hck H32 H64 X1 X3). unfold B in X2. lia.
Qed.
