(* The container with an entropy-coded block payload (Model/ContainerG.v).  First for ANY inner image / inner parser pair
   that round-trips on the blocks considered (the frame and stream layers do not care what is inside a frame); then the
   inner pair of the NONE transform + RANGE entropy pipeline is shown to be such a pair (on C12_range_codec_roundtrip);
   together: a whole stream written with entropy RANGE is parsed back to its configuration and its blocks. *)
From Coq Require Import List NArith ZArith Lia Bool ZifyN ZifyNat ZifyBool.
From KV Require Import Model.OutBS Model.InBS Model.Header Model.Container Model.RangeCodec Model.ContainerG Lib.Bits
  Proofs.OutBSProofs Proofs.BinCoderProofs Proofs.InBSProofs Proofs.MirrorProofs Proofs.HeaderProofs Proofs.ArrayProofs
  Proofs.ReadArrayProofs Proofs.MirrorArrayProofs Proofs.ContainerProofs Proofs.RangeCoreProofs Proofs.RangeCodecProofs.
Import ListNotations.
Open Scope N_scope.

Ltac Zify.zify_post_hook ::= idtac.
Local Arguments N.pow : simpl never.
Local Arguments N.div : simpl never.
Local Arguments N.modulo : simpl never.
Local Arguments N.mul : simpl never.
Local Arguments N.sub : simpl never.
Local Arguments N.add : simpl never.
Local Arguments N.log2 : simpl never.

(* the lemmas of Proofs/ContainerProofs.v that do not depend on its hash / checksum parameters *)
Definition h0 : list N -> N := fun _ => 0.
Lemma d0 : 0 <= 2. Proof. lia. Qed.
Lemma d1 : 0 = 1 -> forall l, h0 l < 2 ^ 32. Proof. discriminate. Qed.
Lemma d2 : 0 = 2 -> forall l, h0 l < 2 ^ 64. Proof. discriminate. Qed.
Definition img_rw0 := img_rw h0 0 d0 d1 d2.
Definition arr_chunks_ok0 := arr_chunks_ok h0 0 d0 d1 d2.
Definition lw_facts0 := lw_facts h0 0 d0 d1 d2.
Definition ifuel_enough0 := ifuel_enough h0 0 d0 d1 d2.

(* ---------- frames and stream, generic ---------- *)
Section GEN.
Variable img : list N -> list N * N.
Variable pin : N -> list N -> pframe.
Variable bsize : N.
Variable good : list N -> Prop.
Hypothesis Himg : forall b, good b -> exists im w pad, img b = (im, w) /\ bytes_ok im /\ pad < 8 /\
  8 * N.of_nat (length im) = w + pad /\ be_val im mod 2 ^ pad = 0 /\ 16 <= w <= 8589934696.
Hypothesis Hpin : forall b, good b -> pin bsize (fst (img b)) = PData b.

Definition frame_aops_g (b : list N) : list aop :=
  let im := fst (img b) in let w := snd (img b) in
  [AOp (WBits (lw_of w - 3) 5); AOp (WBits w (lw_of w))] ++ map conv (arr_chunks (ifuel w) im w).

Lemma frame_ops_g_eq b : map conv (frame_ops_g img b) = frame_aops_g b.
Proof.
  unfold frame_ops_g, frame_aops_g, ifuel. destruct (img b) as [im w]. cbn [fst snd]. fold (lw_of w).
  rewrite map_app. reflexivity.
Qed.

Lemma frame_aops_g_ok b : good b -> Forall aop_ok (frame_aops_g b).
Proof.
  intros Hg. destruct (Himg b Hg) as (im & w & pad & Ei & Hbi & Hpad & Hlen & _ & Hw). destruct (lw_facts0 _ Hw) as [Hlw _].
  unfold frame_aops_g. rewrite Ei. cbn [fst snd].
  apply Forall_app. split; [repeat constructor; cbn [aop_ok wop_ok]; lia|]. apply arr_chunks_ok0; [exact Hbi|lia].
Qed.

Lemma read_frame_g s b t P p : RA s -> good b -> Forall aop_ok t -> p < 2 ^ P ->
  uval s = fst (abvs (frame_aops_g b ++ t)) * 2 ^ P + p -> total s = snd (abvs (frame_aops_g b ++ t)) + P ->
  exists s1 s2 s3 l3 w im,
    read_bits s 5 = (s1, Val l3) /\ read_bits s1 (l3 + 3) = (s2, Val w) /\ (w =? 0) = false /\ (17179869184 <? w) = false /\
    read_img (S (N.to_nat (w / 1073741824))) s2 w [] = (s3, Some im) /\ pin bsize im = PData b /\
    RA s3 /\ uval s3 = fst (abvs t) * 2 ^ P + p /\ total s3 = snd (abvs t) + P.
Proof.
  intros HR Hg Ht Hp HU HT.
  pose proof (frame_aops_g_ok b Hg) as Hfo. pose proof (Hpin b Hg) as Hpi.
  destruct (Himg b Hg) as (im & w & pad & Ei & Hbi & Hpad & Hlen & Hz & Hw). destruct (lw_facts0 _ Hw) as [Hlw Hwlt].
  unfold frame_aops_g in HU, HT, Hfo. rewrite Ei in *. cbn [fst snd] in *. rewrite <- app_assoc in HU, HT. cbn [app] in HU, HT, Hfo.
  apply Forall_inv_tail in Hfo as Hf1. apply Forall_inv_tail in Hf1 as Hf2.
  assert (Ht2 : Forall aop_ok (map conv (arr_chunks (ifuel w) im w) ++ t)) by (apply abvs_app_ok0; assumption).
  assert (Ht1 : Forall aop_ok (AOp (WBits w (lw_of w)) :: map conv (arr_chunks (ifuel w) im w) ++ t)) by (constructor; [apply Forall_inv in Hf1; exact Hf1|exact Ht2]).
  destruct (rd_abvs s (lw_of w - 3) 5 _ P p HR ltac:(lia) Ht1 Hp HU HT) as (s1 & E1 & R1 & U1 & T1).
  change (2 ^ 5) with 32 in E1. rewrite N.mod_small in E1 by lia.
  destruct (rd_abvs s1 w (lw_of w) _ P p R1 ltac:(lia) Ht2 Hp U1 T1) as (s2 & E2 & R2 & U2 & T2).
  rewrite (N.mod_small _ _ Hwlt) in E2.
  destruct (img_rw0 (ifuel w) im w pad s2 [] t P p Hbi Hlen Hpad Hz (ifuel_enough0 w) R2 Ht Hp U2 T2) as (s3 & E3 & R3 & U3 & T3).
  cbn [app] in E3.
  exists s1, s2, s3, (lw_of w - 3), w, im.
  split; [exact E1|]. split; [replace (lw_of w - 3 + 3) with (lw_of w) by lia; exact E2|].
  split; [apply N.eqb_neq; lia|]. split; [apply N.ltb_ge; lia|].
  split; [exact E3|]. auto.
Qed.

Lemma frames_g_ok blocks : Forall good blocks -> Forall aop_ok (flat_map frame_aops_g blocks ++ end_aops).
Proof.
  induction 1 as [|b t Hg _ IH]; cbn [flat_map app].
  - repeat constructor; cbn; lia.
  - rewrite <- app_assoc. apply abvs_app_ok; [apply frame_aops_g_ok; assumption|exact IH].
Qed.

Theorem parse_frames_g_ok : forall blocks fuel s P p, RA s -> Forall good blocks -> p < 2 ^ P ->
  (length blocks < fuel)%nat ->
  uval s = fst (abvs (flat_map frame_aops_g blocks ++ end_aops)) * 2 ^ P + p ->
  total s = snd (abvs (flat_map frame_aops_g blocks ++ end_aops)) + P ->
  parse_frames_g pin fuel bsize s = map PData blocks ++ [PEnd].
Proof.
  induction blocks as [|b t IH]; intros fuel s P p HR Hok Hp Hfu HU HT.
  - destruct fuel as [|f]; [cbn [length] in Hfu; lia|]. cbn [flat_map app] in HU, HT. unfold end_aops in HU, HT. cbn [parse_frames_g map app].
    destruct (rd_abvs s 0 5 [AOp (WBits 0 3)] P p HR ltac:(lia) ltac:(repeat constructor; cbn; lia) Hp HU HT) as (s1 & E1 & R1 & U1 & T1).
    rewrite E1. change (0 mod 2 ^ 5) with 0. change (0 + 3) with 3.
    destruct (rd_abvs s1 0 3 [] P p R1 ltac:(lia) ltac:(constructor) Hp U1 T1) as (s2 & E2 & _).
    rewrite E2. reflexivity.
  - destruct fuel as [|f]; [cbn [length] in Hfu; lia|]. cbn [length] in Hfu.
    inversion Hok as [|? ? Hb Ht]; subst. cbn [flat_map] in HU, HT. rewrite <- app_assoc in HU, HT.
    destruct (read_frame_g s b _ P p HR Hb (frames_g_ok t Ht) Hp HU HT)
      as (s1 & s2 & s3 & l3 & w & im & E1 & E2 & W0 & W1 & E3 & Epi & R3 & U3 & T3).
    cbn [parse_frames_g map app]. rewrite E1, E2, W0, W1, E3, Epi. f_equal.
    apply (IH f s3 P p R3 Ht Hp ltac:(lia) U3 T3).
Qed.

Lemma stream_aops_g c blocks :
  map conv (stream_ops_g img c blocks) =
  map (fun f => AOp (WBits (fst f) (snd f))) (header_fields c) ++ flat_map frame_aops_g blocks ++ end_aops.
Proof.
  unfold stream_ops_g. rewrite !map_app, map_map. f_equal. f_equal.
  induction blocks as [|b t IH]; [reflexivity|]. cbn [flat_map]. rewrite map_app, IH. f_equal. apply frame_ops_g_eq.
Qed.

Section S.
Variables evalid tvalid : N -> bool.
Variable c : hcfg.
Hypothesis Hc : cfg_ok evalid tvalid c.
Hypothesis Hbs : bsize = h_bsize c.

(* the whole stream: header, frames, end marker - written, closed, read back with any buffer size and source schedule *)
Theorem stream_g_roundtrip blocks nframes rbuf sched :
  Forall good blocks -> (length blocks < nframes)%nat -> 0 < rbuf -> rbuf mod 8 = 0 ->
  exists sH, read_header evalid tvalid (new_ibs rbuf (mkSrc (write_stream_g img c blocks) sched None 0)) = (sH, HOk (norm_cfg c)) /\
    parse_frames_g pin nframes bsize sH = map PData blocks ++ [PEnd].
Proof.
  intros Hbl Hfu Hr Hr8. set (rest := flat_map frame_aops_g blocks ++ end_aops).
  pose proof (ck_ok _ _ _ Hc) as Hck. destruct (header_fields_ok c Hck) as [Hfo _].
  assert (Hrest : Forall aop_ok rest) by (apply frames_g_ok; exact Hbl).
  assert (Hall : Forall aop_ok (map conv (stream_ops_g img c blocks))).
  { rewrite (stream_aops_g c blocks). apply Forall_app. split; [|exact Hrest].
    apply Forall_forall. intros o Ho. apply in_map_iff in Ho. destruct Ho as (f & <- & Hf).
    cbn [aop_ok wop_ok]. rewrite Forall_forall in Hfo. specialize (Hfo f Hf). unfold field_ok in Hfo. clear - Hfo. lia. }
  destruct (array_image 65536 _ ltac:(clear; lia) ltac:(reflexivity) Hall) as (s1 & s2 & pad & V & L & E1 & E2 & EV & Hcl & Hpad & Hlen & Himg0 & _).
  unfold write_stream_g. rewrite run_cops_conv, E1. change (close healthy_sink s1) with (close healthy s1). rewrite E2.
  assert (Hob : bytes_ok (o_out s2)).
  { eapply close_obok; [|exact E2]. eapply run_aops_obok; [|exact Hall|exact E1]. split; constructor. }
  destruct (new_ibs_ra rbuf (o_out s2) sched Hr Hr8 Hob) as (R0 & U0 & T0). cbv zeta in R0, U0, T0.
  rewrite fold_abvs in EV. cbn [fst snd] in EV. rewrite N.mul_0_l, !N.add_0_l in EV.
  rewrite (stream_aops_g c blocks) in EV. fold rest in EV. rewrite abvs_fields in EV.
  set (r := (fst (abvs rest) * 2 ^ pad, snd (abvs rest) + pad)).
  assert (Hrl : fst r < 2 ^ snd r).
  { unfold r. cbn [fst snd]. rewrite N.pow_add_r. pose proof (abvs_lt rest Hrest) as X. pose proof (pow2_pos pad) as Y. clear - X Y. nia. }
  set (s0 := new_ibs rbuf (mkSrc (o_out s2) sched None 0)) in *.
  assert (Hv : (uval s0, total s0) = vec (header_fields c) r).
  { rewrite U0, T0, Himg0, Hlen. unfold r. rewrite <- vec_shift. injection EV as -> ->. reflexivity. }
  pose (Q := fun s : ibs => AL s /\ i_size s mod 8 = 0).
  assert (Qstep : forall s cnt s' v, AInv s -> Q s -> read_bits s cnt = (s', Val v) -> Q s').
  { intros s cnt s' v HA [HAL Hs8] E. unfold read_bits in E.
    destruct (read_bits_al 66 s cnt s' v (ai_i s HA) HAL Hs8 E) as [A B]. split; [exact A|rewrite B; exact Hs8]. }
  destruct (header_parse evalid tvalid Q Qstep c s0 r Hc (ra_a _ R0) (conj (ra_al _ R0) (ra_sz _ R0)) Hrl Hv) as (s' & Eh & A' & R' & [QA QS]).
  injection R' as RU RT.
  exists s'. split; [exact Eh|].
  apply (parse_frames_g_ok blocks nframes s' pad 0 (Build_RA s' A' QA QS) Hbl (pow2_pos pad) Hfu); [rewrite RU; unfold r, rest; cbn [fst]; clear; lia|rewrite RT; reflexivity].
Qed.
End S.
End GEN.

(* ---------- the inner pair of the NONE transform + RANGE entropy pipeline ---------- *)
Lemma chunk_fuel (n : nat) : (n <= S (n / CHUNK) * CHUNK)%nat.
Proof.
  pose proof chunk_pos as HC.
  pose proof (Nat.div_mod n CHUNK ltac:(lia)) as E. pose proof (Nat.mod_upper_bound n CHUNK ltac:(lia)) as L.
  set (q := (n / CHUNK)%nat) in *. set (r := (n mod CHUNK)%nat) in *. clearbody q r. rewrite E at 1. clear - L. nia.
Qed.

Lemma mode_copy n : 0 < n <= 1073741824 -> (N.land (block_mode n) 128 =? 0) = negb (n <=? 15).
Proof.
  intros Hn. destruct (data_size_bounds h0 0 d0 d1 d2 n Hn) as [Hd _]. unfold block_mode.
  assert (Cases : data_size n = 1 \/ data_size n = 2 \/ data_size n = 3 \/ data_size n = 4) by lia.
  destruct (n <=? 15); destruct Cases as [E | [E | [E | E]]]; rewrite E; vm_compute; auto.
Qed.

Section RIN.
Variable hash : list N -> N.
Variable ck : N.
Hypothesis Hck : ck <= 2.
Hypothesis Hh32 : ck = 1 -> forall l, hash l < 2 ^ 32.
Hypothesis Hh64 : ck = 2 -> forall l, hash l < 2 ^ 64.

Definition pay (b : list N) : list cop :=
  if N.of_nat (length b) <=? 15 then null_chunks (nfuel b) b else range_payload b.

Lemma inner_ops_r_eq b :
  map conv (inner_ops_r hash ck b) =
  [AOp (WBits (block_mode (N.of_nat (length b))) 8); AOp (WBits (N.of_nat (length b)) (8 * data_size (N.of_nat (length b))))]
  ++ map conv (hash_ops hash ck b) ++ map conv (pay b).
Proof. unfold inner_ops_r, pay, nfuel, hash_ops. rewrite !map_app. reflexivity. Qed.

Lemma pay_ok b : bytes_ok b -> Forall aop_ok (map conv (pay b)).
Proof.
  intros Hb. unfold pay. destruct (N.of_nat (length b) <=? 15).
  - apply (null_chunks_ok hash ck Hck Hh32 Hh64 (nfuel b) b Hb (nfuel_enough hash ck Hck Hh32 Hh64 b)).
  - unfold range_payload. destruct (chunks_roundtrip _ b Hb (chunk_fuel (length b))) as (allops & Ee & Hall & _). rewrite Ee. exact Hall.
Qed.

Lemma inner_aops_r_ok b : b <> [] -> N.of_nat (length b) <= 1073741824 -> bytes_ok b -> Forall aop_ok (map conv (inner_ops_r hash ck b)).
Proof.
  intros Hne Hl Hb. rewrite (inner_ops_r_eq b).
  assert (Hn : 0 < N.of_nat (length b) <= 1073741824) by (split; [destruct b; [congruence|cbn [length]; lia]|exact Hl]).
  destruct (data_size_bounds hash ck Hck Hh32 Hh64 _ Hn) as [Hd _].
  apply Forall_app. split; [repeat constructor; cbn [aop_ok wop_ok]; lia|].
  apply Forall_app. split; [apply (hash_ops_ok hash ck Hck Hh32 Hh64)|apply pay_ok; exact Hb].
Qed.

Lemma inner_image_r_spec b : b <> [] -> N.of_nat (length b) <= 1073741824 -> bytes_ok b ->
  exists im w pad, inner_image_r hash ck b = (im, w) /\ bytes_ok im /\ pad < 8 /\
    8 * N.of_nat (length im) = w + pad /\ be_val im = fst (abvs (map conv (inner_ops_r hash ck b))) * 2 ^ pad /\
    w = snd (abvs (map conv (inner_ops_r hash ck b))) /\ 16 <= w.
Proof.
  intros Hne Hl Hb. pose proof (inner_aops_r_ok b Hne Hl Hb) as Hok.
  destruct (array_image 16384 _ ltac:(lia) ltac:(reflexivity) Hok) as (s1 & s2 & pad & V & L & E1 & E2 & EV & Hcl & Hpad & Hlen & Himg0 & Hwr).
  unfold inner_image_r. rewrite run_cops_conv. rewrite E1.
  change (close healthy_sink s1) with (close healthy s1). rewrite E2.
  rewrite fold_abvs in EV. rewrite N.mul_0_l, !N.add_0_l in EV. apply pair_equal_spec in EV. destruct EV as [EV1 EV2].
  exists (o_out s2), (Z.to_N (written s2)), pad. rewrite Hwr, N2Z.id. split; [reflexivity|].
  split; [eapply close_obok; [|exact E2]; eapply run_aops_obok; [|exact Hok|exact E1]; split; constructor|].
  split; [exact Hpad|]. split; [exact Hlen|]. split; [rewrite Himg0, EV1; reflexivity|]. split; [exact EV2|].
  rewrite EV2, (inner_ops_r_eq b).
  assert (Hn : 0 < N.of_nat (length b) <= 1073741824) by (split; [destruct b; [congruence|cbn [length]; lia]|exact Hl]).
  destruct (data_size_bounds hash ck Hck Hh32 Hh64 _ Hn) as [Hd _].
  cbn [app abvs snd aop_size op_size]. lia.
Qed.

Definition good_r (bsize : N) (b : list N) : Prop :=
  b <> [] /\ N.of_nat (length b) <= 1073741824 /\ bytes_ok b /\ N.of_nat (length b) <= bsize /\
  snd (inner_image_r hash ck b) <= 8589934696.

Lemma img_r_facts bsize b : good_r bsize b -> exists im w pad, inner_image_r hash ck b = (im, w) /\ bytes_ok im /\ pad < 8 /\
  8 * N.of_nat (length im) = w + pad /\ be_val im mod 2 ^ pad = 0 /\ 16 <= w <= 8589934696.
Proof.
  intros (Hne & Hl & Hb & _ & Hw). destruct (inner_image_r_spec b Hne Hl Hb) as (im & w & pad & Ei & Hbi & Hpad & Hlen & Himg0 & _ & H16).
  exists im, w, pad. rewrite Ei in Hw. cbn [snd] in Hw. split; [exact Ei|]. split; [exact Hbi|]. split; [exact Hpad|]. split; [exact Hlen|].
  split; [rewrite Himg0; apply N.mod_mul; apply N.pow_nonzero; discriminate|split; assumption].
Qed.

Theorem parse_inner_r_ok bsize b : good_r bsize b -> bsize <= MAX_BLOCK ->
  parse_inner_r hash ck bsize (fst (inner_image_r hash ck b)) = PData b.
Proof.
  intros (Hne & Hl & Hb & Hbs & _) Hmax.
  destruct (inner_image_r_spec b Hne Hl Hb) as (im & w & pad & Ei & Hbi & Hpad & Hlen & Himg0 & Hw & _). rewrite Ei. cbn [fst].
  pose proof (inner_aops_r_ok b Hne Hl Hb) as Hok. rewrite (inner_ops_r_eq b) in Himg0, Hw, Hok.
  set (n := N.of_nat (length b)) in *.
  assert (Hn : 0 < n <= 1073741824) by (split; [unfold n; destruct b; [congruence|cbn [length]; lia]|exact Hl]).
  destruct (data_size_bounds hash ck Hck Hh32 Hh64 n Hn) as [Hd Hnd].
  destruct (mode_facts hash ck Hck Hh32 Hh64 n Hn) as (Hm & Hskip & Hds). cbv zeta in Hm, Hskip, Hds.
  pose proof (mode_copy n Hn) as Hcopy.
  destruct (new_ibs_ra 16384 im [] ltac:(lia) ltac:(reflexivity) Hbi) as (R0 & U0 & T0). cbv zeta in R0, U0, T0.
  unfold parse_inner_r. set (s0 := new_ibs 16384 (mkSrc im [] None 0)) in *.
  cbn [app] in Himg0, Hw, Hok.
  apply Forall_inv_tail in Hok as Hok1. apply Forall_inv_tail in Hok1 as Hok2.
  assert (Hp0 : 0 < 2 ^ pad) by apply pow2_pos.
  destruct (rd_abvs s0 (block_mode n) 8 _ pad 0 R0 ltac:(lia) Hok1 Hp0 ltac:(rewrite U0, Himg0; lia) ltac:(rewrite T0, Hlen, Hw; reflexivity))
    as (s1 & E1 & R1 & U1 & T1).
  rewrite E1. change (2 ^ 8) with 256. rewrite (N.mod_small _ _ Hm). rewrite negb_involutive, Hskip. cbn [negb]. rewrite Hds.
  destruct (rd_abvs s1 n (8 * data_size n) _ pad 0 R1 ltac:(lia) Hok2 Hp0 U1 T1) as (s2 & E2 & R2 & U2 & T2).
  rewrite E2. rewrite (N.mod_small _ _ Hnd).
  replace ((n =? 0) || (N.min (N.max (bsize + bsize / 2) 2048) MAX_BLOCK <? n)) with false.
  2:{ symmetry. apply orb_false_iff. split; [apply N.eqb_neq; lia|apply N.ltb_ge]. apply N.min_glb; [|unfold MAX_BLOCK; lia].
      etransitivity; [|apply N.le_max_l]. lia. }
  assert (Hlast : Forall aop_ok (map conv (pay b))) by (apply pay_ok; exact Hb).
  (* the payload, from any state that stands at it *)
  assert (Hpay : forall s, RA s -> uval s = fst (abvs (map conv (pay b))) * 2 ^ pad + 0 -> total s = snd (abvs (map conv (pay b))) + pad ->
            (if negb (N.land (block_mode n) 128 =? 0) then snd (null_read (S (N.to_nat (n / 8388608))) s n [])
             else match dec_chunks (S (N.to_nat n / CHUNK)) s (N.to_nat n) (repeat 0 256) [] with
                  | ROk data => if N.of_nat (length data) =? n then Some data else None
                  | _ => None end) = Some b).
  { intros s HRs HUs HTs. rewrite Hcopy, negb_involutive. unfold pay in HUs, HTs. fold n in HUs, HTs. destruct (n <=? 15).
    - destruct (null_rw hash ck Hck Hh32 Hh64 (nfuel b) b s [] [] pad 0 (nfuel_enough hash ck Hck Hh32 Hh64 b) HRs Hb ltac:(constructor) Hp0
                  ltac:(rewrite app_nil_r; exact HUs) ltac:(rewrite app_nil_r; exact HTs)) as (s4 & E4 & _).
      fold n in E4. change (S (N.to_nat (n / 8388608))) with (nfuel b). rewrite E4. reflexivity.
    - unfold range_payload in HUs, HTs. destruct (chunks_roundtrip _ b Hb (chunk_fuel (length b))) as (allops & Ee & Hall & Hdec).
      rewrite Ee in HUs, HTs. unfold n. rewrite Nat2N.id.
      rewrite (Hdec s (repeat 0 256) [] [] pad 0 HRs (repeat_length _ _) (Forall_nil _) Hp0
                 ltac:(rewrite app_nil_r; exact HUs) ltac:(rewrite app_nil_r; exact HTs)).
      cbn [app]. rewrite N.eqb_refl. reflexivity. }
  unfold hash_ops in U2, T2.
  destruct (ck =? 1) eqn:C1.
  - apply N.eqb_eq in C1. cbn [map conv app] in U2, T2.
    destruct (rd_abvs s2 (hash b) 32 _ pad 0 R2 ltac:(lia) Hlast Hp0 U2 T2) as (s3 & E3 & R3 & U3 & T3).
    rewrite E3. rewrite (N.mod_small _ _ (Hh32 C1 b)). rewrite (Hpay s3 R3 U3 T3). rewrite N.eqb_refl, orb_true_r. reflexivity.
  - destruct (ck =? 2) eqn:C2.
    + apply N.eqb_eq in C2. cbn [map conv app] in U2, T2.
      destruct (rd_abvs s2 (hash b) 64 _ pad 0 R2 ltac:(lia) Hlast Hp0 U2 T2) as (s3 & E3 & R3 & U3 & T3).
      rewrite E3. rewrite (N.mod_small _ _ (Hh64 C2 b)). rewrite (Hpay s3 R3 U3 T3). rewrite N.eqb_refl, orb_true_r. reflexivity.
    + cbn [map conv app] in U2, T2. rewrite (Hpay s2 R2 U2 T2).
      replace (ck =? 0) with true by (symmetry; apply N.eqb_eq; apply N.eqb_neq in C1, C2; lia). reflexivity.
Qed.
End RIN.

(* ---------- a whole stream with entropy RANGE ---------- *)
Section STREAMR.
Variable hash : list N -> N.
Variables evalid tvalid : N -> bool.
Variable c : hcfg.
Hypothesis Hc : cfg_ok evalid tvalid c.
Hypothesis H32 : h_ck c = 1 -> forall l, hash l < 2 ^ 32.
Hypothesis H64 : h_ck c = 2 -> forall l, hash l < 2 ^ 64.
Hypothesis Het : h_etype c = RANGE_TYPE.

Theorem container_range_roundtrip blocks nframes rbuf sched :
  Forall (good_r hash (h_ck c) (h_bsize c)) blocks -> (length blocks < nframes)%nat -> 0 < rbuf -> rbuf mod 8 = 0 ->
  parse_stream_e hash evalid tvalid nframes rbuf sched (write_stream_e hash c blocks) = Some (norm_cfg c, map PData blocks ++ [PEnd]).
Proof.
  intros Hbl Hfu Hr Hr8.
  pose proof (ck_ok _ _ _ Hc) as Hck. destruct (bs_ok _ _ _ Hc) as [[_ Hmax] _].
  assert (Ei : img_of hash c = inner_image_r hash (h_ck c)) by (unfold img_of; rewrite Het; reflexivity).
  assert (Ep : pin_of hash (norm_cfg c) = parse_inner_r hash (h_ck c)).
  { unfold pin_of. change (h_etype (norm_cfg c)) with (h_etype c). change (h_ck (norm_cfg c)) with (h_ck c). rewrite Het. reflexivity. }
  destruct (stream_g_roundtrip (inner_image_r hash (h_ck c)) (parse_inner_r hash (h_ck c)) (h_bsize c) (good_r hash (h_ck c) (h_bsize c))
              (img_r_facts hash (h_ck c) Hck H32 H64 (h_bsize c))
              (fun b Hg => parse_inner_r_ok hash (h_ck c) Hck H32 H64 (h_bsize c) b Hg Hmax)
              evalid tvalid c Hc blocks nframes rbuf sched Hbl Hfu Hr Hr8) as (sH & Eh & Ef).
  unfold parse_stream_e, write_stream_e. rewrite Ei, Eh, Ep. change (h_bsize (norm_cfg c)) with (h_bsize c). rewrite Ef. reflexivity.
Qed.
End STREAMR.
