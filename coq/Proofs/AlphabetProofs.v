(* EncodeAlphabet / DecodeAlphabet: for every strictly increasing alphabet of byte values (0 to 256 symbols),
   at any position of a bit stream and whatever follows, any buffer size / source schedule on the reading side:
   DecodeAlphabet returns the alphabet and leaves the reader exactly after the header. *)
From Coq Require Import List NArith ZArith Lia Bool Sorted Arith ZifyN ZifyNat ZifyBool.
From KV Require Import Model.OutBS Model.InBS Model.Container Model.Alphabet Lib.Bits Proofs.OutBSProofs Proofs.BinCoderProofs
  Proofs.InBSProofs Proofs.MirrorProofs Proofs.ArrayProofs Proofs.ReadArrayProofs Proofs.MirrorArrayProofs Proofs.ContainerProofs.
Import ListNotations.
Open Scope N_scope.
Ltac Zify.zify_post_hook ::= idtac.
Local Arguments N.pow : simpl never.
Local Arguments N.mul : simpl never.
Local Arguments N.add : simpl never.
Local Arguments N.div : simpl never.

(* ---------- presence masks ---------- *)
Definition mb (b0 b1 b2 b3 b4 b5 b6 b7 : bool) : N :=
  (if b0 then 2 ^ 0 else 0) + ((if b1 then 2 ^ 1 else 0) + ((if b2 then 2 ^ 2 else 0) + ((if b3 then 2 ^ 3 else 0) +
  ((if b4 then 2 ^ 4 else 0) + ((if b5 then 2 ^ 5 else 0) + ((if b6 then 2 ^ 6 else 0) + ((if b7 then 2 ^ 7 else 0) + 0))))))).

Lemma mb_bits b0 b1 b2 b3 b4 b5 b6 b7 :
  map (N.testbit (mb b0 b1 b2 b3 b4 b5 b6 b7)) [0; 1; 2; 3; 4; 5; 6; 7] = [b0; b1; b2; b3; b4; b5; b6; b7] /\ mb b0 b1 b2 b3 b4 b5 b6 b7 < 256.
Proof. destruct b0, b1, b2, b3, b4, b5, b6, b7; vm_compute; split; reflexivity. Qed.

Lemma mask_byte_mb alpha k : mask_byte alpha k =
  mb (present alpha (8 * k + 0)) (present alpha (8 * k + 1)) (present alpha (8 * k + 2)) (present alpha (8 * k + 3))
     (present alpha (8 * k + 4)) (present alpha (8 * k + 5)) (present alpha (8 * k + 6)) (present alpha (8 * k + 7)).
Proof. reflexivity. Qed.

Lemma syms_of_mask_eq alpha k : syms_of_mask k (mask_byte alpha k) = filter (present alpha) (map (fun j => 8 * k + j) [0; 1; 2; 3; 4; 5; 6; 7]).
Proof.
  rewrite mask_byte_mb. unfold syms_of_mask.
  set (b0 := present alpha (8 * k + 0)). set (b1 := present alpha (8 * k + 1)). set (b2 := present alpha (8 * k + 2)).
  set (b3 := present alpha (8 * k + 3)). set (b4 := present alpha (8 * k + 4)). set (b5 := present alpha (8 * k + 5)).
  set (b6 := present alpha (8 * k + 6)). set (b7 := present alpha (8 * k + 7)).
  destruct (mb_bits b0 b1 b2 b3 b4 b5 b6 b7) as [H _]. cbn [map] in H.
  injection H as H0 H1 H2 H3 H4 H5 H6 H7.
  cbn [flat_map map filter]. rewrite H0, H1, H2, H3, H4, H5, H6, H7.
  fold b0 b1 b2 b3 b4 b5 b6 b7. destruct b0, b1, b2, b3, b4, b5, b6, b7; reflexivity.
Qed.

Lemma masks32_ok alpha : bytes_ok (masks32 alpha) /\ length (masks32 alpha) = 32%nat.
Proof.
  unfold masks32. split; [|rewrite map_length; unfold iota; rewrite map_length, seq_length; reflexivity].
  apply Forall_forall. intros x Hx. apply in_map_iff in Hx. destruct Hx as (k & <- & _). rewrite mask_byte_mb. apply mb_bits.
Qed.

(* ---------- enumerations ---------- *)
Lemma iota_S n : iota (S n) = iota n ++ [N.of_nat n].
Proof. unfold iota. rewrite seq_S, map_app. reflexivity. Qed.

Lemma iota_blocks n : iota (8 * n) = flat_map (fun i => map (fun j => 8 * i + j) [0; 1; 2; 3; 4; 5; 6; 7]) (iota n).
Proof.
  induction n as [|n IH]; [reflexivity|]. rewrite iota_S, flat_map_app, <- IH. cbn [flat_map map]. rewrite app_nil_r.
  replace (8 * S n)%nat with (S (S (S (S (S (S (S (S (8 * n)))))))))%nat by lia. rewrite !iota_S, <- !app_assoc. cbn [app]. f_equal.
  repeat (f_equal; try lia).
Qed.

Lemma filter_flat_map {A B} (p : B -> bool) (f : A -> list B) l : filter p (flat_map f l) = flat_map (fun x => filter p (f x)) l.
Proof. induction l as [|x t IH]; [reflexivity|]. cbn [flat_map]. rewrite filter_app, IH. reflexivity. Qed.

Lemma present_nil x : present [] x = false. Proof. reflexivity. Qed.

Lemma filter_sorted : forall n lo l, StronglySorted N.lt l -> Forall (fun x => N.of_nat lo <= x < N.of_nat (lo + n)) l ->
  filter (present l) (map N.of_nat (seq lo n)) = l.
Proof.
  induction n as [|n IH]; intros lo l Hs Hb.
  - destruct l as [|x t]; [reflexivity|]. apply Forall_inv in Hb. lia.
  - cbn [seq map filter]. destruct l as [|x t].
    + rewrite present_nil. rewrite (IH (S lo) [] Hs ltac:(constructor)). reflexivity.
    + apply Forall_inv in Hb as Hx. apply Forall_inv_tail in Hb as Ht. apply StronglySorted_inv in Hs as [Hst Hlt].
      destruct (N.eq_dec x (N.of_nat lo)) as [E|E].
      * unfold present at 1. cbn [existsb]. rewrite E, N.eqb_refl. cbn [orb]. f_equal. rewrite <- E.
        rewrite <- (IH (S lo) t Hst) at 2.
        2:{ rewrite Forall_forall in *. intros y Hy. specialize (Hlt y Hy). specialize (Ht y Hy). cbv beta in Ht. lia. }
        apply filter_ext_in. intros y Hy. apply in_map_iff in Hy. destruct Hy as (k & <- & Hk). apply in_seq in Hk.
        unfold present. cbn [existsb]. replace (N.of_nat k =? x) with false by (symmetry; apply N.eqb_neq; lia). reflexivity.
      * replace (present (x :: t) (N.of_nat lo)) with false.
        2:{ symmetry. unfold present. apply not_true_is_false. intros H. apply existsb_exists in H. destruct H as (y & Hy & Ey). apply N.eqb_eq in Ey.
            destruct Hy as [<-|Hy]; [lia|]. rewrite Forall_forall in Hlt. specialize (Hlt y Hy). lia. }
        apply (IH (S lo) (x :: t)); [constructor; assumption|].
        constructor; [lia|]. rewrite Forall_forall in *. intros y Hy. specialize (Hlt y Hy). specialize (Ht y Hy). cbv beta in Ht. lia.
Qed.

Lemma filter_iota alpha n : StronglySorted N.lt alpha -> Forall (fun x => x < N.of_nat n) alpha -> filter (present alpha) (iota n) = alpha.
Proof.
  intros Hs Hb. apply (filter_sorted n 0 alpha Hs). eapply Forall_impl; [|exact Hb]. intros x Hx. cbv beta in Hx |- *. lia.
Qed.

Lemma filter_len_le {A} (p : A -> bool) l : (length (filter p l) <= length l)%nat.
Proof. induction l as [|x t IH]; [apply le_n|]. cbn [filter]. destruct (p x); cbn [length]; lia. Qed.

Lemma filter_all {A} (p : A -> bool) l : length (filter p l) = length l -> filter p l = l.
Proof.
  induction l as [|x t IH]; [reflexivity|]. cbn [filter]. destruct (p x); cbn [length]; intros H.
  - f_equal. apply IH. lia.
  - pose proof (filter_len_le p t). lia.
Qed.

Lemma full_alphabet alpha : StronglySorted N.lt alpha -> Forall (fun x => x < 256) alpha -> length alpha = 256%nat -> alpha = iota 256.
Proof.
  intros Hs Hb Hl. pose proof (filter_iota alpha 256 Hs Hb) as H. rewrite <- H at 1. apply filter_all. rewrite H, Hl.
  unfold iota. rewrite map_length, seq_length. reflexivity.
Qed.

(* the last element of a sorted list bounds it *)
Lemma sorted_last : forall l, StronglySorted N.lt l -> Forall (fun x => x <= last l 0) l.
Proof.
  induction l as [|x t IH]; intros Hs; [constructor|]. apply StronglySorted_inv in Hs as [Hst Hlt].
  destruct t as [|y u]; [constructor; [cbn [last]; lia|constructor]|].
  specialize (IH Hst). change (last (x :: y :: u) 0) with (last (y :: u) 0).
  constructor; [|exact IH]. apply Forall_inv in Hlt. apply Forall_inv in IH. lia.
Qed.

Lemma firstn_seq_le : forall k lo n, (k <= n)%nat -> firstn k (seq lo n) = seq lo k.
Proof.
  induction k as [|k IH]; intros lo n H; [reflexivity|]. destruct n as [|n]; [lia|]. cbn [seq firstn]. f_equal. apply IH. lia.
Qed.

(* ---------- reading back part of an array ---------- *)
Lemma rbit_abvs s b t P p : RA s -> Forall aop_ok t -> p < 2 ^ P ->
  uval s = fst (abvs (AOp (WBit b) :: t)) * 2 ^ P + p -> total s = snd (abvs (AOp (WBit b) :: t)) + P ->
  exists s', read_bit s = (s', Val (b mod 2)) /\ RA s' /\ uval s' = fst (abvs t) * 2 ^ P + p /\ total s' = snd (abvs t) + P.
Proof.
  intros HR Ht Hp HU HT. cbn [abvs fst snd aop_val aop_size op_val op_size] in HU, HT.
  destruct (spec_step (b mod 2) 1 (fst (abvs t)) (snd (abvs t)) P p ltac:(lia) ltac:(change (2 ^ 1) with 2; apply N.mod_lt; discriminate) (abvs_lt t Ht) Hp)
    as (_ & S2 & S3 & S4). cbv zeta in S2, S3, S4.
  destruct (read_bit_ra s HR ltac:(rewrite HT; lia)) as (s' & E & HR' & T' & U').
  exists s'. rewrite HU, HT in E. rewrite HT in T'. rewrite HU, HT in U'. rewrite S2 in E. rewrite S3 in U'. rewrite S4 in T'. auto.
Qed.

(* ---------- the round trip ---------- *)
Theorem alphabet_roundtrip alpha ops s t P p cap :
  StronglySorted N.lt alpha -> Forall (fun x => x < 256) alpha -> encode_alphabet alpha = Some ops -> (length alpha <= cap)%nat ->
  RA s -> Forall aop_ok t -> p < 2 ^ P ->
  uval s = fst (abvs (map conv ops ++ t)) * 2 ^ P + p -> total s = snd (abvs (map conv ops ++ t)) + P ->
  Forall aop_ok (map conv ops) /\
  exists s', decode_alphabet s cap = (s', AOk alpha) /\ RA s' /\ uval s' = fst (abvs t) * 2 ^ P + p /\ total s' = snd (abvs t) + P.
Proof.
  intros Hs Hb He Hcap HR Ht Hp HU HT. unfold encode_alphabet in He.
  destruct (Nat.ltb 256 (length alpha)) eqn:E256; [discriminate|]. apply Nat.ltb_ge in E256.
  destruct (Nat.eqb (length alpha) 0) eqn:E0.
  - apply Nat.eqb_eq in E0. inversion He; subst ops. cbn [map conv app] in HU, HT. split; [cbn [map conv]; repeat constructor|].
    destruct (rbit_abvs s 0 (AOp (WBit 1) :: t) P p HR ltac:(constructor; [exact I|exact Ht]) Hp HU HT) as (s1 & E1 & R1 & U1 & T1).
    destruct (rbit_abvs s1 1 t P p R1 Ht Hp U1 T1) as (s2 & E2 & R2 & U2 & T2).
    exists s2. unfold decode_alphabet. rewrite E1. change (0 mod 2) with 0. cbn [N.eqb]. rewrite E2. change (1 mod 2) with 1. cbn [N.eqb Pos.eqb].
    destruct alpha; [auto|discriminate].
  - destruct (Nat.eqb (length alpha) 256) eqn:EF.
    + apply Nat.eqb_eq in EF. inversion He; subst ops. cbn [map conv app] in HU, HT. split; [cbn [map conv]; repeat constructor|].
      destruct (rbit_abvs s 0 (AOp (WBit 0) :: t) P p HR ltac:(constructor; [exact I|exact Ht]) Hp HU HT) as (s1 & E1 & R1 & U1 & T1).
      destruct (rbit_abvs s1 0 t P p R1 Ht Hp U1 T1) as (s2 & E2 & R2 & U2 & T2).
      exists s2. unfold decode_alphabet. rewrite E1. change (0 mod 2) with 0. cbn [N.eqb]. rewrite E2. cbn [N.eqb].
      replace (Nat.ltb cap 256) with false by (symmetry; apply Nat.ltb_ge; lia).
      rewrite <- (full_alphabet alpha Hs Hb EF). auto.
    + apply Nat.eqb_neq in E0, EF.
      replace (negb (forallb (fun a : N => a <? 256) alpha)) with false in He.
      2:{ symmetry. apply negb_false_iff. apply forallb_forall. intros x Hx. rewrite Forall_forall in Hb. apply N.ltb_lt. apply Hb. exact Hx. }
      inversion He; subst ops. clear He. cbn [map conv app] in HU, HT.
      set (lm := last alpha 0 / 8) in *.
      assert (Hlast : last alpha 0 < 256).
      { destruct alpha as [|x u]; [cbn [length] in E0; lia|]. rewrite Forall_forall in Hb. apply Hb.
        destruct (@exists_last _ (x :: u) ltac:(discriminate)) as (l' & a & ->). rewrite last_last. apply in_or_app. right. left. reflexivity. }
      assert (Hlm : lm < 32) by (unfold lm; apply N.div_lt_upper_bound; [discriminate|lia]).
      destruct (masks32_ok alpha) as [Hmb Hml].
      assert (Hao : aop_ok (AArr (masks32 alpha) (8 * (lm + 1)))) by (split; [exact Hmb|rewrite Hml; lia]).
      split; [cbn [map conv]; constructor; [exact I|constructor; [cbn [aop_ok wop_ok]; lia|constructor; [exact Hao|constructor]]]|].
      assert (Ht2 : Forall aop_ok (AArr (masks32 alpha) (8 * (lm + 1)) :: t)) by (constructor; assumption).
      assert (Ht1 : Forall aop_ok (AOp (WBits lm 5) :: AArr (masks32 alpha) (8 * (lm + 1)) :: t)) by (constructor; [cbn [aop_ok wop_ok]; lia|exact Ht2]).
      destruct (rbit_abvs s 1 _ P p HR Ht1 Hp HU HT) as (s1 & E1 & R1 & U1 & T1).
      destruct (rd_abvs s1 lm 5 _ P p R1 ltac:(lia) Ht2 Hp U1 T1) as (s2 & E2 & R2 & U2 & T2).
      change (2 ^ 5) with 32 in E2. rewrite (N.mod_small _ _ Hlm) in E2.
      destruct (ra_abvs s2 (masks32 alpha) (8 * (lm + 1)) t P p R2 Hao Ht Hp U2 T2) as (s3 & E3 & R3 & U3 & T3).
      set (k := S (N.to_nat lm)).
      assert (Ek : 8 * (lm + 1) = 8 * N.of_nat k) by (unfold k; lia).
      rewrite Ek in E3. rewrite (topbits_firstn (masks32 alpha) k Hmb ltac:(rewrite Hml; unfold k; lia)) in E3.
      exists s3. unfold decode_alphabet. rewrite E1. change (1 mod 2) with 1. cbn [N.eqb]. rewrite E2. rewrite Ek, E3. fold k.
      assert (Esyms : flat_map (fun im => syms_of_mask (fst im) (snd im)) (combine (iota k) (firstn k (masks32 alpha))) = alpha).
      { assert (Ef : firstn k (masks32 alpha) = map (mask_byte alpha) (iota k)).
        { unfold masks32, iota. rewrite firstn_map, firstn_map. f_equal. f_equal. apply firstn_seq_le. unfold k. lia. }
        rewrite Ef.
        assert (Ec : forall l, combine l (map (mask_byte alpha) l) = map (fun i => (i, mask_byte alpha i)) l)
          by (induction l as [|x u IH]; [reflexivity|cbn [map combine]; f_equal; exact IH]).
        rewrite Ec, flat_map_concat_map, map_map, <- flat_map_concat_map. cbn [fst snd].
        rewrite (flat_map_ext _ (fun i => filter (present alpha) (map (fun j => 8 * i + j) [0; 1; 2; 3; 4; 5; 6; 7]))) by (intros i; apply syms_of_mask_eq).
        rewrite <- filter_flat_map, <- iota_blocks. apply (filter_iota alpha (8 * k) Hs).
        pose proof (sorted_last alpha Hs) as Hle. rewrite Forall_forall in *. intros x Hx. specialize (Hle x Hx).
        pose proof (N.div_mod (last alpha 0) 8 ltac:(discriminate)) as X. pose proof (N.mod_lt (last alpha 0) 8 ltac:(discriminate)) as Y. fold lm in X.
        unfold k. lia. }
      rewrite Esyms. replace (Nat.ltb cap (length alpha)) with false by (symmetry; apply Nat.ltb_ge; exact Hcap). auto.
Qed.

(* the operations of the header are well formed *)
Lemma encode_alphabet_ok alpha ops : Forall (fun x => x < 256) alpha -> encode_alphabet alpha = Some ops -> Forall aop_ok (map conv ops).
Proof.
  intros Hb He.
  unfold encode_alphabet in He. destruct (Nat.ltb 256 (length alpha)); [discriminate|].
  destruct (Nat.eqb (length alpha) 0); [inversion He; subst; cbn [map conv]; repeat constructor|].
  destruct (Nat.eqb (length alpha) 256); [inversion He; subst; cbn [map conv]; repeat constructor|].
  destruct (negb (forallb (fun a : N => a <? 256) alpha)); [discriminate|]. inversion He; subst. cbn [map conv].
  destruct (masks32_ok alpha) as [Hmb Hml].
  assert (Hlast : last alpha 0 < 256).
  { destruct alpha as [|x u]; [cbn [last]; lia|]. rewrite Forall_forall in Hb. apply Hb.
    destruct (@exists_last _ (x :: u) ltac:(discriminate)) as (l' & a & ->). rewrite last_last. apply in_or_app. right. left. reflexivity. }
  assert (Hlm : last alpha 0 / 8 < 32) by (apply N.div_lt_upper_bound; [discriminate|lia]).
  constructor; [exact I|constructor; [cbn [aop_ok wop_ok]; lia|constructor; [split; [exact Hmb|rewrite Hml; lia]|constructor]]].
Qed.

(* written anywhere in a stream (here: first, then any program), closed, read back with any buffer size and source schedule *)
Theorem alphabet_stream_roundtrip wbuf rbuf sched alpha ops rest cap :
  StronglySorted N.lt alpha -> Forall (fun x => x < 256) alpha -> encode_alphabet alpha = Some ops -> (length alpha <= cap)%nat ->
  40 <= wbuf -> wbuf mod 8 = 0 -> 0 < rbuf -> rbuf mod 8 = 0 -> Forall aop_ok rest ->
  exists s1 s2 s', run_aops (new_obs wbuf) (map conv ops ++ rest) = (s1, false) /\ close healthy s1 = (s2, false) /\
    decode_alphabet (new_ibs rbuf (mkSrc (o_out s2) sched None 0)) cap = (s', AOk alpha) /\
    run_arops s' (arops_of rest) = avals_of rest.
Proof.
  intros Hs Hb He Hcap Hw Hw8 Hr Hr8 Hrest.
  pose proof (encode_alphabet_ok alpha ops Hb He) as Hops.
  assert (Hall : Forall aop_ok (map conv ops ++ rest)) by (apply Forall_app; split; assumption).
  destruct (array_image wbuf _ Hw Hw8 Hall) as (s1 & s2 & pad & V & L & E1 & E2 & EV & Hcl & Hpad & Hlen & Himg & _).
  exists s1, s2.
  assert (Hob : bytes_ok (o_out s2)).
  { eapply close_obok; [|exact E2]. eapply run_aops_obok; [|exact Hall|exact E1]. split; constructor. }
  destruct (new_ibs_ra rbuf (o_out s2) sched Hr Hr8 Hob) as (R0 & U0 & T0). cbv zeta in R0, U0, T0.
  rewrite fold_abvs in EV. cbn [fst snd] in EV. rewrite N.mul_0_l, !N.add_0_l in EV. injection EV as EV1 EV2.
  destruct (alphabet_roundtrip alpha ops _ rest pad 0 cap Hs Hb He Hcap R0 Hrest (pow2_pos pad)
              ltac:(rewrite U0, Himg, EV1; lia) ltac:(rewrite T0, Hlen, EV2; reflexivity)) as (_ & s' & Ed & R' & U' & T').
  exists s'. split; [exact E1|]. split; [exact E2|]. split; [exact Ed|].
  destruct (arops_ok rest Hrest) as [Haok Hsz].
  rewrite (array_reader_program _ _ R' Haok) by (rewrite Hsz, T'; lia).
  rewrite U', T'. apply spec_on_abvs; [exact Hrest|apply pow2_pos].
Qed.
