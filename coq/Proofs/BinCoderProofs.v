(* The binary arithmetic coder (entropy/BinaryEntropyCodec.go; C12): for EVERY predictor (any state
   machine whose Get stays below 2^(sa+sb)), every block of bytes and whatever follows it in the
   stream: if the encoder did not run out of its buffer, the decoder returns the block and leaves
   exactly what follows - bit-exact consumption. *)
From Coq Require Import List NArith ZArith Bool Lia ZifyN ZifyNat ZifyBool.
From KV Require Import Model.OutBS Lib.Bits Model.BinCoder.
Import ListNotations.
Open Scope N_scope.

Local Arguments N.pow : simpl never.
Local Arguments N.div : simpl never.
Local Arguments N.modulo : simpl never.
Local Arguments N.mul : simpl never.
Local Arguments N.sub : simpl never.
Local Arguments N.add : simpl never.
Local Arguments N.shiftl : simpl never.
Local Arguments N.shiftr : simpl never.
Local Arguments N.lor : simpl never.
Local Arguments N.land : simpl never.
Local Arguments N.lxor : simpl never.

Definition T56 : N := 2 ^ 56.
Definition P24 : N := 2 ^ 24.
Definition P32 : N := 2 ^ 32.

Lemma T56_eq : T56 = 72057594037927936. Proof. reflexivity. Qed.
Lemma P24_eq : P24 = 16777216. Proof. reflexivity. Qed.
Lemma P32_eq : P32 = 4294967296. Proof. reflexivity. Qed.
Lemma W64_eq : W64 = 18446744073709551616. Proof. reflexivity. Qed.
Lemma TOP_ones : TOP = N.ones 56. Proof. reflexivity. Qed.
Lemma MASK24_ones : MASK24 = N.ones 24. Proof. reflexivity. Qed.

(* ---------- bit facts ---------- *)
Lemma lxor_lt_pow2 a b k : N.lxor a b < 2 ^ k <-> a / 2 ^ k = b / 2 ^ k.
Proof.
  rewrite <- N.div_small_iff by (apply N.pow_nonzero; discriminate).
  rewrite <- !N.shiftr_div_pow2, N.shiftr_lxor. apply N.lxor_eq_0_iff.
Qed.

Lemma land_top x : N.land x TOP = x mod T56.
Proof. rewrite TOP_ones. apply N.land_ones. Qed.

Lemma lor_mask24 x : N.lor x MASK24 = (x / P24) * P24 + MASK24.
Proof.
  assert (Ha : ((x / P24) * P24) mod 2 ^ 24 = 0) by (apply N.mod_mul; discriminate).
  rewrite <- (lor_disjoint _ MASK24 24 Ha) by reflexivity.
  apply N.bits_inj. intros i. rewrite !N.lor_spec, MASK24_ones.
  destruct (N.lt_ge_cases i 24) as [Hi|Hi].
  - rewrite N.ones_spec_low by exact Hi. rewrite !orb_true_r. reflexivity.
  - rewrite N.ones_spec_high by exact Hi. rewrite !orb_false_r.
    unfold P24. rewrite <- N.shiftr_div_pow2, <- N.shiftl_mul_pow2.
    rewrite N.shiftl_spec_high' by exact Hi. rewrite N.shiftr_spec'. f_equal. lia.
Qed.

Lemma shl32_spec x : shl32 x = (x mod P32) * P32.
Proof. unfold shl32, W64, P32. rewrite N.shiftl_mul_pow2. apply (mul_pow_mod x 32). lia. Qed.

(* the three renormalisation formulas, on values below 2^56 *)
Lemma renorm_low x : N.land (shl32 x) TOP = (x mod P24) * P32.
Proof.
  rewrite land_top, shl32_spec. rewrite ?T56_eq, ?P24_eq, ?P32_eq in *.
  pose proof (N.div_mod x 4294967296 ltac:(discriminate)). pose proof (N.mod_lt x 4294967296 ltac:(discriminate)).
  pose proof (N.div_mod (x mod 4294967296) 16777216 ltac:(discriminate)). pose proof (N.mod_lt (x mod 4294967296) 16777216 ltac:(discriminate)).
  assert (E : (x mod 4294967296) mod 16777216 = x mod 16777216).
  { change 4294967296 with (16777216 * 256). rewrite N.mod_mul_r by discriminate.
    rewrite N.mul_comm, N.mod_add by discriminate. apply N.mod_mod. discriminate. }
  rewrite E in *.
  replace ((x mod 4294967296) * 4294967296) with ((x mod 16777216) * 4294967296 + ((x mod 4294967296) / 16777216) * 72057594037927936) by lia.
  rewrite N.mod_add by discriminate. apply N.mod_small. pose proof (N.mod_lt x 16777216 ltac:(discriminate)). lia.
Qed.

Lemma renorm_lor x v : v < P32 -> N.land (N.lor (shl32 x) v) TOP = (x mod P24) * P32 + v.
Proof.
  intros Hv. rewrite shl32_spec.
  rewrite (lor_disjoint _ v 32) by (try apply N.mod_mul; try discriminate; exact Hv).
  rewrite land_top. rewrite <- (renorm_low x), land_top, shl32_spec.
  rewrite ?T56_eq, ?P24_eq, ?P32_eq in *.
  set (a := (x mod 4294967296) * 4294967296).
  pose proof (N.div_mod a 72057594037927936 ltac:(discriminate)). pose proof (N.mod_lt a 72057594037927936 ltac:(discriminate)).
  assert (Ha : (a mod 72057594037927936) mod 4294967296 = 0).
  { change 72057594037927936 with (4294967296 * 16777216). rewrite N.mod_mul_r by discriminate.
    unfold a. rewrite N.mod_mul by discriminate. rewrite N.add_0_l, N.mul_comm, N.mod_mul by discriminate. reflexivity. }
  replace (a + v) with ((a mod 72057594037927936 + v) + (a / 72057594037927936) * 72057594037927936) by lia.
  rewrite N.mod_add by discriminate. apply N.mod_small.
  pose proof (N.div_mod (a mod 72057594037927936) 4294967296 ltac:(discriminate)). lia.
Qed.

Lemma app_inj_len {A} : forall (a c b d : list A), length a = length c -> a ++ b = c ++ d -> a = c /\ b = d.
Proof.
  induction a as [|x a IH]; intros c b d Hl H; destruct c as [|y c]; try discriminate; [auto|].
  cbn in H. inversion H; subst. cbn in Hl. destruct (IH c b d ltac:(lia) H2) as [-> ->]. auto.
Qed.

(* ---------- byte strings ---------- *)
Definition bytes_ok (l : list N) : Prop := Forall (fun x => x < 256) l.

Lemma be_val_lt l : bytes_ok l -> be_val l < 2 ^ (8 * N.of_nat (length l)).
Proof.
  induction 1 as [|x t Hx Ht IH]; [cbn; lia|]. cbn [be_val length].
  rewrite Nat2N.inj_succ. replace (8 * N.succ (N.of_nat (length t))) with (8 + 8 * N.of_nat (length t)) by lia.
  rewrite N.pow_add_r. change (2 ^ 8) with 256. nia.
Qed.

Lemma be_bytes_ok k v : bytes_ok (be_bytes k v).
Proof.
  revert v; induction k as [|k IH]; intros v; cbn [be_bytes]; [constructor|].
  apply Forall_app. split; [apply IH|]. constructor; [|constructor]. apply N.mod_lt. discriminate.
Qed.

Lemma bytes_ok_firstn n l : bytes_ok l -> bytes_ok (firstn n l).
Proof. intros H. rewrite <- (firstn_skipn n l) in H. apply Forall_app in H. tauto. Qed.
Lemma bytes_ok_skipn n l : bytes_ok l -> bytes_ok (skipn n l).
Proof. intros H. rewrite <- (firstn_skipn n l) in H. apply Forall_app in H. tauto. Qed.

(* ---------- the interval step on normalised values ---------- *)
Section S.
Variables (sa sb : N).
Hypothesis Hsb : sb <= 8.

Definition sp0 (L H p : N) : N := ((H - L) / 2 ^ sa * p) / 2 ^ sb.

Definition nstep0 (L H p : N) (bit : bool) : N * N :=
  if bit then (L, L + sp0 L H p) else (L + sp0 L H p + 1, H).

Lemma sp_bound L H p : L <= H -> H < T56 -> p < 2 ^ (sa + sb) ->
  (H - L) / 2 ^ sa * p < W64 /\ (L < H -> sp0 L H p < H - L) /\ (L = H -> sp0 L H p = 0).
Proof.
  intros HL HH Hp. set (X := H - L). set (a := 2 ^ sa). set (c := 2 ^ sb).
  assert (Ha : 0 < a) by apply pow2_pos. assert (Hc : 0 < c) by apply pow2_pos.
  assert (Hpc : p < a * c) by (unfold a, c; rewrite <- N.pow_add_r; exact Hp).
  assert (Hc8 : c <= 256) by (unfold c; change 256 with (2 ^ 8); apply N.pow_le_mono_r; [discriminate|exact Hsb]).
  pose proof (N.div_mod X a ltac:(lia)) as Hd. pose proof (N.mod_lt X a ltac:(lia)) as Hm.
  set (q := X / a) in *.
  assert (Hq : q * a <= X) by lia.
  assert (Hqp : q * p <= q * a * c - q) by nia.
  split; [|split].
  - rewrite W64_eq. rewrite T56_eq in HH. assert (X < 72057594037927936) by (unfold X; lia). nia.
  - intros Hlt. unfold sp0. fold X a c q. apply N.div_lt_upper_bound; [lia|].
    destruct (N.eq_dec q 0) as [E|E]; [rewrite E; unfold X; lia|]. nia.
  - intros ->. unfold sp0. rewrite N.sub_diag. replace (0 / 2 ^ sa) with 0 by (symmetry; apply N.div_0_l; lia). replace (0 * p) with 0 by lia. apply N.div_0_l. lia.
Qed.

Lemma nstep_within L H p bit : L <= H -> H < T56 -> L / P24 < H / P24 -> p < 2 ^ (sa + sb) ->
  let '(L1, H1) := nstep0 L H p bit in L <= L1 /\ L1 <= H1 /\ H1 <= H.
Proof.
  intros HL HH Hd Hp. destruct (sp_bound L H p HL HH Hp) as (_ & Hs & _).
  assert (Hlt : L < H).
  { destruct (N.eq_dec L H) as [->|]; [lia|lia]. }
  specialize (Hs Hlt). unfold nstep0. destruct bit; lia.
Qed.

End S.

(* ---------- one bit: encoder (uint64 with junk above bit 55) and decoder ---------- *)
Ltac Zify.zify_post_hook ::= Z.div_mod_to_equations.

Section C.
Variables (sa sb : N).
Hypothesis Hsb : sb <= 8.
Variable PS : Type.
Variable pget : PS -> N.
Variable pupd : PS -> bool -> PS.
Hypothesis Hp : forall ps, pget ps < 2 ^ (sa + sb).

Notation est := (est PS).
Notation dst := (dst PS).
Notation enc_bit := (enc_bit sa sb PS pget pupd).
Notation dec_bit := (dec_bit sa sb PS pget pupd).
Notation nstep := (nstep0 sa sb).
Notation sp := (sp0 sa sb).

Definition nl (e : est) : N := e_low PS e mod T56.
Definition nh (e : est) : N := e_high PS e mod T56.

Record EInv (e : est) : Prop := {
  ei_low : e_low PS e < W64;
  ei_high : e_high PS e < W64;
  ei_junk : e_low PS e / T56 = e_high PS e / T56;
  ei_le : nl e <= nh e;
  ei_top : nl e / P24 < nh e / P24
}.

Lemma split_of_norm low high p : low < W64 -> high < W64 -> low / T56 = high / T56 -> low mod T56 <= high mod T56 ->
  p < 2 ^ (sa + sb) -> split_of sa sb low high p = sp (low mod T56) (high mod T56) p.
Proof.
  intros Hl Hh Hj Hle Hpp. unfold split_of, sp0.
  assert (Hs : sub64 high low = high mod T56 - low mod T56).
  { unfold sub64. rewrite W64_eq, T56_eq in *. lia. }
  rewrite Hs. rewrite !N.shiftr_div_pow2.
  destruct (sp_bound sa sb Hsb (low mod T56) (high mod T56) p Hle ltac:(rewrite T56_eq; lia) Hpp) as (Hb & _).
  rewrite (N.mod_small _ W64 Hb). reflexivity.
Qed.

Definition flushed (L1 H1 : N) : N * N := ((L1 mod P24) * P32, (H1 mod P24) * P32 + MASK32).

Lemma shl_lt x : (x mod P32) * P32 < W64 /\ (x mod P32) * P32 + MASK32 < W64.
Proof. pose proof (N.mod_lt x P32 ltac:(discriminate)) as X. rewrite W64_eq. rewrite P32_eq in *. change MASK32 with 4294967295. lia. Qed.

(* junk bits after a flush: bits 24..31 of the value, equal for low and high when their top 32 bits agree *)
Lemma junk_after x y j : x < T56 -> y < T56 -> x / P24 = y / P24 ->
  ((j * T56 + x) mod P32 * P32) / T56 = ((j * T56 + y) mod P32 * P32 + MASK32) / T56.
Proof. intros Hx Hy H. rewrite T56_eq, P24_eq, P32_eq in *. change MASK32 with 4294967295. lia. Qed.

Lemma flushed_order x y : x <= y -> x / P24 = y / P24 ->
  (x mod P24) * P32 <= (y mod P24) * P32 + MASK32 /\ ((x mod P24) * P32) / P24 < ((y mod P24) * P32 + MASK32) / P24.
Proof. intros H1 H2. rewrite P24_eq, P32_eq in *. change MASK32 with 4294967295. lia. Qed.

Lemma junk_div j x k : x < T56 -> k = P24 -> (j * T56 + x) / k = j * P32 + x / P24.
Proof. intros H ->. rewrite T56_eq, P24_eq, P32_eq in *. lia. Qed.

Lemma junk_mod j x : x < T56 -> (j * T56 + x) mod T56 = x /\ (j * T56 + x) mod P24 = x mod P24 /\ (j * T56 + x) / T56 = j.
Proof. intros H. rewrite T56_eq, P24_eq in *. lia. Qed.

(* the part of EncodeBit after low/high have been updated *)
Lemma enc_finish cap (e e' : est) low1 high1 L1 H1 ps1 :
  low1 = e_low PS e / T56 * T56 + L1 -> high1 = e_low PS e / T56 * T56 + H1 ->
  L1 <= H1 -> H1 < T56 -> e_low PS e < W64 ->
  (if N.lxor low1 high1 <? 16777216 then
     if cap <? N.of_nat (length (e_buf PS e)) + 4 then None
     else Some (mkE PS (shl32 low1) (N.lor (shl32 high1) MASK32)
                    (e_buf PS e ++ be_bytes 4 (N.shiftr high1 24 mod 4294967296)) ps1)
   else Some (mkE PS low1 high1 (e_buf PS e) ps1)) = Some e' ->
  e_ps PS e' = ps1 /\ EInv e' /\
  ((L1 / P24 < H1 / P24 /\ e_buf PS e' = e_buf PS e /\ nl e' = L1 /\ nh e' = H1) \/
   (L1 / P24 = H1 / P24 /\ e_buf PS e' = e_buf PS e ++ be_bytes 4 (H1 / P24) /\ (nl e', nh e') = flushed L1 H1)).
Proof.
  intros El1 Eh1 W2 HH1 Hlow He. set (j := e_low PS e / T56) in *.
  assert (Hj : j < 256) by (unfold j; clear - Hlow; rewrite W64_eq, T56_eq in *; lia).
  assert (HL1 : L1 < T56) by (clear - W2 HH1; lia).
  destruct (junk_mod j L1 HL1) as (ML1 & ML2 & ML3). destruct (junk_mod j H1 HH1) as (MH1 & MH2 & MH3).
  rewrite <- El1 in ML1, ML2, ML3. rewrite <- Eh1 in MH1, MH2, MH3.
  assert (Dl : low1 / 2 ^ 24 = j * P32 + L1 / P24) by (rewrite El1; apply junk_div; [exact HL1|reflexivity]).
  assert (Dh : high1 / 2 ^ 24 = j * P32 + H1 / P24) by (rewrite Eh1; apply junk_div; [exact HH1|reflexivity]).
  assert (Hq : low1 / 2 ^ 24 = high1 / 2 ^ 24 <-> L1 / P24 = H1 / P24) by (rewrite Dl, Dh; clear; lia).
  destruct (N.lxor low1 high1 <? 16777216) eqn:Ex.
  - apply N.ltb_lt in Ex. change 16777216 with (2 ^ 24) in Ex. apply lxor_lt_pow2 in Ex. apply Hq in Ex.
    destruct (cap <? N.of_nat (length (e_buf PS e)) + 4); [discriminate|]. inversion He; subst e'. clear He.
    cbn [e_ps e_buf e_low e_high]. split; [reflexivity|].
    assert (Ew : N.shiftr high1 24 mod 4294967296 = H1 / P24).
    { rewrite N.shiftr_div_pow2, Dh. clear - HH1. rewrite T56_eq, P24_eq, P32_eq in *. lia. }
    assert (Enl : shl32 low1 mod T56 = (L1 mod P24) * P32) by (rewrite <- land_top, renorm_low, ML2; reflexivity).
    assert (Enh : N.lor (shl32 high1) MASK32 mod T56 = (H1 mod P24) * P32 + MASK32) by (rewrite <- land_top, renorm_lor by reflexivity; rewrite MH2; reflexivity).
    assert (Elor : N.lor (shl32 high1) MASK32 = (high1 mod P32) * P32 + MASK32).
    { rewrite shl32_spec. apply (lor_disjoint _ MASK32 32); [apply N.mod_mul; discriminate|reflexivity]. }
    destruct (flushed_order L1 H1 W2 Ex) as [FO1 FO2].
    split.
    + constructor; cbn [e_low e_high]; unfold nl, nh; cbn [e_low e_high].
      * rewrite shl32_spec. apply shl_lt.
      * rewrite Elor. apply shl_lt.
      * rewrite Elor, shl32_spec, El1, Eh1. apply junk_after; assumption.
      * rewrite Enl, Enh. exact FO1.
      * rewrite Enl, Enh. exact FO2.
    + right. split; [exact Ex|]. split; [rewrite Ew; reflexivity|]. unfold flushed, nl, nh. cbn [e_low e_high]. rewrite Enl, Enh. reflexivity.
  - apply N.ltb_ge in Ex. inversion He; subst e'. clear He. cbn [e_ps e_buf e_low e_high]. split; [reflexivity|].
    assert (Hne : L1 / P24 <> H1 / P24).
    { intros E. apply Hq in E. apply lxor_lt_pow2 in E. change (2 ^ 24) with 16777216 in E. clear - E Ex. lia. }
    assert (Hle24 : L1 / P24 <= H1 / P24) by (apply N.div_le_mono; [discriminate|exact W2]).
    assert (Hlt : L1 / P24 < H1 / P24) by (clear - Hne Hle24; lia).
    split.
    + constructor; cbn [e_low e_high]; unfold nl, nh; cbn [e_low e_high]; rewrite ?ML1, ?MH1; try assumption.
      * rewrite El1. clear - Hj HL1. rewrite W64_eq, T56_eq in *. lia.
      * rewrite Eh1. clear - Hj HH1. rewrite W64_eq, T56_eq in *. lia.
      * rewrite ML3, MH3. reflexivity.
    + left. unfold nl, nh. cbn [e_low e_high]. rewrite ML1, MH1. auto.
Qed.

Lemma enc_bit_norm cap e bit e' : EInv e -> enc_bit cap e bit = Some e' ->
  let '(L1, H1) := nstep (nl e) (nh e) (pget (e_ps PS e)) bit in
  nl e <= L1 /\ L1 <= H1 /\ H1 <= nh e /\ e_ps PS e' = pupd (e_ps PS e) bit /\ EInv e' /\
  ((L1 / P24 < H1 / P24 /\ e_buf PS e' = e_buf PS e /\ nl e' = L1 /\ nh e' = H1) \/
   (L1 / P24 = H1 / P24 /\ e_buf PS e' = e_buf PS e ++ be_bytes 4 (H1 / P24) /\ (nl e', nh e') = flushed L1 H1)).
Proof.
  intros [Hl Hh Hj Hle Htop] He. unfold nl, nh in Hle, Htop |- *.
  assert (HHT : e_high PS e mod T56 < T56) by (apply N.mod_lt; discriminate).
  pose proof (nstep_within sa sb Hsb _ _ (pget (e_ps PS e)) bit Hle HHT Htop (Hp _)) as Hw.
  unfold BinCoder.enc_bit in He.
  rewrite (split_of_norm _ _ _ Hl Hh Hj Hle (Hp _)) in He.
  unfold nstep0 in *. set (s := sp (e_low PS e mod T56) (e_high PS e mod T56) (pget (e_ps PS e))) in *.
  set (low := e_low PS e) in *. set (high := e_high PS e) in *.
  assert (Dlow : low = low / T56 * T56 + low mod T56) by (clear; rewrite T56_eq; lia).
  destruct bit.
  - destruct Hw as (W1 & W2 & W3). split; [exact W1|]. split; [exact W2|]. split; [exact W3|].
    assert (Ea : add64 low s = low / T56 * T56 + (low mod T56 + s)).
    { unfold add64. rewrite N.mod_small; [clear - Dlow; lia|]. clear - Hl Dlow W3 HHT. rewrite W64_eq, T56_eq in *. lia. }
    eapply (enc_finish cap e e' low (add64 low s) (low mod T56) (low mod T56 + s)); [exact Dlow|exact Ea|exact W2| |exact Hl|exact He].
    clear - W3 HHT. lia.
  - destruct Hw as (W1 & W2 & W3). split; [exact W1|]. split; [exact W2|]. split; [exact W3|].
    assert (Ea : add64 low (s + 1) = low / T56 * T56 + (low mod T56 + s + 1)).
    { unfold add64. rewrite N.mod_small; [clear - Dlow; lia|]. clear - Hl Dlow W2 W3 HHT. rewrite W64_eq, T56_eq in *. lia. }
    assert (Dhigh : high = low / T56 * T56 + high mod T56) by (rewrite Hj; clear; rewrite T56_eq; lia).
    eapply (enc_finish cap e e' (add64 low (s + 1)) high (low mod T56 + s + 1) (high mod T56)); [exact Ea|exact Dhigh|exact W2|exact HHT|exact Hl|exact He].
Qed.

(* the decoder's step, for ANY current value *)
Lemma dec_bit_norm L H cur buf ps : L <= H -> H < T56 -> L / P24 < H / P24 -> cur < T56 -> bytes_ok buf ->
  let s := sp L H (pget ps) in
  let bit := cur <=? L + s in
  let '(L1, H1) := nstep L H (pget ps) bit in
  dec_bit (mkD PS L H cur buf ps) =
    (if L1 / P24 =? H1 / P24
     then mkD PS (fst (flushed L1 H1)) (snd (flushed L1 H1))
              ((cur mod P24) * P32 + be_val (firstn 4 (buf ++ [0; 0; 0; 0]))) (skipn 4 buf) (pupd ps bit)
     else mkD PS L1 H1 cur buf (pupd ps bit), bit).
Proof.
  intros HL HH Htop Hc Hb.
  pose proof (nstep_within sa sb Hsb L H (pget ps) (cur <=? L + sp L H (pget ps)) HL HH Htop (Hp _)) as Hw.
  unfold BinCoder.dec_bit. cbn [d_low d_high d_cur d_buf d_ps].
  assert (Hs : split_of sa sb L H (pget ps) = sp L H (pget ps)).
  { assert (ML : L mod T56 = L) by (apply N.mod_small; clear - HL HH; lia).
    assert (MH : H mod T56 = H) by (apply N.mod_small; exact HH).
    rewrite (split_of_norm L H (pget ps)); rewrite ?ML, ?MH; try reflexivity; try exact HL; try apply Hp.
    - clear - HL HH. rewrite W64_eq, T56_eq in *. lia.
    - clear - HH. rewrite W64_eq, T56_eq in *. lia.
    - clear - HL HH. rewrite T56_eq in *. lia. }
  rewrite Hs. unfold nstep0 in *. set (s := sp L H (pget ps)) in *.
  assert (Hadd : add64 s L = L + s).
  { unfold add64. assert (X : L + s <= H) by (clear - Hw; destruct (cur <=? L + s); lia).
    rewrite N.mod_small; [clear; lia|]. clear - X HH. rewrite W64_eq, T56_eq in *. lia. }
  rewrite Hadd. set (bit := cur <=? L + s) in *.
  assert (Hval : be_val (firstn 4 (buf ++ [0; 0; 0; 0])) < P32).
  { assert (Hk : bytes_ok (firstn 4 (buf ++ [0; 0; 0; 0]))).
    { apply bytes_ok_firstn. apply Forall_app. split; [exact Hb|]. repeat constructor. }
    pose proof (be_val_lt _ Hk) as X. rewrite firstn_length in X.
    eapply N.lt_le_trans; [exact X|]. unfold P32. apply N.pow_le_mono_r; [discriminate|]. lia. }
  destruct bit.
  - destruct Hw as (W1 & W2 & W3).
    assert (Hq : N.lxor L (L + s) <? 16777216 = (L / P24 =? (L + s) / P24)).
    { destruct (L / P24 =? (L + s) / P24) eqn:E.
      - apply N.eqb_eq in E. apply N.ltb_lt. change 16777216 with (2 ^ 24). apply lxor_lt_pow2. exact E.
      - apply N.eqb_neq in E. apply N.ltb_ge. destruct (N.lt_ge_cases (N.lxor L (L + s)) 16777216) as [X|X]; [|exact X].
        exfalso. apply E. change 16777216 with (2 ^ 24) in X. apply lxor_lt_pow2 in X. exact X. }
    rewrite Hq. destruct (L / P24 =? (L + s) / P24); [|reflexivity].
    unfold flushed. cbn [fst snd]. rewrite renorm_low, (renorm_lor (L + s) MASK32) by reflexivity. rewrite (renorm_lor cur _ Hval). reflexivity.
  - destruct Hw as (W1 & W2 & W3).
    assert (Ha1 : add64 (L + s) 1 = L + s + 1).
    { unfold add64. rewrite W64_eq, T56_eq in *. rewrite N.mod_small by lia. reflexivity. }
    rewrite Ha1.
    assert (Hq : N.lxor (L + s + 1) H <? 16777216 = ((L + s + 1) / P24 =? H / P24)).
    { destruct ((L + s + 1) / P24 =? H / P24) eqn:E.
      - apply N.eqb_eq in E. apply N.ltb_lt. change 16777216 with (2 ^ 24). apply lxor_lt_pow2. exact E.
      - apply N.eqb_neq in E. apply N.ltb_ge. destruct (N.lt_ge_cases (N.lxor (L + s + 1) H) 16777216) as [X|X]; [|exact X].
        exfalso. apply E. change 16777216 with (2 ^ 24) in X. apply lxor_lt_pow2 in X. exact X. }
    rewrite Hq. destruct ((L + s + 1) / P24 =? H / P24); [|reflexivity].
    unfold flushed. cbn [fst snd]. rewrite renorm_low, (renorm_lor H MASK32) by reflexivity. rewrite (renorm_lor cur _ Hval). reflexivity.
Qed.

(* ---------- the window of the code stream ---------- *)
Definition win (S : list N) : N := be_val (firstn 7 S).

Lemma firstn_plus {A} (l : list A) a c : firstn (a + c) l = firstn a l ++ firstn c (skipn a l).
Proof.
  revert l; induction a as [|a IH]; intros l; [reflexivity|].
  destruct l; [rewrite firstn_nil; cbn; rewrite firstn_nil; reflexivity|]. cbn [plus firstn skipn app]. f_equal. apply IH.
Qed.

Lemma win_split S : (7 <= length S)%nat -> bytes_ok S ->
  win S = be_val (firstn 3 S) * P32 + be_val (firstn 4 (skipn 3 S)) /\
  be_val (firstn 4 (skipn 3 S)) < P32 /\ be_val (firstn 3 S) < P24.
Proof.
  intros Hl Hb. unfold win. change 7%nat with (3 + 4)%nat. rewrite firstn_plus, be_val_app.
  rewrite !firstn_length, skipn_length. replace (Nat.min 4 (length S - 3)) with 4%nat by lia.
  split; [reflexivity|]. split.
  - pose proof (be_val_lt _ (bytes_ok_firstn 4 _ (bytes_ok_skipn 3 _ Hb))) as X. rewrite firstn_length, skipn_length in X.
    replace (Nat.min 4 (length S - 3)) with 4%nat in X by lia. exact X.
  - pose proof (be_val_lt _ (bytes_ok_firstn 3 _ Hb)) as X. rewrite firstn_length in X.
    replace (Nat.min 3 (length S)) with 3%nat in X by lia. exact X.
Qed.

Lemma win_lt S : bytes_ok S -> win S < T56.
Proof.
  intros Hb. pose proof (be_val_lt _ (bytes_ok_firstn 7 _ Hb)) as X. rewrite firstn_length in X. unfold win.
  eapply N.lt_le_trans; [exact X|]. unfold T56. apply N.pow_le_mono_r; [discriminate|]. lia.
Qed.

Lemma win_word w4 S : length w4 = 4%nat -> (7 <= length S)%nat -> bytes_ok S ->
  win (w4 ++ S) = be_val w4 * P24 + be_val (firstn 3 S).
Proof.
  intros H4 Hl Hb. unfold win. rewrite firstn_app, H4. rewrite (firstn_all2 w4) by lia. cbn [Nat.sub].
  rewrite be_val_app, firstn_length. replace (Nat.min 3 (length S)) with 3%nat by lia. reflexivity.
Qed.

Definition fin_val (e : est) : N := (nl e / P24) * P24 + MASK24.

Lemma final56_spec (e : est) : length (final56 (e_low PS e)) = 7%nat /\ bytes_ok (final56 (e_low PS e)) /\
  win (final56 (e_low PS e)) = fin_val e.
Proof.
  unfold final56. split; [apply be_bytes_length|]. split; [apply be_bytes_ok|].
  unfold win. rewrite firstn_all2 by (rewrite be_bytes_length; lia).
  rewrite be_val_be_bytes by (apply N.mod_lt; discriminate).
  rewrite lor_mask24. unfold fin_val, nl. change (2 ^ 56) with T56. rewrite T56_eq, P24_eq. change MASK24 with 16777215. lia.
Qed.

Notation enc_bits := (enc_bits sa sb PS pget pupd).
Notation dec_bits := (dec_bits sa sb PS pget pupd).

Lemma fin_val_in L H : L <= H -> L / P24 < H / P24 -> L <= L / P24 * P24 + MASK24 /\ L / P24 * P24 + MASK24 <= H.
Proof. intros H1 H2. rewrite P24_eq in *. change MASK24 with 16777215. lia. Qed.

Lemma window_in L1 H1 t3 v4 Wn : L1 <= H1 -> H1 < T56 -> L1 / P24 = H1 / P24 ->
  (L1 mod P24) * P32 <= Wn -> Wn <= (H1 mod P24) * P32 + MASK32 -> Wn = t3 * P32 + v4 -> v4 < P32 -> t3 < P24 ->
  L1 <= H1 / P24 * P24 + t3 /\ H1 / P24 * P24 + t3 <= H1 /\ H1 / P24 * P24 + t3 < T56 /\ (H1 / P24 * P24 + t3) mod P24 = t3.
Proof. intros A B C D E F G K. subst Wn. rewrite T56_eq, P24_eq, P32_eq in *. change MASK32 with 4294967295 in *. lia. Qed.

(* the core: the decoder, started on the window of what the encoder is going to emit, follows it *)
Lemma coder_core cap : forall bits e e', EInv e -> enc_bits cap e bits = Some e' ->
  exists suf, e_buf PS e' = e_buf PS e ++ suf /\ bytes_ok suf /\ EInv e' /\
    let S := suf ++ final56 (e_low PS e') in
    nl e <= win S /\ win S <= nh e /\
    dec_bits (length bits) (mkD PS (nl e) (nh e) (win S) (skipn 7 S) (e_ps PS e)) =
      (mkD PS (nl e') (nh e') (fin_val e') [] (e_ps PS e'), bits).
Proof.
  induction bits as [|b r IH]; intros e e' HI He.
  - cbn [BinCoder.enc_bits] in He. inversion He; subst e'. exists []. rewrite app_nil_r.
    split; [reflexivity|]. split; [constructor|]. split; [exact HI|]. cbn [app].
    destruct (final56_spec e) as (Hl & Hb & Hw). rewrite Hw.
    destruct HI as [_ _ _ Hle Htop]. unfold fin_val.
    destruct (fin_val_in _ _ Hle Htop) as [F1 F2]. split; [exact F1|]. split; [exact F2|].
    cbn [BinCoder.dec_bits length]. rewrite skipn_all2 by (clear - Hl; lia). reflexivity.
  - cbn [BinCoder.enc_bits] in He. destruct (enc_bit cap e b) as [e1|] eqn:E1; [|discriminate].
    pose proof (enc_bit_norm cap e b e1 HI E1) as Hn.
    destruct (nstep (nl e) (nh e) (pget (e_ps PS e)) b) as [L1 H1] eqn:En.
    destruct Hn as (W1 & W2 & W3 & Eps & HI1 & Hcase).
    destruct (IH e1 e' HI1 He) as (suf1 & Eb1 & Hok1 & HI' & Hlo1 & Hhi1 & Hdec1).
    set (S1 := suf1 ++ final56 (e_low PS e')) in *.
    destruct (final56_spec e') as (Hfl & Hfb & Hfw).
    assert (HS1len : (7 <= length S1)%nat) by (unfold S1; rewrite app_length; clear - Hfl; lia).
    assert (HS1ok : bytes_ok S1) by (unfold S1; apply Forall_app; split; assumption).
    destruct HI as [Hl Hh Hj Hle Htop].
    assert (HH : nh e < T56) by (unfold nh; apply N.mod_lt; discriminate).
    destruct Hcase as [(Hlt & Ebuf & Enl & Enh)|(Heq & Ebuf & Efl)].
    + (* no renormalisation *)
      exists suf1. split; [rewrite Eb1, Ebuf; reflexivity|]. split; [exact Hok1|]. split; [exact HI'|].
      fold S1. rewrite Enl in Hlo1. rewrite Enh in Hhi1.
      split; [clear - W1 Hlo1; lia|]. split; [clear - W3 Hhi1; lia|].
      cbn [length BinCoder.dec_bits].
      pose proof (dec_bit_norm (nl e) (nh e) (win S1) (skipn 7 S1) (e_ps PS e) Hle HH Htop (win_lt _ HS1ok) (bytes_ok_skipn 7 _ HS1ok)) as Hd.
      cbv zeta in Hd.
      assert (Hbit : (win S1 <=? nl e + sp (nl e) (nh e) (pget (e_ps PS e))) = b).
      { unfold nstep0 in En. destruct b; injection En as EL EH.
        - apply N.leb_le. rewrite EH. exact Hhi1.
        - apply N.leb_gt. rewrite <- EL in Hlo1. clear - Hlo1. lia. }
      rewrite Hbit, En in Hd. rewrite Hd.
      replace (L1 / P24 =? H1 / P24) with false by (symmetry; apply N.eqb_neq; clear - Hlt; lia).
      rewrite <- Enl, <- Enh, <- Eps. rewrite Hdec1. reflexivity.
    + (* renormalisation: one word emitted *)
      set (w4 := be_bytes 4 (H1 / P24)) in *.
      assert (Hw4l : length w4 = 4%nat) by apply be_bytes_length.
      assert (Hw4v : be_val w4 = H1 / P24).
      { unfold w4. apply be_val_be_bytes. change (256 ^ N.of_nat 4) with 4294967296.
        assert (HH1 : H1 < T56) by (clear - W3 HH; lia). clear - HH1. rewrite T56_eq, P24_eq in *. lia. }
      exists (w4 ++ suf1). split; [rewrite Eb1, Ebuf, app_assoc; reflexivity|].
      split; [apply Forall_app; split; [apply be_bytes_ok|exact Hok1]|]. split; [exact HI'|].
      rewrite <- app_assoc. fold S1.
      unfold flushed in Efl. inversion Efl as [[Enl Enh]]. rewrite Enl in Hlo1. rewrite Enh in Hhi1.
      destruct (win_split S1 HS1len HS1ok) as (Ews & Hv4 & Hv3).
      cbv zeta. rewrite (win_word w4 S1 Hw4l HS1len HS1ok), Hw4v.
      set (t3 := be_val (firstn 3 S1)) in *. set (v4 := be_val (firstn 4 (skipn 3 S1))) in *.
      assert (HH1 : H1 < T56) by (clear - W3 HH; lia).
      destruct (window_in L1 H1 t3 v4 (win S1) W2 HH1 Heq Hlo1 Hhi1 Ews Hv4 Hv3) as (Hwin1 & Hwin2 & Hcur & Hcm).
      split; [clear - W1 Hwin1; lia|]. split; [clear - W3 Hwin2; lia|].
      cbn [length BinCoder.dec_bits].
      assert (Hbok : bytes_ok (skipn 7 (w4 ++ S1))).
      { apply bytes_ok_skipn. apply Forall_app. split; [apply be_bytes_ok|exact HS1ok]. }
      pose proof (dec_bit_norm (nl e) (nh e) (H1 / P24 * P24 + t3) (skipn 7 (w4 ++ S1)) (e_ps PS e) Hle HH Htop Hcur Hbok) as Hd.
      cbv zeta in Hd.
      assert (Hbit : (H1 / P24 * P24 + t3 <=? nl e + sp (nl e) (nh e) (pget (e_ps PS e))) = b).
      { unfold nstep0 in En. destruct b; injection En as EL EH.
        - apply N.leb_le. rewrite EH. exact Hwin2.
        - apply N.leb_gt. rewrite <- EL in Hwin1. clear - Hwin1. lia. }
      rewrite Hbit, En in Hd. rewrite Hd.
      replace (L1 / P24 =? H1 / P24) with true by (symmetry; apply N.eqb_eq; exact Heq).
      unfold flushed. cbn [fst snd].
      assert (Hsk : skipn 7 (w4 ++ S1) = skipn 3 S1).
      { rewrite skipn_app, Hw4l. rewrite (skipn_all2 w4) by (clear - Hw4l; lia). reflexivity. }
      rewrite Hsk.
      assert (Hv : be_val (firstn 4 (skipn 3 S1 ++ [0; 0; 0; 0])) = v4).
      { rewrite firstn_app, skipn_length. replace (4 - (length S1 - 3))%nat with O by (clear - HS1len; lia). cbn [firstn]. rewrite app_nil_r. reflexivity. }
      rewrite Hv.
      rewrite Hcm, <- Ews.
      assert (Hsk2 : skipn 4 (skipn 3 S1) = skipn 7 S1).
      { clear. revert S1. intros l. rewrite <- (firstn_skipn 3 l) at 2. destruct l as [|a [|b0 [|c l]]]; reflexivity. }
      rewrite Hsk2, <- Enl, <- Enh, <- Eps. rewrite Hdec1. reflexivity.
Qed.

(* ---------- bytes ---------- *)
Lemma byte_bits_roundtrip v : v < 256 -> byte_of_bits (bits_of_byte v) = v.
Proof.
  intros H.
  assert (C : forallb (fun x => byte_of_bits (bits_of_byte x) =? x) (map N.of_nat (seq 0 256)) = true) by (vm_compute; reflexivity).
  rewrite forallb_forall in C. apply N.eqb_eq. apply C. apply in_map_iff. exists (N.to_nat v). split; [lia|]. apply in_seq. lia.
Qed.

Lemma dec_bits_app : forall a b d, dec_bits (a + b) d =
  let '(d1, l1) := dec_bits a d in let '(d2, l2) := dec_bits b d1 in (d2, l1 ++ l2).
Proof.
  induction a as [|a IH]; intros b d; cbn [plus BinCoder.dec_bits].
  - destruct (dec_bits b d) as [d2 l2]. reflexivity.
  - destruct (dec_bit d) as [d1 x]. rewrite IH. destruct (dec_bits a d1) as [d2 l1]. destruct (dec_bits b d2) as [d3 l2]. reflexivity.
Qed.

Lemma dec_bits_length : forall n d, length (snd (dec_bits n d)) = n.
Proof.
  induction n as [|n IH]; intros d; cbn [BinCoder.dec_bits]; [reflexivity|].
  destruct (dec_bit d) as [d1 x]. specialize (IH d1). destruct (dec_bits n d1) as [d2 r]. cbn [snd length] in *. lia.
Qed.

Notation dec_bytes := (dec_bytes sa sb PS pget pupd).

Lemma dec_bytes_spec : forall bytes d d', bytes_ok bytes ->
  dec_bits (length (flat_map bits_of_byte bytes)) d = (d', flat_map bits_of_byte bytes) ->
  dec_bytes (length bytes) d = (d', bytes).
Proof.
  induction bytes as [|x t IH]; intros d d' Hok H.
  - cbn in H. inversion H; subst. reflexivity.
  - inversion Hok as [|? ? Hx Ht]; subst. cbn [flat_map] in H. rewrite app_length in H.
    assert (H8 : length (bits_of_byte x) = 8%nat) by reflexivity. rewrite H8 in H.
    rewrite dec_bits_app in H. cbn [length BinCoder.dec_bytes].
    pose proof (dec_bits_length 8 d) as L8.
    destruct (dec_bits 8 d) as [d1 l1]. cbn [snd] in L8.
    destruct (dec_bits (length (flat_map bits_of_byte t)) d1) as [d2 l2] eqn:E2.
    inversion H as [[Hd Hl]]. subst d2.
    assert (Hl1 : l1 = bits_of_byte x /\ l2 = flat_map bits_of_byte t).
    { apply app_inj_len; [rewrite L8, H8; reflexivity|exact Hl]. }
    destruct Hl1 as [-> ->]. rewrite (IH d1 d' Ht E2). rewrite byte_bits_roundtrip by exact Hx. reflexivity.
Qed.

End C.

(* ---------- VarInt ---------- *)
Lemma land_127 v : N.land v 127 = v mod 128.
Proof. change 127 with (N.ones 7). apply N.land_ones. Qed.

Lemma varint_byte v : N.land (N.lor 128 (N.land v 127)) 127 = v mod 128 /\ 128 <= N.lor 128 (N.land v 127) /\ N.lor 128 (N.land v 127) < 256.
Proof.
  rewrite (land_127 v). pose proof (N.mod_lt v 128 ltac:(discriminate)) as Hm.
  rewrite (lor_disjoint 128 (v mod 128) 7) by (try reflexivity; exact Hm).
  rewrite land_127. clear - Hm. split; [|lia]. lia.
Qed.

Lemma varint_roundtrip_gen : forall (m : nat) v shift res (wf g : nat) r,
  v < 2 ^ (7 * N.of_nat m) -> (1 <= m <= wf)%nat -> (m <= g)%nat -> res < 2 ^ shift ->
  read_varint_f g shift res (varint_f wf v ++ r) = Some (res + v * 2 ^ shift, r).
Proof.
  induction m as [|m IH]; intros v shift res wf g r Hv Hm Hg Hres; [lia|].
  destruct wf as [|f]; [lia|]. destruct g as [|g']; [lia|].
  assert (Hlast : v < 128 -> read_varint_f (S g') shift res (varint_f (S f) v ++ r) = Some (res + v * 2 ^ shift, r)).
  { intros Hs. cbn [varint_f]. replace (128 <=? v) with false by (symmetry; apply N.leb_gt; exact Hs).
    cbn [app read_varint_f]. replace (v <? 128) with true by (symmetry; apply N.ltb_lt; exact Hs).
    rewrite land_127, N.mod_small by exact Hs. rewrite N.shiftl_mul_pow2, N.lor_comm.
    rewrite (lor_disjoint (v * 2 ^ shift) res shift) by (try exact Hres; apply N.mod_mul; apply N.pow_nonzero; discriminate).
    f_equal. f_equal. lia. }
  destruct (N.lt_ge_cases v 128) as [Hs|Hs]; [apply Hlast; exact Hs|].
  destruct m as [|m'].
  { exfalso. cbn in Hv. change (2 ^ 7) with 128 in Hv. lia. }
  cbn [varint_f]. replace (128 <=? v) with true by (symmetry; apply N.leb_le; exact Hs).
  destruct (varint_byte v) as (Hb1 & Hb2 & Hb3).
  cbn [app read_varint_f]. rewrite Hb1. replace (N.lor 128 (N.land v 127) <? 128) with false by (symmetry; apply N.ltb_ge; exact Hb2).
  rewrite N.shiftl_mul_pow2, N.lor_comm.
  rewrite (lor_disjoint (v mod 128 * 2 ^ shift) res shift) by (try exact Hres; apply N.mod_mul; apply N.pow_nonzero; discriminate).
  rewrite N.shiftr_div_pow2. change (2 ^ 7) with 128.
  rewrite (IH (v / 128) (shift + 7) (v mod 128 * 2 ^ shift + res) f g' r).
  - f_equal. f_equal. rewrite N.pow_add_r. change (2 ^ 7) with 128. pose proof (N.div_mod v 128 ltac:(discriminate)). nia.
  - apply N.div_lt_upper_bound; [discriminate|]. rewrite Nat2N.inj_succ in Hv.
    replace (7 * N.succ (N.of_nat (S m'))) with (7 + 7 * N.of_nat (S m')) in Hv by lia. rewrite N.pow_add_r in Hv. exact Hv.
  - lia.
  - lia.
  - rewrite N.pow_add_r. change (2 ^ 7) with 128. pose proof (N.mod_lt v 128 ltac:(discriminate)). pose proof (pow2_pos shift). nia.
Qed.

Lemma varint_roundtrip v r : v < 268435456 -> read_varint (varint v ++ r) = Some (v, r).
Proof.
  intros H. unfold read_varint, varint.
  assert (X : read_varint_f 4 0 0 (varint_f 5 v ++ r) = Some (0 + v * 2 ^ 0, r)).
  { apply (varint_roundtrip_gen 4 v 0 0 5 4 r); [exact H|lia|lia|change (2 ^ 0) with 1; lia]. }
  rewrite X. f_equal. f_equal. change (2 ^ 0) with 1. lia.
Qed.

(* ---------- chunks, Write/Dispose and Read ---------- *)
Section D.
Variables (sa sb : N).
Hypothesis Hsb : sb <= 8.
Variable PS : Type.
Variable pget : PS -> N.
Variable pupd : PS -> bool -> PS.
Hypothesis Hp : forall ps, pget ps < 2 ^ (sa + sb).

Notation est := (est PS).
Notation EInv := (EInv PS).
Notation nl := (nl PS).
Notation nh := (nh PS).
Notation enc_bits := (enc_bits sa sb PS pget pupd).
Notation enc_bytes := (enc_bytes sa sb PS pget pupd).
Notation dec_bytes := (dec_bytes sa sb PS pget pupd).
Variable chunk_reset : PS -> PS.
Variable dec_accepts : N -> N -> bool.
Notation write_chunks := (write_chunks sa sb PS pget pupd chunk_reset).
Notation read_chunks := (read_chunks sa sb PS pget pupd chunk_reset dec_accepts).

Lemma einv_same (e : est) l h b ps : l = e_low PS e -> h = e_high PS e -> EInv e -> EInv (mkE PS l h b ps).
Proof. intros -> -> [A B C D E]. constructor; assumption. Qed.

Lemma einv_init ps : EInv (mkE PS 0 TOP [] ps).
Proof. constructor; unfold BinCoderProofs.nl, BinCoderProofs.nh; cbn [e_low e_high]; vm_compute; try reflexivity; discriminate. Qed.

Lemma enc_bits_cap cap : forall bits (e e' : est), enc_bits cap e bits = Some e' ->
  N.of_nat (length (e_buf PS e)) <= cap -> N.of_nat (length (e_buf PS e')) <= cap.
Proof.
  induction bits as [|b r IH]; intros e e' H Hc; cbn [BinCoder.enc_bits] in H; [inversion H; subst; exact Hc|].
  destruct (enc_bit sa sb PS pget pupd cap e b) as [e1|] eqn:E; [|discriminate]. apply (IH e1 e' H).
  unfold enc_bit in E.
  match type of E with context [if N.ltb (N.lxor ?a ?b) ?c then _ else _] => destruct (N.ltb (N.lxor a b) c) end.
  - destruct (cap <? N.of_nat (length (e_buf PS e)) + 4) eqn:Ec; [discriminate|]. apply N.ltb_ge in Ec.
    injection E as E. subst e1. cbn [e_buf]. rewrite app_length. try rewrite be_bytes_length. cbn [length]. clear - Ec. lia.
  - inversion E; subst e1. cbn [e_buf]. exact Hc.
Qed.

Lemma read_chunks_zero F len cnt l h ps s acc : read_chunks F len cnt l h ps 0 s acc = DOk acc s.
Proof. destruct F; reflexivity. Qed.

Variables (len cap cnt : N).
Hypothesis Hcap : cap < 268435456.
Hypothesis Hacc : forall sz, sz <= cap -> dec_accepts cnt sz = true.

(* one chunk: what Write emitted for it is read back by one iteration of Read *)
Lemma chunk_decode (e0 e1 : est) ps_prev chunk tail accd F' R :
  EInv e0 -> e_buf PS e0 = [] -> e_ps PS e0 = chunk_reset ps_prev -> bytes_ok chunk -> enc_bytes cap e0 chunk = Some e1 ->
  R <> 0 -> N.min len R = N.of_nat (length chunk) ->
  EInv e1 /\
  read_chunks (S F') len cnt (nl e0) (nh e0) ps_prev R
      (varint (N.of_nat (length (e_buf PS e1))) ++ e_buf PS e1 ++ final56 (e_low PS e1) ++ tail) accd =
    read_chunks F' len cnt (nl e1) (nh e1) (e_ps PS e1) (R - N.of_nat (length chunk)) tail (accd ++ chunk).
Proof.
  intros HI Hb0 Hps0 Hok He HR Hmin. unfold BinCoder.enc_bytes in He.
  pose proof (enc_bits_cap cap _ _ _ He ltac:(rewrite Hb0; cbn; lia)) as Hsz.
  destruct (coder_core sa sb Hsb PS pget pupd Hp cap _ e0 e1 HI He) as (suf & Ebuf & Hsok & HI1 & Hlo & Hhi & Hdec).
  rewrite Hb0 in Ebuf. cbn [app] in Ebuf. subst suf. split; [exact HI1|].
  set (buf1 := e_buf PS e1) in *. set (S := buf1 ++ final56 (e_low PS e1)) in *.
  destruct (final56_spec sb Hsb PS e1) as (Hfl & Hfb & Hfw).
  assert (HSlen : length S = (length buf1 + 7)%nat) by (unfold S; rewrite app_length, Hfl; reflexivity).
  cbn [BinCoder.read_chunks]. replace (R =? 0) with false by (symmetry; apply N.eqb_neq; exact HR).
  rewrite varint_roundtrip by lia.
  rewrite (Hacc _ Hsz). cbn [negb].
  replace (buf1 ++ final56 (e_low PS e1) ++ tail) with (S ++ tail) by (unfold S; rewrite <- app_assoc; reflexivity).
  replace (N.of_nat (length (S ++ tail)) <? 7 + N.of_nat (length buf1)) with false by (symmetry; apply N.ltb_ge; rewrite app_length; lia).
  assert (E7 : firstn 7 (S ++ tail) = firstn 7 S).
  { rewrite firstn_app. replace (7 - length S)%nat with O by lia. cbn [firstn]. apply app_nil_r. }
  assert (Esk : skipn 7 (S ++ tail) = skipn 7 S ++ tail).
  { rewrite skipn_app. replace (7 - length S)%nat with O by lia. reflexivity. }
  assert (Hl7 : length (skipn 7 S) = length buf1) by (rewrite skipn_length; lia).
  rewrite E7, Esk, Nat2N.id.
  assert (Ebuf : firstn (length buf1) (skipn 7 S ++ tail) = skipn 7 S).
  { rewrite firstn_app, Hl7, Nat.sub_diag. change (firstn 0 tail) with (@nil N). rewrite app_nil_r. apply firstn_all2. clear - Hl7. lia. }
  assert (Etl : skipn (length buf1) (skipn 7 S ++ tail) = tail).
  { rewrite skipn_app, Hl7, Nat.sub_diag. change (skipn 0 tail) with tail. rewrite (@skipn_all2 _ (length buf1) (skipn 7 S)) by (clear - Hl7; lia). reflexivity. }
  rewrite Ebuf, Etl, Hmin, Nat2N.id.
  fold (win S). rewrite <- Hps0.
  rewrite (dec_bytes_spec sa sb Hsb PS pget pupd chunk _ _ Hok Hdec). cbn [d_low d_high d_ps]. reflexivity.
Qed.

Hypothesis Hlen : 0 < len.

Lemma chunks_roundtrip : forall fuel block (e : est) acc out0 efin,
  EInv e -> bytes_ok block -> (length block <= fuel)%nat -> block <> [] ->
  write_chunks fuel len cap e block acc = Some (out0, efin) ->
  exists body, out0 = acc ++ body /\ EInv efin /\
    forall F rest accd, (length block <= F)%nat ->
      read_chunks F len cnt (nl e) (nh e) (e_ps PS e) (N.of_nat (length block)) (body ++ final56 (e_low PS efin) ++ rest) accd =
        DOk (accd ++ block) rest.
Proof.
  induction fuel as [|f IH]; intros block e acc out0 efin HI Hok Hf Hne H.
  { destruct block; [congruence|cbn in Hf; lia]. }
  destruct block as [|x t]; [congruence|]. set (block := x :: t) in *.
  cbn [BinCoder.write_chunks] in H. fold block in H.
  set (chunk := firstn (N.to_nat len) block) in *. set (restb := skipn (N.to_nat len) block) in *.
  set (e0 := mkE PS (e_low PS e) (e_high PS e) [] (chunk_reset (e_ps PS e))) in *.
  assert (HI0 : EInv e0) by (apply (einv_same e); auto).
  assert (Hn0 : nl e0 = nl e /\ nh e0 = nh e /\ e_ps PS e0 = chunk_reset (e_ps PS e)) by (unfold e0; auto).
  destruct Hn0 as (N1 & N2 & N3).
  assert (Hcok : bytes_ok chunk) by (apply bytes_ok_firstn; exact Hok).
  assert (Hrok : bytes_ok restb) by (apply bytes_ok_skipn; exact Hok).
  assert (Hsplit : block = chunk ++ restb) by (symmetry; apply firstn_skipn).
  assert (Hclen : length chunk = Nat.min (N.to_nat len) (length block)) by (unfold chunk; apply firstn_length).
  assert (Hrlen : length restb = (length block - N.to_nat len)%nat) by (unfold restb; apply skipn_length).
  assert (Hbl : (1 <= length block)%nat) by (unfold block; cbn [length]; lia).
  destruct (enc_bytes cap e0 chunk) as [e1|] eqn:E1; [|discriminate].
  destruct restb as [|y q] eqn:Er.
  - inversion H; subst out0 efin. clear H.
    exists (varint (N.of_nat (length (e_buf PS e1))) ++ e_buf PS e1).
    split; [reflexivity|].
    assert (Hall : chunk = block) by (rewrite Hsplit, app_nil_r; reflexivity).
    cbn [length] in Hrlen.
    destruct (chunk_decode e0 e1 (e_ps PS e) chunk [] [] O (N.of_nat (length block)) HI0 eq_refl N3 Hcok E1 ltac:(lia) ltac:(lia)) as [HI1 _].
    split; [exact HI1|]. intros F rest accd HF. destruct F as [|F']; [lia|].
    rewrite <- app_assoc.
    destruct (chunk_decode e0 e1 (e_ps PS e) chunk rest accd F' (N.of_nat (length block)) HI0 eq_refl N3 Hcok E1 ltac:(lia) ltac:(lia)) as [_ Hrd].
    rewrite N1, N2 in Hrd. rewrite Hrd. rewrite Hall at 1. rewrite N.sub_diag, read_chunks_zero, Hall. reflexivity.
  - assert (Hlenb : (N.to_nat len < length block)%nat) by (cbn [length] in Hrlen; lia).
    assert (Hcl : length chunk = N.to_nat len) by lia.
    destruct (chunk_decode e0 e1 (e_ps PS e) chunk [] [] O (N.of_nat (length block)) HI0 eq_refl N3 Hcok E1 ltac:(lia) ltac:(lia)) as [HI1 _].
    destruct (IH (y :: q) e1 _ out0 efin HI1 Hrok ltac:(rewrite Hrlen; lia) ltac:(discriminate) H) as (body2 & Eo & HIf & Hrd2).
    exists (varint (N.of_nat (length (e_buf PS e1))) ++ e_buf PS e1 ++ final56 (e_low PS e1) ++ body2).
    split; [rewrite Eo; rewrite <- !app_assoc; reflexivity|]. split; [exact HIf|].
    intros F rest accd HF. destruct F as [|F']; [lia|].
    rewrite <- !app_assoc.
    destruct (chunk_decode e0 e1 (e_ps PS e) chunk (body2 ++ final56 (e_low PS efin) ++ rest) accd F' (N.of_nat (length block)) HI0 eq_refl N3 Hcok E1 ltac:(lia) ltac:(lia)) as [_ Hrd].
    rewrite N1, N2 in Hrd. rewrite Hrd.
    replace (N.of_nat (length block) - N.of_nat (length chunk)) with (N.of_nat (length (y :: q))) by (rewrite Hrlen; lia).
    rewrite (Hrd2 F' rest (accd ++ chunk)) by (rewrite Hrlen; lia).
    rewrite <- app_assoc, <- Hsplit. reflexivity.
Qed.

End D.

(* ---------- the theorem ---------- *)
Lemma chunk_len_bounds count : 0 < count -> count <= 1073741824 -> 0 < chunk_len count /\ buf_size count < 268435456.
Proof.
  intros H0 H1. unfold buf_size, chunk_len. rewrite !N.shiftr_div_pow2.
  change (2 ^ 3) with 8. change (2 ^ 4) with 16.
  destruct (67108864 <=? count) eqn:E1; [destruct (count <? 536870912) eqn:E2|destruct (count <? 64) eqn:E3]; lia.
Qed.

(* generic form: any chunking rule with positive chunks, a buffer below 2^28 bytes, and a decoder that
   accepts every chunk size the encoder's buffer can hold *)
Theorem coder_roundtrip_gen (sa sb : N) (Hsb : sb <= 8) (PS : Type) (pget : PS -> N) (pupd : PS -> bool -> PS)
  (Hp : forall ps, pget ps < 2 ^ (sa + sb)) (reset : PS -> PS) (clen bcap : N -> N) (accepts : N -> N -> bool)
  (Hparams : forall count, 0 < count -> count <= 1073741824 ->
     0 < clen count /\ bcap count < 268435456 /\ forall sz, sz <= bcap count -> accepts count sz = true)
  ps0 block out :
  bytes_ok block -> encode sa sb PS pget pupd reset clen bcap ps0 block = Some out ->
  forall rest, decode sa sb PS pget pupd reset clen accepts ps0 (N.of_nat (length block)) (out ++ rest) = DOk block rest.
Proof.
  intros Hok He rest. unfold encode in He. unfold decode.
  destruct (N.of_nat (length block) =? 0) eqn:E0.
  - apply N.eqb_eq in E0. inversion He; subst out. destruct block; [|cbn in E0; lia]. reflexivity.
  - apply N.eqb_neq in E0. destruct (1073741824 <? N.of_nat (length block)) eqn:Eb; [discriminate|]. apply N.ltb_ge in Eb.
    destruct (Hparams _ (proj1 (N.neq_0_lt_0 _) E0) Eb) as (Hl & Hc & Hacc).
    destruct (write_chunks sa sb PS pget pupd reset (length block) _ _ (mkE PS 0 TOP [] ps0) block []) as [[out0 e]|] eqn:Ew; [|discriminate].
    inversion He; subst out. clear He.
    destruct (chunks_roundtrip sa sb Hsb PS pget pupd Hp reset accepts _ _ _ Hc Hacc Hl (length block) block _ [] out0 e (einv_init PS ps0) Hok (le_n _)
                ltac:(destruct block; [cbn in E0; lia|discriminate]) Ew) as (body & Eo & _ & Hrd).
    cbn [app] in Eo. subst out0. rewrite <- app_assoc.
    specialize (Hrd (N.to_nat (N.of_nat (length block))) rest [] ltac:(lia)).
    unfold BinCoderProofs.nl, BinCoderProofs.nh in Hrd. cbn [e_low e_high e_ps] in Hrd.
    change (0 mod T56) with 0 in Hrd. change (TOP mod T56) with TOP in Hrd. exact Hrd.
Qed.

(* BinaryEntropyCodec.go *)
Theorem coder_roundtrip (sa sb : N) (Hsb : sb <= 8) (PS : Type) (pget : PS -> N) (pupd : PS -> bool -> PS)
  (Hp : forall ps, pget ps < 2 ^ (sa + sb)) ps0 block out :
  bytes_ok block -> bin_encode sa sb PS pget pupd ps0 block = Some out ->
  forall rest, bin_decode sa sb PS pget pupd ps0 (N.of_nat (length block)) (out ++ rest) = DOk block rest.
Proof.
  intros Hok He rest. unfold bin_encode, bin_decode in *.
  apply (coder_roundtrip_gen sa sb Hsb PS pget pupd Hp (fun ps => ps) chunk_len buf_size bin_accepts); [|exact Hok|exact He].
  intros count H0 H1. destruct (chunk_len_bounds count H0 H1) as [A B]. split; [exact A|]. split; [exact B|].
  intros sz Hsz. unfold bin_accepts. apply negb_true_iff. apply N.ltb_ge. exact Hsz.
Qed.

(* the framing of FPAQCodec.go around the same coder (shifts 8/8, 16-bit probabilities) *)
Theorem fpaq_framing_roundtrip (PS : Type) (pget : PS -> N) (pupd : PS -> bool -> PS) (reset : PS -> PS)
  (Hp : forall ps, pget ps < 65536) ps0 block out :
  bytes_ok block -> encode 8 8 PS pget pupd reset fpaq_chunk_len fpaq_buf_cap ps0 block = Some out ->
  forall rest, decode 8 8 PS pget pupd reset fpaq_chunk_len fpaq_accepts ps0 (N.of_nat (length block)) (out ++ rest) = DOk block rest.
Proof.
  intros Hok He rest.
  apply (coder_roundtrip_gen 8 8 ltac:(discriminate) PS pget pupd Hp reset fpaq_chunk_len fpaq_buf_cap fpaq_accepts); [|exact Hok|exact He].
  intros count H0 H1. unfold fpaq_buf_cap, fpaq_chunk_len, fpaq_accepts. rewrite N.shiftr_div_pow2. change (2 ^ 3) with 8.
  split; [lia|]. split; [lia|]. intros sz Hsz. apply N.ltb_lt. lia.
Qed.
