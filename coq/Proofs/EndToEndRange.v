(* Writer model -> container bytes with RANGE-coded blocks -> reader models, composed (C01 + C12): for the NONE transform /
   RANGE entropy pipeline nothing is abstract between the caller's Write calls and the caller's Read calls except the
   goroutine scheduling (C07) and the checksum function.  Premise beyond the configuration: every block's frame fits
   the 2^33-odd bits the reader accepts for a frame (the range coder does not expand data in practice; the bound is a
   premise, not a theorem). *)
From Coq Require Import List NArith ZArith Lia Bool ZifyN ZifyNat ZifyBool.
From KV Require Import Model.OutBS Model.InBS Model.Header Model.Container Model.ContainerG Model.Writer Model.Reader
  Proofs.BinCoderProofs Proofs.HeaderProofs Proofs.WriterProofs Proofs.ReaderProofs Proofs.ContainerProofs Proofs.EndToEnd
  Proofs.ContainerGProofs.
Import ListNotations.
Open Scope N_scope.
Ltac Zify.zify_post_hook ::= idtac.

Theorem end_to_end_range (hash : list N -> N) (evalid tvalid : N -> bool) c jw hw jr hr (ws : list (list N)) (ns : list N) nframes rbuf sched :
  cfg_ok evalid tvalid c -> h_etype c = RANGE_TYPE ->
  (h_ck c = 1 -> forall l, hash l < 2 ^ 32) -> (h_ck c = 2 -> forall l, hash l < 2 ^ 64) ->
  bytes_ok (concat ws) -> (length (concat ws) < nframes)%nat ->
  0 < jw -> 0 < jr -> 0 < rbuf -> rbuf mod 8 = 0 ->
  let B := h_bsize c in
  Forall (fun b => snd (inner_image_r hash (h_ck c) b) <= 8589934696) (chunks B (concat ws)) ->
  exists s1 s2 frames,
    do_writes B jw hw (init_w jw) ws = (s1, true) /\
    w_close B jw hw (fun _ => false) s1 false false = (s2, false) /\
    parse_stream_e hash evalid tvalid nframes rbuf sched (write_stream_e hash c (map snd (w_out s2))) = Some (norm_cfg c, frames) /\
    fst (do_reads B jr hr (init_r (map frame_of frames)) ns) = spec_reads (concat ws) ns.
Proof.
  intros Hc Het H32 H64 Hd Hnf Hjw Hjr Hr Hr8 B Hfit.
  assert (H8 : B <= 1073741824) by (destruct (bs_ok _ _ _ Hc) as [[_ X] _]; unfold MAX_BLOCK in X; exact X).
  assert (HB : 0 < B) by (destruct (bs_ok _ _ _ Hc) as [[X _] _]; unfold MIN_BLOCK in X; unfold B; lia).
  destruct (writer_chunking B jw hw HB Hjw ws) as (s1 & s2 & E1 & E2 & _ & O & _).
  destruct (chunks_f_ok B HB (length (concat ws)) (concat ws) Hd) as [Hok Hlen]. fold (chunks B (concat ws)) in Hok, Hlen.
  assert (Hbl : Forall (good_r hash (h_ck c) B) (map snd (w_out s2))).
  { rewrite O. rewrite Forall_forall in Hok, Hfit. apply Forall_forall. intros x Hx. destruct (Hok x Hx) as (X1 & X2 & X3).
    unfold good_r. repeat split; try assumption; [lia|apply Hfit; exact Hx]. }
  exists s1, s2, (map PData (map snd (w_out s2)) ++ [PEnd]).
  split; [exact E1|]. split; [exact E2|]. split.
  - apply (container_range_roundtrip hash evalid tvalid c Hc H32 H64 Het _ nframes rbuf sched Hbl); [rewrite O; lia|exact Hr|exact Hr8].
  - rewrite map_app, map_map. cbn [map frame_of].
    change (map (fun x : list N => frame_of (PData x)) (map snd (w_out s2))) with (map FData (map snd (w_out s2))).
    rewrite O. apply reader_valid_stream; assumption.
Qed.
