(* Reader cursor / batch logic on a valid stream: whatever the sequence of Read lengths
   (0 included), the job count and the size hint, the bytes returned are the data in order,
   each Read is filled completely until the data is exhausted, then end-of-stream (C01, C05, C06, C17). *)
From Coq Require Import List NArith ZArith Bool Lia ZifyN ZifyNat.
From KV Require Import Model.Writer Model.Reader Proofs.WriterProofs.
Import ListNotations.
Open Scope N_scope.

Section R.
Variables (B jobs hint : N).
Hypothesis HB : 0 < B.
Hypothesis HJ : 0 < jobs.
Notation b := (N.to_nat B).

(* decoded blocks of a batch: full blocks, then at most one shorter block, then empty entries *)
Fixpoint shape (bufs : list (list N)) : Prop :=
  match bufs with
  | [] => True
  | x :: t => (length x = b /\ shape t) \/ ((length x <= b)%nat /\ concat t = [])
  end.

Lemma nth_concat_nil (t : list (list N)) i : concat t = [] -> nth i t [] = [].
Proof.
  revert i; induction t as [|x q IH]; intros i H; [destruct i; reflexivity|].
  cbn [concat] in H. apply app_eq_nil in H. destruct H as [-> H]. destruct i; [reflexivity|]. cbn. apply IH; exact H.
Qed.

(* addressing the compacted buffers by (consumed / B, consumed mod B) reads the concatenation *)
Lemma slice_spec : forall bufs (c len : nat), shape bufs ->
  (c + len <= length (concat bufs))%nat -> (len <= b - c mod b)%nat -> (0 < len)%nat ->
  slice (nth (c / b) bufs []) (N.of_nat (c mod b)) (N.of_nat len) = firstn len (skipn c (concat bufs)).
Proof.
  assert (Hb : (0 < b)%nat) by lia.
  induction bufs as [|x t IH]; intros c len Hs Hc Hl Hp.
  - cbn in Hc. lia.
  - cbn [concat shape] in *. rewrite app_length in Hc.
    destruct Hs as [[Hx Hs]|[Hx Ht]].
    + destruct (Nat.lt_ge_cases c b) as [Hlt|Hge].
      * rewrite Nat.div_small, Nat.mod_small by lia. cbn [nth]. unfold slice. rewrite !Nat2N.id.
        rewrite Nat.mod_small in Hl by lia.
        rewrite skipn_app. replace (c - length x)%nat with O by lia. cbn [skipn].
        rewrite firstn_app. rewrite skipn_length.
        replace (len - (length x - c))%nat with O by lia. cbn [firstn]. rewrite app_nil_r. reflexivity.
      * assert (E : (c = (c - b) + 1 * b)%nat) by lia.
        assert (Ed : (c / b = S ((c - b) / b))%nat) by (rewrite E at 1; rewrite Nat.div_add by lia; lia).
        assert (Em : (c mod b = (c - b) mod b)%nat) by (rewrite E at 1; rewrite Nat.mod_add by lia; reflexivity).
        rewrite Ed, Em. cbn [nth]. rewrite (IH (c - b)%nat len Hs) by lia.
        rewrite skipn_app. rewrite (skipn_all2 x) by lia. rewrite Hx. reflexivity.
    + (* x is the last non-empty block *)
      rewrite Ht in Hc. cbn [length] in Hc. rewrite Ht, app_nil_r.
      assert (Hcb : (c < b)%nat) by lia.
      rewrite Nat.div_small, Nat.mod_small by lia. cbn [nth]. unfold slice. rewrite !Nat2N.id. reflexivity.
Qed.

Lemma shape_chunks : forall n l, (length l <= n)%nat -> shape (chunks B l).
Proof.
  induction n as [|n IH]; intros l Hl.
  - destruct l; [exact I|simpl in Hl; lia].
  - destruct l as [|x t]; [exact I|].
    destruct (Nat.le_gt_cases (length (x :: t)) b) as [Hle|Hgt].
    + rewrite (chunks_last B (x :: t) HB ltac:(discriminate) Hle). cbn [shape concat]. right. auto.
    + rewrite <- (firstn_skipn b (x :: t)).
      assert (Hf : length (firstn b (x :: t)) = b) by (rewrite firstn_length; lia).
      rewrite (chunks_cons B _ _ HB Hf). cbn [shape]. left. split; [exact Hf|].
      apply IH. rewrite skipn_length. cbn [length] in *. lia.
Qed.

Lemma shape_app_nils bufs k : shape bufs -> shape (bufs ++ repeat [] k).
Proof.
  induction bufs as [|x t IH]; intros H; cbn [app].
  - induction k as [|k IHk]; cbn [repeat shape]; [exact I|]. right. split; [cbn; lia|].
    clear IHk. induction k; cbn; auto.
  - cbn [shape] in *. destruct H as [[Hx Hs]|[Hx Ht]]; [left; auto|right]. split; [exact Hx|].
    rewrite concat_app, Ht. cbn [app]. clear. induction k; cbn; auto.
Qed.

Lemma concat_app_nils (bufs : list (list N)) k : concat (bufs ++ repeat [] k) = concat bufs.
Proof. rewrite concat_app. replace (concat (repeat [] k)) with (@nil N) by (induction k; cbn; auto). apply app_nil_r. Qed.

Lemma chunks_le : forall n l, (length l <= n)%nat -> Forall (fun x => (length x <= b)%nat) (chunks B l).
Proof.
  induction n as [|n IH]; intros l Hl.
  - destruct l; [constructor|simpl in Hl; lia].
  - destruct l as [|x t]; [constructor|].
    destruct (Nat.le_gt_cases (length (x :: t)) b) as [Hle|Hgt].
    + rewrite (chunks_last B (x :: t) HB ltac:(discriminate) Hle). constructor; [exact Hle|constructor].
    + rewrite <- (firstn_skipn b (x :: t)).
      assert (Hf : length (firstn b (x :: t)) = b) by (rewrite firstn_length; lia).
      rewrite (chunks_cons B _ _ HB Hf). constructor; [lia|].
      apply IH. rewrite skipn_length. cbn [length] in *. lia.
Qed.

(* ---------- one batch on a valid stream without range ---------- *)
Notation batch0 := (batch 0 0).

Lemma skipped0 bid : skipped 0 0 bid = false.
Proof. reflexivity. Qed.

Lemma batch_cancelled : forall n frames id,
  batch0 n frames id true = (repeat TNone n, frames, id + N.of_nat n, true).
Proof.
  induction n as [|n IH]; intros frames id; cbn [batch repeat].
  - replace (id + N.of_nat 0) with id by lia. reflexivity.
  - rewrite IH. replace (id + N.of_nat (S n)) with (id + 1 + N.of_nat n) by lia. reflexivity.
Qed.

Lemma batch_valid : forall n blocks id,
  batch0 n (map FData blocks ++ [FEnd]) id false =
    if (n <=? length blocks)%nat
    then (map TData (firstn n blocks), map FData (skipn n blocks) ++ [FEnd], id + N.of_nat n, false)
    else (map TData blocks ++ repeat TNone (n - length blocks), [], id + N.of_nat n, true).
Proof.
  induction n as [|n IH]; intros blocks id.
  - cbn [batch Nat.leb firstn skipn map]. replace (id + N.of_nat 0) with id by lia. reflexivity.
  - replace (id + N.of_nat (S n)) with (id + 1 + N.of_nat n) by lia.
    destruct blocks as [|x r].
    + cbn [map app batch]. rewrite batch_cancelled. cbn [Nat.leb length map app Nat.sub repeat]. reflexivity.
    + cbn [map app batch]. rewrite skipped0. rewrite IH. cbn [length Nat.leb].
      destruct (n <=? length r)%nat; cbn [firstn skipn map app Nat.sub]; reflexivity.
Qed.

Lemma scan_data : forall blocks bufs decoded k,
  Forall (fun x => (length x <= b)%nat) blocks ->
  scan B (map TData blocks ++ repeat TNone k) bufs decoded O =
    (bufs ++ blocks ++ repeat [] k, decoded + N.of_nat (length (concat blocks)), O, false).
Proof.
  induction blocks as [|x r IH]; intros bufs decoded k H; cbn [map app].
  - cbn [concat length N.of_nat]. rewrite N.add_0_r. revert bufs. induction k as [|k IHk]; intros bufs; cbn [repeat scan].
    + rewrite app_nil_r. reflexivity.
    + rewrite IHk, <- app_assoc. reflexivity.
  - inversion H as [|? ? Hx Hr]; subst. cbn [scan].
    replace (B <? N.of_nat (length x)) with false by (symmetry; apply N.ltb_ge; lia).
    rewrite (IH _ _ _ Hr), <- app_assoc. cbn [app concat]. rewrite app_length.
    replace (decoded + N.of_nat (length x) + N.of_nat (length (concat r))) with (decoded + N.of_nat (length x + length (concat r))) by lia.
    reflexivity.
Qed.

(* ---------- the reader invariant on a valid stream ---------- *)
Definition unread (s : rst) : list N :=
  firstn (N.to_nat (r_avail s)) (skipn (N.to_nat (r_consumed s)) (concat (r_bufs s))).

Record RInv (s : rst) (rem : list N) : Prop := {
  ri_closed : r_closed s = false;
  ri_err : r_err s = false;
  ri_shape : shape (r_bufs s);
  ri_cur : (N.to_nat (r_consumed s) + N.to_nat (r_avail s) = length (concat (r_bufs s)))%nat;
  ri_rem : exists rest, rem = unread s ++ rest /\
           ((r_cancel s = false /\ r_frames s = map FData (chunks B rest) ++ [FEnd]) \/
            (r_cancel s = true /\ rest = []))
}.

Lemma rinv_init data : RInv (init_r (map FData (chunks B data) ++ [FEnd])) data.
Proof.
  constructor; cbn; auto. exists data. split; [reflexivity|]. left. auto.
Qed.

Definition nb_tasks : N := if (1 <? jobs) && (0 <? hint) then N.min jobs hint else jobs.

Lemma nb_tasks_pos : 0 < nb_tasks.
Proof. unfold nb_tasks. destruct ((1 <? jobs) && (0 <? hint)) eqn:E; [|exact HJ]. apply andb_true_iff in E. destruct E as [_ E]. apply N.ltb_lt in E. lia. Qed.

Lemma skipn_skipn' {A} (l : list A) : forall y x, skipn x (skipn y l) = skipn (y + x) l.
Proof.
  induction l as [|z q IH]; intros y x; [rewrite !skipn_nil; reflexivity|].
  destruct y; [reflexivity|]. cbn [skipn plus]. apply IH.
Qed.

Lemma In_firstn {A} (l : list A) : forall n x, In x (firstn n l) -> In x l.
Proof.
  induction l as [|y q IH]; intros n x H; [destruct n; exact H|].
  destruct n; [destruct H|]. cbn [firstn] in H. destruct H as [H|H]; [left; exact H|right; eapply IH; exact H].
Qed.

Lemma chunks_unfold l : l <> [] -> chunks B l = firstn b l :: chunks B (skipn b l).
Proof.
  intros Hne. destruct (Nat.le_gt_cases (length l) b) as [Hle|Hgt].
  - rewrite (chunks_last B l HB Hne Hle), firstn_all2, skipn_all2 by lia. reflexivity.
  - rewrite <- (firstn_skipn b l) at 1. apply (chunks_cons B _ _ HB). rewrite firstn_length. lia.
Qed.

Lemma chunks_skipn : forall n l, skipn n (chunks B l) = chunks B (skipn (n * b) l).
Proof.
  induction n as [|n IH]; intros l; [reflexivity|].
  destruct l as [|x t]; [rewrite skipn_nil; destruct (S n * b)%nat; reflexivity|].
  rewrite (chunks_unfold (x :: t)) by discriminate. cbn [skipn]. rewrite IH, skipn_skipn'.
  replace (S n * b)%nat with (b + n * b)%nat by lia. reflexivity.
Qed.

Lemma chunks_firstn_concat : forall n l, concat (firstn n (chunks B l)) = firstn (n * b) l.
Proof.
  induction n as [|n IH]; intros l; [reflexivity|].
  destruct l as [|x t]; [rewrite firstn_nil; destruct (S n * b)%nat; reflexivity|].
  rewrite (chunks_unfold (x :: t)) by discriminate. cbn [firstn concat]. rewrite IH.
  replace (S n * b)%nat with (b + n * b)%nat by lia.
  rewrite <- (firstn_skipn b (x :: t)) at 3.
  destruct (Nat.le_gt_cases (length (x :: t)) b) as [Hle|Hgt].
  - rewrite (skipn_all2 (x :: t)) by lia. rewrite firstn_nil, !app_nil_r.
    rewrite (firstn_all2 (x :: t)) by lia. symmetry. apply firstn_all2. lia.
  - rewrite firstn_app, firstn_length. replace (Nat.min b (length (x :: t))) with b by lia.
    replace (b + n * b - b)%nat with (n * b)%nat by lia.
    rewrite (firstn_all2 (firstn b (x :: t))) by (rewrite firstn_length; lia). reflexivity.
Qed.

Lemma shape_firstn : forall bufs n, shape bufs -> shape (firstn n bufs).
Proof.
  induction bufs as [|x t IH]; intros n H; [destruct n; exact I|].
  destruct n; [exact I|]. cbn [firstn shape] in *. destruct H as [[Hx Hs]|[Hx Ht]]; [left; auto|right].
  split; [exact Hx|]. clear - Ht. revert n. induction t as [|y q IHq]; intros n; [destruct n; reflexivity|].
  cbn [concat] in Ht. apply app_eq_nil in Ht. destruct Ht as [-> Ht]. destruct n; [reflexivity|]. cbn. apply IHq; exact Ht.
Qed.

Lemma chunks_length_zero l : chunks B l = [] -> l = [].
Proof. destruct l as [|x t]; [reflexivity|]. rewrite chunks_unfold by discriminate. discriminate. Qed.

(* processBlock when the buffers are exhausted *)
Lemma process_block_valid fuel s rest : (0 < fuel)%nat ->
  (r_cancel s = false /\ r_frames s = map FData (chunks B rest) ++ [FEnd]) \/ (r_cancel s = true /\ rest = []) ->
  exists s' decoded, process_block B jobs hint 0 0 fuel s = (s', decoded, false) /\
    r_closed s' = r_closed s /\ r_err s' = r_err s /\
    ((decoded = 0 /\ rest = [] /\ r_cancel s' = true /\
      (s' = s \/ (r_consumed s' = 0 /\ concat (r_bufs s') = [] /\ shape (r_bufs s')))) \/
     (0 < decoded /\ r_consumed s' = 0 /\ shape (r_bufs s') /\ N.to_nat decoded = length (concat (r_bufs s')) /\
      (r_cancel s' = true \/ (length (r_frames s') < length (r_frames s))%nat) /\
      exists rest', rest = concat (r_bufs s') ++ rest' /\
        ((r_cancel s' = false /\ r_frames s' = map FData (chunks B rest') ++ [FEnd]) \/ (r_cancel s' = true /\ rest' = [])))).
Proof.
  intros Hf Hfr. destruct fuel as [|f]; [lia|]. cbn [process_block].
  destruct Hfr as [[Hc Hfrm]|[Hc Hr]].
  2:{ rewrite Hc. exists s, 0. split; [reflexivity|]. split; [reflexivity|]. split; [reflexivity|]. left. repeat split; auto. }
  rewrite Hc. fold nb_tasks. set (n := N.to_nat nb_tasks).
  assert (Hn : (0 < n)%nat) by (pose proof nb_tasks_pos; lia).
  rewrite Hfrm, batch_valid.
  pose proof (chunks_le (length rest) rest (le_n _)) as Hle.
  pose proof (shape_chunks (length rest) rest (le_n _)) as Hsh.
  destruct (chunks_spec B jobs HB HJ (length rest) rest (le_n _)) as [Hcc _].
  destruct (n <=? length (chunks B rest))%nat eqn:En.
  - apply Nat.leb_le in En.
    pose proof (scan_data (firstn n (chunks B rest)) [] 0 0) as Hsc.
    cbn [repeat] in Hsc. rewrite !app_nil_r in Hsc. cbn [app] in Hsc.
    rewrite Hsc by (apply Forall_forall; intros x Hx; rewrite Forall_forall in Hle; apply Hle; eapply In_firstn; eauto).
    replace (Nat.eqb 0 n) with false by (symmetry; apply Nat.eqb_neq; lia).
    eexists. eexists. split; [reflexivity|]. cbn [r_closed r_err r_cancel r_consumed r_bufs r_frames r_avail].
    split; [reflexivity|]. split; [reflexivity|]. right.
    assert (Hrne : rest <> []).
    { intros ->. cbn in En. lia. }
    rewrite chunks_firstn_concat.
    assert (Hnb : (0 < n * b)%nat) by nia.
    split.
    { destruct rest as [|y q]; [congruence|]. destruct (n * b)%nat; [lia|]. cbn [firstn length]. lia. }
    split; [reflexivity|]. split; [apply shape_firstn; exact Hsh|]. split; [lia|].
    split.
    { right. rewrite !app_length, !map_length, skipn_length. cbn [length]. lia. }
    exists (skipn (n * b) rest). split; [symmetry; apply firstn_skipn|]. left. split; [reflexivity|].
    rewrite chunks_skipn. reflexivity.
  - apply Nat.leb_gt in En.
    pose proof (scan_data (chunks B rest) [] 0 (n - length (chunks B rest)) Hle) as Hsc. cbn [app] in Hsc.
    rewrite Hsc. replace (Nat.eqb 0 n) with false by (symmetry; apply Nat.eqb_neq; lia).
    eexists. eexists. split; [reflexivity|]. cbn [r_closed r_err r_cancel r_consumed r_bufs r_frames r_avail].
    split; [reflexivity|]. split; [reflexivity|].
    rewrite Hcc. destruct rest as [|y q].
    + left. cbn [length N.of_nat]. split; [lia|]. split; [reflexivity|]. split; [reflexivity|]. right.
      split; [reflexivity|]. rewrite concat_app_nils. split; [reflexivity|]. apply shape_app_nils. exact I.
    + right. split; [cbn [length]; lia|]. split; [reflexivity|].
      split; [apply shape_app_nils; exact Hsh|]. rewrite concat_app_nils, Hcc. split; [lia|].
      split; [left; reflexivity|].
      exists []. rewrite app_nil_r. split; [reflexivity|]. right. auto.
Qed.

Lemma firstn_add {A} (l : list A) a c : firstn (a + c) l = firstn a l ++ firstn c (skipn a l).
Proof.
  revert l; induction a as [|a IH]; intros l; [reflexivity|].
  destruct l; [rewrite firstn_nil; cbn; rewrite firstn_nil; reflexivity|]. cbn [plus firstn skipn app]. f_equal. apply IH.
Qed.

Definition rmeasure (s : rst) : nat := if r_cancel s then O else length (r_frames s).

Definition eof_result (want total : N) (rem : list N) : rres :=
  if (want =? total) && (0 <? want) && (match rem with [] => true | _ => false end) then REOF else RNil.

Lemma unread_length s : (N.to_nat (r_consumed s) + N.to_nat (r_avail s) = length (concat (r_bufs s)))%nat ->
  length (unread s) = N.to_nat (r_avail s).
Proof. intros H. unfold unread. rewrite firstn_length, skipn_length. lia. Qed.

(* the loop of Read: copies exactly min(want, remaining) bytes, in order *)
Lemma read_loop_spec : forall fuel s want got total rem,
  RInv s rem -> (N.to_nat want + rmeasure s < fuel)%nat -> want <= total ->
  exists s', read_loop B jobs hint 0 0 fuel s want got total =
               (s', got ++ firstn (N.to_nat want) rem, eof_result want total rem) /\
             RInv s' (skipn (N.to_nat want) rem).
Proof.
  induction fuel as [|f IH]; intros s want got total rem HI Hfu Hwt; [lia|].
  cbn [read_loop].
  destruct (want =? 0) eqn:Ew0.
  { apply N.eqb_eq in Ew0. subst want. cbn [N.to_nat firstn skipn]. rewrite app_nil_r.
    exists s. split; [|exact HI]. unfold eof_result. rewrite andb_false_r. reflexivity. }
  apply N.eqb_neq in Ew0.
  destruct HI as [Hcl He Hsh Hcur (rest & Hrem & Hfr)].
  pose proof (unread_length s Hcur) as Hul.
  assert (Hremnil : rem = [] -> r_avail s = 0).
  { intros Hn. rewrite Hn in Hrem. symmetry in Hrem. apply app_eq_nil in Hrem. destruct Hrem as [Hu _].
    rewrite Hu in Hul. cbn in Hul. lia. }
  set (bufOff := r_consumed s mod B). set (lenChunk := N.min want (N.min (r_avail s) (B - bufOff))).
  pose proof (N.mod_lt (r_consumed s) B ltac:(lia)) as Hml. fold bufOff in Hml.
  set (chunk := slice (nth (N.to_nat (r_consumed s / B)) (r_bufs s) []) bufOff lenChunk).
  assert (Hchunk : chunk = firstn (N.to_nat lenChunk) rem).
  { destruct (N.eq_dec lenChunk 0) as [E0|E0].
    - unfold chunk, slice. rewrite E0. reflexivity.
    - unfold chunk.
      replace (N.to_nat (r_consumed s / B)) with (N.to_nat (r_consumed s) / b)%nat by (rewrite N2Nat.inj_div; reflexivity).
      replace bufOff with (N.of_nat (N.to_nat (r_consumed s) mod b)) by (unfold bufOff; rewrite <- N2Nat.inj_mod, N2Nat.id; reflexivity).
      replace lenChunk with (N.of_nat (N.to_nat lenChunk)) at 1 by lia.
      rewrite (slice_spec (r_bufs s) (N.to_nat (r_consumed s)) (N.to_nat lenChunk) Hsh).
      + rewrite Hrem. unfold unread. rewrite firstn_app, firstn_firstn.
        replace (Nat.min (N.to_nat lenChunk) (N.to_nat (r_avail s))) with (N.to_nat lenChunk) by (unfold lenChunk; lia).
        rewrite firstn_length, skipn_length.
        replace (N.to_nat lenChunk - Nat.min (N.to_nat (r_avail s)) (length (concat (r_bufs s)) - N.to_nat (r_consumed s)))%nat with O by (unfold lenChunk; lia).
        cbn [firstn]. rewrite app_nil_r. reflexivity.
      + unfold lenChunk. lia.
      + assert (Hm : (N.to_nat (r_consumed s) mod b = N.to_nat bufOff)%nat) by (unfold bufOff; rewrite N2Nat.inj_mod; reflexivity).
        rewrite Hm. unfold lenChunk. lia.
      + lia. }
  fold bufOff lenChunk chunk.
  set (s1 := if 0 <? lenChunk then mkR (r_bufs s) (r_avail s - lenChunk) (r_consumed s + lenChunk) (r_frames s) (r_blockid s) (r_cancel s) (r_err s) (r_closed s) else s).
  assert (Hlen : lenChunk <= r_avail s /\ lenChunk <= want) by (unfold lenChunk; lia).
  assert (Hs1 : r_bufs s1 = r_bufs s /\ r_avail s1 = r_avail s - lenChunk /\ r_consumed s1 = r_consumed s + lenChunk /\
                r_frames s1 = r_frames s /\ r_cancel s1 = r_cancel s /\ r_err s1 = false /\ r_closed s1 = false).
  { unfold s1. destruct (0 <? lenChunk) eqn:E; cbn; repeat split; auto. all: apply N.ltb_ge in E; lia. }
  destruct Hs1 as (Sb & Sa & Sc & Sf & Scn & Se & Scl).
  assert (HI1 : RInv s1 (skipn (N.to_nat lenChunk) rem)).
  { constructor; auto.
    - rewrite Sb; exact Hsh.
    - rewrite Sb, Sa, Sc. lia.
    - exists rest. split.
      + rewrite Hrem. unfold unread. rewrite Sb, Sa, Sc. rewrite skipn_app, firstn_length, skipn_length.
        replace (N.to_nat lenChunk - Nat.min (N.to_nat (r_avail s)) (length (concat (r_bufs s)) - N.to_nat (r_consumed s)))%nat with O by lia.
        cbn [skipn]. f_equal. rewrite skipn_firstn_comm. f_equal; [lia|]. rewrite skipn_skipn'. f_equal. lia.
      + rewrite Scn, Sf. exact Hfr. }
  assert (Hm1 : rmeasure s1 = rmeasure s) by (unfold rmeasure; rewrite Scn, Sf; reflexivity).
  set (want1 := want - lenChunk).
  assert (Hsplit : got ++ firstn (N.to_nat want) rem = (got ++ chunk) ++ firstn (N.to_nat want1) (skipn (N.to_nat lenChunk) rem)).
  { rewrite Hchunk, <- app_assoc. f_equal. replace (N.to_nat want) with (N.to_nat lenChunk + N.to_nat want1)%nat by (unfold want1; lia).
    apply firstn_add. }
  assert (Hskip : skipn (N.to_nat want) rem = skipn (N.to_nat want1) (skipn (N.to_nat lenChunk) rem)).
  { rewrite skipn_skipn'. f_equal. unfold want1. lia. }
  (* result of the recursive call when at least one byte has been copied *)
  assert (Hrec : 0 < lenChunk -> forall s2, RInv s2 (skipn (N.to_nat lenChunk) rem) -> (rmeasure s2 <= rmeasure s)%nat ->
     exists s', read_loop B jobs hint 0 0 f s2 want1 (got ++ chunk) total =
       (s', got ++ firstn (N.to_nat want) rem, eof_result want total rem) /\ RInv s' (skipn (N.to_nat want) rem)).
  { intros Hpos s2 HI2 Hms. destruct (IH s2 want1 (got ++ chunk) total _ HI2 ltac:(unfold want1; lia) ltac:(unfold want1; lia)) as (s' & E & I').
    exists s'. rewrite E, Hsplit, Hskip. split; [|exact I']. f_equal.
    unfold eof_result. replace (want1 =? total) with false by (symmetry; apply N.eqb_neq; unfold want1; lia).
    cbn [andb]. destruct ((want =? total) && (0 <? want)) eqn:Ec; [|reflexivity]. cbn [andb].
    destruct rem as [|y q]; [|reflexivity].
    exfalso. pose proof (Hremnil eq_refl). lia. }
  destruct ((0 <? lenChunk) && ((0 <? r_avail s1) && (B <=? bufOff + lenChunk))) eqn:Eb1.
  { apply andb_true_iff in Eb1. destruct Eb1 as [Ep _]. apply N.ltb_lt in Ep.
    apply (Hrec Ep s1 HI1). lia. }
  destruct ((0 <? lenChunk) && (want1 =? 0)) eqn:Eb2.
  { apply andb_true_iff in Eb2. destruct Eb2 as [Ep Ew]. apply N.ltb_lt in Ep. apply N.eqb_eq in Ew.
    exists s1. rewrite Hsplit, Hskip, Ew. cbn [N.to_nat firstn skipn]. rewrite app_nil_r. split; [|exact HI1].
    f_equal. unfold eof_result.
    destruct rem as [|y q]; [|rewrite andb_false_r; reflexivity].
    exfalso. pose proof (Hremnil eq_refl). lia. }
  destruct (r_avail s1 =? 0) eqn:Ea1.
  2:{ (* unreachable in practice, but the recursion is sound anyway *)
      apply N.eqb_neq in Ea1. destruct (N.eq_dec lenChunk 0) as [E0|E0].
      - exfalso. unfold lenChunk in E0. lia.
      - apply (Hrec ltac:(lia) s1 HI1). lia. }
  apply N.eqb_eq in Ea1.
  (* the buffers are exhausted: decode the next batch *)
  assert (Hrest1 : skipn (N.to_nat lenChunk) rem = rest).
  { rewrite Hrem, skipn_app. rewrite skipn_all2 by lia. rewrite Hul. replace (N.to_nat lenChunk - N.to_nat (r_avail s))%nat with O by lia. reflexivity. }
  destruct (process_block_valid (S (length (r_frames s1))) s1 rest ltac:(lia) ltac:(rewrite Scn, Sf; exact Hfr))
    as (s2 & decoded & E2 & C2 & Er2 & Hout).
  rewrite E2.
  destruct Hout as [(Hd0 & Hr0 & Hc2 & Hs2)|(Hdp & Hc0 & Hsh2 & Hdl & Hms & rest' & Hr' & Hfr')].
  - (* end of stream *)
    rewrite Hd0. cbn [N.eqb]. rewrite Hr0 in Hrest1.
    set (s3 := mkR (r_bufs s2) 0 (r_consumed s2) (r_frames s2) (r_blockid s2) (r_cancel s2) (r_err s2) (r_closed s2)).
    exists s3.
    assert (Hrem1 : skipn (N.to_nat lenChunk) rem = []) by exact Hrest1.
    assert (Hfw : firstn (N.to_nat want1) (skipn (N.to_nat lenChunk) rem) = []) by (rewrite Hrem1; apply firstn_nil).
    rewrite Hsplit, Hskip, Hfw, Hrem1, app_nil_r, skipn_nil. split.
    + f_equal. unfold eof_result.
      destruct (N.eq_dec lenChunk 0) as [E0|E0].
      * unfold want1. rewrite E0, N.sub_0_r.
        assert (Hrn : rem = []) by (rewrite E0 in Hrem1; exact Hrem1). rewrite Hrn.
        replace (0 <? want) with true by (symmetry; apply N.ltb_lt; lia). rewrite !andb_true_r. reflexivity.
      * replace (want1 =? total) with false by (symmetry; apply N.eqb_neq; unfold want1; lia).
        destruct rem as [|y q].
        -- exfalso. pose proof (Hremnil eq_refl). lia.
        -- rewrite andb_false_r. reflexivity.
    + constructor; unfold s3; cbn [r_closed r_err r_bufs r_consumed r_avail r_cancel r_frames].
      * rewrite C2. exact Scl.
      * rewrite Er2. exact Se.
      * destruct Hs2 as [->|(_ & _ & Hs)]; [rewrite Sb; exact Hsh|exact Hs].
      * destruct Hs2 as [->|(Hc0 & Hcc & _)]; [rewrite Sb, Sc; lia|rewrite Hc0, Hcc; reflexivity].
      * exists []. unfold unread. cbn [r_avail N.to_nat firstn app]. split; [reflexivity|]. right. auto.
  - (* a new batch was decoded *)
    replace (decoded =? 0) with false by (symmetry; apply N.eqb_neq; lia).
    set (s3 := mkR (r_bufs s2) decoded (r_consumed s2) (r_frames s2) (r_blockid s2) (r_cancel s2) (r_err s2) (r_closed s2)).
    assert (HI3 : RInv s3 (skipn (N.to_nat lenChunk) rem)).
    { constructor; unfold s3; cbn [r_closed r_err r_bufs r_consumed r_avail r_cancel r_frames].
      - rewrite C2; exact Scl.
      - rewrite Er2; exact Se.
      - exact Hsh2.
      - rewrite Hc0. lia.
      - exists rest'. unfold unread. cbn [r_avail r_consumed r_bufs]. rewrite Hc0. cbn [N.to_nat skipn].
        rewrite firstn_all2 by lia. split; [rewrite Hrest1; exact Hr'|exact Hfr']. }
    destruct (N.eq_dec lenChunk 0) as [E0|E0].
    + (* nothing copied in this iteration: the measure decreased through the frames *)
      assert (Hw1 : want1 = want) by (unfold want1; lia).
      assert (Hchk : chunk = []) by (rewrite Hchunk, E0; reflexivity).
      assert (Hrm : skipn (N.to_nat lenChunk) rem = rem) by (rewrite E0; reflexivity).
      rewrite Hrm in HI3. rewrite Hw1, Hchk, app_nil_r.
      assert (Hms3 : (rmeasure s3 < rmeasure s)%nat).
      { unfold rmeasure at 1. unfold s3; cbn [r_cancel r_frames].
        destruct Hfr as [[Hcf Hff]|[Hcf Hrf]].
        - unfold rmeasure. rewrite Hcf. destruct (r_cancel s2) eqn:Ec2.
          + rewrite Hff, app_length. cbn [length]. lia.
          + destruct Hms as [X|X]; [congruence|]. rewrite Sf in X. exact X.
        - exfalso. rewrite Hrf in Hr'. symmetry in Hr'. apply app_eq_nil in Hr'. destruct Hr' as [Hr' _].
          rewrite Hr' in Hdl. cbn in Hdl. lia. }
      destruct (IH s3 want got total rem HI3 ltac:(lia) Hwt) as (s' & E & I').
      exists s'. split; [exact E|exact I'].
    + apply (Hrec ltac:(lia) s3 HI3).
      unfold rmeasure at 1. unfold s3; cbn [r_cancel r_frames].
      destruct (r_cancel s2) eqn:Ec2; [lia|].
      destruct Hms as [X|X]; [congruence|]. rewrite Sf in X. unfold rmeasure.
      destruct Hfr as [[Hcf _]|[Hcf Hrf]]; [rewrite Hcf; lia|].
      exfalso. rewrite Hrf in Hr'. symmetry in Hr'. apply app_eq_nil in Hr'. destruct Hr' as [Hr' _].
      rewrite Hr' in Hdl. cbn in Hdl. lia.
Qed.

(* ---------- whole life of a Reader on a valid stream ---------- *)
Fixpoint do_reads (s : rst) (ns : list N) : list (list N * rres) * rst :=
  match ns with
  | [] => ([], s)
  | n :: r =>
      match r_read B jobs hint 0 0 s n with
      | (s', bs, res) => let '(l, sf) := do_reads s' r in ((bs, res) :: l, sf)
      end
  end.

(* what a caller must observe: every Read is filled with the next bytes of the data, a Read of
   positive length issued when nothing is left returns end-of-stream, a Read of length 0 returns (0, nil) *)
Fixpoint spec_reads (data : list N) (ns : list N) : list (list N * rres) :=
  match ns with
  | [] => []
  | n :: r => (firstn (N.to_nat n) data, eof_result n n data) :: spec_reads (skipn (N.to_nat n) data) r
  end.

Lemma do_reads_spec : forall ns s rem, RInv s rem -> fst (do_reads s ns) = spec_reads rem ns.
Proof.
  induction ns as [|n r IH]; intros s rem HI; cbn [do_reads spec_reads]; [reflexivity|].
  unfold r_read. rewrite (ri_closed s rem HI), (ri_err s rem HI).
  destruct (read_loop_spec (S (N.to_nat n) + S (length (r_frames s)) * 2) s n [] n rem HI) as (s' & E & I').
  { unfold rmeasure. destruct (r_cancel s); lia. }
  { lia. }
  rewrite E. cbn [app]. specialize (IH s' _ I'). destruct (do_reads s' r) as [l sf]. cbn [fst] in *. rewrite IH. reflexivity.
Qed.

Theorem reader_valid_stream data ns :
  fst (do_reads (init_r (map FData (chunks B data) ++ [FEnd])) ns) = spec_reads data ns.
Proof. apply do_reads_spec, rinv_init. Qed.

End R.

(* Writer then Reader, at the level of the two state machines: whatever the Write partition, the
   job counts and hints on both sides and the Read lengths, the caller reads back the data *)
Theorem stream_roundtrip_model B (HB : 0 < B) jw hw jr hr (ws : list (list N)) (ns : list N) :
  0 < jw -> 0 < jr ->
  exists s1 s2, do_writes B jw hw (init_w jw) ws = (s1, true) /\
    w_close B jw hw (fun _ => false) s1 false false = (s2, false) /\
    fst (do_reads B jr hr (init_r (map FData (map snd (w_out s2)) ++ [FEnd])) ns) = spec_reads (concat ws) ns.
Proof.
  intros Hw Hr.
  destruct (writer_chunking B jw hw HB Hw ws) as (s1 & s2 & E1 & E2 & _ & O & _).
  exists s1, s2. split; [exact E1|]. split; [exact E2|]. rewrite O. apply reader_valid_stream; assumption.
Qed.

(* ---------- lifecycle facts (C17) ---------- *)
Lemma read_after_close B jobs hint from to s n : r_closed s = true -> r_read B jobs hint from to s n = (s, [], RErr).
Proof. intros H. unfold r_read. rewrite H. reflexivity. Qed.

Lemma read_after_error B jobs hint from to s n : r_closed s = false -> r_err s = true -> r_read B jobs hint from to s n = (s, [], RErr).
Proof. intros H1 H2. unfold r_read. rewrite H1, H2. reflexivity. Qed.

Lemma close_r_idempotent s : close_r (close_r s) = close_r s.
Proof. unfold close_r. destruct (r_closed s) eqn:E; [rewrite E; reflexivity|]. reflexivity. Qed.

Lemma write_after_close B jobs hint fails s blk : w_closed s = true -> w_write B jobs hint fails s blk = (s, 0, true).
Proof. intros H. unfold w_write. rewrite H. reflexivity. Qed.

Lemma close_after_close B jobs hint fails s mf ff : w_closed s = true -> w_close B jobs hint fails s mf ff = (s, false).
Proof. intros H. unfold w_close. rewrite H. reflexivity. Qed.

Lemma write_after_failure B jobs hint fails s blk : w_cancel s = true -> w_write B jobs hint fails s blk = (s, 0, true).
Proof. intros H. unfold w_write. rewrite H. destruct (w_closed s), (w_closing s); reflexivity. Qed.

(* once a block task failed, Close can never report success (C08) *)
Lemma close_after_failure B jobs hint fails s mf ff : w_closed s = false -> w_finalized s = false -> w_cancel s = true ->
  snd (w_close B jobs hint fails s mf ff) = true.
Proof.
  intros H1 H2 H3. unfold w_close. rewrite H1, H2. destruct (w_closing s); [reflexivity|].
  unfold process_block. cbn [w_cancel]. rewrite H3. reflexivity.
Qed.

Lemma spec_reads_concat : forall ns data,
  concat (map fst (spec_reads data ns)) = firstn (N.to_nat (fold_right N.add 0 ns)) data.
Proof.
  induction ns as [|n r IH]; intros data; cbn [spec_reads map concat fold_right fst]; [reflexivity|].
  rewrite IH. replace (N.to_nat (n + fold_right N.add 0 r)) with (N.to_nat n + N.to_nat (fold_right N.add 0%N r))%nat by lia.
  symmetry. apply firstn_add.
Qed.
