(* ZRLT (C13): for EVERY block of bytes, if Forward succeeds then its output is no longer than the
   block and Inverse, given a destination that can hold the block, returns the block exactly. *)
From Coq Require Import List NArith ZArith Lia Bool ZifyN ZifyNat ZifyBool.
From KV Require Import Model.ZRLT Lib.Bits Proofs.BinCoderProofs.
Import ListNotations.
Open Scope N_scope.

Ltac Zify.zify_post_hook ::= idtac.
Local Arguments N.pow : simpl never.
Local Arguments N.div : simpl never.
Local Arguments N.modulo : simpl never.
Local Arguments N.mul : simpl never.
Local Arguments N.sub : simpl never.
Local Arguments N.add : simpl never.
Local Arguments N.shiftr : simpl never.
Local Arguments N.land : simpl never.
Local Arguments N.log2 : simpl never.

(* ---------- the binary digits of a run length ---------- *)
Definition acc_bit (a b : N) : N := 2 * a + b.

Lemma bit_step n k : N.shiftr n (N.of_nat k) = 2 * N.shiftr n (N.of_nat (S k)) + N.land (N.shiftr n (N.of_nat k)) 1.
Proof.
  rewrite !N.shiftr_div_pow2. set (q := n / 2 ^ N.of_nat k).
  assert (E1 : N.land q 1 = q mod 2) by (change 1 with (N.ones 1); rewrite N.land_ones; reflexivity).
  assert (E2 : n / 2 ^ N.of_nat (S k) = q / 2).
  { unfold q. rewrite Nat2N.inj_succ, N.pow_succ_r', N.mul_comm. symmetry. apply N.div_div; [apply N.pow_nonzero; discriminate|discriminate]. }
  rewrite E1, E2. apply N.div_mod. discriminate.
Qed.

Lemma fold_run_bits n : forall k, fold_left acc_bit (run_bits n k) (N.shiftr n (N.of_nat k)) = n.
Proof.
  induction k as [|k IH]; unfold run_bits in *.
  - cbn [seq rev map fold_left N.of_nat]. apply N.shiftr_0_r.
  - rewrite seq_S. cbn [plus]. rewrite rev_app_distr. cbn [rev app map fold_left]. unfold acc_bit at 2.
    rewrite <- bit_step. exact IH.
Qed.

Lemma run_bits_small n k : Forall (fun b => b <= 1) (run_bits n k).
Proof.
  unfold run_bits. apply Forall_forall. intros b Hb. apply in_map_iff in Hb. destruct Hb as (j & <- & _).
  change 1 with (N.ones 1) at 1. rewrite N.land_ones. change (2 ^ 1) with 2.
  pose proof (N.mod_lt (N.shiftr n (N.of_nat j)) 2 ltac:(discriminate)). lia.
Qed.

Lemma run_bits_length n k : length (run_bits n k) = k.
Proof. unfold run_bits. rewrite map_length, rev_length, seq_length. reflexivity. Qed.

Lemma shiftr_log2 n : 1 <= n -> N.shiftr n (N.log2 n) = 1.
Proof.
  intros H. rewrite N.shiftr_div_pow2. destruct (N.log2_spec n ltac:(lia)) as [L1 L2].
  rewrite N.pow_succ_r' in L2. pose proof (pow2_pos (N.log2 n)) as Hp.
  symmetry. apply (N.div_unique n (2 ^ N.log2 n) 1 (n - 2 ^ N.log2 n)); lia.
Qed.

Definition starts_lit (l : list N) : Prop := l = [] \/ exists w r, l = w :: r /\ 2 <= w.

Lemma read_run_bits : forall bits rl rest, Forall (fun b => b <= 1) bits -> starts_lit rest ->
  read_run rl (bits ++ rest) = (fold_left acc_bit bits rl, rest).
Proof.
  induction bits as [|b t IH]; intros rl rest Hb Hr; cbn [app fold_left].
  - destruct Hr as [->|(w & r & -> & Hw)]; [reflexivity|]. cbn [read_run].
    replace (w <=? 1) with false by (symmetry; apply N.leb_gt; lia). reflexivity.
  - inversion Hb as [|? ? Hb1 Hbt]; subst. cbn [read_run]. replace (b <=? 1) with true by (symmetry; apply N.leb_le; exact Hb1).
    apply IH; assumption.
Qed.

(* ---------- runs of zeros ---------- *)
Lemma count_zeros_split : forall l, l = repeat 0 (count_zeros l) ++ skipn (count_zeros l) l /\
  (skipn (count_zeros l) l = [] \/ exists v r, skipn (count_zeros l) l = v :: r /\ v <> 0).
Proof.
  induction l as [|v t IH]; [split; [reflexivity|left; reflexivity]|].
  cbn [count_zeros]. destruct (v =? 0) eqn:E.
  - apply N.eqb_eq in E. subst v. cbn [repeat app skipn]. destruct IH as [I1 I2]. split; [f_equal; exact I1|exact I2].
  - apply N.eqb_neq in E. cbn [repeat app skipn]. split; [reflexivity|]. right. exists v, t. auto.
Qed.

Definition bytes256 (l : list N) : Prop := Forall (fun x => x < 256) l.

(* ---------- one iteration of Inverse on what one iteration of Forward emitted ---------- *)
Lemma zinv_literal f w t dcap D x : 2 <= w -> w <> 255 -> x = w - 1 ->
  (t <> [] -> N.of_nat (length D) + 1 < dcap) ->
  zinv_loop (S f) (w :: t) dcap D =
    match t with [] => Some (D ++ [x]) | _ => zinv_loop f t dcap (D ++ [x]) end.
Proof.
  intros Hw Hn -> Hc2. cbn [zinv_loop run_part]. replace (w <=? 1) with false by (symmetry; apply N.leb_gt; lia).
  cbn [lit_part]. replace (w =? 255) with false by (symmetry; apply N.eqb_neq; exact Hn).
  destruct t as [|y q]; [reflexivity|].
  replace (dcap <=? N.of_nat (length (D ++ [w - 1]))) with false; [reflexivity|].
  symmetry. apply N.leb_gt. rewrite app_length. cbn [length]. specialize (Hc2 ltac:(discriminate)). lia.
Qed.

Lemma zinv_escape f v t dcap D : 254 <= v < 256 ->
  (t <> [] -> N.of_nat (length D) + 1 < dcap) ->
  zinv_loop (S f) (255 :: (v - 254) :: t) dcap D =
    match t with [] => Some (D ++ [v]) | _ => zinv_loop f t dcap (D ++ [v]) end.
Proof.
  intros Hv Hc2. cbn [zinv_loop run_part]. change (255 <=? 1) with false. cbn [lit_part]. change (255 =? 255) with true. cbv iota.
  replace ((254 + (v - 254)) mod 256) with v by (symmetry; replace (254 + (v - 254)) with v by lia; apply N.mod_small; lia).
  destruct t as [|y q]; [reflexivity|].
  replace (dcap <=? N.of_nat (length (D ++ [v]))) with false; [reflexivity|].
  symmetry. apply N.leb_gt. rewrite app_length. cbn [length]. specialize (Hc2 ltac:(discriminate)). lia.
Qed.

(* a run, then the rest: the run is written and the iteration goes on with the regular symbol *)
Lemma zinv_run f run tl dcap D :
  let rl := N.of_nat run + 1 in
  let bits := run_bits rl (N.to_nat (N.log2 rl)) in
  (1 <= run)%nat -> starts_lit tl ->
  zinv_loop (S f) (bits ++ tl) dcap D =
    match tl with
    | [] => if dcap - N.of_nat (length D) <? N.of_nat run then None else Some (D ++ zeros (N.of_nat run))
    | _ => if dcap - N.of_nat (length D) <=? N.of_nat run then None
           else zinv_loop (S f) tl dcap (D ++ zeros (N.of_nat run))
    end.
Proof.
  intros rl bits Hrun Htl.
  assert (Hrl : 2 <= rl) by (unfold rl; lia).
  assert (Hlg : 1 <= N.log2 rl) by (apply N.log2_le_pow2; [lia|exact Hrl]).
  assert (Hbl : length bits = N.to_nat (N.log2 rl)) by apply run_bits_length.
  pose proof (run_bits_small rl (N.to_nat (N.log2 rl))) as Hsm. fold bits in Hsm.
  assert (Hfold : fold_left acc_bit bits 1 = rl).
  { rewrite <- (shiftr_log2 rl ltac:(lia)) at 1. rewrite <- (N2Nat.id (N.log2 rl)) at 1. apply fold_run_bits. }
  destruct bits as [|b0 bt] eqn:Eb; [cbn [length] in Hbl; lia|].
  inversion Hsm as [|? ? Hb0 Hbt]; subst.
  cbn [app zinv_loop]. unfold run_part. replace (b0 <=? 1) with true by (symmetry; apply N.leb_le; exact Hb0).
  change (b0 :: bt ++ tl) with ((b0 :: bt) ++ tl). rewrite (read_run_bits (b0 :: bt) 1 tl Hsm Htl), Hfold.
  replace (rl - 1) with (N.of_nat run) by (unfold rl; lia).
  replace (0 <? rl) with true by (symmetry; apply N.ltb_lt; lia).
  destruct Htl as [->|(w & r & -> & Hw)]; [destruct (dcap - N.of_nat (length D) <? N.of_nat run); reflexivity|].
  destruct (dcap - N.of_nat (length D) <=? N.of_nat run); [reflexivity|].
  (* the regular symbol: the same continuation as an iteration that starts on it *)
  cbn [zinv_loop]. unfold run_part. replace (w <=? 1) with false by (symmetry; apply N.leb_gt; lia). reflexivity.
Qed.

(* ---------- the theorem ---------- *)
Lemma zfwd_inv : forall fuel src dst_end acc res, zfwd_loop fuel src dst_end acc = Some res -> bytes256 src ->
  exists tl, res = acc ++ tl /\ (src = [] -> tl = []) /\
    (forall v t, src = v :: t -> tl <> [] /\ (v <> 0 -> exists w r, tl = w :: r /\ 2 <= w)) /\
    forall dcap D f2, (length tl < f2)%nat -> N.of_nat (length D) + N.of_nat (length src) <= dcap -> src <> [] ->
      zinv_loop f2 tl dcap D = Some (D ++ src).
Proof.
  induction fuel as [|f IH]; intros src dst_end acc res H Hb; [discriminate|].
  cbn [zfwd_loop] in H. destruct src as [|v t].
  { inversion H; subst. exists []. rewrite app_nil_r. split; [reflexivity|]. split; [reflexivity|]. split; [intros; discriminate|intros; congruence]. }
  inversion Hb as [|? ? Hv Hbt]; subst.
  destruct (v =? 0) eqn:Ev.
  - (* a run of zeros *)
    apply N.eqb_eq in Ev. subst v.
    set (src := 0 :: t) in *. set (run := count_zeros src) in *.
    assert (Hrun : (1 <= run)%nat) by (unfold run, src; cbn [count_zeros N.eqb]; lia).
    destruct (count_zeros_split src) as [Hsp Hrest]. fold run in Hsp, Hrest.
    set (rest := skipn run src) in *. set (rl := N.of_nat run + 1) in *.
    destruct (dst_end - N.log2 rl <=? N.of_nat (length acc)); [discriminate|].
    assert (Hbr : bytes256 rest) by (unfold rest; apply bytes_ok_skipn; exact Hb).
    destruct (IH rest dst_end _ res H Hbr) as (tl' & Er & Hnil & Hhd & Hdec).
    set (bits := run_bits rl (N.to_nat (N.log2 rl))) in *.
    assert (Hrl : 2 <= rl) by (unfold rl; lia).
    assert (Hlg : 1 <= N.log2 rl) by (apply N.log2_le_pow2; [lia|exact Hrl]).
    assert (Hbits : bits <> []).
    { intros E. apply (f_equal (@length N)) in E. unfold bits in E. rewrite run_bits_length in E. cbn in E. lia. }
    assert (Hst : starts_lit tl').
    { destruct Hrest as [Hr|(v & r & Hr & Hv0)]; [left; apply Hnil; exact Hr|]. right. destruct (Hhd v r Hr) as [_ Hw]. exact (Hw Hv0). }
    exists (bits ++ tl'). split; [rewrite Er, app_assoc; reflexivity|]. split; [intros; discriminate|]. split.
    { intros v0 t0 Hs0. split; [destruct bits; [congruence|discriminate]|]. intros Hv0. exfalso. apply Hv0. unfold src in Hs0. injection Hs0 as <- _. reflexivity. }
    intros dcap D f2 Hf2 Hcap _. destruct f2 as [|f2]; [lia|].
    pose proof (zinv_run f2 run tl' dcap D Hrun Hst) as Hz. cbv zeta in Hz. fold rl bits in Hz. rewrite Hz.
    assert (Hlen : length src = (run + length rest)%nat).
    { rewrite Hsp at 1. rewrite app_length, repeat_length. reflexivity. }
    destruct Hrest as [Hr|(v & r & Hr & Hv0)].
    + (* the run ends the block *)
      rewrite (Hnil Hr). rewrite Hr in Hlen. cbn [length] in Hlen.
      replace (dcap - N.of_nat (length D) <? N.of_nat run) with false by (symmetry; apply N.ltb_ge; lia).
      f_equal. f_equal. rewrite Hsp at 1. fold rest. rewrite Hr, app_nil_r. unfold zeros. rewrite Nat2N.id. reflexivity.
    + destruct (Hhd v r Hr) as [Hne _]. destruct tl' as [|w0 r0]; [congruence|].
      assert (Hrl1 : (1 <= length rest)%nat) by (rewrite Hr; cbn [length]; lia).
      replace (dcap - N.of_nat (length D) <=? N.of_nat run) with false by (symmetry; apply N.leb_gt; lia).
      rewrite (Hdec dcap (D ++ zeros (N.of_nat run)) (S f2)).
      * f_equal. rewrite <- app_assoc. f_equal. rewrite Hsp at 1. fold rest. unfold zeros. rewrite Nat2N.id. reflexivity.
      * rewrite app_length in Hf2. lia.
      * rewrite app_length. unfold zeros. rewrite repeat_length, Nat2N.id. lia.
      * rewrite Hr. discriminate.
  - apply N.eqb_neq in Ev. destruct (254 <=? v) eqn:E254.
    + (* 0xFE / 0xFF *)
      apply N.leb_le in E254. destruct (dst_end - 1 <=? N.of_nat (length acc)); [discriminate|].
      destruct (IH t dst_end _ res H Hbt) as (tl' & Er & Hnil & Hhd & Hdec).
      exists (255 :: (v - 254) :: tl'). split; [rewrite Er, <- app_assoc; reflexivity|]. split; [intros; discriminate|]. split.
      { intros v0 t0 _. split; [discriminate|]. intros _. exists 255, ((v - 254) :: tl'). split; [reflexivity|lia]. }
      intros dcap D f2 Hf2 Hcap _. destruct f2 as [|f2]; [lia|]. cbn [length] in Hcap, Hf2.
      rewrite (zinv_escape f2 v tl' dcap D ltac:(lia)).
      2:{ intros Hne. destruct t as [|y q]; [exfalso; apply Hne; apply Hnil; reflexivity|]. cbn [length] in Hcap. lia. }
      destruct t as [|y q].
      * rewrite (Hnil eq_refl). reflexivity.
      * destruct (Hhd y q eq_refl) as [Hne _]. destruct tl' as [|w0 r0]; [congruence|].
        rewrite (Hdec dcap (D ++ [v]) f2); [rewrite <- app_assoc; reflexivity|lia| |discriminate].
        rewrite app_length. cbn [length] in *. lia.
    + (* any other byte *)
      apply N.leb_gt in E254. destruct (dst_end <=? N.of_nat (length acc)); [discriminate|].
      destruct (IH t dst_end _ res H Hbt) as (tl' & Er & Hnil & Hhd & Hdec).
      exists ((v + 1) :: tl'). split; [rewrite Er, <- app_assoc; reflexivity|]. split; [intros; discriminate|]. split.
      { intros v0 t0 _. split; [discriminate|]. intros _. exists (v + 1), tl'. split; [reflexivity|lia]. }
      intros dcap D f2 Hf2 Hcap _. destruct f2 as [|f2]; [lia|]. cbn [length] in Hcap, Hf2.
      rewrite (zinv_literal f2 (v + 1) tl' dcap D v ltac:(lia) ltac:(lia) ltac:(lia)).
      2:{ intros Hne. destruct t as [|y q]; [exfalso; apply Hne; apply Hnil; reflexivity|]. cbn [length] in Hcap. lia. }
      destruct t as [|y q].
      * rewrite (Hnil eq_refl). reflexivity.
      * destruct (Hhd y q eq_refl) as [Hne _]. destruct tl' as [|w0 r0]; [congruence|].
        rewrite (Hdec dcap (D ++ [v]) f2); [rewrite <- app_assoc; reflexivity|lia| |discriminate].
        rewrite app_length. cbn [length] in *. lia.
Qed.

Lemma zfwd_bound : forall fuel src de acc res, zfwd_loop fuel src de acc = Some res ->
  N.of_nat (length acc) <= de -> N.of_nat (length res) <= de.
Proof.
  induction fuel as [|f IH]; intros src de acc res H Ha; [discriminate|].
  cbn [zfwd_loop] in H. destruct src as [|v t]; [inversion H; subst; exact Ha|].
  destruct (v =? 0).
  - destruct (de - N.log2 (N.of_nat (count_zeros (v :: t)) + 1) <=? N.of_nat (length acc)) eqn:E; [discriminate|].
    apply N.leb_gt in E. apply (IH _ _ _ _ H). rewrite app_length, run_bits_length. lia.
  - destruct (254 <=? v).
    + destruct (de - 1 <=? N.of_nat (length acc)) eqn:E; [discriminate|]. apply N.leb_gt in E.
      apply (IH _ _ _ _ H). rewrite app_length. cbn [length]. lia.
    + destruct (de <=? N.of_nat (length acc)) eqn:E; [discriminate|]. apply N.leb_gt in E.
      apply (IH _ _ _ _ H). rewrite app_length. cbn [length]. lia.
Qed.

Theorem zrlt_roundtrip src dcap enc : bytes256 src -> src <> [] -> 0 < dcap -> zfwd src dcap = Some enc ->
  (length enc <= length src)%nat /\ enc <> [] /\
  forall dcap2, N.of_nat (length src) <= dcap2 -> zinv enc dcap2 = Some src.
Proof.
  intros Hb Hne Hd H. unfold zfwd in H. destruct src as [|v t] eqn:Es; [congruence|]. rewrite <- Es in *.
  replace (dcap =? 0) with false in H by (symmetry; apply N.eqb_neq; lia).
  destruct (dcap <? N.of_nat (length src)); [discriminate|].
  pose proof (zfwd_bound _ _ _ _ _ H ltac:(cbn; lia)) as Hlen.
  destruct (zfwd_inv _ _ _ _ _ H Hb) as (tl & Er & _ & Hhd & Hdec). cbn [app] in Er. subst tl.
  destruct (Hhd v t Es) as [Hen _].
  split; [lia|]. split; [exact Hen|]. intros dcap2 Hc2. unfold zinv.
  destruct enc as [|e0 er] eqn:Ee; [congruence|]. rewrite <- Ee in *.
  assert (Hl1 : (1 <= length src)%nat) by (rewrite Es; cbn [length]; lia).
  replace (dcap2 =? 0) with false by (symmetry; apply N.eqb_neq; lia).
  rewrite (Hdec dcap2 [] (S (length enc)) ltac:(lia) ltac:(cbn [length]; lia) Hne). reflexivity.
Qed.

(* ZRLT as a stage of a transform sequence (Model/Seq.v): it keeps the stage contract *)
From KV Require Import Model.Seq Proofs.SeqProofs.

Definition zrlt_stage : tr :=
  mkT (fun x cap => match x with
                    | [] => None
                    | _ => if (cap =? 0)%nat || negb (forallb (fun b => b <? 256) x) then None else zfwd x (N.of_nat cap)
                    end)
      (fun y cap => zinv y (N.of_nat cap))
      (fun n => n).

Theorem zrlt_stage_good : good zrlt_stage.
Proof.
  constructor; cbn [zrlt_stage t_fwd t_inv t_max].
  - intros x cap y H. destruct x as [|v t] eqn:Ex; [discriminate|]. rewrite <- Ex in *.
    destruct ((cap =? 0)%nat || negb (forallb (fun b => b <? 256) x)) eqn:E; [discriminate|].
    apply orb_false_iff in E. destruct E as [E1 E2]. apply Nat.eqb_neq in E1. apply negb_false_iff in E2.
    assert (Hb : bytes256 x).
    { apply Forall_forall. intros b Hbin. rewrite forallb_forall in E2. apply N.ltb_lt. apply E2. exact Hbin. }
    destruct (zrlt_roundtrip x (N.of_nat cap) y Hb ltac:(rewrite Ex; discriminate) ltac:(lia) H) as (L & Hn & _).
    split; [exact L|]. intros _. exact Hn.
  - intros x cap y H cap' Hc. destruct x as [|v t] eqn:Ex; [discriminate|]. rewrite <- Ex in *.
    destruct ((cap =? 0)%nat || negb (forallb (fun b => b <? 256) x)) eqn:E; [discriminate|].
    apply orb_false_iff in E. destruct E as [E1 E2]. apply Nat.eqb_neq in E1. apply negb_false_iff in E2.
    assert (Hb : bytes256 x).
    { apply Forall_forall. intros b Hbin. rewrite forallb_forall in E2. apply N.ltb_lt. apply E2. exact Hbin. }
    destruct (zrlt_roundtrip x (N.of_nat cap) y Hb ltac:(rewrite Ex; discriminate) ltac:(lia) H) as (_ & _ & Hi).
    apply Hi. lia.
  - intros a b H. exact H.
Qed.
