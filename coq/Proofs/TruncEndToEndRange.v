(* C09 from the bytes of a stream with RANGE-coded blocks to the caller's Read calls: the stream the Writer model
   produces, cut anywhere before its end, is either refused at the header or read as a prefix of the data, then an
   error that stays - never end of stream.  Block sizes up to 128 MiB (Proofs/RangeSizeProofs.v). *)
From Coq Require Import List NArith ZArith Lia Bool ZifyN ZifyNat ZifyBool.
From KV Require Import Model.OutBS Model.InBS Model.Header Model.Container Model.ContainerG Model.Writer Model.Reader
  Proofs.BinCoderProofs Proofs.HeaderProofs Proofs.WriterProofs Proofs.ReaderProofs Proofs.ReaderGen Proofs.ContainerProofs Proofs.EndToEnd
  Proofs.TruncProofs Proofs.TruncEndToEnd Proofs.ContainerGProofs Proofs.TruncGProofs.
Import ListNotations.
Open Scope N_scope.
Ltac Zify.zify_post_hook ::= idtac.

Theorem truncated_end_to_end_range (hash : list N -> N) (evalid tvalid : N -> bool) c jr hr (data : list N) (ns : list N) nframes rbuf sched (k : nat) :
  cfg_ok evalid tvalid c -> h_etype c = RANGE_TYPE -> h_bsize c <= 134217728 ->
  (h_ck c = 1 -> forall l, hash l < 2 ^ 32) -> (h_ck c = 2 -> forall l, hash l < 2 ^ 64) ->
  bytes_ok data -> (length data < nframes)%nat -> 0 < jr -> 0 < rbuf -> rbuf mod 8 = 0 ->
  let B := h_bsize c in
  let stream := write_stream_e hash c (chunks B data) in
  (k < length stream)%nat ->
  parse_stream_e hash evalid tvalid nframes rbuf sched (firstn k stream) = None \/
  exists frames, parse_stream_e hash evalid tvalid nframes rbuf sched (firstn k stream) = Some (norm_cfg c, frames) /\
    let out := fst (do_reads_g B jr hr 0 0 (init_r (map frame_of frames)) ns) in
    ~ In REOF (map snd out) /\
    (exists m, concat (map fst out) = firstn m (range_bytes B 0 0 data)) /\
    (forall l1 x l2, out = l1 ++ x :: l2 -> snd x = RErr -> Forall (fun y => y = ([], RErr)) l2).
Proof.
  intros Hc Het Hbs H32 H64 Hd Hnf Hjr Hr Hr8 B stream Hk.
  assert (HB : 0 < B) by (destruct (bs_ok _ _ _ Hc) as [[X _] _]; unfold MIN_BLOCK in X; unfold B; lia).
  destruct (chunks_f_ok B HB (length data) data Hd) as [Hok Hlen]. fold (chunks B data) in Hok, Hlen.
  set (blocks := chunks B data) in *.
  assert (Hbl : Forall (blk_ok B) blocks).
  { eapply Forall_impl; [|exact Hok]. intros x (X1 & X2 & X3). unfold blk_ok. repeat split; try assumption. unfold B in X2. lia. }
  destruct (range_stream_truncated hash evalid tvalid c blocks nframes rbuf sched k Hc Het Hbs H32 H64 Hbl ltac:(lia) Hr Hr8 Hk) as [E|(j & Hj & E)]; [left; exact E|].
  right. eexists. split; [exact E|]. cbv zeta.
  rewrite map_app, map_map. cbn [map frame_of].
  change (map (fun x : list N => frame_of (PData x)) (firstn j blocks)) with (map FData (firstn j blocks)).
  rewrite <- firstn_map.
  assert (Hcl : clean B 0 0 0 (firstn j (map FData blocks))).
  { rewrite firstn_map. apply clean_all_data. apply Forall_forall. intros x Hx. apply in_firstn in Hx.
    rewrite Forall_forall in Hok. destruct (Hok x Hx) as (X1 & X2 & _). split; [destruct x; [congruence|cbn [length]; lia]|lia]. }
  destruct (reader_breaks B jr hr 0 0 HB Hjr data (map FData blocks) j [FFail] ns (dmg_all_ok blocks) Hcl) as (k0 & _ & Hrd).
  { right. exists []. split; [reflexivity|]. reflexivity. }
  change (map (fun x : list N => FData x) blocks) with (map FData blocks). rewrite Hrd. split; [apply (spec_reads_g_never_eof B jr HB Hjr)|]. split.
  - destruct (spec_reads_g_prefix B jr HB Hjr ns (range_bytes B 0 0 (firstn (k0 * N.to_nat B) data)) true) as [m1 H1].
    destruct (range_bytes_prefix B jr 0 0 HB Hjr data (k0 * N.to_nat B)) as [m2 H2].
    rewrite H1, H2, firstn_firstn. eexists. reflexivity.
  - intros l1 x l2. apply spec_reads_g_sticky.
Qed.
