(* Writer buffering: whatever the partition of the data into Write calls, the job count and
   the size hint, the blocks handed to the encoding tasks are the consecutive chunks of
   blockSize bytes of the data, each exactly once, in order (C01, C04, C06, C17). *)
From Coq Require Import List NArith ZArith Bool Lia ZifyN ZifyNat.
From KV Require Import Model.Writer.
Import ListNotations.
Open Scope N_scope.

(* ---------- chunks ---------- *)
Lemma chunks_f_any B : 0 < B -> forall f g l, (length l <= f)%nat -> (length l <= g)%nat ->
  chunks_f f B l = chunks_f g B l.
Proof.
  intros HB. induction f as [|f IH]; intros g l Hf Hg.
  - destruct l; [destruct g; reflexivity|simpl in Hf; lia].
  - destruct l as [|x t]; [destruct g; reflexivity|].
    destruct g as [|g]; [simpl in Hg; lia|].
    cbn [chunks_f]. f_equal.
    assert (Hs : (length (skipn (N.to_nat B) (x :: t)) <= length t)%nat).
    { rewrite skipn_length. cbn [length]. lia. }
    apply IH; cbn [length] in Hf, Hg; lia.
Qed.

Lemma chunks_f_enough B : 0 < B -> forall f l, (length l <= f)%nat -> chunks_f f B l = chunks_f (length l) B l.
Proof. intros HB f l H. apply chunks_f_any; auto. Qed.

Lemma chunks_nil B : chunks B [] = [].
Proof. reflexivity. Qed.

Lemma chunks_cons B a b : 0 < B -> length a = N.to_nat B -> chunks B (a ++ b) = a :: chunks B b.
Proof.
  intros HB Ha. unfold chunks. destruct a as [|x a']; [simpl in Ha; lia|].
  change ((x :: a') ++ b) with (x :: (a' ++ b)). cbn [length chunks_f].
  change (x :: a' ++ b) with ((x :: a') ++ b).
  rewrite firstn_app, skipn_app, Ha, Nat.sub_diag, firstn_all2, skipn_all2 by lia.
  cbn [firstn skipn]. rewrite app_nil_r, app_nil_l. f_equal.
  apply chunks_f_enough; [exact HB|]. rewrite app_length. lia.
Qed.

Lemma chunks_last B a : 0 < B -> a <> [] -> (length a <= N.to_nat B)%nat -> chunks B a = [a].
Proof.
  intros HB Hne Hl. unfold chunks. destruct a as [|x a']; [congruence|].
  cbn [length chunks_f]. rewrite firstn_all2, skipn_all2 by (cbn [length] in Hl |- *; lia).
  destruct (length a'); reflexivity.
Qed.

Lemma skipn_S_tail {A} (l : list A) : forall t x r, skipn t l = x :: r -> skipn (S t) l = r.
Proof.
  induction l as [|y q IH]; intros [|t] x r H; cbn in *; try discriminate.
  - inversion H; reflexivity.
  - apply (IH t x r H).
Qed.

Lemma map_seq_shift {A} : forall m (f : nat -> A) a, map f (seq a m) = map (fun i => f (a + i)%nat) (seq 0 m).
Proof.
  induction m as [|m IH]; intros f a; [reflexivity|].
  cbn [seq map]. rewrite Nat.add_0_r. f_equal.
  rewrite (IH f (S a)), (IH (fun i => f (a + i)%nat) 1%nat). apply map_ext. intros i. f_equal. lia.
Qed.

(* ---------- pending data held in the slots ---------- *)
Section W.
Variables (B jobs hint : N).
Hypothesis HB : 0 < B.
Hypothesis HJ : 0 < jobs.

Notation nofail := (fun _ : N => false).
Notation b := (N.to_nat B).

Fixpoint pend (slots : list (list N)) (avail : N) : list N :=
  match slots with
  | [] => []
  | sl :: t => if avail <=? B then firstn (N.to_nat avail) sl
               else firstn b sl ++ pend t (avail - B)
  end.

Fixpoint slots_ok (slots : list (list N)) (avail : N) : Prop :=
  match slots with
  | [] => avail = 0
  | sl :: t => if avail <=? B then (N.to_nat avail <= length sl)%nat
               else (b <= length sl)%nat /\ slots_ok t (avail - B)
  end.

Lemma overwrite_prefix dst off src : (N.to_nat off <= length dst)%nat ->
  firstn (N.to_nat off + length src) (overwrite dst off src) = firstn (N.to_nat off) dst ++ src /\
  (N.to_nat off + length src <= length (overwrite dst off src))%nat.
Proof.
  intros H. unfold overwrite.
  assert (E : firstn (N.to_nat off) (dst ++ repeat 0 (N.to_nat off)) = firstn (N.to_nat off) dst).
  { rewrite firstn_app. replace (N.to_nat off - length dst)%nat with O by lia. cbn [firstn]. apply app_nil_r. }
  rewrite E.
  assert (L : length (firstn (N.to_nat off) dst) = N.to_nat off) by (rewrite firstn_length; lia).
  split.
  - rewrite app_assoc. rewrite firstn_app.
    rewrite app_length, L. rewrite Nat.sub_diag. cbn [firstn]. rewrite app_nil_r.
    apply firstn_all2. rewrite app_length, L. lia.
  - rewrite !app_length, L. lia.
Qed.

(* copying a chunk at the write position extends the pending data by that chunk *)
Lemma copy_step : forall (k : nat) slots off chunk,
  off < B -> N.of_nat (length chunk) <= B - off -> (k < length slots)%nat ->
  slots_ok slots (N.of_nat k * B + off) ->
  let slots' := set_nth slots k (overwrite (nth k slots []) off chunk) in
  pend slots' (N.of_nat k * B + off + N.of_nat (length chunk)) = pend slots (N.of_nat k * B + off) ++ chunk /\
  slots_ok slots' (N.of_nat k * B + off + N.of_nat (length chunk)) /\ length slots' = length slots.
Proof.
  induction k as [|k IH]; intros slots off chunk Hoff Hlen Hk Hok.
  - destruct slots as [|sl t]; [simpl in Hk; lia|].
    cbn [N.of_nat N.mul N.add set_nth nth pend slots_ok length] in *.
    replace (0 * B + off) with off in * by lia.
    replace (off <=? B) with true in * by (symmetry; apply N.leb_le; lia).
    replace (off + N.of_nat (length chunk) <=? B) with true by (symmetry; apply N.leb_le; lia).
    destruct (overwrite_prefix sl off chunk Hok) as [E L].
    replace (N.to_nat (off + N.of_nat (length chunk))) with (N.to_nat off + length chunk)%nat by lia.
    repeat split; auto.
  - destruct slots as [|sl t]; [simpl in Hk; lia|].
    set (a := N.of_nat (S k) * B + off) in *.
    assert (Ea : a = B + (N.of_nat k * B + off)) by (unfold a; lia).
    cbn [set_nth nth pend slots_ok length] in *.
    assert (Hgt : (a <=? B) = false \/ (a = B /\ k = O /\ off = 0)).
    { destruct (N.leb_spec a B) as [Hle|Hg]; [right|left; reflexivity]. nia. }
    destruct Hgt as [Hgt|(HaB & Hk0 & Ho0)].
    + rewrite Hgt in Hok. destruct Hok as [Hsl Hok'].
      replace (a - B) with (N.of_nat k * B + off) in * by lia.
      destruct (IH t off chunk Hoff Hlen ltac:(simpl in Hk; lia) Hok') as (P & O & Lg).
      rewrite Hgt.
      replace (a + N.of_nat (length chunk) <=? B) with false by (symmetry; apply N.leb_gt; apply N.leb_gt in Hgt; lia).
      replace (a + N.of_nat (length chunk) - B) with (N.of_nat k * B + off + N.of_nat (length chunk)) by lia.
      rewrite P, app_assoc. repeat split; auto; try lia.
    + (* the slot below is exactly full and the write goes to the next one at offset 0 *)
      subst k off. rewrite HaB in *. replace (B <=? B) with true in * by (symmetry; apply N.leb_le; lia).
      destruct t as [|s2 t2]; [simpl in Hk; lia|].
      cbn [set_nth nth].
      destruct (N.eq_dec (N.of_nat (length chunk)) 0) as [Hc0|Hc0].
      * assert (chunk = []) by (destruct chunk; [reflexivity|simpl in Hc0; lia]). subst chunk.
        cbn [length N.of_nat]. replace (B + 0) with B by lia.
        replace (B <=? B) with true by (symmetry; apply N.leb_le; lia).
        rewrite app_nil_r. repeat split; auto.
      * replace (B + N.of_nat (length chunk) <=? B) with false by (symmetry; apply N.leb_gt; lia).
        replace (B + N.of_nat (length chunk) - B) with (N.of_nat (length chunk)) by lia.
        cbn [pend slots_ok].
        replace (N.of_nat (length chunk) <=? B) with true by (symmetry; apply N.leb_le; lia).
        destruct (overwrite_prefix s2 0 chunk ltac:(cbn; lia)) as [E L].
        cbn [N.to_nat plus firstn] in E, L. rewrite app_nil_l in E.
        replace (N.to_nat (N.of_nat (length chunk))) with (length chunk) by lia.
        rewrite E. repeat split; auto; cbn [length]; lia.
Qed.

(* ---------- a batch of tasks emits the chunks of the pending data ---------- *)
Definition wflags (s s' : wst) : Prop :=
  w_header s' = w_header s /\ w_closing s' = w_closing s /\ w_finalized s' = w_finalized s /\ w_closed s' = w_closed s.

Lemma run_tasks_spec : forall (n : nat) (t : nat) (s : wst),
  w_cancel s = false ->
  slots_ok (skipn t (w_slots s)) (w_avail s) ->
  (N.to_nat ((w_avail s + B - 1) / B) <= n)%nat ->
  exists s', run_tasks B nofail n t s = (s', false) /\
    w_cancel s' = false /\ w_avail s' = 0 /\ w_slots s' = w_slots s /\ wflags s s' /\
    map snd (w_out s') = map snd (w_out s) ++ chunks B (pend (skipn t (w_slots s)) (w_avail s)) /\
    w_blockid s' = w_blockid s + N.of_nat (length (chunks B (pend (skipn t (w_slots s)) (w_avail s)))) /\
    map fst (w_out s') = map fst (w_out s) ++
      map (fun i => w_blockid s + 1 + N.of_nat i) (seq 0 (length (chunks B (pend (skipn t (w_slots s)) (w_avail s))))).
Proof.
  induction n as [|n IH]; intros t s Hc Hok Hn.
  - (* no task allowed: there must be nothing to encode *)
    assert (Ha : w_avail s = 0).
    { destruct (N.eq_dec (w_avail s) 0); [assumption|].
      assert (1 <= (w_avail s + B - 1) / B) by (apply N.div_le_lower_bound; lia). lia. }
    exists s. cbn [run_tasks]. rewrite Ha.
    assert (Hp : pend (skipn t (w_slots s)) 0 = []).
    { destruct (skipn t (w_slots s)); cbn [pend]; [reflexivity|].
      replace (0 <=? B) with true by (symmetry; apply N.leb_le; lia). reflexivity. }
    rewrite Hp, chunks_nil. cbn [length seq map N.of_nat]. rewrite !app_nil_r.
    repeat split; auto. lia.
  - cbn [run_tasks]. set (len := N.min (w_avail s) B).
    destruct (len =? 0) eqn:El.
    + apply N.eqb_eq in El. assert (Ha : w_avail s = 0) by (unfold len in El; lia).
      exists s. rewrite Ha.
      assert (Hp : pend (skipn t (w_slots s)) 0 = []).
      { destruct (skipn t (w_slots s)); cbn [pend]; [reflexivity|].
        replace (0 <=? B) with true by (symmetry; apply N.leb_le; lia). reflexivity. }
      rewrite Hp, chunks_nil. cbn [length seq map N.of_nat]. rewrite !app_nil_r.
      repeat split; auto. lia.
    + apply N.eqb_neq in El. rewrite Hc.
      set (data := firstn (N.to_nat len) (nth t (w_slots s) [])).
      set (s1 := mkW (w_slots s) (w_avail s - len) (w_blockid s + 1) false
                     (w_out s ++ [(w_blockid s + 1, data)]) (w_header s) (w_closing s) (w_finalized s) (w_closed s)).
      destruct (skipn t (w_slots s)) as [|sl rest] eqn:Esk.
      { cbn [slots_ok] in Hok. unfold len in El. lia. }
      assert (Hnth : nth t (w_slots s) [] = sl).
      { rewrite <- (firstn_skipn t (w_slots s)), Esk.
        assert (Hlt : (t < length (w_slots s))%nat).
        { destruct (Nat.lt_ge_cases t (length (w_slots s))); [assumption|]. rewrite skipn_all2 in Esk by lia. discriminate. }
        rewrite app_nth2; rewrite firstn_length; [|lia].
        replace (t - Nat.min t (length (w_slots s)))%nat with O by lia. reflexivity. }
      assert (Hrest : skipn (S t) (w_slots s) = rest).
      { apply (skipn_S_tail _ t sl rest Esk). }
      cbn [pend slots_ok] in Hok |- *.
      destruct (N.leb_spec (w_avail s) B) as [Hle|Hgt].
      * (* last block of the batch (possibly partial) *)
        assert (Hlen : len = w_avail s) by (unfold len; lia).
        assert (Hd : data = firstn (N.to_nat (w_avail s)) sl) by (unfold data; rewrite Hnth, Hlen; reflexivity).
        assert (Hs1 : w_avail s1 = 0) by (unfold s1; cbn; lia).
        destruct (IH (S t) s1 eq_refl) as (s' & E & C & A & Sl & F & O & Bid & Ids).
        { unfold s1; cbn [w_slots w_avail]. rewrite Hrest. replace (w_avail s - len) with 0 by lia.
          destruct rest; cbn [slots_ok]; [reflexivity|]. replace (0 <=? B) with true by (symmetry; apply N.leb_le; lia). lia. }
        { unfold s1; cbn [w_avail]. replace (w_avail s - len) with 0 by lia.
          replace ((0 + B - 1) / B) with 0 by (symmetry; apply N.div_small; lia). lia. }
        exists s'. split; [exact E|].
        assert (Hp0 : pend (skipn (S t) (w_slots s1)) (w_avail s1) = []).
        { rewrite Hs1. destruct (skipn (S t) (w_slots s1)); cbn [pend]; [reflexivity|].
          replace (0 <=? B) with true by (symmetry; apply N.leb_le; lia). reflexivity. }
        rewrite Hp0, chunks_nil in O, Bid, Ids. cbn [length seq map N.of_nat] in Bid, Ids. rewrite app_nil_r in O, Ids.
        assert (Hne : firstn (N.to_nat (w_avail s)) sl <> []).
        { intros Hnil. apply (f_equal (@length N)) in Hnil. rewrite firstn_length in Hnil. cbn in Hnil. lia. }
        rewrite (chunks_last B _ HB Hne) by (rewrite firstn_length; lia).
        cbn [length seq map N.of_nat].
        repeat split; auto; try (destruct F as (F1 & F2 & F3 & F4); unfold s1 in *; cbn in *; auto; fail).
        -- rewrite O. unfold s1; cbn [w_out]. rewrite map_app. cbn [map snd]. rewrite Hd. reflexivity.
        -- rewrite Bid. unfold s1; cbn [w_blockid]. lia.
        -- rewrite Ids. unfold s1; cbn [w_out w_blockid]. rewrite map_app. cbn [map fst]. f_equal. f_equal. lia.
      * destruct Hok as [Hsl Hok'].
        assert (Hlen : len = B) by (unfold len; lia).
        assert (Hd : data = firstn b sl) by (unfold data; rewrite Hnth, Hlen; reflexivity).
        destruct (IH (S t) s1 eq_refl) as (s' & E & C & A & Sl & F & O & Bid & Ids).
        { unfold s1; cbn [w_slots w_avail]. rewrite Hrest, Hlen. exact Hok'. }
        { unfold s1; cbn [w_avail]. rewrite Hlen.
          assert (Hq : (w_avail s + B - 1) / B = (w_avail s - B + B - 1) / B + 1).
          { replace (w_avail s + B - 1) with ((w_avail s - B + B - 1) + 1 * B) by lia.
            rewrite N.div_add by lia. reflexivity. }
          rewrite Hq in Hn. lia. }
        exists s'. split; [exact E|].
        unfold s1 in O, Bid, Ids, Sl, F; cbn [w_slots w_avail w_out w_blockid w_header w_closing w_finalized w_closed] in O, Bid, Ids, Sl, F.
        rewrite Hrest, Hlen in O, Bid, Ids.
        assert (Hfl : length (firstn b sl) = b) by (rewrite firstn_length; lia).
        rewrite (chunks_cons B _ _ HB Hfl).
        cbn [length seq map].
        repeat split; auto; try (destruct F as (F1 & F2 & F3 & F4); auto; fail).
        -- rewrite O, map_app. cbn [map snd]. rewrite Hd, <- app_assoc. reflexivity.
        -- rewrite Bid. lia.
        -- rewrite Ids, map_app. cbn [map fst]. rewrite <- app_assoc. cbn [app]. f_equal. f_equal.
           ++ cbn [N.of_nat]; lia.
           ++ rewrite <- seq_shift, map_map. apply map_ext. intros i. lia.
Qed.

(* ---------- auxiliary facts ---------- *)
Lemma pend_length : forall slots avail, slots_ok slots avail -> length (pend slots avail) = N.to_nat avail.
Proof.
  induction slots as [|sl t IH]; intros avail H; cbn [pend slots_ok] in *.
  - subst. reflexivity.
  - destruct (avail <=? B) eqn:E.
    + rewrite firstn_length. lia.
    + apply N.leb_gt in E. destruct H as [H1 H2]. rewrite app_length, firstn_length, (IH _ H2). lia.
Qed.

Lemma slots_ok_zero slots : slots_ok slots 0.
Proof. destruct slots; cbn [slots_ok]; [reflexivity|]. replace (0 <=? B) with true by (symmetry; apply N.leb_le; lia). cbn; lia. Qed.

Lemma pend_zero slots : pend slots 0 = [].
Proof. destruct slots; cbn [pend]; [reflexivity|]. replace (0 <=? B) with true by (symmetry; apply N.leb_le; lia). reflexivity. Qed.

Lemma chunks_blocks (blocks : list (list N)) rest :
  Forall (fun x => length x = b) blocks -> chunks B (concat blocks ++ rest) = blocks ++ chunks B rest.
Proof.
  induction 1 as [|x q Hx Hq IH]; cbn [concat app]; [reflexivity|].
  rewrite <- app_assoc, (chunks_cons B x _ HB Hx), IH. reflexivity.
Qed.

(* chunks of a list: all of length b except possibly the last; concatenation gives the list back *)
Lemma chunks_spec : forall n l, (length l <= n)%nat ->
  concat (chunks B l) = l /\
  (N.of_nat (length l) mod B = 0 -> Forall (fun x => length x = b) (chunks B l)).
Proof.
  induction n as [|n IH]; intros l Hl.
  - destruct l; [|simpl in Hl; lia]. split; [reflexivity|]. intros _. constructor.
  - destruct l as [|x t]; [split; [reflexivity|intros _; constructor]|].
    destruct (Nat.le_gt_cases (length (x :: t)) b) as [Hle|Hgt].
    + rewrite (chunks_last B (x :: t) HB ltac:(discriminate) Hle). cbn [concat]. rewrite app_nil_r.
      split; [reflexivity|]. intros Hm. constructor; [|constructor].
      assert (N.of_nat (length (x :: t)) <= B) by lia.
      destruct (N.eq_dec (N.of_nat (length (x :: t))) B) as [E|E]; [lia|].
      rewrite N.mod_small in Hm by lia. cbn [length] in Hm. lia.
    + rewrite <- (firstn_skipn b (x :: t)).
      assert (Hf : length (firstn b (x :: t)) = b) by (rewrite firstn_length; lia).
      rewrite (chunks_cons B _ _ HB Hf).
      destruct (IH (skipn b (x :: t))) as [C F].
      { rewrite skipn_length. cbn [length] in *. lia. }
      split.
      * cbn [concat]. rewrite C. reflexivity.
      * intros Hm. constructor; [exact Hf|]. apply F.
        rewrite app_length, Hf in Hm.
        set (m := length (skipn b (x :: t))) in *.
        assert (E : N.of_nat (b + m) = N.of_nat m + 1 * B) by lia.
        rewrite E, N.mod_add in Hm by lia. exact Hm.
Qed.

(* ---------- Write ---------- *)
Record WInv (s : wst) (D : list N) : Prop := {
  wi_cancel : w_cancel s = false;
  wi_closed : w_closed s = false;
  wi_closing : w_closing s = false;
  wi_final : w_finalized s = false;
  wi_nslots : length (w_slots s) = N.to_nat jobs;
  wi_avail : w_avail s < jobs * B;
  wi_ok : slots_ok (w_slots s) (w_avail s);
  wi_data : concat (map snd (w_out s)) ++ pend (w_slots s) (w_avail s) = D;
  wi_full : Forall (fun x => length x = b) (map snd (w_out s));
  wi_ids : map fst (w_out s) = map (fun i => 1 + N.of_nat i) (seq 0 (length (w_out s)));
  wi_bid : w_blockid s = N.of_nat (length (w_out s))
}.

Lemma winv_init : WInv (init_w jobs) [].
Proof.
  constructor; cbn; auto; try lia.
  - apply repeat_length.
  - apply slots_ok_zero.
  - apply pend_zero.
Qed.

(* processBlock when every slot is full, or at Close: all pending data is emitted *)
Lemma process_block_spec s D : WInv s D \/ (w_avail s = jobs * B /\ WInv (mkW (w_slots s) 0 (w_blockid s) (w_cancel s) (w_out s) (w_header s) (w_closing s) (w_finalized s) (w_closed s)) (firstn (length D - N.to_nat (w_avail s)) D) /\
     slots_ok (w_slots s) (w_avail s) /\ concat (map snd (w_out s)) ++ pend (w_slots s) (w_avail s) = D) -> True.
Proof. trivial. Qed.

Lemma process_block_emit s : w_cancel s = false -> length (w_slots s) = N.to_nat jobs ->
  w_avail s <= jobs * B -> slots_ok (w_slots s) (w_avail s) ->
  exists s', process_block B jobs hint nofail s = (s', false) /\
    w_cancel s' = false /\ w_avail s' = 0 /\ w_slots s' = w_slots s /\
    w_closing s' = w_closing s /\ w_finalized s' = w_finalized s /\ w_closed s' = w_closed s /\
    map snd (w_out s') = map snd (w_out s) ++ chunks B (pend (w_slots s) (w_avail s)) /\
    w_blockid s' = w_blockid s + N.of_nat (length (chunks B (pend (w_slots s) (w_avail s)))) /\
    map fst (w_out s') = map fst (w_out s) ++
      map (fun i => w_blockid s + 1 + N.of_nat i) (seq 0 (length (chunks B (pend (w_slots s) (w_avail s))))).
Proof.
  intros Hc Hn Ha Hok. unfold process_block. rewrite Hc.
  set (s0 := mkW (w_slots s) (w_avail s) (w_blockid s) false (w_out s) true (w_closing s) (w_finalized s) (w_closed s)).
  destruct (w_avail s0 =? 0) eqn:E0.
  - apply N.eqb_eq in E0. cbn [w_avail s0] in E0. exists s0. rewrite E0, pend_zero, chunks_nil.
    cbn [length seq map N.of_nat]. rewrite !app_nil_r. unfold s0; cbn. repeat split; auto. lia.
  - set (nbBlocks := (w_avail s0 + B - 1) / B).
    set (nbTasks := if (1 <? jobs) && (0 <? hint) then N.min jobs (N.max hint nbBlocks) else jobs).
    assert (Hnb : nbBlocks <= jobs).
    { assert (nbBlocks < jobs + 1); [|lia]. unfold nbBlocks, s0; cbn [w_avail]. apply N.div_lt_upper_bound; [lia|nia]. }
    assert (Hge : nbBlocks <= nbTasks).
    { unfold nbTasks. destruct ((1 <? jobs) && (0 <? hint)); lia. }
    destruct (run_tasks_spec (N.to_nat nbTasks) O s0 eq_refl) as (s' & E & C & A & Sl & F & O & Bid & Ids).
    { cbn [skipn w_slots w_avail s0]. exact Hok. }
    { unfold nbBlocks in Hge. lia. }
    rewrite E. exists s'. rewrite C. cbn [skipn] in O, Bid, Ids.
    destruct F as (F1 & F2 & F3 & F4). unfold s0 in *; cbn in *.
    repeat split; auto.
Qed.

Lemma write_loop_spec : forall fuel s block D done,
  (length block < fuel)%nat -> WInv s D ->
  exists s', write_loop B jobs hint nofail fuel s block done = (s', done + N.of_nat (length block), false) /\
             WInv s' (D ++ block).
Proof.
  induction fuel as [|f IH]; intros s block D done Hf HI; [lia|].
  cbn [write_loop]. destruct block as [|x blk].
  - exists s. cbn [length N.of_nat]. rewrite N.add_0_r, app_nil_r. split; [reflexivity|exact HI].
  - set (block := x :: blk) in *.
    destruct HI as [Hc Hcl Hcg Hfi Hns Hav Hok Hd Hfu Hid Hbid].
    set (bufOff := w_avail s mod B). set (lenChunk := N.min (N.of_nat (length block)) (B - bufOff)).
    set (k := N.to_nat (w_avail s / B)).
    pose proof (N.div_mod (w_avail s) B ltac:(lia)) as Hdm.
    pose proof (N.mod_lt (w_avail s) B ltac:(lia)) as Hml. fold bufOff in Hml.
    assert (Hk : w_avail s = N.of_nat k * B + bufOff) by (unfold k, bufOff; lia).
    assert (Hkj : N.of_nat k < jobs).
    { unfold k. rewrite N2Nat.id. apply N.div_lt_upper_bound; lia. }
    assert (Hlc : 1 <= lenChunk /\ lenChunk <= B - bufOff /\ lenChunk <= N.of_nat (length block)).
    { unfold lenChunk, block. cbn [length]. lia. }
    set (chunk := firstn (N.to_nat lenChunk) block). set (rest := skipn (N.to_nat lenChunk) block).
    assert (Hcl2 : N.of_nat (length chunk) = lenChunk).
    { unfold chunk. rewrite firstn_length. lia. }
    assert (Hbr : block = chunk ++ rest) by (unfold chunk, rest; symmetry; apply firstn_skipn).
    assert (Hrl : (length rest < f)%nat).
    { unfold rest. rewrite skipn_length. cbn [length] in Hf. fold block in Hf. lia. }
    rewrite Hk in Hok.
    destruct (copy_step k (w_slots s) bufOff chunk Hml ltac:(lia) ltac:(lia) Hok) as (P & O & Lg).
    rewrite <- Hk in P, O. rewrite Hcl2 in P, O.
    set (slots' := set_nth (w_slots s) k (overwrite (nth k (w_slots s) []) bufOff chunk)) in *.
    set (s1 := mkW slots' (w_avail s + lenChunk) (w_blockid s) (w_cancel s) (w_out s) (w_header s) (w_closing s) (w_finalized s) (w_closed s)).
    assert (Hdone : done + lenChunk + N.of_nat (length rest) = done + N.of_nat (length block)).
    { assert (Hl2 : length block = (length chunk + length rest)%nat) by (rewrite <- app_length, <- Hbr; reflexivity). lia. }
    assert (HD : (D ++ chunk) ++ rest = D ++ block) by (rewrite <- app_assoc, <- Hbr; reflexivity).
    assert (Hbase : w_avail s + lenChunk < jobs * B -> WInv s1 (D ++ chunk)).
    { intros Hlt. constructor; unfold s1; cbn; auto; try lia.
      rewrite P, app_assoc, Hd. reflexivity. }
    destruct (B <=? bufOff + lenChunk) eqn:Efull.
    + apply N.leb_le in Efull. assert (Hfull : bufOff + lenChunk = B) by lia.
      destruct (N.of_nat k + 1 <? jobs) eqn:Enext.
      * apply N.ltb_lt in Enext.
        destruct (IH s1 rest (D ++ chunk) (done + lenChunk) Hrl (Hbase ltac:(nia))) as (s' & E & I').
        exists s'. fold chunk rest slots' s1. rewrite E, Hdone, <- HD. auto.
      * apply N.ltb_ge in Enext. assert (Hkl : N.of_nat k + 1 = jobs) by lia.
        assert (Hav1 : w_avail s1 = jobs * B) by (unfold s1; cbn [w_avail]; nia).
        destruct (process_block_emit s1 Hc ltac:(unfold s1; cbn [w_slots]; lia) ltac:(lia) O)
          as (s2 & E2 & C2 & A2 & S2 & G1 & G2 & G3 & O2 & B2 & I2).
        fold chunk rest slots' s1. rewrite E2.
        pose proof (pend_length _ _ O) as Hpl.
        destruct (chunks_spec (length (pend (w_slots s1) (w_avail s1))) _ (le_n _)) as [Cc Cf].
        assert (Hmod : N.of_nat (length (pend (w_slots s1) (w_avail s1))) mod B = 0).
        { unfold s1 at 1 2; cbn [w_slots w_avail]. fold (w_avail s1). rewrite Hpl. unfold s1; cbn [w_avail].
          replace (N.of_nat (N.to_nat (w_avail s + lenChunk))) with (jobs * B) by (unfold s1 in Hav1; cbn in Hav1; lia).
          apply N.mod_mul. lia. }
        specialize (Cf Hmod).
        assert (I2' : WInv s2 (D ++ chunk)).
        { constructor; auto.
          - rewrite G3. exact Hcl.
          - rewrite G1. exact Hcg.
          - rewrite G2. exact Hfi.
          - rewrite S2. unfold s1; cbn [w_slots]. lia.
          - rewrite A2. nia.
          - rewrite A2. apply slots_ok_zero.
          - rewrite A2, pend_zero, app_nil_r, O2, concat_app, Cc.
            unfold s1 at 1; cbn [w_out]. unfold s1; cbn [w_slots w_avail]. rewrite P, app_assoc, Hd. reflexivity.
          - rewrite O2. apply Forall_app. split; [exact Hfu|exact Cf].
          - assert (Hlen2 : length (w_out s2) = (length (w_out s) + length (chunks B (pend (w_slots s1) (w_avail s1))))%nat).
            { rewrite <- (map_length snd (w_out s2)), O2, app_length, map_length. reflexivity. }
            rewrite I2, Hlen2, seq_app, map_app. change (w_out s1) with (w_out s). rewrite Hid. f_equal.
            cbn [plus]. rewrite (map_seq_shift _ (fun i => 1 + N.of_nat i)). apply map_ext. intros i.
            change (w_blockid s1) with (w_blockid s). rewrite Hbid. lia.
          - rewrite B2. unfold s1 at 1; cbn [w_blockid]. rewrite Hbid.
            rewrite <- (map_length snd (w_out s2)), O2, app_length, map_length. change (w_out s1) with (w_out s). lia. }
        destruct (IH s2 rest (D ++ chunk) (done + lenChunk) Hrl I2') as (s' & E & I').
        exists s'. rewrite E, Hdone, <- HD. auto.
    + apply N.leb_gt in Efull.
      destruct (IH s1 rest (D ++ chunk) (done + lenChunk) Hrl (Hbase ltac:(nia))) as (s' & E & I').
      exists s'. fold chunk rest slots' s1. rewrite E, Hdone, <- HD. auto.
Qed.

(* ---------- whole life of a Writer ---------- *)
Fixpoint do_writes (s : wst) (ws : list (list N)) : wst * bool :=
  match ws with
  | [] => (s, true)
  | w :: r =>
      match w_write B jobs hint nofail s w with
      | (s', n, err) => if err || negb (n =? N.of_nat (length w)) then (s', false) else do_writes s' r
      end
  end.

Lemma do_writes_spec : forall ws s D, WInv s D ->
  exists s', do_writes s ws = (s', true) /\ WInv s' (D ++ concat ws).
Proof.
  induction ws as [|w r IH]; intros s D HI; cbn [do_writes concat].
  - exists s. rewrite app_nil_r. auto.
  - unfold w_write. destruct HI as [Hc Hcl Hcg Hfi Hns Hav Hok Hd Hfu Hid Hbid] eqn:EI.
    rewrite Hcl, Hcg, Hc. cbn [orb].
    destruct (write_loop_spec (S (length w)) s w D 0 ltac:(lia) HI) as (s' & E & I').
    rewrite E. replace (0 + N.of_nat (length w) =? N.of_nat (length w)) with true by (symmetry; apply N.eqb_eq; lia).
    cbn [orb negb]. destruct (IH s' (D ++ w) I') as (s'' & E' & I'').
    exists s''. rewrite app_assoc. auto.
Qed.

(* For EVERY partition of the data into Write calls (empty writes included), every job count,
   every value of the size hint: all Writes return their full length, Close succeeds, and the
   blocks handed to the encoding tasks are the consecutive chunks of blockSize bytes of the data,
   with ids 1, 2, 3, ... — each byte encoded exactly once, in order. *)
Theorem writer_chunking (ws : list (list N)) :
  exists s1 s2, do_writes (init_w jobs) ws = (s1, true) /\
    w_close B jobs hint nofail s1 false false = (s2, false) /\
    w_closed s2 = true /\
    map snd (w_out s2) = chunks B (concat ws) /\
    map fst (w_out s2) = map (fun i => 1 + N.of_nat i) (seq 0 (length (w_out s2))).
Proof.
  destruct (do_writes_spec ws (init_w jobs) [] winv_init) as (s1 & E1 & I1). cbn [app] in I1.
  exists s1. destruct I1 as [Hc Hcl Hcg Hfi Hns Hav Hok Hd Hfu Hid Hbid].
  unfold w_close. rewrite Hcl, Hfi, Hcg.
  set (s0 := mkW (w_slots s1) (w_avail s1) (w_blockid s1) (w_cancel s1) (w_out s1) (w_header s1) true false false).
  destruct (process_block_emit s0 Hc Hns ltac:(unfold s0; cbn [w_avail]; lia) Hok)
    as (s2 & E2 & C2 & A2 & S2 & G1 & G2 & G3 & O2 & B2 & I2).
  rewrite E2. cbn [orb].
  eexists. split; [exact E1|]. split; [reflexivity|]. cbn [w_closed w_out]. split; [reflexivity|].
  unfold s0 in O2, I2, B2; cbn [w_slots w_avail w_out w_blockid] in O2, I2, B2.
  split.
  - rewrite O2, <- Hd. symmetry. apply chunks_blocks. exact Hfu.
  - assert (Hlen2 : length (w_out s2) = (length (w_out s1) + length (chunks B (pend (w_slots s1) (w_avail s1))))%nat).
    { rewrite <- (map_length snd (w_out s2)), O2, app_length, map_length. reflexivity. }
    rewrite I2, Hlen2, seq_app, map_app, Hid. f_equal.
    cbn [plus]. rewrite (map_seq_shift _ (fun i => 1 + N.of_nat i)). apply map_ext. intros i. rewrite Hbid. lia.
Qed.

End W.

(* the emitted blocks depend on the data only: not on the partition, the jobs, the hint *)
Corollary writer_canonical B (HB : 0 < B) jobs1 jobs2 hint1 hint2 ws1 ws2 :
  0 < jobs1 -> 0 < jobs2 -> concat ws1 = concat ws2 ->
  exists a1 a2 b1 b2,
    do_writes B jobs1 hint1 (init_w jobs1) ws1 = (a1, true) /\ w_close B jobs1 hint1 (fun _ => false) a1 false false = (a2, false) /\
    do_writes B jobs2 hint2 (init_w jobs2) ws2 = (b1, true) /\ w_close B jobs2 hint2 (fun _ => false) b1 false false = (b2, false) /\
    map snd (w_out a2) = map snd (w_out b2).
Proof.
  intros H1 H2 Hc.
  destruct (writer_chunking B jobs1 hint1 HB H1 ws1) as (a1 & a2 & E1 & E2 & _ & O1 & _).
  destruct (writer_chunking B jobs2 hint2 HB H2 ws2) as (b1 & b2 & F1 & F2 & _ & O2 & _).
  exists a1, a2, b1, b2. repeat split; auto. rewrite O1, O2, Hc. reflexivity.
Qed.
