(* The full mirror (C14): every program over WriteBit / WriteBits / WriteArray, closed, read back from
   the sink's bytes with ReadBit / ReadBits / ReadArray of the same sizes - through any chunk schedule
   of the source and any buffer sizes (multiples of 8) - gives back what was written. *)
From Coq Require Import List NArith ZArith Lia Bool ZifyN ZifyNat ZifyBool.
From KV Require Import Model.OutBS Model.InBS Lib.Bits Proofs.OutBSProofs Proofs.BinCoderProofs Proofs.InBSProofs
  Proofs.MirrorProofs Proofs.ArrayProofs Proofs.ReadArrayProofs.
Import ListNotations.
Open Scope N_scope.

Ltac Zify.zify_post_hook ::= idtac.
Local Arguments N.pow : simpl never.
Local Arguments N.div : simpl never.
Local Arguments N.modulo : simpl never.
Local Arguments N.mul : simpl never.
Local Arguments N.sub : simpl never.
Local Arguments N.add : simpl never.

(* ---------- the sink receives bytes, array paths included ---------- *)
Lemma wbw_obok stop : forall bits s rem s' e b r, obok s -> write_bytes_while healthy stop s bits rem = (s', e, b, r) -> obok s'.
Proof.
  induction bits as [|x t IH]; intros s rem s' e b r Hs H; cbn [write_bytes_while] in H; [inversion H; subst; exact Hs|].
  destruct ((stop && (o_avail s =? 64)) || (rem <? 8)); [inversion H; subst; exact Hs|].
  destruct (write_bits healthy s x 8) as [s1 [|]] eqn:E.
  - inversion H; subst. apply (run_wop_obok s (WBits x 8) s' true Hs E).
  - eapply IH; [|exact H]. apply (run_wop_obok s (WBits x 8) s1 false Hs E).
Qed.

Lemma set_buf_obok s chunk : obok s -> bytes_ok chunk -> obok (set_buf s (o_buf s ++ chunk)).
Proof. intros [H1 H2] Hc. split; cbn [set_buf o_out o_buf]; [exact H1|apply Forall_app; split; assumption]. Qed.

Lemma bulk_copy_obok : forall fuel s bits rem s' e b r, obok s -> bytes_ok bits -> bulk_copy healthy fuel s bits rem = (s', e, b, r) -> obok s'.
Proof.
  induction fuel as [|f IH]; intros s bits rem s' e b r Hs Hb H; cbn [bulk_copy] in H; [inversion H; subst; exact Hs|].
  destruct (o_size s - 8 - o_pos s <=? N.shiftr rem 3); [|inversion H; subst; exact Hs].
  match type of H with context [flush healthy ?a] => destruct (flush healthy a) as [s2 [|]] eqn:E end.
  - inversion H; subst. eapply flush_obok; [|exact E]. apply set_buf_obok; [exact Hs|apply bytes_ok_firstn; exact Hb].
  - eapply IH; [| |exact H]; [eapply flush_obok; [|exact E]; apply set_buf_obok; [exact Hs|apply bytes_ok_firstn; exact Hb]|apply bytes_ok_skipn; exact Hb].
Qed.

Lemma be8_ok v : bytes_ok (be8 v).
Proof. apply be_bytes_ok. Qed.

Lemma loop64_obok : forall fuel a s bits rem s' e b r, obok s -> loop64 healthy fuel a s bits rem = (s', e, b, r) -> obok s'.
Proof.
  induction fuel as [|f IH]; intros a s bits rem s' e b r Hs H; cbn [loop64] in H; [inversion H; subst; exact Hs|].
  destruct (64 <=? rem); [|inversion H; subst; exact Hs].
  match type of H with context [push healthy ?x ?y] => destruct (push healthy x y) as [s1 [|]] eqn:E end.
  - inversion H; subst. eapply push_obok; [|exact E]. exact Hs.
  - eapply IH; [|exact H]. apply set_acc_obok. eapply push_obok; [|exact E]. exact Hs.
Qed.

Lemma loop256_obok : forall fuel a s bits rem s' e b r, obok s -> loop256 healthy fuel a s bits rem = (s', e, b, r) -> obok s'.
Proof.
  induction fuel as [|f IH]; intros a s bits rem s' e b r Hs H; cbn [loop256] in H; [inversion H; subst; exact Hs|].
  destruct (256 <=? rem); [|inversion H; subst; exact Hs].
  match type of H with context [if ?c then flush healthy ?x else (?y, false)] => destruct (if c then flush healthy x else (y, false)) as [s1 [|]] eqn:E end.
  - inversion H; subst.
    match type of E with (if ?c then _ else _) = _ => destruct c end; [eapply flush_obok; [|exact E]; apply set_acc_obok; exact Hs|discriminate].
  - eapply IH; [|exact H]. apply set_acc_obok.
    assert (Hs1 : obok s1).
    { match type of E with (if ?c then _ else _) = _ => destruct c end; [eapply flush_obok; [|exact E]; apply set_acc_obok; exact Hs|inversion E; subst; apply set_acc_obok; exact Hs]. }
    apply set_buf_obok; [exact Hs1|]. apply Forall_app; split; [apply be8_ok|]. apply Forall_app; split; [apply be8_ok|]. apply Forall_app; split; apply be8_ok.
Qed.

Lemma wbw_bits_ok stop : forall bits s rem s' e b r, bytes_ok bits -> write_bytes_while healthy stop s bits rem = (s', e, b, r) -> bytes_ok b.
Proof.
  induction bits as [|x t IH]; intros s rem s' e b r Hb H; cbn [write_bytes_while] in H; [inversion H; subst; exact Hb|].
  destruct ((stop && (o_avail s =? 64)) || (rem <? 8)); [inversion H; subst; exact Hb|].
  inversion Hb; subst. destruct (write_bits healthy s x 8) as [s1 [|]]; [inversion H; subst; assumption|]. eapply IH; eauto.
Qed.

Lemma bulk_bits_ok : forall fuel s bits rem s' e b r, bytes_ok bits -> bulk_copy healthy fuel s bits rem = (s', e, b, r) -> bytes_ok b.
Proof.
  induction fuel as [|f IH]; intros s bits rem s' e b r Hb H; cbn [bulk_copy] in H; [inversion H; subst; exact Hb|].
  destruct (o_size s - 8 - o_pos s <=? N.shiftr rem 3); [|inversion H; subst; exact Hb].
  match type of H with context [flush healthy ?a] => destruct (flush healthy a) as [s2 [|]] end.
  - inversion H; subst. apply bytes_ok_skipn. exact Hb.
  - eapply IH; [|exact H]. apply bytes_ok_skipn. exact Hb.
Qed.

Lemma loop256_bits_ok : forall fuel a s bits rem s' e b r, bytes_ok bits -> loop256 healthy fuel a s bits rem = (s', e, b, r) -> bytes_ok b.
Proof.
  induction fuel as [|f IH]; intros a s bits rem s' e b r Hb H; cbn [loop256] in H; [inversion H; subst; exact Hb|].
  destruct (256 <=? rem); [|inversion H; subst; exact Hb].
  match type of H with context [if ?c then flush healthy ?x else (?y, false)] => destruct (if c then flush healthy x else (y, false)) as [s1 [|]] end.
  - inversion H; subst. exact Hb.
  - eapply IH; [|exact H]. apply bytes_ok_skipn. exact Hb.
Qed.

Lemma loop64_bits_ok : forall fuel a s bits rem s' e b r, bytes_ok bits -> loop64 healthy fuel a s bits rem = (s', e, b, r) -> bytes_ok b.
Proof.
  induction fuel as [|f IH]; intros a s bits rem s' e b r Hb H; cbn [loop64] in H; [inversion H; subst; exact Hb|].
  destruct (64 <=? rem); [|inversion H; subst; exact Hb].
  match type of H with context [push healthy ?x ?y] => destruct (push healthy x y) as [s1 [|]] end.
  - inversion H; subst. exact Hb.
  - eapply IH; [|exact H]. apply bytes_ok_skipn. exact Hb.
Qed.

Lemma tail_obok s1 bits1 rem1 s' e : obok s1 ->
  (match write_bytes_while healthy false s1 bits1 rem1 with
   | (s2, true, _, _) => (s2, true)
   | (s2, false, bits2, rem2) => if 0 <? rem2 then write_bits healthy s2 (N.shiftr (hd 0 bits2) (8 - rem2)) rem2 else (s2, false)
   end) = (s', e) -> obok s'.
Proof.
  intros Hs1. destruct (write_bytes_while healthy false s1 bits1 rem1) as [[[s2 p2] bits2] rem2] eqn:E2.
  assert (Hs2 : obok s2) by (eapply wbw_obok; [|exact E2]; exact Hs1).
  destruct p2; [intros H; inversion H; subst; exact Hs2|].
  destruct (0 <? rem2); [|intros H; inversion H; subst; exact Hs2].
  intros H. apply (run_wop_obok s2 (WBits (N.shiftr (hd 0 bits2) (8 - rem2)) rem2) s' e Hs2 H).
Qed.

Lemma write_array_obok s bits count s' e : obok s -> bytes_ok bits -> write_array healthy s bits count = (s', e) -> obok s'.
Proof.
  intros Hs Hb. unfold write_array. destruct (o_closed s); [intros H; inversion H; subst; exact Hs|].
  destruct (8 * N.of_nat (length bits) <? count); [intros H; inversion H; subst; exact Hs|].
  destruct (N.land (o_avail s) 7 =? 0).
  - destruct (write_bytes_while healthy true s bits count) as [[[sa pa] ba] ra] eqn:Ea.
    assert (Hsa : obok sa) by (eapply wbw_obok; [|exact Ea]; exact Hs).
    assert (Hba : bytes_ok ba) by (eapply wbw_bits_ok; [|exact Ea]; exact Hb).
    destruct pa; [intros H; inversion H; subst; exact Hsa|].
    destruct (bulk_copy healthy (S (length bits)) sa ba ra) as [[[sb pb] bb] rb] eqn:Eb.
    assert (Hsb : obok sb) by (eapply bulk_copy_obok; [| |exact Eb]; assumption).
    assert (Hbb : bytes_ok bb) by (eapply bulk_bits_ok; [|exact Eb]; exact Hba).
    destruct pb; [intros H; inversion H; subst; exact Hsb|].
    destruct (0 <? 8 * N.shiftr rb 6).
    + apply tail_obok. apply set_buf_obok; [exact Hsb|apply bytes_ok_firstn; exact Hbb].
    + apply tail_obok. exact Hsb.
  - destruct (64 <=? count); [|apply tail_obok; exact Hs].
    destruct (loop256 healthy (S (length bits)) (o_avail s) s bits count) as [[[sa pa] ba] ra] eqn:Ea.
    assert (Hsa : obok sa) by (eapply loop256_obok; [|exact Ea]; exact Hs).
    assert (Hba : bytes_ok ba) by (eapply loop256_bits_ok; [|exact Ea]; exact Hb).
    destruct pa; [intros H; inversion H; subst; exact Hsa|].
    destruct (loop64 healthy (S (length bits)) (o_avail s) sa ba ra) as [[[sb pb] bb] rb] eqn:Eb.
    assert (Hsb : obok sb) by (eapply loop64_obok; [|exact Eb]; exact Hsa).
    destruct pb; [intros H; inversion H; subst; exact Hsb|].
    apply tail_obok. apply set_acc_obok. exact Hsb.
Qed.

Lemma run_aops_obok : forall ops s s' e, obok s -> Forall aop_ok ops -> run_aops s ops = (s', e) -> obok s'.
Proof.
  induction ops as [|o t IH]; intros s s' e Hs Hok H; cbn [run_aops] in H; [inversion H; subst; exact Hs|].
  inversion Hok as [|? ? Ho Ht]; subst.
  assert (Hstep : forall s1 e1, run_aop s o = (s1, e1) -> obok s1).
  { intros s1 e1 E. destruct o as [w|bits count]; cbn [run_aop aop_ok] in *; [eapply run_wop_obok; eauto|].
    eapply write_array_obok; [exact Hs|apply Ho|exact E]. }
  destruct (run_aop s o) as [s1 [|]] eqn:E; [inversion H; subst; eapply Hstep; eauto|].
  eapply IH; [|exact Ht|exact H]. eapply Hstep; eauto.
Qed.

(* ---------- the written vector, from the right ---------- *)
Definition aop_val (o : aop) : N := match o with AOp w => op_val w | AArr bits c => topbits bits c end.
Definition aop_size (o : aop) : N := match o with AOp w => op_size w | AArr _ c => c end.

Lemma abv_app_eq acc o : abv_app acc o = (fst acc * 2 ^ aop_size o + aop_val o, snd acc + aop_size o).
Proof. destruct o as [w|bits c]; cbn [abv_app aop_size aop_val]; [apply bv_app_eq|reflexivity]. Qed.

Lemma topbits_lt bits c : bytes_ok bits -> c <= 8 * N.of_nat (length bits) -> topbits bits c < 2 ^ c.
Proof.
  intros Hb Hc. unfold topbits. apply N.div_lt_upper_bound; [apply N.pow_nonzero; discriminate|]. rewrite <- N.pow_add_r.
  replace (8 * N.of_nat (length bits) - c + c) with (8 * N.of_nat (length bits)) by lia. apply be_val_lt. exact Hb.
Qed.

Lemma aop_val_lt o : aop_ok o -> aop_val o < 2 ^ aop_size o.
Proof. destruct o as [w|bits c]; cbn [aop_ok aop_val aop_size]; [intros _; apply op_val_lt|intros [Hb [_ Hc]]; apply topbits_lt; assumption]. Qed.

Fixpoint abvs (ops : list aop) : N * N :=
  match ops with
  | [] => (0, 0)
  | o :: t => (aop_val o * 2 ^ snd (abvs t) + fst (abvs t), aop_size o + snd (abvs t))
  end.

Lemma abvs_lt ops : Forall aop_ok ops -> fst (abvs ops) < 2 ^ snd (abvs ops).
Proof.
  induction 1 as [|o t Ho Ht IH]; cbn [abvs fst snd]; [change (2 ^ 0) with 1; lia|].
  pose proof (aop_val_lt o Ho) as Hv. rewrite N.pow_add_r. pose proof (pow2_pos (snd (abvs t))). nia.
Qed.

Lemma fold_abvs : forall ops V0 L0,
  fold_left abv_app ops (V0, L0) = (V0 * 2 ^ snd (abvs ops) + fst (abvs ops), L0 + snd (abvs ops)).
Proof.
  induction ops as [|o t IH]; intros V0 L0; cbn [fold_left abvs fst snd].
  - change (2 ^ 0) with 1. f_equal; lia.
  - rewrite abv_app_eq. cbn [fst snd]. rewrite IH. rewrite N.pow_add_r. f_equal; lia.
Qed.

(* the reads that mirror a write program, and what they must return *)
Definition arops_of (ops : list aop) : list arop :=
  flat_map (fun o => match o with
                     | AOp (WBit _) => [ARop RBit]
                     | AOp (WBits _ c) => if c =? 0 then [] else [ARop (RBits c)]
                     | AArr _ c => [ARArr c]
                     end) ops.
Definition avals_of (ops : list aop) : list (option aval) :=
  flat_map (fun o => match o with
                     | AOp (WBit b) => [Some (AVal (b mod 2))]
                     | AOp (WBits v c) => if c =? 0 then [] else [Some (AVal (v mod 2 ^ c))]
                     | AArr bits c => [Some (ABytes (bytes_of (topbits bits c) c c))]
                     end) ops.

Lemma arops_ok ops : Forall aop_ok ops -> Forall arop_ok (arops_of ops) /\ sizes (arops_of ops) = snd (abvs ops).
Proof.
  induction 1 as [|o t Ho Ht [IH1 IH2]]; [split; [constructor|reflexivity]|].
  unfold arops_of. cbn [flat_map abvs snd]. fold (arops_of t).
  destruct o as [[b|v c]|bits c]; cbn [aop_ok wop_ok aop_size op_size] in *.
  - cbn [app sizes arop_size rop_size]. split; [constructor; [exact I|exact IH1]|rewrite IH2; reflexivity].
  - destruct (c =? 0) eqn:E.
    + apply N.eqb_eq in E. subst c. cbn [app]. split; [exact IH1|rewrite IH2; lia].
    + apply N.eqb_neq in E. cbn [app sizes arop_size rop_size]. split; [constructor; [cbn [arop_ok rop_ok]; lia|exact IH1]|rewrite IH2; reflexivity].
  - cbn [app sizes arop_size]. split; [constructor; [cbn [arop_ok]; lia|exact IH1]|rewrite IH2; reflexivity].
Qed.

Lemma spec_on_abvs : forall ops P p, Forall aop_ok ops -> p < 2 ^ P ->
  spec_arops (fst (abvs ops) * 2 ^ P + p) (snd (abvs ops) + P) (arops_of ops) = avals_of ops.
Proof.
  induction ops as [|o t IH]; intros P p Hok Hp; [reflexivity|].
  inversion Hok as [|? ? Ho Ht]; subst.
  unfold arops_of, avals_of. cbn [flat_map abvs fst snd]. fold (arops_of t). fold (avals_of t).
  pose proof (abvs_lt t Ht) as Hlt.
  destruct o as [[b|v c]|bits c]; cbn [aop_val aop_size op_val op_size aop_ok wop_ok] in *.
  - cbn [app spec_arops arop_size rop_size].
    destruct (spec_step (b mod 2) 1 (fst (abvs t)) (snd (abvs t)) P p ltac:(lia) ltac:(change (2 ^ 1) with 2; apply N.mod_lt; discriminate) Hlt Hp) as (_ & S2 & S3 & S4).
    cbv zeta in S2, S3, S4. rewrite S2, S3, S4. f_equal. apply IH; assumption.
  - destruct (c =? 0) eqn:E.
    + apply N.eqb_eq in E. subst c. cbn [app]. change (2 ^ 0) with 1. rewrite N.mod_1_r, N.mul_0_l, N.add_0_l, N.add_0_l. apply IH; assumption.
    + apply N.eqb_neq in E. cbn [app spec_arops arop_size rop_size].
      destruct (spec_step (v mod 2 ^ c) c (fst (abvs t)) (snd (abvs t)) P p ltac:(lia) ltac:(apply N.mod_lt; apply N.pow_nonzero; discriminate) Hlt Hp) as (_ & S2 & S3 & S4).
      cbv zeta in S2, S3, S4. rewrite S2, S3, S4. f_equal. apply IH; assumption.
  - destruct Ho as [Hb [Hc0 Hc]]. cbn [app spec_arops arop_size].
    destruct (spec_step (topbits bits c) c (fst (abvs t)) (snd (abvs t)) P p ltac:(lia) (topbits_lt bits c Hb Hc) Hlt Hp) as (_ & S2 & S3 & S4).
    cbv zeta in S2, S3, S4.
    rewrite (bytes_of_top _ (c + snd (abvs t) + P) c) by lia. rewrite S2, S3, S4. f_equal. apply IH; assumption.
Qed.

Theorem bitstream_mirror_arrays wbuf rbuf sched ops :
  40 <= wbuf -> wbuf mod 8 = 0 -> 0 < rbuf -> rbuf mod 8 = 0 -> Forall aop_ok ops ->
  exists s1 s2, run_aops (new_obs wbuf) ops = (s1, false) /\ close healthy s1 = (s2, false) /\
    run_arops (new_ibs rbuf (mkSrc (o_out s2) sched None 0)) (arops_of ops) = avals_of ops.
Proof.
  intros Hw Hw8 Hr Hr8 Hok.
  destruct (array_image wbuf ops Hw Hw8 Hok) as (s1 & s2 & pad & V & L & E1 & E2 & EV & Hcl & Hpad & Hlen & Himg & _).
  exists s1, s2. split; [exact E1|]. split; [exact E2|].
  assert (Hob : bytes_ok (o_out s2)).
  { eapply close_obok; [|exact E2]. eapply run_aops_obok; [|exact Hok|exact E1]. split; constructor. }
  destruct (new_ibs_ra rbuf (o_out s2) sched Hr Hr8 Hob) as (R0 & U0 & T0).
  destruct (arops_ok ops Hok) as [Haok Hsz].
  rewrite fold_abvs in EV. cbn [fst snd] in EV. rewrite N.mul_0_l, !N.add_0_l in EV. injection EV as EV1 EV2.
  rewrite (array_reader_program _ _ R0 Haok) by (rewrite Hsz, T0, Hlen, <- EV2; lia).
  rewrite U0, T0, Himg, Hlen, EV1, EV2.
  replace (fst (abvs ops) * 2 ^ pad) with (fst (abvs ops) * 2 ^ pad + 0) by lia.
  apply spec_on_abvs; [exact Hok|apply pow2_pos].
Qed.
