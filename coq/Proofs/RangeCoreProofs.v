(* The core of the range coder (entropy/RangeCodec.go encodeByte / decodeByte and their carry-less
   normalisation loops, with the uint64 wrap-around and the junk the shifts leave above bit 59):
   for any frequency table the header theorem accepts and any bytes of its alphabet, the decoder, reading
   the digits the encoder wrote (60 bits first, then 28 at a time - not the boundaries of the writes),
   follows the encoder state for state and returns the bytes.
   - the encoder's normalisation loop ends within its fuel and keeps the interval inside 60 bits;
   - the number formed by everything the encoder writes from a state on lies in that state's interval;
   - hence the decoder's count falls in the slot of the encoded symbol. *)
From Coq Require Import List NArith ZArith Lia Bool ZifyN ZifyNat ZifyBool.
From KV Require Import Model.OutBS Model.InBS Model.Container Model.Alphabet Model.RangeCodec Lib.Bits
  Proofs.OutBSProofs Proofs.InBSProofs Proofs.MirrorProofs Proofs.ArrayProofs Proofs.ReadArrayProofs Proofs.MirrorArrayProofs
  Proofs.ContainerProofs Proofs.RangeHeaderProofs.
Import ListNotations.
Open Scope N_scope.

Ltac Zify.zify_post_hook ::= Z.div_mod_to_equations.
Local Arguments N.pow : simpl never.
Local Arguments N.div : simpl never.
Local Arguments N.modulo : simpl never.
Local Arguments N.mul : simpl never.
Local Arguments N.sub : simpl never.
Local Arguments N.add : simpl never.

Local Notation M60 := 1152921504606846976 (only parsing).
Local Notation D28 := 268435456 (only parsing).
Local Notation P32 := 4294967296 (only parsing).
Local Notation P16 := 65536 (only parsing).
Local Notation W := 18446744073709551616 (only parsing).

(* ---------- the digit comparison ---------- *)
Definition dig (x : N) : N := (x / P32) mod D28.
Definition differ (low rng : N) : bool := negb (N.land (N.lxor low ((low + rng) mod W64)) RANGE_MASK =? 0).

Lemma mask_bits j : N.testbit RANGE_MASK j = (32 <=? j) && (j <? 60).
Proof.
  change RANGE_MASK with (N.shiftl (N.ones 28) 32). destruct (N.leb_spec 32 j) as [H|H].
  - rewrite N.shiftl_spec_high' by exact H. destruct (N.ltb_spec j 60) as [H2|H2].
    + rewrite N.ones_spec_low by (clear - H H2; lia). reflexivity.
    + rewrite N.ones_spec_high by (clear - H H2; lia). reflexivity.
  - rewrite N.shiftl_spec_low by exact H. reflexivity.
Qed.

Lemma dig_bits x i : N.testbit (dig x) i = (i <? 28) && N.testbit x (i + 32).
Proof.
  unfold dig. change D28 with (2 ^ 28). change P32 with (2 ^ 32). destruct (N.ltb_spec i 28) as [H|H].
  - rewrite N.mod_pow2_bits_low by exact H. rewrite N.div_pow2_bits. reflexivity.
  - rewrite N.mod_pow2_bits_high by exact H. reflexivity.
Qed.

Lemma differ_spec a b : (N.land (N.lxor a b) RANGE_MASK =? 0) = (dig a =? dig b).
Proof.
  apply eq_true_iff_eq. rewrite !N.eqb_eq. split; intros H.
  - apply N.bits_inj. intros i. rewrite !dig_bits. destruct (N.ltb_spec i 28) as [Hi|Hi]; [|reflexivity]. cbn [andb].
    assert (B := f_equal (fun z => N.testbit z (i + 32)) H). cbv beta in B. rewrite N.land_spec, N.lxor_spec, mask_bits, N.bits_0 in B.
    replace (32 <=? i + 32) with true in B by (symmetry; apply N.leb_le; clear; lia).
    replace (i + 32 <? 60) with true in B by (symmetry; apply N.ltb_lt; clear - Hi; lia).
    rewrite andb_true_r in B. destruct (N.testbit a (i + 32)), (N.testbit b (i + 32)); try reflexivity; discriminate.
  - apply N.bits_inj. intros j. rewrite N.land_spec, N.lxor_spec, mask_bits, N.bits_0.
    destruct (N.leb_spec 32 j) as [H1|H1]; [|apply andb_false_r]. destruct (N.ltb_spec j 60) as [H2|H2]; [|apply andb_false_r].
    cbn [andb]. rewrite andb_true_r.
    assert (B := f_equal (fun z => N.testbit z (j - 32)) H). cbv beta in B. rewrite !dig_bits in B.
    replace (j - 32 + 32) with j in B by (clear - H1; lia).
    replace (j - 32 <? 28) with true in B by (symmetry; apply N.ltb_lt; clear - H1 H2; lia). cbn [andb] in B. rewrite B. apply xorb_nilpotent.
Qed.

Lemma differ_eq low rng : differ low rng = negb (dig low =? dig ((low + rng) mod W64)).
Proof. unfold differ. rewrite differ_spec. reflexivity. Qed.

(* ---------- the state of the coder ---------- *)
Definition SI (low rng : N) : Prop :=
  low < W /\ 1 <= rng /\ low mod M60 + rng <= M60 /\ (low mod M60 + rng = M60 -> P32 <= low mod M60).

Definition cut (low rng : N) : N := if differ low rng then N.land ((W64 - low) mod W64) BOTTOM_RANGE else rng.

Lemma land_bottom x : N.land x BOTTOM_RANGE = x mod P16.
Proof. change BOTTOM_RANGE with (N.ones 16). rewrite N.land_ones. reflexivity. Qed.

Lemma shift_facts low rng : SI low rng -> ~ (differ low rng = true /\ 65535 < rng) ->
  let r := cut low rng in let Lm := low mod P32 in
  1 <= r /\ r <= rng /\ Lm + r <= P32 /\ (Lm + r = P32 -> 16 <= Lm) /\ (differ low rng = false -> r = rng).
Proof.
  intros (Hl & Hr & Hs & He) Hn r Lm. unfold r, cut. rewrite differ_eq in *. unfold dig, W64 in *.
  destruct (N.eqb_spec ((low / P32) mod D28) (((low + rng) mod W / P32) mod D28)) as [E|E]; cbn [negb] in *.
  - unfold Lm. clear Hn r Lm. repeat split; try (clear - Hl Hr Hs He E; lia).
  - rewrite land_bottom. assert (Hsm : rng <= 65535) by (clear - Hn; lia). unfold Lm. clear Hn r Lm.
    repeat split; try (clear - Hl Hr Hs He E Hsm; lia).
Qed.

Lemma shift_state low rng : SI low rng -> ~ (differ low rng = true /\ 65535 < rng) ->
  let r := cut low rng in
  (r * D28) mod W64 = r * D28 /\ ((low * D28) mod W64) mod M60 = (low mod P32) * D28 /\ SI ((low * D28) mod W64) (r * D28) /\ D28 <= r * D28.
Proof.
  intros HS Hn r. destruct (shift_facts low rng HS Hn) as (H1 & H2 & H3 & H4 & _). fold r in H1, H2, H3, H4.
  destruct HS as (Hl & _). unfold W64, SI. clear Hn. generalize dependent r. intros r H1 H2 H3 H4.
  assert (A : (r * D28) mod W = r * D28) by (clear - H1 H3; lia).
  assert (B : ((low * D28) mod W) mod M60 = (low mod P32) * D28) by (clear - Hl; lia).
  split; [exact A|]. split; [exact B|]. split; [|clear - H1; lia].
  rewrite B. split; [clear; lia|]. split; [clear - H1; lia|]. split; [clear - H3; lia|]. clear - H4. lia.
Qed.

(* ---------- what the encoder writes, as one number ---------- *)
Definition V (F : list cop) : N := fst (abvs (map conv F)).
Definition Wd (F : list cop) : N := snd (abvs (map conv F)).
Definition cops_ok (F : list cop) : Prop := Forall aop_ok (map conv F).
Definition dop (low : N) : cop := CBits (N.shiftr low 32) 28.

Lemma V_dop low G : V (dop low :: G) = dig low * 2 ^ Wd G + V G.
Proof.
  unfold V, Wd, dop. cbn [map conv abvs fst snd aop_val aop_size op_val op_size]. rewrite N.shiftr_div_pow2. reflexivity.
Qed.
Lemma Wd_dop low G : Wd (dop low :: G) = 28 + Wd G.
Proof. reflexivity. Qed.
Lemma dop_ok low G : cops_ok G -> cops_ok (dop low :: G).
Proof. intros H. unfold cops_ok, dop. cbn [map conv]. constructor; [cbn [aop_ok wop_ok]; clear; lia|exact H]. Qed.
Lemma V_lt F : cops_ok F -> V F < 2 ^ Wd F.
Proof. apply abvs_lt. Qed.
Lemma cops_ok_app a b : cops_ok a -> cops_ok b -> cops_ok (a ++ b).
Proof. unfold cops_ok. rewrite map_app. intros. apply Forall_app. split; assumption. Qed.

(* the number lies in the interval of the state *)
Definition InI (low rng : N) (F : list cop) : Prop :=
  60 <= Wd F /\ (low mod M60) * 2 ^ (Wd F - 60) <= V F < (low mod M60 + rng) * 2 ^ (Wd F - 60).

Lemma dig_lt x : dig x < D28.
Proof. unfold dig. apply N.mod_lt. discriminate. Qed.
Lemma dig_split x : x mod M60 = dig x * P32 + x mod P32.
Proof. unfold dig. lia. Qed.

Lemma InI_shift low rng G : SI low rng -> ~ (differ low rng = true /\ 65535 < rng) -> cops_ok G ->
  InI ((low * D28) mod W64) (cut low rng * D28) G -> InI low rng (dop low :: G).
Proof.
  intros HS Hn HG (H60 & Hlo & Hhi).
  destruct (shift_facts low rng HS Hn) as (H1 & H2 & H3 & _). destruct (shift_state low rng HS Hn) as (_ & B & _). cbv zeta in *.
  rewrite B in Hlo, Hhi. set (r := cut low rng) in *. unfold InI. rewrite V_dop, Wd_dop.
  split; [clear - H60; lia|].
  set (m := Wd G - 60) in *. assert (EW : Wd G = m + 60) by (unfold m; clear - H60; lia). clearbody m. rewrite EW.
  replace (28 + (m + 60) - 60) with (m + 28) by (clear; lia).
  rewrite !N.pow_add_r. set (K := 2 ^ m) in *. change (2 ^ 28) with D28. change (2 ^ 60) with M60.
  rewrite (dig_split low). set (d := dig low) in *. set (Lm := low mod P32) in *.
  assert (HrK : r * K <= rng * K) by (apply N.mul_le_mono_r; exact H2).
  clearbody K d Lm r. clear - Hlo Hhi HrK. split; nia.
Qed.

Lemma enc_norm_acc : forall fuel low rng acc,
  enc_norm fuel low rng acc = match enc_norm fuel low rng [] with Some (l, r, ds) => Some (l, r, acc ++ ds) | None => None end.
Proof.
  induction fuel as [|f IH]; intros low rng acc; [reflexivity|]. cbn [enc_norm].
  destruct (negb (N.land (N.lxor low ((low + rng) mod W64)) RANGE_MASK =? 0) && (BOTTOM_RANGE <? rng)).
  - rewrite app_nil_r. reflexivity.
  - rewrite (IH _ _ (acc ++ _)), (IH _ _ ([] ++ _)).
    destruct (enc_norm f _ _ []) as [[[l r] ds]|]; [|reflexivity]. rewrite <- app_assoc. reflexivity.
Qed.

(* one evaluation of the loop test *)
Lemma enc_norm_S f low rng :
  enc_norm (S f) low rng [] =
  if differ low rng && (BOTTOM_RANGE <? rng) then Some (low, rng, [])
  else match enc_norm f ((low * D28) mod W64) ((cut low rng * D28) mod W64) [] with
       | Some (l, r, ds) => Some (l, r, dop low :: ds) | None => None end.
Proof.
  cbn [enc_norm]. fold (differ low rng). destruct (differ low rng && (BOTTOM_RANGE <? rng)); [reflexivity|].
  rewrite enc_norm_acc. unfold cut. reflexivity.
Qed.

Lemma exit_iff low rng : differ low rng && (BOTTOM_RANGE <? rng) = true <-> (differ low rng = true /\ 65535 < rng).
Proof. rewrite andb_true_iff, N.ltb_lt. unfold BOTTOM_RANGE. reflexivity. Qed.

(* the encoder's loop: the state it leaves, and the interval backwards *)
Lemma enc_norm_spec : forall fuel low rng low' rng' ds, SI low rng -> enc_norm fuel low rng [] = Some (low', rng', ds) ->
  SI low' rng' /\ 65535 < rng' /\ cops_ok ds /\
  (forall G, cops_ok G -> InI low' rng' G -> InI low rng (ds ++ G)).
Proof.
  induction fuel as [|f IH]; intros low rng low' rng' ds HS E; [discriminate E|]. rewrite enc_norm_S in E.
  destruct (differ low rng && (BOTTOM_RANGE <? rng)) eqn:Ex.
  - injection E as X1 X2 X3. subst low' rng' ds. apply exit_iff in Ex. split; [exact HS|]. split; [apply Ex|]. split; [constructor|]. intros G _ H. exact H.
  - assert (Hn : ~ (differ low rng = true /\ 65535 < rng)) by (rewrite <- exit_iff, Ex; discriminate).
    destruct (shift_state low rng HS Hn) as (A & _ & HS' & _). cbv zeta in A, HS'. rewrite A in E.
    destruct (enc_norm f _ _ []) as [[[l r] ds1]|] eqn:E1; [|discriminate E]. injection E as X1 X2 X3. subst l r ds.
    destruct (IH _ _ _ _ _ HS' E1) as (I1 & I2 & I3 & I4).
    split; [exact I1|]. split; [exact I2|]. split; [apply dop_ok; exact I3|].
    intros G HG HI. cbn [app]. apply InI_shift; try assumption.
    + apply cops_ok_app; assumption.
    + apply I4; assumption.
Qed.

(* the loop ends within three evaluations of its test *)
Lemma enc_norm_total : forall low rng, SI low rng -> exists low' rng' ds, enc_norm 8 low rng [] = Some (low', rng', ds).
Proof.
  assert (L0 : forall f low rng, SI low rng -> 8589934592 <= rng -> exists low' rng' ds, enc_norm (S f) low rng [] = Some (low', rng', ds)).
  { intros f low rng HS Hr. rewrite enc_norm_S. destruct (differ low rng && (BOTTOM_RANGE <? rng)) eqn:Ex; [eauto|].
    exfalso. assert (Hn : ~ (differ low rng = true /\ 65535 < rng)) by (rewrite <- exit_iff, Ex; discriminate).
    destruct (shift_facts low rng HS Hn) as (_ & _ & H3 & _ & H5). cbv zeta in H3, H5.
    destruct (differ low rng) eqn:Ed.
    - apply Hn. split; [reflexivity|]. clear - Hr. lia.
    - rewrite (H5 eq_refl) in H3. clear - H3 Hr. lia. }
  assert (L1 : forall f low rng, SI low rng -> 65536 <= rng -> exists low' rng' ds, enc_norm (S (S f)) low rng [] = Some (low', rng', ds)).
  { intros f low rng HS Hr. rewrite enc_norm_S. destruct (differ low rng && (BOTTOM_RANGE <? rng)) eqn:Ex; [eauto|].
    assert (Hn : ~ (differ low rng = true /\ 65535 < rng)) by (rewrite <- exit_iff, Ex; discriminate).
    destruct (shift_facts low rng HS Hn) as (_ & _ & _ & _ & H5). destruct (shift_state low rng HS Hn) as (A & _ & HS' & _). cbv zeta in *.
    rewrite A. destruct (differ low rng) eqn:Ed; [exfalso; apply Hn; split; [reflexivity|clear - Hr; lia]|].
    rewrite (H5 eq_refl) in *. destruct (L0 f _ _ HS' ltac:(clear - Hr; lia)) as (l & r & ds & E). rewrite E. eauto. }
  intros low rng HS. rewrite enc_norm_S. destruct (differ low rng && (BOTTOM_RANGE <? rng)) eqn:Ex; [eauto|].
  assert (Hn : ~ (differ low rng = true /\ 65535 < rng)) by (rewrite <- exit_iff, Ex; discriminate).
  destruct (shift_state low rng HS Hn) as (A & _ & HS' & Hge). cbv zeta in *. rewrite A.
  destruct (L1 5%nat _ _ HS' ltac:(clear - Hge; lia)) as (l & r & ds & E). rewrite E. eauto.
Qed.

(* ---------- the decoder follows: its 60-bit window and the unread part of the stream ---------- *)
Definition Lock (s : ibs) (code : N) (F : list cop) (t : list aop) (P p : N) : Prop :=
  uval s = ((V F mod 2 ^ (Wd F - 60)) * 2 ^ snd (abvs t) + fst (abvs t)) * 2 ^ P + p /\
  total s = (Wd F - 60) + snd (abvs t) + P /\ code mod M60 = V F / 2 ^ (Wd F - 60).

Lemma lock_arith d VG K code : 0 < K -> VG < K * M60 -> d < D28 ->
  code mod M60 = (d * (K * M60) + VG) / (K * D28) ->
  let U := (d * (K * M60) + VG) mod (K * D28) in
  U / K < D28 /\ U = K * (U / K) + U mod K /\ U mod K < K /\ VG mod K = U mod K /\ VG / K = (code mod P32) * D28 + U / K /\ dig code = d.
Proof.
  intros HK HV Hd HC U.
  assert (HKD : K * D28 <> 0) by (clear - HK; lia).
  pose proof (N.div_mod VG (K * D28) HKD) as E0. pose proof (N.mod_lt VG (K * D28) HKD) as L0.
  set (g1 := VG / (K * D28)) in *. set (U0 := VG mod (K * D28)) in *.
  assert (Hg1 : g1 < P32).
  { unfold g1. apply N.div_lt_upper_bound; [exact HKD|]. replace (K * D28 * P32) with (K * M60) by (clear; lia). exact HV. }
  clearbody g1 U0.
  assert (EF : d * (K * M60) + VG = (K * D28) * (d * P32 + g1) + U0) by (clear - E0; lia).
  assert (Q : (d * (K * M60) + VG) / (K * D28) = d * P32 + g1) by (symmetry; apply (N.div_unique _ _ _ U0); [exact L0|exact EF]).
  assert (R : U = U0) by (unfold U; symmetry; apply (N.mod_unique _ _ (d * P32 + g1)); [exact L0|exact EF]).
  rewrite Q in HC. rewrite R. clear U R Q EF.
  assert (HK0 : K <> 0) by (clear - HK; lia).
  pose proof (N.div_mod U0 K HK0) as E1. pose proof (N.mod_lt U0 K HK0) as L1.
  set (v := U0 / K) in *. set (u' := U0 mod K) in *. clearbody v u'.
  assert (Hv : v < D28). { destruct (N.lt_ge_cases v D28) as [X|X]; [exact X|]. exfalso. clear - X E1 L0. nia. }
  assert (EG : VG = K * (g1 * D28 + v) + u') by (clear - E0 E1; lia).
  assert (Hc32 : code mod P32 = g1) by (clear - HC Hg1; lia).
  split; [exact Hv|]. split; [exact E1|]. split; [exact L1|].
  split; [symmetry; apply (N.mod_unique _ _ (g1 * D28 + v)); assumption|].
  split; [rewrite Hc32; symmetry; apply (N.div_unique _ _ _ u'); assumption|].
  unfold dig. clear - HC Hd Hg1. lia.
Qed.

Lemma lock_shift s code low G t P p : RA s -> cops_ok G -> Forall aop_ok t -> p < 2 ^ P -> 60 <= Wd G ->
  Lock s code (dop low :: G) t P p ->
  exists s' v, read_bits s 28 = (s', Val v) /\ v < D28 /\ RA s' /\ Lock s' ((code * D28) mod W64 + v) G t P p /\ dig code = dig low.
Proof.
  intros HR HG Ht Hp H60 (HU & HT & HC). rewrite V_dop, Wd_dop in HU, HC. rewrite Wd_dop in HT.
  pose proof (V_lt G HG) as HVG. pose proof (abvs_lt t Ht) as Htv.
  set (m := Wd G - 60) in *. assert (EW : Wd G = m + 60) by (unfold m; clear - H60; lia). clearbody m.
  rewrite EW in HU, HT, HC, HVG. replace (28 + (m + 60) - 60) with (m + 28) in HU, HT, HC by (clear; lia).
  rewrite (N.pow_add_r 2 m 28) in HU, HC. rewrite (N.pow_add_r 2 m 60) in HU, HC, HVG. change (2 ^ 28) with D28 in *. change (2 ^ 60) with M60 in *.
  unfold Lock. replace (Wd G - 60) with m by (clear - EW; lia).
  set (K := 2 ^ m) in *. assert (HK : 0 < K) by apply pow2_pos.
  assert (HK2 : 2 ^ (m + snd (abvs t)) = K * 2 ^ snd (abvs t)) by apply N.pow_add_r. clearbody K.
  set (tv := fst (abvs t)) in *. set (tn := snd (abvs t)) in *. clearbody tv.
  destruct (lock_arith (dig low) (V G) K code HK HVG (dig_lt low) HC) as (Hv & EU & Hu' & EM & ED & Edig). cbv zeta in *.
  set (U := (dig low * (K * M60) + V G) mod (K * D28)) in *. clearbody U.
  set (v := U / K) in *. set (u' := U mod K) in *. clearbody v u'.
  pose proof (pow2_pos tn) as Htn. set (T := 2 ^ tn) in *.
  destruct (rd_vec s 28 v (u' * T + tv) (m + tn) P p HR ltac:(clear; lia) Hv) as (s' & E & HR' & U' & T').
  - rewrite HK2. clear - Hu' Htv. nia.
  - exact Hp.
  - rewrite HU, HK2, EU. clear. lia.
  - rewrite HT. clear. lia.
  - exists s', v. split; [exact E|]. split; [exact Hv|]. split; [exact HR'|]. split; [|exact Edig].
    split; [rewrite U', EM; reflexivity|]. split; [rewrite T'; clear; lia|].
    rewrite ED. unfold W64. clear - Hv. lia.
Qed.

Lemma junk_shift code low v : dig code = dig low -> v < D28 ->
  ((code * D28) mod W64 + v) / M60 = ((low * D28) mod W64) / M60 /\ (code * D28) mod W64 + v < W /\
  N.lor ((code * D28) mod W64) v = (code * D28) mod W64 + v.
Proof.
  intros Hd Hv. unfold dig, W64 in *. split; [clear - Hd Hv; lia|]. split; [clear - Hv; lia|].
  apply (lor_disjoint _ _ 28); [change (2 ^ 28) with D28; clear; lia|exact Hv].
Qed.

Lemma Wd_app a b : Wd (a ++ b) = Wd a + Wd b.
Proof.
  unfold Wd. induction a as [|o a IH]; [reflexivity|]. cbn [app map abvs snd]. rewrite IH. clear. lia.
Qed.

Lemma dec_norm_S f s low rng code :
  dec_norm (S f) s low rng code =
  if differ low rng && (BOTTOM_RANGE <? rng) then (s, Some (low, rng, code))
  else match read_bits s 28 with
       | (s1, Pan _) => (s1, None)
       | (s1, Val v) => dec_norm f s1 ((low * D28) mod W64) ((cut low rng * D28) mod W64) (N.lor ((code * D28) mod W64) v)
       end.
Proof. reflexivity. Qed.

(* the decoder's loop runs as the encoder's did and shifts in the digits it wrote *)
Lemma dec_norm_follows : forall fuel low rng low' rng' ds, SI low rng -> enc_norm fuel low rng [] = Some (low', rng', ds) ->
  forall G s code t P p, RA s -> cops_ok G -> Forall aop_ok t -> p < 2 ^ P -> 60 <= Wd G -> code < W -> code / M60 = low / M60 ->
  Lock s code (ds ++ G) t P p ->
  exists s' code', dec_norm fuel s low rng code = (s', Some (low', rng', code')) /\ RA s' /\ code' < W /\ code' / M60 = low' / M60 /\
    Lock s' code' G t P p.
Proof.
  induction fuel as [|f IH]; intros low rng low' rng' ds HS E G s code t P p HR HG Ht Hp H60 Hc Hj HL; [discriminate E|].
  rewrite enc_norm_S in E. rewrite dec_norm_S.
  destruct (differ low rng && (BOTTOM_RANGE <? rng)) eqn:Ex.
  - injection E as X1 X2 X3. subst low' rng' ds. exists s, code. auto.
  - assert (Hn : ~ (differ low rng = true /\ 65535 < rng)) by (rewrite <- exit_iff, Ex; discriminate).
    destruct (shift_state low rng HS Hn) as (A & _ & HS' & _). cbv zeta in A, HS'. rewrite A in E |- *.
    destruct (enc_norm f _ _ []) as [[[l r] ds1]|] eqn:E1; [|discriminate E]. injection E as X1 X2 X3. subst l r ds.
    destruct (enc_norm_spec _ _ _ _ _ _ HS' E1) as (_ & _ & Hds1 & _).
    cbn [app] in HL.
    destruct (lock_shift s code low (ds1 ++ G) t P p HR (cops_ok_app _ _ Hds1 HG) Ht Hp ltac:(rewrite Wd_app; clear - H60; lia) HL)
      as (s1 & v & Er & Hv & HR1 & HL1 & Hd).
    rewrite Er. destruct (junk_shift code low v Hd Hv) as (J1 & J2 & J3). rewrite J3.
    apply (IH _ _ _ _ _ HS' E1 G s1 _ t P p HR1 HG Ht Hp H60 J2 J1 HL1).
Qed.

(* ---------- the cumulated table ---------- *)
Fixpoint tot (l : list N) : N := match l with [] => 0 | x :: t => x + tot t end.
Fixpoint cums (base : N) (fr : list N) : list N := base :: match fr with [] => [] | f :: r => cums (base + f) r end.

Lemma cum_fold : forall fr pre b, fold_left (fun acc f => acc ++ [last acc 0 + f]) fr (pre ++ [b]) = pre ++ cums b fr.
Proof.
  induction fr as [|f r IH]; intros pre b; [reflexivity|]. cbn [fold_left cums]. rewrite last_last.
  rewrite (IH (pre ++ [b]) (b + f)). rewrite <- app_assoc. reflexivity.
Qed.
Lemma cum_of_eq fr : cum_of fr = cums 0 fr.
Proof. unfold cum_of. apply (cum_fold fr [] 0). Qed.

Lemma cums_nth : forall fr base k, (k <= length fr)%nat -> nth k (cums base fr) 0 = base + tot (firstn k fr).
Proof.
  induction fr as [|f r IH]; intros base k Hk.
  - cbn [length] in Hk. replace k with 0%nat by lia. cbn. lia.
  - destruct k as [|k]; [cbn; lia|]. cbn [cums nth firstn tot]. cbn [length] in Hk. rewrite IH by lia. lia.
Qed.

Lemma sym_of_cums count : forall fr base sym k, (k < length fr)%nat ->
  base + tot (firstn k fr) <= count < base + tot (firstn (S k) fr) -> sym_of (cums base fr) count sym = sym + N.of_nat k.
Proof.
  induction fr as [|f r IH]; intros base sym k Hk Hc; [cbn [length] in Hk; lia|].
  cbn [cums]. destruct r as [|f2 r2].
  - cbn [length] in Hk. replace k with 0%nat in * by lia. cbn [cums sym_of firstn tot] in *.
    replace (count <? base + f) with true by (symmetry; apply N.ltb_lt; lia). lia.
  - remember (f2 :: r2) as r. destruct k as [|k].
    + cbn [firstn tot] in Hc. rewrite Heqr. cbn [cums sym_of]. replace (count <? base + f) with true by (symmetry; apply N.ltb_lt; lia). lia.
    + assert (E : sym_of (base :: cums (base + f) r) count sym = if count <? base + f then sym else sym_of (cums (base + f) r) count (sym + 1)).
      { rewrite Heqr. reflexivity. }
      rewrite E. cbn [firstn tot] in Hc. replace (count <? base + f) with false by (symmetry; apply N.ltb_ge; lia).
      rewrite (IH (base + f) (sym + 1) k); [lia|cbn [length] in Hk; lia|]. cbn [firstn tot]. lia.
Qed.

Lemma tot_firstn_S fr k : (k < length fr)%nat -> tot (firstn (S k) fr) = tot (firstn k fr) + nth k fr 0.
Proof.
  revert k. induction fr as [|f r IH]; intros k Hk; [cbn [length] in Hk; lia|].
  destruct k as [|k]; [cbn; lia|]. cbn [length] in Hk.
  change (firstn (S (S k)) (f :: r)) with (f :: firstn (S k) r). change (firstn (S k) (f :: r)) with (f :: firstn k r).
  cbn [tot nth]. rewrite (IH k) by lia. lia.
Qed.
Lemma tot_firstn_le fr k : tot (firstn k fr) <= tot fr.
Proof.
  revert k. induction fr as [|f r IH]; intros k; [destruct k; cbn; lia|]. destruct k as [|k]; [cbn [firstn tot]; lia|].
  cbn [firstn tot]. specialize (IH k). lia.
Qed.

(* ---------- one symbol ---------- *)
Lemma byte_state low rng c0 c1 S : SI low rng -> 65535 < rng -> 1 <= S <= 65536 -> c0 < c1 -> c1 <= S ->
  let rng1 := rng / S in let low1 := (low + c0 * rng1) mod W64 in
  1 <= rng1 /\ (rng1 * (c1 - c0)) mod W64 = rng1 * (c1 - c0) /\ low1 mod M60 = low mod M60 + c0 * rng1 /\ low1 / M60 = low / M60 /\
  SI low1 (rng1 * (c1 - c0)) /\ c1 * rng1 <= rng.
Proof.
  intros (Hl & Hr & Hs & He) Hbig HS Hc Hc1 rng1 low1. unfold low1, W64, SI.
  assert (HS0 : S <> 0) by (clear - HS; lia).
  pose proof (N.div_mod rng S HS0) as E. pose proof (N.mod_lt rng S HS0) as L. fold rng1 in E.
  set (rm := rng mod S) in *. clearbody rng1 rm.
  assert (H1 : 1 <= rng1) by (clear - E L HS Hbig; nia).
  assert (H2 : c1 * rng1 <= rng) by (clear - E Hc1; nia).
  assert (H3 : c0 * rng1 + rng1 * (c1 - c0) = c1 * rng1) by (clear - Hc; nia).
  assert (H4 : 1 <= rng1 * (c1 - c0)) by (clear - H1 Hc; nia).
  set (x := c0 * rng1) in *. set (y := rng1 * (c1 - c0)) in *. set (z := c1 * rng1) in *. clearbody x y z.
  clear E L rm HS0 Hc Hc1 HS c0 c1 S.
  split; [exact H1|]. split; [clear - Hs H3 H2; lia|]. split; [clear - Hl Hs H3 H2 H4; lia|]. split; [clear - Hl Hs H3 H2 H4; lia|].
  split; [|exact H2].
  assert (B : (low + x) mod W mod M60 = low mod M60 + x) by (clear - Hl Hs H3 H2 H4; lia). rewrite B.
  split; [clear; lia|]. split; [exact H4|]. split; [clear - Hs H3 H2; lia|]. clear - Hs He H3 H2. lia.
Qed.

Lemma InI_narrow low rng low1 rng2 x z F : low1 mod M60 = low mod M60 + x -> x + rng2 = z -> z <= rng ->
  InI low1 rng2 F -> InI low rng F.
Proof.
  intros B H3 H2 (H60 & Hlo & Hhi). split; [exact H60|]. rewrite B in Hlo, Hhi. set (K := 2 ^ (Wd F - 60)) in *. clearbody K.
  clear - H3 H2 Hlo Hhi. split; nia.
Qed.

(* ---------- a run of symbols under one table ---------- *)
Section TABLE.
Variable lr : N.
Variable fr : list N.
Hypothesis Hlr : lr <= 16.
Hypothesis Hlen : length fr = 256%nat.
Hypothesis Htot : tot fr = 2 ^ lr.

Definition sym_in (b : N) : Prop := b < 256 /\ 1 <= fq fr b.
Definition finalop (low : N) : cop := CBits low 60.

Lemma slot b : sym_in b ->
  let c0 := nth (N.to_nat b) (cum_of fr) 0 in let c1 := nth (S (N.to_nat b)) (cum_of fr) 0 in
  c0 = tot (firstn (N.to_nat b) fr) /\ c1 = c0 + fq fr b /\ c0 < c1 /\ c1 <= 2 ^ lr.
Proof.
  intros [Hb Hf] c0 c1. unfold c0, c1. rewrite cum_of_eq. rewrite !cums_nth by (rewrite Hlen; clear - Hb; lia).
  rewrite tot_firstn_S by (rewrite Hlen; clear - Hb; lia). fold (fq fr b). rewrite !N.add_0_l.
  pose proof (tot_firstn_le fr (S (N.to_nat b))) as Hle. rewrite tot_firstn_S in Hle by (rewrite Hlen; clear - Hb; lia). fold (fq fr b) in Hle.
  rewrite Htot in Hle. clear - Hf Hle. lia.
Qed.

Lemma pow_lr : 1 <= 2 ^ lr <= 65536.
Proof.
  split; [pose proof (pow2_pos lr) as X; clear - X; lia|]. change 65536 with (2 ^ 16). apply N.pow_le_mono_r; [discriminate|exact Hlr].
Qed.

Lemma enc_bytes_acc : forall bs st acc,
  enc_bytes lr (cum_of fr) st bs acc = match enc_bytes lr (cum_of fr) st bs [] with Some (l, ops) => Some (l, acc ++ ops) | None => None end.
Proof.
  induction bs as [|b r IH]; intros st acc; cbn [enc_bytes]; [rewrite app_nil_r; reflexivity|].
  destruct (enc_byte lr (cum_of fr) st b) as [[[l rg] ops]|]; [|reflexivity].
  rewrite (IH _ (acc ++ ops)), (IH _ ([] ++ ops)). destruct (enc_bytes lr (cum_of fr) (l, rg) r []) as [[lf o2]|]; [|reflexivity].
  rewrite <- app_assoc. reflexivity.
Qed.

Lemma enc_bytes_cons b r low rng :
  enc_bytes lr (cum_of fr) (low, rng) (b :: r) [] =
  let c0 := nth (N.to_nat b) (cum_of fr) 0 in let c1 := nth (S (N.to_nat b)) (cum_of fr) 0 in
  let rng1 := N.shiftr rng lr in
  match enc_norm 8 ((low + c0 * rng1) mod W64) ((rng1 * (c1 - c0)) mod W64) [] with
  | None => None
  | Some (low2, rng3, ds) => match enc_bytes lr (cum_of fr) (low2, rng3) r [] with
                            | Some (lf, ops) => Some (lf, ds ++ ops) | None => None end
  end.
Proof.
  cbn [enc_bytes enc_byte]. cbv zeta. destruct (enc_norm 8 _ _ []) as [[[l2 r3] ds]|]; [|reflexivity].
  rewrite enc_bytes_acc. reflexivity.
Qed.

Lemma InI_final low rng : 1 <= rng -> InI low rng [finalop low].
Proof.
  intros Hr. unfold InI, V, Wd, finalop. cbn [map conv abvs fst snd aop_val aop_size op_val op_size].
  change (60 + 0 - 60) with 0. change (2 ^ 0) with 1. change (2 ^ 60) with M60. clear - Hr. lia.
Qed.

(* the encoder never stops, and what it writes from any state on lies in that state's interval *)
Lemma enc_bytes_spec : forall bs low rng, SI low rng -> 65535 < rng -> Forall sym_in bs ->
  exists lowf ops, enc_bytes lr (cum_of fr) (low, rng) bs [] = Some (lowf, ops) /\ cops_ok ops /\ InI low rng (ops ++ [finalop lowf]).
Proof.
  induction bs as [|b r IH]; intros low rng HS Hbig Hall.
  - exists low, []. split; [reflexivity|]. split; [constructor|]. apply InI_final. apply HS.
  - pose proof (Forall_inv Hall) as Hb. pose proof (Forall_inv_tail Hall) as Hr.
    destruct (slot b Hb) as (_ & _ & Hc & Hc1). cbv zeta in Hc, Hc1.
    rewrite enc_bytes_cons. cbv zeta. rewrite N.shiftr_div_pow2.
    set (c0 := nth (N.to_nat b) (cum_of fr) 0) in *. set (c1 := nth (S (N.to_nat b)) (cum_of fr) 0) in *.
    destruct (byte_state low rng c0 c1 (2 ^ lr) HS Hbig pow_lr Hc Hc1) as (H1 & H2 & H3 & H4 & HS1 & H6). cbv zeta in *.
    rewrite H2. destruct (enc_norm_total _ _ HS1) as (low2 & rng3 & ds & En). rewrite En.
    destruct (enc_norm_spec _ _ _ _ _ _ HS1 En) as (HS2 & Hbig2 & Hds & Hback).
    destruct (IH low2 rng3 HS2 Hbig2 Hr) as (lowf & ops & E & Hops & HI). rewrite E.
    exists lowf, (ds ++ ops). split; [reflexivity|]. split; [apply cops_ok_app; assumption|].
    rewrite <- app_assoc.
    apply (InI_narrow low rng _ (rng / 2 ^ lr * (c1 - c0)) (c0 * (rng / 2 ^ lr)) (c1 * (rng / 2 ^ lr)) _ H3); [clearbody c0 c1; generalize (rng / 2 ^ lr); intros q; clear - Hc; nia|exact H6|].
    apply Hback; [|exact HI]. apply cops_ok_app; [exact Hops|]. constructor; [unfold finalop; cbn [conv aop_ok wop_ok]; clear; lia|constructor].
Qed.

Lemma lock_window s code F t P p low rng : cops_ok F -> Lock s code F t P p -> InI low rng F ->
  low mod M60 <= code mod M60 < low mod M60 + rng.
Proof.
  intros HF (_ & _ & HC) (H60 & Hlo & Hhi). rewrite HC. pose proof (pow2_pos (Wd F - 60)) as HK. set (K := 2 ^ (Wd F - 60)) in *. clearbody K.
  split.
  - apply N.div_le_lower_bound; [clear - HK; lia|]. rewrite N.mul_comm. exact Hlo.
  - apply N.div_lt_upper_bound; [clear - HK; lia|]. rewrite N.mul_comm. exact Hhi.
Qed.

(* the decoder returns the symbols *)
Lemma dec_bytes_follows : forall bs low rng lowf ops, SI low rng -> 65535 < rng -> Forall sym_in bs ->
  enc_bytes lr (cum_of fr) (low, rng) bs [] = Some (lowf, ops) ->
  forall s code acc t P p, RA s -> Forall aop_ok t -> p < 2 ^ P -> code < W -> code / M60 = low / M60 ->
  Lock s code (ops ++ [finalop lowf]) t P p ->
  exists s', dec_bytes (length bs) s lr (cum_of fr) low rng code acc = (s', Some (acc ++ bs)) /\ RA s' /\
    uval s' = fst (abvs t) * 2 ^ P + p /\ total s' = snd (abvs t) + P.
Proof.
  induction bs as [|b r IH]; intros low rng lowf ops HS Hbig Hall E s code acc t P p HR Ht Hp Hc Hj HL.
  - cbn [enc_bytes] in E. injection E as X1 X2. subst lowf ops. cbn [length dec_bytes]. exists s. rewrite app_nil_r.
    split; [reflexivity|]. split; [exact HR|]. destruct HL as (HU & HT & _). cbn [app] in HU, HT.
    unfold V, Wd, finalop in HU, HT. cbn [map conv abvs fst snd aop_val aop_size op_val op_size] in HU, HT.
    change (60 + 0 - 60) with 0 in HU, HT. change (2 ^ 0) with 1 in HU. rewrite N.mod_1_r in HU.
    split; [rewrite HU; clear; lia|rewrite HT; clear; lia].
  - pose proof (Forall_inv Hall) as Hb. pose proof (Forall_inv_tail Hall) as Hr.
    destruct (slot b Hb) as (Ec0 & Ec1 & Hc01 & Hc1). cbv zeta in Ec0, Ec1, Hc01, Hc1.
    rewrite enc_bytes_cons in E. cbv zeta in E. rewrite N.shiftr_div_pow2 in E.
    cbn [length dec_bytes]. cbv zeta. rewrite N.shiftr_div_pow2.
    set (c0 := nth (N.to_nat b) (cum_of fr) 0) in *. set (c1 := nth (S (N.to_nat b)) (cum_of fr) 0) in *.
    destruct (byte_state low rng c0 c1 (2 ^ lr) HS Hbig pow_lr Hc01 Hc1) as (H1 & H2 & H3 & H4 & HS1 & H6). cbv zeta in *.
    set (rng1 := rng / 2 ^ lr) in *.
    rewrite H2 in E. destruct (enc_norm 8 _ _ []) as [[[low2 rng3] ds]|] eqn:En; [|discriminate E].
    destruct (enc_norm_spec _ _ _ _ _ _ HS1 En) as (HS2 & Hbig2 & Hds & Hback).
    destruct (enc_bytes lr (cum_of fr) (low2, rng3) r []) as [[lf ops2]|] eqn:E2; [|discriminate E]. injection E as X1 X2. subst lf ops.
    destruct (enc_bytes_spec r low2 rng3 HS2 Hbig2 Hr) as (lf' & ops' & E2' & Hops2 & HI2). rewrite E2 in E2'. injection E2' as X1 X2. subst lf' ops'.
    assert (HG : cops_ok (ops2 ++ [finalop lowf])).
    { apply cops_ok_app; [exact Hops2|]. constructor; [unfold finalop; cbn [conv aop_ok wop_ok]; clear; lia|constructor]. }
    rewrite <- app_assoc in HL.
    pose proof (Hback _ HG HI2) as HI1.
    destruct (lock_window s code _ t P p _ _ (cops_ok_app _ _ Hds HG) HL HI1) as (Wlo & Whi). rewrite H3 in Wlo, Whi.
    (* the count *)
    replace (rng1 =? 0) with false by (symmetry; apply N.eqb_neq; clear - H1; lia).
    assert (Ediff : (code + W64 - low) mod W64 = code mod M60 - low mod M60).
    { destruct HS as (Hl & _). unfold W64. clear - Hl Hc Hj Wlo. lia. }
    rewrite Ediff. set (x := code mod M60 - low mod M60) in *.
    assert (Hx : c0 * rng1 <= x < c1 * rng1).
    { unfold x. assert (c0 * rng1 + rng1 * (c1 - c0) = c1 * rng1) by (clearbody c0 c1 rng1; clear - Hc01; nia). clear - Wlo Whi H. lia. }
    assert (Hcnt : c0 <= x / rng1 < c1).
    { split; [apply N.div_le_lower_bound; [clear - H1; lia|rewrite N.mul_comm; apply Hx]|apply N.div_lt_upper_bound; [clear - H1; lia|rewrite N.mul_comm; apply Hx]]. }
    replace (2 ^ lr <=? x / rng1) with false by (symmetry; apply N.leb_gt; clear - Hcnt Hc1; lia).
    assert (Esym : sym_of (cum_of fr) (x / rng1) 0 = b).
    { rewrite cum_of_eq. rewrite (sym_of_cums (x / rng1) fr 0 0 (N.to_nat b)).
      - clear; lia.
      - rewrite Hlen. destruct Hb as [Hb _]. clear - Hb. lia.
      - rewrite tot_firstn_S by (rewrite Hlen; destruct Hb as [Hb _]; clear - Hb; lia). fold (fq fr b). rewrite <- Ec0.
        clear - Hcnt Ec1. lia. }
    rewrite Esym. fold c0 c1. rewrite H2.
    destruct (dec_norm_follows 8 _ _ _ _ _ HS1 En (ops2 ++ [finalop lowf]) s code t P p HR HG Ht Hp
                ltac:(rewrite Wd_app; unfold Wd at 2, finalop; cbn [map conv abvs snd aop_size op_size]; clear; lia) Hc
                ltac:(rewrite H4; exact Hj) HL) as (s1 & code1 & Ed & HR1 & Hc1' & Hj1 & HL1).
    rewrite Ed.
    destruct (IH low2 rng3 lowf ops2 HS2 Hbig2 Hr E2 s1 code1 (acc ++ [b]) t P p HR1 Ht Hp Hc1' Hj1 HL1) as (s' & Ef & HR' & U' & T').
    exists s'. rewrite Ef, <- app_assoc. auto.
Qed.

End TABLE.

(* ---------- from the first read of the decoder ---------- *)
Lemma abvs_app a b : abvs (a ++ b) = (fst (abvs a) * 2 ^ snd (abvs b) + fst (abvs b), snd (abvs a) + snd (abvs b)).
Proof.
  induction a as [|o a IH]; cbn [app abvs fst snd].
  - destruct (abvs b) as [x y]. cbn [fst snd]. f_equal; clear; lia.
  - rewrite IH. cbn [fst snd]. rewrite N.pow_add_r. f_equal; clear; lia.
Qed.

Lemma lock_init s F t P p : RA s -> cops_ok F -> 60 <= Wd F -> Forall aop_ok t -> p < 2 ^ P ->
  uval s = fst (abvs (map conv F ++ t)) * 2 ^ P + p -> total s = snd (abvs (map conv F ++ t)) + P ->
  exists s' code, read_bits s 60 = (s', Val code) /\ RA s' /\ code < M60 /\ Lock s' code F t P p.
Proof.
  intros HR HF H60 Ht Hp HU HT. rewrite abvs_app in HU, HT. cbn [fst snd] in HU, HT. fold (V F) in HU. fold (Wd F) in HT.
  pose proof (V_lt F HF) as HV. pose proof (abvs_lt t Ht) as Htv.
  set (m := Wd F - 60) in *. assert (EW : Wd F = 60 + m) by (unfold m; clear - H60; lia). unfold Lock. fold m. clearbody m.
  rewrite EW in HV, HT. rewrite N.pow_add_r in HV. change (2 ^ 60) with M60 in HV.
  assert (HK2 : 2 ^ (m + snd (abvs t)) = 2 ^ m * 2 ^ snd (abvs t)) by apply N.pow_add_r.
  pose proof (pow2_pos m) as HK. set (K := 2 ^ m) in *. clearbody K.
  set (tv := fst (abvs t)) in *. set (tn := snd (abvs t)) in *. clearbody tv. pose proof (pow2_pos tn) as HT0. set (T := 2 ^ tn) in *.
  assert (HK0 : K <> 0) by (clear - HK; lia).
  pose proof (N.div_mod (V F) K HK0) as E. pose proof (N.mod_lt (V F) K HK0) as L.
  set (C := V F / K) in *. set (u := V F mod K) in *.
  assert (HC : C < M60). { unfold C. apply N.div_lt_upper_bound; [exact HK0|]. rewrite N.mul_comm. exact HV. }
  clearbody C u.
  destruct (rd_vec s 60 C (u * T + tv) (m + tn) P p HR ltac:(clear; lia) HC) as (s' & Er & HR' & U' & T').
  - rewrite HK2. clear - L Htv. nia.
  - exact Hp.
  - rewrite HU, HK2, E. clear. lia.
  - rewrite HT. clear. lia.
  - exists s', C. split; [exact Er|]. split; [exact HR'|]. split; [exact HC|].
    split; [exact U'|]. split; [exact T'|]. apply N.mod_small. exact HC.
Qed.

Lemma SI_init : SI 0 TOP_RANGE /\ 65535 < TOP_RANGE.
Proof. unfold SI, TOP_RANGE. repeat split; try (clear; lia). Qed.

(* the core of the codec: any run of symbols of the table, from the initial state *)
Theorem range_core_roundtrip lr fr bs : lr <= 16 -> length fr = 256%nat -> tot fr = 2 ^ lr -> Forall (sym_in fr) bs ->
  exists lowf ops, enc_bytes lr (cum_of fr) (0, TOP_RANGE) bs [] = Some (lowf, ops) /\ cops_ok (ops ++ [finalop lowf]) /\
    forall s t P p, RA s -> Forall aop_ok t -> p < 2 ^ P ->
      uval s = fst (abvs (map conv (ops ++ [finalop lowf]) ++ t)) * 2 ^ P + p -> total s = snd (abvs (map conv (ops ++ [finalop lowf]) ++ t)) + P ->
      exists s1 code s', read_bits s 60 = (s1, Val code) /\
        dec_bytes (length bs) s1 lr (cum_of fr) 0 TOP_RANGE code [] = (s', Some bs) /\ RA s' /\
        uval s' = fst (abvs t) * 2 ^ P + p /\ total s' = snd (abvs t) + P.
Proof.
  intros Hlr Hlen Htot Hall. destruct SI_init as [HS Hbig].
  destruct (enc_bytes_spec lr fr Hlr Hlen Htot bs 0 TOP_RANGE HS Hbig Hall) as (lowf & ops & E & Hops & HI).
  assert (HF : cops_ok (ops ++ [finalop lowf])).
  { apply cops_ok_app; [exact Hops|]. constructor; [unfold finalop; cbn [conv aop_ok wop_ok]; clear; lia|constructor]. }
  exists lowf, ops. split; [exact E|]. split; [exact HF|].
  intros s t P p HR Ht Hp HU HT.
  destruct (lock_init s _ t P p HR HF (proj1 HI) Ht Hp HU HT) as (s1 & code & Er & HR1 & Hc & HL).
  destruct (dec_bytes_follows lr fr Hlr Hlen Htot bs 0 TOP_RANGE lowf ops HS Hbig Hall E s1 code [] t P p HR1 Ht Hp
              ltac:(clear - Hc; lia) ltac:(rewrite (N.div_small code) by exact Hc; reflexivity) HL) as (s' & Ed & HR' & U' & T').
  exists s1, code, s'. auto.
Qed.
