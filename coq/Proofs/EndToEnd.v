(* Writer model -> container bytes -> reader models, composed (C01): for the NONE / NONE pipeline nothing
   is abstract between the caller's Write calls and the caller's Read calls except the goroutine
   scheduling (C07) and the checksum function. *)
From Coq Require Import List NArith ZArith Lia Bool ZifyN ZifyNat ZifyBool.
From KV Require Import Model.OutBS Model.InBS Model.Header Model.Container Model.Writer Model.Reader
  Proofs.BinCoderProofs Proofs.HeaderProofs Proofs.WriterProofs Proofs.ReaderProofs Proofs.ContainerProofs.
Import ListNotations.
Open Scope N_scope.
Ltac Zify.zify_post_hook ::= idtac.

Definition frame_of (p : pframe) : frame := match p with PData b => FData b | PFail => FFail | PEnd => FEnd end.

Lemma chunks_f_ok B : 0 < B -> forall f l, bytes_ok l ->
  Forall (fun x => x <> [] /\ N.of_nat (length x) <= B /\ bytes_ok x) (chunks_f f B l) /\ (length (chunks_f f B l) <= length l)%nat.
Proof.
  intros HB. induction f as [|f IH]; intros l Hl; cbn [chunks_f]; [split; [constructor|cbn [length]; lia]|].
  destruct l as [|x t] eqn:El; [split; [constructor|cbn [length]; lia]|]. rewrite <- El in *.
  destruct (IH (skipn (N.to_nat B) l) (bytes_ok_skipn _ _ Hl)) as [I1 I2].
  assert (Hpos : (0 < N.to_nat B)%nat) by lia.
  split.
  - constructor; [|exact I1]. split; [|split].
    + rewrite El. destruct (N.to_nat B); [lia|]. cbn [firstn]. discriminate.
    + rewrite firstn_length. lia.
    + apply bytes_ok_firstn. exact Hl.
  - cbn [length]. rewrite skipn_length in I2. assert (0 < length l)%nat by (rewrite El; cbn [length]; lia). lia.
Qed.

Theorem end_to_end_none (hash : list N -> N) (evalid tvalid : N -> bool) c jw hw jr hr (ws : list (list N)) (ns : list N) nframes rbuf sched :
  cfg_ok evalid tvalid c ->
  (h_ck c = 1 -> forall l, hash l < 2 ^ 32) -> (h_ck c = 2 -> forall l, hash l < 2 ^ 64) ->
  bytes_ok (concat ws) -> (length (concat ws) < nframes)%nat ->
  0 < jw -> 0 < jr -> 0 < rbuf -> rbuf mod 8 = 0 ->
  let B := h_bsize c in
  exists s1 s2 frames,
    do_writes B jw hw (init_w jw) ws = (s1, true) /\
    w_close B jw hw (fun _ => false) s1 false false = (s2, false) /\
    parse_stream hash evalid tvalid nframes rbuf sched (write_stream hash c (map snd (w_out s2))) = Some (norm_cfg c, frames) /\
    fst (do_reads B jr hr (init_r (map frame_of frames)) ns) = spec_reads (concat ws) ns.
Proof.
  intros Hc H32 H64 Hd Hnf Hjw Hjr Hr Hr8 B.
  assert (H8 : B <= 1073741824) by (destruct (bs_ok _ _ _ Hc) as [[_ X] _]; unfold MAX_BLOCK in X; exact X).
  assert (HB : 0 < B) by (destruct (bs_ok _ _ _ Hc) as [[X _] _]; unfold MIN_BLOCK in X; unfold B; lia).
  destruct (writer_chunking B jw hw HB Hjw ws) as (s1 & s2 & E1 & E2 & _ & O & _).
  destruct (chunks_f_ok B HB (length (concat ws)) (concat ws) Hd) as [Hok Hlen]. fold (chunks B (concat ws)) in Hok, Hlen.
  assert (Hbl : Forall (blk_ok B) (map snd (w_out s2))).
  { rewrite O. eapply Forall_impl; [|exact Hok]. intros x (X1 & X2 & X3). unfold blk_ok. repeat split; try assumption. lia. }
  exists s1, s2, (map PData (map snd (w_out s2)) ++ [PEnd]).
  split; [exact E1|]. split; [exact E2|]. split.
  - apply (container_roundtrip hash evalid tvalid c Hc H32 H64 _ nframes rbuf sched Hbl); [rewrite O; lia|exact Hr|exact Hr8].
  - rewrite map_app, map_map. cbn [map frame_of].
    change (map (fun x : list N => frame_of (PData x)) (map snd (w_out s2))) with (map FData (map snd (w_out s2))).
    rewrite O. apply reader_valid_stream; assumption.
Qed.
