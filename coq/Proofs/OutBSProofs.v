(* Output bit stream: every write appends exactly its bits (numeric bit-vector view). *)
From Coq Require Import List NArith ZArith Lia Bool ZifyN ZifyNat.
From KV Require Import Model.OutBS Lib.Bits.
Import ListNotations.
Open Scope N_scope.

Local Opaque be8.
Local Arguments N.pow : simpl never.
Local Arguments N.div : simpl never.
Local Arguments N.modulo : simpl never.
Local Arguments N.mul : simpl never.
Local Arguments N.sub : simpl never.
Local Arguments N.add : simpl never.

Ltac pj := cbn [o_closed o_written o_buf o_size o_avail o_cur o_out o_calls set_buf set_acc].
Ltac pjin H := cbn [o_closed o_written o_buf o_size o_avail o_cur o_out o_calls set_buf set_acc] in H.

Definition healthy : N -> bool := fun _ => false.

(* the bytes pushed so far (delivered or still buffered), and the abstract bit vector *)
Definition obytes (s : obs) : list N := o_out s ++ o_buf s.
Definition onbits (s : obs) : N := 8 * N.of_nat (length (obytes s)) + (64 - o_avail s).
Definition oval (s : obs) : N := be_val (obytes s) * 2 ^ (64 - o_avail s) + o_cur s / 2 ^ o_avail s.

Record BInv (s : obs) : Prop := {
  b_open : o_closed s = false;
  b_size : 16 <= o_size s;
  b_pos : o_pos s + 8 <= o_size s;
  b_written : o_written s = (8 * Z.of_nat (length (o_out s)))%Z
}.

Record WF (s : obs) : Prop := {
  wf_b : BInv s;
  wf_av : 1 <= o_avail s <= 64;
  wf_cur : o_cur s < 2 ^ 64;
  wf_low : o_cur s mod 2 ^ o_avail s = 0
}.

Lemma wf_new n : 16 <= n -> WF (new_obs n).
Proof.
  intros H. split; [split|..]; cbn; try reflexivity; try lia.
Qed.

Lemma flush_healthy s : o_closed s = false ->
  flush healthy s =
    (if 0 <? o_pos s
     then mkO false (o_written s + 8 * Z.of_N (o_pos s))%Z [] (o_size s) (o_avail s) (o_cur s)
              (o_out s ++ o_buf s) (o_calls s + 1)
     else s, false).
Proof.
  intros Ho. unfold flush, healthy. rewrite Ho. destruct (0 <? o_pos s); [|reflexivity].
  destruct s; cbn in *; subst; reflexivity.
Qed.

Lemma push_ok s v : BInv s ->
  exists s', push healthy s v = (s', false) /\ BInv s' /\
    obytes s' = obytes s ++ be8 v /\ o_avail s' = o_avail s /\ o_cur s' = o_cur s.
Proof.
  intros [Ho Hs Hp Hw]. unfold push.
  replace (o_size s <? o_pos s + 8) with false by (symmetry; apply N.ltb_ge; lia).
  set (s1 := set_buf s (o_buf s ++ be8 v)).
  assert (Hp1 : o_pos s1 = o_pos s + 8).
  { unfold o_pos, s1; pj. rewrite app_length, be8_length. lia. }
  assert (Hb1 : obytes s1 = obytes s ++ be8 v).
  { unfold obytes, s1; pj. rewrite app_assoc. reflexivity. }
  destruct (o_size s1 - 8 <=? o_pos s1) eqn:E.
  - rewrite flush_healthy by (unfold s1; pj; exact Ho).
    replace (0 <? o_pos s1) with true by (symmetry; apply N.ltb_lt; lia).
    eexists; split; [reflexivity|]. split; [|split; [|split]]; pj; try reflexivity.
    + assert (Hsz : o_size s1 = o_size s) by reflexivity.
      split; pj.
      * reflexivity.
      * rewrite Hsz; exact Hs.
      * unfold o_pos at 1; pj. cbn [length N.of_nat]. rewrite Hsz. lia.
      * change (o_written s1) with (o_written s). change (o_out s1) with (o_out s).
        rewrite Hw, app_length. unfold o_pos. lia.
    + unfold obytes; pj. rewrite app_nil_r. exact Hb1.
  - apply N.leb_gt in E. exists s1. split; [reflexivity|]. split; [|split; [exact Hb1|split; reflexivity]].
    split; unfold s1 in *; pj; auto. pjin E. lia.
Qed.

Lemma mod_mod_pow2 x a b : b <= a -> (x mod 2 ^ a) mod 2 ^ b = x mod 2 ^ b.
Proof.
  intros H. rewrite (pow2_split a b H).
  assert (HB : 2 ^ b <> 0) by (apply N.pow_nonzero; discriminate).
  assert (HA : 2 ^ (a - b) <> 0) by (apply N.pow_nonzero; discriminate).
  rewrite (N.mul_comm (2 ^ (a - b))). rewrite N.mod_mul_r by assumption.
  rewrite (N.mul_comm (2 ^ b)). rewrite N.mod_add by assumption.
  apply N.mod_mod; assumption.
Qed.

(* the accumulator expression of WriteBits, arithmetically *)
Lemma wb_expr v c a : 1 <= c <= 64 -> 1 <= a <= 64 ->
  shr64 (shl64 v (64 - c)) (64 - a) =
  if c <? a then (v mod 2 ^ c) * 2 ^ (a - c) else (v mod 2 ^ c) / 2 ^ (c - a).
Proof.
  intros Hc Ha.
  rewrite shl64_spec by lia. rewrite mul_pow_mod by lia.
  replace (64 - (64 - c)) with c by lia.
  rewrite shr64_spec by lia.
  destruct (c <? a) eqn:E.
  - apply N.ltb_lt in E. rewrite (pow2_split (64 - c) (64 - a)) by lia.
    replace (64 - c - (64 - a)) with (a - c) by lia.
    rewrite N.mul_assoc. apply N.div_mul. apply N.pow_nonzero; discriminate.
  - apply N.ltb_ge in E. rewrite (pow2_split (64 - a) (64 - c)) by lia.
    replace (64 - a - (64 - c)) with (c - a) by lia.
    apply N.div_mul_cancel_r; apply N.pow_nonzero; discriminate.
Qed.

Lemma div_exact_pow x a : x mod 2 ^ a = 0 -> x = (x / 2 ^ a) * 2 ^ a.
Proof.
  intros H. rewrite N.mul_comm. apply N.div_exact; [apply N.pow_nonzero; discriminate|exact H].
Qed.

Theorem write_bits_spec s v c : WF s -> c <= 64 ->
  exists s', write_bits healthy s v c = (s', false) /\ WF s' /\
    oval s' = oval s * 2 ^ c + v mod 2 ^ c /\ onbits s' = onbits s + c /\
    o_out s' ++ o_buf s' = obytes s' .
Proof.
  intros [HB [Ha1 Ha2] Hcur Hlow] Hc. unfold write_bits.
  replace (64 <? c) with false by (symmetry; apply N.ltb_ge; exact Hc).
  set (a := o_avail s) in *. set (cur := o_cur s) in *.
  pose proof (div_exact_pow cur a Hlow) as Hq. set (q := cur / 2 ^ a) in *.
  assert (Hqlt : q * 2 ^ a < 2 ^ 64) by lia.
  pose proof (pow2_pos a) as Pa. pose proof (pow2_pos c) as Pc.
  destruct (N.eq_dec c 0) as [->|Hc0].
  { (* zero bits: nothing changes *)
    replace (shl64 v (64 - 0)) with 0 by (symmetry; apply shl64_64; lia).
    assert (Hx : shr64 0 (64 - a) = 0).
    { unfold shr64. destruct (64 <=? 64 - a); [reflexivity|]. apply N.shiftr_0_l. }
    rewrite Hx, N.lor_0_r.
    replace (a <=? 0) with false by (symmetry; apply N.leb_gt; lia).
    exists (set_acc (set_acc s a cur) (a - 0) cur). split; [reflexivity|].
    replace (a - 0) with a by lia.
    split; [|split; [|split]].
    - split; [destruct HB; split; auto|cbn; lia|exact Hcur|exact Hlow].
    - unfold oval, obytes; cbn. fold a cur. rewrite N.mod_1_r. lia.
    - unfold onbits, obytes; cbn. fold a. lia.
    - reflexivity. }
  assert (Hc1 : 1 <= c <= 64) by lia.
  rewrite (wb_expr v c a Hc1 (conj Ha1 Ha2)).
  set (vm := v mod 2 ^ c). assert (Hvm : vm < 2 ^ c) by (apply N.mod_lt; apply N.pow_nonzero; discriminate).
  destruct (c <? a) eqn:Eca.
  - (* the bits fit in the accumulator *)
    apply N.ltb_lt in Eca.
    replace (a <=? c) with false by (symmetry; apply N.leb_gt; exact Eca).
    pose proof (pow2_split a c ltac:(lia)) as Hsp. pose proof (pow2_pos (a - c)) as Pac.
    assert (HX : vm * 2 ^ (a - c) < 2 ^ a) by (rewrite Hsp; nia).
    rewrite (lor_disjoint cur (vm * 2 ^ (a - c)) a Hlow HX).
    eexists; split; [reflexivity|].
    assert (Hdiv : (cur + vm * 2 ^ (a - c)) / 2 ^ (a - c) = q * 2 ^ c + vm).
    { rewrite Hq, Hsp. replace (q * (2 ^ (a - c) * 2 ^ c) + vm * 2 ^ (a - c)) with ((q * 2 ^ c + vm) * 2 ^ (a - c)) by lia.
      apply N.div_mul. lia. }
    split; [|split; [|split]].
    + split; [destruct HB; split; auto|cbn; lia| |]; cbn.
      * pose proof (pow2_split 64 a Ha2) as H64. pose proof (pow2_pos (64 - a)).
        assert (q + 1 <= 2 ^ (64 - a)) by nia. nia.
      * rewrite Hq, Hsp. replace (q * (2 ^ (a - c) * 2 ^ c) + vm * 2 ^ (a - c)) with ((q * 2 ^ c + vm) * 2 ^ (a - c)) by lia.
        apply N.mod_mul. lia.
    + unfold oval, obytes; cbn. fold a cur. rewrite Hdiv. fold q.
      replace (64 - (a - c)) with (64 - a + c) by lia. rewrite N.pow_add_r. lia.
    + unfold onbits, obytes; cbn. fold a. lia.
    + reflexivity.
  - (* the accumulator fills up: push, keep the low bits *)
    apply N.ltb_ge in Eca.
    replace (a <=? c) with true by (symmetry; apply N.leb_le; exact Eca).
    pose proof (pow2_split c a Eca) as Hsp. set (r := c - a) in *. pose proof (pow2_pos r) as Pr.
    assert (HX : vm / 2 ^ r < 2 ^ a).
    { apply N.div_lt_upper_bound; [lia|]. rewrite <- Hsp. exact Hvm. }
    rewrite (lor_disjoint cur (vm / 2 ^ r) a Hlow HX).
    set (w := cur + vm / 2 ^ r).
    assert (Hw : w < 2 ^ 64).
    { pose proof (pow2_split 64 a Ha2) as H64. pose proof (pow2_pos (64 - a)).
      assert (q + 1 <= 2 ^ (64 - a)) by nia. unfold w. rewrite Hq. nia. }
    destruct (push_ok (set_acc s a w) w) as (s1 & Hpush & HB1 & Hby1 & Hav1 & Hcu1).
    { destruct HB; split; auto. }
    rewrite Hpush.
    eexists; split; [reflexivity|].
    assert (Hr64 : r < 64) by lia.
    assert (Hcur' : shl64 v (64 - r) = (v mod 2 ^ r) * 2 ^ (64 - r)).
    { destruct (N.eq_dec r 0) as [Hr0|Hr0].
      - rewrite Hr0. rewrite shl64_64 by lia. rewrite N.mod_1_r. lia.
      - rewrite shl64_spec by lia. rewrite mul_pow_mod by lia. f_equal. f_equal. f_equal. lia. }
    assert (Hvr : v mod 2 ^ r < 2 ^ r) by (apply N.mod_lt; lia).
    split; [|split; [|split]].
    + split; cbn.
      * destruct HB1; split; auto.
      * lia.
      * rewrite Hcur'. pose proof (pow2_split 64 r ltac:(lia)) as H64. rewrite H64. nia.
      * rewrite Hcur'. replace (64 - r) with (64 - r) by lia. apply N.mod_mul. apply N.pow_nonzero; discriminate.
    + unfold oval; cbn.
      change (o_out s1 ++ o_buf s1) with (obytes s1). rewrite Hby1.
      unfold obytes at 1; cbn. fold (obytes s). fold a cur.
      rewrite be_val_app, be8_length, (be_val_be8 w Hw).
      change (8 * N.of_nat 8) with 64.
      rewrite Hcur'. replace (64 - (64 - r)) with r by lia.
      rewrite N.div_mul by (apply N.pow_nonzero; discriminate).
      fold q. unfold w.
      assert (Hvmr : vm = (vm / 2 ^ r) * 2 ^ r + v mod 2 ^ r).
      { unfold vm at 1. rewrite <- (mod_mod_pow2 v c r) by lia. fold vm.
        rewrite N.mul_comm. apply N.div_mod. lia. }
      replace (2 ^ c) with (2 ^ r * 2 ^ a) by (symmetry; exact Hsp).
      pose proof (pow2_split 64 a Ha2) as H64.
      rewrite Hq. rewrite H64. lia.
    + unfold onbits; cbn. change (o_out s1 ++ o_buf s1) with (obytes s1). rewrite Hby1.
      rewrite app_length, be8_length. unfold obytes at 1; cbn. fold (obytes s). fold a. lia.
    + reflexivity.
Qed.

Lemma land_1 b : N.land b 1 = b mod 2.
Proof. change 1 with (N.ones 1). rewrite N.land_ones. reflexivity. Qed.

Theorem write_bit_spec s b : WF s ->
  exists s', write_bit healthy s b = (s', false) /\ WF s' /\
    oval s' = oval s * 2 + b mod 2 /\ onbits s' = onbits s + 1.
Proof.
  intros [HB [Ha1 Ha2] Hcur Hlow]. unfold write_bit.
  rewrite land_1.
  set (b1 := b mod 2). assert (Hb1 : b1 < 2) by (apply N.mod_lt; discriminate).
  set (a := o_avail s) in *. set (cur := o_cur s) in *.
  pose proof (div_exact_pow cur a Hlow) as Hq. set (q := cur / 2 ^ a) in *.
  pose proof (pow2_pos a) as Pa.
  destruct (a <=? 1) eqn:Ea.
  - apply N.leb_le in Ea. assert (Hav : o_avail s = 1) by (subst a; lia). subst a. rewrite Hav in *.
    change (2 ^ 1) with 2 in *.
    rewrite (lor_disjoint cur b1 1 Hlow Hb1).
    assert (Hw : cur + b1 < 2 ^ 64).
    { change (2 ^ 64) with (2 ^ 63 * 2) in *. assert (q + 1 <= 2 ^ 63) by lia. lia. }
    destruct (push_ok s (cur + b1) HB) as (s1 & Hpush & HB1 & Hby1 & Hav1 & Hcu1).
    rewrite Hpush. eexists; split; [reflexivity|]. split; [|split].
    + split; pj; [destruct HB1; split; auto|lia|reflexivity|reflexivity].
    + unfold oval; pj. change (obytes (set_acc s1 64 0)) with (obytes s1). rewrite Hby1.
      rewrite be_val_app, be8_length, (be_val_be8 _ Hw). change (8 * N.of_nat 8) with 64.
      fold cur. rewrite Hav. change (64 - 64) with 0. change (64 - 1) with 63. change (2 ^ 0) with 1.
      change (0 / 2 ^ 64) with 0. change (2 ^ 1) with 2. change (2 ^ 64) with (2 ^ 63 * 2). fold q. lia.
    + unfold onbits; pj. change (obytes (set_acc s1 64 0)) with (obytes s1). rewrite Hby1.
      rewrite app_length, be8_length, Hav. lia.
  - apply N.leb_gt in Ea.
    assert (Hsh : shl64 b1 (a - 1) = b1 * 2 ^ (a - 1)).
    { rewrite shl64_spec by lia. apply N.mod_small.
      pose proof (pow2_split 64 (a - 1) ltac:(lia)) as H64.
      assert (2 ^ 1 <= 2 ^ (64 - (a - 1))) by (apply N.pow_le_mono_r; lia). change (2 ^ 1) with 2 in *.
      pose proof (pow2_pos (a - 1)). rewrite H64. nia. }
    rewrite Hsh.
    pose proof (pow2_split a (a - 1) ltac:(lia)) as Hsp. replace (a - (a - 1)) with 1 in Hsp by lia.
    change (2 ^ 1) with 2 in Hsp. pose proof (pow2_pos (a - 1)) as Pa1.
    assert (HX : b1 * 2 ^ (a - 1) < 2 ^ a) by (rewrite Hsp; nia).
    rewrite (lor_disjoint cur _ a Hlow HX).
    eexists; split; [reflexivity|]. split; [|split].
    + split; pj; [destruct HB; split; auto|lia| |].
      * pose proof (pow2_split 64 a Ha2) as H64. pose proof (pow2_pos (64 - a)).
        assert (q + 1 <= 2 ^ (64 - a)) by nia. nia.
      * rewrite Hq, Hsp. replace (q * (2 * 2 ^ (a - 1)) + b1 * 2 ^ (a - 1)) with ((q * 2 + b1) * 2 ^ (a - 1)) by lia.
        apply N.mod_mul. lia.
    + unfold oval, obytes; pj. fold a cur.
      replace (64 - (a - 1)) with (64 - a + 1) by lia. rewrite N.pow_add_r. change (2 ^ 1) with 2.
      assert (Hd : (cur + b1 * 2 ^ (a - 1)) / 2 ^ (a - 1) = q * 2 + b1).
      { rewrite Hq, Hsp. replace (q * (2 * 2 ^ (a - 1)) + b1 * 2 ^ (a - 1)) with ((q * 2 + b1) * 2 ^ (a - 1)) by lia.
        apply N.div_mul. lia. }
      rewrite Hd. fold q. lia.
    + unfold onbits, obytes; pj. fold a. lia.
Qed.

(* ---------- Close: the byte image is the bit vector padded with zeros ---------- *)

Lemma spill_spec cur : forall n k shift buf,
  ((1 <= n)%nat -> shift = 56 - 8 * k /\ k + N.of_nat n <= 8) ->
  exists top, spill n shift buf cur = buf ++ top /\ length top = n /\
    be_val top = (cur / 2 ^ (64 - 8 * (k + N.of_nat n))) mod 2 ^ (8 * N.of_nat n).
Proof.
  induction n as [|m IH]; intros k shift buf H.
  - exists []. cbn [spill length be_val N.of_nat]. rewrite app_nil_r. repeat split.
    change (2 ^ (8 * 0)) with 1. rewrite N.mod_1_r. reflexivity.
  - destruct (H ltac:(lia)) as [Hs Hk]. cbn [spill].
    destruct (IH (k + 1) (shift - 8) (buf ++ [N.land (N.shiftr cur shift) 255])) as (top' & E & L & V).
    { intros Hm. split; lia. }
    exists (N.land (N.shiftr cur shift) 255 :: top'). rewrite E, <- app_assoc. split; [reflexivity|].
    split; [cbn [length]; lia|].
    cbn [be_val]. rewrite L, V.
    change 255 with (N.ones 8). rewrite N.land_ones, N.shiftr_div_pow2, Hs.
    replace (k + 1 + N.of_nat m) with (k + N.of_nat (S m)) by lia.
    set (e := 64 - 8 * (k + N.of_nat (S m))).
    replace (56 - 8 * k) with (e + 8 * N.of_nat m) by lia.
    rewrite N.pow_add_r, <- N.div_div by (apply N.pow_nonzero; discriminate).
    set (y := cur / 2 ^ e).
    replace (8 * N.of_nat (S m)) with (8 * N.of_nat m + 8) by lia.
    rewrite N.pow_add_r.
    rewrite (N.mod_mul_r y) by (apply N.pow_nonzero; discriminate).
    lia.
Qed.

Theorem close_image s : WF s ->
  exists s' pad, close healthy s = (s', false) /\ o_closed s' = true /\ pad < 8 /\
    8 * N.of_nat (length (o_out s')) = onbits s + pad /\
    be_val (o_out s') = oval s * 2 ^ pad /\
    written s' = Z.of_N (onbits s).
Proof.
  intros [[Ho Hsz Hp Hw] [Ha1 Ha2] Hcur Hlow]. unfold close. rewrite Ho.
  set (a := o_avail s) in *. set (cur := o_cur s) in *.
  set (n := (64 - a + 7) / 8).
  assert (Hn : 64 - a <= 8 * n < 64 - a + 8).
  { unfold n. pose proof (N.div_mod (64 - a + 7) 8 ltac:(discriminate)).
    pose proof (N.mod_lt (64 - a + 7) 8 ltac:(discriminate)). lia. }
  replace (o_size s <? o_pos s + n) with false by (symmetry; apply N.ltb_ge; lia).
  destruct (spill_spec cur (N.to_nat n) 0 56 (o_buf s)) as (top & E & L & V).
  { intros _. split; lia. }
  rewrite E. rewrite N2Nat.id in V.
  set (s1 := mkO false _ (o_buf s ++ top) _ 64 _ _ _).
  rewrite (flush_healthy s1) by reflexivity.
  set (pad := 8 * n - (64 - a)).
  assert (Hpos1 : o_pos s1 = o_pos s + n).
  { unfold o_pos, s1; pj. rewrite app_length, L. lia. }
  assert (Hfinal : forall sf, sf = (if 0 <? o_pos s1
       then mkO false (o_written s1 + 8 * Z.of_N (o_pos s1))%Z [] (o_size s1) (o_avail s1) (o_cur s1)
              (o_out s1 ++ o_buf s1) (o_calls s1 + 1) else s1) ->
       o_out sf = obytes s ++ top /\ (o_written sf = o_written s1 + 8 * Z.of_N (o_pos s1))%Z).
  { intros sf ->. destruct (0 <? o_pos s1) eqn:E0.
    - pj. unfold s1 at 1 2; pj. unfold obytes. rewrite app_assoc. split; reflexivity.
    - apply N.ltb_ge in E0. assert (o_pos s1 = 0) by lia.
      assert (Hnil : o_buf s ++ top = []).
      { unfold o_pos, s1 in H; pjin H. destruct (o_buf s ++ top); [reflexivity|cbn [length] in H; lia]. }
      unfold s1 at 1; pj. unfold obytes. apply app_eq_nil in Hnil. destruct Hnil as [-> ->].
      rewrite !app_nil_r. split; [reflexivity|]. rewrite H. lia. }
  destruct (Hfinal _ eq_refl) as [Hout Hwr].
  set (sf := if 0 <? o_pos s1 then _ else s1) in *.
  exists (mkO true (o_written sf - 64)%Z [] 8 0 (o_cur sf) (o_out sf) (o_calls sf)), pad.
  split; [reflexivity|]. split; [reflexivity|]. split; [unfold pad; clear - Hn Ha1 Ha2; lia|]. pj.
  rewrite Hout. split; [|split].
  - rewrite app_length, L. unfold onbits. fold a. unfold pad. clear - Hn Ha1 Ha2. lia.
  - rewrite be_val_app, L, N2Nat.id, V.
    replace (0 + n) with n by (clear; lia).
    pose proof (div_exact_pow cur a Hlow) as Hq. set (q := cur / 2 ^ a) in *.
    assert (Ha : a = (64 - 8 * n) + pad) by (unfold pad; clear - Hn Ha1 Ha2; lia).
    assert (Hd : cur / 2 ^ (64 - 8 * n) = q * 2 ^ pad).
    { rewrite Hq, Ha at 1. rewrite N.pow_add_r, (N.mul_comm (2 ^ (64 - 8 * n))), N.mul_assoc.
      apply N.div_mul. apply N.pow_nonzero; discriminate. }
    rewrite Hd.
    assert (H8n : 8 * n = 64 - a + pad) by (unfold pad; clear - Hn Ha1 Ha2; lia).
    rewrite N.mod_small.
    + unfold oval. fold a cur q. rewrite H8n, N.pow_add_r.
      generalize (be_val (obytes s)) (2 ^ (64 - a)) (2 ^ pad). clear. intros; lia.
    + pose proof (pow2_split 64 a Ha2) as H64.
      assert (Hq64 : q < 2 ^ (64 - a)).
      { apply (N.mul_lt_mono_pos_r (2 ^ a)); [apply pow2_pos|]. rewrite <- Hq, <- H64. exact Hcur. }
      rewrite H8n, N.pow_add_r.
      apply N.mul_lt_mono_pos_r; [apply pow2_pos|exact Hq64].
  - unfold written, o_pos; pj. cbn [length N.of_nat]. rewrite Hwr.
    unfold s1 at 1; pj. rewrite Hpos1, Hw. unfold onbits, obytes. rewrite app_length. fold a.
    unfold o_pos. generalize (length (o_out s)) (length (o_buf s)). clear - Hn Ha1 Ha2. intros; lia.
Qed.

(* ---------- programs ---------- *)

Lemma written_wf s : WF s -> written s = Z.of_N (onbits s).
Proof.
  intros [[Ho Hsz Hp Hw] [Ha1 Ha2] _ _]. unfold written, onbits, obytes, o_pos. rewrite Hw, app_length.
  generalize (length (o_out s)) (length (o_buf s)). intros; lia.
Qed.

Inductive wop := WBit (b : N) | WBits (v c : N).

Definition wop_ok (o : wop) : Prop := match o with WBit _ => True | WBits _ c => c <= 64 end.

Definition run_wop (s : obs) (o : wop) : obs * bool :=
  match o with WBit b => write_bit healthy s b | WBits v c => write_bits healthy s v c end.

Fixpoint run_wops (s : obs) (ops : list wop) : obs * bool :=
  match ops with
  | [] => (s, false)
  | o :: t => match run_wop s o with (s1, true) => (s1, true) | (s1, false) => run_wops s1 t end
  end.

(* the trivially correct bit-vector model: (value, length) with big-endian append *)
Definition bv_app (acc : N * N) (o : wop) : N * N :=
  match o with
  | WBit b => (fst acc * 2 + b mod 2, snd acc + 1)
  | WBits v c => (fst acc * 2 ^ c + v mod 2 ^ c, snd acc + c)
  end.

Theorem writer_program ops : forall s, WF s -> Forall wop_ok ops ->
  exists s', run_wops s ops = (s', false) /\ WF s' /\
    (oval s', onbits s') = fold_left bv_app ops (oval s, onbits s) /\
    written s' = Z.of_N (onbits s').
Proof.
  induction ops as [|o t IH]; intros s Hwf Hok.
  - exists s. cbn [run_wops fold_left]. split; [reflexivity|]. split; [exact Hwf|]. split; [reflexivity|].
    apply written_wf; exact Hwf.
  - inversion Hok as [|? ? Ho Ht]; subst. cbn [run_wops fold_left].
    assert (Hstep : exists s1, run_wop s o = (s1, false) /\ WF s1 /\
              (oval s1, onbits s1) = bv_app (oval s, onbits s) o).
    { destruct o as [b|v c]; cbn [run_wop bv_app fst snd].
      - destruct (write_bit_spec s b Hwf) as (s1 & E & W & V & B). exists s1. rewrite V, B. auto.
      - destruct (write_bits_spec s v c Hwf Ho) as (s1 & E & W & V & B & _). exists s1. rewrite V, B. auto. }
    destruct Hstep as (s1 & E & W & V). rewrite E, <- V. apply IH; assumption.
Qed.

(* whole life of a stream: any program, then Close *)
Theorem writer_image bufsize ops : 16 <= bufsize -> Forall wop_ok ops ->
  exists s1 s2 pad V L,
    run_wops (new_obs bufsize) ops = (s1, false) /\ close healthy s1 = (s2, false) /\
    (V, L) = fold_left bv_app ops (0, 0) /\
    o_closed s2 = true /\ pad < 8 /\
    8 * N.of_nat (length (o_out s2)) = L + pad /\
    be_val (o_out s2) = V * 2 ^ pad /\
    written s2 = Z.of_N L.
Proof.
  intros Hb Hok.
  destruct (writer_program ops (new_obs bufsize) (wf_new _ Hb) Hok) as (s1 & E1 & W1 & V1 & _).
  destruct (close_image s1 W1) as (s2 & pad & E2 & C & P & Len & Img & Wr).
  exists s1, s2, pad, (oval s1), (onbits s1).
  split; [exact E1|]. split; [exact E2|]. split; [exact V1|]. split; [exact C|]. split; [exact P|].
  split; [exact Len|]. split; [exact Img|exact Wr].
Qed.

(* ---------- closed streams refuse every operation, and the counter does not move ---------- *)

Definition closed_state (s : obs) : Prop :=
  o_closed s = true /\ o_avail s = 0 /\ o_buf s = [] /\ o_size s = 8.

Lemma close_gives_closed_state s s' : WF s -> close healthy s = (s', false) -> closed_state s'.
Proof.
  intros Hwf E. destruct (close_image s Hwf) as (s2 & pad & E2 & _).
  rewrite E in E2. inversion E2; subst s2. clear E2.
  revert E. unfold close. destruct Hwf as [[Ho _ Hp _] _ _ _]. rewrite Ho.
  destruct (o_size s <? o_pos s + (64 - o_avail s + 7) / 8); [intros E; inversion E; subst; congruence|].
  destruct (flush healthy _) as [sf [|]]; intros E; inversion E; subst; repeat split; reflexivity.
Qed.

Theorem closed_refuses f s : closed_state s ->
  (forall b, exists s', write_bit f s b = (s', true) /\ closed_state s' /\ written s' = written s) /\
  (forall v c, exists s', write_bits f s v c = (s', true) /\ closed_state s' /\ written s' = written s) /\
  (forall bits c, write_array f s bits c = (s, true)) /\
  close f s = (s, false).
Proof.
  intros (Hc & Ha & Hb & Hs).
  assert (Hpush : forall a c w, exists s', push f (set_acc s a c) w = (s', true) /\
            o_closed s' = true /\ o_buf s' = [] /\ o_size s' = 8 /\ o_avail s' = a /\ o_written s' = o_written s).
  { intros a c w. unfold push. unfold o_pos at 1. pj. rewrite Hb, Hs. cbn [length N.of_nat].
    change (8 <? 0 + 8) with false. cbv iota.
    set (s1 := set_buf (set_acc s a c) ([] ++ be8 w)).
    assert (o_pos s1 = 8) by (unfold o_pos, s1; pj; rewrite app_nil_l, be8_length; reflexivity).
    rewrite H. change (8 - 8 <=? 8) with true. cbv iota.
    unfold flush. change (o_closed s1) with (o_closed s). rewrite Hc.
    eexists; split; [reflexivity|]. pj. repeat split; auto. }
  split; [|split; [|split]].
  - intros b. unfold write_bit. rewrite Ha. change (0 <=? 1) with true. cbv iota.
    destruct (Hpush 0 (o_cur s) (N.lor (o_cur s) (N.land b 1))) as (s' & E & C & B & S & A & W).
    assert (Hid : set_acc s 0 (o_cur s) = s) by (destruct s; cbn in *; subst; reflexivity).
    rewrite Hid in E. rewrite E. exists s'. split; [reflexivity|]. split; [repeat split; auto|].
    unfold written, o_pos. rewrite W, B, A, Hb, Ha. reflexivity.
  - intros v c. unfold write_bits. destruct (64 <? c).
    + exists s. repeat split; auto.
    + rewrite Ha. replace (0 <=? c) with true by (symmetry; apply N.leb_le; lia).
      set (cur := N.lor (o_cur s) _).
      destruct (Hpush 0 cur cur) as (s' & E & C & B & S & A & W). rewrite E.
      exists s'. split; [reflexivity|]. split; [repeat split; auto|].
      unfold written, o_pos. rewrite W, B, A, Hb, Ha. reflexivity.
  - intros bits c. unfold write_array. rewrite Hc. reflexivity.
  - unfold close. rewrite Hc. reflexivity.
Qed.
