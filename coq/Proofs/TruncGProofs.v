(* A truncated stream is never reported complete (C09), for the container with any inner image / parser pair that
   round-trips (Proofs/ContainerGProofs.v), hence for streams with RANGE-coded blocks: the parse of a strict prefix of
   the bytes is a prefix of the blocks followed by a failure, or a header error; never the end marker. *)
From Coq Require Import List NArith ZArith Lia Bool ZifyN ZifyNat ZifyBool.
From KV Require Import Model.OutBS Model.InBS Model.Header Model.Container Model.RangeCodec Model.ContainerG Lib.Bits
  Proofs.OutBSProofs Proofs.BinCoderProofs Proofs.InBSProofs Proofs.MirrorProofs Proofs.HeaderProofs Proofs.ArrayProofs
  Proofs.ReadArrayProofs Proofs.MirrorArrayProofs Proofs.EosProofs Proofs.ContainerProofs Proofs.TruncProofs
  Proofs.ContainerGProofs Proofs.RangeSizeProofs.
Import ListNotations.
Open Scope N_scope.
Ltac Zify.zify_post_hook ::= idtac.
Local Arguments N.pow : simpl never.
Local Arguments N.div : simpl never.
Local Arguments N.modulo : simpl never.
Local Arguments N.mul : simpl never.
Local Arguments N.sub : simpl never.
Local Arguments N.add : simpl never.

Section GEN.
Variable img : list N -> list N * N.
Variable pin : N -> list N -> pframe.
Variable bsize : N.
Variable good : list N -> Prop.
Hypothesis Himg : forall b, good b -> exists im w pad, img b = (im, w) /\ bytes_ok im /\ pad < 8 /\
  8 * N.of_nat (length im) = w + pad /\ be_val im mod 2 ^ pad = 0 /\ 16 <= w <= 8589934696.
Hypothesis Hpin : forall b, good b -> pin bsize (fst (img b)) = PData b.

Lemma trunc_frames_g : forall blocks fuel s' s P p d, Pre d s' s -> Forall good blocks -> p < 2 ^ P -> P < d ->
  (length blocks < fuel)%nat ->
  uval s = fst (abvs (flat_map (frame_aops_g img) blocks ++ end_aops)) * 2 ^ P + p ->
  total s = snd (abvs (flat_map (frame_aops_g img) blocks ++ end_aops)) + P ->
  exists j, (j <= length blocks)%nat /\ parse_frames_g pin fuel bsize s' = map PData (firstn j blocks) ++ [PFail].
Proof.
  induction blocks as [|b t IH]; intros fuel s' s P p d HP Hok Hp HPd Hfu HU HT.
  - destruct fuel as [|f]; [cbn [length] in Hfu; lia|]. cbn [flat_map app] in HU, HT. unfold end_aops in HU, HT. exists O. split; [apply le_n|].
    cbn [parse_frames_g firstn map app]. pose proof HP as (_ & HR & _ & _).
    destruct (rd_abvs s 0 5 [AOp (WBits 0 3)] P p HR ltac:(lia) ltac:(repeat constructor; cbn; lia) Hp HU HT) as (s1 & E1 & R1 & U1 & T1).
    change (0 mod 2 ^ 5) with 0 in E1.
    destruct (pre_read_bits d s' s 5 s1 0 HP E1) as [(s1' & e & E1')|(s1' & E1' & HP1)]; rewrite E1'; [reflexivity|].
    change (0 + 3) with 3.
    destruct (rd_abvs s1 0 3 [] P p R1 ltac:(lia) ltac:(constructor) Hp U1 T1) as (s2 & E2 & R2 & U2 & T2).
    change (0 mod 2 ^ 3) with 0 in E2.
    destruct (pre_read_bits d s1' s1 3 s2 0 HP1 E2) as [(s2' & e & E2')|(s2' & E2' & HP2)]; rewrite E2'; [reflexivity|].
    exfalso. destruct HP2 as (_ & _ & X & _). cbn [abvs snd] in T2. clear - X T2 HPd. lia.
  - destruct fuel as [|f]; [cbn [length] in Hfu; lia|]. cbn [length] in Hfu.
    inversion Hok as [|? ? Hb Ht]; subst. cbn [flat_map] in HU, HT. rewrite <- app_assoc in HU, HT.
    pose proof HP as (_ & HR & _ & _).
    destruct (read_frame_g img pin bsize good Himg Hpin s b _ P p HR Hb (frames_g_ok img pin bsize good Himg Hpin t Ht) Hp HU HT)
      as (s1 & s2 & s3 & l3 & w & im & E1 & E2 & W0 & W1 & E3 & Epi & R3 & U3 & T3).
    cbn [parse_frames_g].
    destruct (pre_read_bits d s' s 5 s1 l3 HP E1) as [(s1' & e & E1')|(s1' & E1' & HP1)]; rewrite E1'; [exists O; split; [lia|reflexivity]|].
    destruct (pre_read_bits d s1' s1 _ s2 w HP1 E2) as [(s2' & e & E2')|(s2' & E2' & HP2)]; rewrite E2'; [exists O; split; [lia|reflexivity]|].
    rewrite W0, W1.
    destruct (pre_read_img d _ s2' s2 w [] s3 im HP2 E3) as [(s3' & E3')|(s3' & E3' & HP3)]; rewrite E3'; [exists O; split; [lia|reflexivity]|].
    rewrite Epi.
    destruct (IH f s3' s3 P p d HP3 Ht Hp HPd ltac:(lia) U3 T3) as (j & Hj & Ej).
    exists (S j). split; [cbn [length]; lia|]. rewrite Ej. reflexivity.
Qed.

Section S.
Variables evalid tvalid : N -> bool.
Variable c : hcfg.
Hypothesis Hc : cfg_ok evalid tvalid c.

(* the header of a written stream is parsed back, and the reader then stands at the first frame *)
Lemma stream_g_header blocks rbuf sched : Forall good blocks -> 0 < rbuf -> rbuf mod 8 = 0 ->
  let rest := flat_map (frame_aops_g img) blocks ++ end_aops in
  exists pad sH, pad < 8 /\ bytes_ok (write_stream_g img c blocks) /\
    read_header evalid tvalid (new_ibs rbuf (mkSrc (write_stream_g img c blocks) sched None 0)) = (sH, HOk (norm_cfg c)) /\
    RA sH /\ uval sH = fst (abvs rest) * 2 ^ pad + 0 /\ total sH = snd (abvs rest) + pad.
Proof.
  intros Hbl Hr Hr8 rest.
  pose proof (ck_ok _ _ _ Hc) as Hck. destruct (header_fields_ok c Hck) as [Hfo _].
  assert (Hrest : Forall aop_ok rest) by (apply (frames_g_ok img pin bsize good Himg Hpin); exact Hbl).
  assert (Hall : Forall aop_ok (map conv (stream_ops_g img c blocks))).
  { rewrite stream_aops_g. apply Forall_app. split; [|exact Hrest].
    apply Forall_forall. intros o Ho. apply in_map_iff in Ho. destruct Ho as (f & <- & Hf).
    cbn [aop_ok wop_ok]. rewrite Forall_forall in Hfo. specialize (Hfo f Hf). unfold field_ok in Hfo. clear - Hfo. lia. }
  destruct (array_image 65536 _ ltac:(clear; lia) ltac:(reflexivity) Hall) as (s1 & s2 & pad & V & L & E1 & E2 & EV & Hcl & Hpad & Hlen & Himg0 & _).
  unfold write_stream_g. rewrite run_cops_conv, E1. change (close healthy_sink s1) with (close healthy s1). rewrite E2.
  assert (Hob : bytes_ok (o_out s2)).
  { eapply close_obok; [|exact E2]. eapply run_aops_obok; [|exact Hall|exact E1]. split; constructor. }
  destruct (new_ibs_ra rbuf (o_out s2) sched Hr Hr8 Hob) as (R0 & U0 & T0). cbv zeta in R0, U0, T0.
  rewrite fold_abvs in EV. cbn [fst snd] in EV. rewrite N.mul_0_l, !N.add_0_l in EV.
  rewrite stream_aops_g in EV. fold rest in EV. rewrite abvs_fields in EV.
  set (r := (fst (abvs rest) * 2 ^ pad, snd (abvs rest) + pad)).
  assert (Hrl : fst r < 2 ^ snd r).
  { unfold r. cbn [fst snd]. rewrite N.pow_add_r. pose proof (abvs_lt rest Hrest) as X. pose proof (pow2_pos pad) as Y. clear - X Y. nia. }
  set (s0 := new_ibs rbuf (mkSrc (o_out s2) sched None 0)) in *.
  assert (Hv : (uval s0, total s0) = vec (header_fields c) r).
  { rewrite U0, T0, Himg0, Hlen. unfold r. rewrite <- vec_shift. injection EV as -> ->. reflexivity. }
  pose (Q := fun s : ibs => AL s /\ i_size s mod 8 = 0).
  assert (Qstep : forall s cnt s' v, AInv s -> Q s -> read_bits s cnt = (s', Val v) -> Q s').
  { intros s cnt s' v HA [HAL Hs8] E. unfold read_bits in E.
    destruct (read_bits_al 66 s cnt s' v (ai_i s HA) HAL Hs8 E) as [A B]. split; [exact A|rewrite B; exact Hs8]. }
  destruct (header_parse evalid tvalid Q Qstep c s0 r Hc (ra_a _ R0) (conj (ra_al _ R0) (ra_sz _ R0)) Hrl Hv) as (s' & Eh & A' & R' & [QA QS]).
  injection R' as RU RT.
  exists pad, s'. split; [exact Hpad|]. split; [exact Hob|]. split; [exact Eh|]. split; [exact (Build_RA s' A' QA QS)|].
  split; [rewrite RU; unfold r; cbn [fst]; clear; lia|rewrite RT; reflexivity].
Qed.

Theorem stream_g_truncated blocks nframes rbuf sched (k : nat) :
  Forall good blocks -> (length blocks < nframes)%nat -> 0 < rbuf -> rbuf mod 8 = 0 ->
  (k < length (write_stream_g img c blocks))%nat ->
  let cut := firstn k (write_stream_g img c blocks) in
  (exists sx e, read_header evalid tvalid (new_ibs rbuf (mkSrc cut sched None 0)) = (sx, HErr e)) \/
  exists sH' j, (j <= length blocks)%nat /\
    read_header evalid tvalid (new_ibs rbuf (mkSrc cut sched None 0)) = (sH', HOk (norm_cfg c)) /\
    parse_frames_g pin nframes bsize sH' = map PData (firstn j blocks) ++ [PFail].
Proof.
  intros Hbl Hfu Hr Hr8 Hk cut.
  destruct (stream_g_header blocks rbuf [] Hbl Hr Hr8) as (pad & sH & Hpad & Hob & Eh & RH & UH & TH). cbv zeta in UH, TH.
  set (S := write_stream_g img c blocks) in *.
  set (d := 8 * N.of_nat (length S - k)).
  assert (Hd : 8 <= d) by (unfold d; lia).
  assert (Hcb : bytes_ok cut) by (apply bytes_ok_firstn; exact Hob).
  destruct (new_ibs_ra rbuf cut sched Hr Hr8 Hcb) as (R0' & U0' & T0'). cbv zeta in R0', U0', T0'.
  destruct (new_ibs_ra rbuf S [] Hr Hr8 Hob) as (R0 & U0 & T0). cbv zeta in R0, U0, T0.
  assert (HP0 : Pre d (new_ibs rbuf (mkSrc cut sched None 0)) (new_ibs rbuf (mkSrc S [] None 0))).
  { split; [exact R0'|]. split; [exact R0|]. split.
    - rewrite T0, T0'. unfold cut. rewrite firstn_length, Nat.min_l by lia. unfold d. lia.
    - rewrite U0, U0'. unfold cut, d. apply be_val_firstn; [exact Hob|lia]. }
  destruct (pre_read_header evalid tvalid d _ _ sH (norm_cfg c) HP0 Eh) as [(s1' & e & E')|(s1' & E' & HP1)]; [left; eauto|].
  right.
  destruct (trunc_frames_g blocks nframes s1' sH pad 0 d HP1 Hbl (pow2_pos pad) ltac:(lia) Hfu UH TH) as (j & Hj & Ej).
  exists s1', j. auto.
Qed.
End S.
End GEN.

(* ---------- streams with RANGE-coded blocks ---------- *)
Theorem range_stream_truncated (hash : list N -> N) (evalid tvalid : N -> bool) c blocks nframes rbuf sched (k : nat) :
  cfg_ok evalid tvalid c -> h_etype c = RANGE_TYPE -> h_bsize c <= 134217728 ->
  (h_ck c = 1 -> forall l, hash l < 2 ^ 32) -> (h_ck c = 2 -> forall l, hash l < 2 ^ 64) ->
  Forall (blk_ok (h_bsize c)) blocks -> (length blocks < nframes)%nat -> 0 < rbuf -> rbuf mod 8 = 0 ->
  (k < length (write_stream_e hash c blocks))%nat ->
  let cut := firstn k (write_stream_e hash c blocks) in
  parse_stream_e hash evalid tvalid nframes rbuf sched cut = None \/
  exists j, (j <= length blocks)%nat /\
    parse_stream_e hash evalid tvalid nframes rbuf sched cut = Some (norm_cfg c, map PData (firstn j blocks) ++ [PFail]).
Proof.
  intros Hc Het Hbs H32 H64 Hbl Hfu Hr Hr8 Hk cut.
  pose proof (ck_ok _ _ _ Hc) as Hck. destruct (bs_ok _ _ _ Hc) as [[_ Hmax] _].
  assert (Ei : img_of hash c = inner_image_r hash (h_ck c)) by (unfold img_of; rewrite Het; reflexivity).
  assert (Ep : pin_of hash (norm_cfg c) = parse_inner_r hash (h_ck c)).
  { unfold pin_of. change (h_etype (norm_cfg c)) with (h_etype c). change (h_ck (norm_cfg c)) with (h_ck c). rewrite Het. reflexivity. }
  assert (Hgood : Forall (good_r hash (h_ck c) (h_bsize c)) blocks).
  { eapply Forall_impl; [|exact Hbl]. intros b (X1 & X2 & X3 & X4). unfold good_r. repeat split; try assumption.
    apply (range_frame_fits hash (h_ck c) b Hck H32 H64 X1 X3). lia. }
  assert (Ew : write_stream_e hash c blocks = write_stream_g (inner_image_r hash (h_ck c)) c blocks).
  { unfold write_stream_e. rewrite Ei. reflexivity. }
  subst cut. rewrite Ew in Hk |- *.
  destruct (stream_g_truncated (inner_image_r hash (h_ck c)) (parse_inner_r hash (h_ck c)) (h_bsize c) (good_r hash (h_ck c) (h_bsize c))
              (img_r_facts hash (h_ck c) Hck H32 H64 (h_bsize c))
              (fun b Hg => parse_inner_r_ok hash (h_ck c) Hck H32 H64 (h_bsize c) b Hg Hmax)
              evalid tvalid c Hc blocks nframes rbuf sched k Hgood Hfu Hr Hr8 Hk) as [(sx & e & Ex)|(sH' & j & Hj & Eh & Ef)].
  - left. unfold parse_stream_e. rewrite Ex. reflexivity.
  - right. exists j. split; [exact Hj|]. unfold parse_stream_e. rewrite Eh, Ep. change (h_bsize (norm_cfg c)) with (h_bsize c). rewrite Ef. reflexivity.
Qed.
