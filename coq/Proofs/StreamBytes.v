(* C04 down to the bytes, for the pipelines whose container is modelled (NONE/NONE and NONE/RANGE): the bytes of the
   stream depend on the data and the configuration only - not on how the data was cut into Write calls, nor on the job
   count or the size hint given to the Writer (the header's size field is part of the configuration here). *)
From Coq Require Import List NArith ZArith.
From KV Require Import Model.Header Model.Container Model.ContainerG Model.Writer Proofs.WriterProofs.
Import ListNotations.
Open Scope N_scope.

Theorem stream_bytes_depend_on_data_only (hash : list N -> N) c jobs1 jobs2 hint1 hint2 ws1 ws2 :
  let B := h_bsize c in
  0 < B -> 0 < jobs1 -> 0 < jobs2 -> concat ws1 = concat ws2 ->
  exists a1 a2 b1 b2,
    do_writes B jobs1 hint1 (init_w jobs1) ws1 = (a1, true) /\ w_close B jobs1 hint1 (fun _ => false) a1 false false = (a2, false) /\
    do_writes B jobs2 hint2 (init_w jobs2) ws2 = (b1, true) /\ w_close B jobs2 hint2 (fun _ => false) b1 false false = (b2, false) /\
    write_stream hash c (map snd (w_out a2)) = write_stream hash c (map snd (w_out b2)) /\
    write_stream_e hash c (map snd (w_out a2)) = write_stream_e hash c (map snd (w_out b2)).
Proof.
  intros B HB H1 H2 Hc.
  destruct (writer_canonical B HB jobs1 jobs2 hint1 hint2 ws1 ws2 H1 H2 Hc) as (a1 & a2 & b1 & b2 & E1 & E2 & E3 & E4 & E5).
  exists a1, a2, b1, b2. rewrite E5. auto 8.
Qed.
