(* How much the range codec can write: at most two 28-bit digits per byte (the normalisation loop shifts at most twice),
   a header of less than 4700 bits per 32768-byte chunk, 60 final bits per chunk.  Hence the frame of a block of at most
   128 MiB coded with entropy RANGE fits the frame size the reader accepts - the premise of the RANGE stream theorems. *)
From Coq Require Import List NArith ZArith Lia Bool Sorted Arith ZifyN ZifyNat ZifyBool.
From KV Require Import Lib.ListX Model.OutBS Model.InBS Model.Header Model.Container Model.Normalize Model.Alphabet Model.RangeCodec Model.ContainerG Lib.Bits
  Proofs.OutBSProofs Proofs.InBSProofs Proofs.MirrorProofs Proofs.BinCoderProofs Proofs.NormalizeProofs Proofs.ArrayProofs Proofs.ReadArrayProofs
  Proofs.MirrorArrayProofs Proofs.ContainerProofs Proofs.AlphabetProofs Proofs.RangeHeaderProofs Proofs.RangeChunkProofs
  Proofs.RangeCoreProofs Proofs.RangeCodecProofs Proofs.ContainerGProofs.
Import ListNotations.
Open Scope N_scope.
Ltac Zify.zify_post_hook ::= idtac.
Local Arguments N.pow : simpl never.
Local Arguments N.mul : simpl never.
Local Arguments N.add : simpl never.
Local Arguments N.sub : simpl never.
Local Arguments N.div : simpl never.

(* ---------- the loop shifts at most twice ---------- *)
Lemma not_exit low rng : differ low rng && (BOTTOM_RANGE <? rng) = false -> ~ (differ low rng = true /\ 65535 < rng).
Proof. intros Ex. rewrite <- exit_iff, Ex. discriminate. Qed.

Lemma enc_norm_len0 : forall fuel low rng l r ds, SI low rng -> 8589934592 <= rng -> enc_norm fuel low rng [] = Some (l, r, ds) -> ds = [].
Proof.
  intros [|f] low rng l r ds HS Hr E; [discriminate E|]. rewrite enc_norm_S in E.
  destruct (differ low rng && (BOTTOM_RANGE <? rng)) eqn:Ex; [injection E as _ _ X; symmetry; exact X|].
  exfalso. pose proof (not_exit _ _ Ex) as Hn.
  destruct (shift_facts low rng HS Hn) as (_ & _ & H3 & _ & H5). cbv zeta in H3, H5.
  destruct (differ low rng) eqn:Ed.
  - apply Hn. split; [reflexivity|]. clear - Hr. lia.
  - rewrite (H5 eq_refl) in H3. pose proof (N.mod_lt low 4294967296 ltac:(discriminate)). clear - H3 Hr. lia.
Qed.

Lemma enc_norm_len1 : forall fuel low rng l r ds, SI low rng -> 65536 <= rng -> enc_norm fuel low rng [] = Some (l, r, ds) -> (length ds <= 1)%nat.
Proof.
  intros [|f] low rng l r ds HS Hr E; [discriminate E|]. rewrite enc_norm_S in E.
  destruct (differ low rng && (BOTTOM_RANGE <? rng)) eqn:Ex; [injection E as _ _ X; subst ds; cbn [length]; lia|].
  pose proof (not_exit _ _ Ex) as Hn.
  destruct (shift_facts low rng HS Hn) as (_ & _ & _ & _ & H5). destruct (shift_state low rng HS Hn) as (A & _ & HS' & _). cbv zeta in *.
  rewrite A in E. destruct (differ low rng) eqn:Ed; [exfalso; apply Hn; split; [reflexivity|clear - Hr; lia]|].
  rewrite (H5 eq_refl) in *. destruct (enc_norm f _ _ []) as [[[l1 r1] ds1]|] eqn:E1; [|discriminate E].
  injection E as _ _ X. subst ds. rewrite (enc_norm_len0 f _ _ _ _ _ HS' ltac:(clear - Hr; lia) E1). cbn [length]. lia.
Qed.

Lemma enc_norm_len : forall fuel low rng l r ds, SI low rng -> enc_norm fuel low rng [] = Some (l, r, ds) -> (length ds <= 2)%nat.
Proof.
  intros [|f] low rng l r ds HS E; [discriminate E|]. rewrite enc_norm_S in E.
  destruct (differ low rng && (BOTTOM_RANGE <? rng)) eqn:Ex; [injection E as _ _ X; subst ds; cbn [length]; lia|].
  pose proof (not_exit _ _ Ex) as Hn.
  destruct (shift_state low rng HS Hn) as (A & _ & HS' & Hge). cbv zeta in *. rewrite A in E.
  destruct (enc_norm f _ _ []) as [[[l1 r1] ds1]|] eqn:E1; [|discriminate E].
  injection E as _ _ X. subst ds. pose proof (enc_norm_len1 f _ _ _ _ _ HS' ltac:(clear - Hge; lia) E1). cbn [length]. lia.
Qed.

Lemma Wd_digits : forall fuel low rng l r ds, enc_norm fuel low rng [] = Some (l, r, ds) -> Wd ds = 28 * N.of_nat (length ds).
Proof.
  induction fuel as [|f IH]; intros low rng l r ds E; [discriminate E|]. rewrite enc_norm_S in E.
  destruct (differ low rng && (BOTTOM_RANGE <? rng)); [injection E as _ _ X; subst ds; reflexivity|].
  destruct (enc_norm f _ _ []) as [[[l1 r1] ds1]|] eqn:E1; [|discriminate E]. injection E as _ _ X. subst ds.
  rewrite Wd_dop, (IH _ _ _ _ _ E1). cbn [length]. lia.
Qed.

(* ---------- a run of symbols: at most 56 bits each ---------- *)
Section W.
Variable lr : N.
Variable fr : list N.
Hypothesis Hlr : lr <= 16.
Hypothesis Hlen : length fr = 256%nat.
Hypothesis Htot : tot fr = 2 ^ lr.

Lemma enc_bytes_width : forall bs low rng lowf ops, SI low rng -> 65535 < rng -> Forall (sym_in fr) bs ->
  enc_bytes lr (cum_of fr) (low, rng) bs [] = Some (lowf, ops) -> Wd ops <= 56 * N.of_nat (length bs).
Proof.
  induction bs as [|b r IH]; intros low rng lowf ops HS Hbig Hall E.
  - cbn [enc_bytes] in E. injection E as _ X. subst ops. cbn. lia.
  - pose proof (Forall_inv Hall) as Hb. pose proof (Forall_inv_tail Hall) as Hr.
    destruct (slot lr fr Hlen Htot b Hb) as (_ & _ & Hc & Hc1). cbv zeta in Hc, Hc1.
    rewrite (enc_bytes_cons lr fr) in E. cbv zeta in E. rewrite N.shiftr_div_pow2 in E.
    set (c0 := nth (N.to_nat b) (cum_of fr) 0) in *. set (c1 := nth (S (N.to_nat b)) (cum_of fr) 0) in *.
    destruct (byte_state low rng c0 c1 (2 ^ lr) HS Hbig (pow_lr lr Hlr) Hc Hc1) as (_ & H2 & _ & _ & HS1 & _). cbv zeta in *.
    rewrite H2 in E. destruct (enc_norm 8 _ _ []) as [[[low2 rng3] ds]|] eqn:En; [|discriminate E].
    destruct (enc_norm_spec _ _ _ _ _ _ HS1 En) as (HS2 & Hbig2 & _ & _).
    destruct (enc_bytes lr (cum_of fr) (low2, rng3) r []) as [[lf ops2]|] eqn:E2; [|discriminate E]. injection E as _ X. subst ops.
    rewrite Wd_app, (Wd_digits _ _ _ _ _ _ En). pose proof (enc_norm_len _ _ _ _ _ _ HS1 En) as Hl2.
    pose proof (IH _ _ _ _ HS2 Hbig2 Hr E2) as Hw. cbn [length]. lia.
Qed.
End W.

(* ---------- the header of a chunk ---------- *)
Lemma last_lt : forall l : list N, Forall (fun x => x < 256) l -> last l 0 < 256.
Proof.
  induction l as [|x t IH]; intros H; [cbn; lia|]. destruct t as [|y u]; [cbn; exact (Forall_inv H)|].
  change (last (x :: y :: u) 0) with (last (y :: u) 0). apply IH. exact (Forall_inv_tail H).
Qed.

Lemma alphabet_width alpha aops : Forall (fun x => x < 256) alpha -> encode_alphabet alpha = Some aops ->
  Wd aops <= 262 /\ (length alpha <= 256)%nat.
Proof.
  intros Hb He. unfold encode_alphabet in He. destruct (Nat.ltb 256 (length alpha)) eqn:E0; [discriminate|].
  apply Nat.ltb_ge in E0. split; [|exact E0].
  destruct (Nat.eqb (length alpha) 0); [inversion He; subst; cbn; lia|].
  destruct (Nat.eqb (length alpha) 256); [inversion He; subst; cbn; lia|].
  destruct (negb (forallb (fun a : N => a <? 256) alpha)); [discriminate|]. inversion He; subst.
  unfold Wd. cbn [map conv abvs snd aop_size op_size].
  pose proof (last_lt alpha Hb) as Hl.
  assert (last alpha 0 / 8 < 32) by (apply N.div_lt_upper_bound; [discriminate|exact Hl]). lia.
Qed.

Lemma bits_width lm : forall vals, Wd (map (fun v => CBits v lm) vals) = lm * N.of_nat (length vals).
Proof.
  induction vals as [|v t IH]; [cbn; lia|]. unfold Wd in *. cbn [map conv abvs snd aop_size op_size length]. rewrite IH. lia.
Qed.

Lemma chunk_ops_width lr fr ch : 8 <= lr <= 15 -> Forall (sym_ok fr (2 ^ lr)) ch ->
  Wd (chunk_ops lr fr ch) <= 5 + lr * N.of_nat (length ch).
Proof.
  intros Hlr Hok. destruct (chunk_ops_ok lr fr ch Hlr Hok) as (_ & Hlm & _).
  unfold chunk_ops. change (CBits (chunk_lm fr ch) (llr_of lr) :: ?t) with ([CBits (chunk_lm fr ch) (llr_of lr)] ++ t).
  rewrite Wd_app. assert (H5 : Wd [CBits (chunk_lm fr ch) (llr_of lr)] <= 5).
  { unfold Wd. cbn [map conv abvs snd aop_size op_size]. unfold llr_of. destruct (16 <=? lr); [lia|destruct (8 <=? lr); lia]. }
  destruct (chunk_lm fr ch =? 0).
  - change (Wd (@nil cop)) with 0. clear - H5. nia.
  - rewrite bits_width. unfold chunk_vals. rewrite map_length. clear - H5 Hlm. nia.
Qed.

Lemma flat_width lr fr : 8 <= lr <= 15 -> forall chs, Forall (Forall (sym_ok fr (2 ^ lr))) chs ->
  Wd (flat_map (chunk_ops lr fr) chs) <= 5 * N.of_nat (length chs) + lr * N.of_nat (length (concat chs)).
Proof.
  intros Hlr. induction chs as [|ch t IH]; intros H; [cbn; lia|]. cbn [flat_map concat length]. rewrite Wd_app, app_length.
  pose proof (chunk_ops_width lr fr ch Hlr (Forall_inv H)). specialize (IH (Forall_inv_tail H)). nia.
Qed.

Lemma chunks_of_len : forall fuel k (l : list N), (length (chunks_of fuel k l) <= fuel)%nat.
Proof.
  induction fuel as [|f IH]; intros k l; [cbn; lia|]. cbn [chunks_of]. destruct l; [cbn; lia|]. cbn [length]. specialize (IH k (skipn k (n :: l))). lia.
Qed.

Lemma header_width lr alpha fr hops : 8 <= lr <= 12 -> table_ok lr alpha fr -> header_ops lr alpha fr = Some hops -> Wd hops <= 4617.
Proof.
  intros Hlr Htab Hh. pose proof (table_tail_ok lr alpha fr Htab) as Htl. destruct Htab as (_ & Hok0 & _ & _).
  assert (Hb : Forall (fun x => x < 256) alpha) by (eapply Forall_impl; [|exact Hok0]; intros a [X _]; exact X).
  unfold header_ops in Hh. destruct (encode_alphabet alpha) as [aops|] eqn:Ea; [|discriminate].
  destruct (alphabet_width alpha aops Hb Ea) as [Hw Hl].
  destruct (Nat.eqb (length alpha) 0); inversion Hh; subst hops; [lia|].
  rewrite Wd_app. change (CBits (lr - 8) 3 :: ?t) with ([CBits (lr - 8) 3] ++ t). rewrite Wd_app.
  assert (H3 : Wd [CBits (lr - 8) 3] = 3) by reflexivity. rewrite H3. rewrite freq_ops_eq.
  set (k := if Nat.ltb (length alpha) 64 then 6%nat else 8%nat).
  assert (Hk : (0 < k)%nat) by (unfold k; destruct (Nat.ltb (length alpha) 64); lia).
  assert (Htll : (length (tl alpha) <= length alpha)%nat) by (destruct alpha; cbn [tl length]; lia).
  pose proof (flat_width lr fr ltac:(lia) _ (chunks_sym_ok fr (2 ^ lr) (length alpha) k (tl alpha) Htl)) as Hf.
  rewrite (concat_chunks (length alpha) k (tl alpha) Hk Htll) in Hf.
  pose proof (chunks_of_len (length alpha) k (tl alpha)) as Hc. nia.
Qed.

(* ---------- a chunk, a block ---------- *)
Lemma enc_chunk_width buf cops : buf <> [] -> bytes_ok buf -> enc_chunk buf = Some cops -> Wd cops <= 4677 + 56 * N.of_nat (length buf).
Proof.
  intros Hne Hb.
  destruct (range_chunk_table buf Hne Hb) as (frz & al & hops & Hn & Hh & Hlr & Hs & Hane & Htab & Hlr12 & Htot & Hin).
  cbv zeta in Hn, Hh, Hlr, Htab, Hlr12, Htot.
  set (lr := lower_lr 8 LOG_RANGE (N.of_nat (length buf))) in *. set (fr := tab_of frz) in *. set (alpha := alpha_of al) in *.
  pose proof (header_width lr alpha fr hops ltac:(lia) Htab Hh) as Hhw.
  destruct Htab as (Hflen & Hfall & Hssum & Hzero).
  assert (Hsym : Forall (sym_in fr) buf).
  { apply Forall_forall. intros b Hbin. rewrite Forall_forall in Hin, Hfall. apply Hfall. apply Hin. exact Hbin. }
  unfold enc_chunk. cbv zeta. fold lr. rewrite Hn. change (map Z.to_N frz) with fr. change (map N.of_nat al) with alpha. rewrite Hh.
  destruct (Nat.leb (length alpha) 1); [intros E; injection E as <-; lia|].
  destruct (enc_bytes lr (cum_of fr) (0, TOP_RANGE) buf []) as [[lowf ops]|] eqn:Ee; [|discriminate]. intros E. injection E as <-.
  destruct SI_init as [HS Hbig].
  pose proof (enc_bytes_width lr fr ltac:(lia) Hflen ltac:(rewrite tot_sumN; exact Htot) buf 0 TOP_RANGE lowf ops HS Hbig Hsym Ee) as Hw.
  rewrite !Wd_app. assert (H60 : Wd [CBits lowf 60] = 60) by reflexivity. rewrite H60. lia.
Qed.

Lemma enc_chunks_width : forall f block allops, bytes_ok block -> enc_chunks f block = Some allops ->
  Wd allops <= 4677 * N.of_nat f + 56 * N.of_nat (length block).
Proof.
  induction f as [|f IH]; intros block allops Hb E.
  - cbn [enc_chunks] in E. injection E as <-. cbn. lia.
  - destruct block as [|x xs]; [cbn [enc_chunks] in E; injection E as <-; cbn; lia|].
    remember (x :: xs) as block eqn:Eblk. pose proof chunk_pos as HC.
    assert (Eenc : enc_chunks (S f) block = match enc_chunk (firstn CHUNK block), enc_chunks f (skipn CHUNK block) with
                                            | Some a, Some b => Some (a ++ b) | _, _ => None end).
    { rewrite Eblk. cbn [enc_chunks]. reflexivity. }
    rewrite Eenc in E.
    destruct (enc_chunk (firstn CHUNK block)) as [a|] eqn:Ea; [|discriminate E].
    destruct (enc_chunks f (skipn CHUNK block)) as [b|] eqn:Eb; [|discriminate E]. injection E as <-.
    assert (Hbuf : firstn CHUNK block <> []) by (rewrite Eblk; destruct CHUNK; [lia|]; discriminate).
    pose proof (enc_chunk_width _ _ Hbuf (bytes_ok_firstn _ _ Hb) Ea) as Wa.
    pose proof (IH _ _ (bytes_ok_skipn _ _ Hb) Eb) as Wb.
    rewrite Wd_app. pose proof (firstn_skipn CHUNK block) as Hfs. apply (f_equal (@length N)) in Hfs. rewrite app_length in Hfs. lia.
Qed.

(* ---------- the frame of a block of at most 128 MiB fits ---------- *)
Theorem range_frame_fits hash ck b : ck <= 2 -> (ck = 1 -> forall l, hash l < 2 ^ 32) -> (ck = 2 -> forall l, hash l < 2 ^ 64) ->
  b <> [] -> bytes_ok b -> N.of_nat (length b) <= 134217728 -> snd (inner_image_r hash ck b) <= 8589934696.
Proof.
  intros Hck Hh32 Hh64 Hne Hb Hl.
  destruct (inner_image_r_spec hash ck Hck Hh32 Hh64 b Hne ltac:(lia) Hb) as (im & w & pad & Ei & _ & _ & _ & _ & Hw & _).
  rewrite Ei. cbn [snd]. rewrite Hw, (inner_ops_r_eq hash ck b).
  assert (Hn : 0 < N.of_nat (length b) <= 1073741824) by (split; [destruct b; [congruence|cbn [length]; lia]|lia]).
  destruct (data_size_bounds hash ck Hck Hh32 Hh64 _ Hn) as [Hd _].
  assert (Hsz : forall l1 l2, snd (abvs (l1 ++ l2)) = snd (abvs l1) + snd (abvs l2)).
  { induction l1 as [|o u IH]; intros l2; [cbn [app abvs snd]; lia|]. cbn [app abvs snd]. rewrite IH. lia. }
  cbn [app abvs snd aop_size op_size]. rewrite Hsz.
  assert (Hhash : snd (abvs (map conv (hash_ops hash ck b))) <= 64).
  { unfold hash_ops. destruct (ck =? 1); [cbn; lia|]. destruct (ck =? 2); cbn; lia. }
  assert (Hpay : snd (abvs (map conv (pay b))) <= 4677 * (N.of_nat (length b) / 32768 + 1) + 56 * N.of_nat (length b)).
  { unfold pay. destruct (N.of_nat (length b) <=? 15) eqn:E15.
    - apply N.leb_le in E15. destruct (null_chunks_ok hash ck Hck Hh32 Hh64 (nfuel b) b Hb (nfuel_enough hash ck Hck Hh32 Hh64 b)) as [_ X]. rewrite X. lia.
    - unfold range_payload. destruct (enc_chunks (S (length b / CHUNK)) b) as [allops|] eqn:Ee; [|cbn; lia].
      pose proof (enc_chunks_width _ _ _ Hb Ee) as W. fold (Wd allops).
      assert (Ef : N.of_nat (S (length b / CHUNK)) = N.of_nat (length b) / 32768 + 1).
      { rewrite Nat2N.inj_succ. change CHUNK with (N.to_nat 32768). rewrite <- (Nat2N.id (length b)) at 1.
        rewrite <- N2Nat.inj_div, N2Nat.id. lia. }
      rewrite Ef in W. exact W. }
  assert (Hq : N.of_nat (length b) / 32768 <= 4096) by (apply N.div_le_upper_bound; [discriminate|lia]).
  lia.
Qed.
