(* The header of a chunk of the range codec (and, with another position of the log-range field, of the ANS codec):
   alphabet, log range, frequencies of all symbols but the first one by chunks of 6 or 8 with a per-chunk bit width,
   first frequency inferred from the sum.  For every normalized table: decodeHeader(encodeHeader) returns the table
   and consumes exactly the header, at any position of a stream. *)
From Coq Require Import List NArith ZArith Lia Bool Sorted Arith ZifyN ZifyNat ZifyBool.
From KV Require Import Model.OutBS Model.InBS Model.Container Model.Alphabet Model.RangeCodec Lib.Bits Proofs.OutBSProofs Proofs.BinCoderProofs
  Proofs.InBSProofs Proofs.MirrorProofs Proofs.ArrayProofs Proofs.ReadArrayProofs Proofs.MirrorArrayProofs Proofs.ContainerProofs Proofs.AlphabetProofs.
Import ListNotations.
Open Scope N_scope.
Ltac Zify.zify_post_hook ::= idtac.
Local Arguments N.pow : simpl never.
Local Arguments N.mul : simpl never.
Local Arguments N.add : simpl never.
Local Arguments N.sub : simpl never.
Local Arguments N.div : simpl never.
Local Arguments N.log2 : simpl never.

Definition fq (fr : list N) (a : N) : N := nth (N.to_nat a) fr 0.

Lemma bits_for_spec m v : v <= m -> v < 2 ^ bits_for m.
Proof.
  intros H. unfold bits_for. destruct (m =? 0) eqn:E; [apply N.eqb_eq in E; subst; change (2 ^ 0) with 1; lia|].
  apply N.eqb_neq in E. destruct (N.log2_spec m ltac:(lia)) as [_ Hu]. rewrite <- N.add_1_r in Hu. lia.
Qed.

Lemma bits_for_le m k : m < 2 ^ k -> bits_for m <= k.
Proof.
  intros H. unfold bits_for. destruct (m =? 0) eqn:E; [lia|]. apply N.eqb_neq in E.
  assert (N.log2 m < k) by (apply N.log2_lt_pow2; lia). lia.
Qed.

Lemma bits_for_0 m : bits_for m = 0 -> m = 0.
Proof. unfold bits_for. destruct (m =? 0) eqn:E; [intros _; apply N.eqb_eq; exact E|lia]. Qed.

Lemma fold_max_ge l : Forall (fun v => v <= fold_right N.max 0 l) l.
Proof.
  induction l as [|x t IH]; [constructor|]. cbn [fold_right]. constructor; [lia|].
  eapply Forall_impl; [|exact IH]. intros v Hv. cbv beta in Hv |- *. lia.
Qed.

(* ---------- arrays ---------- *)
Lemma nth_firstn_lt {A} (d : A) : forall k l j, (j < k)%nat -> nth j (firstn k l) d = nth j l d.
Proof.
  induction k as [|k IH]; intros l j H; [lia|]. destruct l as [|x t]; [destruct j; reflexivity|].
  destruct j as [|j]; [reflexivity|]. cbn [firstn nth]. apply IH. lia.
Qed.
Lemma nth_skipn {A} (d : A) : forall k l j, nth j (skipn k l) d = nth (k + j) l d.
Proof.
  induction k as [|k IH]; intros l j; [reflexivity|]. destruct l as [|x t]; [destruct j; reflexivity|]. cbn [skipn plus nth]. apply IH.
Qed.

Lemma upd_nth_len l k v : (N.to_nat k < length l)%nat -> length (upd_nth l k v) = length l.
Proof. intros H. unfold upd_nth. rewrite app_length, firstn_length. cbn [length]. rewrite skipn_length. lia. Qed.

Lemma nth_upd_nth l k v (j : nat) : (N.to_nat k < length l)%nat ->
  nth j (upd_nth l k v) 0 = if Nat.eqb j (N.to_nat k) then v else nth j l 0.
Proof.
  intros H. unfold upd_nth. destruct (Nat.eqb j (N.to_nat k)) eqn:E.
  - apply Nat.eqb_eq in E. subst j. rewrite app_nth2 by (rewrite firstn_length; lia). rewrite firstn_length.
    replace (N.to_nat k - Nat.min (N.to_nat k) (length l))%nat with O by lia. reflexivity.
  - apply Nat.eqb_neq in E. destruct (Nat.lt_ge_cases j (N.to_nat k)) as [Hlt|Hge].
    + rewrite app_nth1 by (rewrite firstn_length; lia). apply nth_firstn_lt. exact Hlt.
    + rewrite app_nth2 by (rewrite firstn_length; lia). rewrite firstn_length, Nat.min_l by lia.
      destruct (j - N.to_nat k)%nat as [|d] eqn:Ed; [lia|]. cbn [nth]. rewrite nth_skipn. f_equal. lia.
Qed.

Definition apply_syms (fr cur : list N) (syms : list N) : list N := fold_left (fun c a => upd_nth c a (fq fr a)) syms cur.

Lemma apply_len fr : forall syms cur, Forall (fun a => a < 256) syms -> length cur = 256%nat -> length (apply_syms fr cur syms) = 256%nat.
Proof.
  induction syms as [|a t IH]; intros cur Hs Hl; [exact Hl|]. cbn [apply_syms fold_left]. apply IH; [apply Forall_inv_tail in Hs; exact Hs|].
  rewrite upd_nth_len; [exact Hl|]. apply Forall_inv in Hs. lia.
Qed.

Lemma nth_apply fr : forall syms cur (j : nat), Forall (fun a => a < 256) syms -> length cur = 256%nat ->
  nth j (apply_syms fr cur syms) 0 = if existsb (fun a => Nat.eqb j (N.to_nat a)) syms then nth j fr 0 else nth j cur 0.
Proof.
  induction syms as [|a t IH]; intros cur j Hs Hl; [reflexivity|]. cbn [apply_syms fold_left existsb].
  apply Forall_inv in Hs as Ha. apply Forall_inv_tail in Hs as Ht.
  fold (apply_syms fr (upd_nth cur a (fq fr a)) t). rewrite IH; [|exact Ht|rewrite upd_nth_len; [exact Hl|lia]].
  destruct (existsb (fun a0 => Nat.eqb j (N.to_nat a0)) t); [rewrite orb_true_r; reflexivity|]. rewrite orb_false_r.
  rewrite nth_upd_nth by lia. destruct (Nat.eqb j (N.to_nat a)) eqn:E; [apply Nat.eqb_eq in E; subst j; reflexivity|reflexivity].
Qed.

(* ---------- one chunk of frequencies ---------- *)
Definition ssum (fr : list N) (syms : list N) : N := fold_right (fun a acc => fq fr a + acc) 0 syms.
Definition chunk_vals (fr ch : list N) : list N := map (fun a => fq fr a - 1) ch.
Definition chunk_lm (fr ch : list N) : N := bits_for (fold_right N.max 0 (chunk_vals fr ch)).
Definition chunk_ops (lr : N) (fr ch : list N) : list cop :=
  CBits (chunk_lm fr ch) (llr_of lr) :: (if chunk_lm fr ch =? 0 then [] else map (fun v => CBits v (chunk_lm fr ch)) (chunk_vals fr ch)).

Lemma freq_ops_eq lr alpha fr :
  freq_ops lr alpha fr = flat_map (chunk_ops lr fr) (chunks_of (length alpha) (if Nat.ltb (length alpha) 64 then 6%nat else 8%nat) (tl alpha)).
Proof. reflexivity. Qed.

Definition sym_ok (fr : list N) (scale : N) (a : N) : Prop := a < 256 /\ 1 <= fq fr a < scale.

Lemma read_freqs_zero fr scale : forall ch s cur sum, Forall (fun a => fq fr a = 1) ch ->
  read_freqs s 0 ch cur sum scale = (s, Some (Some (apply_syms fr cur ch, sum + ssum fr ch))).
Proof.
  induction ch as [|a r IH]; intros s cur sum H.
  - cbn [read_freqs apply_syms fold_left ssum fold_right]. rewrite N.add_0_r. reflexivity.
  - apply Forall_inv in H as Ha. apply Forall_inv_tail in H as Hr. cbn [read_freqs]. change (0 =? 0) with true. cbv iota.
    rewrite (IH s (upd_nth cur a 1) (sum + 1) Hr). cbn [apply_syms fold_left ssum fold_right]. rewrite Ha. fold (ssum fr r).
    f_equal. f_equal. f_equal. f_equal. lia.
Qed.

Lemma conv_bits_ok lm vals : lm <= 64 -> Forall aop_ok (map conv (map (fun v => CBits v lm) vals)).
Proof. intros H. induction vals as [|v t IH]; [constructor|]. cbn [map conv]. constructor; [cbn [aop_ok wop_ok]; exact H|exact IH]. Qed.

Lemma read_freqs_bits fr scale lm : 1 <= lm <= 64 -> forall ch s cur sum t P p, RA s -> Forall (sym_ok fr scale) ch ->
  Forall (fun a => fq fr a - 1 < 2 ^ lm) ch -> Forall aop_ok t -> p < 2 ^ P ->
  uval s = fst (abvs (map conv (map (fun v => CBits v lm) (chunk_vals fr ch)) ++ t)) * 2 ^ P + p ->
  total s = snd (abvs (map conv (map (fun v => CBits v lm) (chunk_vals fr ch)) ++ t)) + P ->
  exists s', read_freqs s lm ch cur sum scale = (s', Some (Some (apply_syms fr cur ch, sum + ssum fr ch))) /\ RA s' /\
    uval s' = fst (abvs t) * 2 ^ P + p /\ total s' = snd (abvs t) + P.
Proof.
  intros Hlm. induction ch as [|a r IH]; intros s cur sum t P p HR Hok Hv Ht Hp HU HT.
  - exists s. cbn [read_freqs apply_syms fold_left ssum fold_right chunk_vals map app] in *. rewrite N.add_0_r. auto.
  - pose proof (Forall_inv Hok) as [Ha [Hf1 Hf2]]. apply Forall_inv_tail in Hok as Hokr.
    apply Forall_inv in Hv as Hva. apply Forall_inv_tail in Hv as Hvr.
    cbn [chunk_vals map conv app] in HU, HT. fold (chunk_vals fr r) in HU, HT.
    cbn [read_freqs]. replace (lm =? 0) with false by (symmetry; apply N.eqb_neq; lia).
    destruct (rd_abvs s (fq fr a - 1) lm _ P p HR Hlm (abvs_app_ok0 _ _ (conv_bits_ok lm (chunk_vals fr r) ltac:(lia)) Ht) Hp HU HT) as (s1 & E1 & R1 & U1 & T1).
    rewrite (N.mod_small _ _ Hva) in E1. rewrite E1.
    replace (fq fr a - 1 + 1) with (fq fr a) by lia.
    replace (scale <=? fq fr a) with false by (symmetry; apply N.leb_gt; lia).
    destruct (IH s1 (upd_nth cur a (fq fr a)) (sum + (fq fr a - 1) + 1) t P p R1 Hokr Hvr Ht Hp U1 T1) as (s' & E' & R' & U' & T').
    rewrite E'. exists s'. split; [|auto]. cbn [apply_syms fold_left ssum fold_right]. fold (ssum fr r). f_equal. f_equal. f_equal. f_equal. lia.
Qed.

Lemma apply_syms_app fr cur a b : apply_syms fr cur (a ++ b) = apply_syms fr (apply_syms fr cur a) b.
Proof. unfold apply_syms. apply fold_left_app. Qed.
Lemma ssum_app fr a b : ssum fr (a ++ b) = ssum fr a + ssum fr b.
Proof. unfold ssum. induction a as [|x t IH]; cbn [app fold_right]; [lia|]. rewrite IH. lia. Qed.

Lemma concat_chunks : forall fuel k l, (0 < k)%nat -> (length l <= fuel)%nat -> concat (chunks_of fuel k l) = l.
Proof.
  induction fuel as [|f IH]; intros k l Hk Hl; [destruct l; [reflexivity|cbn [length] in Hl; lia]|].
  cbn [chunks_of]. destruct l as [|x t] eqn:El; [reflexivity|]. rewrite <- El in *. cbn [concat].
  rewrite IH; [apply firstn_skipn|exact Hk|]. rewrite skipn_length. assert (0 < length l)%nat by (rewrite El; cbn [length]; lia). lia.
Qed.

Lemma chunks_sym_ok fr scale : forall fuel k l, Forall (sym_ok fr scale) l -> Forall (Forall (sym_ok fr scale)) (chunks_of fuel k l).
Proof.
  induction fuel as [|f IH]; intros k l H; [constructor|]. cbn [chunks_of]. destruct l as [|x t] eqn:El; [constructor|]. rewrite <- El in *.
  constructor; [|apply IH].
  - apply Forall_forall. intros y Hy. rewrite Forall_forall in H. apply H. rewrite <- (firstn_skipn k l). apply in_or_app. left. exact Hy.
  - apply Forall_forall. intros y Hy. rewrite Forall_forall in H. apply H. rewrite <- (firstn_skipn k l). apply in_or_app. right. exact Hy.
Qed.

Lemma chunk_ops_ok lr fr ch : 8 <= lr <= 15 -> Forall (sym_ok fr (2 ^ lr)) ch -> Forall aop_ok (map conv (chunk_ops lr fr ch)) /\ chunk_lm fr ch <= lr /\
  Forall (fun a => fq fr a - 1 < 2 ^ chunk_lm fr ch) ch.
Proof.
  intros Hlr Hok.
  assert (Hmax : fold_right N.max 0 (chunk_vals fr ch) < 2 ^ lr).
  { induction ch as [|a r IH]; [cbn [chunk_vals map fold_right]; apply pow2_pos|]. cbn [chunk_vals map fold_right].
    pose proof (Forall_inv Hok) as [_ [H1 H2]]. apply Forall_inv_tail in Hok as Hr. specialize (IH Hr). fold (chunk_vals fr r). lia. }
  pose proof (bits_for_le _ _ Hmax) as Hle. fold (chunk_lm fr ch) in Hle.
  split; [|split; [exact Hle|]].
  - unfold chunk_ops. cbn [map conv]. constructor; [cbn [aop_ok wop_ok]; unfold llr_of; destruct (16 <=? lr); [lia|destruct (8 <=? lr); lia]|].
    destruct (chunk_lm fr ch =? 0); [constructor|]. apply conv_bits_ok. lia.
  - pose proof (fold_max_ge (chunk_vals fr ch)) as Hge. rewrite Forall_forall in Hge. apply Forall_forall. intros a Ha.
    apply bits_for_spec. apply Hge. unfold chunk_vals. apply in_map_iff. exists a. auto.
Qed.

Lemma read_chunks_ok lr fr : 8 <= lr <= 15 -> forall chs s cur sum t P p, RA s -> Forall (Forall (sym_ok fr (2 ^ lr))) chs ->
  Forall aop_ok t -> p < 2 ^ P ->
  uval s = fst (abvs (map conv (flat_map (chunk_ops lr fr) chs) ++ t)) * 2 ^ P + p ->
  total s = snd (abvs (map conv (flat_map (chunk_ops lr fr) chs) ++ t)) + P ->
  exists s', read_chunks s (llr_of lr) (2 ^ lr) chs cur sum = (s', Some (Some (apply_syms fr cur (concat chs), sum + ssum fr (concat chs)))) /\
    RA s' /\ uval s' = fst (abvs t) * 2 ^ P + p /\ total s' = snd (abvs t) + P.
Proof.
  intros Hlr. induction chs as [|ch r IH]; intros s cur sum t P p HR Hok Ht Hp HU HT.
  - exists s. cbn [read_chunks concat apply_syms fold_left ssum fold_right flat_map map app] in *. rewrite N.add_0_r. auto.
  - apply Forall_inv in Hok as Hch. apply Forall_inv_tail in Hok as Hr.
    destruct (chunk_ops_ok lr fr ch Hlr Hch) as (Hops & Hlm & Hv).
    assert (Hrest : Forall aop_ok (map conv (flat_map (chunk_ops lr fr) r) ++ t)).
    { apply abvs_app_ok0; [|exact Ht]. clear - Hlr Hr. induction r as [|c u IH]; [constructor|]. cbn [flat_map]. rewrite map_app.
      apply abvs_app_ok0; [apply (chunk_ops_ok lr fr c Hlr); apply Forall_inv in Hr; exact Hr|apply IH; apply Forall_inv_tail in Hr; exact Hr]. }
    cbn [flat_map] in HU, HT. rewrite map_app, <- app_assoc in HU, HT. unfold chunk_ops at 1 in HU. unfold chunk_ops at 1 in HT. cbn [map conv app] in HU, HT.
    set (lm := chunk_lm fr ch) in *.
    assert (Hllr : 1 <= llr_of lr <= 64 /\ lm < 2 ^ llr_of lr).
    { unfold llr_of. replace (16 <=? lr) with false by (symmetry; apply N.leb_gt; lia). replace (8 <=? lr) with true by (symmetry; apply N.leb_le; lia).
      split; [lia|]. change (2 ^ 4) with 16. lia. }
    destruct Hllr as [Hllr Hlmlt].
    cbn [read_chunks concat].
    destruct (lm =? 0) eqn:E0.
    + apply N.eqb_eq in E0. cbn [map app] in HU, HT.
      destruct (rd_abvs s lm (llr_of lr) _ P p HR Hllr Hrest Hp HU HT) as (s1 & E1 & R1 & U1 & T1).
      rewrite (N.mod_small _ _ Hlmlt) in E1. rewrite E1. rewrite E0. change (2 ^ 0) with 1.
      replace (2 ^ lr <? 1) with false by (symmetry; apply N.ltb_ge; pose proof (pow2_pos lr); lia).
      assert (Hone : Forall (fun a => fq fr a = 1) ch).
      { rewrite E0 in Hv. change (2 ^ 0) with 1 in Hv. rewrite Forall_forall in *. intros a Ha. specialize (Hv a Ha). destruct (Hch a Ha) as [_ [X _]]. cbv beta in Hv. lia. }
      rewrite (read_freqs_zero fr (2 ^ lr) ch s1 cur sum Hone).
      destruct (IH s1 (apply_syms fr cur ch) (sum + ssum fr ch) t P p R1 Hr Ht Hp U1 T1) as (s' & E' & R' & U' & T').
      rewrite E'. exists s'. split; [|auto]. rewrite apply_syms_app, ssum_app. f_equal. f_equal. f_equal. f_equal. lia.
    + apply N.eqb_neq in E0.
      assert (Hvo : Forall aop_ok (map conv (map (fun v => CBits v lm) (chunk_vals fr ch)) ++ map conv (flat_map (chunk_ops lr fr) r) ++ t)).
      { apply abvs_app_ok0; [apply conv_bits_ok; lia|exact Hrest]. }
      destruct (rd_abvs s lm (llr_of lr) _ P p HR Hllr Hvo Hp HU HT) as (s1 & E1 & R1 & U1 & T1).
      rewrite (N.mod_small _ _ Hlmlt) in E1. rewrite E1.
      replace (2 ^ lr <? 2 ^ lm) with false by (symmetry; apply N.ltb_ge; apply N.pow_le_mono_r; [discriminate|exact Hlm]).
      destruct (read_freqs_bits fr (2 ^ lr) lm ltac:(lia) ch s1 cur sum _ P p R1 Hch Hv Hrest Hp U1 T1) as (s2 & E2 & R2 & U2 & T2).
      rewrite E2.
      destruct (IH s2 (apply_syms fr cur ch) (sum + ssum fr ch) t P p R2 Hr Ht Hp U2 T2) as (s' & E' & R' & U' & T').
      rewrite E'. exists s'. split; [|auto]. rewrite apply_syms_app, ssum_app. f_equal. f_equal. f_equal. f_equal. lia.
Qed.

Lemma nth_repeat0 : forall n j, nth j (repeat 0 n) 0 = 0.
Proof. induction n as [|n IH]; intros j; destruct j; cbn [repeat nth]; auto. Qed.

(* ---------- the whole header ---------- *)
Definition table_ok (lr : N) (alpha fr : list N) : Prop :=
  length fr = 256%nat /\ Forall (fun a => a < 256 /\ 1 <= fq fr a) alpha /\ ssum fr alpha = 2 ^ lr /\
  (forall j : nat, (j < 256)%nat -> ~ In (N.of_nat j) alpha -> nth j fr 0 = 0).

Lemma ssum_ge fr : forall l a, In a l -> fq fr a <= ssum fr l.
Proof.
  induction l as [|x t IH]; intros a H; [contradiction|]. cbn [ssum fold_right]. fold (ssum fr t).
  destruct H as [->|H]; [lia|]. specialize (IH a H). lia.
Qed.

Lemma chunks_ops_ok lr fr : 8 <= lr <= 15 -> forall chs, Forall (Forall (sym_ok fr (2 ^ lr))) chs ->
  Forall aop_ok (map conv (flat_map (chunk_ops lr fr) chs)).
Proof.
  intros Hlr. induction chs as [|c u IH]; intros H; [constructor|]. cbn [flat_map]. rewrite map_app.
  apply abvs_app_ok0; [apply (chunk_ops_ok lr fr c Hlr); apply Forall_inv in H; exact H|apply IH; apply Forall_inv_tail in H; exact H].
Qed.

Lemma existsb_in (j : nat) l : existsb (fun a => Nat.eqb j (N.to_nat a)) l = true <-> In (N.of_nat j) l.
Proof.
  rewrite existsb_exists. split.
  - intros (a & Ha & E). apply Nat.eqb_eq in E. subst j. rewrite N2Nat.id. exact Ha.
  - intros H. exists (N.of_nat j). split; [exact H|]. rewrite Nat2N.id. apply Nat.eqb_refl.
Qed.

Lemma table_tail_ok lr alpha fr : table_ok lr alpha fr -> Forall (sym_ok fr (2 ^ lr)) (tl alpha).
Proof.
  intros (_ & Hok0 & Hsum & _). destruct alpha as [|a0 ar]; [constructor|]. cbn [tl]. cbn [ssum fold_right] in Hsum. fold (ssum fr ar) in Hsum.
  pose proof (Forall_inv Hok0) as [_ H0]. apply Forall_inv_tail in Hok0 as Hr. apply Forall_forall. intros a Ha. rewrite Forall_forall in Hr.
  destruct (Hr a Ha) as [X1 X2]. pose proof (ssum_ge fr ar a Ha). split; [exact X1|split; [exact X2|lia]].
Qed.

Lemma header_ops_ok lr alpha fr hops : 8 <= lr <= 15 -> table_ok lr alpha fr -> header_ops lr alpha fr = Some hops ->
  Forall aop_ok (map conv hops).
Proof.
  intros Hlr Htab Hh. pose proof (table_tail_ok lr alpha fr Htab) as Htl. destruct Htab as (_ & Hok0 & _ & _).
  assert (Hb : Forall (fun x => x < 256) alpha) by (eapply Forall_impl; [|exact Hok0]; intros a [X _]; exact X).
  unfold header_ops in Hh. destruct (encode_alphabet alpha) as [aops|] eqn:Ea; [|discriminate].
  pose proof (encode_alphabet_ok alpha aops Hb Ea) as Hao.
  destruct (Nat.eqb (length alpha) 0); inversion Hh; subst hops; [exact Hao|].
  rewrite map_app. apply abvs_app_ok0; [exact Hao|]. cbn [map conv]. constructor; [cbn [aop_ok wop_ok]; lia|].
  rewrite freq_ops_eq. apply chunks_ops_ok; [exact Hlr|]. apply chunks_sym_ok. exact Htl.
Qed.

Theorem range_header_roundtrip lr alpha fr hops s fr0 t P p :
  8 <= lr <= 15 -> StronglySorted N.lt alpha -> alpha <> [] -> table_ok lr alpha fr -> length fr0 = 256%nat ->
  header_ops lr alpha fr = Some hops -> RA s -> Forall aop_ok t -> p < 2 ^ P ->
  uval s = fst (abvs (map conv hops ++ t)) * 2 ^ P + p -> total s = snd (abvs (map conv hops ++ t)) + P ->
  exists s', decode_header s fr0 = (s', HFreqs alpha fr lr) /\ RA s' /\ uval s' = fst (abvs t) * 2 ^ P + p /\ total s' = snd (abvs t) + P.
Proof.
  intros Hlr Hs Hne (Hlen & Hok0 & Hsum & Hzero) Hl0 Hh HR Ht Hp HU HT.
  assert (Hb : Forall (fun x => x < 256) alpha) by (eapply Forall_impl; [|exact Hok0]; intros a [X _]; exact X).
  (* every frequency but the first one is below the scale: the first one is at least 1 and they sum to the scale *)
  assert (Hok : Forall (fun a => a < 256 /\ 1 <= fq fr a) alpha /\ Forall (sym_ok fr (2 ^ lr)) (tl alpha)).
  { split; [exact Hok0|]. destruct alpha as [|a0 ar]; [constructor|]. cbn [tl]. cbn [ssum fold_right] in Hsum. fold (ssum fr ar) in Hsum.
    pose proof (Forall_inv Hok0) as [_ H0]. apply Forall_inv_tail in Hok0 as Hr. apply Forall_forall. intros a Ha. rewrite Forall_forall in Hr.
    destruct (Hr a Ha) as [X1 X2]. pose proof (ssum_ge fr ar a Ha). split; [exact X1|split; [exact X2|lia]]. }
  destruct Hok as [Hok Htl0].
  unfold header_ops in Hh. destruct (encode_alphabet alpha) as [aops|] eqn:Ea; [|discriminate].
  assert (Hn0 : Nat.eqb (length alpha) 0 = false) by (destruct alpha; [congruence|reflexivity]). rewrite Hn0 in Hh. inversion Hh; subst hops. clear Hh.
  assert (Hlen256 : (length alpha <= 256)%nat).
  { unfold encode_alphabet in Ea. destruct (Nat.ltb 256 (length alpha)) eqn:X; [discriminate|]. apply Nat.ltb_ge in X. exact X. }
  set (chk := if Nat.ltb (length alpha) 64 then 6%nat else 8%nat) in *.
  set (chs := chunks_of (length alpha) chk (tl alpha)).
  assert (Htl : Forall (sym_ok fr (2 ^ lr)) (tl alpha)) by exact Htl0.
  assert (Hchs : Forall (Forall (sym_ok fr (2 ^ lr))) chs) by (apply chunks_sym_ok; exact Htl).
  assert (Hfo : Forall aop_ok (map conv (freq_ops lr alpha fr))) by (rewrite freq_ops_eq; fold chk chs; apply chunks_ops_ok; assumption).
  rewrite map_app, <- app_assoc in HU, HT. cbn [map conv app] in HU, HT.
  assert (Ht1 : Forall aop_ok (AOp (WBits (lr - 8) 3) :: map conv (freq_ops lr alpha fr) ++ t)).
  { constructor; [cbn [aop_ok wop_ok]; lia|apply abvs_app_ok0; assumption]. }
  destruct (alphabet_roundtrip alpha aops s _ P p 256 Hs Hb Ea Hlen256 HR Ht1 Hp HU HT) as (_ & s1 & Ed & R1 & U1 & T1).
  unfold decode_header. rewrite Ed, Hn0.
  destruct (rd_abvs s1 (lr - 8) 3 _ P p R1 ltac:(lia) (abvs_app_ok0 _ _ Hfo Ht) Hp U1 T1) as (s2 & E2 & R2 & U2 & T2).
  change (2 ^ 3) with 8 in E2. rewrite N.mod_small in E2 by lia. rewrite E2.
  replace (8 + (lr - 8)) with lr by lia. cbv zeta. fold chk. fold chs.
  rewrite freq_ops_eq in U2, T2. fold chk chs in U2, T2.
  set (fr1 := if Nat.eqb (length alpha) 256 then fr0 else repeat 0 256).
  destruct (read_chunks_ok lr fr Hlr chs s2 fr1 0 t P p R2 Hchs Ht Hp U2 T2) as (s3 & E3 & R3 & U3 & T3).
  rewrite E3.
  assert (Ecat : concat chs = tl alpha).
  { unfold chs. apply concat_chunks; [unfold chk; destruct (Nat.ltb (length alpha) 64); lia|destruct alpha; cbn [tl length]; lia]. }
  rewrite Ecat, N.add_0_l.
  set (a0 := hd 0 alpha). set (ar := tl alpha) in *.
  assert (Ealpha : alpha = a0 :: ar) by (unfold a0, ar; destruct alpha; [congruence|reflexivity]).
  assert (Hs0 : ssum fr alpha = fq fr a0 + ssum fr ar) by (rewrite Ealpha; reflexivity).
  assert (Ha0 : a0 < 256 /\ 1 <= fq fr a0) by (rewrite Ealpha in Hok; apply Forall_inv in Hok; exact Hok).
  destruct Ha0 as [Ha0l Ha01].
  replace (2 ^ lr <=? ssum fr ar) with false by (symmetry; apply N.leb_gt; lia).
  replace (2 ^ lr - ssum fr ar) with (fq fr a0) by lia.
  exists s3. split; [|auto]. f_equal. f_equal.
  (* the table *)
  assert (Hfr1 : length fr1 = 256%nat) by (unfold fr1; destruct (Nat.eqb (length alpha) 256); [exact Hl0|apply repeat_length]).
  assert (Har : Forall (fun a => a < 256) ar) by (rewrite Ealpha in Hb; apply Forall_inv_tail in Hb; exact Hb).
  pose proof (apply_len fr ar fr1 Har Hfr1) as Hal.
  apply (nth_ext _ _ 0 0); [rewrite upd_nth_len; [rewrite Hal, Hlen; reflexivity|rewrite Hal; lia]|].
  intros j Hj. rewrite upd_nth_len in Hj by (rewrite Hal; lia). rewrite Hal in Hj.
  rewrite nth_upd_nth by (rewrite Hal; lia). destruct (Nat.eqb j (N.to_nat a0)) eqn:Ej.
  - apply Nat.eqb_eq in Ej. subst j. reflexivity.
  - rewrite (nth_apply fr ar fr1 j Har Hfr1). destruct (existsb (fun a => Nat.eqb j (N.to_nat a)) ar) eqn:Ex; [reflexivity|].
    assert (Hnotin : ~ In (N.of_nat j) alpha).
    { rewrite Ealpha. intros [X|X]; [apply Nat.eqb_neq in Ej; apply Ej; rewrite X, Nat2N.id; reflexivity|].
      apply existsb_in in X. rewrite X in Ex. discriminate. }
    rewrite (Hzero j Hj Hnotin). unfold fr1. destruct (Nat.eqb (length alpha) 256) eqn:E256.
    + apply Nat.eqb_eq in E256. exfalso. apply Hnotin. rewrite (full_alphabet alpha Hs Hb E256). unfold iota. apply in_map. apply in_seq. lia.
    + rewrite nth_repeat0. reflexivity.
Qed.

(* written anywhere in a stream (here: first, then any program), closed, read back with any buffer size and source schedule *)
Theorem range_header_stream_roundtrip wbuf rbuf sched lr alpha fr hops fr0 rest :
  8 <= lr <= 15 -> StronglySorted N.lt alpha -> alpha <> [] -> table_ok lr alpha fr -> length fr0 = 256%nat ->
  header_ops lr alpha fr = Some hops ->
  40 <= wbuf -> wbuf mod 8 = 0 -> 0 < rbuf -> rbuf mod 8 = 0 -> Forall aop_ok rest ->
  exists s1 s2 s', run_aops (new_obs wbuf) (map conv hops ++ rest) = (s1, false) /\ close healthy s1 = (s2, false) /\
    decode_header (new_ibs rbuf (mkSrc (o_out s2) sched None 0)) fr0 = (s', HFreqs alpha fr lr) /\
    run_arops s' (arops_of rest) = avals_of rest.
Proof.
  intros Hlr Hs Hne Htab Hl0 Hh Hw Hw8 Hr Hr8 Hrest.
  pose proof (header_ops_ok lr alpha fr hops Hlr Htab Hh) as Hops.
  assert (Hall : Forall aop_ok (map conv hops ++ rest)) by (apply Forall_app; split; assumption).
  destruct (array_image wbuf _ Hw Hw8 Hall) as (s1 & s2 & pad & V & L & E1 & E2 & EV & Hcl & Hpad & Hlen & Himg & _).
  exists s1, s2.
  assert (Hob : bytes_ok (o_out s2)).
  { eapply close_obok; [|exact E2]. eapply run_aops_obok; [|exact Hall|exact E1]. split; constructor. }
  destruct (new_ibs_ra rbuf (o_out s2) sched Hr Hr8 Hob) as (R0 & U0 & T0). cbv zeta in R0, U0, T0.
  rewrite fold_abvs in EV. cbn [fst snd] in EV. rewrite N.mul_0_l, !N.add_0_l in EV. injection EV as EV1 EV2.
  destruct (range_header_roundtrip lr alpha fr hops _ fr0 rest pad 0 Hlr Hs Hne Htab Hl0 Hh R0 Hrest (pow2_pos pad)
              ltac:(rewrite U0, Himg, EV1; lia) ltac:(rewrite T0, Hlen, EV2; reflexivity)) as (s' & Ed & R' & U' & T').
  exists s'. split; [exact E1|]. split; [exact E2|]. split; [exact Ed|].
  destruct (arops_ok rest Hrest) as [Haok Hsz].
  rewrite (array_reader_program _ _ R' Haok) by (rewrite Hsz, T'; lia).
  rewrite U', T'. apply spec_on_abvs; [exact Hrest|apply pow2_pos].
Qed.
