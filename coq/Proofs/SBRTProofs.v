(* SBRT (MTFT, RANK, time stamp): Inverse(Forward(x)) = x for every block of bytes and every mode, the
   output has the length of the input and consists of bytes; SBRT as a stage keeps the stage contract. *)
From Coq Require Import List NArith Lia Bool Arith Permutation ZifyN ZifyNat ZifyBool.
From KV Require Import Model.SBRT Proofs.BinCoderProofs.
Import ListNotations.
Open Scope N_scope.
Ltac Zify.zify_post_hook ::= idtac.

Lemma span_app q qc : forall l a b, span_le q qc l = (a, b) -> a ++ b = l.
Proof.
  induction l as [|t r IH]; intros a b H; cbn [span_le] in H; [inversion H; reflexivity|].
  destruct (get q t <=? qc); [|inversion H; reflexivity].
  destruct (span_le q qc r) as [a' b'] eqn:E. inversion H; subst. cbn [app]. f_equal. apply IH. reflexivity.
Qed.

Lemma bump_perm q qc L r c : (r < length L)%nat -> nth r L 0 = c -> Permutation (bump q qc L r c) L.
Proof.
  intros Hr Hc. unfold bump. destruct (span_le q qc (rev (firstn r L))) as [a b] eqn:E.
  apply span_app in E. apply (f_equal (@rev N)) in E. rewrite rev_app_distr, rev_involutive in E.
  assert (HL : L = firstn r L ++ c :: skipn (S r) L).
  { rewrite <- Hc. clear - Hr. revert r Hr. induction L as [|x t IH]; intros r Hr; [cbn [length] in Hr; lia|].
    destruct r as [|r]; [reflexivity|]. cbn [firstn skipn nth app]. f_equal. apply IH. cbn [length] in Hr. lia. }
  rewrite HL at 2. rewrite <- E. rewrite <- app_assoc. apply Permutation_app_head.
  apply Permutation_middle.
Qed.

Lemma index_nth c : forall L, In c L -> (index_of c L < length L)%nat /\ nth (index_of c L) L 0 = c.
Proof.
  induction L as [|x t IH]; intros H; [contradiction|]. cbn [index_of].
  destruct (x =? c) eqn:E; [apply N.eqb_eq in E; subst; cbn [length nth]; split; [lia|reflexivity]|].
  apply N.eqb_neq in E. destruct H as [H|H]; [contradiction|]. destruct (IH H) as [A B]. cbn [length nth]. split; [lia|exact B].
Qed.

Definition SI (st : sst) : Prop := Permutation (s_l st) iota256.

Lemma in_iota c : In c iota256 <-> c < 256.
Proof.
  unfold iota256. rewrite in_map_iff. split.
  - intros (k & <- & Hk). apply in_seq in Hk. lia.
  - intros H. exists (N.to_nat c). split; [apply N2Nat.id|apply in_seq; lia].
Qed.

Lemma si_len st : SI st -> length (s_l st) = 256%nat.
Proof. intros H. rewrite (Permutation_length H). unfold iota256. rewrite map_length, seq_length. reflexivity. Qed.

Lemma si_in st c : SI st -> c < 256 -> In c (s_l st).
Proof. intros H Hc. apply (Permutation_in c (Permutation_sym H)). apply in_iota. exact Hc. Qed.

Lemma si_step mode i st r c : SI st -> (r < length (s_l st))%nat -> nth r (s_l st) 0 = c -> SI (sstep mode i st r c).
Proof. intros H Hr Hc. unfold SI, sstep. cbn [s_l]. eapply Permutation_trans; [apply bump_perm; assumption|exact H]. Qed.

Lemma si_init : SI init_s.
Proof. unfold SI, init_s. cbn [s_l]. apply Permutation_refl. Qed.

Theorem loops_roundtrip mode : forall x i st, SI st -> bytes_ok x ->
  inv_loop mode i st (fwd_loop mode i st x) = x /\ length (fwd_loop mode i st x) = length x /\ bytes_ok (fwd_loop mode i st x).
Proof.
  induction x as [|c t IH]; intros i st HS Hb; [split; [reflexivity|split; [reflexivity|constructor]]|].
  apply Forall_inv in Hb as Hc. apply Forall_inv_tail in Hb as Ht.
  destruct (index_nth c (s_l st) (si_in st c HS Hc)) as [Hr Hn].
  cbn [fwd_loop inv_loop]. set (r := index_of c (s_l st)) in *.
  assert (Eg : get (s_l st) (N.of_nat r) = c) by (unfold get; rewrite Nat2N.id; exact Hn).
  rewrite Eg, Nat2N.id.
  destruct (IH (i + 1) (sstep mode i st r c) (si_step mode i st r c HS Hr Hn) Ht) as (A & B & C).
  split; [rewrite A; reflexivity|]. split; [cbn [length]; rewrite B; reflexivity|].
  constructor; [rewrite (si_len st HS) in Hr; lia|exact C].
Qed.

Theorem sbrt_roundtrip mode x cap y : bytes_ok x -> sbrt_fwd mode x cap = Some y ->
  length y = length x /\ bytes_ok y /\ forall cap', (length x <= cap')%nat -> sbrt_inv mode y cap' = Some x.
Proof.
  intros Hb H. unfold sbrt_fwd in H. destruct (Nat.ltb cap (length x + MAX_HEADER)); [discriminate|]. inversion H; subst. clear H.
  destruct (loops_roundtrip mode x 0 init_s si_init Hb) as (A & B & C).
  split; [exact B|]. split; [exact C|]. intros cap' Hc. unfold sbrt_inv. rewrite B.
  replace (Nat.ltb cap' (length x)) with false by (symmetry; apply Nat.ltb_ge; exact Hc). rewrite A. reflexivity.
Qed.

(* SBRT as a stage of a transform sequence (Model/Seq.v) *)
From KV Require Import Model.Seq Proofs.SeqProofs.

Definition sbrt_stage (mode : N) : tr :=
  mkT (fun x cap => match x with
                    | [] => None
                    | _ => if (cap =? 0)%nat || negb (forallb (fun b => b <? 256) x) then None else sbrt_fwd mode x cap
                    end)
      (fun y cap => match y with [] => None | _ => if (cap =? 0)%nat then None else sbrt_inv mode y cap end)
      (fun n => (n + MAX_HEADER)%nat).

Theorem sbrt_stage_good mode : good (sbrt_stage mode).
Proof.
  constructor; cbn [sbrt_stage t_fwd t_inv t_max].
  - intros x cap y H. destruct x as [|v t] eqn:Ex; [discriminate|]. rewrite <- Ex in *.
    destruct ((cap =? 0)%nat || negb (forallb (fun b => b <? 256) x)) eqn:E; [discriminate|].
    apply orb_false_iff in E. destruct E as [_ E2]. apply negb_false_iff in E2.
    assert (Hb : bytes_ok x).
    { apply Forall_forall. intros b Hbin. rewrite forallb_forall in E2. apply N.ltb_lt. apply E2. exact Hbin. }
    destruct (sbrt_roundtrip mode x cap y Hb H) as (L & _ & _). split; [lia|].
    intros _ Hy. rewrite Hy in L. rewrite Ex in L. cbn [length] in L. lia.
  - intros x cap y H cap' Hc. destruct x as [|v t] eqn:Ex; [discriminate|]. rewrite <- Ex in *.
    destruct ((cap =? 0)%nat || negb (forallb (fun b => b <? 256) x)) eqn:E; [discriminate|].
    apply orb_false_iff in E. destruct E as [_ E2]. apply negb_false_iff in E2.
    assert (Hb : bytes_ok x).
    { apply Forall_forall. intros b Hbin. rewrite forallb_forall in E2. apply N.ltb_lt. apply E2. exact Hbin. }
    destruct (sbrt_roundtrip mode x cap y Hb H) as (L & _ & Hi).
    destruct y as [|w u] eqn:Ey; [rewrite Ex in L; cbn [length] in L; lia|]. rewrite <- Ey in *.
    replace (cap' =? 0)%nat with false by (symmetry; apply Nat.eqb_neq; rewrite Ex in Hc; cbn [length] in Hc; lia).
    apply Hi. exact Hc.
  - intros a b H. lia.
Qed.
