(* The NONE / NONE container, end to end at the level of bits (C01, C10, C17): for every valid header
   configuration, every list of blocks (non-empty, at most 8 MiB each, within the size the reader
   accepts), every checksum mode, any buffer size (a multiple of 8) and chunk schedule on the reading
   side: parsing the bytes the writer model produces - header, nested per-block bit streams, end marker -
   returns the same configuration and exactly the blocks, then the end marker. *)
From Coq Require Import List NArith ZArith Lia Bool ZifyN ZifyNat ZifyBool.
From KV Require Import Model.OutBS Model.InBS Model.Header Model.Container Lib.Bits Proofs.OutBSProofs Proofs.BinCoderProofs
  Proofs.InBSProofs Proofs.MirrorProofs Proofs.HeaderProofs Proofs.ArrayProofs Proofs.ReadArrayProofs Proofs.MirrorArrayProofs.
Import ListNotations.
Open Scope N_scope.

Ltac Zify.zify_post_hook ::= idtac.
Local Arguments N.pow : simpl never.
Local Arguments N.div : simpl never.
Local Arguments N.modulo : simpl never.
Local Arguments N.mul : simpl never.
Local Arguments N.sub : simpl never.
Local Arguments N.add : simpl never.
Local Arguments N.log2 : simpl never.

(* ---------- the model's operations are the operations of the array theorems ---------- *)
Definition conv (o : cop) : aop := match o with CBit b => AOp (WBit b) | CBits v c => AOp (WBits v c) | CArr b c => AArr b c end.

Lemma run_cops_conv : forall ops s, run_cops s ops = run_aops s (map conv ops).
Proof.
  induction ops as [|o t IH]; intros s; [reflexivity|]. cbn [run_cops map run_aops].
  assert (E : run_cop s o = run_aop s (conv o)) by (destruct o; reflexivity). rewrite E.
  destruct (run_aop s (conv o)) as [s1 [|]]; [reflexivity|apply IH].
Qed.

(* ---------- reading a vector piece by piece ---------- *)
(* the stream holds: [val] on c bits, then Vt on Lt bits, then p on P bits *)
Lemma rd_vec s c val Vt Lt P p : RA s -> 1 <= c <= 64 -> val < 2 ^ c -> Vt < 2 ^ Lt -> p < 2 ^ P ->
  uval s = (val * 2 ^ Lt + Vt) * 2 ^ P + p -> total s = c + Lt + P ->
  exists s', read_bits s c = (s', Val val) /\ RA s' /\ uval s' = Vt * 2 ^ P + p /\ total s' = Lt + P.
Proof.
  intros HR Hc Hv HV Hp HU HT.
  destruct (spec_step val c Vt Lt P p ltac:(lia) Hv HV Hp) as (_ & S2 & S3 & S4). cbv zeta in S2, S3, S4.
  destruct (rd s c HR Hc ltac:(rewrite HT; lia)) as (s' & E & HR' & T' & U').
  exists s'. rewrite HU, HT in E. rewrite HT in T'. rewrite HU, HT in U'. rewrite S2 in E. rewrite S3 in U'. rewrite S4 in T'. auto.
Qed.

(* a whole byte string written with WriteArray(bits, 8 * len) comes back as it is *)
Lemma bytes_of_whole bits : bytes_ok bits -> bytes_of (be_val bits) (8 * N.of_nat (length bits)) (8 * N.of_nat (length bits)) = bits.
Proof.
  intros Hb. unfold bytes_of. rewrite N.mul_comm, N.div_mul, N.mod_mul by discriminate. cbn [N.eqb]. rewrite app_nil_r, Nat2N.id.
  rewrite N.mul_comm, N.sub_diag. change (2 ^ 0) with 1. rewrite N.div_1_r. apply be_bytes_be_val. exact Hb.
Qed.

Lemma ra_vec s bits Vt Lt P p : RA s -> bytes_ok bits -> bits <> [] -> Vt < 2 ^ Lt -> p < 2 ^ P ->
  let c := 8 * N.of_nat (length bits) in
  uval s = (be_val bits * 2 ^ Lt + Vt) * 2 ^ P + p -> total s = c + Lt + P ->
  exists s', read_array s c = (s', Val bits) /\ RA s' /\ uval s' = Vt * 2 ^ P + p /\ total s' = Lt + P.
Proof.
  intros HR Hb Hne HV Hp c HU HT.
  assert (Hc : 1 <= c) by (unfold c; destruct bits; [congruence|cbn [length]; lia]).
  pose proof (be_val_lt bits Hb) as Hv. fold c in Hv.
  destruct (spec_step (be_val bits) c Vt Lt P p Hc Hv HV Hp) as (_ & S2 & S3 & S4). cbv zeta in S2, S3, S4.
  destruct (read_array_spec s c HR ltac:(lia) ltac:(rewrite HT; lia)) as (s' & E & HR' & T' & U').
  exists s'. rewrite HU, HT in E. rewrite HT in T'. rewrite HU, HT in U'. rewrite (bytes_of_top _ (c + Lt + P) c) in E by lia. rewrite S2 in E.
  unfold c in E at 2 3. rewrite (bytes_of_whole bits Hb) in E. rewrite S3 in U'. rewrite S4 in T'. auto.
Qed.

(* the image of a closed bit stream read as an array of its bit length: the bytes themselves *)
(* the last byte of an image with [pad] zero bits at the end *)
Lemma last_byte_split last pad : last < 256 -> 0 < pad < 8 -> last mod 2 ^ pad = 0 ->
  let t := 8 - pad in let q := last / 2 ^ pad in
  q < 2 ^ t /\ last = q * 2 ^ pad /\ 256 = 2 ^ t * 2 ^ pad.
Proof.
  intros Hl Hp Hz t q.
  assert (Hpp : 256 = 2 ^ t * 2 ^ pad).
  { rewrite <- N.pow_add_r. unfold t. replace (8 - pad + pad) with 8 by (clear - Hp; lia). reflexivity. }
  pose proof (div_exact_pow last pad Hz) as Hle. fold q in Hle.
  split; [|split; [exact Hle|exact Hpp]].
  apply N.div_lt_upper_bound; [apply N.pow_nonzero; discriminate|]. rewrite N.mul_comm, <- Hpp. exact Hl.
Qed.

Lemma div8_unique m t : t < 8 -> (8 * m + t) / 8 = m /\ (8 * m + t) mod 8 = t.
Proof.
  intros Ht. split; [symmetry; apply (N.div_unique _ 8 m t); [exact Ht|reflexivity]|symmetry; apply (N.mod_unique _ 8 m t); [exact Ht|reflexivity]].
Qed.

Lemma bytes_of_image I w pad : bytes_ok I -> 8 * N.of_nat (length I) = w + pad -> pad < 8 -> be_val I mod 2 ^ pad = 0 ->
  bytes_of (be_val I / 2 ^ pad) w w = I.
Proof.
  intros Hb Hl Hp Hz. destruct (N.eq_dec pad 0) as [->|Hp0].
  - change (2 ^ 0) with 1. rewrite N.div_1_r. rewrite N.add_0_r in Hl. rewrite <- Hl. apply bytes_of_whole. exact Hb.
  - induction I as [|last I' _] using rev_ind; [cbn [length N.of_nat] in Hl; clear - Hl Hp Hp0; lia|].
    apply Forall_app in Hb. destruct Hb as [Hb' Hlast]. apply Forall_inv in Hlast as Hl256.
    rewrite app_length in Hl. cbn [length] in Hl.
    set (m := length I') in *. set (t := 8 - pad).
    assert (Ht : 0 < t < 8) by (unfold t; clear - Hp Hp0; lia).
    assert (Ew : w = 8 * N.of_nat m + t) by (unfold t; clear - Hl Hp; lia).
    assert (Ev : be_val (I' ++ [last]) = be_val I' * 256 + last).
    { rewrite be_val_app. cbn [be_val length]. change (N.of_nat 1) with 1. change (N.of_nat 0) with 0.
      change (2 ^ (8 * 1)) with 256. change (2 ^ (8 * 0)) with 1. clear. lia. }
    rewrite Ev in Hz |- *.
    assert (Hlz : last mod 2 ^ pad = 0).
    { assert (Hpp : 256 = 2 ^ t * 2 ^ pad) by (rewrite <- N.pow_add_r; unfold t; replace (8 - pad + pad) with 8 by (clear - Hp; lia); reflexivity).
      rewrite Hpp in Hz. rewrite N.mul_assoc in Hz. rewrite N.add_comm in Hz. rewrite N.mod_add in Hz by (apply N.pow_nonzero; discriminate). exact Hz. }
    destruct (last_byte_split last pad Hl256 ltac:(clear - Hp Hp0; lia) Hlz) as (Hq & Hle & Hpp). cbv zeta in Hq, Hle, Hpp. fold t in Hq, Hpp.
    set (q := last / 2 ^ pad) in *.
    assert (EX : (be_val I' * 256 + last) / 2 ^ pad = be_val I' * 2 ^ t + q).
    { rewrite Hpp, Hle. replace (be_val I' * (2 ^ t * 2 ^ pad) + q * 2 ^ pad) with ((be_val I' * 2 ^ t + q) * 2 ^ pad) by (clear; lia).
      apply N.div_mul. apply N.pow_nonzero; discriminate. }
    rewrite EX. unfold bytes_of.
    destruct (div8_unique (N.of_nat m) t ltac:(clear - Ht; lia)) as [E1 E2]. rewrite <- Ew in E1, E2.
    rewrite E1, E2, Nat2N.id. replace (t =? 0) with false by (symmetry; apply N.eqb_neq; clear - Ht; lia).
    rewrite N.sub_diag. change (2 ^ 0) with 1. rewrite N.div_1_r.
    replace (w - 8 * N.of_nat m) with t by (clear - Ew; lia).
    rewrite N.div_add_l by (apply N.pow_nonzero; discriminate). rewrite (N.div_small q _ Hq), N.add_0_r.
    unfold m. rewrite (be_bytes_be_val I' Hb'). f_equal. f_equal.
    rewrite N.add_comm, N.mod_add by (apply N.pow_nonzero; discriminate). rewrite (N.mod_small q _ Hq).
    replace (8 - t) with pad by (clear - Hp Hp0; unfold t; lia). rewrite <- Hle. reflexivity.
Qed.

(* ---------- stepping over the vector of a program ---------- *)
Lemma rd_abvs s v c t P p : RA s -> 1 <= c <= 64 -> Forall aop_ok t -> p < 2 ^ P ->
  uval s = fst (abvs (AOp (WBits v c) :: t)) * 2 ^ P + p -> total s = snd (abvs (AOp (WBits v c) :: t)) + P ->
  exists s', read_bits s c = (s', Val (v mod 2 ^ c)) /\ RA s' /\ uval s' = fst (abvs t) * 2 ^ P + p /\ total s' = snd (abvs t) + P.
Proof.
  intros HR Hc Ht Hp HU HT. cbn [abvs fst snd aop_val aop_size op_val op_size] in HU, HT.
  apply (rd_vec s c (v mod 2 ^ c) (fst (abvs t)) (snd (abvs t)) P p HR Hc); try assumption.
  - apply N.mod_lt. apply N.pow_nonzero. discriminate.
  - apply abvs_lt. exact Ht.
Qed.

Lemma ra_abvs s bits c t P p : RA s -> aop_ok (AArr bits c) -> Forall aop_ok t -> p < 2 ^ P ->
  uval s = fst (abvs (AArr bits c :: t)) * 2 ^ P + p -> total s = snd (abvs (AArr bits c :: t)) + P ->
  exists s', read_array s c = (s', Val (bytes_of (topbits bits c) c c)) /\ RA s' /\ uval s' = fst (abvs t) * 2 ^ P + p /\ total s' = snd (abvs t) + P.
Proof.
  intros HR [Hb [Hc0 Hc]] Ht Hp HU HT. cbn [abvs fst snd aop_val aop_size] in HU, HT.
  pose proof (topbits_lt bits c Hb Hc) as Hv. pose proof (abvs_lt t Ht) as Hlt.
  destruct (spec_step (topbits bits c) c (fst (abvs t)) (snd (abvs t)) P p ltac:(lia) Hv Hlt Hp) as (_ & S2 & S3 & S4). cbv zeta in S2, S3, S4.
  destruct (read_array_spec s c HR ltac:(lia) ltac:(rewrite HT; lia)) as (s' & E & HR' & T' & U').
  exists s'. rewrite HU, HT in E. rewrite HT in T'. rewrite HU, HT in U'.
  rewrite (bytes_of_top _ (c + snd (abvs t) + P) c) in E by lia. rewrite S2 in E. rewrite S3 in U'. rewrite S4 in T'. auto.
Qed.

Lemma topbits_whole bits : topbits bits (8 * N.of_nat (length bits)) = be_val bits.
Proof. unfold topbits. rewrite N.sub_diag. change (2 ^ 0) with 1. apply N.div_1_r. Qed.

Lemma abvs_app_ok0 a b : Forall aop_ok a -> Forall aop_ok b -> Forall aop_ok (a ++ b).
Proof. intros; apply Forall_app; split; assumption. Qed.

Lemma topbits_firstn bits k : bytes_ok bits -> (k <= length bits)%nat ->
  bytes_of (topbits bits (8 * N.of_nat k)) (8 * N.of_nat k) (8 * N.of_nat k) = firstn k bits.
Proof.
  intros Hb Hk. rewrite <- (firstn_skipn k bits) at 1. unfold topbits.
  rewrite be_val_app, app_length, firstn_length, Nat.min_l by exact Hk.
  pose proof (be_val_lt (skipn k bits) (bytes_ok_skipn _ _ Hb)) as Hlt.
  replace (8 * N.of_nat (k + length (skipn k bits)) - 8 * N.of_nat k) with (8 * N.of_nat (length (skipn k bits))) by lia.
  rewrite N.div_add_l by (apply N.pow_nonzero; discriminate). rewrite (N.div_small _ _ Hlt), N.add_0_r.
  pose proof (bytes_of_whole (firstn k bits) (bytes_ok_firstn _ _ Hb)) as H. rewrite firstn_length, Nat.min_l in H by exact Hk. exact H.
Qed.

(* ---------- one block inside its own bit stream ---------- *)
Section INNER.
Variable hash : list N -> N.
Variable ck : N.
Hypothesis Hck : ck <= 2.
Hypothesis Hh32 : ck = 1 -> forall l, hash l < 2 ^ 32.
Hypothesis Hh64 : ck = 2 -> forall l, hash l < 2 ^ 64.

Definition hash_ops (b : list N) : list cop :=
  if ck =? 1 then [CBits (hash b) 32] else if ck =? 2 then [CBits (hash b) 64] else [].

(* NullEntropyEncoder.Write / NullEntropyDecoder.Read: arrays of at most 2^23 bytes *)
Lemma null_chunks_ok : forall fuel b, bytes_ok b -> N.of_nat (length b) <= N.of_nat fuel * 8388608 ->
  Forall aop_ok (map conv (null_chunks fuel b)) /\ snd (abvs (map conv (null_chunks fuel b))) = 8 * N.of_nat (length b).
Proof.
  induction fuel as [|f IH]; intros b Hb Hs.
  - destruct b; [split; [constructor|reflexivity]|cbn [length] in Hs; lia].
  - cbn [null_chunks]. destruct b as [|x t] eqn:Eb; [split; [constructor|reflexivity]|]. rewrite <- Eb in *.
    set (k := N.to_nat (N.min (N.of_nat (length b)) 8388608)).
    assert (Hk : (1 <= k <= length b)%nat /\ N.of_nat k = N.min (N.of_nat (length b)) 8388608).
    { unfold k. rewrite N2Nat.id. assert (0 < length b)%nat by (rewrite Eb; cbn [length]; lia). split; lia. }
    destruct Hk as [Hk Hkn].
    destruct (IH (skipn k b) (bytes_ok_skipn _ _ Hb)) as [I1 I2]; [rewrite skipn_length; lia|].
    cbn [map conv abvs snd aop_size]. rewrite I2, skipn_length. split; [|lia].
    constructor; [|exact I1]. split; [apply bytes_ok_firstn; exact Hb|]. rewrite firstn_length. lia.
Qed.

Lemma null_rw : forall fuel b s acc t P p, N.of_nat (length b) <= N.of_nat fuel * 8388608 -> RA s -> bytes_ok b ->
  Forall aop_ok t -> p < 2 ^ P ->
  uval s = fst (abvs (map conv (null_chunks fuel b) ++ t)) * 2 ^ P + p ->
  total s = snd (abvs (map conv (null_chunks fuel b) ++ t)) + P ->
  exists s', null_read fuel s (N.of_nat (length b)) acc = (s', Some (acc ++ b)) /\ RA s' /\
    uval s' = fst (abvs t) * 2 ^ P + p /\ total s' = snd (abvs t) + P.
Proof.
  induction fuel as [|f IH]; intros b s acc t P p Hs HR Hb Ht Hp HU HT.
  - destruct b; [|cbn [length] in Hs; lia]. exists s. cbn [null_read null_chunks map app] in *. rewrite app_nil_r. auto.
  - cbn [null_chunks] in HU, HT. cbn [null_read]. destruct b as [|x u] eqn:Eb.
    { exists s. cbn [map app length N.of_nat N.eqb] in *. rewrite app_nil_r. auto. }
    rewrite <- Eb in *.
    set (k := N.to_nat (N.min (N.of_nat (length b)) 8388608)) in *.
    assert (Hk : (1 <= k <= length b)%nat /\ N.of_nat k = N.min (N.of_nat (length b)) 8388608).
    { unfold k. rewrite N2Nat.id. assert (0 < length b)%nat by (rewrite Eb; cbn [length]; lia). split; lia. }
    destruct Hk as [Hk Hkn].
    replace (N.of_nat (length b) =? 0) with false by (symmetry; apply N.eqb_neq; lia).
    rewrite <- Hkn. cbn [map conv app] in HU, HT.
    destruct (null_chunks_ok f (skipn k b) (bytes_ok_skipn _ _ Hb) ltac:(rewrite skipn_length; lia)) as [Hrest _].
    assert (Hao : aop_ok (AArr (firstn k b) (8 * N.of_nat k))).
    { split; [apply bytes_ok_firstn; exact Hb|]. rewrite firstn_length. lia. }
    destruct (ra_abvs s (firstn k b) (8 * N.of_nat k) _ P p HR Hao (abvs_app_ok0 _ _ Hrest Ht) Hp HU HT) as (s1 & E1 & R1 & U1 & T1).
    assert (Efk : bytes_of (topbits (firstn k b) (8 * N.of_nat k)) (8 * N.of_nat k) (8 * N.of_nat k) = firstn k b).
    { pose proof (topbits_whole (firstn k b)) as X. pose proof (bytes_of_whole (firstn k b) (bytes_ok_firstn _ _ Hb)) as Y.
      rewrite firstn_length, Nat.min_l in X, Y by lia. rewrite X. exact Y. }
    rewrite Efk in E1. rewrite E1.
    destruct (IH (skipn k b) s1 (acc ++ firstn k b) t P p ltac:(rewrite skipn_length; lia) R1 (bytes_ok_skipn _ _ Hb) Ht Hp U1 T1) as (s' & E' & R' & U' & T').
    rewrite skipn_length in E'. replace (N.of_nat (length b) - N.of_nat k) with (N.of_nat (length b - k)) by lia.
    rewrite E'. rewrite <- app_assoc, firstn_skipn. exists s'. auto.
Qed.

Lemma data_size_bounds n : 0 < n <= 1073741824 -> 1 <= data_size n <= 4 /\ n < 2 ^ (8 * data_size n).
Proof.
  intros Hn. unfold data_size. destruct (n <? 256) eqn:E.
  - apply N.ltb_lt in E. split; [lia|]. change (2 ^ (8 * 1)) with 256. exact E.
  - apply N.ltb_ge in E.
    assert (Hl : 8 <= N.log2 n <= 30).
    { split; [change 8 with (N.log2 256); apply N.log2_le_mono; exact E|change 30 with (N.log2 1073741824); apply N.log2_le_mono; lia]. }
    assert (Hd : 1 <= N.log2 n / 8 <= 3).
    { split; [apply N.div_le_lower_bound; [discriminate|lia]|apply N.lt_succ_r; apply N.div_lt_upper_bound; [discriminate|lia]]. }
    split; [lia|].
    destruct (N.log2_spec n ltac:(lia)) as [_ Hu]. eapply N.lt_le_trans; [exact Hu|]. apply N.pow_le_mono_r; [discriminate|].
    pose proof (N.div_mod (N.log2 n) 8 ltac:(discriminate)) as X. pose proof (N.mod_lt (N.log2 n) 8 ltac:(discriminate)). lia.
Qed.

Lemma mode_facts n : 0 < n <= 1073741824 ->
  let mode := block_mode n in
  mode < 256 /\ (N.land mode 128 =? 0) && negb (N.land mode 16 =? 0) = false /\ 1 + N.land (N.shiftr mode 5) 3 = data_size n.
Proof.
  intros Hn. destruct (data_size_bounds n Hn) as [Hd _]. unfold block_mode.
  assert (Cases : data_size n = 1 \/ data_size n = 2 \/ data_size n = 3 \/ data_size n = 4) by lia.
  destruct (n <=? 15); destruct Cases as [E | [E | [E | E]]]; rewrite E; vm_compute; auto.
Qed.

Definition inner_aops (b : list N) : list aop := map conv (inner_ops hash ck b).
Definition nfuel (b : list N) : nat := S (N.to_nat (N.of_nat (length b) / 8388608)).

Lemma nfuel_enough b : N.of_nat (length b) <= N.of_nat (nfuel b) * 8388608.
Proof.
  unfold nfuel. rewrite Nat2N.inj_succ, N2Nat.id. pose proof (N.div_mod (N.of_nat (length b)) 8388608 ltac:(discriminate)) as X.
  pose proof (N.mod_lt (N.of_nat (length b)) 8388608 ltac:(discriminate)). lia.
Qed.

Lemma hash_ops_ok b : Forall aop_ok (map conv (hash_ops b)).
Proof. unfold hash_ops. destruct (ck =? 1); [repeat constructor; cbn; lia|]. destruct (ck =? 2); repeat constructor; cbn; lia. Qed.

Lemma inner_ops_eq b :
  inner_aops b = [AOp (WBits (block_mode (N.of_nat (length b))) 8); AOp (WBits (N.of_nat (length b)) (8 * data_size (N.of_nat (length b))))]
                 ++ map conv (hash_ops b) ++ map conv (null_chunks (nfuel b) b).
Proof. unfold inner_aops, inner_ops, nfuel. fold (hash_ops b). rewrite !map_app. reflexivity. Qed.

Lemma inner_aops_ok b : b <> [] -> N.of_nat (length b) <= 1073741824 -> bytes_ok b -> Forall aop_ok (inner_aops b).
Proof.
  intros Hne Hl Hb. rewrite (inner_ops_eq b).
  assert (Hn : 0 < N.of_nat (length b) <= 1073741824) by (split; [destruct b; [congruence|cbn [length]; lia]|exact Hl]).
  destruct (data_size_bounds _ Hn) as [Hd _].
  apply Forall_app. split; [repeat constructor; cbn [aop_ok wop_ok]; lia|].
  apply Forall_app. split; [apply hash_ops_ok|]. apply (null_chunks_ok (nfuel b) b Hb (nfuel_enough b)).
Qed.

(* the image of a block's bit stream *)
Lemma inner_image_spec b : b <> [] -> N.of_nat (length b) <= 1073741824 -> bytes_ok b ->
  exists img w pad, inner_image hash ck b = (img, w) /\ bytes_ok img /\ pad < 8 /\
    8 * N.of_nat (length img) = w + pad /\ be_val img = fst (abvs (inner_aops b)) * 2 ^ pad /\ w = snd (abvs (inner_aops b)).
Proof.
  intros Hne Hl Hb. pose proof (inner_aops_ok b Hne Hl Hb) as Hok.
  destruct (array_image 16384 (inner_aops b) ltac:(lia) ltac:(reflexivity) Hok) as (s1 & s2 & pad & V & L & E1 & E2 & EV & Hcl & Hpad & Hlen & Himg & Hwr).
  unfold inner_image. rewrite run_cops_conv. fold (inner_aops b). rewrite E1.
  change (close healthy_sink s1) with (close healthy s1). rewrite E2.
  rewrite fold_abvs in EV. cbn [fst snd] in EV. rewrite N.mul_0_l, !N.add_0_l in EV. injection EV as EV1 EV2.
  exists (o_out s2), (Z.to_N (written s2)), pad. rewrite Hwr, N2Z.id. split; [reflexivity|].
  split; [eapply close_obok; [|exact E2]; eapply run_aops_obok; [|exact Hok|exact E1]; split; constructor|].
  split; [exact Hpad|]. split; [exact Hlen|]. split; [rewrite Himg, EV1; reflexivity|exact EV2].
Qed.

Theorem parse_inner_ok bsize b : b <> [] -> N.of_nat (length b) <= 1073741824 -> bytes_ok b ->
  N.of_nat (length b) <= bsize -> bsize <= MAX_BLOCK ->
  parse_inner hash ck bsize (fst (inner_image hash ck b)) = PData b.
Proof.
  intros Hne Hl Hb Hbs Hmax.
  destruct (inner_image_spec b Hne Hl Hb) as (img & w & pad & Ei & Hbi & Hpad & Hlen & Himg & Hw). rewrite Ei. cbn [fst].
  pose proof (inner_aops_ok b Hne Hl Hb) as Hok. rewrite (inner_ops_eq b) in Himg, Hw, Hok.
  set (n := N.of_nat (length b)) in *.
  assert (Hn : 0 < n <= 1073741824) by (split; [unfold n; destruct b; [congruence|cbn [length]; lia]|exact Hl]).
  destruct (data_size_bounds n Hn) as [Hd Hnd]. destruct (mode_facts n Hn) as (Hm & Hskip & Hds). cbv zeta in Hm, Hskip, Hds.
  destruct (new_ibs_ra 16384 img [] ltac:(lia) ltac:(reflexivity) Hbi) as (R0 & U0 & T0). cbv zeta in R0, U0, T0.
  unfold parse_inner. set (s0 := new_ibs 16384 (mkSrc img [] None 0)) in *.
  cbn [app] in Himg, Hw, Hok.
  apply Forall_inv_tail in Hok as Hok1. apply Forall_inv_tail in Hok1 as Hok2.
  assert (Hp0 : 0 < 2 ^ pad) by apply pow2_pos.
  (* mode byte *)
  destruct (rd_abvs s0 (block_mode n) 8 _ pad 0 R0 ltac:(lia) Hok1 Hp0 ltac:(rewrite U0, Himg; lia) ltac:(rewrite T0, Hlen, Hw; reflexivity))
    as (s1 & E1 & R1 & U1 & T1).
  rewrite E1. change (2 ^ 8) with 256. rewrite (N.mod_small _ _ Hm). rewrite Hskip. cbn [negb]. rewrite Hds.
  (* length *)
  destruct (rd_abvs s1 n (8 * data_size n) _ pad 0 R1 ltac:(lia) Hok2 Hp0 U1 T1) as (s2 & E2 & R2 & U2 & T2).
  rewrite E2. rewrite (N.mod_small _ _ Hnd).
  replace ((n =? 0) || (N.min (N.max (bsize + bsize / 2) 2048) MAX_BLOCK <? n)) with false.
  2:{ symmetry. apply orb_false_iff. split; [apply N.eqb_neq; lia|apply N.ltb_ge]. apply N.min_glb; [|unfold MAX_BLOCK; lia].
      etransitivity; [|apply N.le_max_l]. lia. }
  (* checksum, data *)
  assert (Hlast : Forall aop_ok (map conv (null_chunks (nfuel b) b))) by (apply Forall_app in Hok2; apply Hok2).
  assert (Efuel : S (N.to_nat (n / 8388608)) = nfuel b) by reflexivity. rewrite Efuel.
  unfold hash_ops in U2, T2.
  destruct (ck =? 1) eqn:C1.
  - apply N.eqb_eq in C1. cbn [map conv app] in U2, T2.
    destruct (rd_abvs s2 (hash b) 32 _ pad 0 R2 ltac:(lia) Hlast Hp0 U2 T2) as (s3 & E3 & R3 & U3 & T3).
    rewrite E3. rewrite (N.mod_small _ _ (Hh32 C1 b)).
    destruct (null_rw (nfuel b) b s3 [] [] pad 0 (nfuel_enough b) R3 Hb ltac:(constructor) Hp0 ltac:(rewrite app_nil_r; exact U3) ltac:(rewrite app_nil_r; exact T3)) as (s4 & E4 & _).
    fold n in E4. rewrite E4. cbn [app]. rewrite N.eqb_refl, orb_true_r. reflexivity.
  - destruct (ck =? 2) eqn:C2.
    + apply N.eqb_eq in C2. cbn [map conv app] in U2, T2.
      destruct (rd_abvs s2 (hash b) 64 _ pad 0 R2 ltac:(lia) Hlast Hp0 U2 T2) as (s3 & E3 & R3 & U3 & T3).
      rewrite E3. rewrite (N.mod_small _ _ (Hh64 C2 b)).
      destruct (null_rw (nfuel b) b s3 [] [] pad 0 (nfuel_enough b) R3 Hb ltac:(constructor) Hp0 ltac:(rewrite app_nil_r; exact U3) ltac:(rewrite app_nil_r; exact T3)) as (s4 & E4 & _).
      fold n in E4. rewrite E4. cbn [app]. rewrite N.eqb_refl, orb_true_r. reflexivity.
    + cbn [map conv app] in U2, T2.
      destruct (null_rw (nfuel b) b s2 [] [] pad 0 (nfuel_enough b) R2 Hb ltac:(constructor) Hp0 ltac:(rewrite app_nil_r; exact U2) ltac:(rewrite app_nil_r; exact T2)) as (s4 & E4 & _).
      fold n in E4. rewrite E4. cbn [app].
      replace (ck =? 0) with true by (symmetry; apply N.eqb_eq; apply N.eqb_neq in C1, C2; lia). reflexivity.
Qed.

(* ---------- the frame of a block in the shared bit stream ---------- *)
Definition blk_ok (bsize : N) (b : list N) : Prop :=
  b <> [] /\ N.of_nat (length b) <= 1073741824 /\ bytes_ok b /\ N.of_nat (length b) <= bsize.

Definition lw_of (w : N) : N := if 8 <=? w then N.log2 (w / 8) + 4 else 3.
Definition ifuel (w : N) : nat := S (N.to_nat (w / 1073741824)).

Definition frame_aops (b : list N) : list aop :=
  let img := fst (inner_image hash ck b) in let w := snd (inner_image hash ck b) in
  [AOp (WBits (lw_of w - 3) 5); AOp (WBits w (lw_of w))] ++ map conv (arr_chunks (ifuel w) img w).

Lemma ifuel_enough w : w <= N.of_nat (ifuel w) * 1073741824.
Proof.
  unfold ifuel. rewrite Nat2N.inj_succ, N2Nat.id. pose proof (N.div_mod w 1073741824 ltac:(discriminate)) as X.
  pose proof (N.mod_lt w 1073741824 ltac:(discriminate)). lia.
Qed.

Lemma inner_w_bounds b : b <> [] -> N.of_nat (length b) <= 1073741824 -> bytes_ok b ->
  16 <= snd (inner_image hash ck b) <= 8589934696.
Proof.
  intros Hne Hl Hb. destruct (inner_image_spec b Hne Hl Hb) as (img & w & pad & Ei & _ & _ & _ & _ & Hw). rewrite Ei. cbn [snd].
  rewrite (inner_ops_eq b) in Hw.
  assert (Hn : 0 < N.of_nat (length b) <= 1073741824) by (split; [destruct b; [congruence|cbn [length]; lia]|exact Hl]).
  destruct (data_size_bounds _ Hn) as [Hd _].
  destruct (null_chunks_ok (nfuel b) b Hb (nfuel_enough b)) as [_ Hnc].
  assert (Hsz : forall l1 l2, snd (abvs (l1 ++ l2)) = snd (abvs l1) + snd (abvs l2)).
  { induction l1 as [|o u IH]; intros l2; [cbn [app abvs snd]; lia|]. cbn [app abvs snd]. rewrite IH. lia. }
  cbn [app] in Hw. cbn [abvs snd aop_size op_size] in Hw. rewrite Hsz, Hnc in Hw.
  unfold hash_ops in Hw. destruct (ck =? 1); [|destruct (ck =? 2)]; cbn [map conv abvs snd aop_size op_size] in Hw; lia.
Qed.

Lemma lw_facts w : 16 <= w <= 8589934696 -> 5 <= lw_of w <= 34 /\ w < 2 ^ lw_of w.
Proof.
  intros Hw. unfold lw_of. replace (8 <=? w) with true by (symmetry; apply N.leb_le; lia).
  set (q := w / 8). assert (Hq : 2 <= q < 2147483648).
  { unfold q. split; [apply N.div_le_lower_bound; [discriminate|lia]|apply N.div_lt_upper_bound; [discriminate|lia]]. }
  assert (Hl : 1 <= N.log2 q <= 30).
  { split; [change 1 with (N.log2 2); apply N.log2_le_mono; lia|apply N.lt_succ_r; apply N.log2_lt_pow2; [lia|change (2 ^ N.succ 30) with 2147483648; lia]]. }
  split; [lia|]. destruct (N.log2_spec q ltac:(lia)) as [_ Hu].
  pose proof (N.div_mod w 8 ltac:(discriminate)) as X. pose proof (N.mod_lt w 8 ltac:(discriminate)) as Y. fold q in X.
  replace (N.log2 q + 4) with (N.succ (N.log2 q) + 3) by lia. rewrite N.pow_add_r. change (2 ^ 3) with 8. lia.
Qed.

Lemma arr_chunks_0 f l : arr_chunks f l 0 = [].
Proof. destruct f; reflexivity. Qed.
Lemma read_img_0 f s acc : read_img f s 0 acc = (s, Some acc).
Proof. destruct f; reflexivity. Qed.

Definition K27 : nat := N.to_nat 134217728.
Lemma k27 : 8 * N.of_nat K27 = 1073741824.
Proof. unfold K27. rewrite N2Nat.id. reflexivity. Qed.
Lemma k27' : N.to_nat ((1073741824 + 7) / 8) = K27.
Proof. unfold K27. f_equal. Qed.
Global Opaque K27.

Lemma arr_chunks_ok : forall fuel img w, bytes_ok img -> w <= 8 * N.of_nat (length img) -> Forall aop_ok (map conv (arr_chunks fuel img w)).
Proof.
  induction fuel as [|f IH]; intros img w Hb Hw; [constructor|]. cbn [arr_chunks]. destruct (w =? 0) eqn:E0; [constructor|].
  apply N.eqb_neq in E0. cbn [map conv]. constructor; [split; [exact Hb|lia]|].
  destruct (N.le_gt_cases w 1073741824) as [Hle|Hgt].
  - rewrite N.min_l by exact Hle. rewrite N.sub_diag, arr_chunks_0. constructor.
  - rewrite N.min_r by lia. rewrite k27'. apply IH; [apply bytes_ok_skipn; exact Hb|]. rewrite skipn_length.
    pose proof k27. lia.
Qed.

(* the image of a block, written and read in arrays of at most 2^30 bits *)
Lemma img_rw : forall fuel img w pad s acc t P p, bytes_ok img -> 8 * N.of_nat (length img) = w + pad -> pad < 8 ->
  be_val img mod 2 ^ pad = 0 -> w <= N.of_nat fuel * 1073741824 -> RA s -> Forall aop_ok t -> p < 2 ^ P ->
  uval s = fst (abvs (map conv (arr_chunks fuel img w) ++ t)) * 2 ^ P + p ->
  total s = snd (abvs (map conv (arr_chunks fuel img w) ++ t)) + P ->
  exists s', read_img fuel s w acc = (s', Some (acc ++ img)) /\ RA s' /\ uval s' = fst (abvs t) * 2 ^ P + p /\ total s' = snd (abvs t) + P.
Proof.
  induction fuel as [|f IH]; intros img w pad s acc t P p Hb Hlen Hpad Hz Hs HR Ht Hp HU HT.
  - assert (w = 0) by lia. subst w. assert (img = []) by (destruct img; [reflexivity|cbn [length] in Hlen; lia]). subst img.
    exists s. cbn [read_img arr_chunks map app] in *. rewrite app_nil_r. auto.
  - cbn [arr_chunks] in HU, HT. cbn [read_img]. destruct (w =? 0) eqn:E0.
    { apply N.eqb_eq in E0. subst w. assert (img = []) by (destruct img; [reflexivity|cbn [length] in Hlen; lia]). subst img.
      exists s. cbn [map app] in *. rewrite app_nil_r. auto. }
    apply N.eqb_neq in E0. cbn [map conv app] in HU, HT.
    destruct (N.le_gt_cases w 1073741824) as [Hle|Hgt].
    + rewrite N.min_l in HU, HT |- * by exact Hle. rewrite N.sub_diag, arr_chunks_0 in HU, HT. cbn [map app] in HU, HT.
      destruct (ra_abvs s img w t P p HR ltac:(split; [exact Hb|lia]) Ht Hp HU HT) as (s1 & E1 & R1 & U1 & T1).
      assert (Eimg : bytes_of (topbits img w) w w = img).
      { unfold topbits. replace (8 * N.of_nat (length img) - w) with pad by lia. exact (bytes_of_image img w pad Hb Hlen Hpad Hz). }
      rewrite Eimg in E1. rewrite E1, N.sub_diag, read_img_0. exists s1. auto.
    + rewrite N.min_r in HU, HT |- * by lia. rewrite k27' in HU, HT.
      assert (HK : (K27 <= length img)%nat) by (pose proof k27; lia).
      assert (Hb' : bytes_ok (skipn K27 img)) by (apply bytes_ok_skipn; exact Hb).
      assert (Hlen' : 8 * N.of_nat (length (skipn K27 img)) = (w - 1073741824) + pad) by (rewrite skipn_length; pose proof k27; lia).
      pose proof (arr_chunks_ok f (skipn K27 img) (w - 1073741824) Hb' ltac:(lia)) as Hrest.
      destruct (ra_abvs s img 1073741824 _ P p HR ltac:(split; [exact Hb|lia]) (abvs_app_ok0 _ _ Hrest Ht) Hp HU HT) as (s1 & E1 & R1 & U1 & T1).
      rewrite <- k27 in E1. rewrite (topbits_firstn img K27 Hb HK) in E1. rewrite k27 in E1. rewrite E1.
      assert (Hz' : be_val (skipn K27 img) mod 2 ^ pad = 0).
      { rewrite <- (firstn_skipn K27 img) in Hz. rewrite be_val_app in Hz.
        assert (Hge : pad <= 8 * N.of_nat (length (skipn K27 img))) by lia.
        rewrite (pow2_split _ _ Hge) in Hz. rewrite N.mul_assoc, N.add_comm, N.mod_add in Hz by (apply N.pow_nonzero; discriminate). exact Hz. }
      destruct (IH (skipn K27 img) (w - 1073741824) pad s1 (acc ++ firstn K27 img) t P p Hb' Hlen' Hpad Hz' ltac:(lia) R1 Ht Hp U1 T1) as (s' & E' & R' & U' & T').
      rewrite E'. rewrite <- app_assoc, firstn_skipn. exists s'. auto.
Qed.

Lemma frame_ops_eq b : map conv (frame_ops hash ck b) = frame_aops b.
Proof.
  unfold frame_ops, frame_aops, ifuel. destruct (inner_image hash ck b) as [img w]. cbn [fst snd]. fold (lw_of w).
  rewrite map_app. reflexivity.
Qed.

Lemma frame_aops_ok b : b <> [] -> N.of_nat (length b) <= 1073741824 -> bytes_ok b -> Forall aop_ok (frame_aops b).
Proof.
  intros Hne Hl Hb. pose proof (inner_w_bounds b Hne Hl Hb) as Hw. destruct (lw_facts _ Hw) as [Hlw _].
  destruct (inner_image_spec b Hne Hl Hb) as (img & w & pad & Ei & Hbi & Hpad & Hlen & _ & _).
  unfold frame_aops. rewrite Ei in *. cbn [fst snd] in *.
  apply Forall_app. split; [repeat constructor; cbn [aop_ok wop_ok]; lia|]. apply arr_chunks_ok; [exact Hbi|lia].
Qed.

(* reading one frame: the block comes back, the reader stands at the next frame *)
Lemma read_frame s bsize b t P p : RA s -> blk_ok bsize b -> bsize <= MAX_BLOCK -> Forall aop_ok t -> p < 2 ^ P ->
  uval s = fst (abvs (frame_aops b ++ t)) * 2 ^ P + p -> total s = snd (abvs (frame_aops b ++ t)) + P ->
  exists s1 s2 s3 l3 w img,
    read_bits s 5 = (s1, Val l3) /\ read_bits s1 (l3 + 3) = (s2, Val w) /\ (w =? 0) = false /\ (17179869184 <? w) = false /\
    read_img (S (N.to_nat (w / 1073741824))) s2 w [] = (s3, Some img) /\ parse_inner hash ck bsize img = PData b /\
    RA s3 /\ uval s3 = fst (abvs t) * 2 ^ P + p /\ total s3 = snd (abvs t) + P.
Proof.
  intros HR (Hne & Hl & Hb & Hbs) Hmax Ht Hp HU HT.
  pose proof (inner_w_bounds b Hne Hl Hb) as Hw. destruct (lw_facts _ Hw) as [Hlw Hwlt].
  pose proof (frame_aops_ok b Hne Hl Hb) as Hfo. pose proof (parse_inner_ok bsize b Hne Hl Hb Hbs Hmax) as Hpi.
  destruct (inner_image_spec b Hne Hl Hb) as (img & w & pad & Ei & Hbi & Hpad & Hlen & Himg & _).
  unfold frame_aops in HU, HT, Hfo. rewrite Ei in *. cbn [fst snd] in *. rewrite <- app_assoc in HU, HT. cbn [app] in HU, HT, Hfo.
  apply Forall_inv_tail in Hfo as Hf1. apply Forall_inv_tail in Hf1 as Hf2.
  assert (Ht2 : Forall aop_ok (map conv (arr_chunks (ifuel w) img w) ++ t)) by (apply abvs_app_ok0; assumption).
  assert (Ht1 : Forall aop_ok (AOp (WBits w (lw_of w)) :: map conv (arr_chunks (ifuel w) img w) ++ t)) by (constructor; [apply Forall_inv in Hf1; exact Hf1|exact Ht2]).
  destruct (rd_abvs s (lw_of w - 3) 5 _ P p HR ltac:(lia) Ht1 Hp HU HT) as (s1 & E1 & R1 & U1 & T1).
  change (2 ^ 5) with 32 in E1. rewrite N.mod_small in E1 by lia.
  destruct (rd_abvs s1 w (lw_of w) _ P p R1 ltac:(lia) Ht2 Hp U1 T1) as (s2 & E2 & R2 & U2 & T2).
  rewrite (N.mod_small _ _ Hwlt) in E2.
  assert (Hz : be_val img mod 2 ^ pad = 0) by (rewrite Himg; apply N.mod_mul; apply N.pow_nonzero; discriminate).
  destruct (img_rw (ifuel w) img w pad s2 [] t P p Hbi Hlen Hpad Hz (ifuel_enough w) R2 Ht Hp U2 T2) as (s3 & E3 & R3 & U3 & T3).
  cbn [app] in E3.
  exists s1, s2, s3, (lw_of w - 3), w, img.
  split; [exact E1|]. split; [replace (lw_of w - 3 + 3) with (lw_of w) by lia; exact E2|].
  split; [apply N.eqb_neq; lia|]. split; [apply N.ltb_ge; lia|].
  split; [exact E3|]. auto.
Qed.

Definition end_aops : list aop := [AOp (WBits 0 5); AOp (WBits 0 3)].

Lemma abvs_app_ok a b : Forall aop_ok a -> Forall aop_ok b -> Forall aop_ok (a ++ b).
Proof. intros; apply Forall_app; split; assumption. Qed.

Lemma frames_ok bsize blocks : Forall (blk_ok bsize) blocks -> Forall aop_ok (flat_map frame_aops blocks ++ end_aops).
Proof.
  induction 1 as [|b t (Hne & Hl & Hb & _) _ IH]; cbn [flat_map app].
  - repeat constructor; cbn; lia.
  - rewrite <- app_assoc. apply abvs_app_ok; [apply frame_aops_ok; assumption|exact IH].
Qed.

(* all the frames, then the end marker *)
Theorem parse_frames_ok bsize : bsize <= MAX_BLOCK -> forall blocks fuel s P p, RA s -> Forall (blk_ok bsize) blocks -> p < 2 ^ P ->
  (length blocks < fuel)%nat ->
  uval s = fst (abvs (flat_map frame_aops blocks ++ end_aops)) * 2 ^ P + p ->
  total s = snd (abvs (flat_map frame_aops blocks ++ end_aops)) + P ->
  parse_frames hash fuel ck bsize s = map PData blocks ++ [PEnd].
Proof.
  intros Hmax. induction blocks as [|b t IH]; intros fuel s P p HR Hok Hp Hfu HU HT.
  - destruct fuel as [|f]; [cbn [length] in Hfu; lia|]. cbn [flat_map app] in HU, HT. unfold end_aops in HU, HT. cbn [parse_frames map app].
    destruct (rd_abvs s 0 5 [AOp (WBits 0 3)] P p HR ltac:(lia) ltac:(repeat constructor; cbn; lia) Hp HU HT) as (s1 & E1 & R1 & U1 & T1).
    rewrite E1. change (0 mod 2 ^ 5) with 0. change (0 + 3) with 3.
    destruct (rd_abvs s1 0 3 [] P p R1 ltac:(lia) ltac:(constructor) Hp U1 T1) as (s2 & E2 & _).
    rewrite E2. reflexivity.
  - destruct fuel as [|f]; [cbn [length] in Hfu; lia|]. cbn [length] in Hfu.
    inversion Hok as [|? ? Hb Ht]; subst. cbn [flat_map] in HU, HT. rewrite <- app_assoc in HU, HT.
    destruct (read_frame s bsize b _ P p HR Hb Hmax (frames_ok bsize t Ht) Hp HU HT)
      as (s1 & s2 & s3 & l3 & w & img & E1 & E2 & W0 & W1 & E3 & Epi & R3 & U3 & T3).
    cbn [parse_frames map app]. rewrite E1, E2, W0, W1, E3, Epi. f_equal.
    apply (IH f s3 P p R3 Ht Hp ltac:(lia) U3 T3).
Qed.

End INNER.


(* ---------- the whole stream ---------- *)
Lemma abvs_fields fs rest : abvs (map (fun f => AOp (WBits (fst f) (snd f))) fs ++ rest) = vec fs (abvs rest).
Proof.
  induction fs as [|f t IH]; [reflexivity|]. cbn [map app abvs vec fold_right aop_val aop_size op_val op_size]. fold (vec t (abvs rest)).
  rewrite IH. reflexivity.
Qed.

Section STREAM.
Variable hash : list N -> N.
Variables evalid tvalid : N -> bool.
Variable c : hcfg.
Hypothesis Hc : cfg_ok evalid tvalid c.
Hypothesis H32 : h_ck c = 1 -> forall l, hash l < 2 ^ 32.
Hypothesis H64 : h_ck c = 2 -> forall l, hash l < 2 ^ 64.

Lemma stream_aops blocks : Forall (blk_ok (h_bsize c)) blocks ->
  map conv (stream_ops hash c blocks) =
  map (fun f => AOp (WBits (fst f) (snd f))) (header_fields c) ++ flat_map (frame_aops hash (h_ck c)) blocks ++ end_aops.
Proof.
  intros Hok. unfold stream_ops. rewrite !map_app, map_map. f_equal. f_equal.
  induction Hok as [|b t (Hne & Hl & Hb & _) _ IH]; [reflexivity|]. cbn [flat_map]. rewrite map_app, IH. f_equal.
  apply (frame_ops_eq hash (h_ck c)).
Qed.

(* the header of a written stream is parsed back, and the reader then stands at the first frame *)
Lemma container_header blocks rbuf sched :
  Forall (blk_ok (h_bsize c)) blocks -> 0 < rbuf -> rbuf mod 8 = 0 ->
  let rest := flat_map (frame_aops hash (h_ck c)) blocks ++ end_aops in
  exists pad sH, pad < 8 /\ bytes_ok (write_stream hash c blocks) /\
    read_header evalid tvalid (new_ibs rbuf (mkSrc (write_stream hash c blocks) sched None 0)) = (sH, HOk (norm_cfg c)) /\
    RA sH /\ uval sH = fst (abvs rest) * 2 ^ pad + 0 /\ total sH = snd (abvs rest) + pad.
Proof.
  intros Hbl Hr Hr8 rest.
  pose proof (ck_ok _ _ _ Hc) as Hck. destruct (bs_ok _ _ _ Hc) as [[_ Hmax] _].
  destruct (header_fields_ok c Hck) as [Hfo _].
  assert (Hrest : Forall aop_ok rest) by (apply (frames_ok hash (h_ck c) Hck H32 H64 (h_bsize c)); exact Hbl).
  assert (Hall : Forall aop_ok (map conv (stream_ops hash c blocks))).
  { rewrite (stream_aops blocks Hbl). apply Forall_app. split; [|exact Hrest].
    apply Forall_forall. intros o Ho. apply in_map_iff in Ho. destruct Ho as (f & <- & Hf).
    cbn [aop_ok wop_ok]. rewrite Forall_forall in Hfo. specialize (Hfo f Hf). unfold field_ok in Hfo. clear - Hfo. lia. }
  destruct (array_image 65536 _ ltac:(clear; lia) ltac:(reflexivity) Hall) as (s1 & s2 & pad & V & L & E1 & E2 & EV & Hcl & Hpad & Hlen & Himg & _).
  unfold write_stream. rewrite run_cops_conv, E1. change (close healthy_sink s1) with (close healthy s1). rewrite E2.
  assert (Hob : bytes_ok (o_out s2)).
  { eapply close_obok; [|exact E2]. eapply run_aops_obok; [|exact Hall|exact E1]. split; constructor. }
  destruct (new_ibs_ra rbuf (o_out s2) sched Hr Hr8 Hob) as (R0 & U0 & T0). cbv zeta in R0, U0, T0.
  rewrite fold_abvs in EV. cbn [fst snd] in EV. rewrite N.mul_0_l, !N.add_0_l in EV.
  rewrite (stream_aops blocks Hbl) in EV. fold rest in EV. rewrite abvs_fields in EV.
  set (r := (fst (abvs rest) * 2 ^ pad, snd (abvs rest) + pad)).
  assert (Hrl : fst r < 2 ^ snd r).
  { unfold r. cbn [fst snd]. rewrite N.pow_add_r. pose proof (abvs_lt rest Hrest) as X. pose proof (pow2_pos pad) as Y. clear - X Y. nia. }
  set (s0 := new_ibs rbuf (mkSrc (o_out s2) sched None 0)) in *.
  assert (Hv : (uval s0, total s0) = vec (header_fields c) r).
  { rewrite U0, T0, Himg, Hlen. unfold r. rewrite <- vec_shift. injection EV as -> ->. reflexivity. }
  pose (Q := fun s : ibs => AL s /\ i_size s mod 8 = 0).
  assert (Qstep : forall s cnt s' v, AInv s -> Q s -> read_bits s cnt = (s', Val v) -> Q s').
  { intros s cnt s' v HA [HAL Hs8] E. unfold read_bits in E.
    destruct (read_bits_al 66 s cnt s' v (ai_i s HA) HAL Hs8 E) as [A B]. split; [exact A|rewrite B; exact Hs8]. }
  destruct (header_parse evalid tvalid Q Qstep c s0 r Hc (ra_a _ R0) (conj (ra_al _ R0) (ra_sz _ R0)) Hrl Hv) as (s' & Eh & A' & R' & [QA QS]).
  injection R' as RU RT.
  exists pad, s'. split; [exact Hpad|]. split; [exact Hob|]. split; [exact Eh|]. split; [exact (Build_RA s' A' QA QS)|].
  split; [rewrite RU; clear; lia|exact RT].
Qed.

Theorem container_roundtrip blocks nframes rbuf sched :
  Forall (blk_ok (h_bsize c)) blocks -> (length blocks < nframes)%nat -> 0 < rbuf -> rbuf mod 8 = 0 ->
  parse_stream hash evalid tvalid nframes rbuf sched (write_stream hash c blocks) = Some (norm_cfg c, map PData blocks ++ [PEnd]).
Proof.
  intros Hbl Hfu Hr Hr8.
  pose proof (ck_ok _ _ _ Hc) as Hck. destruct (bs_ok _ _ _ Hc) as [[_ Hmax] _].
  destruct (container_header blocks rbuf sched Hbl Hr Hr8) as (pad & sH & Hpad & _ & Eh & RH & UH & TH). cbv zeta in UH, TH.
  unfold parse_stream. rewrite Eh. f_equal. f_equal.
  change (h_ck (norm_cfg c)) with (h_ck c). change (h_bsize (norm_cfg c)) with (h_bsize c).
  exact (parse_frames_ok hash (h_ck c) Hck H32 H64 (h_bsize c) Hmax blocks nframes sH pad 0 RH Hbl (pow2_pos pad) Hfu UH TH).
Qed.

End STREAM.
