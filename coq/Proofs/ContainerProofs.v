(* The NONE / NONE container, end to end at the level of bits (C01, C10, C17): for every valid header
   configuration, every list of blocks (non-empty, at most 8 MiB each, within the size the reader
   accepts), every checksum mode, any buffer size (a multiple of 8) and chunk schedule on the reading
   side: parsing the bytes the writer model produces - header, nested per-block bit streams, end marker -
   returns the same configuration and exactly the blocks, then the end marker. *)
From Coq Require Import List NArith ZArith Lia Bool ZifyN ZifyNat ZifyBool.
From KV Require Import Model.OutBS Model.InBS Model.Header Model.Container Lib.Bits Proofs.OutBSProofs Proofs.BinCoderProofs
  Proofs.InBSProofs Proofs.MirrorProofs Proofs.HeaderProofs Proofs.ArrayProofs Proofs.ReadArrayProofs Proofs.MirrorArrayProofs.
Import ListNotations.
Open Scope N_scope.

Ltac Zify.zify_post_hook ::= idtac.
Local Arguments N.pow : simpl never.
Local Arguments N.div : simpl never.
Local Arguments N.modulo : simpl never.
Local Arguments N.mul : simpl never.
Local Arguments N.sub : simpl never.
Local Arguments N.add : simpl never.
Local Arguments N.log2 : simpl never.

(* ---------- the model's operations are the operations of the array theorems ---------- *)
Definition conv (o : cop) : aop := match o with CBit b => AOp (WBit b) | CBits v c => AOp (WBits v c) | CArr b c => AArr b c end.

Lemma run_cops_conv : forall ops s, run_cops s ops = run_aops s (map conv ops).
Proof.
  induction ops as [|o t IH]; intros s; [reflexivity|]. cbn [run_cops map run_aops].
  assert (E : run_cop s o = run_aop s (conv o)) by (destruct o; reflexivity). rewrite E.
  destruct (run_aop s (conv o)) as [s1 [|]]; [reflexivity|apply IH].
Qed.

(* ---------- reading a vector piece by piece ---------- *)
(* the stream holds: [val] on c bits, then Vt on Lt bits, then p on P bits *)
Lemma rd_vec s c val Vt Lt P p : RA s -> 1 <= c <= 64 -> val < 2 ^ c -> Vt < 2 ^ Lt -> p < 2 ^ P ->
  uval s = (val * 2 ^ Lt + Vt) * 2 ^ P + p -> total s = c + Lt + P ->
  exists s', read_bits s c = (s', Val val) /\ RA s' /\ uval s' = Vt * 2 ^ P + p /\ total s' = Lt + P.
Proof.
  intros HR Hc Hv HV Hp HU HT.
  destruct (spec_step val c Vt Lt P p ltac:(lia) Hv HV Hp) as (_ & S2 & S3 & S4). cbv zeta in S2, S3, S4.
  destruct (rd s c HR Hc ltac:(rewrite HT; lia)) as (s' & E & HR' & T' & U').
  exists s'. rewrite HU, HT in E. rewrite HT in T'. rewrite HU, HT in U'. rewrite S2 in E. rewrite S3 in U'. rewrite S4 in T'. auto.
Qed.

(* a whole byte string written with WriteArray(bits, 8 * len) comes back as it is *)
Lemma bytes_of_whole bits : bytes_ok bits -> bytes_of (be_val bits) (8 * N.of_nat (length bits)) (8 * N.of_nat (length bits)) = bits.
Proof.
  intros Hb. unfold bytes_of. rewrite N.mul_comm, N.div_mul, N.mod_mul by discriminate. cbn [N.eqb]. rewrite app_nil_r, Nat2N.id.
  rewrite N.mul_comm, N.sub_diag. change (2 ^ 0) with 1. rewrite N.div_1_r. apply be_bytes_be_val. exact Hb.
Qed.

Lemma ra_vec s bits Vt Lt P p : RA s -> bytes_ok bits -> bits <> [] -> Vt < 2 ^ Lt -> p < 2 ^ P ->
  let c := 8 * N.of_nat (length bits) in
  uval s = (be_val bits * 2 ^ Lt + Vt) * 2 ^ P + p -> total s = c + Lt + P ->
  exists s', read_array s c = (s', Val bits) /\ RA s' /\ uval s' = Vt * 2 ^ P + p /\ total s' = Lt + P.
Proof.
  intros HR Hb Hne HV Hp c HU HT.
  assert (Hc : 1 <= c) by (unfold c; destruct bits; [congruence|cbn [length]; lia]).
  pose proof (be_val_lt bits Hb) as Hv. fold c in Hv.
  destruct (spec_step (be_val bits) c Vt Lt P p Hc Hv HV Hp) as (_ & S2 & S3 & S4). cbv zeta in S2, S3, S4.
  destruct (read_array_spec s c HR ltac:(lia) ltac:(rewrite HT; lia)) as (s' & E & HR' & T' & U').
  exists s'. rewrite HU, HT in E. rewrite HT in T'. rewrite HU, HT in U'. rewrite (bytes_of_top _ (c + Lt + P) c) in E by lia. rewrite S2 in E.
  unfold c in E at 2 3. rewrite (bytes_of_whole bits Hb) in E. rewrite S3 in U'. rewrite S4 in T'. auto.
Qed.

(* the image of a closed bit stream read as an array of its bit length: the bytes themselves *)
Lemma bytes_of_image I w pad : bytes_ok I -> 8 * N.of_nat (length I) = w + pad -> pad < 8 -> be_val I mod 2 ^ pad = 0 ->
  bytes_of (be_val I / 2 ^ pad) w w = I.
Proof.
  intros Hb Hl Hp Hz. destruct (N.eq_dec pad 0) as [->|Hp0].
  - change (2 ^ 0) with 1. rewrite N.div_1_r. rewrite N.add_0_r in Hl. rewrite <- Hl. apply bytes_of_whole. exact Hb.
  - induction I as [|last I' _] using rev_ind; [cbn [length N.of_nat] in Hl; lia|].
    apply Forall_app in Hb. destruct Hb as [Hb' Hlast]. inversion Hlast as [|? ? Hl256 _]; subst.
    rewrite app_length in Hl. cbn [length] in Hl.
    set (m := length I') in *. set (t := 8 - pad).
    assert (Ew : w = 8 * N.of_nat m + t) by (unfold t; lia).
    rewrite be_val_app in Hz |- *. cbn [be_val length] in Hz |- *. change (N.of_nat 1) with 1 in *. change (N.of_nat 0) with 0 in *.
    change (2 ^ (8 * 1)) with 256 in *. change (2 ^ (8 * 0)) with 1 in *.
    replace (last * 1 + 0) with last in * by lia.
    assert (Hpp : 256 = 2 ^ t * 2 ^ pad) by (rewrite <- N.pow_add_r; unfold t; replace (8 - pad + pad) with 8 by lia; reflexivity).
    assert (Hlz : last mod 2 ^ pad = 0).
    { rewrite Hpp in Hz. rewrite N.mul_assoc in Hz. rewrite N.add_comm in Hz. rewrite N.mod_add in Hz by (apply N.pow_nonzero; discriminate). exact Hz. }
    pose proof (div_exact_pow last pad Hlz) as Hle. set (q := last / 2 ^ pad) in *.
    assert (Hq : q < 2 ^ t).
    { apply N.div_lt_upper_bound; [apply N.pow_nonzero; discriminate|]. rewrite N.mul_comm, <- Hpp. exact Hl256. }
    assert (EX : (be_val I' * 256 + last) / 2 ^ pad = be_val I' * 2 ^ t + q).
    { rewrite Hpp, Hle. replace (be_val I' * (2 ^ t * 2 ^ pad) + q * 2 ^ pad) with ((be_val I' * 2 ^ t + q) * 2 ^ pad) by lia.
      apply N.div_mul. apply N.pow_nonzero; discriminate. }
    rewrite EX. unfold bytes_of.
    assert (Ediv : w / 8 = N.of_nat m /\ w mod 8 = t).
    { rewrite Ew. split; [symmetry; apply (N.div_unique _ 8 (N.of_nat m) t); [unfold t; lia|reflexivity]|symmetry; apply (N.mod_unique _ 8 (N.of_nat m) t); [unfold t; lia|reflexivity]]. }
    destruct Ediv as [E1 E2]. rewrite E1, E2, Nat2N.id. replace (t =? 0) with false by (symmetry; apply N.eqb_neq; clear - Hp Hp0; unfold t; lia).
    rewrite N.sub_diag. change (2 ^ 0) with 1. rewrite N.div_1_r.
    replace (w - 8 * N.of_nat m) with t by (clear - Ew; lia).
    rewrite N.div_add_l by (apply N.pow_nonzero; discriminate). rewrite (N.div_small q _ Hq), N.add_0_r.
    unfold m. rewrite (be_bytes_be_val I' Hb'). f_equal. f_equal.
    rewrite N.add_comm, N.mod_add by (apply N.pow_nonzero; discriminate). rewrite (N.mod_small q _ Hq).
    replace (8 - t) with pad by (clear - Hp Hp0; unfold t; lia). rewrite <- Hle. reflexivity.
Qed.

(* ---------- stepping over the vector of a program ---------- *)
Lemma rd_abvs s v c t P p : RA s -> 1 <= c <= 64 -> Forall aop_ok t -> p < 2 ^ P ->
  uval s = fst (abvs (AOp (WBits v c) :: t)) * 2 ^ P + p -> total s = snd (abvs (AOp (WBits v c) :: t)) + P ->
  exists s', read_bits s c = (s', Val (v mod 2 ^ c)) /\ RA s' /\ uval s' = fst (abvs t) * 2 ^ P + p /\ total s' = snd (abvs t) + P.
Proof.
  intros HR Hc Ht Hp HU HT. cbn [abvs fst snd aop_val aop_size op_val op_size] in HU, HT.
  apply (rd_vec s c (v mod 2 ^ c) (fst (abvs t)) (snd (abvs t)) P p HR Hc); try assumption.
  - apply N.mod_lt. apply N.pow_nonzero. discriminate.
  - apply abvs_lt. exact Ht.
Qed.

Lemma ra_abvs s bits c t P p : RA s -> aop_ok (AArr bits c) -> Forall aop_ok t -> p < 2 ^ P ->
  uval s = fst (abvs (AArr bits c :: t)) * 2 ^ P + p -> total s = snd (abvs (AArr bits c :: t)) + P ->
  exists s', read_array s c = (s', Val (bytes_of (topbits bits c) c c)) /\ RA s' /\ uval s' = fst (abvs t) * 2 ^ P + p /\ total s' = snd (abvs t) + P.
Proof.
  intros HR [Hb [Hc0 Hc]] Ht Hp HU HT. cbn [abvs fst snd aop_val aop_size] in HU, HT.
  pose proof (topbits_lt bits c Hb Hc) as Hv. pose proof (abvs_lt t Ht) as Hlt.
  destruct (spec_step (topbits bits c) c (fst (abvs t)) (snd (abvs t)) P p ltac:(lia) Hv Hlt Hp) as (_ & S2 & S3 & S4). cbv zeta in S2, S3, S4.
  destruct (read_array_spec s c HR ltac:(lia) ltac:(rewrite HT; lia)) as (s' & E & HR' & T' & U').
  exists s'. rewrite HU, HT in E. rewrite HT in T'. rewrite HU, HT in U'.
  rewrite (bytes_of_top _ (c + snd (abvs t) + P) c) in E by lia. rewrite S2 in E. rewrite S3 in U'. rewrite S4 in T'. auto.
Qed.

Lemma topbits_whole bits : topbits bits (8 * N.of_nat (length bits)) = be_val bits.
Proof. unfold topbits. rewrite N.sub_diag. change (2 ^ 0) with 1. apply N.div_1_r. Qed.

(* ---------- one block inside its own bit stream ---------- *)
Section INNER.
Variable hash : list N -> N.
Variable ck : N.
Hypothesis Hck : ck <= 2.
Hypothesis Hh32 : ck = 1 -> forall l, hash l < 2 ^ 32.
Hypothesis Hh64 : ck = 2 -> forall l, hash l < 2 ^ 64.

Definition hash_ops (b : list N) : list cop :=
  if ck =? 1 then [CBits (hash b) 32] else if ck =? 2 then [CBits (hash b) 64] else [].

Lemma null_chunks_single f b : b <> [] -> N.of_nat (length b) <= 8388608 ->
  null_chunks (S f) b = [CArr b (8 * N.of_nat (length b))].
Proof.
  intros Hne Hl. cbn [null_chunks]. destruct b as [|x t] eqn:Eb; [congruence|]. rewrite <- Eb in *.
  rewrite N.min_l by exact Hl. rewrite Nat2N.id, firstn_all, skipn_all. destruct f; reflexivity.
Qed.

Lemma data_size_bounds n : 0 < n <= 8388608 -> 1 <= data_size n <= 3 /\ n < 2 ^ (8 * data_size n).
Proof.
  intros Hn. unfold data_size. destruct (n <? 256) eqn:E.
  - apply N.ltb_lt in E. split; [lia|]. change (2 ^ (8 * 1)) with 256. exact E.
  - apply N.ltb_ge in E.
    assert (Hl : 8 <= N.log2 n <= 23).
    { split; [change 8 with (N.log2 256); apply N.log2_le_mono; exact E|change 23 with (N.log2 8388608); apply N.log2_le_mono; lia]. }
    assert (Hd : 1 <= N.log2 n / 8 <= 2).
    { split; [apply N.div_le_lower_bound; [discriminate|lia]|apply N.lt_succ_r; apply N.div_lt_upper_bound; [discriminate|lia]]. }
    split; [lia|].
    destruct (N.log2_spec n ltac:(lia)) as [_ Hu]. eapply N.lt_le_trans; [exact Hu|]. apply N.pow_le_mono_r; [discriminate|].
    pose proof (N.div_mod (N.log2 n) 8 ltac:(discriminate)) as X. pose proof (N.mod_lt (N.log2 n) 8 ltac:(discriminate)). lia.
Qed.

Lemma mode_facts n : 0 < n <= 8388608 ->
  let mode := block_mode n in
  mode < 256 /\ (N.land mode 128 =? 0) && negb (N.land mode 16 =? 0) = false /\ 1 + N.land (N.shiftr mode 5) 3 = data_size n.
Proof.
  intros Hn. destruct (data_size_bounds n Hn) as [Hd _]. unfold block_mode.
  assert (Cases : data_size n = 1 \/ data_size n = 2 \/ data_size n = 3) by lia.
  destruct (n <=? 15); destruct Cases as [E | [E | E]]; rewrite E; vm_compute; auto.
Qed.

Definition inner_aops (b : list N) : list aop := map conv (inner_ops hash ck b).

Lemma hash_ops_ok b : Forall aop_ok (map conv (hash_ops b)).
Proof. unfold hash_ops. destruct (ck =? 1); [repeat constructor; cbn; lia|]. destruct (ck =? 2); repeat constructor; cbn; lia. Qed.

Lemma inner_ops_eq b : b <> [] -> N.of_nat (length b) <= 8388608 ->
  inner_aops b = [AOp (WBits (block_mode (N.of_nat (length b))) 8); AOp (WBits (N.of_nat (length b)) (8 * data_size (N.of_nat (length b))))]
                 ++ map conv (hash_ops b) ++ [AArr b (8 * N.of_nat (length b))].
Proof.
  intros Hne Hl. unfold inner_aops, inner_ops. rewrite (null_chunks_single _ b Hne Hl). fold (hash_ops b).
  rewrite !map_app. reflexivity.
Qed.

Lemma inner_aops_ok b : b <> [] -> N.of_nat (length b) <= 8388608 -> bytes_ok b -> Forall aop_ok (inner_aops b).
Proof.
  intros Hne Hl Hb. rewrite (inner_ops_eq b Hne Hl).
  assert (Hn : 0 < N.of_nat (length b) <= 8388608) by (split; [destruct b; [congruence|cbn [length]; lia]|exact Hl]).
  destruct (data_size_bounds _ Hn) as [Hd _].
  apply Forall_app. split; [repeat constructor; cbn [aop_ok wop_ok]; lia|].
  apply Forall_app. split; [apply hash_ops_ok|]. repeat constructor; [exact Hb|lia|lia].
Qed.

(* the image of a block's bit stream *)
Lemma inner_image_spec b : b <> [] -> N.of_nat (length b) <= 8388608 -> bytes_ok b ->
  exists img w pad, inner_image hash ck b = (img, w) /\ bytes_ok img /\ pad < 8 /\
    8 * N.of_nat (length img) = w + pad /\ be_val img = fst (abvs (inner_aops b)) * 2 ^ pad /\ w = snd (abvs (inner_aops b)).
Proof.
  intros Hne Hl Hb. pose proof (inner_aops_ok b Hne Hl Hb) as Hok.
  destruct (array_image 16384 (inner_aops b) ltac:(lia) ltac:(reflexivity) Hok) as (s1 & s2 & pad & V & L & E1 & E2 & EV & Hcl & Hpad & Hlen & Himg & Hwr).
  unfold inner_image. rewrite run_cops_conv. fold (inner_aops b). rewrite E1.
  change (close healthy_sink s1) with (close healthy s1). rewrite E2.
  rewrite fold_abvs in EV. cbn [fst snd] in EV. rewrite N.mul_0_l, !N.add_0_l in EV. injection EV as EV1 EV2.
  exists (o_out s2), (Z.to_N (written s2)), pad. rewrite Hwr, N2Z.id. split; [reflexivity|].
  split; [eapply close_obok; [|exact E2]; eapply run_aops_obok; [|exact Hok|exact E1]; split; constructor|].
  split; [exact Hpad|]. split; [exact Hlen|]. split; [rewrite Himg, EV1; reflexivity|exact EV2].
Qed.

Lemma null_read_single f s b t P p : RA s -> b <> [] -> N.of_nat (length b) <= 8388608 -> bytes_ok b -> Forall aop_ok t -> p < 2 ^ P ->
  uval s = fst (abvs (AArr b (8 * N.of_nat (length b)) :: t)) * 2 ^ P + p ->
  total s = snd (abvs (AArr b (8 * N.of_nat (length b)) :: t)) + P ->
  exists s', null_read (S f) s (N.of_nat (length b)) [] = (s', Some b) /\ RA s' /\ uval s' = fst (abvs t) * 2 ^ P + p /\ total s' = snd (abvs t) + P.
Proof.
  intros HR Hne Hl Hb Ht Hp HU HT.
  assert (Hn : 0 < N.of_nat (length b)) by (destruct b; [congruence|cbn [length]; lia]).
  destruct (ra_abvs s b (8 * N.of_nat (length b)) t P p HR ltac:(split; [exact Hb|lia]) Ht Hp HU HT) as (s' & E & HR' & U' & T').
  rewrite topbits_whole, (bytes_of_whole b Hb) in E.
  exists s'. split; [|auto]. cbn [null_read].
  replace (N.of_nat (length b) =? 0) with false by (symmetry; apply N.eqb_neq; lia).
  rewrite N.min_l by exact Hl. rewrite E. rewrite N.sub_diag. cbn [app]. destruct f; reflexivity.
Qed.

Theorem parse_inner_ok bsize b : b <> [] -> N.of_nat (length b) <= 8388608 -> bytes_ok b ->
  N.of_nat (length b) <= bsize -> bsize <= MAX_BLOCK ->
  parse_inner hash ck bsize (fst (inner_image hash ck b)) = PData b.
Proof.
  intros Hne Hl Hb Hbs Hmax.
  destruct (inner_image_spec b Hne Hl Hb) as (img & w & pad & Ei & Hbi & Hpad & Hlen & Himg & Hw). rewrite Ei. cbn [fst].
  pose proof (inner_aops_ok b Hne Hl Hb) as Hok. rewrite (inner_ops_eq b Hne Hl) in Himg, Hw, Hok.
  set (n := N.of_nat (length b)) in *.
  assert (Hn : 0 < n <= 8388608) by (split; [unfold n; destruct b; [congruence|cbn [length]; lia]|exact Hl]).
  destruct (data_size_bounds n Hn) as [Hd Hnd]. destruct (mode_facts n Hn) as (Hm & Hskip & Hds). cbv zeta in Hm, Hskip, Hds.
  destruct (new_ibs_ra 16384 img [] ltac:(lia) ltac:(reflexivity) Hbi) as (R0 & U0 & T0). cbv zeta in R0, U0, T0.
  unfold parse_inner. set (s0 := new_ibs 16384 (mkSrc img [] None 0)) in *.
  cbn [app] in Himg, Hw, Hok.
  apply Forall_inv_tail in Hok as Hok1. apply Forall_inv_tail in Hok1 as Hok2.
  assert (Hp0 : 0 < 2 ^ pad) by apply pow2_pos.
  (* mode byte *)
  destruct (rd_abvs s0 (block_mode n) 8 _ pad 0 R0 ltac:(lia) Hok1 Hp0 ltac:(rewrite U0, Himg; lia) ltac:(rewrite T0, Hlen, Hw; reflexivity))
    as (s1 & E1 & R1 & U1 & T1).
  rewrite E1. change (2 ^ 8) with 256. rewrite (N.mod_small _ _ Hm). rewrite Hskip. cbn [negb]. rewrite Hds.
  (* length *)
  destruct (rd_abvs s1 n (8 * data_size n) _ pad 0 R1 ltac:(lia) Hok2 Hp0 U1 T1) as (s2 & E2 & R2 & U2 & T2).
  rewrite E2. rewrite (N.mod_small _ _ Hnd).
  replace ((n =? 0) || (N.min (N.max (bsize + bsize / 2) 2048) MAX_BLOCK <? n)) with false.
  2:{ symmetry. apply orb_false_iff. split; [apply N.eqb_neq; lia|apply N.ltb_ge]. apply N.min_glb; [|unfold MAX_BLOCK; lia].
      etransitivity; [|apply N.le_max_l]. lia. }
  (* checksum, data *)
  assert (Hlast : Forall aop_ok [AArr b (8 * n)]) by (apply Forall_app in Hok2; apply Hok2).
  unfold hash_ops in U2, T2.
  destruct (ck =? 1) eqn:C1.
  - apply N.eqb_eq in C1. cbn [map conv app] in U2, T2.
    destruct (rd_abvs s2 (hash b) 32 _ pad 0 R2 ltac:(lia) Hlast Hp0 U2 T2) as (s3 & E3 & R3 & U3 & T3).
    rewrite E3. rewrite (N.mod_small _ _ (Hh32 C1 b)).
    destruct (null_read_single (N.to_nat (n / 8388608)) s3 b [] pad 0 R3 Hne Hl Hb ltac:(constructor) Hp0 U3 T3) as (s4 & E4 & _).
    fold n in E4. rewrite E4. rewrite N.eqb_refl, orb_true_r. reflexivity.
  - destruct (ck =? 2) eqn:C2.
    + apply N.eqb_eq in C2. cbn [map conv app] in U2, T2.
      destruct (rd_abvs s2 (hash b) 64 _ pad 0 R2 ltac:(lia) Hlast Hp0 U2 T2) as (s3 & E3 & R3 & U3 & T3).
      rewrite E3. rewrite (N.mod_small _ _ (Hh64 C2 b)).
      destruct (null_read_single (N.to_nat (n / 8388608)) s3 b [] pad 0 R3 Hne Hl Hb ltac:(constructor) Hp0 U3 T3) as (s4 & E4 & _).
      fold n in E4. rewrite E4. rewrite N.eqb_refl, orb_true_r. reflexivity.
    + cbn [map conv app] in U2, T2.
      destruct (null_read_single (N.to_nat (n / 8388608)) s2 b [] pad 0 R2 Hne Hl Hb ltac:(constructor) Hp0 U2 T2) as (s4 & E4 & _).
      fold n in E4. rewrite E4.
      replace (ck =? 0) with true by (symmetry; apply N.eqb_eq; apply N.eqb_neq in C1, C2; lia). reflexivity.
Qed.


(* ---------- the frame of a block in the shared bit stream ---------- *)
Definition blk_ok (bsize : N) (b : list N) : Prop :=
  b <> [] /\ N.of_nat (length b) <= 8388608 /\ bytes_ok b /\ N.of_nat (length b) <= bsize.

Definition lw_of (w : N) : N := if 8 <=? w then N.log2 (w / 8) + 4 else 3.

Definition frame_aops (b : list N) : list aop :=
  let img := fst (inner_image hash ck b) in let w := snd (inner_image hash ck b) in
  [AOp (WBits (lw_of w - 3) 5); AOp (WBits w (lw_of w)); AArr img w].

Lemma inner_w_bounds b : b <> [] -> N.of_nat (length b) <= 8388608 -> bytes_ok b ->
  16 <= snd (inner_image hash ck b) <= 67108960.
Proof.
  intros Hne Hl Hb. destruct (inner_image_spec b Hne Hl Hb) as (img & w & pad & Ei & _ & _ & _ & _ & Hw). rewrite Ei. cbn [snd].
  rewrite (inner_ops_eq b Hne Hl) in Hw.
  assert (Hn : 0 < N.of_nat (length b) <= 8388608) by (split; [destruct b; [congruence|cbn [length]; lia]|exact Hl]).
  destruct (data_size_bounds _ Hn) as [Hd _].
  unfold hash_ops in Hw. destruct (ck =? 1); [|destruct (ck =? 2)]; cbn [app map conv abvs snd aop_size op_size] in Hw; lia.
Qed.

Lemma lw_facts w : 16 <= w <= 67108960 -> 5 <= lw_of w <= 27 /\ w < 2 ^ lw_of w.
Proof.
  intros Hw. unfold lw_of. replace (8 <=? w) with true by (symmetry; apply N.leb_le; lia).
  set (q := w / 8). assert (Hq : 2 <= q < 16777216).
  { unfold q. split; [apply N.div_le_lower_bound; [discriminate|lia]|apply N.div_lt_upper_bound; [discriminate|lia]]. }
  assert (Hl : 1 <= N.log2 q <= 23).
  { split; [change 1 with (N.log2 2); apply N.log2_le_mono; lia|apply N.lt_succ_r; apply N.log2_lt_pow2; [lia|change (2 ^ N.succ 23) with 16777216; lia]]. }
  split; [lia|]. destruct (N.log2_spec q ltac:(lia)) as [_ Hu].
  pose proof (N.div_mod w 8 ltac:(discriminate)) as X. pose proof (N.mod_lt w 8 ltac:(discriminate)) as Y. fold q in X.
  replace (N.log2 q + 4) with (N.succ (N.log2 q) + 3) by lia. rewrite N.pow_add_r. change (2 ^ 3) with 8. lia.
Qed.

Lemma frame_ops_eq b : b <> [] -> N.of_nat (length b) <= 8388608 -> bytes_ok b ->
  map conv (frame_ops hash ck b) = frame_aops b.
Proof.
  intros Hne Hl Hb. pose proof (inner_w_bounds b Hne Hl Hb) as Hw. unfold frame_ops, frame_aops.
  destruct (inner_image hash ck b) as [img w]. cbn [fst snd] in *. fold (lw_of w).
  cbn [arr_chunks]. replace (w =? 0) with false by (symmetry; apply N.eqb_neq; lia).
  rewrite N.min_l by lia. rewrite N.sub_diag.
  assert (E : forall f l, arr_chunks f l 0 = []) by (intros [|f] l; reflexivity). rewrite E. reflexivity.
Qed.

Lemma frame_aops_ok b : b <> [] -> N.of_nat (length b) <= 8388608 -> bytes_ok b -> Forall aop_ok (frame_aops b).
Proof.
  intros Hne Hl Hb. pose proof (inner_w_bounds b Hne Hl Hb) as Hw. destruct (lw_facts _ Hw) as [Hlw _].
  destruct (inner_image_spec b Hne Hl Hb) as (img & w & pad & Ei & Hbi & Hpad & Hlen & _ & _).
  unfold frame_aops. rewrite Ei in *. cbn [fst snd] in *.
  repeat constructor; cbn [aop_ok wop_ok]; try lia. exact Hbi.
Qed.

(* reading one frame: the block comes back, the reader stands at the next frame *)
Lemma read_frame s bsize b t P p : RA s -> blk_ok bsize b -> bsize <= MAX_BLOCK -> Forall aop_ok t -> p < 2 ^ P ->
  uval s = fst (abvs (frame_aops b ++ t)) * 2 ^ P + p -> total s = snd (abvs (frame_aops b ++ t)) + P ->
  exists s1 s2 s3 l3 w img,
    read_bits s 5 = (s1, Val l3) /\ read_bits s1 (l3 + 3) = (s2, Val w) /\ (w =? 0) = false /\ (17179869184 <? w) = false /\
    read_img (S (N.to_nat (w / 1073741824))) s2 w [] = (s3, Some img) /\ parse_inner hash ck bsize img = PData b /\
    RA s3 /\ uval s3 = fst (abvs t) * 2 ^ P + p /\ total s3 = snd (abvs t) + P.
Proof.
  intros HR (Hne & Hl & Hb & Hbs) Hmax Ht Hp HU HT.
  pose proof (inner_w_bounds b Hne Hl Hb) as Hw. destruct (lw_facts _ Hw) as [Hlw Hwlt].
  pose proof (frame_aops_ok b Hne Hl Hb) as Hfo. pose proof (parse_inner_ok bsize b Hne Hl Hb Hbs Hmax) as Hpi.
  destruct (inner_image_spec b Hne Hl Hb) as (img & w & pad & Ei & Hbi & Hpad & Hlen & Himg & _).
  unfold frame_aops in HU, HT, Hfo. rewrite Ei in *. cbn [fst snd] in *. cbn [app] in HU, HT.
  apply Forall_inv_tail in Hfo as Hf1. apply Forall_inv_tail in Hf1 as Hf2.
  assert (Ht2 : Forall aop_ok (AArr img w :: t)) by (constructor; [apply Forall_inv in Hf2; exact Hf2|exact Ht]).
  assert (Ht1 : Forall aop_ok (AOp (WBits w (lw_of w)) :: AArr img w :: t)) by (constructor; [apply Forall_inv in Hf1; exact Hf1|exact Ht2]).
  destruct (rd_abvs s (lw_of w - 3) 5 _ P p HR ltac:(lia) Ht1 Hp HU HT) as (s1 & E1 & R1 & U1 & T1).
  change (2 ^ 5) with 32 in E1. rewrite N.mod_small in E1 by lia.
  destruct (rd_abvs s1 w (lw_of w) _ P p R1 ltac:(lia) Ht2 Hp U1 T1) as (s2 & E2 & R2 & U2 & T2).
  rewrite (N.mod_small _ _ Hwlt) in E2.
  destruct (ra_abvs s2 img w t P p R2 ltac:(apply Forall_inv in Hf2; exact Hf2) Ht Hp U2 T2) as (s3 & E3 & R3 & U3 & T3).
  assert (Eimg : bytes_of (topbits img w) w w = img).
  { unfold topbits. replace (8 * N.of_nat (length img) - w) with pad by lia.
    apply (bytes_of_image img w pad Hbi Hlen Hpad). rewrite Himg. apply N.mod_mul. apply N.pow_nonzero. discriminate. }
  rewrite Eimg in E3.
  exists s1, s2, s3, (lw_of w - 3), w, img.
  split; [exact E1|]. split; [replace (lw_of w - 3 + 3) with (lw_of w) by lia; exact E2|].
  split; [apply N.eqb_neq; lia|]. split; [apply N.ltb_ge; lia|].
  split; [|auto].
  cbn [read_img]. replace (w =? 0) with false by (symmetry; apply N.eqb_neq; lia). rewrite N.min_l by lia. rewrite E3.
  rewrite N.sub_diag. cbn [app]. destruct (N.to_nat (w / 1073741824)); reflexivity.
Qed.

Definition end_aops : list aop := [AOp (WBits 0 5); AOp (WBits 0 3)].

Lemma abvs_app_ok a b : Forall aop_ok a -> Forall aop_ok b -> Forall aop_ok (a ++ b).
Proof. intros; apply Forall_app; split; assumption. Qed.

Lemma frames_ok bsize blocks : Forall (blk_ok bsize) blocks -> Forall aop_ok (flat_map frame_aops blocks ++ end_aops).
Proof.
  induction 1 as [|b t (Hne & Hl & Hb & _) _ IH]; cbn [flat_map app].
  - repeat constructor; cbn; lia.
  - rewrite <- app_assoc. apply abvs_app_ok; [apply frame_aops_ok; assumption|exact IH].
Qed.

(* all the frames, then the end marker *)
Theorem parse_frames_ok bsize : bsize <= MAX_BLOCK -> forall blocks fuel s P p, RA s -> Forall (blk_ok bsize) blocks -> p < 2 ^ P ->
  (length blocks < fuel)%nat ->
  uval s = fst (abvs (flat_map frame_aops blocks ++ end_aops)) * 2 ^ P + p ->
  total s = snd (abvs (flat_map frame_aops blocks ++ end_aops)) + P ->
  parse_frames hash fuel ck bsize s = map PData blocks ++ [PEnd].
Proof.
  intros Hmax. induction blocks as [|b t IH]; intros fuel s P p HR Hok Hp Hfu HU HT.
  - destruct fuel as [|f]; [cbn [length] in Hfu; lia|]. cbn [flat_map app] in HU, HT. unfold end_aops in HU, HT. cbn [parse_frames map app].
    destruct (rd_abvs s 0 5 [AOp (WBits 0 3)] P p HR ltac:(lia) ltac:(repeat constructor; cbn; lia) Hp HU HT) as (s1 & E1 & R1 & U1 & T1).
    rewrite E1. change (0 mod 2 ^ 5) with 0. change (0 + 3) with 3.
    destruct (rd_abvs s1 0 3 [] P p R1 ltac:(lia) ltac:(constructor) Hp U1 T1) as (s2 & E2 & _).
    rewrite E2. reflexivity.
  - destruct fuel as [|f]; [cbn [length] in Hfu; lia|]. cbn [length] in Hfu.
    inversion Hok as [|? ? Hb Ht]; subst. cbn [flat_map] in HU, HT. rewrite <- app_assoc in HU, HT.
    destruct (read_frame s bsize b _ P p HR Hb Hmax (frames_ok bsize t Ht) Hp HU HT)
      as (s1 & s2 & s3 & l3 & w & img & E1 & E2 & W0 & W1 & E3 & Epi & R3 & U3 & T3).
    cbn [parse_frames map app]. rewrite E1, E2, W0, W1, E3, Epi. f_equal.
    apply (IH f s3 P p R3 Ht Hp ltac:(lia) U3 T3).
Qed.

End INNER.


(* ---------- the whole stream ---------- *)
Lemma abvs_fields fs rest : abvs (map (fun f => AOp (WBits (fst f) (snd f))) fs ++ rest) = vec fs (abvs rest).
Proof.
  induction fs as [|f t IH]; [reflexivity|]. cbn [map app abvs vec fold_right aop_val aop_size op_val op_size]. fold (vec t (abvs rest)).
  rewrite IH. reflexivity.
Qed.

Section STREAM.
Variable hash : list N -> N.
Variables evalid tvalid : N -> bool.
Variable c : hcfg.
Hypothesis Hc : cfg_ok evalid tvalid c.
Hypothesis H32 : h_ck c = 1 -> forall l, hash l < 2 ^ 32.
Hypothesis H64 : h_ck c = 2 -> forall l, hash l < 2 ^ 64.

Lemma stream_aops blocks : Forall (blk_ok (h_bsize c)) blocks ->
  map conv (stream_ops hash c blocks) =
  map (fun f => AOp (WBits (fst f) (snd f))) (header_fields c) ++ flat_map (frame_aops hash (h_ck c)) blocks ++ end_aops.
Proof.
  intros Hok. unfold stream_ops. rewrite !map_app, map_map. f_equal. f_equal.
  induction Hok as [|b t (Hne & Hl & Hb & _) _ IH]; [reflexivity|]. cbn [flat_map]. rewrite map_app, IH. f_equal.
  apply (frame_ops_eq hash (h_ck c) (ck_ok _ _ _ Hc) H32 H64); assumption.
Qed.

(* the header of a written stream is parsed back, and the reader then stands at the first frame *)
Lemma container_header blocks rbuf sched :
  Forall (blk_ok (h_bsize c)) blocks -> 0 < rbuf -> rbuf mod 8 = 0 ->
  let rest := flat_map (frame_aops hash (h_ck c)) blocks ++ end_aops in
  exists pad sH, pad < 8 /\ bytes_ok (write_stream hash c blocks) /\
    read_header evalid tvalid (new_ibs rbuf (mkSrc (write_stream hash c blocks) sched None 0)) = (sH, HOk (norm_cfg c)) /\
    RA sH /\ uval sH = fst (abvs rest) * 2 ^ pad + 0 /\ total sH = snd (abvs rest) + pad.
Proof.
  intros Hbl Hr Hr8 rest.
  pose proof (ck_ok _ _ _ Hc) as Hck. destruct (bs_ok _ _ _ Hc) as [[_ Hmax] _].
  destruct (header_fields_ok c Hck) as [Hfo _].
  assert (Hrest : Forall aop_ok rest) by (apply (frames_ok hash (h_ck c) Hck H32 H64 (h_bsize c)); exact Hbl).
  assert (Hall : Forall aop_ok (map conv (stream_ops hash c blocks))).
  { rewrite (stream_aops blocks Hbl). apply Forall_app. split; [|exact Hrest].
    apply Forall_forall. intros o Ho. apply in_map_iff in Ho. destruct Ho as (f & <- & Hf).
    cbn [aop_ok wop_ok]. rewrite Forall_forall in Hfo. specialize (Hfo f Hf). unfold field_ok in Hfo. clear - Hfo. lia. }
  destruct (array_image 65536 _ ltac:(clear; lia) ltac:(reflexivity) Hall) as (s1 & s2 & pad & V & L & E1 & E2 & EV & Hcl & Hpad & Hlen & Himg & _).
  unfold write_stream. rewrite run_cops_conv, E1. change (close healthy_sink s1) with (close healthy s1). rewrite E2.
  assert (Hob : bytes_ok (o_out s2)).
  { eapply close_obok; [|exact E2]. eapply run_aops_obok; [|exact Hall|exact E1]. split; constructor. }
  destruct (new_ibs_ra rbuf (o_out s2) sched Hr Hr8 Hob) as (R0 & U0 & T0). cbv zeta in R0, U0, T0.
  rewrite fold_abvs in EV. cbn [fst snd] in EV. rewrite N.mul_0_l, !N.add_0_l in EV.
  rewrite (stream_aops blocks Hbl) in EV. fold rest in EV. rewrite abvs_fields in EV.
  set (r := (fst (abvs rest) * 2 ^ pad, snd (abvs rest) + pad)).
  assert (Hrl : fst r < 2 ^ snd r).
  { unfold r. cbn [fst snd]. rewrite N.pow_add_r. pose proof (abvs_lt rest Hrest) as X. pose proof (pow2_pos pad) as Y. clear - X Y. nia. }
  set (s0 := new_ibs rbuf (mkSrc (o_out s2) sched None 0)) in *.
  assert (Hv : (uval s0, total s0) = vec (header_fields c) r).
  { rewrite U0, T0, Himg, Hlen. unfold r. rewrite <- vec_shift. injection EV as -> ->. reflexivity. }
  pose (Q := fun s : ibs => AL s /\ i_size s mod 8 = 0).
  assert (Qstep : forall s cnt s' v, AInv s -> Q s -> read_bits s cnt = (s', Val v) -> Q s').
  { intros s cnt s' v HA [HAL Hs8] E. unfold read_bits in E.
    destruct (read_bits_al 66 s cnt s' v (ai_i s HA) HAL Hs8 E) as [A B]. split; [exact A|rewrite B; exact Hs8]. }
  destruct (header_parse evalid tvalid Q Qstep c s0 r Hc (ra_a _ R0) (conj (ra_al _ R0) (ra_sz _ R0)) Hrl Hv) as (s' & Eh & A' & R' & [QA QS]).
  injection R' as RU RT.
  exists pad, s'. split; [exact Hpad|]. split; [exact Hob|]. split; [exact Eh|]. split; [exact (Build_RA s' A' QA QS)|].
  split; [rewrite RU; clear; lia|exact RT].
Qed.

Theorem container_roundtrip blocks nframes rbuf sched :
  Forall (blk_ok (h_bsize c)) blocks -> (length blocks < nframes)%nat -> 0 < rbuf -> rbuf mod 8 = 0 ->
  parse_stream hash evalid tvalid nframes rbuf sched (write_stream hash c blocks) = Some (norm_cfg c, map PData blocks ++ [PEnd]).
Proof.
  intros Hbl Hfu Hr Hr8.
  pose proof (ck_ok _ _ _ Hc) as Hck. destruct (bs_ok _ _ _ Hc) as [[_ Hmax] _].
  destruct (container_header blocks rbuf sched Hbl Hr Hr8) as (pad & sH & Hpad & _ & Eh & RH & UH & TH). cbv zeta in UH, TH.
  unfold parse_stream. rewrite Eh. f_equal. f_equal.
  change (h_ck (norm_cfg c)) with (h_ck c). change (h_bsize (norm_cfg c)) with (h_bsize c).
  exact (parse_frames_ok hash (h_ck c) Hck H32 H64 (h_bsize c) Hmax blocks nframes sH pad 0 RH Hbl (pow2_pos pad) Hfu UH TH).
Qed.

End STREAM.
