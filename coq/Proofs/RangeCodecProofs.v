(* The range codec, whole (entropy/RangeCodec.go, Write then Read): for every block of bytes, of any length,
   RangeDecoder.Read on the bytes RangeEncoder.Write produced returns the block.  Per chunk of 32768 bytes:
   NormalizeFrequencies on the histogram (C16), the header (alphabet, scale, frequencies), then the carry-less
   coder of Proofs/RangeCoreProofs.v; a chunk of one distinct symbol has a header only. *)
From Coq Require Import List NArith ZArith Lia Bool Sorted Arith ZifyN ZifyNat ZifyBool.
From KV Require Import Lib.ListX Model.OutBS Model.InBS Model.Container Model.Normalize Model.Alphabet Model.RangeCodec Lib.Bits
  Proofs.OutBSProofs Proofs.InBSProofs Proofs.MirrorProofs Proofs.BinCoderProofs Proofs.NormalizeProofs Proofs.ArrayProofs Proofs.ReadArrayProofs
  Proofs.MirrorArrayProofs Proofs.ContainerProofs Proofs.AlphabetProofs Proofs.RangeHeaderProofs Proofs.RangeChunkProofs
  Proofs.RangeCoreProofs.
Import ListNotations.
Open Scope N_scope.
Ltac Zify.zify_post_hook ::= idtac.
Local Arguments N.pow : simpl never.
Local Arguments Z.pow : simpl never.

Lemma tot_sumN l : tot l = sumN l.
Proof. induction l as [|x t IH]; [reflexivity|]. cbn [tot sumN]. rewrite IH. reflexivity. Qed.

Lemma all_one_symbol (a : N) : forall buf : list N, Forall (fun b => In b [a]) buf -> buf = repeat a (length buf).
Proof.
  induction buf as [|b t IH]; intros H; [reflexivity|]. pose proof (Forall_inv H) as Hb. pose proof (Forall_inv_tail H) as Ht.
  cbn [length repeat]. destruct Hb as [<-|[]]. f_equal. apply IH. exact Ht.
Qed.

Lemma final_ok low : aop_ok (conv (CBits low 60)).
Proof. cbn [conv aop_ok wop_ok]. lia. Qed.

(* ---------- one chunk ---------- *)
Lemma chunk_step buf : buf <> [] -> bytes_ok buf ->
  exists cops fr, enc_chunk buf = Some cops /\ cops_ok cops /\ length fr = 256%nat /\
    forall f s remaining fr0 acc t P p, RA s -> length fr0 = 256%nat -> Forall aop_ok t -> p < 2 ^ P ->
      length buf = Nat.min CHUNK remaining ->
      uval s = fst (abvs (map conv cops ++ t)) * 2 ^ P + p -> total s = snd (abvs (map conv cops ++ t)) + P ->
      exists s', dec_chunks (S f) s remaining fr0 acc = dec_chunks f s' (remaining - length buf) fr (acc ++ buf) /\ RA s' /\
        uval s' = fst (abvs t) * 2 ^ P + p /\ total s' = snd (abvs t) + P.
Proof.
  intros Hne Hb.
  destruct (range_chunk_table buf Hne Hb) as (frz & al & hops & Hn & Hh & Hlr & Hs & Hane & Htab & Hlr12 & Htot & Hin).
  cbv zeta in Hn, Hh, Hlr, Htab, Hlr12, Htot.
  set (lr := lower_lr 8 LOG_RANGE (N.of_nat (length buf))) in *. set (fr := tab_of frz) in *. set (alpha := alpha_of al) in *.
  pose proof (header_ops_ok lr alpha fr hops Hlr Htab Hh) as Hhops.
  destruct Htab as (Hflen & Hfall & Hssum & Hzero).
  assert (Htab : table_ok lr alpha fr) by (split; [exact Hflen|split; [exact Hfall|split; [exact Hssum|exact Hzero]]]).
  assert (Hsym : Forall (sym_in fr) buf).
  { apply Forall_forall. intros b Hbin. rewrite Forall_forall in Hin, Hfall. apply Hfall. apply Hin. exact Hbin. }
  assert (Hlen1 : (1 <= length alpha)%nat) by (destruct alpha; [congruence|cbn [length]; lia]).
  assert (Hrem : forall remaining, length buf = Nat.min CHUNK remaining -> Nat.eqb remaining 0 = false).
  { intros rem Hl. apply Nat.eqb_neq. intros ->. rewrite Nat.min_0_r in Hl. destruct buf; [congruence|discriminate Hl]. }
  unfold enc_chunk. cbv zeta. fold lr. rewrite Hn. change (map Z.to_N frz) with fr. change (map N.of_nat al) with alpha. rewrite Hh.
  destruct (Nat.leb (length alpha) 1) eqn:E1.
  - (* one distinct symbol: a header only *)
    apply Nat.leb_le in E1. assert (El : length alpha = 1%nat) by lia.
    exists hops, fr. split; [reflexivity|]. split; [exact Hhops|]. split; [exact Hflen|].
    intros f s remaining fr0 acc t P p HR Hl0 Ht Hp Hbl HU HT.
    destruct (range_header_roundtrip lr alpha fr hops s fr0 t P p Hlr Hs Hane Htab Hl0 Hh HR Ht Hp HU HT) as (s' & Ed & HR' & U' & T').
    exists s'. split; [|auto]. cbn [dec_chunks]. rewrite (Hrem remaining Hbl), Ed, El. cbn [Nat.eqb]. rewrite <- Hbl.
    f_equal. f_equal. destruct alpha as [|a [|a2 r]]; try discriminate El. cbn [hd]. symmetry. apply all_one_symbol. exact Hin.
  - apply Nat.leb_gt in E1.
    destruct (range_core_roundtrip lr fr buf ltac:(lia) Hflen ltac:(rewrite tot_sumN; exact Htot) Hsym) as (lowf & ops & Ee & Hops & Hdec).
    rewrite Ee. exists (hops ++ ops ++ [CBits lowf 60]), fr. split; [reflexivity|].
    split; [apply cops_ok_app; [exact Hhops|exact Hops]|]. split; [exact Hflen|].
    intros f s remaining fr0 acc t P p HR Hl0 Ht Hp Hbl HU HT.
    rewrite map_app, <- app_assoc in HU, HT.
    assert (Ht2 : Forall aop_ok (map conv (ops ++ [CBits lowf 60]) ++ t)) by (apply Forall_app; split; [exact Hops|exact Ht]).
    destruct (range_header_roundtrip lr alpha fr hops s fr0 _ P p Hlr Hs Hane Htab Hl0 Hh HR Ht2 Hp HU HT) as (s1 & Ed & HR1 & U1 & T1).
    destruct (Hdec s1 t P p HR1 Ht Hp U1 T1) as (s2 & code & s3 & Er & Eb & HR3 & U3 & T3).
    exists s3. split; [|auto]. cbn [dec_chunks]. rewrite (Hrem remaining Hbl), Ed.
    replace (Nat.eqb (length alpha) 1) with false by (symmetry; apply Nat.eqb_neq; lia).
    rewrite Er. rewrite <- Hbl. rewrite Eb. reflexivity.
Qed.

(* ---------- all the chunks of a block ---------- *)
Lemma chunk_pos : (0 < CHUNK)%nat.
Proof. unfold CHUNK. apply Nat.lt_0_succ. Qed.

Lemma chunks_roundtrip : forall f block, bytes_ok block -> (length block <= f * CHUNK)%nat ->
  exists allops, enc_chunks f block = Some allops /\ cops_ok allops /\
    forall s fr0 acc t P p, RA s -> length fr0 = 256%nat -> Forall aop_ok t -> p < 2 ^ P ->
      uval s = fst (abvs (map conv allops ++ t)) * 2 ^ P + p -> total s = snd (abvs (map conv allops ++ t)) + P ->
      dec_chunks f s (length block) fr0 acc = ROk (acc ++ block).
Proof.
  induction f as [|f IH]; intros block Hb Hl.
  - destruct block; [|cbn [length] in Hl; lia]. exists []. split; [reflexivity|]. split; [constructor|]. intros. rewrite app_nil_r. reflexivity.
  - destruct block as [|x xs].
    + exists []. split; [reflexivity|]. split; [constructor|]. intros. rewrite app_nil_r. reflexivity.
    + remember (x :: xs) as block eqn:Eblk. pose proof chunk_pos as HC.
      set (buf := firstn CHUNK block). set (rest := skipn CHUNK block).
      assert (Hbuf : buf <> []). { unfold buf. rewrite Eblk. destruct CHUNK; [lia|]. discriminate. }
      assert (Hbb : bytes_ok buf) by (apply bytes_ok_firstn; exact Hb).
      assert (Hbr : bytes_ok rest) by (apply bytes_ok_skipn; exact Hb).
      assert (Hlr : (length rest <= f * CHUNK)%nat) by (unfold rest; rewrite skipn_length; lia).
      destruct (chunk_step buf Hbuf Hbb) as (cops & fr & Ec & Hcops & Hfl & Hstep).
      destruct (IH rest Hbr Hlr) as (restops & Er & Hrops & Hrest).
      assert (Eenc : enc_chunks (S f) block = Some (cops ++ restops)).
      { rewrite Eblk. cbn [enc_chunks]. rewrite <- Eblk. fold buf rest. rewrite Ec, Er. reflexivity. }
      exists (cops ++ restops). split; [exact Eenc|]. split; [apply cops_ok_app; assumption|].
      intros s fr0 acc t P p HR Hl0 Ht Hp HU HT. rewrite map_app, <- app_assoc in HU, HT.
      assert (Hlb : length buf = Nat.min CHUNK (length block)) by (unfold buf; apply firstn_length).
      destruct (Hstep f s (length block) fr0 acc (map conv restops ++ t) P p HR Hl0 ltac:(apply Forall_app; split; assumption) Hp Hlb HU HT)
        as (s' & Ed & HR' & U' & T').
      rewrite Ed. replace (length block - length buf)%nat with (length rest) by (unfold rest; rewrite skipn_length, Hlb; lia).
      rewrite (Hrest s' fr (acc ++ buf) t P p HR' Hfl Ht Hp U' T'). rewrite <- app_assoc. unfold buf, rest. rewrite firstn_skipn. reflexivity.
Qed.

(* ---------- Write, Close, then Read ---------- *)
Theorem range_codec_roundtrip block : bytes_ok block ->
  exists bytes, range_encode block = Some bytes /\ range_decode (length block) bytes = ROk block.
Proof.
  intros Hb. pose proof chunk_pos as HC.
  assert (Hfuel : (length block <= S (length block / CHUNK) * CHUNK)%nat).
  { pose proof (Nat.div_mod (length block) CHUNK ltac:(lia)) as E. pose proof (Nat.mod_upper_bound (length block) CHUNK ltac:(lia)) as L.
    set (q := (length block / CHUNK)%nat) in *. set (r := (length block mod CHUNK)%nat) in *. clearbody q r. rewrite E. clear - L. nia. }
  destruct (chunks_roundtrip _ block Hb Hfuel) as (allops & Ee & Hall & Hdec).
  unfold range_encode. rewrite Ee. rewrite run_cops_conv.
  destruct (array_image 1024 (map conv allops) ltac:(lia) ltac:(reflexivity) Hall) as (s1 & s2 & pad & V0 & L0 & E1 & E2 & EV & Hcl & Hpad & Hlen & Himg & _).
  rewrite E1. change (OutBS.close healthy_sink s1) with (OutBS.close OutBSProofs.healthy s1). rewrite E2.
  exists (o_out s2). split; [reflexivity|].
  assert (Hob : bytes_ok (o_out s2)).
  { eapply close_obok; [|exact E2]. eapply run_aops_obok; [|exact Hall|exact E1]. split; constructor. }
  destruct (new_ibs_ra 1024 (o_out s2) [] ltac:(lia) ltac:(reflexivity) Hob) as (R0 & U0 & T0). cbv zeta in R0, U0, T0.
  rewrite fold_abvs in EV. cbn [fst snd] in EV. rewrite N.mul_0_l, !N.add_0_l in EV. injection EV as EV1 EV2.
  unfold range_decode.
  rewrite (Hdec _ (repeat 0 256) [] [] pad 0 R0 (repeat_length _ _) (Forall_nil _) (pow2_pos pad)
             ltac:(rewrite app_nil_r, U0, Himg, EV1; lia) ltac:(rewrite app_nil_r, T0, Hlen, EV2; reflexivity)).
  reflexivity.
Qed.
