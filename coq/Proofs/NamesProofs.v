(* Codec names: packing round trip, case-insensitivity, table inversion (C15). *)
From Coq Require Import List ZArith String Ascii Bool Lia.
From KV Require Import Model.Names.
Import ListNotations.
Open Scope Z_scope.

(* ---------- 6-bit packing ---------- *)
Lemma pack_l_app l d : pack_l (l ++ [d]) = pack_l l * 64 + d.
Proof. unfold pack_l. rewrite fold_left_app. reflexivity. Qed.

Lemma pack_l_nonneg l : Forall (fun d => 0 <= d < 64) l -> 0 <= pack_l l.
Proof.
  induction l as [|d l IH] using rev_ind; intros H; [cbn; lia|].
  rewrite pack_l_app. apply Forall_app in H. destruct H as [Hl Hd]. inversion Hd; subst.
  specialize (IH Hl). lia.
Qed.

Lemma unpack_pack l : Forall (fun d => 0 <= d < 64) l -> unpack_n (List.length l) (pack_l l) = l.
Proof.
  induction l as [|d l IH] using rev_ind; intros H; [reflexivity|].
  apply Forall_app in H. destruct H as [Hl Hd]. inversion Hd as [|? ? Hd1 _]; subst.
  rewrite app_length, Nat.add_comm. cbn [List.length plus unpack_n]. rewrite pack_l_app.
  replace ((pack_l l * 64 + d) / 64) with (pack_l l) by (apply (Z.div_unique _ 64 _ d); lia).
  replace ((pack_l l * 64 + d) mod 64) with d by (apply (Z.mod_unique _ 64 (pack_l l)); lia).
  rewrite IH by exact Hl. reflexivity.
Qed.

Lemma pad8_length l : (List.length l <= 8)%nat -> List.length (pad8 l) = 8%nat.
Proof. intros H. unfold pad8. rewrite app_length, repeat_length. lia. Qed.

Lemma pad8_digits l : Forall (fun d => 0 <= d < 64) l -> Forall (fun d => 0 <= d < 64) (pad8 l).
Proof.
  intros H. unfold pad8. apply Forall_app. split; [exact H|].
  apply Forall_forall. intros x Hx. apply repeat_spec in Hx. subst. lia.
Qed.

(* the slots of a packed chain are the chain followed by NONE fillers *)
Theorem slots_pack ts : (List.length ts <= 8)%nat -> Forall (fun d => 0 <= d < 64) ts ->
  slots (pack ts) = pad8 ts.
Proof.
  intros Hl Hd. unfold slots, pack. rewrite <- (pad8_length ts Hl) at 1.
  apply unpack_pack, pad8_digits, Hd.
Qed.

(* ---------- upper-casing ---------- *)
Lemma upper_ascii_idem c : upper_ascii (upper_ascii c) = upper_ascii c.
Proof.
  unfold upper_ascii.
  destruct (Nat.leb 97 (nat_of_ascii c) && Nat.leb (nat_of_ascii c) 122) eqn:E; [|rewrite E; reflexivity].
  apply andb_true_iff in E. destruct E as [E1 E2]. apply Nat.leb_le in E1, E2.
  rewrite nat_ascii_embedding by lia.
  replace (Nat.leb 97 (nat_of_ascii c - 32)) with false by (symmetry; apply Nat.leb_gt; lia).
  reflexivity.
Qed.

Lemma upper_idem s : upper (upper s) = upper s.
Proof. induction s as [|c r IH]; cbn; [reflexivity|]. rewrite upper_ascii_idem, IH. reflexivity. Qed.

Lemma upper_ascii_plus c : Ascii.eqb (upper_ascii c) "+"%char = Ascii.eqb c "+"%char.
Proof.
  unfold upper_ascii.
  destruct (Nat.leb 97 (nat_of_ascii c) && Nat.leb (nat_of_ascii c) 122) eqn:E; [|reflexivity].
  apply andb_true_iff in E. destruct E as [E1 E2]. apply Nat.leb_le in E1, E2.
  destruct (Ascii.eqb_spec c "+"%char) as [->|Hc]; [cbn in E1; lia|].
  apply Ascii.eqb_neq. intros H. apply (f_equal nat_of_ascii) in H.
  rewrite nat_ascii_embedding in H by lia. cbn in H. lia.
Qed.

Lemma upper_app a b : upper (a ++ b)%string = (upper a ++ upper b)%string.
Proof. induction a as [|c r IH]; cbn; [reflexivity|]. rewrite IH. reflexivity. Qed.

Lemma split_upper s : forall cur, split_plus (upper s) (upper cur) = map upper (split_plus s cur).
Proof.
  induction s as [|c r IH]; intros cur; cbn [upper split_plus map]; [reflexivity|].
  rewrite upper_ascii_plus. destruct (Ascii.eqb c "+"%char).
  - cbn [map]. f_equal. apply (IH EmptyString).
  - rewrite <- IH. rewrite upper_app. reflexivity.
Qed.

Section Tables.
Variable n2t : list (string * Z).
Variable t2n : list (Z * string).

Lemma token_type_upper tok : token_type n2t true (upper tok) = token_type n2t true tok.
Proof. unfold token_type. rewrite upper_idem. reflexivity. Qed.

Lemma token_types_upper toks : token_types n2t true (map upper toks) = token_types n2t true toks.
Proof.
  induction toks as [|t r IH]; [reflexivity|]. cbn [map token_types]. rewrite token_type_upper, IH. reflexivity.
Qed.

(* names are accepted in any letter case and denote the same type *)
Theorem get_type_case_insensitive name : get_type n2t true (upper name) = get_type n2t true name.
Proof.
  unfold get_type, get_type_toks.
  change (split_plus (upper name) EmptyString) with (split_plus (upper name) (upper EmptyString)).
  rewrite split_upper, map_length, token_types_upper. reflexivity.
Qed.

(* the tables are mutually inverse, types are 6-bit values, NONE is 0 *)
Definition tables_ok : bool :=
  forallb (fun '(n, t) => match assoc_z t2n t with Some n' => String.eqb n n' | None => false end) n2t &&
  forallb (fun '(t, n) => match assoc_s n2t n with Some t' => t =? t' | None => false end) t2n &&
  forallb (fun '(n, t) => (0 <=? t) && (t <? 64) && (String.eqb (upper n) n)) n2t &&
  match assoc_s n2t "NONE" with Some 0 => true | _ => false end.

Hypothesis Hok : tables_ok = true.

Lemma assoc_s_in k t : assoc_s n2t k = Some t -> In (k, t) n2t.
Proof.
  induction n2t as [|[n u] r IH]; cbn; [discriminate|].
  destruct (String.eqb_spec n k) as [->|]; intros H; [inversion H; subst; left; reflexivity|right; auto].
Qed.

Lemma n2t_entry k t : assoc_s n2t k = Some t ->
  assoc_z t2n t = Some k /\ 0 <= t < 64.
Proof.
  intros H. apply assoc_s_in in H.
  pose proof Hok as K. unfold tables_ok in K.
  apply andb_true_iff in K. destruct K as [K K4].
  apply andb_true_iff in K. destruct K as [K K3].
  apply andb_true_iff in K. destruct K as [K1 K2].
  rewrite forallb_forall in K1. specialize (K1 _ H). cbn in K1.
  rewrite forallb_forall in K3. specialize (K3 _ H). cbn in K3.
  apply andb_true_iff in K3. destruct K3 as [K3 _].
  apply andb_true_iff in K3. destruct K3 as [Klo Khi].
  destruct (assoc_z t2n t) as [n'|]; [|discriminate]. apply String.eqb_eq in K1. subst n'.
  split; [reflexivity|]. apply Z.leb_le in Klo. apply Z.ltb_lt in Khi. lia.
Qed.

(* canonical form of a chain of tokens: upper case, NONE elements removed *)
Definition canonical (toks : list string) : list string :=
  filter (fun n => match assoc_s n2t n with Some 0 => false | _ => true end) (map upper toks).

Lemma token_types_names toks : forall ts, token_types n2t true toks = Some ts ->
  Forall (fun d => 0 <= d < 64) ts /\ (List.length ts <= List.length toks)%nat /\
  names_of t2n ts = Some (canonical toks) /\ Forall (fun d => d <> 0) ts.
Proof.
  induction toks as [|tok r IH]; intros ts H.
  - inversion H; subst. repeat split; auto.
  - cbn [token_types] in H. destruct (token_type n2t true tok) as [t|] eqn:Et; [|discriminate].
    destruct (token_types n2t true r) as [ts'|] eqn:Er; [|discriminate].
    destruct (IH ts' eq_refl) as (D & L & N & NZ).
    unfold token_type in Et. destruct (n2t_entry _ _ Et) as [Hinv Hr].
    unfold canonical. cbn [map filter]. rewrite Et.
    destruct (t =? 0) eqn:E0; inversion H; subst ts.
    + apply Z.eqb_eq in E0. subst t. repeat split; auto. cbn [List.length]. lia.
    + apply Z.eqb_neq in E0. destruct t; try congruence; (repeat split; [constructor; auto|cbn [List.length]; lia| |constructor; auto]);
        cbn [names_of]; (replace (_ =? 0) with false by (symmetry; apply Z.eqb_neq; lia));
        rewrite Hinv; unfold canonical in N; rewrite N; reflexivity.
Qed.

Lemma names_of_zeros m : names_of t2n (repeat 0 m) = Some [].
Proof. induction m as [|m IH]; cbn [repeat names_of]; [reflexivity|]. cbn. exact IH. Qed.

Lemma names_of_app_zeros r m : names_of t2n (r ++ repeat 0 m) = names_of t2n r.
Proof.
  induction r as [|x q IH]; cbn [app names_of].
  - apply names_of_zeros.
  - destruct (x =? 0); [exact IH|]. rewrite IH. reflexivity.
Qed.

Lemma names_of_pad ts : names_of t2n (pad8 ts) = names_of t2n ts.
Proof. unfold pad8. apply names_of_app_zeros. Qed.

(* name -> type -> name yields the canonical chain, for every chain of at most 8 known tokens
   in any letter case, NONE fillers anywhere *)
Theorem name_type_name toks t : get_type_toks n2t true toks = Some t ->
  get_name_toks t2n t = Some (match canonical toks with [] => ["NONE"%string] | c => c end).
Proof.
  unfold get_type_toks. destruct (Nat.ltb 8 (List.length toks)) eqn:El; [discriminate|].
  apply Nat.ltb_ge in El.
  destruct (token_types n2t true toks) as [ts|] eqn:Et; [|discriminate].
  cbn [option_map]. intros H. inversion H; subst t. clear H.
  destruct (token_types_names toks ts Et) as (D & L & N & NZ).
  unfold get_name_toks. rewrite slots_pack by (auto; lia). rewrite names_of_pad, N.
  destruct (canonical toks); [|reflexivity].
  pose proof Hok as K. unfold tables_ok in K.
  apply andb_true_iff in K. destruct K as [_ K4].
  destruct (assoc_s n2t "NONE") as [z|] eqn:En; [|discriminate]. destruct z; try discriminate.
  destruct (n2t_entry _ _ En) as [Hinv _]. rewrite Hinv. reflexivity.
Qed.

End Tables.

(* a variant site that upper-cases its operand selects the same variant for every spelling *)
Theorem site_case_insensitive lit s : site_selects true lit (upper s) = site_selects true lit s.
Proof. unfold site_selects. rewrite upper_idem. reflexivity. Qed.
